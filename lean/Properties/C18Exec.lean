import PseudoProofs.CallLemmas
import PseudoProofs.FuelMono
import Properties.C18
/-!
# C18 for programs: the calendar built-ins, date literals and date comparisons on the evaluator

`Properties/C18.lean` proves the property about the pure calendar (`Calendar.setDate`, `dayIndex`, `key`). Here the same facts are
proved about RUNS of `evalExpr`:

1. `C18_exec_setdate` (`_valid`, `_invalid`, `_iff`): `SETDATE(d, m, y)` on three integer literals returns the date `⟨y, m, d⟩`
   exactly when `(d, m, y)` is a Gregorian date of a year in −32767 … 32767 (`C18_valid_iff`). The call runs in an activation of
   its own: after a normal return the state is `{ σ with nextId := σ.nextId + 1 }`. A refused date ends in the runtime diagnostic
   `invalidDate` raised by `rtErr0` inside that activation: position 0,0, trace `SETDATE (0,0) :: caller (position of the
   call) :: …`; the final state is NOT `σ` with one more activation number only: the depth counter and the caller's call-site
   mark stay as they were during the call (the model does not unwind them on an error; the run is over anyway).
2. `C18_exec_dateFun` (and `C18_exec_day`, `_month`, `_year`, `_dayindex`): `DAY(e)` … for ANY argument expression `e` that
   evaluates (σ → σ') to a DATE value; `C18_exec_dateFun_arg_error`: a diagnostic of the argument is the diagnostic of the
   call; the compositions `C18_exec_day_setdate`, `_month_setdate`, `_year_setdate`, `_dayindex_setdate` (two activations,
   `nextId + 2`); `C18_exec_dayindex_next_day` (`C18_dayindex_step` on runs); `C18_exec_today`, `C18_exec_dayindex_today`.
3. `C18_exec_dateLit` (`_valid`, `_iff`), `C18_exec_dateLit_vs_setdate`: a literal is decided by the same `Calendar.setDate`;
   same value; a refused literal's diagnostic is at the literal's token, in the current activation, state unchanged.
4. `C18_exec_cmp_dates`, `C18_exec_cmp_chrono_run`, `C18_exec_cmp_chrono`, `C18_exec_cmp_dateLits`, `C18_exec_cmp_setdates`:
   the six comparison operators on two DATE values agree with chronological order (`chrono`), PROVIDED both values are
   calendar dates. The proviso is necessary: a DATE variable that was never assigned holds `⟨0, 0, 0⟩` and compares as
   earlier than 31 December of the year −1 (kernel-checked counterexample at the end of the file).

Helper lemmas: namespace `Pseudo.C18ExecL` (`run_callFun_builtin`: the decomposition of a call of a built-in function).
-/
namespace Pseudo
namespace C18ExecL
open CallLemmas ArrayLemmas Calendar

/-- the outcome of a call of a built-in function from the outcome of `runBuiltin` (run in the callee's state) -/
def builtinResult (callerId : Nat) : Except Stop Val × St → Except Stop Val × St
  | (.ok v, σ4) => (.ok v, clearSwitch (decDepth (popSt σ4)) callerId)
  | (.error e, σ4) => (.error e, popSt σ4)

theorem run_funBody_builtin (f : Nat) (fd : FunDef) (id : Str) (slots : List Slot) (σ2 σ4 : St) (r : Except Stop Val)
    (hbody : fd.body = .builtin id)
    (hrun : (runBuiltin id (slots.map (·.val))).run.run (calleeSt (funAct fd slots) σ2) = (r, σ4)) :
    (funBody f fd).run.run (calleeSt (funAct fd slots) σ2) =
      (match r with | .ok v => .ok (some v) | .error e => .error e, σ4) := by
  unfold funBody
  rw [hbody]
  dsimp only
  rw [run_bind_ok _ _ _ _ _ (run_curAct_cons (calleeSt (funAct fd slots) σ2) (funAct fd slots σ2.nextId) σ2.acts rfl)]
  have hv : (funAct fd slots σ2.nextId).vars = slots := rfl
  rw [hv]
  cases r with
  | ok v => rw [run_bind_ok _ _ _ _ _ hrun]; rfl
  | error e => rw [run_bind_err _ _ _ _ _ hrun]

/-- **decomposition of a call of a built-in function** -/
theorem run_callFun_builtin (f : Nat) (t : Tok) (args : List Expr) (σ σ1 σ2 σ4 : St) (fd : FunDef) (id : Str)
    (vals : List Val) (cur : Act) (rest : List Act) (slots : List Slot) (r : Except Stop Val)
    (hfd : funLookup σ t.val = some fd) (hbody : fd.body = .builtin id)
    (hargs : (evalArgs f args []).run.run σ = (.ok vals, σ1))
    (hlen : vals.length = fd.params.length)
    (hdepth : σ1.depth + 1 ≤ σ1.depthLimit)
    (hcur : σ1.acts = cur :: rest)
    (hbind : (bindParams f t fd.params args vals []).run.run σ1 = (.ok slots, σ2))
    (hrun : (runBuiltin id (slots.map (·.val))).run.run (calleeSt (funAct fd slots) (setSwitch σ2 cur.id t)) = (r, σ4)) :
    (callFun (f+1) t args).run.run σ = builtinResult cur.id (r, σ4) := by
  rw [callFun_succ, run_bind_ok _ _ _ _ _ (run_get σ), hfd]
  dsimp only
  rw [run_bind_ok _ _ _ _ _ hargs]
  have hl : (vals.length != fd.params.length) = false := by simp [hlen]
  simp only [hl, Bool.false_eq_true, if_false]
  rw [run_bind_ok _ _ _ _ _ (run_get σ1), run_bind_ok _ _ _ _ _ (run_get σ1)]
  have hd : ¬ (σ1.depth + 1 > σ1.depthLimit) := by omega
  simp only [hd, if_false]
  rw [run_bind_ok _ _ _ _ _ (run_curAct_cons σ1 cur rest hcur), run_bind_ok _ _ _ _ _ hbind,
    run_bind_ok _ _ _ _ _ (run_modifyAct _ _ σ2)]
  have hsw : updSt σ2 cur.id (fun a => { a with switchTok := some (t.line, t.col) }) = setSwitch σ2 cur.id t := rfl
  rw [hsw, run_bind_ok _ _ _ _ _ (run_modify _ (setSwitch σ2 cur.id t))]
  have hst : pushSt (fun id => ({ id := id, name := fd.name, isFn := true, retTy := fd.ret, vars := slots } : Act))
      { setSwitch σ2 cur.id t with depth := (setSwitch σ2 cur.id t).depth + 1 } =
        calleeSt (funAct fd slots) (setSwitch σ2 cur.id t) := rfl
  have hw := run_withAct (fun id => ({ id := id, name := fd.name, isFn := true, retTy := fd.ret, vars := slots } : Act))
    (funBody f fd) { setSwitch σ2 cur.id t with depth := (setSwitch σ2 cur.id t).depth + 1 }
  rw [hst, run_funBody_builtin f fd id slots (setSwitch σ2 cur.id t) σ4 r hbody hrun] at hw
  cases r with
  | error e => exact run_bind_err _ _ _ _ _ hw
  | ok v =>
    rw [run_bind_ok _ _ _ _ _ hw, run_bind_ok _ _ _ _ _ (run_modify _ _), run_bind_ok _ _ _ _ _ (run_modifyAct _ _ _)]
    rfl

/-! ## the states and the diagnostic of a built-in call -/

/-- the frame of a suspended activation in the trace of a runtime diagnostic -/
def frameOf (p : Act) : Frame :=
  match p.switchTok with
  | some (l, c) => { name := p.name, line := l, col := c }
  | none => { name := p.name, line := 0, col := 0 }

theorem rtDiag_cons (σ : St) (cur : Act) (rest : List Act) (l c : Nat) (m : Msg) (h : σ.acts = cur :: rest) :
    rtDiag σ l c m =
      { kind := .runtime, line := l, col := c, msg := m, trace := { name := cur.name, line := l, col := c } :: rest.map frameOf } := by
  unfold rtDiag
  rw [h]
  rfl

/-- the state after a call of a built-in function that returned: one activation number is used up; the caller's call-site
    mark is cleared -/
def retSt (σ : St) : St :=
  { σ with nextId := σ.nextId + 1,
           acts := match σ.acts with
             | a :: rest => { a with switchTok := none } :: rest
             | [] => [] }

/-- the state in which a diagnostic raised inside a built-in function leaves the evaluator: the activation of the built-in
    is gone; its number is used up; the depth counter and the caller's call-site mark are as during the call -/
def errSt (σ : St) (t : Tok) : St :=
  { σ with nextId := σ.nextId + 1, depth := σ.depth + 1,
           acts := match σ.acts with
             | a :: rest => { a with switchTok := some (t.line, t.col) } :: rest
             | [] => [] }

theorem retSt_eq (σ : St) (a : Act) (rest : List Act) (hacts : σ.acts = a :: rest) (hsw : a.switchTok = none) :
    retSt σ = { σ with nextId := σ.nextId + 1 } := by
  unfold retSt
  rw [hacts]
  dsimp only
  have : ({ a with switchTok := none } : Act) = a := by
    cases a; simp only at hsw; subst hsw; rfl
  rw [this, ← hacts]

theorem errSt_eq (σ : St) (a : Act) (rest : List Act) (t : Tok) (hacts : σ.acts = a :: rest) :
    errSt σ t = { σ with nextId := σ.nextId + 1, depth := σ.depth + 1,
                         acts := { a with switchTok := some (t.line, t.col) } :: rest } := by
  unfold errSt
  rw [hacts]

theorem setSwitch_acts (σ : St) (a : Act) (rest : List Act) (t : Tok) (hacts : σ.acts = a :: rest) :
    (setSwitch σ a.id t).acts = { a with switchTok := some (t.line, t.col) } :: rest := by
  unfold setSwitch updSt
  simp only [hacts, updActs, beq_self_eq_true, if_true]

theorem builtin_ret_state (σ : St) (a : Act) (rest : List Act) (t : Tok) (mk : Nat → Act) (hacts : σ.acts = a :: rest) :
    clearSwitch (decDepth (popSt (calleeSt mk (setSwitch σ a.id t)))) a.id = retSt σ := by
  unfold retSt clearSwitch decDepth popSt calleeSt pushSt incDepth updSt
  simp only [setSwitch_acts σ a rest t hacts, hacts, List.drop_one, List.tail_cons, updActs, beq_self_eq_true, if_true]
  unfold setSwitch updSt
  simp only [Nat.add_sub_cancel]

theorem builtin_err_state (σ : St) (a : Act) (rest : List Act) (t : Tok) (mk : Nat → Act) (hacts : σ.acts = a :: rest) :
    popSt (calleeSt mk (setSwitch σ a.id t)) = errSt σ t := by
  unfold errSt popSt calleeSt pushSt incDepth
  simp only [setSwitch_acts σ a rest t hacts, hacts, List.drop_one, List.tail_cons]
  unfold setSwitch updSt
  rfl

/-- the diagnostic raised (at position 0,0) inside the activation of a built-in function -/
theorem builtin_diag (σ : St) (a : Act) (rest : List Act) (t : Tok) (mk : Nat → Act) (m : Msg) (hacts : σ.acts = a :: rest) :
    rtDiag (calleeSt mk (setSwitch σ a.id t)) 0 0 m =
      { kind := .runtime, line := 0, col := 0, msg := m,
        trace := { name := (mk σ.nextId).name, line := 0, col := 0 } ::
                 { name := a.name, line := t.line, col := t.col } :: rest.map frameOf } := by
  have h : (calleeSt mk (setSwitch σ a.id t)).acts =
      mk σ.nextId :: { a with switchTok := some (t.line, t.col) } :: rest := by
    show mk _ :: (setSwitch σ a.id t).acts = _
    rw [setSwitch_acts σ a rest t hacts]
    rfl
  rw [rtDiag_cons _ _ _ 0 0 m h]
  rfl

theorem run_rtErr0 {α : Type} (m : Msg) (σ : St) : (rtErr0 m : M α).run.run σ = (.error (.diag (rtDiag σ 0 0 m)), σ) := by
  unfold rtErr0
  rw [run_bind_ok _ _ _ _ _ (run_mkRuntime _ _ _ σ)]
  rfl

/-! ## the six calendar built-ins -/

def setdateDef : FunDef :=
  { name := "SETDATE".toList, params := [("Day".toList, .int, false), ("Month".toList, .int, false), ("Year".toList, .int, false)],
    ret := .date, body := .builtin "SETDATE".toList }
def todayDef : FunDef := { name := "TODAY".toList, params := [], ret := .date, body := .builtin "TODAY".toList }
/-- `DAY`, `MONTH`, `YEAR`, `DAYINDEX` -/
def dateFunDef (n : String) : FunDef :=
  { name := n.toList, params := [("Date".toList, .date, false)], ret := .int, body := .builtin n.toList }

theorem find_setdate : builtinFuns.find? (·.name == "SETDATE".toList) = some setdateDef := by rfl
theorem find_today : builtinFuns.find? (·.name == "TODAY".toList) = some todayDef := by rfl
theorem find_day : builtinFuns.find? (·.name == "DAY".toList) = some (dateFunDef "DAY") := by rfl
theorem find_month : builtinFuns.find? (·.name == "MONTH".toList) = some (dateFunDef "MONTH") := by rfl
theorem find_year : builtinFuns.find? (·.name == "YEAR".toList) = some (dateFunDef "YEAR") := by rfl
theorem find_dayindex : builtinFuns.find? (·.name == "DAYINDEX".toList) = some (dateFunDef "DAYINDEX") := by rfl

theorem funLookup_builtin (σ : St) (n : Str) (fd : FunDef) (h : builtinFuns.find? (·.name == n) = some fd) :
    funLookup σ n = some fd := by
  unfold funLookup; rw [h]

theorem runBuiltin_setdate (d m y : Int) : runBuiltin "SETDATE".toList [.int d, .int m, .int y] =
    (match Calendar.setDate d m y with
     | some t => pure (.date t)
     | none => rtErr0 .invalidDate) := by rfl
theorem runBuiltin_today : runBuiltin "TODAY".toList [] = pure (.date ⟨1970, 1, 1⟩) := by rfl
theorem runBuiltin_day (t : Date) : runBuiltin "DAY".toList [.date t] = pure (.int t.d) := by rfl
theorem runBuiltin_month (t : Date) : runBuiltin "MONTH".toList [.date t] = pure (.int t.m) := by rfl
theorem runBuiltin_year (t : Date) : runBuiltin "YEAR".toList [.date t] = pure (.int t.y) := by rfl
theorem runBuiltin_dayindex (t : Date) : runBuiltin "DAYINDEX".toList [.date t] = pure (.int (dayIndex t)) := by rfl

/-- what the four unary date functions compute -/
def dateFunVal (n : String) (t : Date) : Val :=
  if n = "DAY" then .int t.d else if n = "MONTH" then .int t.m else if n = "YEAR" then .int t.y else .int (dayIndex t)

/-- the names of the four unary date functions -/
def IsDateFun (n : String) : Prop := n = "DAY" ∨ n = "MONTH" ∨ n = "YEAR" ∨ n = "DAYINDEX"

theorem find_dateFun (n : String) (h : IsDateFun n) : builtinFuns.find? (·.name == n.toList) = some (dateFunDef n) := by
  rcases h with rfl | rfl | rfl | rfl
  · exact find_day
  · exact find_month
  · exact find_year
  · exact find_dayindex

theorem runBuiltin_dateFun (n : String) (h : IsDateFun n) (t : Date) :
    runBuiltin n.toList [.date t] = pure (dateFunVal n t) := by
  rcases h with rfl | rfl | rfl | rfl
  · exact runBuiltin_day t
  · exact runBuiltin_month t
  · exact runBuiltin_year t
  · exact runBuiltin_dayindex t

/-- `SETDATE(d, m, y)` on integer literals, as a call -/
theorem run_callSetdate (f : Nat) (ts t1 t2 t3 : Tok) (d m y : Int) (σ : St) (a : Act) (rest : List Act)
    (hname : ts.val = "SETDATE".toList) (hacts : σ.acts = a :: rest) (hd : σ.depth + 1 ≤ σ.depthLimit) :
    (callFun (f+5) ts [.intLit t1 d, .intLit t2 m, .intLit t3 y]).run.run σ =
      match Calendar.setDate d m y with
      | some dt => (.ok (.date dt), retSt σ)
      | none => (.error (.diag (rtDiag (calleeSt (funAct setdateDef
                    [byvalSlot "Day".toList .int (.int d), byvalSlot "Month".toList .int (.int m),
                     byvalSlot "Year".toList .int (.int y)]) (setSwitch σ a.id ts)) 0 0 .invalidDate)), errSt σ ts) := by
  have hargs : (evalArgs (f+4) [.intLit t1 d, .intLit t2 m, .intLit t3 y] []).run.run σ = (.ok [.int d, .int m, .int y], σ) := by
    rw [evalArgs_cons, run_bind_ok _ _ _ _ _ (pureAt_intLit σ t1 d (f+3) (by omega)),
      evalArgs_cons, run_bind_ok _ _ _ _ _ (pureAt_intLit σ t2 m (f+2) (by omega)),
      evalArgs_cons, run_bind_ok _ _ _ _ _ (pureAt_intLit σ t3 y (f+1) (by omega)), evalArgs_nil]
    rfl
  have hbind : ∀ τ, (bindParams (f+4) ts setdateDef.params [.intLit t1 d, .intLit t2 m, .intLit t3 y]
        [.int d, .int m, .int y] []).run.run τ =
      (.ok [byvalSlot "Day".toList .int (.int d), byvalSlot "Month".toList .int (.int m),
            byvalSlot "Year".toList .int (.int y)], τ) := by
    intro τ
    show (bindParams (f+3+1) ts (("Day".toList, .int, false) :: _) _ _ _).run.run τ = _
    rw [run_bindParams_byval, if_pos (show (implicitCast Ty.int (Val.int d)).ty = Ty.int from rfl)]
    show (bindParams (f+2+1) ts (("Month".toList, .int, false) :: _) _ _ _).run.run τ = _
    rw [run_bindParams_byval, if_pos (show (implicitCast Ty.int (Val.int m)).ty = Ty.int from rfl)]
    show (bindParams (f+1+1) ts (("Year".toList, .int, false) :: _) _ _ _).run.run τ = _
    rw [run_bindParams_byval, if_pos (show (implicitCast Ty.int (Val.int y)).ty = Ty.int from rfl), run_bindParams_done]
    rfl
  have hfd : funLookup σ ts.val = some setdateDef := by rw [hname]; exact funLookup_builtin σ _ _ find_setdate
  cases hs : Calendar.setDate d m y with
  | some dt =>
    have hrun : ∀ τ, (runBuiltin "SETDATE".toList ([byvalSlot "Day".toList .int (.int d), byvalSlot "Month".toList .int (.int m),
        byvalSlot "Year".toList .int (.int y)].map (·.val))).run.run τ = (.ok (.date dt), τ) := by
      intro τ
      show (runBuiltin "SETDATE".toList [.int d, .int m, .int y]).run.run τ = _
      rw [runBuiltin_setdate, hs]; rfl
    rw [run_callFun_builtin (f+4) ts _ σ σ _ _ setdateDef _ _ a rest _ _ hfd rfl hargs rfl hd hacts (hbind _) (hrun _)]
    show (_, clearSwitch (decDepth (popSt (calleeSt _ (setSwitch σ a.id ts)))) a.id) = _
    rw [builtin_ret_state σ a rest ts _ hacts]
  | none =>
    have hrun : ∀ τ, (runBuiltin "SETDATE".toList ([byvalSlot "Day".toList .int (.int d), byvalSlot "Month".toList .int (.int m),
        byvalSlot "Year".toList .int (.int y)].map (·.val))).run.run τ = (.error (.diag (rtDiag τ 0 0 .invalidDate)), τ) := by
      intro τ
      show (runBuiltin "SETDATE".toList [.int d, .int m, .int y]).run.run τ = _
      rw [runBuiltin_setdate, hs]; exact run_rtErr0 _ τ
    rw [run_callFun_builtin (f+4) ts _ σ σ _ _ setdateDef _ _ a rest _ _ hfd rfl hargs rfl hd hacts (hbind _) (hrun _)]
    show (_, popSt (calleeSt _ (setSwitch σ a.id ts))) = _
    rw [builtin_err_state σ a rest ts _ hacts]

/-- `TODAY()` as a call -/
theorem run_callToday (f : Nat) (tt : Tok) (σ : St) (a : Act) (rest : List Act)
    (hname : tt.val = "TODAY".toList) (hacts : σ.acts = a :: rest) (hd : σ.depth + 1 ≤ σ.depthLimit) :
    (callFun (f+2) tt []).run.run σ = (.ok (.date ⟨1970, 1, 1⟩), retSt σ) := by
  have hargs : (evalArgs (f+1) [] []).run.run σ = (.ok [], σ) := by rw [evalArgs_nil]; rfl
  have hfd : funLookup σ tt.val = some todayDef := by rw [hname]; exact funLookup_builtin σ _ _ find_today
  have hbind : ∀ τ, (bindParams (f+1) tt todayDef.params [] [] []).run.run τ = (.ok [], τ) := fun τ => run_bindParams_done _ _ _ _ _ τ
  have hrun : ∀ τ, (runBuiltin "TODAY".toList (([] : List Slot).map (·.val))).run.run τ = (.ok (.date ⟨1970, 1, 1⟩), τ) := by
    intro τ
    show (runBuiltin "TODAY".toList []).run.run τ = _
    rw [runBuiltin_today]; rfl
  rw [run_callFun_builtin (f+1) tt _ σ σ _ _ todayDef _ _ a rest _ _ hfd rfl hargs rfl hd hacts (hbind _) (hrun _)]
  show (_, clearSwitch (decDepth (popSt (calleeSt _ (setSwitch σ a.id tt)))) a.id) = _
  rw [builtin_ret_state σ a rest tt _ hacts]

/-- `DAY(e)`, `MONTH(e)`, `YEAR(e)`, `DAYINDEX(e)` where `e` evaluates (σ → σ') to the DATE value `dt`, as a call -/
theorem run_callDateFun (n : String) (hn : IsDateFun n) (f : Nat) (tf : Tok) (e : Expr) (dt : Date) (σ σ' : St) (a : Act)
    (rest : List Act) (hname : tf.val = n.toList)
    (he : (evalExpr f e).run.run σ = (.ok (.date dt), σ'))
    (hacts : σ'.acts = a :: rest) (hd : σ'.depth + 1 ≤ σ'.depthLimit) :
    (callFun (f+2) tf [e]).run.run σ = (.ok (dateFunVal n dt), retSt σ') := by
  obtain ⟨f', rfl⟩ : ∃ f', f = f' + 1 := by
    cases f with
    | zero => rw [evalExpr.eq_def] at he; cases he
    | succ f' => exact ⟨f', rfl⟩
  have hargs : (evalArgs (f'+1+1) [e] []).run.run σ = (.ok [.date dt], σ') := by
    rw [evalArgs_cons, run_bind_ok _ _ _ _ _ he, evalArgs_nil]
    rfl
  have hfd : funLookup σ tf.val = some (dateFunDef n) := by rw [hname]; exact funLookup_builtin σ _ _ (find_dateFun n hn)
  have hbind : ∀ τ, (bindParams (f'+1+1) tf (dateFunDef n).params [e] [.date dt] []).run.run τ =
      (.ok [byvalSlot "Date".toList .date (.date dt)], τ) := by
    intro τ
    show (bindParams (f'+1+1) tf (("Date".toList, .date, false) :: _) _ _ _).run.run τ = _
    rw [run_bindParams_byval, if_pos (show (implicitCast Ty.date (Val.date dt)).ty = Ty.date from rfl), run_bindParams_done]
    rfl
  have hrun : ∀ τ, (runBuiltin n.toList ([byvalSlot "Date".toList .date (.date dt)].map (·.val))).run.run τ =
      (.ok (dateFunVal n dt), τ) := by
    intro τ
    show (runBuiltin n.toList [.date dt]).run.run τ = _
    rw [runBuiltin_dateFun n hn]; rfl
  rw [run_callFun_builtin (f'+1+1) tf _ σ σ' _ _ (dateFunDef n) _ _ a rest _ _ hfd rfl hargs rfl hd hacts (hbind _) (hrun _)]
  show (_, clearSwitch (decDepth (popSt (calleeSt _ (setSwitch σ' a.id tf)))) a.id) = _
  rw [builtin_ret_state σ' a rest tf _ hacts]

/-- a built-in call whose (only) argument ends in an error: the error of the call -/
theorem run_callDateFun_err (n : String) (hn : IsDateFun n) (f : Nat) (tf : Tok) (e : Expr) (x : Stop) (σ σ' : St)
    (hname : tf.val = n.toList) (he : (evalExpr f e).run.run σ = (.error x, σ')) :
    (callFun (f+2) tf [e]).run.run σ = (.error x, σ') := by
  have hfd : funLookup σ tf.val = some (dateFunDef n) := by rw [hname]; exact funLookup_builtin σ _ _ (find_dateFun n hn)
  have hargs : (evalArgs (f+1) [e] []).run.run σ = (.error x, σ') := by
    rw [evalArgs_cons]; exact run_bind_err _ _ _ _ _ he
  rw [callFun_succ, run_bind_ok _ _ _ _ _ (run_get σ), hfd]
  dsimp only
  exact run_bind_err _ _ _ _ _ hargs

/-! ## pure calendar facts used below -/

theorem setDate_of_valid (d m y : Int) (h : ValidGregorian y m d ∧ -32767 ≤ y ∧ y ≤ 32767) :
    setDate d m y = some ⟨y, m, d⟩ := by
  obtain ⟨t, ht⟩ := (C18_valid_iff d m y).mpr h
  obtain ⟨h1, h2, h3⟩ := C18_components d m y t ht
  rw [ht]
  cases t
  simp only at h1 h2 h3
  subst h1 h2 h3
  rfl

theorem setDate_none_of_invalid (d m y : Int) (h : ¬ (ValidGregorian y m d ∧ -32767 ≤ y ∧ y ≤ 32767)) :
    setDate d m y = none := by
  cases hs : setDate d m y with
  | none => rfl
  | some t => exact absurd ((C18_valid_iff d m y).mp ⟨t, hs⟩) h

theorem setDate_some_valid (d m y : Int) (t : Date) (h : setDate d m y = some t) :
    t = ⟨y, m, d⟩ ∧ ValidGregorian t.y t.m t.d ∧ -32767 ≤ t.y ∧ t.y ≤ 32767 := by
  have hv := (C18_valid_iff d m y).mp ⟨t, h⟩
  rw [setDate_of_valid d m y hv] at h
  cases h
  exact ⟨rfl, hv⟩

/-- chronological reading of the six comparison operators on dates -/
def chrono (op : CmpOp) (a b : Date) : Prop :=
  match op with
  | .lt => before a b
  | .gt => before b a
  | .le => before a b ∨ a = b
  | .ge => before b a ∨ a = b
  | .eq => a = b
  | .ne => a ≠ b

/-- on valid dates the comparison of the keys is the chronological comparison, for each of the six operators -/
theorem cmpInt_key (op : CmpOp) (a b : Date) (ha : ValidGregorian a.y a.m a.d) (hb : ValidGregorian b.y b.m b.d) :
    cmpInt op (key a) (key b) = true ↔ chrono op a b := by
  have hlt := C18_key_mono a b ha hb
  have hgt := C18_key_mono b a hb ha
  have heq := C18_key_eq a b ha hb
  cases op <;> simp only [cmpInt, chrono, beq_iff_eq, bne_iff_ne, ne_eq, decide_eq_true_eq, gt_iff_lt, ge_iff_le]
  · exact heq
  · exact not_congr heq
  · exact hgt
  · exact hlt
  · rw [← hgt, ← heq]; omega
  · rw [← hlt, ← heq]; omega

theorem evalCmp_dates (op : CmpOp) (a b : Date) :
    evalCmp op (.date a) (.date b) = .ok (.bool (cmpInt op (key a) (key b))) := by rfl

end C18ExecL

open C18ExecL CallLemmas ArrayLemmas

/-! ## 1. SETDATE -/

/-- the three integer-literal arguments of `SETDATE(d, m, y)` -/
def C18_setdateCall (ts t1 t2 t3 : Tok) (d m y : Int) : Expr := .call ts [.intLit t1 d, .intLit t2 m, .intLit t3 y]

/-- **`SETDATE(d, m, y)` on the evaluator.** The call runs in an activation of its own. If `Calendar.setDate d m y` is a date,
    the call returns it and the only trace in the state is one used-up activation number. Otherwise the run ends in the
    runtime diagnostic `invalidDate`, raised by `rtErr0` INSIDE the activation of the built-in: position 0,0; the trace
    starts with the frame of `SETDATE` (0,0), then the caller's frame at the position of the call; the final state has lost
    the activation of the built-in again, but the depth counter and the caller's call-site mark are as during the call. -/
theorem C18_exec_setdate (fuel : Nat) (ts t1 t2 t3 : Tok) (d m y : Int) (σ : St) (cur : Act) (rest : List Act)
    (hfuel : 6 ≤ fuel) (hname : ts.val = "SETDATE".toList)
    (hacts : σ.acts = cur :: rest) (hsw : cur.switchTok = none) (hd : σ.depth + 1 ≤ σ.depthLimit) :
    (evalExpr fuel (C18_setdateCall ts t1 t2 t3 d m y)).run.run σ =
      match Calendar.setDate d m y with
      | some dt => (.ok (.date dt), { σ with nextId := σ.nextId + 1 })
      | none =>
        (.error (.diag { kind := .runtime, line := 0, col := 0, msg := .invalidDate,
                         trace := { name := "SETDATE".toList, line := 0, col := 0 } ::
                                  { name := cur.name, line := ts.line, col := ts.col } :: rest.map frameOf }),
         { σ with nextId := σ.nextId + 1, depth := σ.depth + 1,
                  acts := { cur with switchTok := some (ts.line, ts.col) } :: rest }) := by
  unfold C18_setdateCall
  have h6 := run_callSetdate 0 ts t1 t2 t3 d m y σ cur rest hname hacts hd
  rw [← evalExpr_call] at h6
  cases hs : Calendar.setDate d m y with
  | some dt =>
    rw [hs] at h6
    dsimp only at h6 ⊢
    rw [retSt_eq σ cur rest hacts hsw] at h6
    exact evalExpr_fuel_mono _ 6 fuel hfuel σ _ _ h6 (fun h => nomatch h)
  | none =>
    rw [hs] at h6
    dsimp only at h6 ⊢
    rw [builtin_diag σ cur rest ts _ .invalidDate hacts, errSt_eq σ cur rest ts hacts] at h6
    exact evalExpr_fuel_mono _ 6 fuel hfuel σ _ _ h6 (fun h => nomatch h)

/-- … a valid Gregorian date within the year range of the model: the value is the date with exactly these components
    (field order of `Calendar.Date`: year, month, day) -/
theorem C18_exec_setdate_valid (fuel : Nat) (ts t1 t2 t3 : Tok) (d m y : Int) (σ : St) (cur : Act) (rest : List Act)
    (hfuel : 6 ≤ fuel) (hname : ts.val = "SETDATE".toList)
    (hacts : σ.acts = cur :: rest) (hsw : cur.switchTok = none) (hd : σ.depth + 1 ≤ σ.depthLimit)
    (hv : Calendar.ValidGregorian y m d ∧ -32767 ≤ y ∧ y ≤ 32767) :
    (evalExpr fuel (C18_setdateCall ts t1 t2 t3 d m y)).run.run σ =
      (.ok (.date ⟨y, m, d⟩), { σ with nextId := σ.nextId + 1 }) := by
  rw [C18_exec_setdate fuel ts t1 t2 t3 d m y σ cur rest hfuel hname hacts hsw hd, setDate_of_valid d m y hv]

/-- … anything else is refused with `invalidDate` -/
theorem C18_exec_setdate_invalid (fuel : Nat) (ts t1 t2 t3 : Tok) (d m y : Int) (σ : St) (cur : Act) (rest : List Act)
    (hfuel : 6 ≤ fuel) (hname : ts.val = "SETDATE".toList)
    (hacts : σ.acts = cur :: rest) (hsw : cur.switchTok = none) (hd : σ.depth + 1 ≤ σ.depthLimit)
    (hv : ¬ (Calendar.ValidGregorian y m d ∧ -32767 ≤ y ∧ y ≤ 32767)) :
    (evalExpr fuel (C18_setdateCall ts t1 t2 t3 d m y)).run.run σ =
      (.error (.diag { kind := .runtime, line := 0, col := 0, msg := .invalidDate,
                       trace := { name := "SETDATE".toList, line := 0, col := 0 } ::
                                { name := cur.name, line := ts.line, col := ts.col } :: rest.map frameOf }),
       { σ with nextId := σ.nextId + 1, depth := σ.depth + 1,
                acts := { cur with switchTok := some (ts.line, ts.col) } :: rest }) := by
  rw [C18_exec_setdate fuel ts t1 t2 t3 d m y σ cur rest hfuel hname hacts hsw hd, setDate_none_of_invalid d m y hv]

/-- **SETDATE returns a value exactly for the Gregorian dates** (years −32767 … 32767) -/
theorem C18_exec_setdate_iff (fuel : Nat) (ts t1 t2 t3 : Tok) (d m y : Int) (σ : St) (cur : Act) (rest : List Act)
    (hfuel : 6 ≤ fuel) (hname : ts.val = "SETDATE".toList)
    (hacts : σ.acts = cur :: rest) (hsw : cur.switchTok = none) (hd : σ.depth + 1 ≤ σ.depthLimit) :
    (∃ v σ', (evalExpr fuel (C18_setdateCall ts t1 t2 t3 d m y)).run.run σ = (.ok v, σ')) ↔
      (Calendar.ValidGregorian y m d ∧ -32767 ≤ y ∧ y ≤ 32767) := by
  constructor
  · intro ⟨v, σ', h⟩
    apply Classical.byContradiction
    intro hv
    rw [C18_exec_setdate_invalid fuel ts t1 t2 t3 d m y σ cur rest hfuel hname hacts hsw hd hv] at h
    cases h
  · intro hv
    exact ⟨_, _, C18_exec_setdate_valid fuel ts t1 t2 t3 d m y σ cur rest hfuel hname hacts hsw hd hv⟩

/-! ## 2. DAY, MONTH, YEAR, DAYINDEX, TODAY -/

/-- **The unary date functions on any argument expression.** `n ∈ {DAY, MONTH, YEAR, DAYINDEX}`; the argument `e` evaluates
    with fuel `f` — not necessarily purely: from `σ` to `σ'` — to the DATE value `dt`. Then `n(e)` returns the component
    (`dateFunVal`); the state is `σ'` with one more activation number used up. -/
theorem C18_exec_dateFun (n : String) (hn : IsDateFun n) (fuel f : Nat) (tf : Tok) (e : Expr) (dt : Calendar.Date)
    (σ σ' : St) (cur : Act) (rest : List Act)
    (hfuel : f + 3 ≤ fuel) (hname : tf.val = n.toList)
    (he : (evalExpr f e).run.run σ = (.ok (.date dt), σ'))
    (hacts : σ'.acts = cur :: rest) (hsw : cur.switchTok = none) (hd : σ'.depth + 1 ≤ σ'.depthLimit) :
    (evalExpr fuel (.call tf [e])).run.run σ = (.ok (dateFunVal n dt), { σ' with nextId := σ'.nextId + 1 }) := by
  have h3 := run_callDateFun n hn f tf e dt σ σ' cur rest hname he hacts hd
  rw [← evalExpr_call] at h3
  rw [retSt_eq σ' cur rest hacts hsw] at h3
  exact evalExpr_fuel_mono _ (f+3) fuel hfuel σ _ _ h3 (fun h => nomatch h)

/-- the argument ends in an error (σ → σ', e.g. the `invalidDate` of a refused `SETDATE`): so does the call, nothing added -/
theorem C18_exec_dateFun_arg_error (n : String) (hn : IsDateFun n) (f : Nat) (tf : Tok) (e : Expr) (x : Stop) (σ σ' : St)
    (hname : tf.val = n.toList) (he : (evalExpr f e).run.run σ = (.error x, σ')) :
    (evalExpr (f+3) (.call tf [e])).run.run σ = (.error x, σ') := by
  rw [evalExpr_call]
  exact run_callDateFun_err n hn f tf e x σ σ' hname he

theorem C18_exec_day (fuel f : Nat) (tf : Tok) (e : Expr) (dt : Calendar.Date) (σ σ' : St) (cur : Act) (rest : List Act)
    (hfuel : f + 3 ≤ fuel) (hname : tf.val = "DAY".toList)
    (he : (evalExpr f e).run.run σ = (.ok (.date dt), σ'))
    (hacts : σ'.acts = cur :: rest) (hsw : cur.switchTok = none) (hd : σ'.depth + 1 ≤ σ'.depthLimit) :
    (evalExpr fuel (.call tf [e])).run.run σ = (.ok (.int dt.d), { σ' with nextId := σ'.nextId + 1 }) :=
  C18_exec_dateFun "DAY" (.inl rfl) fuel f tf e dt σ σ' cur rest hfuel hname he hacts hsw hd

theorem C18_exec_month (fuel f : Nat) (tf : Tok) (e : Expr) (dt : Calendar.Date) (σ σ' : St) (cur : Act) (rest : List Act)
    (hfuel : f + 3 ≤ fuel) (hname : tf.val = "MONTH".toList)
    (he : (evalExpr f e).run.run σ = (.ok (.date dt), σ'))
    (hacts : σ'.acts = cur :: rest) (hsw : cur.switchTok = none) (hd : σ'.depth + 1 ≤ σ'.depthLimit) :
    (evalExpr fuel (.call tf [e])).run.run σ = (.ok (.int dt.m), { σ' with nextId := σ'.nextId + 1 }) :=
  C18_exec_dateFun "MONTH" (.inr (.inl rfl)) fuel f tf e dt σ σ' cur rest hfuel hname he hacts hsw hd

theorem C18_exec_year (fuel f : Nat) (tf : Tok) (e : Expr) (dt : Calendar.Date) (σ σ' : St) (cur : Act) (rest : List Act)
    (hfuel : f + 3 ≤ fuel) (hname : tf.val = "YEAR".toList)
    (he : (evalExpr f e).run.run σ = (.ok (.date dt), σ'))
    (hacts : σ'.acts = cur :: rest) (hsw : cur.switchTok = none) (hd : σ'.depth + 1 ≤ σ'.depthLimit) :
    (evalExpr fuel (.call tf [e])).run.run σ = (.ok (.int dt.y), { σ' with nextId := σ'.nextId + 1 }) :=
  C18_exec_dateFun "YEAR" (.inr (.inr (.inl rfl))) fuel f tf e dt σ σ' cur rest hfuel hname he hacts hsw hd

/-- `DAYINDEX(e)` is the weekday number of `Calendar.dayIndex` (Sunday = 1 … Saturday = 7, `C18_dayindex_range`) -/
theorem C18_exec_dayindex (fuel f : Nat) (tf : Tok) (e : Expr) (dt : Calendar.Date) (σ σ' : St) (cur : Act) (rest : List Act)
    (hfuel : f + 3 ≤ fuel) (hname : tf.val = "DAYINDEX".toList)
    (he : (evalExpr f e).run.run σ = (.ok (.date dt), σ'))
    (hacts : σ'.acts = cur :: rest) (hsw : cur.switchTok = none) (hd : σ'.depth + 1 ≤ σ'.depthLimit) :
    (evalExpr fuel (.call tf [e])).run.run σ = (.ok (.int (Calendar.dayIndex dt)), { σ' with nextId := σ'.nextId + 1 }) ∧
      1 ≤ Calendar.dayIndex dt ∧ Calendar.dayIndex dt ≤ 7 :=
  ⟨C18_exec_dateFun "DAYINDEX" (.inr (.inr (.inr rfl))) fuel f tf e dt σ σ' cur rest hfuel hname he hacts hsw hd,
    Calendar.C18_dayindex_range dt⟩

/-- **`n(SETDATE(d, m, y))`** for a valid date: two built-in calls one after the other, each in an activation of its own;
    two activation numbers are used up -/
theorem C18_exec_dateFun_setdate (n : String) (hn : IsDateFun n) (fuel : Nat) (tf ts t1 t2 t3 : Tok) (d m y : Int) (σ : St)
    (cur : Act) (rest : List Act)
    (hfuel : 9 ≤ fuel) (hname : tf.val = n.toList) (hsname : ts.val = "SETDATE".toList)
    (hacts : σ.acts = cur :: rest) (hsw : cur.switchTok = none) (hd : σ.depth + 1 ≤ σ.depthLimit)
    (hv : Calendar.ValidGregorian y m d ∧ -32767 ≤ y ∧ y ≤ 32767) :
    (evalExpr fuel (.call tf [C18_setdateCall ts t1 t2 t3 d m y])).run.run σ =
      (.ok (dateFunVal n ⟨y, m, d⟩), { σ with nextId := σ.nextId + 2 }) :=
  C18_exec_dateFun n hn fuel 6 tf _ ⟨y, m, d⟩ σ { σ with nextId := σ.nextId + 1 } cur rest hfuel hname
    (C18_exec_setdate_valid 6 ts t1 t2 t3 d m y σ cur rest (Nat.le_refl _) hsname hacts hsw hd hv) hacts hsw hd

/-- **DAY, MONTH and YEAR of `SETDATE(d, m, y)` are `d`, `m`, `y`** -/
theorem C18_exec_day_setdate (fuel : Nat) (tf ts t1 t2 t3 : Tok) (d m y : Int) (σ : St) (cur : Act) (rest : List Act)
    (hfuel : 9 ≤ fuel) (hname : tf.val = "DAY".toList) (hsname : ts.val = "SETDATE".toList)
    (hacts : σ.acts = cur :: rest) (hsw : cur.switchTok = none) (hd : σ.depth + 1 ≤ σ.depthLimit)
    (hv : Calendar.ValidGregorian y m d ∧ -32767 ≤ y ∧ y ≤ 32767) :
    (evalExpr fuel (.call tf [C18_setdateCall ts t1 t2 t3 d m y])).run.run σ =
      (.ok (.int d), { σ with nextId := σ.nextId + 2 }) :=
  C18_exec_dateFun_setdate "DAY" (.inl rfl) fuel tf ts t1 t2 t3 d m y σ cur rest hfuel hname hsname hacts hsw hd hv

theorem C18_exec_month_setdate (fuel : Nat) (tf ts t1 t2 t3 : Tok) (d m y : Int) (σ : St) (cur : Act) (rest : List Act)
    (hfuel : 9 ≤ fuel) (hname : tf.val = "MONTH".toList) (hsname : ts.val = "SETDATE".toList)
    (hacts : σ.acts = cur :: rest) (hsw : cur.switchTok = none) (hd : σ.depth + 1 ≤ σ.depthLimit)
    (hv : Calendar.ValidGregorian y m d ∧ -32767 ≤ y ∧ y ≤ 32767) :
    (evalExpr fuel (.call tf [C18_setdateCall ts t1 t2 t3 d m y])).run.run σ =
      (.ok (.int m), { σ with nextId := σ.nextId + 2 }) :=
  C18_exec_dateFun_setdate "MONTH" (.inr (.inl rfl)) fuel tf ts t1 t2 t3 d m y σ cur rest hfuel hname hsname hacts hsw hd hv

theorem C18_exec_year_setdate (fuel : Nat) (tf ts t1 t2 t3 : Tok) (d m y : Int) (σ : St) (cur : Act) (rest : List Act)
    (hfuel : 9 ≤ fuel) (hname : tf.val = "YEAR".toList) (hsname : ts.val = "SETDATE".toList)
    (hacts : σ.acts = cur :: rest) (hsw : cur.switchTok = none) (hd : σ.depth + 1 ≤ σ.depthLimit)
    (hv : Calendar.ValidGregorian y m d ∧ -32767 ≤ y ∧ y ≤ 32767) :
    (evalExpr fuel (.call tf [C18_setdateCall ts t1 t2 t3 d m y])).run.run σ =
      (.ok (.int y), { σ with nextId := σ.nextId + 2 }) :=
  C18_exec_dateFun_setdate "YEAR" (.inr (.inr (.inl rfl))) fuel tf ts t1 t2 t3 d m y σ cur rest hfuel hname hsname hacts hsw hd hv

/-- `DAYINDEX(SETDATE(d, m, y))` is the weekday number of the date -/
theorem C18_exec_dayindex_setdate (fuel : Nat) (tf ts t1 t2 t3 : Tok) (d m y : Int) (σ : St) (cur : Act) (rest : List Act)
    (hfuel : 9 ≤ fuel) (hname : tf.val = "DAYINDEX".toList) (hsname : ts.val = "SETDATE".toList)
    (hacts : σ.acts = cur :: rest) (hsw : cur.switchTok = none) (hd : σ.depth + 1 ≤ σ.depthLimit)
    (hv : Calendar.ValidGregorian y m d ∧ -32767 ≤ y ∧ y ≤ 32767) :
    (evalExpr fuel (.call tf [C18_setdateCall ts t1 t2 t3 d m y])).run.run σ =
      (.ok (.int (Calendar.dayIndex ⟨y, m, d⟩)), { σ with nextId := σ.nextId + 2 }) :=
  C18_exec_dateFun_setdate "DAYINDEX" (.inr (.inr (.inr rfl))) fuel tf ts t1 t2 t3 d m y σ cur rest hfuel hname hsname hacts hsw hd hv

/-- **DAYINDEX moves cyclically by one from a day to the next** (`C18_dayindex_step` on the evaluator): if `(d, m, y)` is a
    valid date of a year ≥ 1 and `(d', m', y')` are the components of the following day (`Calendar.next`: within a month,
    across a month end, across a year end, leap years included; still within the year range), then
    `DAYINDEX(SETDATE(d', m', y'))` returns `k % 7 + 1` where `k` is what `DAYINDEX(SETDATE(d, m, y))` returns. Together with
    `C18_exec_dayindex_today` (1 January 1970 is a Thursday) DAYINDEX is the true day of the week. -/
theorem C18_exec_dayindex_next_day (fuel : Nat) (tf ts t1 t2 t3 : Tok) (d m y d' m' y' : Int) (σ : St) (cur : Act)
    (rest : List Act)
    (hfuel : 9 ≤ fuel) (hname : tf.val = "DAYINDEX".toList) (hsname : ts.val = "SETDATE".toList)
    (hacts : σ.acts = cur :: rest) (hsw : cur.switchTok = none) (hd : σ.depth + 1 ≤ σ.depthLimit)
    (hv : Calendar.ValidGregorian y m d ∧ -32767 ≤ y ∧ y ≤ 32767) (hy : 1 ≤ y)
    (hnext : Calendar.next ⟨y, m, d⟩ = ⟨y', m', d'⟩) (hy' : y' ≤ 32767) :
    ∃ k : Int,
      (evalExpr fuel (.call tf [C18_setdateCall ts t1 t2 t3 d m y])).run.run σ =
        (.ok (.int k), { σ with nextId := σ.nextId + 2 }) ∧
      (evalExpr fuel (.call tf [C18_setdateCall ts t1 t2 t3 d' m' y'])).run.run σ =
        (.ok (.int (k % 7 + 1)), { σ with nextId := σ.nextId + 2 }) := by
  refine ⟨Calendar.dayIndex ⟨y, m, d⟩,
    C18_exec_dayindex_setdate fuel tf ts t1 t2 t3 d m y σ cur rest hfuel hname hsname hacts hsw hd hv, ?_⟩
  have hstep := Calendar.C18_dayindex_step ⟨y, m, d⟩ hy hv.1
  rw [hnext] at hstep
  rw [← hstep]
  have hv' : Calendar.ValidGregorian y' m' d' ∧ -32767 ≤ y' ∧ y' ≤ 32767 := by
    have hdm := Calendar.daysInMonth_pos y m
    obtain ⟨⟨h1, h2, h3, h4⟩, _, _⟩ := hv
    unfold Calendar.next at hnext
    simp only at hnext
    unfold Calendar.ValidGregorian
    split at hnext
    · injection hnext with e1 e2 e3
      subst e1 e2 e3
      exact ⟨⟨h1, h2, by omega, by omega⟩, by omega, hy'⟩
    · split at hnext
      · injection hnext with e1 e2 e3
        subst e1 e2 e3
        have := Calendar.daysInMonth_pos y (m + 1)
        exact ⟨⟨by omega, by omega, by omega, by omega⟩, by omega, hy'⟩
      · injection hnext with e1 e2 e3
        subst e1 e2 e3
        have := Calendar.daysInMonth_pos (y + 1) 1
        exact ⟨⟨by omega, by omega, by omega, by omega⟩, by omega, hy'⟩
  exact C18_exec_dayindex_setdate fuel tf ts t1 t2 t3 d' m' y' σ cur rest hfuel hname hsname hacts hsw hd hv'

/-- **`TODAY()`** is the model's fixed date, 1 January 1970 (the harness pins the interpreter's clock the same way) -/
theorem C18_exec_today (fuel : Nat) (tt : Tok) (σ : St) (cur : Act) (rest : List Act)
    (hfuel : 3 ≤ fuel) (hname : tt.val = "TODAY".toList)
    (hacts : σ.acts = cur :: rest) (hsw : cur.switchTok = none) (hd : σ.depth + 1 ≤ σ.depthLimit) :
    (evalExpr fuel (.call tt [])).run.run σ = (.ok (.date ⟨1970, 1, 1⟩), { σ with nextId := σ.nextId + 1 }) := by
  have h3 := run_callToday 0 tt σ cur rest hname hacts hd
  rw [← evalExpr_call] at h3
  rw [retSt_eq σ cur rest hacts hsw] at h3
  exact evalExpr_fuel_mono _ 3 fuel hfuel σ _ _ h3 (fun h => nomatch h)

/-- `DAYINDEX(TODAY())` = 5: the anchor date is a Thursday (`C18_epoch`) -/
theorem C18_exec_dayindex_today (fuel : Nat) (tf tt : Tok) (σ : St) (cur : Act) (rest : List Act)
    (hfuel : 6 ≤ fuel) (hname : tf.val = "DAYINDEX".toList) (htname : tt.val = "TODAY".toList)
    (hacts : σ.acts = cur :: rest) (hsw : cur.switchTok = none) (hd : σ.depth + 1 ≤ σ.depthLimit) :
    (evalExpr fuel (.call tf [.call tt []])).run.run σ = (.ok (.int 5), { σ with nextId := σ.nextId + 2 }) := by
  have h := (C18_exec_dayindex fuel 3 tf (.call tt []) ⟨1970, 1, 1⟩ σ { σ with nextId := σ.nextId + 1 } cur rest hfuel hname
    (C18_exec_today 3 tt σ cur rest (Nat.le_refl _) htname hacts hsw hd) hacts hsw hd).1
  rw [Calendar.C18_epoch.2] at h
  exact h

/-! ## 3. date literals -/

/-- **A date literal `d/m/y`** is decided by the same function as SETDATE: the date when `Calendar.setDate d m y` is one,
    otherwise the runtime diagnostic `invalidDate` — at the literal's token, raised in the CURRENT activation; the state is
    unchanged either way (no activation is created). -/
theorem C18_exec_dateLit (fuel : Nat) (t : Tok) (d m y : Nat) (σ : St) (hfuel : 1 ≤ fuel) :
    (evalExpr fuel (.dateLit t d m y)).run.run σ =
      match Calendar.setDate d m y with
      | some dt => (.ok (.date dt), σ)
      | none => (.error (.diag (rtDiag σ t.line t.col .invalidDate)), σ) := by
  obtain ⟨f, rfl⟩ : ∃ f, fuel = f + 1 := ⟨fuel - 1, by omega⟩
  rw [evalExpr.eq_def]
  dsimp only
  cases Calendar.setDate d m y with
  | some dt => rfl
  | none => exact run_rtErr t .invalidDate σ

/-- a valid literal is a pure expression whose value has exactly the written components -/
theorem C18_exec_dateLit_valid (t : Tok) (d m y : Nat) (σ : St)
    (hv : Calendar.ValidGregorian y m d ∧ (y : Int) ≤ 32767) :
    PureAt σ 1 (.dateLit t d m y) (.date ⟨y, m, d⟩) := by
  intro f hf
  rw [C18_exec_dateLit f t d m y σ hf, setDate_of_valid d m y ⟨hv.1, by omega, hv.2⟩]

theorem C18_exec_dateLit_iff (fuel : Nat) (t : Tok) (d m y : Nat) (σ : St) (hfuel : 1 ≤ fuel) :
    (∃ v σ', (evalExpr fuel (.dateLit t d m y)).run.run σ = (.ok v, σ')) ↔
      (Calendar.ValidGregorian y m d ∧ (y : Int) ≤ 32767) := by
  rw [C18_exec_dateLit fuel t d m y σ hfuel]
  constructor
  · intro ⟨v, σ', h⟩
    cases hs : Calendar.setDate (d : Int) m y with
    | none => rw [hs] at h; cases h
    | some dt =>
      have := (Calendar.C18_valid_iff d m y).mp ⟨dt, hs⟩
      exact ⟨this.1, this.2.2⟩
  · intro hv
    rw [setDate_of_valid d m y ⟨hv.1, by omega, hv.2⟩]
    exact ⟨_, _, rfl⟩

/-- **The literal `d/m/y` and the call `SETDATE(d, m, y)` side by side.** Same decision (`Calendar.setDate`), same value.
    They differ (a) in the state: the call uses up an activation number; (b) in the diagnostic of a refused date: the
    literal's is at the literal's token, with the current activation's frame (at that token) on top of the trace; the
    call's is at 0,0, with the frame of the built-in (`SETDATE`, 0,0) on top and the caller's frame at the position of the
    call below it; after it the depth counter and the caller's call-site mark are still set. -/
theorem C18_exec_dateLit_vs_setdate (fuel : Nat) (tl ts t1 t2 t3 : Tok) (d m y : Nat) (σ : St) (cur : Act) (rest : List Act)
    (hfuel : 6 ≤ fuel) (hname : ts.val = "SETDATE".toList)
    (hacts : σ.acts = cur :: rest) (hsw : cur.switchTok = none) (hd : σ.depth + 1 ≤ σ.depthLimit) :
    (∀ dt, Calendar.setDate d m y = some dt →
      (evalExpr fuel (.dateLit tl d m y)).run.run σ = (.ok (.date dt), σ) ∧
      (evalExpr fuel (C18_setdateCall ts t1 t2 t3 d m y)).run.run σ = (.ok (.date dt), { σ with nextId := σ.nextId + 1 })) ∧
    (Calendar.setDate d m y = none →
      (evalExpr fuel (.dateLit tl d m y)).run.run σ =
        (.error (.diag { kind := .runtime, line := tl.line, col := tl.col, msg := .invalidDate,
                         trace := { name := cur.name, line := tl.line, col := tl.col } :: rest.map frameOf }), σ) ∧
      (evalExpr fuel (C18_setdateCall ts t1 t2 t3 d m y)).run.run σ =
        (.error (.diag { kind := .runtime, line := 0, col := 0, msg := .invalidDate,
                         trace := { name := "SETDATE".toList, line := 0, col := 0 } ::
                                  { name := cur.name, line := ts.line, col := ts.col } :: rest.map frameOf }),
         { σ with nextId := σ.nextId + 1, depth := σ.depth + 1,
                  acts := { cur with switchTok := some (ts.line, ts.col) } :: rest })) := by
  have hl := C18_exec_dateLit fuel tl d m y σ (by omega)
  have hc := C18_exec_setdate fuel ts t1 t2 t3 d m y σ cur rest hfuel hname hacts hsw hd
  constructor
  · intro dt hs
    rw [hs] at hl hc
    exact ⟨hl, hc⟩
  · intro hs
    rw [hs] at hl hc
    rw [rtDiag_cons σ cur rest _ _ _ hacts] at hl
    exact ⟨hl, hc⟩

/-! ## 4. comparisons -/

/-- **Comparison of two DATE values**: the left operand evaluates (σ → σ₁) to the date `a`, the right one (σ₁ → σ₂) to the
    date `b`; the result is the comparison of the keys -/
theorem C18_exec_cmp_dates (f : Nat) (t : Tok) (op : CmpOp) (l r : Expr) (a b : Calendar.Date) (σ σ1 σ2 : St)
    (hl : (evalExpr f l).run.run σ = (.ok (.date a), σ1)) (hr : (evalExpr f r).run.run σ1 = (.ok (.date b), σ2)) :
    (evalExpr (f+1) (.cmp t op l r)).run.run σ = (.ok (.bool (cmpInt op (Calendar.key a) (Calendar.key b))), σ2) := by
  rw [evalExpr.eq_def]
  dsimp only
  rw [run_bind_ok _ _ _ _ _ hl, run_bind_ok _ _ _ _ _ hr, evalCmp_dates]
  rfl

/-- **… which is the chronological comparison** when both are calendar dates: `<` earlier, `>` later, `<=` earlier or the
    same, `>=` later or the same, `=` the same date, `<>` not the same date (`chrono`; `C18_key_mono`, `C18_key_eq`) -/
theorem C18_exec_cmp_chrono_run (f : Nat) (t : Tok) (op : CmpOp) (l r : Expr) (a b : Calendar.Date) (σ σ1 σ2 : St)
    (hl : (evalExpr f l).run.run σ = (.ok (.date a), σ1)) (hr : (evalExpr f r).run.run σ1 = (.ok (.date b), σ2))
    (ha : Calendar.ValidGregorian a.y a.m a.d) (hb : Calendar.ValidGregorian b.y b.m b.d) :
    ∃ res : Bool, (evalExpr (f+1) (.cmp t op l r)).run.run σ = (.ok (.bool res), σ2) ∧ (res = true ↔ chrono op a b) :=
  ⟨_, C18_exec_cmp_dates f t op l r a b σ σ1 σ2 hl hr, cmpInt_key op a b ha hb⟩

/-- the operands evaluate purely (any fuel ≥ `f₀`, state unchanged): variables, literals, … -/
theorem C18_exec_cmp_chrono (fuel f₀ : Nat) (t : Tok) (op : CmpOp) (l r : Expr) (a b : Calendar.Date) (σ : St)
    (hfuel : f₀ + 1 ≤ fuel) (hl : PureAt σ f₀ l (.date a)) (hr : PureAt σ f₀ r (.date b))
    (ha : Calendar.ValidGregorian a.y a.m a.d) (hb : Calendar.ValidGregorian b.y b.m b.d) :
    ∃ res : Bool, (evalExpr fuel (.cmp t op l r)).run.run σ = (.ok (.bool res), σ) ∧ (res = true ↔ chrono op a b) := by
  obtain ⟨f, rfl⟩ : ∃ f, fuel = f + 1 := ⟨fuel - 1, by omega⟩
  exact C18_exec_cmp_chrono_run f t op l r a b σ σ σ (hl f (by omega)) (hr f (by omega)) ha hb

/-- the six readings, spelt out -/
theorem C18_exec_chrono_lt (a b : Calendar.Date) : chrono .lt a b ↔ Calendar.before a b := Iff.rfl
theorem C18_exec_chrono_gt (a b : Calendar.Date) : chrono .gt a b ↔ Calendar.before b a := Iff.rfl
theorem C18_exec_chrono_le (a b : Calendar.Date) : chrono .le a b ↔ (Calendar.before a b ∨ a = b) := Iff.rfl
theorem C18_exec_chrono_ge (a b : Calendar.Date) : chrono .ge a b ↔ (Calendar.before b a ∨ a = b) := Iff.rfl
theorem C18_exec_chrono_eq (a b : Calendar.Date) : chrono .eq a b ↔ a = b := Iff.rfl
theorem C18_exec_chrono_ne (a b : Calendar.Date) : chrono .ne a b ↔ a ≠ b := Iff.rfl

/-- two valid date literals: no validity hypothesis on values is left -/
theorem C18_exec_cmp_dateLits (fuel : Nat) (t tl tr : Tok) (op : CmpOp) (d1 m1 y1 d2 m2 y2 : Nat) (σ : St)
    (hfuel : 2 ≤ fuel)
    (h1 : Calendar.ValidGregorian y1 m1 d1 ∧ (y1 : Int) ≤ 32767) (h2 : Calendar.ValidGregorian y2 m2 d2 ∧ (y2 : Int) ≤ 32767) :
    ∃ res : Bool, (evalExpr fuel (.cmp t op (.dateLit tl d1 m1 y1) (.dateLit tr d2 m2 y2))).run.run σ = (.ok (.bool res), σ) ∧
      (res = true ↔ chrono op ⟨y1, m1, d1⟩ ⟨y2, m2, d2⟩) :=
  C18_exec_cmp_chrono fuel 1 t op _ _ _ _ σ hfuel (C18_exec_dateLit_valid tl d1 m1 y1 σ h1)
    (C18_exec_dateLit_valid tr d2 m2 y2 σ h2) h1.1 h2.1

/-- two valid SETDATE calls (impure operands: each uses up an activation number) -/
theorem C18_exec_cmp_setdates (fuel : Nat) (t ts t1 t2 t3 ts' t1' t2' t3' : Tok) (op : CmpOp) (d1 m1 y1 d2 m2 y2 : Int) (σ : St)
    (cur : Act) (rest : List Act)
    (hfuel : 7 ≤ fuel) (hname : ts.val = "SETDATE".toList) (hname' : ts'.val = "SETDATE".toList)
    (hacts : σ.acts = cur :: rest) (hsw : cur.switchTok = none) (hd : σ.depth + 1 ≤ σ.depthLimit)
    (h1 : Calendar.ValidGregorian y1 m1 d1 ∧ -32767 ≤ y1 ∧ y1 ≤ 32767)
    (h2 : Calendar.ValidGregorian y2 m2 d2 ∧ -32767 ≤ y2 ∧ y2 ≤ 32767) :
    ∃ res : Bool,
      (evalExpr fuel (.cmp t op (C18_setdateCall ts t1 t2 t3 d1 m1 y1) (C18_setdateCall ts' t1' t2' t3' d2 m2 y2))).run.run σ =
        (.ok (.bool res), { σ with nextId := σ.nextId + 2 }) ∧
      (res = true ↔ chrono op ⟨y1, m1, d1⟩ ⟨y2, m2, d2⟩) := by
  obtain ⟨f, rfl⟩ : ∃ f, fuel = f + 1 := ⟨fuel - 1, by omega⟩
  exact C18_exec_cmp_chrono_run f t op _ _ ⟨y1, m1, d1⟩ ⟨y2, m2, d2⟩ σ { σ with nextId := σ.nextId + 1 } _
    (C18_exec_setdate_valid f ts t1 t2 t3 d1 m1 y1 σ cur rest (by omega) hname hacts hsw hd h1)
    (C18_exec_setdate_valid f ts' t1' t2' t3' d2 m2 y2 { σ with nextId := σ.nextId + 1 } cur rest (by omega) hname' hacts hsw hd h2)
    h1.1 h2.1

/-! ## non-vacuity: concrete runs, checked by the kernel -/

namespace C18ExecEx

def glob : Act := { id := 0, name := "Program".toList }
/-- the start state of a program: the global activation only -/
def st0 : St := { acts := [glob] }

def tS : Tok := ⟨.IDENTIFIER, 1, 8, "SETDATE".toList⟩
def tI (c : Nat) (s : String) : Tok := ⟨.INTEGER, 1, c, s.toList⟩
def tF (n : String) : Tok := ⟨.IDENTIFIER, 1, 3, n.toList⟩
/-- `SETDATE(d, m, y)` at line 1, column 8 -/
def setdate (d m y : Int) : Expr := C18_setdateCall tS (tI 16 "d") (tI 20 "m") (tI 23 "y") d m y

/-- what can be compared by the kernel of an evaluator result: the value if it is a date / integer / boolean -/
def dateOf : Except Stop Val → Option Calendar.Date
  | .ok (.date t) => some t
  | _ => none
def intOf : Except Stop Val → Option Int
  | .ok (.int k) => some k
  | _ => none
def boolOf : Except Stop Val → Option Bool
  | .ok (.bool b) => some b
  | _ => none
/-- message, position and trace of a diagnostic result -/
def diagOf : Except Stop Val → Option (Msg × Nat × Nat × List Frame)
  | .error (.diag d) => some (d.msg, d.line, d.col, d.trace)
  | _ => none

/-- `SETDATE(29, 2, 2024)`: a leap day — by the theorem (hypotheses hold) … -/
example : (evalExpr 6 (setdate 29 2 2024)).run.run st0 = (.ok (.date ⟨2024, 2, 29⟩), { st0 with nextId := 2 }) :=
  C18_exec_setdate_valid 6 _ _ _ _ 29 2 2024 st0 glob [] (by decide) rfl rfl rfl (by decide)
    (by unfold Calendar.ValidGregorian; decide)
/-- … and by running the model -/
example : dateOf ((evalExpr 6 (setdate 29 2 2024)).run.run st0).1 = some ⟨2024, 2, 29⟩ ∧
    ((evalExpr 6 (setdate 29 2 2024)).run.run st0).2.nextId = 2 ∧
    ((evalExpr 6 (setdate 29 2 2024)).run.run st0).2.depth = 0 := by decide +kernel

/-- `SETDATE(29, 2, 2023)` and `SETDATE(31, 4, 2024)` are refused: `invalidDate` at 0,0 inside `SETDATE`, called from 1,8 -/
example : (evalExpr 6 (setdate 29 2 2023)).run.run st0 =
    (.error (.diag { kind := .runtime, line := 0, col := 0, msg := .invalidDate,
                     trace := [⟨"SETDATE".toList, 0, 0⟩, ⟨"Program".toList, 1, 8⟩] }),
     { st0 with nextId := 2, depth := 1, acts := [{ glob with switchTok := some (1, 8) }] }) :=
  C18_exec_setdate_invalid 6 _ _ _ _ 29 2 2023 st0 glob [] (by decide) rfl rfl rfl (by decide)
    (by unfold Calendar.ValidGregorian; decide)
example : (evalExpr 6 (setdate 31 4 2024)).run.run st0 =
    (.error (.diag { kind := .runtime, line := 0, col := 0, msg := .invalidDate,
                     trace := [⟨"SETDATE".toList, 0, 0⟩, ⟨"Program".toList, 1, 8⟩] }),
     { st0 with nextId := 2, depth := 1, acts := [{ glob with switchTok := some (1, 8) }] }) :=
  C18_exec_setdate_invalid 6 _ _ _ _ 31 4 2024 st0 glob [] (by decide) rfl rfl rfl (by decide)
    (by unfold Calendar.ValidGregorian; decide)
example : diagOf ((evalExpr 6 (setdate 29 2 2023)).run.run st0).1 =
      some (.invalidDate, 0, 0, [⟨"SETDATE".toList, 0, 0⟩, ⟨"Program".toList, 1, 8⟩]) ∧
    diagOf ((evalExpr 6 (setdate 31 4 2024)).run.run st0).1 =
      some (.invalidDate, 0, 0, [⟨"SETDATE".toList, 0, 0⟩, ⟨"Program".toList, 1, 8⟩]) ∧
    ((evalExpr 6 (setdate 31 4 2024)).run.run st0).2.depth = 1 ∧
    ((evalExpr 6 (setdate 31 4 2024)).run.run st0).2.acts.map (·.switchTok) = [some (1, 8)] := by decide +kernel
/-- components a narrowing conversion would have wrapped (257 ≡ 1 mod 256) are refused -/
example : diagOf ((evalExpr 6 (setdate 257 1 2020)).run.run st0).1 =
      some (.invalidDate, 0, 0, [⟨"SETDATE".toList, 0, 0⟩, ⟨"Program".toList, 1, 8⟩]) := by decide +kernel

/-- `DAY / MONTH / YEAR (SETDATE(29, 2, 2024))` = 29 / 2 / 2024; DAYINDEX = 5 (a Thursday) -/
example : (evalExpr 9 (.call (tF "DAY") [setdate 29 2 2024])).run.run st0 = (.ok (.int 29), { st0 with nextId := 3 }) :=
  C18_exec_day_setdate 9 _ _ _ _ _ 29 2 2024 st0 glob [] (by decide) rfl rfl rfl rfl (by decide)
    (by unfold Calendar.ValidGregorian; decide)
example : (evalExpr 9 (.call (tF "MONTH") [setdate 29 2 2024])).run.run st0 = (.ok (.int 2), { st0 with nextId := 3 }) :=
  C18_exec_month_setdate 9 _ _ _ _ _ 29 2 2024 st0 glob [] (by decide) rfl rfl rfl rfl (by decide)
    (by unfold Calendar.ValidGregorian; decide)
example : (evalExpr 9 (.call (tF "YEAR") [setdate 29 2 2024])).run.run st0 = (.ok (.int 2024), { st0 with nextId := 3 }) :=
  C18_exec_year_setdate 9 _ _ _ _ _ 29 2 2024 st0 glob [] (by decide) rfl rfl rfl rfl (by decide)
    (by unfold Calendar.ValidGregorian; decide)
example : intOf ((evalExpr 9 (.call (tF "DAY") [setdate 29 2 2024])).run.run st0).1 = some 29 ∧
    intOf ((evalExpr 9 (.call (tF "MONTH") [setdate 29 2 2024])).run.run st0).1 = some 2 ∧
    intOf ((evalExpr 9 (.call (tF "YEAR") [setdate 29 2 2024])).run.run st0).1 = some 2024 ∧
    intOf ((evalExpr 9 (.call (tF "DAYINDEX") [setdate 29 2 2024])).run.run st0).1 = some 5 ∧
    ((evalExpr 9 (.call (tF "DAY") [setdate 29 2 2024])).run.run st0).2.nextId = 3 := by decide +kernel
/-- `DAY(SETDATE(31, 4, 2024))`: the diagnostic of the inner call -/
example : diagOf ((evalExpr 9 (.call (tF "DAY") [setdate 31 4 2024])).run.run st0).1 =
    some (.invalidDate, 0, 0, [⟨"SETDATE".toList, 0, 0⟩, ⟨"Program".toList, 1, 8⟩]) := by decide +kernel
example : (evalExpr 9 (.call (tF "DAY") [setdate 31 4 2024])).run.run st0 = (evalExpr 6 (setdate 31 4 2024)).run.run st0 :=
  C18_exec_dateFun_arg_error "DAY" (.inl rfl) 6 _ _ _ st0 _ rfl
    (C18_exec_setdate_invalid 6 _ _ _ _ 31 4 2024 st0 glob [] (by decide) rfl rfl rfl (by decide)
      (by unfold Calendar.ValidGregorian; decide))
/-- 29 February 2024 (Thursday, 5) → 1 March 2024 (Friday, 6): `C18_exec_dayindex_next_day` applies -/
example : ∃ k : Int,
    (evalExpr 9 (.call (tF "DAYINDEX") [setdate 29 2 2024])).run.run st0 = (.ok (.int k), { st0 with nextId := 3 }) ∧
    (evalExpr 9 (.call (tF "DAYINDEX") [setdate 1 3 2024])).run.run st0 = (.ok (.int (k % 7 + 1)), { st0 with nextId := 3 }) :=
  C18_exec_dayindex_next_day 9 _ _ _ _ _ 29 2 2024 1 3 2024 st0 glob [] (by decide) rfl rfl rfl rfl (by decide)
    (by unfold Calendar.ValidGregorian; decide) (by decide) (by decide) (by decide)
example : intOf ((evalExpr 9 (.call (tF "DAYINDEX") [setdate 1 3 2024])).run.run st0).1 = some 6 := by decide +kernel

/-- `TODAY()` and `DAYINDEX(TODAY())` -/
example : (evalExpr 3 (.call (tF "TODAY") [])).run.run st0 = (.ok (.date ⟨1970, 1, 1⟩), { st0 with nextId := 2 }) :=
  C18_exec_today 3 _ st0 glob [] (by decide) rfl rfl rfl (by decide)
example : (evalExpr 6 (.call (tF "DAYINDEX") [.call (tF "TODAY") []])).run.run st0 = (.ok (.int 5), { st0 with nextId := 3 }) :=
  C18_exec_dayindex_today 6 _ _ st0 glob [] (by decide) rfl rfl rfl rfl (by decide)
example : intOf ((evalExpr 6 (.call (tF "DAYINDEX") [.call (tF "TODAY") []])).run.run st0).1 = some 5 := by decide +kernel

/-- date literals: `29/02/2024` is the value of `SETDATE(29, 2, 2024)`; `31/04/2024` is refused at the literal's token (1,8),
    in the caller's activation, state unchanged -/
def tL : Tok := ⟨.DATE, 1, 8, "lit".toList⟩
example : (evalExpr 1 (.dateLit tL 29 2 2024)).run.run st0 = (.ok (.date ⟨2024, 2, 29⟩), st0) :=
  C18_exec_dateLit_valid tL 29 2 2024 st0 (by unfold Calendar.ValidGregorian; decide) 1 (by decide)
example : (evalExpr 6 (.dateLit tL 31 4 2024)).run.run st0 =
      (.error (.diag { kind := .runtime, line := 1, col := 8, msg := .invalidDate, trace := [⟨"Program".toList, 1, 8⟩] }), st0) ∧
    (evalExpr 6 (setdate (31 : Nat) (4 : Nat) (2024 : Nat))).run.run st0 =
      (.error (.diag { kind := .runtime, line := 0, col := 0, msg := .invalidDate,
                       trace := [⟨"SETDATE".toList, 0, 0⟩, ⟨"Program".toList, 1, 8⟩] }),
       { st0 with nextId := 2, depth := 1, acts := [{ glob with switchTok := some (1, 8) }] }) :=
  (C18_exec_dateLit_vs_setdate 6 tL _ _ _ _ 31 4 2024 st0 glob [] (by decide) rfl rfl rfl (by decide)).2 (by decide)
example : diagOf ((evalExpr 1 (.dateLit tL 31 4 2024)).run.run st0).1 =
      some (.invalidDate, 1, 8, [⟨"Program".toList, 1, 8⟩]) ∧
    dateOf ((evalExpr 1 (.dateLit tL 29 2 2024)).run.run st0).1 = some ⟨2024, 2, 29⟩ := by decide +kernel

/-- comparisons: 28/02/2024 is before `SETDATE(29, 2, 2024)`; all six operators on the pair -/
def tC : Tok := ⟨.LESSER, 1, 5, []⟩
example : ∃ res, (evalExpr 7 (.cmp tC .lt (setdate 28 2 2024) (setdate 29 2 2024))).run.run st0 =
      (.ok (.bool res), { st0 with nextId := 3 }) ∧ (res = true ↔ Calendar.before ⟨2024, 2, 28⟩ ⟨2024, 2, 29⟩) :=
  C18_exec_cmp_setdates 7 tC _ _ _ _ _ _ _ _ .lt 28 2 2024 29 2 2024 st0 glob [] (by decide) rfl rfl rfl rfl (by decide)
    (by unfold Calendar.ValidGregorian; decide) (by unfold Calendar.ValidGregorian; decide)
example : ∃ res, (evalExpr 2 (.cmp tC .ge (.dateLit tL 28 2 2024) (.dateLit tL 29 2 2024))).run.run st0 =
      (.ok (.bool res), st0) ∧ (res = true ↔ (Calendar.before ⟨2024, 2, 29⟩ ⟨2024, 2, 28⟩ ∨ (⟨2024, 2, 28⟩ : Calendar.Date) = ⟨2024, 2, 29⟩)) :=
  C18_exec_cmp_dateLits 2 tC tL tL .ge 28 2 2024 29 2 2024 st0 (by decide)
    (by unfold Calendar.ValidGregorian; decide) (by unfold Calendar.ValidGregorian; decide)
example : [CmpOp.lt, .le, .gt, .ge, .eq, .ne].map (fun op =>
      boolOf ((evalExpr 7 (.cmp tC op (setdate 28 2 2024) (setdate 29 2 2024))).run.run st0).1) =
    [some true, some true, some false, some false, some false, some true] := by decide +kernel
example : [CmpOp.lt, .le, .gt, .ge, .eq, .ne].map (fun op =>
      boolOf ((evalExpr 7 (.cmp tC op (setdate 1 1 2025) (.dateLit tL 31 12 2024))).run.run st0).1) =
    [some false, some false, some true, some true, some false, some true] := by decide +kernel

/-- **the validity hypotheses of `C18_exec_cmp_chrono` cannot be dropped**: a DATE variable that was never assigned holds
    `⟨0, 0, 0⟩`, which is not a calendar date; its key 0 is below the key of 31 December of the year −1 although
    `(0, 0, 0)` is lexicographically after `(−1, 12, 31)` -/
example : evalCmp .lt (.date ⟨0, 0, 0⟩) (.date ⟨-1, 12, 31⟩) = .ok (.bool true) ∧
    ¬ Calendar.before ⟨0, 0, 0⟩ ⟨-1, 12, 31⟩ ∧ ¬ Calendar.ValidGregorian 0 0 0 ∧
    Calendar.setDate 31 12 (-1) = some ⟨-1, 12, 31⟩ := by
  exact ⟨rfl, by unfold Calendar.before; decide, by unfold Calendar.ValidGregorian; decide, by decide⟩

/-! ### the ASTs are the parser's -/

/-- lexer + parser on a one-statement source text -/
def front (src : String) : Option Stmt :=
  match lex {} src.toList with
  | .ok toks => (match parse {} toks with | .ok ([s], _) => some s | _ => none)
  | .error _ => none

/-- the shape of `OUTPUT SETDATE(29, 2, 2024)`: one call with three integer literals; name and position of the call token -/
def isSetdateOutput : Option Stmt → Bool
  | some (.output _ [.call ts [.intLit _ d, .intLit _ m, .intLit _ y]]) =>
    ts.val == "SETDATE".toList && ts.line == 1 && ts.col == 8 && d == 29 && m == 2 && y == 2024
  | _ => false
def isDateLitOutput : Option Stmt → Bool
  | some (.output _ [.dateLit t d m y]) => t.line == 1 && t.col == 8 && d == 31 && m == 4 && y == 2024
  | _ => false
def isDayOfSetdate : Option Stmt → Bool
  | some (.output _ [.call tf [.call ts [.intLit _ _, .intLit _ _, .intLit _ _]]]) =>
    tf.val == "DAY".toList && ts.val == "SETDATE".toList
  | _ => false
def isCmp : Option Stmt → Bool
  | some (.output _ [.cmp _ .lt (.dateLit _ _ _ _) (.call _ [.intLit _ _, .intLit _ _, .intLit _ _])]) => true
  | _ => false
example : isSetdateOutput (front "OUTPUT SETDATE(29, 2, 2024)\n") = true ∧
    isDateLitOutput (front "OUTPUT 31/04/2024\n") = true ∧
    isDayOfSetdate (front "OUTPUT DAY(SETDATE(29, 2, 2024))\n") = true ∧
    isCmp (front "OUTPUT 28/02/2024 < SETDATE(29, 2, 2024)\n") = true := by decide +kernel

/-! ### whole programs through lexer, parser and evaluator -/

def prog : String :=
  "OUTPUT SETDATE(29, 2, 2024)\nOUTPUT DAY(SETDATE(29, 2, 2024))\nOUTPUT MONTH(SETDATE(29, 2, 2024))\n" ++
  "OUTPUT YEAR(SETDATE(29, 2, 2024))\nOUTPUT DAYINDEX(SETDATE(29, 2, 2024))\nOUTPUT DAYINDEX(SETDATE(1, 3, 2024))\n" ++
  "OUTPUT 28/02/2024 < SETDATE(29, 2, 2024)\nOUTPUT 29/02/2024 = SETDATE(29, 2, 2024)\n" ++
  "OUTPUT SETDATE(1, 1, 2025) <= 31/12/2024\nOUTPUT TODAY()\nOUTPUT DAYINDEX(TODAY())\n"
example : (runFile {} prog.toList [] []).out = "29/2/2024\n29\n2\n2024\n5\n6\nTRUE\nTRUE\nFALSE\n1/1/1970\n5\n".toList ∧
    (runFile {} prog.toList [] []).diags = [] := by decide +kernel
example : (runFile {} "OUTPUT SETDATE(29, 2, 2023)\n".toList [] []).diags.map (fun d => (d.msg, d.line, d.col, d.trace)) =
    [(.invalidDate, 0, 0, [⟨"SETDATE".toList, 0, 0⟩, ⟨"Program".toList, 1, 8⟩])] := by decide +kernel
example : (runFile {} "OUTPUT SETDATE(31, 4, 2024)\n".toList [] []).diags.map (fun d => (d.msg, d.line, d.col, d.trace)) =
    [(.invalidDate, 0, 0, [⟨"SETDATE".toList, 0, 0⟩, ⟨"Program".toList, 1, 8⟩])] := by decide +kernel
example : (runFile {} "OUTPUT 31/04/2024\n".toList [] []).diags.map (fun d => (d.msg, d.line, d.col, d.trace)) =
    [(.invalidDate, 1, 8, [⟨"Program".toList, 1, 8⟩])] := by decide +kernel
example : (runFile {} "OUTPUT 29/02/1900\n".toList [] []).diags.map (·.msg) = [.invalidDate] := by decide +kernel
/-- the never-assigned DATE variable in a program: compares as "before 31 December of the year −1" -/
example : (runFile {} "DECLARE x : DATE\nOUTPUT x < SETDATE(31, 12, -1)\n".toList [] []).out = "TRUE\n".toList := by decide +kernel

end C18ExecEx

end Pseudo
