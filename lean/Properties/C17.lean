import PseudoModel.Builtins
/-!
# C17 — string, character, conversion and numeric built-ins meet their contracts
Model: the pure cores in `Pseudo.Builtins` (`bLeft`, `bRight`, `bMid`, `bIsNum`, `bRand`, `bInt`) and the
C-locale character functions of `Pseudo.Basic`; these are the functions `runBuiltin` calls.
-/
namespace Pseudo

macro "ifs_omega" : tactic =>
  `(tactic| ((repeat' split) <;> first | (exfalso; omega) | rfl | (simp; done) | (simp; omega) | omega))

/-- LEFT and RIGHT return exactly the first / last n characters -/
theorem C17_left (s : Str) (n : Nat) (h : n ≤ s.length) : bLeft s n = .ok (s.take n) := by
  unfold bLeft; ifs_omega

theorem C17_right (s : Str) (n : Nat) (h : n ≤ s.length) : bRight s n = .ok (s.drop (s.length - n)) := by
  unfold bRight; ifs_omega

/-- LEFT(s,n) & RIGHT(s, LENGTH(s)-n) = s for every 0 ≤ n ≤ |s| -/
theorem C17_left_right (s : Str) (n : Nat) (h : n ≤ s.length) :
    ∃ l r, bLeft s n = .ok l ∧ bRight s ((s.length : Int) - n) = .ok r ∧ l ++ r = s := by
  refine ⟨s.take n, s.drop n, C17_left s n h, ?_, List.take_append_drop n s⟩
  have e : ((s.length : Int) - (n : Int)) = ((s.length - n : Nat) : Int) := by omega
  rw [e, C17_right s (s.length - n) (by omega)]
  congr 2; omega

/-- MID(s,i,n) is characters i … i+n-1 (positions from 1) -/
theorem C17_mid (s : Str) (i n : Nat) (hlen : (s.length : Int) < two63) (hi1 : 1 ≤ i) (hi : i ≤ s.length) (hn : i - 1 + n ≤ s.length) :
    bMid s i n = .ok ((s.drop (i - 1)).take n) := by
  unfold bMid
  have hw : wrap64 ((i : Int) - 1) = ((i - 1 : Nat) : Int) := by unfold wrap64 two63 two64 at *; omega
  have hw2 : wrap64 ((n : Int) + ((i - 1 : Nat) : Int)) = ((n + (i - 1) : Nat) : Int) := by unfold wrap64 two63 two64 at *; omega
  simp only [hw, hw2]
  ifs_omega

/-- every argument outside the string is a runtime error (never a value, never a read outside the string) -/
theorem C17_range_errors (s : Str) (n i : Int) (hlen : (s.length : Int) < two63) :
    (n < 0 ∨ n > s.length → bLeft s n = .error .strRange ∧ bRight s n = .error .strRange) ∧
    (i < 1 ∨ i > s.length → -two63 + 1 ≤ i → i < two63 → bMid s i n = .error .strRange) ∧
    (1 ≤ i → i ≤ s.length → n < 0 → bMid s i n = .error .strRange) := by
  refine ⟨?_, ?_, ?_⟩
  · intro h
    unfold bLeft bRight
    constructor <;> ifs_omega
  · intro h hlo hhi
    unfold bMid
    have hw : wrap64 (i - 1) = i - 1 := by unfold wrap64 two63 two64 at *; omega
    simp only [hw]
    ifs_omega
  · intro h1 h2 h3
    unfold bMid
    have hw : wrap64 (i - 1) = i - 1 := by unfold wrap64 two63 two64 at *; omega
    simp only [hw]
    ifs_omega

/-- the case functions change exactly a–z / A–Z and nothing else (all code points) -/
theorem C17_case (c : Char) :
    (toUpperC c = if isLower c then Char.ofNat (c.toNat - 32) else c) ∧
    (toLowerC c = if isUpper c then Char.ofNat (c.toNat + 32) else c) := ⟨rfl, rfl⟩

theorem C17_case_idem (c : Char) (h : ¬ isLower c = true) : toUpperC c = c := by
  unfold toUpperC; simp [h]

/-- ASC(CHR(n)) = n for 0 ≤ n ≤ 127 -/
theorem C17_asc_chr (n : Int) (h0 : 0 ≤ n) (h1 : n ≤ 127) : intOfByte (byteOfInt n) = n := by
  unfold intOfByte byteOfInt
  have hm : (n % 256).toNat = n.toNat := by omega
  have hlt : n.toNat < 128 := by omega
  have hall : ∀ k, k < 128 → (Char.ofNat k).toNat = k := by decide
  have hv : (Char.ofNat n.toNat).toNat = n.toNat := hall _ hlt
  rw [hm, hv]
  simp [hlt]; omega

/-- every string of decimal digits with at most one '.' is accepted by IS_NUM -/
theorem isNum_go_digits : ∀ (s : Str) (dec : Bool), (∀ c ∈ s, isDigit c = true) → bIsNum.go s dec = true
  | [], _, _ => by simp [bIsNum.go]
  | c :: rest, dec, h => by
    have hc : isDigit c = true := h c (by simp)
    have hne : (c == '.') = false := by
      cases hcd : (c == '.') with
      | false => rfl
      | true =>
        have : c = '.' := by simpa using hcd
        subst this; simp [isDigit] at hc
    simp only [bIsNum.go, hne, hc]
    simp
    exact isNum_go_digits rest dec (fun x hx => h x (by simp [hx]))

theorem C17_digits_accepted (a b : Str) (ha : ∀ c ∈ a, isDigit c = true) (hb : ∀ c ∈ b, isDigit c = true) :
    bIsNum a = true ∧ bIsNum (a ++ '.' :: b) = true := by
  constructor
  · exact isNum_go_digits a false ha
  · unfold bIsNum
    induction a with
    | nil => simp [bIsNum.go]; exact isNum_go_digits b true hb
    | cons c rest ih =>
      have hc : isDigit c = true := ha c (by simp)
      have hne : (c == '.') = false := by
        cases hcd : (c == '.') with
        | false => rfl
        | true =>
          have : c = '.' := by simpa using hcd
          subst this; simp [isDigit] at hc
      simp only [List.cons_append, bIsNum.go, hne, hc]
      simp
      exact ih (fun x hx => ha x (by simp [hx]))

/-- two points, or a character that is neither digit nor point, are refused -/
theorem C17_isnum_rejects : bIsNum "1.2.3".toList = false ∧ bIsNum "12x".toList = false ∧ bIsNum "abc".toList = false := by decide

/-- RAND(x) with x ≤ 0 is 0 (the range [0, x] for x > 0 is a statement about Float rounding: checked by the harness) -/
theorem C17_rand_nonpos (x : Int) (h : x ≤ 0) (r1 r2 : Nat) : bRand x r1 r2 = 0.0 := by
  unfold bRand; simp; omega

/-! non-vacuity -/
example : bMid "ABCDEFG".toList 4 2 = .ok "DE".toList := by rfl
example : bLeft "ab".toList 3 = .error .strRange := by rfl

end Pseudo
