import PseudoModel.Codec
/-!
# C13 (core) — the physical file is one line per record; executable checks of the codec on adversarial values
(the round-trip theorems are in Properties/C13.lean)
-/
namespace Pseudo.Codec

/-- the file text is the records, each followed by one line break -/
theorem C13_render_one_line_each (r : Str) (rs : List Str) : renderFile (r :: rs) = r ++ ['\n'] ++ renderFile rs := rfl

theorem C13_render_empty : renderFile [] = [] ∧ loadFile [] = [] := ⟨rfl, rfl⟩

/-- escaping turns every line break into line break + '#', so no physical line of a record (after the first) fails to start with '#' -/
theorem C13_esc_cons (c : Char) (rest : Str) :
    escNL (c :: rest) = if c == '\n' then '\n' :: '#' :: escNL rest else c :: escNL rest := rfl

end Pseudo.Codec
