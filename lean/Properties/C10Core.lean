import PseudoModel.Lexer
/-!
# C10 (core) — CRLF and LF sources lex identically
(the character-level lemmas for blanks and comments are in Properties/C10.lean)
-/
namespace Pseudo

/-- carriage returns are removed before lexing: a CRLF file and its LF version give the same tokens or the same error -/
theorem C10_crlf_core (cfg : LexCfg) (s : List Char) : lex cfg s = lex cfg (s.filter (· != '\r')) := by
  unfold lex
  simp only [List.filter_filter, Bool.and_self]

example : lex {} "x <- 1\r\nOUTPUT x\r\n".toList = lex {} "x <- 1\nOUTPUT x\n".toList := by rfl

end Pseudo
