import PseudoModel.Numeric
/-!
# C02 — expressions evaluate to the documented value and type (value level)
Model: `Pseudo.evalArith`, `intArith`, `realArith`, `evalCmp`, `evalLogic`, `evalConcat`.
The grouping half (precedence / associativity of the parser) is `C02_parse_*` in Properties/C02Parse.lean.
`Float` is opaque: REAL results are stated as "which Float operation is applied", never computed.
-/
namespace Pseudo

def noEnum : Str → Option Nat := fun _ => none

/-- INTEGER op INTEGER for + - * is exact integer arithmetic followed by two's-complement wrap: no `Float` occurs -/
theorem C02_int_exact (a b : Int) :
    evalArith noEnum .add (.int a) (.int b) = .ok (.int (wrap64 (a + b))) ∧
    evalArith noEnum .sub (.int a) (.int b) = .ok (.int (wrap64 (a - b))) ∧
    evalArith noEnum .mul (.int a) (.int b) = .ok (.int (wrap64 (a * b))) := by
  refine ⟨?_, ?_, ?_⟩ <;> simp [evalArith, divides, intArith]

theorem wrap64_id (n : Int) (h : InRange64 n) : wrap64 n = n := by
  unfold wrap64 InRange64 two63 two64 at *; omega

/-- within range nothing wraps -/
theorem C02_int_exact_in_range (a b : Int) (h : InRange64 (a + b)) :
    evalArith noEnum .add (.int a) (.int b) = .ok (.int (a + b)) := by
  rw [(C02_int_exact a b).1, wrap64_id _ h]

/-- result types: `/` is always REAL, DIV always INTEGER, the others REAL iff an operand is REAL -/
theorem C02_result_type (op : ArOp) (l r v : Val) (hl : l.ty = .int ∨ l.ty = .real) (hr : r.ty = .int ∨ r.ty = .real)
    (h : evalArith noEnum op l r = .ok v) :
    v.ty = (if op = .div then Ty.real else if op = .idiv then Ty.int
            else if l.ty = .real ∨ r.ty = .real then Ty.real else Ty.int) := by
  cases l <;> simp [Val.ty] at hl <;> cases r <;> simp [Val.ty] at hr <;>
    cases op <;> simp [evalArith, divides, intArith, realArith] at h <;>
    (try (split at h <;> simp at h)) <;> (try subst h) <;> simp_all [Val.ty] <;>
    (try (obtain ⟨_, h⟩ := h; subst h; simp [Val.ty]))

/-- the DIV/MOD law on INTEGER operands: a = (a DIV b)*b + (a MOD b) and |a MOD b| < |b|, for every b ≠ 0
    (mathematically; DIV's result is then wrapped, which only matters for (-2^63) DIV (-1)) -/
theorem C02_divmod_law (a b : Int) (hb : b ≠ 0) :
    a = (Int.tdiv a b) * b + Int.tmod a b ∧ (Int.tmod a b).natAbs < b.natAbs := by
  constructor
  · have := Int.mul_tdiv_add_tmod a b
    rw [Int.mul_comm] at this; omega
  · rw [Int.natAbs_tmod]
    exact Nat.mod_lt _ (Int.natAbs_pos.mpr hb)

theorem C02_divmod_eval (a b : Int) (hb : b ≠ 0) :
    evalArith noEnum .idiv (.int a) (.int b) = .ok (.int (wrap64 (Int.tdiv a b))) ∧
    evalArith noEnum .mod (.int a) (.int b) = .ok (.int (Int.tmod a b)) := by
  have : (b == 0) = false := by simp [hb]
  constructor <;> simp [evalArith, divides, intArith, this]

/-- division, DIV and MOD by an INTEGER or REAL zero are runtime errors -/
theorem C02_zero_divisor (op : ArOp) (hop : op = .div ∨ op = .idiv ∨ op = .mod) (a : Int) (x : Float) :
    evalArith noEnum op (.int a) (.int 0) = .error .divZero ∧
    evalArith noEnum op (.real x) (.int 0) = .error .divZero := by
  rcases hop with h | h | h <;> subst h <;> simp [evalArith, divides]

/-- operands of a type the arithmetic operators do not accept are rejected (never a value) -/
theorem C02_arith_rejects (op : ArOp) (l r : Val)
    (hl : l.ty ≠ .int ∧ l.ty ≠ .real) (hne : ∀ n, l.ty ≠ .enum n) (hre : ∀ n, r.ty ≠ .enum n) :
    evalArith noEnum op l r = .error .typeMismatch := by
  cases l <;> simp [Val.ty] at hl hne <;> cases r <;> simp [Val.ty] at hre <;> simp [evalArith]

/-- comparisons of two INTEGERs are the mathematical order -/
theorem C02_cmp_int (a b : Int) :
    evalCmp .lt (.int a) (.int b) = .ok (.bool (decide (a < b))) ∧
    evalCmp .le (.int a) (.int b) = .ok (.bool (decide (a ≤ b))) ∧
    evalCmp .eq (.int a) (.int b) = .ok (.bool (a == b)) := by
  refine ⟨?_, ?_, ?_⟩ <;> simp [evalCmp, cmpInt]

/-- ordering comparisons on BOOLEAN / STRING operands are rejected; = and <> are accepted -/
theorem C02_cmp_rejects (s t : Str) (p q : Bool) :
    evalCmp .lt (.str s) (.str t) = .error .typeMismatch ∧ evalCmp .ge (.bool p) (.bool q) = .error .typeMismatch ∧
    evalCmp .eq (.str s) (.str t) = .ok (.bool (s == t)) := by
  refine ⟨?_, ?_, ?_⟩ <;> simp [evalCmp, eqRes, Val.ty]

/-- AND / OR / NOT accept BOOLEAN operands only -/
theorem C02_logic (p q : Bool) (n : Int) :
    evalLogic .and (.bool p) (.bool q) = .ok (.bool (p && q)) ∧ evalLogic .or (.bool p) (.bool q) = .ok (.bool (p || q)) ∧
    evalLogic .and (.int n) (.bool q) = .error .typeMismatch ∧ evalNot (.int n) = .error .typeMismatch ∧
    evalNot (.bool p) = .ok (.bool (!p)) := by
  refine ⟨?_, ?_, ?_, ?_, ?_⟩ <;> simp [evalLogic, evalNot]

/-- `&` yields a STRING for primitive operands and is rejected otherwise -/
theorem C02_concat (s t : Str) (ty : Str) (i : Nat) :
    evalConcat (.str s) (.str t) = .ok (.str (s ++ t)) ∧ evalConcat (.enum ty i) (.str t) = .error .nonPrimitive := by
  constructor <;> simp [evalConcat, primToString]

/-! non-vacuity -/
example : (Int.tdiv (-7) 2, Int.tmod (-7) 2) = (-3, -1) := by decide
example : wrap64 (Int.tdiv (-9223372036854775808) (-1)) = -9223372036854775808 := by decide

end Pseudo
