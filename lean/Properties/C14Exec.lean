import PseudoProofs.RandomFile
/-!
# C14 for programs: random-file statements on the evaluator refine the abstract sequence

`Properties/C14.lean` / `C14Reopen.lean` prove the property about the pure file machine (`fstep`, `closeAllF`) and the
abstract sequence `Seq` (record texts + cursor). Here it is proved about runs of statements (`execStmt` / `runBlock`) and of
whole programs (`runFileOn` / `runFile`). Helpers and the abstract machine on VALUES: `PseudoProofs/RandomFile.lean`.

Vocabulary (all in `Pseudo.RandomFile`):
* `RecClass defs` — a set `T` of values that read back from their record text into a variable holding any value of the set
  (`RecClass.int`, `RecClass.str` — any bytes, line breaks included —, `RecClass.ofStorable`: any set of `Storable`, pairwise
  `SameShape` values: records, arrays, enums, REALs under the reader law).
* `VSeq` = values + cursor, `VSeq.toSeq` = the `Seq` of C14 (texts `Codec.dump v`); `ROp` = `SEEK n, <literal>` /
  `PUTRECORD n, x` / `GETRECORD n, x` / `reopen` (= `CLOSEFILE n ; OPENFILE n FOR RANDOM`), each with the tokens of its
  statement(s); `block n ops` the statements; `specStep` / `specRun` the abstract machine (stops at the first undefined
  operation); `trace` the `SOp` history it performs, so that `Seq.run (absH h) (trace …)` is the sequence reached.
* `RInv C σ n q a rest` — the state `σ` has current activation `a` (above `rest`), codec definitions `defs`, and `n` open FOR
  RANDOM with a handle `h` such that `absH h = q.toSeq`; all values of `q` are in `C.T`, the cursor is within 0 … len, `h` is
  the only handle named `n`, `nameTooLong n = false`, `DiskOK` (what OPENFILE / PUTRECORD leave on disk).
* `VarsOK C a ops` — every variable named by a PUTRECORD / GETRECORD of `ops` is a plain variable of `a` (not a constant, not
  a BYREF formal, not of pointer type) holding a value of `C.T`.

Restrictions (all of them): SEEK addresses are INTEGER literals, the file name is a STRING literal, the variables are plain
variables of the CURRENT activation (arrays, BYREF formals, globals seen from a procedure are not covered), and every record
in the file belongs to one class `C` (otherwise GETRECORD can fail with `recordRead` although the cursor is on a record:
`C13_mismatch`).
-/
namespace Pseudo
open FileStmt ReadLoop RandomFile

/-! ## 1. SEEK / PUTRECORD / GETRECORD (/ close + reopen) blocks run like `Seq.run` -/

/-- **when an operation is defined** (the property's words): SEEK k iff `1 ≤ k ≤ len + 1`; GETRECORD iff the cursor is on a
    record (`cur < len`: not at `len + 1`, not on an empty file); PUTRECORD whenever the variable exists; close + reopen always -/
theorem C14_exec_defined_iff (q : VSeq) (a : Act) :
    (∀ t tn tk k, (specStep q a (.seek t tn tk k)).isSome ↔ (1 ≤ k ∧ k ≤ (q.vals.length : Int) + 1)) ∧
    (∀ t tn x, (specStep q a (.get t tn x)).isSome ↔ q.cur < q.vals.length) ∧
    (∀ t tn x, (specStep q a (.put t tn x)).isSome ↔ (findSlot a.vars x.val).isSome) ∧
    (∀ t tn t' tn', (specStep q a (.reopen t tn t' tn')).isSome) := by
  refine ⟨fun t tn tk k => ?_, fun t tn x => ?_, fun t tn x => ?_, fun _ _ _ _ => rfl⟩
  · simp only [specStep, VSeq.seek, Option.isSome_map]
    split <;> simp_all
  · simp [specStep, VSeq.get]
  · simp [specStep, varVal]

/-- **one operation** (the one-step lemma): from a state satisfying the invariant, the statement(s) of `op` run — with
    fuel `≥ op.cost + 3` and `op.cost` steps of budget — exactly like the abstract step:
    * defined (`specStep q a op = some (q', a')`): normal end; the invariant holds for `q'`, `a'`; the state differs from `σ`
      only in `steps` (+ `op.cost`), the file component and the activation `a'` (`StFrame`); for SEEK / PUT / GET the file
      system `fs` is untouched;
    * undefined: a runtime diagnostic of class `seekRange` (SEEK) / `recordRead` (GETRECORD) at the statement's token, and
      nothing but `steps` (+1) has changed. -/
theorem C14_exec_op_refines_seq {defs : Codec.Defs} (C : RecClass defs) (fuel : Nat) (n : Str) (op : ROp) (σ : St) (q : VSeq)
    (a : Act) (rest : List Act) (inv : RInv C σ n q a rest) (hvars : VarsOK C a [op]) (hfuel : op.cost + 3 ≤ fuel)
    (hb : σ.steps + op.cost ≤ σ.stepLimit) :
    (∀ q' a', specStep q a op = some (q', a') →
      ∃ σ', (runBlock fuel (op.stmts n)).run.run σ = (.ok ⟨⟩, σ') ∧ RInv C σ' n q' a' rest ∧
        StFrame σ σ' op.cost (a' :: rest) ∧ (op.isReopen = false → σ'.fs = σ.fs)) ∧
    (specStep q a op = none →
      ∃ d, (runBlock fuel (op.stmts n)).run.run σ = (.error (.diag d), { σ with steps := σ.steps + 1 }) ∧
        d.kind = .runtime ∧ d.msg = op.failMsg ∧ d.line = op.tok.line ∧ d.col = op.tok.col) := by
  obtain ⟨h1, h2⟩ := run_op (C := C) (n := n) (rest := rest) 0 op inv hvars hb
  constructor
  · intro q' a' hs
    obtain ⟨σ', hrun, r⟩ := h1 q' a' hs
    exact ⟨σ', runBlock_fuel_mono _ _ fuel (by omega) σ _ _ hrun (by intro h; cases h), r⟩
  · intro hs
    obtain ⟨d, hd, hk, hm, hl, hc⟩ := errAt_spec (α := Unit) (tickSt σ) op.tok op.failMsg
    have hrun := h2 hs
    rw [hd] at hrun
    exact ⟨d, runBlock_fuel_mono _ _ fuel (by omega) σ _ _ hrun (by intro h; cases h), hk, hm, hl, hc⟩

/-- **a block of SEEK / PUTRECORD / GETRECORD statements (and CLOSEFILE + OPENFILE pairs) on an open random file runs exactly
    like `Seq.run` on `absH h`** (the fold of the one-step lemma over the operation list).

    Let `r = specRun q a ops` be the abstract run from the sequence `q` (`absH h = q.toSeq`) and the activation `a`; it stops
    at the first operation that is not defined. With any fuel `≥ cost ops + 3` and a step budget of `cost ops`, the block
    `block n ops` reaches a state `σ'` in which
    * `n` is open FOR RANDOM with a handle `h'` that abstracts to the final `Seq`: `absH h' = (Seq.run (absH h) (trace …)).1`
      (`= r.q.toSeq`), where `trace q a ops` is the `SOp` history of the operations executed (PUTRECORD ↦ `put (dump v)` with
      `v` the variable's value at that moment; close + reopen ↦ `seek 1`), and `Seq.run` reports each of them as defined;
    * the invariant holds again (so the theorem applies to the next block; after a failure: the file component is as the
      preceding operations left it, `r.q` being the sequence reached by them);
    * `σ'` differs from `σ` only in `steps` (+ `r.steps`), the file component, and the current activation `r.a` — in which every
      GETRECORD has stored the value of the record under the cursor (`specStep`, `C14_exec_get_value`);
    * handles of other names are untouched; without close + reopen the file system `fs` is untouched (a random file is
      written back at CLOSEFILE / exit only);
    * if every operation is defined (`r.failed = none`) the block ends normally after `cost ops` steps; otherwise the block
      ends at the first undefined operation `op` (`specStep r.q r.a op = none`: SEEK outside `1 … len + 1`, GETRECORD with
      the cursor behind the last record) with a runtime diagnostic of class `seekRange` / `recordRead` at its token. -/
theorem C14_exec_ops_refine_seq {defs : Codec.Defs} (C : RecClass defs) (fuel : Nat) (n : Str) (ops : List ROp) (σ : St)
    (h : Handle) (q : VSeq) (a : Act) (rest : List Act) (inv : RInv C σ n q a rest)
    (hh : FState.handle { fs := σ.fs, handles := σ.handles } n = some h)
    (hvars : VarsOK C a ops) (hfuel : cost ops + 3 ≤ fuel) (hb : σ.steps + cost ops ≤ σ.stepLimit) :
    absH h = q.toSeq ∧
    ∃ (σ' : St) (h' : Handle),
      FState.handle { fs := σ'.fs, handles := σ'.handles } n = some h' ∧ h'.mode = .random ∧
      absH h' = ((absH h).run (trace q a ops)).1 ∧ (∀ o ∈ ((absH h).run (trace q a ops)).2, o.isSome = true) ∧
      absH h' = (specRun q a ops).q.toSeq ∧
      RInv C σ' n (specRun q a ops).q (specRun q a ops).a rest ∧
      StFrame σ σ' (specRun q a ops).steps ((specRun q a ops).a :: rest) ∧
      (∀ m, m ≠ n → FState.handle { fs := σ'.fs, handles := σ'.handles } m =
        FState.handle { fs := σ.fs, handles := σ.handles } m) ∧
      (NoReopen ops → σ'.fs = σ.fs) ∧
      (∀ x, GoodVar C a x → GoodVar C (specRun q a ops).a x) ∧
      match (specRun q a ops).failed with
      | none => (runBlock fuel (block n ops)).run.run σ = (.ok ⟨⟩, σ') ∧ (specRun q a ops).steps = cost ops
      | some op => op ∈ ops ∧ specStep (specRun q a ops).q (specRun q a ops).a op = none ∧
          ∃ d, (runBlock fuel (block n ops)).run.run σ = (.error (.diag d), σ') ∧
            d.kind = .runtime ∧ d.msg = op.failMsg ∧ d.line = op.tok.line ∧ d.col = op.tok.col := by
  obtain ⟨h0, hf0⟩ := inv.file
  have hh0 : h = h0 := by
    have := hf0.handle
    rw [show FState.handle (fileSt σ) n = FState.handle { fs := σ.fs, handles := σ.handles } n from rfl, hh] at this
    injection this
  subst hh0
  refine ⟨hf0.abs, ?_⟩
  obtain ⟨σ', hrun, hinv, hfr, hoth, hfs, hgv⟩ := run_ops (C := C) (n := n) (rest := rest) 0 ops σ q a inv hvars hb
  obtain ⟨h', hf'⟩ := hinv.file
  obtain ⟨ht1, ht2⟩ := specRun_toSeq q a ops
  refine ⟨σ', h', hf'.handle, hf'.mode, ?_, ?_, hf'.abs, hinv, hfr, hoth, hfs, hgv, ?_⟩
  · rw [hf0.abs, ht1]; exact hf'.abs
  · rw [hf0.abs]; exact ht2
  · unfold outcome at hrun
    cases hfail : (specRun q a ops).failed with
    | none =>
      rw [hfail] at hrun
      exact ⟨runBlock_fuel_mono _ _ fuel (by omega) σ _ _ hrun (by intro h; cases h), specRun_steps q a ops hfail⟩
    | some op =>
      rw [hfail] at hrun
      dsimp only at hrun ⊢
      obtain ⟨hs, hmem⟩ := specRun_failed q a ops op hfail
      obtain ⟨d, hd, hk, hm, hl, hc⟩ := errAt_spec (α := Unit) σ' op.tok op.failMsg
      rw [hd] at hrun
      exact ⟨hmem, hs, d, runBlock_fuel_mono _ _ fuel (by omega) σ _ _ hrun (by intro h; cases h), hk, hm, hl, hc⟩

/-- **after a successful block that ends with `GETRECORD n, x`, the variable `x` holds the value of the record that was under
    the cursor** — the value `Codec.load` decodes from the record text `Codec.dump v` (C13) —, and that record is still under
    the cursor of the final handle -/
theorem C14_exec_get_value {defs : Codec.Defs} (C : RecClass defs) (fuel : Nat) (n : Str) (ops : List ROp) (t tn x : Tok)
    (σ : St) (q : VSeq) (a : Act) (rest : List Act) (inv : RInv C σ n q a rest)
    (hvars : VarsOK C a (ops ++ [.get t tn x])) (hfuel : cost (ops ++ [.get t tn x]) + 3 ≤ fuel)
    (hb : σ.steps + cost (ops ++ [.get t tn x]) ≤ σ.stepLimit)
    (hok : (specRun q a ops).failed = none) (hget : (specRun q a ops).q.cur < (specRun q a ops).q.vals.length) :
    ∃ (σ' : St) (a' : Act) (h' : Handle) (ty : Ty) (v : Val),
      (runBlock fuel (block n (ops ++ [.get t tn x]))).run.run σ = (.ok ⟨⟩, σ') ∧ σ'.acts = a' :: rest ∧
      HasVar a' x.val ty v ∧ (specRun q a ops).q.vals[(specRun q a ops).q.cur]? = some v ∧
      FState.handle { fs := σ'.fs, handles := σ'.handles } n = some h' ∧ h'.records[h'.ptr]? = some (Codec.dump v) ∧
      ∀ cur, C.T cur → (Codec.load defs cur (Codec.dump v)).map Prod.fst = some v := by
  obtain ⟨h0, hf0⟩ := inv.file
  have hcost : cost (ops ++ [.get t tn x]) = cost ops + 1 := by simp [cost, ROp.cost]
  -- the prefix
  obtain ⟨σ1, _, hinv1, _, _, _, hgv1⟩ := run_ops (C := C) (n := n) (rest := rest) 0 ops σ q a inv
    (fun o ho => hvars o (List.mem_append_left _ ho)) (by omega)
  have hx : GoodVar C (specRun q a ops).a x.val :=
    hgv1 x.val (hvars (.get t tn x) (List.mem_append_right _ (List.mem_cons_self ..)) x.val rfl)
  obtain ⟨h1, hf1⟩ := hinv1.file
  obtain ⟨v, hv⟩ : ∃ v, (specRun q a ops).q.vals[(specRun q a ops).q.cur]? = some v :=
    ⟨_, List.getElem?_eq_getElem hget⟩
  have hvT : C.T v := hf1.vals v (List.mem_of_getElem? hv)
  have hstep : specStep (specRun q a ops).q (specRun q a ops).a (.get t tn x) =
      some ((specRun q a ops).q, setVar (specRun q a ops).a x.val v) := by
    simp [specStep, VSeq.get, hv]
  have hwhole : specRun q a (ops ++ [.get t tn x]) =
      ⟨(specRun q a ops).q, setVar (specRun q a ops).a x.val v, (specRun q a ops).steps + 1, none⟩ := by
    rw [specRun_append q a ops _ hok, specRun_cons_some _ _ _ [] _ _ hstep]
    rfl
  -- the whole block
  obtain ⟨_, σ', h', hh', _, _, _, habs, _, hfr, _, _, _, hres⟩ :=
    C14_exec_ops_refine_seq C fuel n (ops ++ [.get t tn x]) σ h0 q a rest inv hf0.handle hvars hfuel hb
  rw [hwhole] at hres habs hfr
  obtain ⟨ty, cur, hcur, _, _⟩ := hx
  refine ⟨σ', _, h', ty, v, hres.1, ?_, hasVar_setVar_same _ x.val ty cur v hcur, hv, hh', ?_,
    fun cur hc => C.load_dump v cur hvT hc⟩
  · rw [hfr]
  · have hr : h'.records = (specRun q a ops).q.vals.map Codec.dump := congrArg Seq.recs habs
    have hp : h'.ptr = (specRun q a ops).q.cur := congrArg Seq.cur habs
    rw [hr, hp, List.getElem?_map, hv]
    rfl

/-! ## 2. CLOSEFILE ; OPENFILE … FOR RANDOM -/

/-- **close + reopen preserves the sequence** (C14Reopen for programs), for ANY random handle whose records are framed —
    every record text `Codec.dump` produces is (`C13_dump_framed`): a record with multi-line text (a STRING with line breaks,
    a CHAR line break) is written as several physical lines whose continuation lines start with `#` (`escNL`), and
    `Codec.loadFile` re-joins them (`C13_file_roundtrip`). The block `CLOSEFILE n ; OPENFILE n FOR RANDOM` ends normally;
    the new handle abstracts to `⟨same records, cursor 0⟩`, is unmodified, and the file now holds the records (`DiskHas`);
    nothing but `steps` (+2) and the file component changes; handles of other names are untouched. -/
theorem C14_exec_close_reopen (fuel : Nat) (t tn t' tn' : Tok) (n : Str) (σ : St) (h : Handle)
    (hh : FState.handle { fs := σ.fs, handles := σ.handles } n = some h) (hm : h.mode = .random)
    (hfr : ∀ r ∈ h.records, Codec.Framed r) (hlong : nameTooLong n = false)
    (hdisk : DiskOK { fs := σ.fs, handles := σ.handles } n h)
    (hfuel : 5 ≤ fuel) (hb : σ.steps + 2 ≤ σ.stepLimit) :
    ∃ (fs' : List (Str × FsNode)) (hs' : List Handle) (h' : Handle),
      (runBlock fuel [.closeFile t (.strLit tn n), .openFile t' (.strLit tn' n) .random]).run.run σ =
        (.ok ⟨⟩, { σ with steps := σ.steps + 2, fs := fs', handles := hs' }) ∧
      FState.handle { fs := fs', handles := hs' } n = some h' ∧
      absH h' = ⟨h.records, 0⟩ ∧ h'.mode = .random ∧ h'.modified = false ∧ DiskHas fs' n h.records ∧
      (∀ x ∈ hs', x.name = n → x = h') ∧
      (∀ m, m ≠ n → FState.handle { fs := fs', handles := hs' } m = FState.handle { fs := σ.fs, handles := σ.handles } m) := by
  obtain ⟨s1, s2, h1, h2, _, hd, hh2, hfs, hoth, huniq⟩ :=
    pure_reopen_raw { fs := σ.fs, handles := σ.handles } n h hh hm hfr hlong hdisk
  have e1 := (C16_exec_closeFile_lit 1 t tn n σ (by omega)).1 s1 .unit h1
  let σ1 : St := { σ with steps := σ.steps + 1, fs := s1.fs, handles := s1.handles }
  have e2 := (C16_exec_openFile_lit 0 t' tn' n .random σ1 (by show σ.steps + 1 + 1 ≤ σ.stepLimit; omega)).1 s2 .unit h2
  refine ⟨s2.fs, s2.handles, _, ?_, hh2, rfl, rfl, rfl, by rw [hfs]; exact hd, huniq, hoth⟩
  have hrun : (runBlock 5 [.closeFile t (.strLit tn n), .openFile t' (.strLit tn' n) .random]).run.run σ =
      (.ok ⟨⟩, { σ with steps := σ.steps + 2, fs := s2.fs, handles := s2.handles }) := by
    rw [run_runBlock_cons 4 _ _ σ σ1 e1, run_runBlock_cons 3 _ _ σ1 _ e2, run_runBlock_nil]
  exact runBlock_fuel_mono _ 5 fuel hfuel σ _ _ hrun (by intro h; cases h)

/-- … in a state of section 1 (records = texts of values of a class, whatever was PUT before): the invariant holds again, for
    the same values with the cursor at record 1 — this is the `reopen` operation of `C14_exec_ops_refine_seq`, which therefore
    covers every interleaving of SEEK, PUTRECORD, GETRECORD, close and reopen -/
theorem C14_exec_close_reopen_inv {defs : Codec.Defs} (C : RecClass defs) (fuel : Nat) (t tn t' tn' : Tok) (n : Str) (σ : St)
    (q : VSeq) (a : Act) (rest : List Act) (inv : RInv C σ n q a rest) (hfuel : 5 ≤ fuel) (hb : σ.steps + 2 ≤ σ.stepLimit) :
    ∃ σ' h', (runBlock fuel [.closeFile t (.strLit tn n), .openFile t' (.strLit tn' n) .random]).run.run σ = (.ok ⟨⟩, σ') ∧
      FState.handle { fs := σ'.fs, handles := σ'.handles } n = some h' ∧ absH h' = ⟨q.vals.map Codec.dump, 0⟩ ∧
      RInv C σ' n { q with cur := 0 } a rest ∧ StFrame σ σ' 2 (a :: rest) := by
  obtain ⟨h1, _⟩ := C14_exec_op_refines_seq C fuel n (.reopen t tn t' tn') σ q a rest inv
    (fun o ho x hx => by simp only [List.mem_cons, List.not_mem_nil, or_false] at ho; subst ho; cases hx) hfuel hb
  obtain ⟨σ', hrun, hinv, hfr, _⟩ := h1 _ _ rfl
  obtain ⟨h', hf'⟩ := hinv.file
  exact ⟨σ', h', hrun, hf'.handle, hf'.abs, hinv, hfr⟩

/-- CLOSEFILE alone: the name is closed and the file holds the sequence — the second way a program can leave the file for
    `C14_exec_restart` -/
theorem C14_exec_close {defs : Codec.Defs} (C : RecClass defs) (f : Nat) (t tn : Tok) (n : Str) (σ : St)
    (q : VSeq) (a : Act) (rest : List Act) (inv : RInv C σ n q a rest) (hb : σ.steps + 1 ≤ σ.stepLimit) :
    ∃ σ1, (execStmt (f+3) (.closeFile t (.strLit tn n))).run.run σ = (.ok .none, σ1) ∧
      FState.handle { fs := σ1.fs, handles := σ1.handles } n = none ∧ DiskHas σ1.fs n (q.vals.map Codec.dump) ∧
      SeqAtExit { fs := σ1.fs, handles := σ1.handles } n (q.vals.map Codec.dump) ∧
      σ1 = { σ with steps := σ.steps + 1, fs := σ1.fs, handles := σ1.handles } := by
  obtain ⟨h, hf⟩ := inv.file
  obtain ⟨s1, h1, hcl, hd, _, _⟩ := pure_close hf
  have e1 := (C16_exec_closeFile_lit f t tn n σ hb).1 s1 .unit h1
  exact ⟨_, e1, hcl, hd, Or.inr ⟨hcl, hd⟩, rfl⟩

/-! ## 3. restart -/

/-- **The sequence survives a restart of the interpreter.** Two program texts are run one after the other in file mode
    (`runFileOn`), the second on the file system the first one left. If the state the first program ends in (`endState`: before
    the exit routine, whatever the outcome — normal end, runtime error, …) has `n` open FOR RANDOM with the framed records `rs`,
    or has closed it with `rs` on disk (`SeqAtExit`; `RInv.seqAtExit` and `C14_exec_close` produce it), then
    * the file system the first run leaves holds `rs` under `n` (`DiskHas`: the exit routine `closeAllF` wrote the handle back,
      `C16_exec_runFile_closes`), and no handle is left open;
    * if the second text parses to `OPENFILE n FOR RANDOM` followed by `more`, its OPENFILE ends normally in the state `σ1`
      = start state with `steps = 1` and the single handle `⟨n, RANDOM, records rs, cursor 0, unmodified⟩` — which abstracts
      to `⟨rs, 0⟩` —, and the second run is `more` run from `σ1` (then the exit routine: `finishFile`). -/
theorem C14_exec_restart (cfg : Cfg) (content1 content2 : Str) (fs : List (Str × FsNode)) (stdin1 stdin2 : Str)
    (eof1 eof2 : Bool) (n : Str) (rs : List Str) (toks : List Tok) (t tn : Tok) (more : Block) (warns : List Tok)
    (hend : SeqAtExit { fs := (endState cfg content1 fs stdin1 eof1).fs, handles := (endState cfg content1 fs stdin1 eof1).handles } n rs)
    (hlong : nameTooLong n = false)
    (hl : lex { pedantic := cfg.pedantic } (content2 ++ ['\n']) = .ok toks)
    (hp : parse { pedantic := cfg.pedantic } toks = .ok (.openFile t (.strLit tn n) .random :: more, warns))
    (hfuel : 4 ≤ cfg.fuel) (hlim : 1 ≤ cfg.stepLimit) :
    ∀ fs1, fs1 = (runFileOn cfg content1 fs stdin1 eof1).2.fs →
      DiskHas fs1 n rs ∧ (runFileOn cfg content1 fs stdin1 eof1).2.handles = [] ∧
      ∃ σ1 : St,
        (execStmt (cfg.fuel - 1) (.openFile t (.strLit tn n) .random)).run.run (startState cfg fs1 stdin2 eof2 warns) =
          (.ok .none, σ1) ∧
        σ1 = { startState cfg fs1 stdin2 eof2 warns with
               steps := 1, handles := [{ name := n, mode := .random, records := rs }] } ∧
        FState.handle { fs := σ1.fs, handles := σ1.handles } n = some { name := n, mode := .random, records := rs } ∧
        absH { name := n, mode := .random, records := rs } = ⟨rs, 0⟩ ∧ σ1.fs = fs1 ∧
        runFileOn cfg content2 fs1 stdin2 eof2 = finishFile (runOn (cfg.fuel - 1) more σ1) := by
  intro fs1 hfs1
  have hd : DiskHas fs1 n rs := by
    rw [hfs1, (runFileOn_fs cfg content1 fs stdin1 eof1).1]
    exact diskHas_closeAll _ n rs hend
  refine ⟨hd, rfl, ?_⟩
  obtain ⟨g, hg⟩ : ∃ g, cfg.fuel = g + 4 := ⟨cfg.fuel - 4, by omega⟩
  have hopen := run_open_fresh g t tn n rs (startState cfg fs1 stdin2 eof2 warns) rfl
    (by show 0 + 1 ≤ cfg.stepLimit; omega) hlong hd
  have e : cfg.fuel - 1 = g + 3 := by omega
  refine ⟨_, by rw [e]; exact hopen, rfl, ?_, rfl, rfl, ?_⟩
  · simp [FState.handle]
  · rw [runFileOn_parsed cfg content2 fs1 stdin2 eof2 toks _ warns hl hp]
    have e' : cfg.fuel = (g + 3) + 1 := by omega
    rw [e', runOn_cons (g + 3) _ more _ _ hopen, show g + 3 + 1 - 1 = g + 3 by omega]
    rfl

/-- the same in terms of `runFile` (standard input not at its end): the file system reported by the first run -/
theorem C14_exec_restart_runFile (cfg : Cfg) (content1 : Str) (fs : List (Str × FsNode)) (stdin1 : Str) (n : Str)
    (rs : List Str)
    (hend : SeqAtExit { fs := (endState cfg content1 fs stdin1 false).fs, handles := (endState cfg content1 fs stdin1 false).handles } n rs) :
    DiskHas (runFile cfg content1 fs stdin1).fs n rs := by
  rw [runFile_fs, (runFileOn_fs cfg content1 fs stdin1 false).1]
  exact diskHas_closeAll _ n rs hend

/-- … and when the records are texts of values of a class over the definitions visible at program start, the state after the
    second program's OPENFILE satisfies the invariant of section 1, with the cursor at record 1 -/
theorem C14_exec_restart_inv (C : RecClass (defsOf mkGlobal mkGlobal)) (cfg : Cfg) (fs1 : List (Str × FsNode)) (stdin2 : Str)
    (eof2 : Bool) (warns : List Tok) (n : Str) (vs : List Val) (hlong : nameTooLong n = false)
    (hd : DiskHas fs1 n (vs.map Codec.dump)) (hvs : ∀ v ∈ vs, C.T v) :
    RInv C { startState cfg fs1 stdin2 eof2 warns with
             steps := 1, handles := [{ name := n, mode := .random, records := vs.map Codec.dump }] } n ⟨vs, 0⟩ mkGlobal [] :=
  rinv_open_fresh C n vs (startState cfg fs1 stdin2 eof2 warns) mkGlobal [] rfl rfl hlong hd hvs

/-! ## 4. the property's words -/

/-- **`SEEK n, k ; PUTRECORD n, x` with `1 ≤ k ≤ len + 1`**: the block ends normally; afterwards record `k` is the text of
    the variable's value, every other record `j ≠ k` (1-based, `j ≤ len`) is what it was, and the length is `max len k`
    (`k ≤ len`: replaced, same length; `k = len + 1`: appended). The file system and the variables are untouched. -/
theorem C14_exec_put_others_unchanged {defs : Codec.Defs} (C : RecClass defs) (fuel : Nat) (t tn tk t' tn' x : Tok) (n : Str)
    (k : Int) (σ : St) (h : Handle) (q : VSeq) (a : Act) (rest : List Act) (ty : Ty) (v : Val)
    (inv : RInv C σ n q a rest) (hh : FState.handle { fs := σ.fs, handles := σ.handles } n = some h)
    (hx : HasVar a x.val ty v) (hp : isPtrTy ty = false) (hv : C.T v)
    (hfuel : 5 ≤ fuel) (hb : σ.steps + 2 ≤ σ.stepLimit)
    (h1 : 1 ≤ k) (h2 : k ≤ (h.records.length : Int) + 1) :
    ∃ (σ' : St) (h' : Handle),
      (runBlock fuel [.seek t (.strLit tn n) (.intLit tk k), .putRecord t' (.strLit tn' n) x]).run.run σ = (.ok ⟨⟩, σ') ∧
      FState.handle { fs := σ'.fs, handles := σ'.handles } n = some h' ∧
      h'.records[k.toNat - 1]? = some (Codec.dump v) ∧
      (∀ j : Nat, 1 ≤ j → j ≤ h.records.length → (j : Int) ≠ k → h'.records[j - 1]? = h.records[j - 1]?) ∧
      h'.records.length = max h.records.length k.toNat ∧
      σ'.fs = σ.fs ∧ σ'.acts = σ.acts ∧ RInv C σ' n ⟨(VSeq.put { q with cur := k.toNat - 1 } v).vals, k.toNat - 1⟩ a rest := by
  obtain ⟨habs, σ', h', hh', _, _, _, habs', hinv, hfr, _, hfs, _, hres⟩ :=
    C14_exec_ops_refine_seq C fuel n [.seek t tn tk k, .put t' tn' x] σ h q a rest inv hh
      (fun o ho y hy => by
        simp only [List.mem_cons, List.not_mem_nil, or_false] at ho
        rcases ho with rfl | rfl
        · cases hy
        · injection hy with hy; subst hy; exact ⟨ty, v, hx, hp, hv⟩)
      (by simp [cost, ROp.cost]; omega) (by simp [cost, ROp.cost]; omega)
  have hrecs : h.records = q.vals.map Codec.dump := congrArg Seq.recs habs
  have hlen : h.records.length = q.vals.length := by rw [hrecs, List.length_map]
  have hseek : q.seek k = some { q with cur := k.toNat - 1 } := by
    unfold VSeq.seek
    have : 1 ≤ k ∧ k ≤ (q.vals.length : Int) + 1 := ⟨h1, by omega⟩
    simp only [this, and_self, if_true]
  have hval : varVal a x.val = some v := by
    obtain ⟨s, hs, _, _, _, hsv⟩ := hx
    unfold varVal; rw [hs, ← hsv]; rfl
  have hspec : specRun q a [.seek t tn tk k, .put t' tn' x] =
      ⟨VSeq.put { q with cur := k.toNat - 1 } v, a, 2, none⟩ := by
    rw [specRun_cons_some q a _ _ { q with cur := k.toNat - 1 } a (by simp [specStep, hseek]),
      specRun_cons_some _ a _ _ (VSeq.put { q with cur := k.toNat - 1 } v) a (by simp [specStep, hval])]
    rfl
  rw [hspec] at habs' hinv hfr hres
  have hr' : h'.records = (VSeq.put { q with cur := k.toNat - 1 } v).vals.map Codec.dump := congrArg Seq.recs habs'
  have hblock : block n [.seek t tn tk k, .put t' tn' x] =
      [.seek t (.strLit tn n) (.intLit tk k), .putRecord t' (.strLit tn' n) x] := rfl
  have hcur : (VSeq.put { q with cur := k.toNat - 1 } v).cur = k.toNat - 1 := by
    unfold VSeq.put; split <;> rfl
  refine ⟨σ', h', by rw [← hblock]; exact hres.1, hh', ?_, ?_, ?_, ?_, ?_, ?_⟩
  · rw [hr']
    unfold VSeq.put
    dsimp only
    split
    · rename_i hc; simp [hc]
    · rename_i hc
      have : k.toNat - 1 = q.vals.length := by omega
      simp [this]
  · intro j hj1 hj2 hjk
    rw [hr', hrecs]
    have hne : k.toNat - 1 ≠ j - 1 := by omega
    unfold VSeq.put
    dsimp only
    split
    · simp [List.getElem?_set_ne hne]
    · have hlt : j - 1 < (q.vals.map Codec.dump).length := by rw [List.length_map]; omega
      rw [List.map_append, List.getElem?_append_left hlt]
  · rw [hr', List.length_map, hlen]
    unfold VSeq.put
    dsimp only
    split
    · rename_i hc; simp; omega
    · rename_i hc; simp; omega
  · exact hfs (fun o ho => by
      simp only [List.mem_cons, List.not_mem_nil, or_false] at ho
      rcases ho with rfl | rfl <;> rfl)
  · rw [hfr]; exact inv.acts.symm
  · have e : (VSeq.put { q with cur := k.toNat - 1 } v) = ⟨(VSeq.put { q with cur := k.toNat - 1 } v).vals, k.toNat - 1⟩ := by
      unfold VSeq.put; split <;> rfl
    rw [← e]; exact hinv

/-! ## 5. non-vacuity -/

namespace C14ExecEx

def fn : Str := "r.dat".toList
def tk (l : Nat) : Tok := { k := .IDENTIFIER, line := l, col := 1, val := [] }
def tx : Tok := { k := .IDENTIFIER, line := 0, col := 9, val := "x".toList }

/-- the file "r.dat" holds the three INTEGER records 10, 20, 30 and is open FOR RANDOM, cursor at record 1, nothing written
    yet; `x` is an INTEGER variable holding 7 -/
def vals3 : List Val := [.int 10, .int 20, .int 30]
def hd3 : Handle := { name := fn, mode := .random, records := vals3.map Codec.dump }
def act3 : Act := { id := 0, name := "Program".toList, vars := [{ name := "x".toList, ty := .int, val := .int 7 }] }
def st3 : St := { acts := [act3], fs := [(fn, .file "INTEGER 10\nINTEGER 20\nINTEGER 30\n".toList)], handles := [hd3] }

abbrev defs3 : Codec.Defs := defsOf act3 act3
def C3 : RecClass defs3 := RecClass.int defs3

theorem int_T (n : Int) (h : InRange64 n) : C3.T (.int n) := ⟨n, rfl, h⟩

/-- the concrete state satisfies the invariant -/
theorem inv3 : RInv C3 st3 fn ⟨vals3, 0⟩ act3 [] := by
  refine ⟨rfl, rfl, hd3, ⟨by decide, rfl, rfl, by decide, ?_, ?_, by decide, ?_⟩⟩
  · intro v hv
    simp only [vals3, List.mem_cons, List.not_mem_nil, or_false] at hv
    rcases hv with rfl | rfl | rfl <;> exact int_T _ (by decide)
  · intro x hx _
    simpa [st3, fileSt] using hx
  · unfold DiskOK
    simp only [hd3, Bool.false_eq_true, if_false]
    exact ⟨"INTEGER 10\nINTEGER 20\nINTEGER 30\n".toList, by decide, by decide +kernel⟩

theorem goodX : GoodVar C3 act3 "x".toList := ⟨.int, .int 7, ⟨_, rfl, rfl, rfl, rfl, rfl⟩, rfl, int_T 7 (by decide)⟩

/-- `SEEK 2 ; PUTRECORD x ; SEEK 4 ; PUTRECORD x ; SEEK 1 ; GETRECORD x` -/
def ops3 : List ROp :=
  [.seek (tk 1) (tk 1) (tk 1) 2, .put (tk 2) (tk 2) tx, .seek (tk 3) (tk 3) (tk 3) 4, .put (tk 4) (tk 4) tx,
   .seek (tk 5) (tk 5) (tk 5) 1, .get (tk 6) (tk 6) tx]

theorem vars3 (extra : List ROp) (hextra : ∀ op ∈ extra, op.var? = none ∨ op.var? = some "x".toList) :
    VarsOK C3 act3 (ops3 ++ extra) := by
  intro op hop y hy
  rcases List.mem_append.mp hop with hop | hop
  · simp only [ops3, List.mem_cons, List.not_mem_nil, or_false] at hop
    rcases hop with rfl | rfl | rfl | rfl | rfl | rfl <;> (cases hy; try exact goodX)
  · rcases hextra op hop with h | h
    · rw [h] at hy; cases hy
    · rw [h] at hy; cases hy; exact goodX

/-- the abstract run: record 2 replaced by 7, a fourth record 7 appended, record 1 read into `x` -/
theorem spec3 : specRun ⟨vals3, 0⟩ act3 ops3 =
    ⟨⟨[.int 10, .int 7, .int 30, .int 7], 0⟩, setVar act3 "x".toList (.int 10), 6, none⟩ := by rfl

/-- … which is `Seq.run` on the record texts (the trace: seek 2, put "INTEGER 7", seek 4, put "INTEGER 7", seek 1, get) -/
example : (Seq.run (absH hd3) (trace ⟨vals3, 0⟩ act3 ops3)).1 =
    ⟨["INTEGER 10".toList, "INTEGER 7".toList, "INTEGER 30".toList, "INTEGER 7".toList], 0⟩ := by decide +kernel

def intOf : Option Val → Option Int
  | some (.int n) => some n
  | _ => none

def isOkUnit : Except Stop Unit → Bool
  | .ok _ => true
  | _ => false

/-- the run according to `C14_exec_ops_refine_seq` -/
theorem run3_by_theorem : ∃ (σ' : St) (h' : Handle),
    (runBlock 9 (block fn ops3)).run.run st3 = (.ok ⟨⟩, σ') ∧
    FState.handle { fs := σ'.fs, handles := σ'.handles } fn = some h' ∧
    absH h' = ⟨["INTEGER 10".toList, "INTEGER 7".toList, "INTEGER 30".toList, "INTEGER 7".toList], 0⟩ ∧
    σ'.fs = st3.fs ∧ σ'.steps = 6 ∧ σ'.acts = [setVar act3 "x".toList (.int 10)] := by
  obtain ⟨_, σ', h', hh', _, _, _, habs, _, hfr, _, hfs, _, hres⟩ :=
    C14_exec_ops_refine_seq C3 9 fn ops3 st3 hd3 ⟨vals3, 0⟩ act3 [] inv3 (by decide)
      (by simpa using vars3 [] (by simp)) (by decide) (by decide)
  rw [spec3] at habs hfr hres
  have hno : NoReopen ops3 := by
    intro o ho
    simp only [ops3, List.mem_cons, List.not_mem_nil, or_false] at ho
    rcases ho with rfl | rfl | rfl | rfl | rfl | rfl <;> rfl
  refine ⟨σ', h', hres.1, hh', ?_, hfs hno, by rw [hfr]; rfl, by rw [hfr]⟩
  rw [habs]; decide +kernel

/-- the same run computed by the kernel from the model -/
theorem run3_computed :
    isOkUnit ((runBlock 9 (block fn ops3)).run.run st3).1 = true ∧
    ((runBlock 9 (block fn ops3)).run.run st3).2.handles =
      [{ hd3 with records := ["INTEGER 10".toList, "INTEGER 7".toList, "INTEGER 30".toList, "INTEGER 7".toList],
                  ptr := 0, modified := true }] ∧
    ((runBlock 9 (block fn ops3)).run.run st3).2.fs = st3.fs ∧
    ((runBlock 9 (block fn ops3)).run.run st3).2.steps = 6 ∧
    (((runBlock 9 (block fn ops3)).run.run st3).2.acts.map fun a => intOf (varVal a "x".toList)) = [some 10] := by
  decide +kernel

/-- a failing block: one more `SEEK 6` (the file has 4 records: addresses 1 … 5 are accepted). By the theorem: a runtime
    diagnostic `seekRange` at the SEEK's token (line 7), after 7 steps; the handle abstracts to what the six operations left -/
example : ∃ (σ' : St) (h' : Handle) (d : Diag),
    (runBlock 10 (block fn (ops3 ++ [.seek (tk 7) (tk 7) (tk 7) 6]))).run.run st3 = (.error (.diag d), σ') ∧
    d.kind = .runtime ∧ d.msg = .seekRange ∧ d.line = 7 ∧ d.col = 1 ∧ σ'.steps = 7 ∧
    FState.handle { fs := σ'.fs, handles := σ'.handles } fn = some h' ∧
    absH h' = ⟨["INTEGER 10".toList, "INTEGER 7".toList, "INTEGER 30".toList, "INTEGER 7".toList], 0⟩ := by
  have hspec : specRun ⟨vals3, 0⟩ act3 (ops3 ++ [.seek (tk 7) (tk 7) (tk 7) 6]) =
      ⟨⟨[.int 10, .int 7, .int 30, .int 7], 0⟩, setVar act3 "x".toList (.int 10), 7, some (.seek (tk 7) (tk 7) (tk 7) 6)⟩ := by rfl
  obtain ⟨_, σ', h', hh', _, _, _, habs, _, hfr, _, _, _, hres⟩ :=
    C14_exec_ops_refine_seq C3 10 fn (ops3 ++ [.seek (tk 7) (tk 7) (tk 7) 6]) st3 hd3 ⟨vals3, 0⟩ act3 [] inv3 (by decide)
      (vars3 _ (by simp [ROp.var?])) (by decide) (by decide)
  rw [hspec] at habs hfr hres
  obtain ⟨_, _, d, hrun, hk, hm, hl, hc⟩ := hres
  refine ⟨σ', h', d, hrun, hk, hm, hl, hc, by rw [hfr]; rfl, hh', ?_⟩
  rw [habs]; decide +kernel
example : ((runBlock 10 (block fn (ops3 ++ [.seek (tk 7) (tk 7) (tk 7) 6]))).run.run st3).2.steps = 7 ∧
    isOkUnit ((runBlock 10 (block fn (ops3 ++ [.seek (tk 7) (tk 7) (tk 7) 6]))).run.run st3).1 = false := by decide +kernel

/-- `C14_exec_put_others_unchanged` on the example: `SEEK 2 ; PUTRECORD x` -/
example : ∃ (σ' : St) (h' : Handle),
    (runBlock 5 [.seek (tk 1) (.strLit (tk 1) fn) (.intLit (tk 1) 2), .putRecord (tk 2) (.strLit (tk 2) fn) tx]).run.run st3 =
      (.ok ⟨⟩, σ') ∧
    FState.handle { fs := σ'.fs, handles := σ'.handles } fn = some h' ∧
    h'.records[1]? = some "INTEGER 7".toList ∧ h'.records[0]? = hd3.records[0]? ∧ h'.records[2]? = hd3.records[2]? ∧
    h'.records.length = 3 := by
  obtain ⟨σ', h', hrun, hh', hk, hoth, hlen, _⟩ :=
    C14_exec_put_others_unchanged C3 5 (tk 1) (tk 1) (tk 1) (tk 2) (tk 2) tx fn 2 st3 hd3 ⟨vals3, 0⟩ act3 [] .int (.int 7)
      inv3 (by decide) ⟨_, rfl, rfl, rfl, rfl, rfl⟩ rfl (int_T 7 (by decide)) (by decide) (by decide) (by decide) (by decide)
  exact ⟨σ', h', hrun, hh', hk, hoth 1 (by decide) (by decide) (by decide), hoth 3 (by decide) (by decide) (by decide), hlen⟩

/-- close + reopen with a multi-line record: the STRING "a⏎#b" is written as the two physical lines `STRING 5 a` / `##b`, and
    read back as one record -/
def hdS : Handle :=
  { name := fn, mode := .random, records := [Codec.dump (.str ['a', '\n', '#', 'b']), Codec.dump (.str "zz".toList)],
    ptr := 2, modified := true }
def stS : St := { acts := [act3], fs := [(fn, .file [])], handles := [hdS] }
example : ∃ fs' hs' h', (runBlock 5 [.closeFile (tk 1) (.strLit (tk 1) fn), .openFile (tk 2) (.strLit (tk 2) fn) .random]).run.run stS =
      (.ok ⟨⟩, { stS with steps := 2, fs := fs', handles := hs' }) ∧
    FState.handle { fs := fs', handles := hs' } fn = some h' ∧ absH h' = ⟨hdS.records, 0⟩ := by
  obtain ⟨fs', hs', h', h1, h2, h3, _⟩ := C14_exec_close_reopen 5 (tk 1) (tk 1) (tk 2) (tk 2) fn stS hdS (by decide) rfl
    (by
      intro r hr
      simp only [hdS, List.mem_cons, List.not_mem_nil, or_false] at hr
      rcases hr with rfl | rfl <;> exact Codec.C13_dump_framed _ (by simp [Codec.Clean]))
    (by decide) (by unfold DiskOK; simp only [hdS, if_true]; exact Or.inr ⟨[], by decide⟩) (by decide) (by decide)
  exact ⟨fs', hs', h', h1, h2, h3⟩
example : ((runBlock 5 [.closeFile (tk 1) (.strLit (tk 1) fn), .openFile (tk 2) (.strLit (tk 2) fn) .random]).run.run stS).2.fs =
      [(fn, .file "STRING 5 a\n##b\nSTRING 2 zz\n".toList)] ∧
    ((runBlock 5 [.closeFile (tk 1) (.strLit (tk 1) fn), .openFile (tk 2) (.strLit (tk 2) fn) .random]).run.run stS).2.handles =
      [{ hdS with ptr := 0, modified := false }] := by decide +kernel

/-! ### an interleaving with close + reopen, STRING records with line breaks -/

def actS : Act :=
  { id := 0, name := "Program".toList,
    vars := [{ name := "s".toList, ty := .str, val := .str ['a', '\n', '#', 'b'] }, { name := "u".toList, ty := .str, val := .str [] }] }
/-- "r.dat" has just been created by OPENFILE … FOR RANDOM: empty, cursor at record 1 -/
def stE : St := { acts := [actS], fs := [(fn, .file [])], handles := [{ name := fn, mode := .random }] }
def ts : Tok := { k := .IDENTIFIER, line := 0, col := 9, val := "s".toList }
def tu : Tok := { k := .IDENTIFIER, line := 0, col := 9, val := "u".toList }
abbrev defsS : Codec.Defs := defsOf actS actS
def CS : RecClass defsS := RecClass.str defsS

theorem str_T (x : Str) (h : (Codec.escNL x).length < 10 ^ 18) : CS.T (.str x) := ⟨x, rfl, h⟩

theorem invE : RInv CS stE fn ⟨[], 0⟩ actS [] := by
  refine ⟨rfl, rfl, { name := fn, mode := .random }, ⟨by decide, rfl, rfl, by decide, by simp, ?_, by decide, ?_⟩⟩
  · intro x hx _
    simpa [stE, fileSt] using hx
  · unfold DiskOK
    simp only [Bool.false_eq_true, if_false]
    exact ⟨[], by decide, by decide⟩

/-- `PUTRECORD s ; close + reopen ; GETRECORD u ; SEEK 2 ; PUTRECORD u ; close + reopen ; SEEK 2 ; GETRECORD s` -/
def opsE : List ROp :=
  [.put (tk 1) (tk 1) ts, .reopen (tk 2) (tk 2) (tk 3) (tk 3), .get (tk 4) (tk 4) tu, .seek (tk 5) (tk 5) (tk 5) 2,
   .put (tk 6) (tk 6) tu, .reopen (tk 7) (tk 7) (tk 8) (tk 8), .seek (tk 9) (tk 9) (tk 9) 2, .get (tk 10) (tk 10) ts]

theorem varsE : VarsOK CS actS opsE := by
  have gs : GoodVar CS actS "s".toList := ⟨.str, _, ⟨_, rfl, rfl, rfl, rfl, rfl⟩, rfl, str_T _ (by decide)⟩
  have gu : GoodVar CS actS "u".toList := ⟨.str, _, ⟨_, rfl, rfl, rfl, rfl, rfl⟩, rfl, str_T _ (by decide)⟩
  intro op hop y hy
  simp only [opsE, List.mem_cons, List.not_mem_nil, or_false] at hop
  rcases hop with rfl | rfl | rfl | rfl | rfl | rfl | rfl | rfl <;> (cases hy <;> first | exact gs | exact gu)

theorem specE : specRun ⟨[], 0⟩ actS opsE =
    ⟨⟨[.str ['a', '\n', '#', 'b'], .str ['a', '\n', '#', 'b']], 1⟩,
      setVar (setVar actS "u".toList (.str ['a', '\n', '#', 'b'])) "s".toList (.str ['a', '\n', '#', 'b']), 10, none⟩ := by rfl

/-- by the theorem: the block of 10 statements ends normally, the handle holds the two records (two physical lines each),
    cursor at record 2 -/
example : ∃ (σ' : St) (h' : Handle),
    (runBlock 13 (block fn opsE)).run.run stE = (.ok ⟨⟩, σ') ∧
    FState.handle { fs := σ'.fs, handles := σ'.handles } fn = some h' ∧
    absH h' = ⟨["STRING 5 a\n##b".toList, "STRING 5 a\n##b".toList], 1⟩ ∧ σ'.steps = 10 := by
  obtain ⟨_, σ', h', hh', _, _, _, habs, _, hfr, _, _, _, hres⟩ :=
    C14_exec_ops_refine_seq CS 13 fn opsE stE { name := fn, mode := .random } ⟨[], 0⟩ actS [] invE (by decide) varsE
      (by decide) (by decide)
  rw [specE] at habs hfr hres
  refine ⟨σ', h', hres.1, hh', ?_, by rw [hfr]; rfl⟩
  rw [habs]; decide +kernel

def strOf : Option Val → Option Str
  | some (.str x) => some x
  | _ => none

/-- … and the kernel computes the same from the model (the second CLOSEFILE has written both records to disk) -/
example : isOkUnit ((runBlock 13 (block fn opsE)).run.run stE).1 = true ∧
    ((runBlock 13 (block fn opsE)).run.run stE).2.handles =
      [{ name := fn, mode := .random, records := ["STRING 5 a\n##b".toList, "STRING 5 a\n##b".toList], ptr := 1 }] ∧
    ((runBlock 13 (block fn opsE)).run.run stE).2.fs = [(fn, .file "STRING 5 a\n##b\nSTRING 5 a\n##b\n".toList)] ∧
    (((runBlock 13 (block fn opsE)).run.run stE).2.acts.map fun a => strOf (varVal a "u".toList)) = [some ['a', '\n', '#', 'b']] := by
  decide +kernel

/-! ### restart: two programs through `runFile` -/

def p1 : String :=
  "DECLARE x : INTEGER\nOPENFILE \"r.dat\" FOR RANDOM\nx <- 10\nPUTRECORD \"r.dat\", x\nx <- 20\nSEEK \"r.dat\", 2\nPUTRECORD \"r.dat\", x\nx <- 30\nSEEK \"r.dat\", 3\nPUTRECORD \"r.dat\", x"

def p2 : String :=
  "OPENFILE \"r.dat\" FOR RANDOM\nDECLARE y : INTEGER\nSEEK \"r.dat\", 2\nGETRECORD \"r.dat\", y\nOUTPUT y\nSEEK \"r.dat\", 4\nGETRECORD \"r.dat\", y"

/-- the first program leaves the file open; the exit routine writes the three records -/
theorem restart_fs : (runFile {} p1.toList [] []).fs = [(fn, .file "INTEGER 10\nINTEGER 20\nINTEGER 30\n".toList)] ∧
    (runFile {} p1.toList [] []).exitCode = 0 := by decide +kernel

/-- the second program, started on that file system, finds record 2 (prints 20) and is refused at address 4 = n + 1
    (`recordRead`, line 7) -/
theorem restart_second :
    (runFile {} p2.toList (runFile {} p1.toList [] []).fs []).out = "20\n\n".toList ∧
    (runFile {} p2.toList (runFile {} p1.toList [] []).fs []).diags.map (fun d => (d.line, d.msg)) = [(7, .recordRead)] := by
  decide +kernel

/-- the hypotheses of `C14_exec_restart` hold for the two programs: the first ends with "r.dat" open FOR RANDOM, modified, cursor
    at record 3, over the (still empty) file OPENFILE created … -/
def hdEnd : Handle := { name := fn, mode := .random, records := vals3.map Codec.dump, ptr := 2, modified := true }

/-- a file component whose only handle is a modified RANDOM handle `hd` (framed records) over a regular file -/
theorem seqAtExit_single (s : FState) (hd : Handle) (c : Str) (hh : s.handles = [hd]) (hm : hd.mode = .random)
    (hmod : hd.modified = true) (hfr : ∀ r ∈ hd.records, Codec.Framed r) (hn : s.node hd.name = some (.file c)) :
    SeqAtExit s hd.name hd.records := by
  refine Or.inl ⟨hd, ?_, hm, rfl, hfr, ?_, ?_⟩
  · unfold FState.handle
    rw [hh]
    simp
  · unfold DiskOK
    rw [hmod]
    exact Or.inr ⟨c, hn⟩
  · intro x hx _
    rw [hh] at hx
    simpa using hx

set_option maxRecDepth 100000 in
theorem p1_end_handles :
    FState.handles { fs := (endState {} p1.toList [] [] false).fs, handles := (endState {} p1.toList [] [] false).handles } =
      [hdEnd] := by decide +kernel

set_option maxRecDepth 100000 in
theorem p1_end_node :
    FState.node { fs := (endState {} p1.toList [] [] false).fs, handles := (endState {} p1.toList [] [] false).handles }
      hdEnd.name = some (.file []) := by decide +kernel

theorem p1_seqAtExit :
    SeqAtExit { fs := (endState {} p1.toList [] [] false).fs, handles := (endState {} p1.toList [] [] false).handles } fn
      (vals3.map Codec.dump) :=
  seqAtExit_single _ hdEnd [] p1_end_handles rfl rfl
    (by
      intro r hr
      obtain ⟨v, hv, rfl⟩ := List.mem_map.mp hr
      simp only [vals3, List.mem_cons, List.not_mem_nil, or_false] at hv
      rcases hv with rfl | rfl | rfl <;> exact Codec.C13_dump_framed _ (by simp [Codec.Clean]))
    p1_end_node

/-- … and the second text parses to `OPENFILE "r.dat" FOR RANDOM` followed by more statements. By the theorem: the file system the
    first run leaves holds the three records, and the second run is the rest of the second program started in a state whose
    only handle is `⟨"r.dat", RANDOM, the three records, cursor 0⟩`. -/
theorem restart_by_theorem : ∃ (more : Block) (σ1 : St),
    DiskHas (runFile {} p1.toList [] []).fs fn (vals3.map Codec.dump) ∧
    σ1.handles = [{ name := fn, mode := .random, records := vals3.map Codec.dump }] ∧
    σ1.fs = (runFile {} p1.toList [] []).fs ∧ σ1.steps = 1 ∧
    runFileOn {} p2.toList (runFile {} p1.toList [] []).fs [] false = finishFile (runOn (({} : Cfg).fuel - 1) more σ1) := by
  obtain ⟨toks, t, tn, more, warns, hl, hp⟩ := frontOpen_spec {} p2.toList fn (by decide +kernel)
  have hfs := runFile_fs {} p1.toList [] []
  obtain ⟨hd, _, σ1, _, hσ1, _, _, hfs1, hrun⟩ :=
    C14_exec_restart {} p1.toList p2.toList [] [] [] false false fn (vals3.map Codec.dump) toks t tn more warns
      p1_seqAtExit (by decide) hl hp (by decide) (by decide) _ hfs
  exact ⟨more, σ1, hd, by rw [hσ1], hfs1, by rw [hσ1], hrun⟩

end C14ExecEx

end Pseudo
