import PseudoProofs.ExprDenote
/-!
# C02 (value half, complete) — every literal type, every operator, values AND errors

`Properties/C02Eval.lean` proves the value half of C02 for the INTEGER / BOOLEAN fragment and only for trees that
have a value.  This file covers the whole operator grammar:

* trees `TExpr` (`PseudoProofs/ExprDenote.lean`): INTEGER, REAL, BOOLEAN, CHAR and STRING literals, the 15 binary
  operators `+ - * / DIV MOD & = <> < <= > >= AND OR`, unary minus, `NOT`, parentheses; every node carries the token
  the parser attaches to it; `denoteT : TExpr → Expr` is the AST;
* `evalT : TExpr → Except (Tok × Msg) Val` — the reference semantics by structural recursion: a value of one of the
  five types, or the token of the failing operator and the message class;
* `C02_eval_denote_full` — the evaluator `evalExpr` run on `denoteT e` (fuel `> e.size`, a state with a scope) returns
  exactly the value `evalT e` denotes and leaves the state unchanged, or stops with the runtime diagnostic of the
  denoted class positioned at the denoted token (`rtDiag`: kind, line, column, call trace) and leaves the state
  unchanged; `…_ok`, `…_error`, `…_outcome` are its two halves and the case split;
* `C02_full_error_site` — what can fail where; `C02_full_error_iff*` — exactly when an operator node fails;
* typing corollaries, all by structural reasoning on `evalT`: `C02_full_div_is_real`, `C02_full_result_type`,
  `C02_full_int_closed`, `C02_full_no_real`, `C02_full_mixed_promotes`, `C02_full_mixed_values`,
  `C02_full_div_mod_int`, `C02_full_divmod_law`, `C02_full_zero_divisor`, `C02_full_cmp_bool`,
  `C02_full_logic_bool`, `C02_full_value_type`;
* INTEGER arithmetic never goes through floating point: `C02_full_int_exact` (one step = `C02_int_exact`),
  `C02_full_no_float_for_int` (INTEGER-only trees = the computation `intEval` over `Int`, wrapped after every
  operator), `C02_full_ring_exact` (for `+ - *` and unary minus that is the exact big-integer value wrapped ONCE);
* the bridge to `PExpr`: `C02_full_extends_evalP`, `C02_text_value_full` (text → parse → evaluate, now also for `/`,
  `&`, STRINGs, zero divisors and type errors).

Facts of the model (= the C++ `ArithmeticOperationNode`, `ComparisonNode`, `LogicNode`, `StringConcatenationNode`)
that `evalT` mirrors and that a reader of the informal property might not expect:

* `&` accepts operands of all five types (each is converted to its text: `TRUE & "x"` is `"TRUEx"`, `1 & 2` is
  `"12"`); on these types it never reports a type error;
* `=` and `<>` never report a type error: INTEGER and REAL compare numerically, two CHARs by byte, and operands
  of two DIFFERENT types are simply unequal (`1 = TRUE` is FALSE, `'a' = "a"` is FALSE); the ordering operators
  accept two numbers or two CHARs and reject everything else (also two STRINGs);
* `MOD` accepts REAL operands and then yields a REAL (`(z - floor z) * y` with `z = x / y`); `DIV` on REAL operands
  yields the INTEGER `trunc (floor (x / y))`; only for INTEGER operands is `MOD` an INTEGER;
* the zero test of `/ DIV MOD` is made on the divisor before promotion (`b == 0` for an INTEGER, `y == 0.0` for a
  REAL);
* `OR`, and `AND` with a TRUE (or non-BOOLEAN) left operand, evaluate the right operand; its error is reported before
  the operator's own type check.  Only `FALSE AND …` skips the right operand;
* unary minus on a REAL is the multiplication by `floatOfInt (-1)`; on an INTEGER it wraps (`-(-2^63) = -2^63`).

`Float` is opaque to the kernel: REAL values are stated as the `Float` operation applied to the operands.
-/
namespace Pseudo

open ExprDenote C02Eval FloatFmt

namespace ExprDenote

/-- the evaluator on a denoted tree returns the denoted result -/
theorem eval_denote_outT (e : TExpr) : ∀ (fuel : Nat) (σ : St), fuel > e.size → HasScope σ →
    (evalExpr fuel (denoteT e)).run.run σ = outT σ (evalT e) := by
  induction e with
  | int t n =>
    intro fuel σ hf _
    obtain ⟨f, rfl⟩ : ∃ f, fuel = f + 1 := ⟨fuel - 1, by simp only [TExpr.size] at hf; omega⟩
    simp only [denoteT, evalExpr_intLit]; rfl
  | real t x =>
    intro fuel σ hf _
    obtain ⟨f, rfl⟩ : ∃ f, fuel = f + 1 := ⟨fuel - 1, by simp only [TExpr.size] at hf; omega⟩
    simp only [denoteT, evalExpr_realLit]; rfl
  | bool t b =>
    intro fuel σ hf _
    obtain ⟨f, rfl⟩ : ∃ f, fuel = f + 1 := ⟨fuel - 1, by simp only [TExpr.size] at hf; omega⟩
    simp only [denoteT, evalExpr_boolLit]; rfl
  | chr t c =>
    intro fuel σ hf _
    obtain ⟨f, rfl⟩ : ∃ f, fuel = f + 1 := ⟨fuel - 1, by simp only [TExpr.size] at hf; omega⟩
    simp only [denoteT, evalExpr_charLit]; rfl
  | str t s =>
    intro fuel σ hf _
    obtain ⟨f, rfl⟩ : ∃ f, fuel = f + 1 := ⟨fuel - 1, by simp only [TExpr.size] at hf; omega⟩
    simp only [denoteT, evalExpr_strLit]; rfl
  | paren e ih => intro fuel σ hf hs; exact ih fuel σ hf hs
  | neg t e ih =>
    intro fuel σ hf hs
    simp only [TExpr.size] at hf
    obtain ⟨f, rfl⟩ : ∃ f, fuel = f + 1 := ⟨fuel - 1, by omega⟩
    have H := ih f σ (by omega) hs
    simp only [denoteT, evalExpr_neg, evalT]
    cases he : evalT e with
    | error x => obtain ⟨t', m⟩ := x; rw [he] at H; exact mrun_bind_err _ _ _ _ _ H
    | ok v => rw [he] at H; rw [mrun_bind_ok _ _ _ _ _ H, run_liftMsg, ← negT_eq]
  | not t e ih =>
    intro fuel σ hf hs
    simp only [TExpr.size] at hf
    obtain ⟨f, rfl⟩ : ∃ f, fuel = f + 1 := ⟨fuel - 1, by omega⟩
    have H := ih f σ (by omega) hs
    simp only [denoteT, evalExpr_not, evalT]
    cases he : evalT e with
    | error x => obtain ⟨t', m⟩ := x; rw [he] at H; exact mrun_bind_err _ _ _ _ _ H
    | ok v => rw [he] at H; rw [mrun_bind_ok _ _ _ _ _ H, run_liftMsg, ← notT_eq]
  | arith t op l r ihl ihr =>
    intro fuel σ hf hs
    simp only [TExpr.size] at hf
    obtain ⟨f, rfl⟩ : ∃ f, fuel = f + 1 := ⟨fuel - 1, by omega⟩
    have Hl := ihl f σ (by omega) hs
    have Hr := ihr f σ (by omega) hs
    simp only [denoteT, evalExpr_arith, evalT]
    cases hl : evalT l with
    | error x => obtain ⟨t', m⟩ := x; rw [hl] at Hl; exact mrun_bind_err _ _ _ _ _ Hl
    | ok a =>
      rw [hl] at Hl; rw [mrun_bind_ok _ _ _ _ _ Hl]
      cases hr : evalT r with
      | error x => obtain ⟨t', m⟩ := x; rw [hr] at Hr; exact mrun_bind_err _ _ _ _ _ Hr
      | ok b =>
        rw [hr] at Hr
        obtain ⟨sa, hsa⟩ := run_scopeAct_ok σ hs
        obtain ⟨g, hg⟩ := run_globalAct_ok σ hs
        rw [mrun_bind_ok _ _ _ _ _ Hr, mrun_bind_ok _ _ _ _ _ hsa, mrun_bind_ok _ _ _ _ _ hg, run_liftMsg,
          ← arithT_eq _ op a b (evalT_lit l a hl) (evalT_lit r b hr)]
  | cmp t op l r ihl ihr =>
    intro fuel σ hf hs
    simp only [TExpr.size] at hf
    obtain ⟨f, rfl⟩ : ∃ f, fuel = f + 1 := ⟨fuel - 1, by omega⟩
    have Hl := ihl f σ (by omega) hs
    have Hr := ihr f σ (by omega) hs
    simp only [denoteT, evalExpr_cmp, evalT]
    cases hl : evalT l with
    | error x => obtain ⟨t', m⟩ := x; rw [hl] at Hl; exact mrun_bind_err _ _ _ _ _ Hl
    | ok a =>
      rw [hl] at Hl; rw [mrun_bind_ok _ _ _ _ _ Hl]
      cases hr : evalT r with
      | error x => obtain ⟨t', m⟩ := x; rw [hr] at Hr; exact mrun_bind_err _ _ _ _ _ Hr
      | ok b =>
        rw [hr] at Hr
        rw [mrun_bind_ok _ _ _ _ _ Hr, run_liftMsg, ← cmpT_eq op a b (evalT_lit l a hl) (evalT_lit r b hr)]
  | concat t l r ihl ihr =>
    intro fuel σ hf hs
    simp only [TExpr.size] at hf
    obtain ⟨f, rfl⟩ : ∃ f, fuel = f + 1 := ⟨fuel - 1, by omega⟩
    have Hl := ihl f σ (by omega) hs
    have Hr := ihr f σ (by omega) hs
    simp only [denoteT, evalExpr_concat, evalT]
    cases hl : evalT l with
    | error x => obtain ⟨t', m⟩ := x; rw [hl] at Hl; exact mrun_bind_err _ _ _ _ _ Hl
    | ok a =>
      rw [hl] at Hl; rw [mrun_bind_ok _ _ _ _ _ Hl]
      cases hr : evalT r with
      | error x => obtain ⟨t', m⟩ := x; rw [hr] at Hr; exact mrun_bind_err _ _ _ _ _ Hr
      | ok b =>
        rw [hr] at Hr
        rw [mrun_bind_ok _ _ _ _ _ Hr, run_liftMsg, ← concatT_eq a b (evalT_lit l a hl) (evalT_lit r b hr)]
  | logic t op l r ihl ihr =>
    intro fuel σ hf hs
    simp only [TExpr.size] at hf
    obtain ⟨f, rfl⟩ : ∃ f, fuel = f + 1 := ⟨fuel - 1, by omega⟩
    have Hl := ihl f σ (by omega) hs
    have Hr := ihr f σ (by omega) hs
    simp only [denoteT, evalExpr_logic]
    cases hl : evalT l with
    | error x =>
      obtain ⟨t', m⟩ := x; rw [hl] at Hl
      simp only [evalT, hl]
      exact mrun_bind_err _ _ _ _ _ Hl
    | ok a =>
      rw [hl] at Hl; rw [mrun_bind_ok _ _ _ _ _ Hl]
      split
      · simp only [evalT, hl, shortT, if_true]; rfl
      · rename_i hne
        have hsc : shortT op a = false := by
          unfold shortT
          split
          · exact (hne rfl rfl).elim
          · rfl
        simp only [evalT, hl, hsc, Bool.false_eq_true, if_false]
        cases hr : evalT r with
        | error x => obtain ⟨t', m⟩ := x; rw [hr] at Hr; exact mrun_bind_err _ _ _ _ _ Hr
        | ok b =>
          rw [hr] at Hr
          rw [mrun_bind_ok _ _ _ _ _ Hr, run_liftMsg, ← logicT_eq]

/-! ### syntactic classes used by the typing corollaries -/

/-- no REAL literal and no `/` anywhere in the tree -/
def TExpr.noReal : TExpr → Bool
  | .real _ _ => false
  | .int _ _ | .bool _ _ | .chr _ _ | .str _ _ => true
  | .paren e | .neg _ e | .not _ e => e.noReal
  | .arith _ op l r => op != .div && l.noReal && r.noReal
  | .cmp _ _ l r | .logic _ _ l r | .concat _ l r => l.noReal && r.noReal

/-- INTEGER-only trees: INTEGER literals, `+ - * DIV MOD`, unary minus, parentheses -/
def TExpr.intOnly : TExpr → Bool
  | .int _ _ => true
  | .paren e | .neg _ e => e.intOnly
  | .arith _ op l r => op != .div && l.intOnly && r.intOnly
  | _ => false

/-- ring trees: INTEGER literals, `+ - *`, unary minus, parentheses -/
def TExpr.ringOnly : TExpr → Bool
  | .int _ _ => true
  | .paren e | .neg _ e => e.ringOnly
  | .arith _ op l r => (op == .add || op == .sub || op == .mul) && l.ringOnly && r.ringOnly
  | _ => false

/-- every INTEGER literal fits 64 bits (what the parser guarantees) -/
def TExpr.litsInRange : TExpr → Prop
  | .int _ n => InRange64 n
  | .real _ _ | .bool _ _ | .chr _ _ | .str _ _ => True
  | .paren e | .neg _ e | .not _ e => e.litsInRange
  | .arith _ _ l r | .cmp _ _ l r | .logic _ _ l r | .concat _ l r => l.litsInRange ∧ r.litsInRange

/-- The computation over the mathematical integers only — no `Val`, no `Float` — wrapped to 64 bits after every
    operator; `DIV` / `MOD` are truncated division and its remainder. -/
def intEval : TExpr → Except Err Int
  | .int _ n => .ok n
  | .paren e => intEval e
  | .neg _ e =>
    match intEval e with
    | .error x => .error x
    | .ok n => .ok (wrap64 (-n))
  | .arith t op l r =>
    match intEval l with
    | .error x => .error x
    | .ok a =>
      match intEval r with
      | .error x => .error x
      | .ok b =>
        match op with
        | .add => .ok (wrap64 (a + b))
        | .sub => .ok (wrap64 (a - b))
        | .mul => .ok (wrap64 (a * b))
        | .idiv => if b = 0 then .error (t, .divZero) else .ok (wrap64 (Int.tdiv a b))
        | .mod => if b = 0 then .error (t, .divZero) else .ok (Int.tmod a b)
        | .div => .error (t, .other)
  | _ => .error (default, .other)

/-- the exact value over the mathematical integers, never wrapped (ring trees) -/
def mathEval : TExpr → Int
  | .int _ n => n
  | .paren e => mathEval e
  | .neg _ e => - mathEval e
  | .arith _ .add l r => mathEval l + mathEval r
  | .arith _ .sub l r => mathEval l - mathEval r
  | .arith _ .mul l r => mathEval l * mathEval r
  | _ => 0

/-- the (token, message) pairs a tree can fail with: a type mismatch at an operator that is not total on the five
    literal types, a division by zero at `/ DIV MOD` -/
def TExpr.errSites : TExpr → List Err
  | .int _ _ | .real _ _ | .bool _ _ | .chr _ _ | .str _ _ => []
  | .paren e => e.errSites
  | .neg t e | .not t e => (t, .typeMismatch) :: e.errSites
  | .arith t op l r =>
    (t, .typeMismatch) :: ((if divides op then [(t, .divZero)] else []) ++ (l.errSites ++ r.errSites))
  | .cmp t op l r => (if IsOrder op then [(t, .typeMismatch)] else []) ++ (l.errSites ++ r.errSites)
  | .logic t _ l r => (t, .typeMismatch) :: (l.errSites ++ r.errSites)
  | .concat _ l r => l.errSites ++ r.errSites

/-! ### value-level typing facts -/

def NotReal (v : Val) : Prop := ∀ x, v ≠ .real x

theorem arithT_int_closed {op : ArOp} {a b v : Val} (ha : NotReal a) (hb : NotReal b) (hop : op ≠ .div)
    (h : arithT op a b = .ok v) : ∃ n, v = .int n := by
  cases a <;> try (simp [arithT] at h; done)
  · cases b <;> try (simp [arithT] at h; done)
    · cases op <;> simp only [arithT, intOp] at h <;> (try split at h) <;>
        first | exact absurd rfl hop | (cases h <;> exact ⟨_, rfl⟩)
    · exact absurd rfl (hb _)
  · exact absurd rfl (ha _)

theorem noReal_val (e : TExpr) : e.noReal = true → ∀ v, evalT e = .ok v → NotReal v := by
  induction e with
  | int t n => intro _ v h; simp only [evalT, Except.ok.injEq] at h; subst h; intro x hx; cases hx
  | real t x => intro h; cases h
  | bool t b => intro _ v h; simp only [evalT, Except.ok.injEq] at h; subst h; intro x hx; cases hx
  | chr t c => intro _ v h; simp only [evalT, Except.ok.injEq] at h; subst h; intro x hx; cases hx
  | str t s => intro _ v h; simp only [evalT, Except.ok.injEq] at h; subst h; intro x hx; cases hx
  | paren e ih => intro hn v h; exact ih hn v h
  | neg t e ih =>
    intro hn v h
    obtain ⟨a, ha, hv⟩ := evalT_neg_ok.mp h
    have := ih hn a ha
    cases a <;> simp [negT] at hv
    · subst hv; intro x hx; cases hx
    · exact absurd rfl (this _)
  | not t e ih =>
    intro hn v h
    obtain ⟨a, _, hv⟩ := evalT_not_ok.mp h
    obtain ⟨b, rfl⟩ := notT_bool hv
    intro x hx; cases hx
  | arith t op l r ihl ihr =>
    intro hn v h
    simp only [TExpr.noReal, Bool.and_eq_true, bne_iff_ne, ne_eq] at hn
    rw [evalT_arith] at h
    obtain ⟨a, b, ha, hb, hv⟩ := bin2_ok.mp h
    obtain ⟨n, rfl⟩ := arithT_int_closed (ihl hn.1.2 a ha) (ihr hn.2 b hb) hn.1.1 hv
    intro x hx; cases hx
  | cmp t op l r ihl ihr =>
    intro hn v h
    rw [evalT_cmp] at h
    obtain ⟨a, b, _, _, hv⟩ := bin2_ok.mp h
    obtain ⟨b, rfl⟩ := cmpT_bool hv
    intro x hx; cases hx
  | logic t op l r ihl ihr =>
    intro hn v h
    obtain ⟨a, _, hv⟩ := evalT_logic_ok.mp h
    rcases hv with ⟨_, rfl⟩ | ⟨_, b, _, hv⟩
    · intro x hx; cases hx
    · obtain ⟨b, rfl⟩ := logicT_bool hv
      intro x hx; cases hx
  | concat t l r ihl ihr =>
    intro hn v h
    rw [evalT_concat] at h
    obtain ⟨a, b, _, _, hv⟩ := bin2_ok.mp h
    obtain ⟨s, rfl⟩ := concatT_str hv
    intro x hx; cases hx

/-! ### two's-complement wrap is a ring homomorphism -/

theorem wrap64_emod (n : Int) : wrap64 n % two64 = n % two64 := by
  unfold wrap64 two63 two64; omega

theorem wrap64_congr {a b : Int} (h : a % two64 = b % two64) : wrap64 a = wrap64 b := by
  unfold wrap64 two63 two64 at *; omega

theorem wrap64_add (a b : Int) : wrap64 (wrap64 a + wrap64 b) = wrap64 (a + b) := by
  apply wrap64_congr
  rw [Int.add_emod, wrap64_emod, wrap64_emod, ← Int.add_emod]

theorem wrap64_sub (a b : Int) : wrap64 (wrap64 a - wrap64 b) = wrap64 (a - b) := by
  apply wrap64_congr
  rw [Int.sub_emod, wrap64_emod, wrap64_emod, ← Int.sub_emod]

theorem wrap64_mul (a b : Int) : wrap64 (wrap64 a * wrap64 b) = wrap64 (a * b) := by
  apply wrap64_congr
  rw [Int.mul_emod, wrap64_emod, wrap64_emod, ← Int.mul_emod]

theorem wrap64_neg (a : Int) : wrap64 (- wrap64 a) = wrap64 (- a) := by
  apply wrap64_congr
  rw [Int.neg_emod_eq_sub_emod, Int.neg_emod_eq_sub_emod (a := a)]
  have := wrap64_emod a
  unfold two64 at *; omega

end ExprDenote

/-! ## C02, evaluator level, all literal types and operators -/

/-- **C02 (value, complete)**: for every tree `e` over INTEGER / REAL / BOOLEAN / CHAR / STRING literals, the 15 binary
    operators, unary minus, `NOT` and parentheses, the evaluator run on the AST `denoteT e` with fuel `> e.size`, in
    any state `σ` in which type names can be resolved, ends exactly as the reference semantics `evalT e` says:
    * `evalT e = .ok v`: it returns `v`, and the state is unchanged;
    * `evalT e = .error (t, m)`: it stops with the runtime diagnostic of message class `m` positioned at the token `t`
      of the operator that failed (`rtDiag σ t.line t.col m` — kind `runtime`, line / column of `t`, the call trace
      of `σ`), and the state is unchanged. -/
theorem C02_eval_denote_full (e : TExpr) : ∀ (fuel : Nat) (σ : St), fuel > e.size → HasScope σ →
    (evalExpr fuel (denoteT e)).run.run σ =
      (match evalT e with
       | .ok v => (.ok v, σ)
       | .error (t, m) => (.error (.diag (rtDiag σ t.line t.col m)), σ)) := by
  intro fuel σ hf hs
  rw [eval_denote_outT e fuel σ hf hs]
  cases evalT e <;> rfl

/-- success clause -/
theorem C02_eval_denote_full_ok (e : TExpr) (v : Val) (fuel : Nat) (σ : St) (h : evalT e = .ok v)
    (hf : fuel > e.size) (hs : HasScope σ) :
    (evalExpr fuel (denoteT e)).run.run σ = (.ok v, σ) := by
  rw [C02_eval_denote_full e fuel σ hf hs, h]

/-- error clause: a runtime diagnostic of the denoted class at the denoted token; the state is unchanged -/
theorem C02_eval_denote_full_error (e : TExpr) (t : Tok) (m : Msg) (fuel : Nat) (σ : St) (h : evalT e = .error (t, m))
    (hf : fuel > e.size) (hs : HasScope σ) :
    ∃ d, (evalExpr fuel (denoteT e)).run.run σ = (.error (.diag d), σ) ∧
      d = rtDiag σ t.line t.col m ∧ d.kind = .runtime ∧ d.msg = m ∧ d.line = t.line ∧ d.col = t.col := by
  refine ⟨rtDiag σ t.line t.col m, ?_, rfl, by simp, by simp, by simp, by simp⟩
  rw [C02_eval_denote_full e fuel σ hf hs, h]

/-- `rtDiag` is what the model's `rtErr` raises (this ties the local copy of `rtDiag` to `PseudoModel/State.lean`) -/
theorem C02_rtDiag_is_rtErr (t : Tok) (m : Msg) (σ : St) :
    (rtErr t m : M Val).run.run σ = (.error (.diag (rtDiag σ t.line t.col m)), σ) := run_rtErr t m σ

/-! ## where and why a tree can fail -/

/-- an error of `evalT` is a type mismatch at a unary minus / `NOT` / arithmetic / ordering / logical operator, or a
    division by zero at a `/ DIV MOD` node; `&`, `=`, `<>` and the literals never fail -/
theorem C02_full_error_site (e : TExpr) : ∀ x, evalT e = .error x → x ∈ e.errSites := by
  induction e with
  | int t n => intro x h; cases h
  | real t y => intro x h; cases h
  | bool t b => intro x h; cases h
  | chr t c => intro x h; cases h
  | str t s => intro x h; cases h
  | paren e ih => intro x h; exact ih x h
  | neg t e ih =>
    intro x h
    rcases evalT_neg_error.mp h with h | ⟨a, m, _, hm, rfl⟩
    · exact List.mem_cons_of_mem _ (ih x h)
    · rw [(negT_error.mp hm).2]; exact List.mem_cons_self
  | not t e ih =>
    intro x h
    rcases evalT_not_error.mp h with h | ⟨a, m, _, hm, rfl⟩
    · exact List.mem_cons_of_mem _ (ih x h)
    · rw [(notT_error.mp hm).2]; exact List.mem_cons_self
  | arith t op l r ihl ihr =>
    intro x h
    rw [evalT_arith] at h
    simp only [TExpr.errSites, List.mem_cons, List.mem_append]
    rcases bin2_error.mp h with h | ⟨a, _, h⟩ | ⟨a, b, m, _, _, hm, rfl⟩
    · exact .inr (.inr (.inl (ihl x h)))
    · exact .inr (.inr (.inr (ihr x h)))
    · rcases arithT_error.mp hm with ⟨_, rfl⟩ | ⟨_, _, hd, _, rfl⟩
      · exact .inl rfl
      · exact .inr (.inl (by simp [hd]))
  | cmp t op l r ihl ihr =>
    intro x h
    rw [evalT_cmp] at h
    simp only [TExpr.errSites, List.mem_append]
    rcases bin2_error.mp h with h | ⟨a, _, h⟩ | ⟨a, b, m, _, _, hm, rfl⟩
    · exact .inr (.inl (ihl x h))
    · exact .inr (.inr (ihr x h))
    · obtain ⟨ho, _, _, rfl⟩ := cmpT_error.mp hm
      exact .inl (by simp [ho])
  | logic t op l r ihl ihr =>
    intro x h
    simp only [TExpr.errSites, List.mem_cons, List.mem_append]
    rcases evalT_logic_error.mp h with h | ⟨a, _, _, h⟩ | ⟨a, b, m, _, _, _, hm, rfl⟩
    · exact .inr (.inl (ihl x h))
    · exact .inr (.inr (ihr x h))
    · rw [(logicT_error.mp hm).2]; exact .inl rfl
  | concat t l r ihl ihr =>
    intro x h
    rw [evalT_concat] at h
    simp only [TExpr.errSites, List.mem_append]
    rcases bin2_error.mp h with h | ⟨a, _, h⟩ | ⟨a, b, m, ha, hb, hm, rfl⟩
    · exact .inl (ihl x h)
    · exact .inr (ihr x h)
    · obtain ⟨_, _, _, _, hc⟩ := concatT_lit (evalT_lit l a ha) (evalT_lit r b hb)
      rw [hc] at hm; cases hm

/-- completeness: the evaluator's outcome determines the reference result — a value is returned only if `evalT`
    denotes that value, and nothing but a runtime diagnostic can go wrong (no crash point, no fuel exhaustion,
    no BREAK / RETURN signal) -/
theorem C02_eval_denote_full_outcome (e : TExpr) (fuel : Nat) (σ : St) (hf : fuel > e.size) (hs : HasScope σ) :
    (∃ v, (evalExpr fuel (denoteT e)).run.run σ = (.ok v, σ) ∧ evalT e = .ok v) ∨
    (∃ t m, (evalExpr fuel (denoteT e)).run.run σ = (.error (.diag (rtDiag σ t.line t.col m)), σ) ∧
      evalT e = .error (t, m) ∧ (t, m) ∈ e.errSites) := by
  have H := C02_eval_denote_full e fuel σ hf hs
  cases h : evalT e with
  | ok v => rw [h] at H; exact .inl ⟨v, H, rfl⟩
  | error x =>
    obtain ⟨t, m⟩ := x
    rw [h] at H
    exact .inr ⟨t, m, H, rfl, C02_full_error_site e _ h⟩

/-! ## typing corollaries (all by structural reasoning on `evalT`) -/

/-- `/` never yields an INTEGER: its value, whatever the operand types, is a REAL -/
theorem C02_full_div_is_real (t : Tok) (l r : TExpr) (v : Val) (h : evalT (.arith t .div l r) = .ok v) :
    ∃ x, v = .real x := by
  rw [evalT_arith] at h
  obtain ⟨a, b, _, _, hv⟩ := bin2_ok.mp h
  unfold arithT at hv
  split at hv <;> (try simp only [intOp, realOp] at hv) <;> (try split at hv) <;> cases hv <;> exact ⟨_, rfl⟩

/-- result type of an arithmetic node from the types of its operand values: the operands are numbers, `/` is REAL,
    `DIV` is INTEGER, the others are REAL iff an operand is REAL (instance of `C02_result_type`) -/
theorem C02_full_result_type (t : Tok) (op : ArOp) (l r : TExpr) (a b v : Val)
    (hl : evalT l = .ok a) (hr : evalT r = .ok b) (h : evalT (.arith t op l r) = .ok v) :
    IsNum a = true ∧ IsNum b = true ∧
    v.ty = (if op = .div then Ty.real else if op = .idiv then Ty.int
            else if a.ty = .real ∨ b.ty = .real then Ty.real else Ty.int) := by
  rw [evalT_arith, hl, hr] at h
  have hv : arithT op a b = .ok v := atTok_ok.mp h
  have hn : IsNum a = true ∧ IsNum b = true := by
    cases ha : IsNum a <;> cases hb : IsNum b <;> try exact ⟨rfl, rfl⟩
    all_goals
      have := (arithT_error (op := op) (a := a) (b := b) (m := .typeMismatch)).mpr (.inl ⟨by simp [ha, hb], rfl⟩)
      rw [this] at hv; cases hv
  refine ⟨hn.1, hn.2, ?_⟩
  have hla : a.ty = .int ∨ a.ty = .real := by cases a <;> simp [IsNum] at hn <;> simp [Val.ty]
  have hrb : b.ty = .int ∨ b.ty = .real := by cases b <;> simp [IsNum] at hn <;> simp [Val.ty]
  rw [arithT_eq noEnum op a b (evalT_lit l a hl) (evalT_lit r b hr)] at hv
  exact C02_result_type op a b v hla hrb hv

/-- a tree without `/` and without REAL literals whose root is an arithmetic operator yields an INTEGER (or fails) -/
theorem C02_full_int_closed (t : Tok) (op : ArOp) (l r : TExpr) (v : Val)
    (hn : (TExpr.arith t op l r).noReal = true) (h : evalT (.arith t op l r) = .ok v) : ∃ n, v = .int n := by
  simp only [TExpr.noReal, Bool.and_eq_true, bne_iff_ne, ne_eq] at hn
  rw [evalT_arith] at h
  obtain ⟨a, b, ha, hb, hv⟩ := bin2_ok.mp h
  exact arithT_int_closed (noReal_val l hn.1.2 a ha) (noReal_val r hn.2 b hb) hn.1.1 hv

/-- no REAL can come out of a tree without `/` and REAL literals, whatever its root -/
theorem C02_full_no_real (e : TExpr) (v : Val) (hn : e.noReal = true) (h : evalT e = .ok v) : v.ty ≠ .real := by
  have := noReal_val e hn v h
  cases v <;> simp [Val.ty]
  exact this _ rfl

/-- mixed INTEGER / REAL operands promote to REAL for every operator but `DIV` -/
theorem C02_full_mixed_promotes (t : Tok) (op : ArOp) (l r : TExpr) (a b v : Val)
    (hl : evalT l = .ok a) (hr : evalT r = .ok b) (hreal : a.ty = .real ∨ b.ty = .real) (hop : op ≠ .idiv)
    (h : evalT (.arith t op l r) = .ok v) : v.ty = .real := by
  have := (C02_full_result_type t op l r a b v hl hr h).2.2
  rw [this]
  simp [hop, hreal]

/-- … and the promoted value is the `Float` operation applied to `floatOfInt` of the INTEGER operand -/
theorem C02_full_mixed_values (t : Tok) (l r : TExpr) (a : Int) (y : Float)
    (hl : evalT l = .ok (.int a)) (hr : evalT r = .ok (.real y)) :
    evalT (.arith t .add l r) = .ok (.real (floatOfInt a + y)) ∧
    evalT (.arith t .sub l r) = .ok (.real (floatOfInt a - y)) ∧
    evalT (.arith t .mul l r) = .ok (.real (floatOfInt a * y)) ∧
    evalT (.arith t .add r l) = .ok (.real (y + floatOfInt a)) ∧
    evalT (.arith t .sub r l) = .ok (.real (y - floatOfInt a)) ∧
    evalT (.arith t .mul r l) = .ok (.real (y * floatOfInt a)) ∧
    evalT (.arith t .div r l) = (if a = 0 then .error (t, .divZero) else .ok (.real (y / floatOfInt a))) := by
  refine ⟨?_, ?_, ?_, ?_, ?_, ?_, ?_⟩ <;> rw [evalT_arith, hl, hr] <;> try rfl
  by_cases h0 : a = 0 <;> simp [bin2, arithT, realOp, atTok, h0]

/-- `DIV` always yields an INTEGER; `MOD` of two INTEGERs is the INTEGER truncated remainder -/
theorem C02_full_div_mod_int (t : Tok) (l r : TExpr) (v : Val) :
    (evalT (.arith t .idiv l r) = .ok v → ∃ n, v = .int n) ∧
    (∀ a b, evalT l = .ok (.int a) → evalT r = .ok (.int b) → evalT (.arith t .mod l r) = .ok v →
      b ≠ 0 ∧ v = .int (Int.tmod a b)) := by
  constructor
  · intro h
    rw [evalT_arith] at h
    obtain ⟨a, b, _, _, hv⟩ := bin2_ok.mp h
    unfold arithT at hv
    split at hv <;> (try simp only [intOp, realOp] at hv) <;> (try split at hv) <;> cases hv <;> exact ⟨_, rfl⟩
  · intro a b hl hr h
    rw [evalT_arith, hl, hr] at h
    have hv : intOp .mod a b = .ok v := atTok_ok.mp h
    simp only [intOp] at hv
    split at hv
    · cases hv
    · rename_i hb; cases hv; exact ⟨hb, rfl⟩

/-- the DIV / MOD law at tree level: for INTEGER operand values `a`, `b ≠ 0` both nodes have a value, and
    `a = (a DIV b) * b + (a MOD b)` with `|a MOD b| < |b|` (on the unwrapped quotient; the wrap only matters for
    `(-2^63) DIV (-1)`) -/
theorem C02_full_divmod_law (t t' : Tok) (l r : TExpr) (a b : Int)
    (hl : evalT l = .ok (.int a)) (hr : evalT r = .ok (.int b)) (hb : b ≠ 0) :
    evalT (.arith t .idiv l r) = .ok (.int (wrap64 (Int.tdiv a b))) ∧
    evalT (.arith t' .mod l r) = .ok (.int (Int.tmod a b)) ∧
    a = Int.tdiv a b * b + Int.tmod a b ∧ (Int.tmod a b).natAbs < b.natAbs := by
  refine ⟨?_, ?_, C02_divmod_law a b hb⟩ <;> rw [evalT_arith, hl, hr] <;> simp [bin2, arithT, intOp, atTok, hb]

/-- a zero divisor (INTEGER 0) is a division-by-zero error at the operator's token, for `/`, `DIV` and `MOD`,
    whatever numeric type the dividend has -/
theorem C02_full_zero_divisor (t : Tok) (op : ArOp) (l r : TExpr) (a : Val)
    (hop : op = .div ∨ op = .idiv ∨ op = .mod) (hl : evalT l = .ok a) (ha : IsNum a = true) (hr : evalT r = .ok (.int 0)) :
    evalT (.arith t op l r) = .error (t, .divZero) := by
  rw [evalT_arith, hl, hr]
  have : arithT op a (.int 0) = .error .divZero :=
    arithT_error.mpr (.inr ⟨ha, rfl, by rcases hop with h | h | h <;> subst h <;> rfl, rfl, rfl⟩)
  simp only [bin2, this, atTok]

/-- comparisons yield BOOLEAN -/
theorem C02_full_cmp_bool (t : Tok) (op : CmpOp) (l r : TExpr) (v : Val) (h : evalT (.cmp t op l r) = .ok v) :
    ∃ b, v = .bool b := by
  rw [evalT_cmp] at h
  obtain ⟨a, b, _, _, hv⟩ := bin2_ok.mp h
  exact cmpT_bool hv

/-- `AND` / `OR` / `NOT` yield BOOLEAN, `&` yields STRING -/
theorem C02_full_logic_bool (t : Tok) (op : LogOp) (l r e : TExpr) (v : Val) :
    (evalT (.logic t op l r) = .ok v → ∃ b, v = .bool b) ∧
    (evalT (.not t e) = .ok v → ∃ b, v = .bool b) ∧
    (evalT (.concat t l r) = .ok v → ∃ s, v = .str s) := by
  refine ⟨fun h => ?_, fun h => ?_, fun h => ?_⟩
  · obtain ⟨a, _, hv⟩ := evalT_logic_ok.mp h
    rcases hv with ⟨_, rfl⟩ | ⟨_, b, _, hv⟩
    · exact ⟨_, rfl⟩
    · exact logicT_bool hv
  · obtain ⟨a, _, hv⟩ := evalT_not_ok.mp h
    exact notT_bool hv
  · rw [evalT_concat] at h
    obtain ⟨a, b, _, _, hv⟩ := bin2_ok.mp h
    exact concatT_str hv

/-- the value of every tree is of one of the five literal types -/
theorem C02_full_value_type (e : TExpr) (v : Val) (h : evalT e = .ok v) :
    v.ty = .int ∨ v.ty = .real ∨ v.ty = .bool ∨ v.ty = .chr ∨ v.ty = .str := by
  have := evalT_lit e v h
  cases v <;> simp [IsLit] at this <;> simp [Val.ty]

/-! ## exactly when an operator node fails -/

/-- an arithmetic node fails iff its left operand fails (same error), or its right operand fails after the left one
    had a value (same error), or both have values and either one of them is not a number (type mismatch at the
    operator) or — `/ DIV MOD` only — the divisor is zero (division by zero at the operator) -/
theorem C02_full_error_iff (t : Tok) (op : ArOp) (l r : TExpr) (x : Tok × Msg) :
    evalT (.arith t op l r) = .error x ↔
      evalT l = .error x ∨
      (∃ a, evalT l = .ok a ∧ evalT r = .error x) ∨
      (∃ a b, evalT l = .ok a ∧ evalT r = .ok b ∧
        (((IsNum a = false ∨ IsNum b = false) ∧ x = (t, .typeMismatch)) ∨
         (IsNum a = true ∧ IsNum b = true ∧ divides op = true ∧ isZeroNum b = true ∧ x = (t, .divZero)))) := by
  rw [evalT_arith, bin2_error]
  constructor
  · rintro (h | h | ⟨a, b, m, ha, hb, hm, rfl⟩)
    · exact .inl h
    · exact .inr (.inl h)
    · refine .inr (.inr ⟨a, b, ha, hb, ?_⟩)
      rcases arithT_error.mp hm with ⟨h1, rfl⟩ | ⟨h1, h2, h3, h4, rfl⟩
      · exact .inl ⟨h1, rfl⟩
      · exact .inr ⟨h1, h2, h3, h4, rfl⟩
  · rintro (h | h | ⟨a, b, ha, hb, ⟨h1, rfl⟩ | ⟨h1, h2, h3, h4, rfl⟩⟩)
    · exact .inl h
    · exact .inr (.inl h)
    · exact .inr (.inr ⟨a, b, _, ha, hb, arithT_error.mpr (.inl ⟨h1, rfl⟩), rfl⟩)
    · exact .inr (.inr ⟨a, b, _, ha, hb, arithT_error.mpr (.inr ⟨h1, h2, h3, h4, rfl⟩), rfl⟩)

/-- a comparison node fails iff an operand fails, or an ordering operator (`< <= > >=`) meets operand values that
    are neither two numbers nor two CHARs; `=` and `<>` never add an error of their own -/
theorem C02_full_error_iff_cmp (t : Tok) (op : CmpOp) (l r : TExpr) (x : Tok × Msg) :
    evalT (.cmp t op l r) = .error x ↔
      evalT l = .error x ∨
      (∃ a, evalT l = .ok a ∧ evalT r = .error x) ∨
      (∃ a b, evalT l = .ok a ∧ evalT r = .ok b ∧ IsOrder op = true ∧
        (IsNum a && IsNum b) = false ∧ (IsChr a && IsChr b) = false ∧ x = (t, .typeMismatch)) := by
  rw [evalT_cmp, bin2_error]
  constructor
  · rintro (h | h | ⟨a, b, m, ha, hb, hm, rfl⟩)
    · exact .inl h
    · exact .inr (.inl h)
    · obtain ⟨h1, h2, h3, rfl⟩ := cmpT_error.mp hm
      exact .inr (.inr ⟨a, b, ha, hb, h1, h2, h3, rfl⟩)
  · rintro (h | h | ⟨a, b, ha, hb, h1, h2, h3, rfl⟩)
    · exact .inl h
    · exact .inr (.inl h)
    · exact .inr (.inr ⟨a, b, _, ha, hb, cmpT_error.mpr ⟨h1, h2, h3, rfl⟩, rfl⟩)

/-- `AND` / `OR`: fails iff the left operand fails, or — unless the left value is FALSE under `AND` — the right
    operand fails, or both have values one of which is not a BOOLEAN.  The right operand's error comes before the
    operator's own type check: `1 OR (1 DIV 0 = 1)` is a division by zero. -/
theorem C02_full_error_iff_logic (t : Tok) (op : LogOp) (l r : TExpr) (x : Tok × Msg) :
    evalT (.logic t op l r) = .error x ↔
      evalT l = .error x ∨
      (∃ a, evalT l = .ok a ∧ shortT op a = false ∧ evalT r = .error x) ∨
      (∃ a b, evalT l = .ok a ∧ shortT op a = false ∧ evalT r = .ok b ∧
        (IsBool a = false ∨ IsBool b = false) ∧ x = (t, .typeMismatch)) := by
  rw [evalT_logic_error]
  constructor
  · rintro (h | h | ⟨a, b, m, ha, hs, hb, hm, rfl⟩)
    · exact .inl h
    · exact .inr (.inl h)
    · obtain ⟨h1, rfl⟩ := logicT_error.mp hm
      exact .inr (.inr ⟨a, b, ha, hs, hb, h1, rfl⟩)
  · rintro (h | h | ⟨a, b, ha, hs, hb, h1, rfl⟩)
    · exact .inl h
    · exact .inr (.inl h)
    · exact .inr (.inr ⟨a, b, _, ha, hs, hb, logicT_error.mpr ⟨h1, rfl⟩, rfl⟩)

/-- unary minus fails iff its operand fails or is not a number; `NOT` iff its operand fails or is not a BOOLEAN;
    `&` iff an operand fails (it accepts all five types) -/
theorem C02_full_error_iff_unary (t : Tok) (e l r : TExpr) (x : Tok × Msg) :
    (evalT (.neg t e) = .error x ↔
      evalT e = .error x ∨ ∃ a, evalT e = .ok a ∧ IsNum a = false ∧ x = (t, .typeMismatch)) ∧
    (evalT (.not t e) = .error x ↔
      evalT e = .error x ∨ ∃ a, evalT e = .ok a ∧ IsBool a = false ∧ x = (t, .typeMismatch)) ∧
    (evalT (.concat t l r) = .error x ↔
      evalT l = .error x ∨ ∃ a, evalT l = .ok a ∧ evalT r = .error x) := by
  refine ⟨?_, ?_, ?_⟩
  · rw [evalT_neg_error]
    constructor
    · rintro (h | ⟨a, m, ha, hm, rfl⟩)
      · exact .inl h
      · obtain ⟨h1, rfl⟩ := negT_error.mp hm
        exact .inr ⟨a, ha, h1, rfl⟩
    · rintro (h | ⟨a, ha, h1, rfl⟩)
      · exact .inl h
      · exact .inr ⟨a, _, ha, negT_error.mpr ⟨h1, rfl⟩, rfl⟩
  · rw [evalT_not_error]
    constructor
    · rintro (h | ⟨a, m, ha, hm, rfl⟩)
      · exact .inl h
      · obtain ⟨h1, rfl⟩ := notT_error.mp hm
        exact .inr ⟨a, ha, h1, rfl⟩
    · rintro (h | ⟨a, ha, h1, rfl⟩)
      · exact .inl h
      · exact .inr ⟨a, _, ha, notT_error.mpr ⟨h1, rfl⟩, rfl⟩
  · rw [evalT_concat, bin2_error]
    constructor
    · rintro (h | h | ⟨a, b, m, ha, hb, hm, rfl⟩)
      · exact .inl h
      · exact .inr h
      · obtain ⟨_, _, _, _, hc⟩ := concatT_lit (evalT_lit l a ha) (evalT_lit r b hb)
        rw [hc] at hm; cases hm
    · rintro (h | h)
      · exact .inl h
      · exact .inr (.inl h)

/-! ## INTEGER arithmetic never touches floating point -/

/-- one step: on INTEGER operand values `+ - *` is the model's `evalArith` on INTEGERs, i.e. (`C02_int_exact`) exact
    integer arithmetic followed by the 64-bit wrap -/
theorem C02_full_int_exact (t : Tok) (l r : TExpr) (a b : Int)
    (hl : evalT l = .ok (.int a)) (hr : evalT r = .ok (.int b)) :
    evalT (.arith t .add l r) = .ok (.int (wrap64 (a + b))) ∧
    evalT (.arith t .sub l r) = .ok (.int (wrap64 (a - b))) ∧
    evalT (.arith t .mul l r) = .ok (.int (wrap64 (a * b))) := by
  obtain ⟨h1, h2, h3⟩ := C02_int_exact a b
  refine ⟨?_, ?_, ?_⟩ <;> rw [evalT_arith, hl, hr] <;> simp only [bin2]
  · rw [arithT_eq noEnum .add _ _ rfl rfl, h1]; rfl
  · rw [arithT_eq noEnum .sub _ _ rfl rfl, h2]; rfl
  · rw [arithT_eq noEnum .mul _ _ rfl rfl, h3]; rfl

/-- for INTEGER-only trees (INTEGER literals, `+ - * DIV MOD`, unary minus, parentheses) the result is the
    computation `intEval` over the mathematical integers — in which no `Float` and no `Val` occurs — wrapped to 64
    bits after every operator; the errors (division by zero, at the same token) coincide too -/
theorem C02_full_no_float_for_int (e : TExpr) (h : e.intOnly = true) :
    evalT e = (match intEval e with
               | .ok n => .ok (.int n)
               | .error x => .error x) := by
  induction e with
  | int t n => rfl
  | paren e ih => exact ih h
  | neg t e ih =>
    simp only [evalT, intEval]
    rw [ih h]
    cases intEval e <;> rfl
  | arith t op l r ihl ihr =>
    simp only [TExpr.intOnly, Bool.and_eq_true, bne_iff_ne, ne_eq] at h
    simp only [evalT, intEval]
    rw [ihl h.1.2, ihr h.2]
    cases intEval l with
    | error x => rfl
    | ok a =>
      cases intEval r with
      | error x => rfl
      | ok b =>
        cases op with
        | div => exact absurd rfl h.1.1
        | add => rfl
        | sub => rfl
        | mul => rfl
        | idiv => by_cases hb : b = 0 <;> simp [arithT, intOp, atTok, hb]
        | mod => by_cases hb : b = 0 <;> simp [arithT, intOp, atTok, hb]
  | real | bool | chr | str | not | cmp | logic | concat => cases h

/-- for ring trees (`+ - *`, unary minus) over literals that fit 64 bits, wrapping after every operator is the same
    as wrapping once at the end: the result is the exact big-integer value `mathEval e` reduced to 64 bits -/
theorem C02_full_ring_exact (e : TExpr) (h : e.ringOnly = true) (hr : e.litsInRange) :
    evalT e = .ok (.int (wrap64 (mathEval e))) := by
  induction e with
  | int t n => simp only [evalT, mathEval]; rw [wrap64_id n hr]
  | paren e ih => exact ih h hr
  | neg t e ih =>
    simp only [evalT, mathEval]
    rw [ih h hr]
    show Except.ok (Val.int (wrap64 (- wrap64 (mathEval e)))) = _
    rw [wrap64_neg]
  | arith t op l r ihl ihr =>
    simp only [TExpr.ringOnly, Bool.and_eq_true] at h
    simp only [evalT]
    rw [ihl h.1.2 hr.1, ihr h.2 hr.2]
    cases op with
    | add => show Except.ok (Val.int (wrap64 (wrap64 (mathEval l) + wrap64 (mathEval r)))) = _; rw [wrap64_add]; rfl
    | sub => show Except.ok (Val.int (wrap64 (wrap64 (mathEval l) - wrap64 (mathEval r)))) = _; rw [wrap64_sub]; rfl
    | mul => show Except.ok (Val.int (wrap64 (wrap64 (mathEval l) * wrap64 (mathEval r)))) = _; rw [wrap64_mul]; rfl
    | div | idiv | mod => simp at h
  | real | bool | chr | str | not | cmp | logic | concat => cases h

/-! ## the bridge to the position-free trees of `C02Parse` / `C02Eval` -/

/-- the typed node of a binary operator of the printer's grammar (tokens as `render` produces them) -/
def binOfP (op : BinOpTok) (l r : TExpr) : TExpr :=
  match op with
  | .add => .arith op.tok .add l r
  | .sub => .arith op.tok .sub l r
  | .mul => .arith op.tok .mul l r
  | .div => .arith op.tok .div l r
  | .idiv => .arith op.tok .idiv l r
  | .mod => .arith op.tok .mod l r
  | .concat => .concat op.tok l r
  | .eq => .cmp op.tok .eq l r
  | .ne => .cmp op.tok .ne l r
  | .lt => .cmp op.tok .lt l r
  | .le => .cmp op.tok .le l r
  | .gt => .cmp op.tok .gt l r
  | .ge => .cmp op.tok .ge l r
  | .and => .logic op.tok .and l r
  | .or => .logic op.tok .or l r

/-- a variable-free `PExpr` as a `TExpr` (`PExpr` has INTEGER, BOOLEAN and STRING literals) -/
def ofP : PExpr → Option TExpr
  | .int n => some (.int (intT n) n)
  | .bool b => some (.bool (boolT b) b)
  | .str s => some (.str (strT s) s)
  | .var _ => none
  | .neg e => (ofP e).map (.neg minusT)
  | .not e => (ofP e).map (.not notT)
  | .bin op l r =>
    match ofP l, ofP r with
    | some a, some b => some (binOfP op a b)
    | _, _ => none

theorem denoteT_binOfP (op : BinOpTok) (l r : TExpr) :
    denoteT (binOfP op l r) = op.mk op.tok (denoteT l) (denoteT r) := by
  cases op <;> rfl

theorem size_binOfP (op : BinOpTok) (l r : TExpr) : (binOfP op l r).size = l.size + r.size + 1 := by
  cases op <;> rfl

theorem ofP_spec (e : PExpr) : ∀ te, ofP e = some te → denoteT te = denote e ∧ te.size = e.size := by
  induction e with
  | int n => intro te h; simp only [ofP, Option.some.injEq] at h; subst h; exact ⟨rfl, rfl⟩
  | bool b => intro te h; simp only [ofP, Option.some.injEq] at h; subst h; exact ⟨rfl, rfl⟩
  | str s => intro te h; simp only [ofP, Option.some.injEq] at h; subst h; exact ⟨rfl, rfl⟩
  | var x => intro te h; cases h
  | neg e ih =>
    intro te h
    simp only [ofP, Option.map_eq_some_iff] at h
    obtain ⟨a, ha, rfl⟩ := h
    obtain ⟨h1, h2⟩ := ih a ha
    exact ⟨by simp only [denoteT, denote, h1], by simp only [TExpr.size, PExpr.size, h2]⟩
  | not e ih =>
    intro te h
    simp only [ofP, Option.map_eq_some_iff] at h
    obtain ⟨a, ha, rfl⟩ := h
    obtain ⟨h1, h2⟩ := ih a ha
    exact ⟨by simp only [denoteT, denote, h1], by simp only [TExpr.size, PExpr.size, h2]⟩
  | bin op l r ihl ihr =>
    intro te h
    simp only [ofP] at h
    cases hl : ofP l with
    | none => simp [hl] at h
    | some a =>
      cases hr : ofP r with
      | none => simp [hl, hr] at h
      | some b =>
        simp only [hl, hr, Option.some.injEq] at h
        subst h
        obtain ⟨h1, h2⟩ := ihl a hl
        obtain ⟨h3, h4⟩ := ihr b hr
        exact ⟨by rw [denoteT_binOfP, h1, h3]; rfl, by rw [size_binOfP, h2, h4]; rfl⟩

/-- `evalT` extends `evalP` of `Properties/C02Eval.lean`: on the INTEGER / BOOLEAN fragment they give the same value
    (derived from the two evaluator theorems: both describe the one `evalExpr`) -/
theorem C02_full_extends_evalP (e : PExpr) (te : TExpr) (h : ofP e = some te) (v : Val) (hv : evalP e = some v) :
    evalT te = .ok v := by
  have hs := HasScope_init [] [] false false
  obtain ⟨hd, hsz⟩ := ofP_spec e te h
  have h1 := C02_eval_denote e v (e.size + 1) _ hv (by omega) hs
  have h2 := C02_eval_denote_full te (e.size + 1) _ (by omega) hs
  rw [hd, h1] at h2
  cases hte : evalT te with
  | ok v' =>
    rw [hte] at h2
    injection h2 with h3 _
    injection h3 with h3
    rw [h3]
  | error x =>
    rw [hte] at h2
    injection h2 with h3 _
    cases h3

/-- **C02 (text → value, complete for variable-free `PExpr`)**: the token text `render 0 e` (minimal parentheses)
    parses to an AST whose evaluation is `evalT` of the tree — its value, or its runtime error at the failing
    operator — in every state with a scope and with any fuel `> e.size`.  Unlike `C02_text_value` this covers `/`,
    `&`, STRING operands, zero divisors and type errors. -/
theorem C02_text_value_full (cfg : PCfg) (e : PExpr) (he : e.InRange) (te : TExpr) (hte : ofP e = some te)
    (rest : List Tok) (hrest : StopsAt 0 rest) (w : List Tok) :
    ∃ f₀, ∀ f ≥ f₀, ∃ ast,
      (parseEval cfg f).run.run ⟨render 0 e ++ rest, w⟩ = (.ok ast, ⟨rest, w⟩) ∧
      ∀ (σ : St) (fuel : Nat), HasScope σ → fuel > e.size →
        (evalExpr fuel ast).run.run σ =
          (match evalT te with
           | .ok v => (.ok v, σ)
           | .error (t, m) => (.error (.diag (rtDiag σ t.line t.col m)), σ)) := by
  obtain ⟨f₀, h⟩ := C02_parseEval_render cfg e he rest hrest w
  obtain ⟨hd, hsz⟩ := ofP_spec e te hte
  refine ⟨f₀, fun f hf => ⟨denote e, h f hf, fun σ fuel hσ hfuel => ?_⟩⟩
  rw [← hd]
  exact C02_eval_denote_full te fuel σ (by omega) hσ

/-! ## non-vacuity: concrete trees (tokens on line 1 at the column where the text would put them) -/

section examples
private def σ0 : St := St.init [] [] false false
private def tk (k : TK) (col : Nat) (v : Str := []) : Tok := { k := k, line := 1, col := col, val := v }
private def I (col : Nat) (n : Nat) : TExpr := .int (tk .INTEGER col) n
private def B (col : Nat) (b : Bool) : TExpr := .bool (tk (if b then .TRUE else .FALSE) col) b
private def S (col : Nat) (s : String) : TExpr := .str (tk .STRING col s.toList) s.toList
private theorem hs0 : HasScope σ0 := HasScope_init _ _ _ _

/-- `7 / 2` -/
private def eDiv : TExpr := .arith (tk .SLASH 3) .div (I 1 7) (I 5 2)
/-- `7 DIV 2 * 2 + 7 MOD 2` -/
private def eLaw : TExpr :=
  .arith (tk .PLUS 13) .add
    (.arith (tk .STAR 9) .mul (.arith (tk .DIV 3) .idiv (I 1 7) (I 7 2)) (I 11 2))
    (.arith (tk .MOD 17) .mod (I 15 7) (I 21 2))
/-- `1 + 2.5` -/
private def eMixed : TExpr := .arith (tk .PLUS 3) .add (I 1 1) (.real (tk .REAL 5 "2.5".toList) "2.5".toList)
/-- `"a" & 'b' = "ab"` -/
private def eCat : TExpr :=
  .cmp (tk .EQUALS 11) .eq (.concat (tk .AMPERSAND 5) (S 1 "a") (.chr (tk .CHAR 7 ['b']) 'b')) (S 13 "ab")
/-- `1 / 0` -/
private def eZero : TExpr := .arith (tk .SLASH 3) .div (I 1 1) (I 5 0)
/-- `TRUE + 1` -/
private def eType : TExpr := .arith (tk .PLUS 6) .add (B 1 true) (I 8 1)
/-- `(1 DIV 0 = 1)` at column `c` -/
private def eD0 (c : Nat) : TExpr := .paren (.cmp (tk .EQUALS (c + 9)) .eq (.arith (tk .DIV (c + 3)) .idiv (I (c + 1) 1) (I (c + 7) 0)) (I (c + 11) 1))
/-- `TRUE OR (1 DIV 0 = 1)` -/
private def eOr : TExpr := .logic (tk .OR 6) .or (B 1 true) (eD0 9)
/-- `FALSE AND (1 DIV 0 = 1)` -/
private def eAnd : TExpr := .logic (tk .AND 7) .and (B 1 false) (eD0 11)
private def maxLong : Nat := 9223372036854775807

-- the reference values
example : evalT eDiv = .ok (.real (floatOfInt 7 / floatOfInt 2)) := rfl
example : evalT eLaw = .ok (.int 7) := rfl
example : evalT eMixed = .ok (.real (floatOfInt 1 + (strtod "2.5".toList).1)) := rfl
example : evalT eCat = .ok (.bool true) := rfl
example : evalT eZero = .error (tk .SLASH 3, .divZero) := rfl
example : evalT eType = .error (tk .PLUS 6, .typeMismatch) := rfl
-- `OR` evaluates its right operand: the error is the division by zero at the `DIV` token (column 12), not a value
example : evalT eOr = .error (tk .DIV 12, .divZero) := rfl
-- `FALSE AND …` does not
example : evalT eAnd = .ok (.bool false) := rfl
-- `1 OR (1 DIV 0 = 1)`: the right operand's error comes before the type check of `OR`
example : evalT (.logic (tk .OR 3) .or (I 1 1) (eD0 6)) = .error (tk .DIV 9, .divZero) := rfl
example : evalT (.logic (tk .OR 3) .or (I 1 1) (B 6 true)) = .error (tk .OR 3, .typeMismatch) := rfl
-- REAL operands: `7.5 DIV 2` is an INTEGER, `7.5 MOD 2` a REAL, `7.5 / 0` and `7.5 MOD 0` are errors
private def r75 : TExpr := .real (tk .REAL 1 "7.5".toList) "7.5".toList
example : evalT (.arith (tk .DIV 5) .idiv r75 (I 9 2)) =
    .ok (.int (floatToIntTrunc ((strtod "7.5".toList).1 / floatOfInt 2).floor)) := rfl
example : evalT (.arith (tk .MOD 5) .mod r75 (I 9 2)) = .ok (.real (modReal (strtod "7.5".toList).1 (floatOfInt 2))) := rfl
example : evalT (.arith (tk .SLASH 5) .div r75 (I 7 0)) = .error (tk .SLASH 5, .divZero) := rfl
example : evalT (.arith (tk .MOD 5) .mod r75 (I 9 0)) = .error (tk .MOD 5, .divZero) := rfl
-- 64-bit wrap: `maxLong + 1`, `-(0 - maxLong - 1)`, `(0 - maxLong - 1) DIV -1`
example : evalT (.arith (tk .PLUS 21) .add (I 1 maxLong) (I 23 1)) = .ok (.int (-9223372036854775808)) := rfl
example : evalT (.neg (tk .MINUS 1) (.paren (.arith (tk .MINUS 5) .sub (.arith (tk .MINUS 3) .sub (I 2 0) (I 4 maxLong)) (I 6 1))))
    = .ok (.int (-9223372036854775808)) := rfl
example : evalT (.arith (tk .DIV 9) .idiv (.arith (tk .MINUS 5) .sub (.arith (tk .MINUS 3) .sub (I 2 0) (I 4 maxLong)) (I 6 1))
    (.neg (tk .MINUS 13) (I 14 1))) = .ok (.int (-9223372036854775808)) := rfl
-- comparisons: CHARs are ordered, STRINGs are not; operands of two different types are unequal, not an error
example : evalT (.cmp (tk .LESSER 5) .lt (.chr (tk .CHAR 1) 'a') (.chr (tk .CHAR 7) 'b')) = .ok (.bool true) := rfl
example : evalT (.cmp (tk .LESSER 5) .lt (S 1 "a") (S 7 "b")) = .error (tk .LESSER 5, .typeMismatch) := rfl
example : evalT (.cmp (tk .EQUALS 3) .eq (I 1 1) (B 5 true)) = .ok (.bool false) := rfl
example : evalT (.cmp (tk .NOT_EQUALS 5) .ne (.chr (tk .CHAR 1) 'a') (S 8 "a")) = .ok (.bool true) := rfl
-- `&` accepts all five types: `TRUE & "x"` is "TRUEx"
example : evalT (.concat (tk .AMPERSAND 6) (B 1 true) (S 8 "x")) = .ok (.str "TRUEx".toList) := rfl
example : evalT (.concat (tk .AMPERSAND 3) (I 1 1) (I 5 2)) = .ok (.str "12".toList) := rfl

-- the theorem on these trees (REAL results can only be obtained this way: the kernel cannot run `Float`)
example : (evalExpr 4 (denoteT eDiv)).run.run σ0 = (.ok (.real (floatOfInt 7 / floatOfInt 2)), σ0) :=
  C02_eval_denote_full_ok eDiv _ 4 σ0 rfl (by decide) hs0
example : (evalExpr 4 (denoteT eMixed)).run.run σ0 = (.ok (.real (floatOfInt 1 + (strtod "2.5".toList).1)), σ0) :=
  C02_eval_denote_full_ok eMixed _ 4 σ0 rfl (by decide) hs0
example : (evalExpr 10 (denoteT eLaw)).run.run σ0 = (.ok (.int 7), σ0) :=
  C02_eval_denote_full_ok eLaw _ 10 σ0 rfl (by decide) hs0
example : ∃ d, (evalExpr 4 (denoteT eZero)).run.run σ0 = (.error (.diag d), σ0) ∧
    d = rtDiag σ0 1 3 .divZero ∧ d.kind = .runtime ∧ d.msg = .divZero ∧ d.line = 1 ∧ d.col = 3 :=
  C02_eval_denote_full_error eZero (tk .SLASH 3) .divZero 4 σ0 rfl (by decide) hs0
example : ∃ d, (evalExpr 9 (denoteT eOr)).run.run σ0 = (.error (.diag d), σ0) ∧
    d = rtDiag σ0 1 12 .divZero ∧ d.kind = .runtime ∧ d.msg = .divZero ∧ d.line = 1 ∧ d.col = 12 :=
  C02_eval_denote_full_error eOr (tk .DIV 12) .divZero 9 σ0 rfl (by decide) hs0
-- … and the evaluator actually run by the kernel where no `Float` is involved
example : (evalExpr 10 (denoteT eLaw)).run.run σ0 = (.ok (.int 7), σ0) := rfl
example : (evalExpr 6 (denoteT eCat)).run.run σ0 = (.ok (.bool true), σ0) := rfl
example : (evalExpr 9 (denoteT eAnd)).run.run σ0 = (.ok (.bool false), σ0) := rfl
example : (evalExpr 4 (denoteT eZero)).run.run σ0 =
    (.error (.diag { kind := .runtime, line := 1, col := 3, msg := .divZero,
                     trace := [{ name := "Program".toList, line := 1, col := 3 }] }), σ0) := rfl
example : (evalExpr 4 (denoteT eType)).run.run σ0 =
    (.error (.diag { kind := .runtime, line := 1, col := 6, msg := .typeMismatch,
                     trace := [{ name := "Program".toList, line := 1, col := 6 }] }), σ0) := rfl
example : ((evalExpr 9 (denoteT eOr)).run.run σ0).1 =
    .error (.diag { kind := .runtime, line := 1, col := 12, msg := .divZero,
                    trace := [{ name := "Program".toList, line := 1, col := 12 }] }) := rfl
-- the classes of the corollaries are inhabited
example : eLaw.intOnly = true ∧ eLaw.noReal = true := ⟨rfl, rfl⟩
example : eLaw.litsInRange := by simp only [eLaw, I, TExpr.litsInRange]; decide
example : intEval eLaw = .ok 7 := rfl
example : (TExpr.arith (tk .STAR 21) .mul (I 1 maxLong) (I 23 2)).ringOnly = true := rfl
example : mathEval (.arith (tk .STAR 21) .mul (I 1 maxLong) (I 23 2)) = 18446744073709551614 := rfl
example : evalT (.arith (tk .STAR 21) .mul (I 1 maxLong) (I 23 2)) = .ok (.int (-2)) := rfl
example : eOr.errSites = [(tk .OR 6, .typeMismatch), (tk .DIV 12, .typeMismatch), (tk .DIV 12, .divZero)] := rfl
-- the bridge: `1 + 2 * 3` as a `PExpr`
example : (ofP (.bin .add (.int 1) (.bin .mul (.int 2) (.int 3)))).map evalT = some (.ok (.int 7)) := rfl
-- `C02_text_value_full` instantiated: the text `1 DIV 0` parses to a tree whose evaluation is the division-by-zero
-- diagnostic at the `DIV` token (position (0,0): `render` produces position-free tokens)
example : ∃ f₀, ∀ f ≥ f₀, ∃ ast,
    (parseEval {} f).run.run ⟨render 0 (.bin .idiv (.int 1) (.int 0)) ++ [eofTok], []⟩ = (.ok ast, ⟨[eofTok], []⟩) ∧
    ∀ (σ : St) (fuel : Nat), HasScope σ → fuel > 3 →
      (evalExpr fuel ast).run.run σ = (.error (.diag (rtDiag σ 0 0 .divZero)), σ) :=
  C02_text_value_full {} (.bin .idiv (.int 1) (.int 0))
    ⟨by show ((1 : Nat) : Int) < two63; decide, by show ((0 : Nat) : Int) < two63; decide⟩
    (binOfP .idiv (.int (intT 1) 1) (.int (intT 0) 0)) rfl [eofTok] (StopsAt.eof 0 []) []
-- … and `"a" & "b" = "ab"` to TRUE
example : ∃ f₀, ∀ f ≥ f₀, ∃ ast,
    (parseEval {} f).run.run
      ⟨render 0 (.bin .eq (.bin .concat (.str "a".toList) (.str "b".toList)) (.str "ab".toList)) ++ [eofTok], []⟩
        = (.ok ast, ⟨[eofTok], []⟩) ∧
    ∀ (σ : St) (fuel : Nat), HasScope σ → fuel > 5 → (evalExpr fuel ast).run.run σ = (.ok (.bool true), σ) :=
  C02_text_value_full {} (.bin .eq (.bin .concat (.str "a".toList) (.str "b".toList)) (.str "ab".toList))
    ⟨⟨trivial, trivial⟩, trivial⟩
    (binOfP .eq (binOfP .concat (.str (strT "a".toList) "a".toList) (.str (strT "b".toList) "b".toList))
      (.str (strT "ab".toList) "ab".toList)) rfl [eofTok] (StopsAt.eof 0 []) []
-- TEST: the fuel bound is about the number of nodes: the tree `7 / 2` has size 3, fuel 1 runs out
example : eDiv.size = 3 := rfl
example : ((evalExpr 1 (denoteT eDiv)).run.run σ0).1 = .error .outOfFuel := rfl
end examples

end Pseudo
