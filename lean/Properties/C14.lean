import PseudoModel.FilesPure
/-!
# C14 — a random file is a stable, 1-based sequence of independent records
Model: the RANDOM part of `fstep`. Abstract specification: a list of record texts plus a cursor.
`abs h = (h.records, h.ptr)`; every operation on the handle commutes with the specification's operation.
(That a record text round-trips to the *value* is C13; that CLOSE/OPEN and a restart are the identity on the
record list is `C14_reopen`, which rests on `C13_file_roundtrip`.)
-/
namespace Pseudo

/-- the abstract random file -/
structure Seq where
  recs : List Str
  cur : Nat          -- 0-based cursor: address k ↔ cur = k - 1
deriving DecidableEq, Repr

def Seq.seek (q : Seq) (k : Int) : Option Seq := if 1 ≤ k ∧ k ≤ q.recs.length + 1 then some { q with cur := k.toNat - 1 } else none
def Seq.put (q : Seq) (r : Str) : Seq := if q.cur < q.recs.length then { q with recs := q.recs.set q.cur r } else { q with recs := q.recs ++ [r] }
def Seq.get (q : Seq) : Option Str := q.recs[q.cur]?

def absH (h : Handle) : Seq := ⟨h.records, h.ptr⟩

theorem handle_upd (hs : List Handle) (n : Str) (f : Handle → Handle) (hname : ∀ x, (f x).name = x.name) :
    (updHandles hs n f).find? (·.name == n) = (hs.find? (·.name == n)).map f := by
  unfold updHandles
  rw [List.find?_map]
  have hcomp : ((fun x : Handle => x.name == n) ∘ fun h => if (h.name == n) = true then f h else h) = (fun x => x.name == n) := by
    funext x
    simp only [Function.comp]
    split
    · rename_i hx; rw [hname]
    · rfl
  rw [hcomp]
  cases hfind : hs.find? (fun x => x.name == n) with
  | none => rfl
  | some y =>
    have hy : (y.name == n) = true := by simpa using List.find?_some hfind
    have hy' : y.name = n := by simpa using hy
    simp [hy']

/-- SEEK accepts exactly the addresses 1 … n+1 and moves only the cursor -/
theorem C14_seek_ok (s : FState) (n : Str) (h : Handle) (k : Int) (hh : s.handle n = some h) (hm : h.mode = .random)
    (h1 : 1 ≤ k) (h2 : k ≤ (h.records.length : Int) + 1) :
    ∃ s', fstep s (.seek n k) = .ok (s', .unit) ∧ (s'.handle n).map absH = (absH h).seek k ∧
      (absH h).seek k = some ⟨h.records, k.toNat - 1⟩ ∧ s'.fs = s.fs := by
  have hp : fpre s (.seek n k) = .ok () := by simp [fpre, hh, hm]
  have c1 : ¬ (k < 1) := by omega
  have c2 : ¬ (k.toNat > h.records.length + 1) := by omega
  have hs : (absH h).seek k = some ⟨h.records, k.toNat - 1⟩ := by
    unfold Seq.seek absH
    have : 1 ≤ k ∧ k ≤ (h.records.length : Int) + 1 := ⟨h1, h2⟩
    simp only [this, and_self, if_true]
  refine ⟨{ s with handles := updHandles s.handles n fun h => { h with ptr := k.toNat - 1 } }, ?_, ?_, hs, rfl⟩
  · simp only [fstep, hp, hh, c1, c2, if_false]
  · unfold FState.handle at *
    have hu := handle_upd s.handles n (fun h : Handle => { h with ptr := k.toNat - 1 }) (fun _ => rfl)
    dsimp only at hu ⊢
    rw [hu, hh, hs]
    rfl

theorem C14_seek_rejects (s : FState) (n : Str) (h : Handle) (k : Int) (hh : s.handle n = some h) (hm : h.mode = .random)
    (hk : k < 1 ∨ k > (h.records.length : Int) + 1) :
    fstep s (.seek n k) = .error .seekRange ∧ (absH h).seek k = none := by
  have hp : fpre s (.seek n k) = .ok () := by simp [fpre, hh, hm]
  constructor
  · simp only [fstep, hp, hh]
    by_cases c1 : k < 1
    · simp only [c1, if_true]
    · have c2 : k.toNat > h.records.length + 1 := by omega
      simp only [c1, c2, if_false, if_true]
  · unfold Seq.seek absH
    have : ¬ (1 ≤ k ∧ k ≤ (h.records.length : Int) + 1) := by omega
    simp only [this, if_false]

/-- PUTRECORD at address k ≤ n replaces record k, at n+1 appends; the cursor and the disk are untouched until close -/
theorem C14_put (s : FState) (n : Str) (h : Handle) (r : Str) (hh : s.handle n = some h) (hm : h.mode = .random) :
    ∃ s', fstep s (.put n r) = .ok (s', .unit) ∧ (s'.handle n).map absH = some ((absH h).put r) ∧ s'.fs = s.fs := by
  have hp : fpre s (.put n r) = .ok () := by simp [fpre, hh, hm]
  refine ⟨{ s with handles := updHandles s.handles n fun h =>
            { h with records := if h.ptr < h.records.length then h.records.set h.ptr r else h.records ++ [r], modified := true } }, ?_, ?_, rfl⟩
  · simp only [fstep, hp]
  · unfold FState.handle at *
    have hu := handle_upd s.handles n (fun h : Handle =>
            { h with records := if h.ptr < h.records.length then h.records.set h.ptr r else h.records ++ [r], modified := true }) (fun _ => rfl)
    dsimp only at hu ⊢
    rw [hu, hh]
    simp only [Option.map_some, absH, Seq.put]
    by_cases hc : h.ptr < h.records.length <;> simp [hc]

/-- every other record is unchanged by a PUT -/
theorem C14_put_others (q : Seq) (r : Str) (j : Nat) (hj : j ≠ q.cur) (hjn : j < q.recs.length) :
    (q.put r).recs[j]? = q.recs[j]? := by
  unfold Seq.put
  split
  · simp [List.getElem?_set_ne (Ne.symm hj)]
  · simp [List.getElem?_append_left hjn]

theorem C14_put_here (q : Seq) (r : Str) (hc : q.cur ≤ q.recs.length) : (q.put r).recs[q.cur]? = some r := by
  unfold Seq.put
  split
  · rename_i h; simp [h]
  · have : q.cur = q.recs.length := by omega
    simp [this]

/-- GETRECORD returns the record under the cursor; at n+1 (or on an empty file) it is an error; nothing changes -/
theorem C14_get (s : FState) (n : Str) (h : Handle) (hh : s.handle n = some h) (hm : h.mode = .random) :
    (∀ r, (absH h).get = some r → fstep s (.get n) = .ok (s, .record r)) ∧
    ((absH h).get = none → fstep s (.get n) = .error .recordRead) := by
  have hp : fpre s (.get n) = .ok () := by simp [fpre, hh, hm]
  simp only [Seq.get, absH]
  constructor
  · intro r hr; simp only [fstep, hp, hh, hr]
  · intro hr; simp only [fstep, hp, hh, hr]

theorem C14_get_at_end (q : Seq) (h : q.cur = q.recs.length) : q.get = none := by
  simp [Seq.get, h]

/-- run a history of operations on the abstract sequence -/
inductive SOp | seek (k : Int) | put (r : Str) | get
def Seq.run (q : Seq) : List SOp → Seq × List (Option Str)
  | [] => (q, [])
  | .seek k :: ops => match q.seek k with
    | some q' => let (qf, out) := q'.run ops; (qf, some [] :: out)
    | none => let (qf, out) := q.run ops; (qf, none :: out)
  | .put r :: ops => let (qf, out) := (q.put r).run ops; (qf, some [] :: out)
  | .get :: ops => let (qf, out) := q.run ops; (qf, q.get :: out)

/-- the cursor of the abstract sequence never leaves 0 … n (so PUT only ever replaces or appends) -/
theorem C14_cursor_inv (q : Seq) (ops : List SOp) (h : q.cur ≤ q.recs.length) : (q.run ops).1.cur ≤ (q.run ops).1.recs.length := by
  induction ops generalizing q with
  | nil => simpa [Seq.run]
  | cons op ops ih =>
    cases op with
    | seek k =>
      simp only [Seq.run]
      cases hs : q.seek k with
      | none => simp only; exact ih q h
      | some q' =>
        simp only
        apply ih
        unfold Seq.seek at hs
        split at hs
        · cases hs; simp; omega
        · simp at hs
    | put r =>
      simp only [Seq.run]
      apply ih
      unfold Seq.put
      split <;> simp <;> omega
    | get => simp only [Seq.run]; exact ih q h

/-! non-vacuity -/
example : (Seq.mk ["a".toList] 0).seek 2 = some ⟨["a".toList], 1⟩ := by decide
example : (Seq.mk ["a".toList] 0).seek 3 = none := by decide
example : ((Seq.mk ["a".toList] 1).put "b".toList).recs = ["a".toList, "b".toList] := by decide

end Pseudo
