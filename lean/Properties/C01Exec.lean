import Properties.C01
import PseudoProofs.NoCrashAll
import PseudoProofs.NoCrashRepl
import PseudoProofs.NoCrashCounter
import PseudoProofs.NoCrashGen
import PseudoProofs.NoCrashGen2
/-!
# C01, evaluation stage — crash points: which are unreachable, what was found, and the sublanguage theorem

`C01_no_crash_statement` (`Properties/C01.lean`) says that no run of `runFile` reports a `CrashPoint`.

## History of the counterexamples (program texts and kernel evaluations: `PseudoProofs/NoCrashCounter.lean`)

* Three programs reached `danglingLoc`, `enumIndexOOB` and `other` in the model AND ended abnormally in the sanitizer build of the
  C++ (heap-use-after-free, heap-buffer-overflow, null reference): a *global* record type whose member type name was resolved,
  when a variable of the record type was declared, to a *procedure-local* TYPE, the value then travelling through a BYREF parameter
  into a procedure where that name meant something else. They were REPAIRED in the C++ (85c4143: the member types of a global
  record type are looked up globally) and the model mirrors the repair (`typeScopeAct`, `Act.typeGlobal`): the three programs now
  end in a `notDefined` diagnostic — `C01_dangling_refused`, `C01_enum_refused`, `C01_ptr_refused`.
* A procedure-local TYPE shadowing a global TYPE crashed the model only; repaired in the model (8338e5c) — `C01_shadow_refused`.
* STILL OPEN, MODEL ONLY: `C01_counterexample_model_recordCopy`. Record assignment replaces the whole record value in the model
  (`writeLoc t h.loc v'`); the C++ copies member by member into the existing members (`Context::copyVariableData`, `Array::copyData`
  up to the shorter length). With an array member whose bounds depend on a variable (two records of one type with arrays of
  different length) the model loses the cell a pointer points to (`danglingLoc`), **the real interpreter does not crash there**
  (it prints 42). Hence `C01_statement_false_model_only : ¬ C01_no_crash_statement` is a statement about the MODEL's infidelity,
  not about the interpreter.
* The converse infidelity: `C01.progNestedCopy` (a pointer — or a BYREF alias — to a member of a NESTED record, then assignment of the
  whole outer record) runs fine in the model (`NC.nestedCopy_model`: it prints 5 and 0) but is a heap-use-after-free in the
  sanitizer build of the C++ at 85c4143 (`AccessNode::evaluate`; BYREF variant: `AssignNode::evaluate`): the C++ replaces the
  nested record object where the model keeps the location. This is a crash of the interpreter that the model has no crash point for.

## What is proved (second half of this file)

For the **full language**: the crash point `noActivation` is unreachable — `C01_no_noActivation` (every statement, from every state
with a non-empty stack whose bottom activation is not a record's context), `C01_no_noActivation_file` and
`C01_no_noActivation_repl` (`(runFile …).crash ≠ some .noActivation`, `(repl …).crash ≠ some .noActivation`, for ALL inputs); likewise
`badAlias` (never raised at all) and `localCompositeType` (`C01_no_badAlias`, `C01_no_localCompositeType`): `C01_crash_points_classified`.
Of the other three, `danglingLoc` is reached by the model-only program above; for `enumIndexOOB` and `other` no program is known any more.

For the sublanguage `NC.okStmt` / `NC.okBlock` (`PseudoProofs/NoCrashDefs.lean`): **no TYPE statement anywhere** (no user-defined
enum / pointer / record types) — everything else is in: procedures, functions, BYVAL and BYREF parameters (aliases of
variables and array elements of the callers), recursion, arrays of any dimension, whole-array assignment, FOR / WHILE / REPEAT / CASE / IF, CONSTANT,
INPUT, all file statements incl. random files, all built-in functions, and every expression form (pointer expressions
`^x`, `p^`, `r.f` are in the sublanguage too: they end in a diagnostic) —

* `C01_eval_no_crash_partial`: from every state satisfying the invariant `NC.WF`, every one of the 25 functions of the evaluator's
  mutual block, at every fuel, ends in a well-formed state that extends the start state (`NC.Ext`) and raises no crash point
  (`NC.AllTri`: one Hoare triple per function, with the postconditions on returned holders / values / slots that the
  induction needs); `C01_exec_no_crash_partial` is the instance for `execStmt` in the form asked for;
* `C01_wf_init`: `St.init` satisfies the invariant;
* `C01_no_crash_partial_file`: `runFile` never reports a crash point on a program text whose parse is in the sublanguage
  (`NC.OkSrc`, decidable: `NC.okSrcB`);
* `C01_no_crash_partial_repl`: a whole REPL session never reports a crash point when every entry and every RUNFILE'd file is in the
  sublanguage (`NC.ReplOk`, decidable);
* crash-site lemmas usable outside the sublanguage: `C01_readLoc_valid`, `C01_writeLoc_valid` (`ValidLoc` = `NC.ReadsIn`),
  `NC.C01_fres_shape`, `NC.C01_builtin_total`, `NC.setPath_of_getPath`, `NC.lin_bound` (in `PseudoProofs/NoCrashPure.lean`, `NoCrashSteps2.lean`).

## What is missing for a larger sublanguage

* enum / pointer types defined at top level: the value predicate `NC.simple` has to become state-dependent (an enum index below the
  size of its visible definition; a pointer target that is readable while its activation is live), monotone under `NC.Ext`.
* record types: additionally "the type name determines the shape" — true only for record bodies whose array bounds are literals
  (the remaining model-only counterexample violates exactly this).
-/
namespace Pseudo

/-- formerly `danglingLoc` (and a use-after-free of the C++): now a `notDefined` diagnostic in model and C++ -/
theorem C01_dangling_refused :
    (runFile {} C01.progDangling.toList [] []).crash = none ∧ (runFile {} C01.progDangling.toList [] []).exitCode = 1 :=
  NC.cx_dangling_refused

/-- formerly `enumIndexOOB` (and a heap-buffer-overflow of the C++): now a `notDefined` diagnostic -/
theorem C01_enum_refused :
    (runFile {} C01.progEnum.toList [] []).crash = none ∧ (runFile {} C01.progEnum.toList [] []).exitCode = 1 :=
  NC.cx_enum_refused

/-- formerly `other` (`ptrDefOf pn = none` in `ptrAssign`; a null reference of the C++): now a `notDefined` diagnostic -/
theorem C01_ptr_refused :
    (runFile {} C01.progPtr.toList [] []).crash = none ∧ (runFile {} C01.progPtr.toList [] []).exitCode = 1 :=
  NC.cx_ptr_refused

/-- shadowing a global TYPE in a procedure is refused (model repaired, as the C++) -/
theorem C01_shadow_refused :
    (runFile {} C01.progShadow.toList [] []).crash = none ∧ (runFile {} C01.progShadow.toList [] []).exitCode = 1 :=
  NC.cx_shadow_refused

/-- MODEL ONLY (the real interpreter prints 42 and exits normally): record assignment between records with array members of
    different length -/
theorem C01_counterexample_model_recordCopy :
    (runFile {} C01.progRecordCopy.toList [] []).crash = some .danglingLoc := NC.cx_recordCopy

/-- **The full statement of C01 does not hold for the MODEL** — only because of the model-only divergence above
    (whole-value record assignment); the real interpreter does not crash on that program. -/
theorem C01_statement_false_model_only : ¬ C01_no_crash_statement := by
  intro h
  have := h {} C01.progRecordCopy.toList [] []
  rw [C01_counterexample_model_recordCopy] at this
  cases this

/-- the converse divergence: the model runs `C01.progNestedCopy` to the end (the C++ at 85c4143 is a use-after-free there) -/
theorem C01_nestedCopy_model : (runFile {} C01.progNestedCopy.toList [] []).out = "5\n0\n".toList := NC.nestedCopy_model

/-! ## the crash point `noActivation` is unreachable — full language -/

/-- **Full language.** From every state whose activation stack is non-empty with a non-composite bottom activation
    (`NC.StackGood`; `St.init` is one), no statement raises `.crash .noActivation`, and the stack keeps that property
    (`PseudoProofs/NoCrashGen.lean`: `NC.allG` has the same for all 25 functions of the mutual block). -/
theorem C01_no_noActivation (fuel : Nat) (s : Stmt) (σ : St) (h : NC.StackGood σ) :
    NC.StackGood ((execStmt fuel s).run.run σ).2 ∧
    ∀ e, ((execStmt fuel s).run.run σ).1 = .error e → e ≠ .crash .noActivation :=
  NC.C01_no_noActivation fuel s σ h

/-- **Full language, file mode, all inputs**: a run never reports `noActivation`. -/
theorem C01_no_noActivation_file (cfg : Cfg) (content : Str) (fs : List (Str × FsNode)) (stdin : Str) :
    (runFile cfg content fs stdin).crash ≠ some .noActivation :=
  NC.C01_no_noActivation_file cfg content fs stdin

/-- **Full language, REPL, all inputs**: a session never reports `noActivation`. -/
theorem C01_no_noActivation_repl (cfg : Cfg) (fs : List (Str × FsNode)) (stdin : Str) :
    (repl cfg fs stdin).crash ≠ some .noActivation :=
  NC.C01_no_noActivation_repl cfg fs stdin

example : NC.StackGood (St.init [] [] false false) := ⟨mkGlobal, rfl, rfl⟩

/-! ## the crash points `badAlias` and `localCompositeType` are unreachable — full language -/

/-- **Full language.** `badAlias` is never raised, from any state whatsoever. -/
theorem C01_no_badAlias (fuel : Nat) (s : Stmt) (σ : St) :
    ∀ e, ((execStmt fuel s).run.run σ).1 = .error e → e ≠ .crash .badAlias :=
  NC.C01_no_badAlias fuel s σ

/-- **Full language.** `localCompositeType` (`defaultVal` of a record type whose definition is not visible) is unreachable:
    a record type is only ever instantiated in a state in which `getType` has just found its definition, and definitions
    only grow (`NC.R2`, `NC.Visible`, `NC.allB` in `PseudoProofs/NoCrashGen2.lean`). -/
theorem C01_no_localCompositeType (fuel : Nat) (s : Stmt) (σ : St) (h : NC.StackGood σ) :
    ∀ e, ((execStmt fuel s).run.run σ).1 = .error e → e ≠ .crash .localCompositeType :=
  NC.C01_no_localCompositeType fuel s σ h

/-- **Crash points, full language, all inputs** (file mode; the REPL versions are `NC.C01_no_noActivation_repl`,
    `NC.C01_no_badAlias_repl`, `NC.C01_no_localCompositeType_repl`): three are unreachable; `danglingLoc` is reached by the
    model-only program `C01.progRecordCopy`. For `enumIndexOOB` and `other` neither a proof nor a program is known. -/
theorem C01_crash_points_classified :
    (∀ cfg content fs stdin, (runFile cfg content fs stdin).crash ≠ some .noActivation) ∧
    (∀ cfg content fs stdin, (runFile cfg content fs stdin).crash ≠ some .badAlias) ∧
    (∀ cfg content fs stdin, (runFile cfg content fs stdin).crash ≠ some .localCompositeType) ∧
    (∃ content, (runFile {} content [] []).crash = some .danglingLoc) :=
  ⟨NC.C01_no_noActivation_file, NC.C01_no_badAlias_file, NC.C01_no_localCompositeType_file, ⟨_, NC.cx_recordCopy⟩⟩

/-! ## the sublanguage theorem -/

/-- **Partial result, evaluator (all 25 functions).** On the sublanguage, from well-formed states, at every fuel: the final
    state is well-formed and extends the start state, an exception is never a crash point. -/
theorem C01_eval_no_crash_partial : ∀ fuel, NC.AllTri fuel := NC.allTri

/-- **Partial result, `execStmt`.** `WF σ → ∀ fuel s` in the sublanguage: `WF` is preserved and no exception is a crash point. -/
theorem C01_exec_no_crash_partial (fuel : Nat) (s : Stmt) (hs : NC.okStmt s = true) (σ : St) (hW : NC.WF σ) :
    NC.WF ((execStmt fuel s).run.run σ).2 ∧ ∀ e, ((execStmt fuel s).run.run σ).1 = .error e → ∀ p, e ≠ .crash p := by
  obtain ⟨h1, _, h3⟩ := (NC.allTri fuel).execStmt s hs σ hW trivial
  refine ⟨h1, fun e he => ?_⟩
  rw [he] at h3
  exact h3.1

/-- the same for a block -/
theorem C01_block_no_crash_partial (fuel : Nat) (b : Block) (hb : NC.okBlock b = true) (σ : St) (hW : NC.WF σ) :
    NC.WF ((runBlock fuel b).run.run σ).2 ∧ ∀ e, ((runBlock fuel b).run.run σ).1 = .error e → ∀ p, e ≠ .crash p := by
  obtain ⟨h1, _, h3⟩ := (NC.allTri fuel).runBlock b hb σ hW trivial
  refine ⟨h1, fun e he => ?_⟩
  rw [he] at h3
  exact h3.1

/-- the initial state satisfies the invariant -/
theorem C01_wf_init (fs : List (Str × FsNode)) (stdin : Str) (p r : Bool) : NC.WF (St.init fs stdin p r) := NC.WF.init fs stdin p r

/-- **Partial result, file mode.** A program whose parse is in the sublanguage never ends in a crash point —
    for every configuration, file system, input and fuel. -/
theorem C01_no_crash_partial_file (cfg : Cfg) (content : Str) (fs : List (Str × FsNode)) (stdin : Str)
    (h : NC.OkSrc cfg (content ++ ['\n'])) : (runFile cfg content fs stdin).crash = none :=
  NC.runFile_ok NC.allTri cfg content h fs stdin

/-- **Partial result, REPL.** A session all of whose entries and RUNFILE'd files are in the sublanguage never ends in a crash point. -/
theorem C01_no_crash_partial_repl (cfg : Cfg) (fs : List (Str × FsNode)) (stdin : Str)
    (h : NC.ReplOk cfg (stdin.length + 2) true (NC.replInit cfg fs stdin)) : (repl cfg fs stdin).crash = none :=
  NC.repl_ok NC.allTri cfg fs stdin h

/-- `readLoc` at a valid location returns the value there and changes nothing (no `danglingLoc`) -/
theorem C01_readLoc_valid (σ : St) (l : Loc) (v : Val) (h : NC.ReadsIn σ.acts l v) : (readLoc l).run.run σ = (.ok v, σ) := by
  have := NC.ro_readLoc h
  unfold NC.RO at this
  rcases hr : (readLoc l).run.run σ with ⟨r, σ'⟩
  rw [hr] at this
  obtain ⟨rfl, h2⟩ := this
  cases r with
  | ok a => dsimp only at h2; rw [h2]
  | error e =>
    exfalso
    unfold readLoc at hr
    obtain ⟨a, s, h1, h2', h3⟩ := h
    have hf : (findAct l.act).run.run σ' = (.ok (some a), σ') := by
      show (Except.ok (σ'.acts.find? (·.id == l.act)), σ') = _
      rw [h1]
    rw [run_bind_ok _ _ _ _ _ hf] at hr
    dsimp only at hr
    rw [h2'] at hr; dsimp only at hr
    rw [h3] at hr
    cases hr

/-- `writeLoc` at a valid location never reaches `danglingLoc` (any value, any state): it stores or refuses a constant -/
theorem C01_writeLoc_valid (σ : St) (t : Tok) (l : Loc) (old v : Val) (h : NC.ReadsIn σ.acts l old) :
    ∀ e, ((writeLoc t l v).run.run σ).1 = .error e → ∃ d, e = .diag d := by
  obtain ⟨a, s, h1, h2, h3⟩ := h
  obtain ⟨nv, hnv⟩ := NC.setPath_of_getPath _ _ _ v h3
  have hf : (findAct l.act).run.run σ = (.ok (some a), σ) := by
    show (Except.ok (σ.acts.find? (·.id == l.act)), σ) = _
    rw [h1]
  unfold writeLoc
  rw [run_bind_ok _ _ _ _ _ hf]
  dsimp only
  rw [h2]; dsimp only
  split
  · obtain ⟨d, hd, _⟩ := rtErr_run (α := Unit) t .constAssign σ
    rw [hd]; intro e he; cases he; exact ⟨d, rfl⟩
  · rw [hnv]; intro e he; cases he

/-! ### non-vacuity -/

theorem C01.progOk_ok : NC.OkSrc {} (C01.progOk.toList ++ ['\n']) := NC.progOk_ok

/-- the theorem applies to it (for every file system and input), and the program does run: -/
example (fs : List (Str × FsNode)) (stdin : Str) : (runFile {} C01.progOk.toList fs stdin).crash = none :=
  C01_no_crash_partial_file {} _ fs stdin C01.progOk_ok
example : (runFile {} C01.progOk.toList [] "abc\n".toList).out = "9\n14\n3\n".toList := NC.progOk_runs

/-- the counterexample programs are outside the sublanguage -/
example : ¬ NC.OkSrc {} (C01.progEnum.toList ++ ['\n']) := NC.progEnum_not_ok

/-- a REPL session in the sublanguage -/
example : (repl {} [] "x <- 2\nOUTPUT x + 1\n".toList).crash = none :=
  C01_no_crash_partial_repl {} [] _ (by decide +kernel)

example : NC.WF (St.init [] [] false false) := C01_wf_init _ _ _ _

end Pseudo

