import Properties.C04Exec
import PseudoProofs.NoCrashLRet
/-!
# C04: the RETURN signal never escapes a call; a function call yields the value of the RETURN it executed

`Properties/C04Exec.lean` (`C04_exec_function_result`, `C04_exec_missing_return`) takes the facts about the final state
of the body's run as hypotheses.  Here they are proved, for the full language, from the RETURN protocol of
`PseudoProofs/NoCrashLRet.lean` (`allSP`, `fun_body_ret`).
-/
namespace Pseudo.C04Return
open Pseudo Pseudo.NL

/-! ## 1. the functions that do not execute statements in their own activation never end with `Stop.ret` -/

/-- one field per function of the mutual block that is not a statement executor: flag `false` = `.ret` is not raised -/
structure AllNE (f : Nat) : Prop where
  defaultVal : ∀ t ty, SP false (defaultVal f t ty)
  defaultCells : ∀ t ty n acc, SP false (defaultCells f t ty n acc)
  evalArgs : ∀ es acc, SP false (evalArgs f es acc)
  evalIndices : ∀ es dims acc, SP false (evalIndices f es dims acc)
  resolveRef : ∀ r, SP false (resolveRef f r)
  callFun : ∀ t args, SP false (callFun f t args)
  bindParams : ∀ t ps es vs acc, SP false (bindParams f t ps es vs acc)
  evalExpr : ∀ e, SP false (evalExpr f e)
  execAssign : ∀ t r rhs, SP false (execAssign f t r rhs)
  caseMatch : ∀ v cl, SP false (caseMatch f v cl)
  callProc : ∀ t name args, SP false (callProc f t name args)
  resolveParams : ∀ ps acc, SP false (resolveParams f ps acc)
  evalBounds : ∀ bs acc, SP false (evalBounds f bs acc)
  declareVars : ∀ t ids ty, SP false (declareVars f t ids ty)
  declareArrs : ∀ t ids ty dims, SP false (declareArrs f t ids ty dims)
  outputAll : ∀ es, SP false (outputAll f es)
  fileName : ∀ t e, SP false (fileName f t e)

set_option hygiene false in
macro_rules | `(tactic| sp_ih) => `(tactic| first
  | apply ihn.evalExpr | apply ihn.resolveRef | apply ihn.evalArgs | apply ihn.evalIndices | apply ihn.callFun
  | apply ihn.bindParams | apply ihn.execAssign | apply ihn.caseMatch
  | apply ihn.callProc | apply ihn.resolveParams | apply ihn.evalBounds | apply ihn.declareVars | apply ihn.declareArrs
  | apply ihn.outputAll | apply ihn.fileName | apply ihn.defaultVal | apply ihn.defaultCells
  | apply (allSP _).runBlock)

theorem AllNE.zero : AllNE 0 where
  defaultVal _ _ := by rw [Pseudo.defaultVal.eq_def]; dsimp only; sp_auto
  defaultCells _ _ _ _ := by rw [Pseudo.defaultCells.eq_def]; dsimp only; sp_auto
  evalArgs _ _ := by rw [Pseudo.evalArgs.eq_def]; dsimp only; sp_auto
  evalIndices _ _ _ := by rw [Pseudo.evalIndices.eq_def]; dsimp only; sp_auto
  resolveRef _ := by rw [Pseudo.resolveRef.eq_def]; dsimp only; sp_auto
  callFun _ _ := by rw [Pseudo.callFun.eq_def]; dsimp only; sp_auto
  bindParams _ _ _ _ _ := by rw [Pseudo.bindParams.eq_def]; dsimp only; sp_auto
  evalExpr _ := by rw [Pseudo.evalExpr.eq_def]; dsimp only; sp_auto
  execAssign _ _ _ := by rw [Pseudo.execAssign.eq_def]; dsimp only; sp_auto
  caseMatch _ _ := by rw [Pseudo.caseMatch.eq_def]; dsimp only; sp_auto
  callProc _ _ _ := by rw [Pseudo.callProc.eq_def]; dsimp only; sp_auto
  resolveParams _ _ := by rw [Pseudo.resolveParams.eq_def]; dsimp only; sp_auto
  evalBounds _ _ := by rw [Pseudo.evalBounds.eq_def]; dsimp only; sp_auto
  declareVars _ _ _ := by rw [Pseudo.declareVars.eq_def]; dsimp only; sp_auto
  declareArrs _ _ _ _ := by rw [Pseudo.declareArrs.eq_def]; dsimp only; sp_auto
  outputAll _ := by rw [Pseudo.outputAll.eq_def]; dsimp only; sp_auto
  fileName _ _ := by rw [Pseudo.fileName.eq_def]; dsimp only; sp_auto

section steps
variable {f : Nat}

theorem stepNE_defaultVal (_ : AllNE f) : ∀ t ty, SP false (defaultVal (f+1) t ty) := by
  intro t ty; sp_fn defaultVal
theorem stepNE_defaultCells (ihn : AllNE f) : ∀ t ty n acc, SP false (defaultCells (f+1) t ty n acc) := by
  intro t ty n acc; sp_fn defaultCells
theorem stepNE_evalArgs (ihn : AllNE f) : ∀ es acc, SP false (evalArgs (f+1) es acc) := by
  intro es acc; sp_fn evalArgs
theorem stepNE_evalIndices (ihn : AllNE f) : ∀ es dims acc, SP false (evalIndices (f+1) es dims acc) := by
  intro es dims acc; sp_fn evalIndices
theorem stepNE_resolveRef (ihn : AllNE f) : ∀ r, SP false (resolveRef (f+1) r) := by
  intro r; sp_fn resolveRef
theorem stepNE_callFun (ihn : AllNE f) : ∀ t args, SP false (callFun (f+1) t args) := by
  intro t args; sp_fn callFun
theorem stepNE_bindParams (ihn : AllNE f) : ∀ t ps es vs acc, SP false (bindParams (f+1) t ps es vs acc) := by
  intro t ps es vs acc; sp_fn bindParams
theorem stepNE_evalExpr (ihn : AllNE f) : ∀ e, SP false (evalExpr (f+1) e) := by
  intro e; sp_fn evalExpr
theorem stepNE_execAssign (ihn : AllNE f) : ∀ t r rhs, SP false (execAssign (f+1) t r rhs) := by
  intro t r rhs; sp_fn execAssign
theorem stepNE_caseMatch (ihn : AllNE f) : ∀ v cl, SP false (caseMatch (f+1) v cl) := by
  intro v cl; sp_fn caseMatch
theorem stepNE_callProc (ihn : AllNE f) : ∀ t name args, SP false (callProc (f+1) t name args) := by
  intro t name args; sp_fn callProc
theorem stepNE_resolveParams (ihn : AllNE f) : ∀ ps acc, SP false (resolveParams (f+1) ps acc) := by
  intro ps acc; sp_fn resolveParams
theorem stepNE_evalBounds (ihn : AllNE f) : ∀ bs acc, SP false (evalBounds (f+1) bs acc) := by
  intro bs acc; sp_fn evalBounds
theorem stepNE_declareVars (ihn : AllNE f) : ∀ t ids ty, SP false (declareVars (f+1) t ids ty) := by
  intro t ids ty; sp_fn declareVars
theorem stepNE_declareArrs (ihn : AllNE f) : ∀ t ids ty dims, SP false (declareArrs (f+1) t ids ty dims) := by
  intro t ids ty dims; sp_fn declareArrs
theorem stepNE_outputAll (ihn : AllNE f) : ∀ es, SP false (outputAll (f+1) es) := by
  intro es; sp_fn outputAll
theorem stepNE_fileName (ihn : AllNE f) : ∀ t e, SP false (fileName (f+1) t e) := by
  intro t e; sp_fn fileName

theorem AllNE.succ (ihn : AllNE f) : AllNE (f + 1) where
  defaultVal := stepNE_defaultVal ihn
  defaultCells := stepNE_defaultCells ihn
  evalArgs := stepNE_evalArgs ihn
  evalIndices := stepNE_evalIndices ihn
  resolveRef := stepNE_resolveRef ihn
  callFun := stepNE_callFun ihn
  bindParams := stepNE_bindParams ihn
  evalExpr := stepNE_evalExpr ihn
  execAssign := stepNE_execAssign ihn
  caseMatch := stepNE_caseMatch ihn
  callProc := stepNE_callProc ihn
  resolveParams := stepNE_resolveParams ihn
  evalBounds := stepNE_evalBounds ihn
  declareVars := stepNE_declareVars ihn
  declareArrs := stepNE_declareArrs ihn
  outputAll := stepNE_outputAll ihn
  fileName := stepNE_fileName ihn

end steps

/-- the expression-level functions of the evaluator, at every fuel, never raise `Stop.ret` -/
theorem allNE : ∀ fuel, AllNE fuel
  | 0 => AllNE.zero
  | f + 1 => (allNE f).succ

/-! ## 2. where a `Stop.ret` comes from: the state in which a run ends with the signal is the state in which a RETURN
statement raised it (nothing between the RETURN and the handler in `callFun` changes the state) -/

/-- `σ'` is the state in which some `RETURN e` statement ended with the signal -/
def Orig (σ' : St) : Prop := ∃ f t e σ, (execStmt (f+1) (.ret t e)).run.run σ = (.error .ret, σ')

structure RO {α : Type} (m : M α) : Prop where
  run : ∀ σ σ', m.run.run σ = (.error .ret, σ') → Orig σ'

section combinators
variable {α β : Type}

theorem RO.of_SP {m : M α} (h : SP false m) : RO m :=
  ⟨fun σ σ' hr => absurd (by rw [hr]; rfl) (h.run σ).ne_ret⟩

theorem RO.bind {m : M α} {f : α → M β} (hm : RO m) (hf : ∀ a, RO (f a)) : RO (m >>= f) := by
  constructor
  intro σ σ' hr
  rcases h : m.run.run σ with ⟨e | a, σ1⟩
  · rw [run_bind_err m f σ σ1 e h] at hr
    cases hr
    exact hm.run σ σ' h
  · rw [run_bind_ok m f σ σ1 a h] at hr
    exact (hf a).run σ1 σ' hr

/-- a handler that passes `.ret` on unchanged -/
theorem RO.tryCatch {m : M α} {hd : Stop → M α} (hm : RO m)
    (hret : ∀ σ, (hd .ret).run.run σ = (.error .ret, σ)) (hsoft : ∀ e, e ≠ .ret → RO (hd e)) : RO (tryCatch m hd) := by
  constructor
  intro σ σ' hr
  rcases h : m.run.run σ with ⟨e | a, σ1⟩
  · rw [run_tryCatch_err m hd σ σ1 e h] at hr
    by_cases he : e = .ret
    · subst he
      rw [hret σ1] at hr
      cases hr
      exact hm.run σ σ' h
    · exact (hsoft e he).run σ1 σ' hr
  · rw [run_tryCatch_ok m hd σ σ1 a h] at hr
    cases hr

end combinators

/-- hypotheses of the induction -/
syntax "ro_ih" : tactic
macro_rules | `(tactic| ro_ih) => `(tactic| fail "ro_ih: no hypothesis")

/-- a computation built from the expression-level functions only -/
macro "ro_leaf" : tactic => `(tactic| (apply RO.of_SP; sp_auto; done))

macro "ro_step" : tactic => `(tactic| first
  | cases ‹_ + 1 = Nat.succ _›
  | exact (fun _ => rfl)
  | with_reducible ro_ih
  | with_reducible apply RO.bind
  | with_reducible apply RO.tryCatch
  | intro _
  | split
  | ro_leaf
  | dsimp only)

macro "ro_auto" : tactic => `(tactic| repeat' ro_step)

/-- one field per statement executor -/
structure AllRO (f : Nat) : Prop where
  runBlock : ∀ b, RO (runBlock f b)
  ifChain : ∀ t bs els, RO (ifChain f t bs els)
  caseClauses : ∀ v cls, RO (caseClauses f v cls)
  loopBody : ∀ b, RO (loopBody f b)
  whileLoop : ∀ t c b, RO (whileLoop f t c b)
  repeatLoop : ∀ t b c, RO (repeatLoop f t b c)
  forLoop : ∀ t it stop step b, RO (forLoop f t it stop step b)
  execStmt : ∀ s, RO (execStmt f s)

set_option hygiene false in
macro_rules | `(tactic| ro_ih) => `(tactic| first
  | apply ihr.runBlock | apply ihr.ifChain | apply ihr.caseClauses | apply ihr.loopBody | apply ihr.whileLoop
  | apply ihr.repeatLoop | apply ihr.forLoop | apply ihr.execStmt)

theorem AllRO.zero : AllRO 0 where
  runBlock _ := by rw [Pseudo.runBlock.eq_def]; dsimp only; ro_auto
  ifChain _ _ _ := by rw [Pseudo.ifChain.eq_def]; dsimp only; ro_auto
  caseClauses _ _ := by rw [Pseudo.caseClauses.eq_def]; dsimp only; ro_auto
  loopBody _ := by rw [Pseudo.loopBody.eq_def]; dsimp only; ro_auto
  whileLoop _ _ _ := by rw [Pseudo.whileLoop.eq_def]; dsimp only; ro_auto
  repeatLoop _ _ _ := by rw [Pseudo.repeatLoop.eq_def]; dsimp only; ro_auto
  forLoop _ _ _ _ _ := by rw [Pseudo.forLoop.eq_def]; dsimp only; ro_auto
  execStmt _ := by rw [Pseudo.execStmt.eq_def]; dsimp only; ro_auto

section rsteps
variable {f : Nat}
set_option linter.unusedVariables false

open Lean in
macro "ro_fn " id:ident : tactic =>
  `(tactic| (rw [$(mkIdent (id.getId ++ `eq_def)):ident]; try dsimp only
             ro_auto))

theorem stepRO_runBlock (ihr : AllRO f) : ∀ b, RO (runBlock (f+1) b) := by
  intro b; have ihn := allNE f; ro_fn runBlock
theorem stepRO_ifChain (ihr : AllRO f) : ∀ t bs els, RO (ifChain (f+1) t bs els) := by
  intro t bs els; have ihn := allNE f; ro_fn ifChain
theorem stepRO_caseClauses (ihr : AllRO f) : ∀ v cls, RO (caseClauses (f+1) v cls) := by
  intro v cls; have ihn := allNE f; ro_fn caseClauses
theorem stepRO_loopBody (ihr : AllRO f) : ∀ b, RO (loopBody (f+1) b) := by
  intro b; have ihn := allNE f; ro_fn loopBody
theorem stepRO_whileLoop (ihr : AllRO f) : ∀ t c b, RO (whileLoop (f+1) t c b) := by
  intro t c b; have ihn := allNE f; ro_fn whileLoop
theorem stepRO_repeatLoop (ihr : AllRO f) : ∀ t b c, RO (repeatLoop (f+1) t b c) := by
  intro t b c; have ihn := allNE f; ro_fn repeatLoop
theorem stepRO_forLoop (ihr : AllRO f) : ∀ t it stop step b, RO (forLoop (f+1) t it stop step b) := by
  intro t it stop step b; have ihn := allNE f; ro_fn forLoop

theorem stepRO_stmt_expr (ihr : AllRO f) e : RO (execStmt (f+1) (.expr e)) := by
  have ihn := allNE f; rw [Pseudo.execStmt.eq_def]; dsimp only; ro_auto
theorem stepRO_stmt_declare (ihr : AllRO f) t ns ty : RO (execStmt (f+1) (.declare t ns ty)) := by
  have ihn := allNE f; rw [Pseudo.execStmt.eq_def]; dsimp only; ro_auto
theorem stepRO_stmt_declareArr (ihr : AllRO f) t ns ty bs : RO (execStmt (f+1) (.declareArr t ns ty bs)) := by
  have ihn := allNE f; rw [Pseudo.execStmt.eq_def]; dsimp only; ro_auto
theorem stepRO_stmt_const (ihr : AllRO f) t n e : RO (execStmt (f+1) (.const t n e)) := by
  have ihn := allNE f; rw [Pseudo.execStmt.eq_def]; dsimp only; ro_auto
theorem stepRO_stmt_typeEnum (ihr : AllRO f) t n vs : RO (execStmt (f+1) (.typeEnum t n vs)) := by
  have ihn := allNE f; rw [Pseudo.execStmt.eq_def]; dsimp only; ro_auto
theorem stepRO_stmt_typePtr (ihr : AllRO f) t n tg : RO (execStmt (f+1) (.typePtr t n tg)) := by
  have ihn := allNE f; rw [Pseudo.execStmt.eq_def]; dsimp only; ro_auto
theorem stepRO_stmt_typeRec (ihr : AllRO f) t n b : RO (execStmt (f+1) (.typeRec t n b)) := by
  have ihn := allNE f; rw [Pseudo.execStmt.eq_def]; dsimp only; ro_auto
theorem stepRO_stmt_ifs (ihr : AllRO f) t bs els : RO (execStmt (f+1) (.ifs t bs els)) := by
  have ihn := allNE f; rw [Pseudo.execStmt.eq_def]; dsimp only; ro_auto
theorem stepRO_stmt_case (ihr : AllRO f) t sel cls : RO (execStmt (f+1) (.case t sel cls)) := by
  have ihn := allNE f; rw [Pseudo.execStmt.eq_def]; dsimp only; ro_auto
theorem stepRO_stmt_while (ihr : AllRO f) t c b : RO (execStmt (f+1) (.while t c b)) := by
  have ihn := allNE f; rw [Pseudo.execStmt.eq_def]; dsimp only; ro_auto
theorem stepRO_stmt_repeat (ihr : AllRO f) t b c : RO (execStmt (f+1) (.repeat t b c)) := by
  have ihn := allNE f; rw [Pseudo.execStmt.eq_def]; dsimp only; ro_auto
theorem stepRO_stmt_for (ihr : AllRO f) t it st sp step b : RO (execStmt (f+1) (.for t it st sp step b)) := by
  have ihn := allNE f; rw [Pseudo.execStmt.eq_def]; dsimp only; ro_auto
theorem stepRO_stmt_call (ihr : AllRO f) t n args : RO (execStmt (f+1) (.call t n args)) := by
  have ihn := allNE f; rw [Pseudo.execStmt.eq_def]; dsimp only; ro_auto
theorem stepRO_stmt_brk (ihr : AllRO f) t : RO (execStmt (f+1) (.brk t)) := by
  have ihn := allNE f; rw [Pseudo.execStmt.eq_def]; dsimp only; ro_auto
theorem stepRO_stmt_cont (ihr : AllRO f) t : RO (execStmt (f+1) (.cont t)) := by
  have ihn := allNE f; rw [Pseudo.execStmt.eq_def]; dsimp only; ro_auto
theorem stepRO_stmt_output (ihr : AllRO f) t es : RO (execStmt (f+1) (.output t es)) := by
  have ihn := allNE f; rw [Pseudo.execStmt.eq_def]; dsimp only; ro_auto
theorem stepRO_stmt_input (ihr : AllRO f) t r : RO (execStmt (f+1) (.input t r)) := by
  have ihn := allNE f; rw [Pseudo.execStmt.eq_def]; dsimp only; ro_auto
theorem stepRO_stmt_openFile (ihr : AllRO f) t fn m : RO (execStmt (f+1) (.openFile t fn m)) := by
  have ihn := allNE f; rw [Pseudo.execStmt.eq_def]; dsimp only; ro_auto
theorem stepRO_stmt_readFile (ihr : AllRO f) t fn id : RO (execStmt (f+1) (.readFile t fn id)) := by
  have ihn := allNE f; rw [Pseudo.execStmt.eq_def]; dsimp only; ro_auto
theorem stepRO_stmt_writeFile (ihr : AllRO f) t fn e : RO (execStmt (f+1) (.writeFile t fn e)) := by
  have ihn := allNE f; rw [Pseudo.execStmt.eq_def]; dsimp only; ro_auto
theorem stepRO_stmt_closeFile (ihr : AllRO f) t fn : RO (execStmt (f+1) (.closeFile t fn)) := by
  have ihn := allNE f; rw [Pseudo.execStmt.eq_def]; dsimp only; ro_auto
theorem stepRO_stmt_seek (ihr : AllRO f) t fn a : RO (execStmt (f+1) (.seek t fn a)) := by
  have ihn := allNE f; rw [Pseudo.execStmt.eq_def]; dsimp only; ro_auto
theorem stepRO_stmt_getRecord (ihr : AllRO f) t fn id : RO (execStmt (f+1) (.getRecord t fn id)) := by
  have ihn := allNE f; rw [Pseudo.execStmt.eq_def]; dsimp only; ro_auto
theorem stepRO_stmt_putRecord (ihr : AllRO f) t fn id : RO (execStmt (f+1) (.putRecord t fn id)) := by
  have ihn := allNE f; rw [Pseudo.execStmt.eq_def]; dsimp only; ro_auto
theorem stepRO_stmt_procDef (ihr : AllRO f) t n ps b : RO (execStmt (f+1) (.procDef t n ps b)) := by
  have ihn := allNE f; rw [Pseudo.execStmt.eq_def]; dsimp only; ro_auto
theorem stepRO_stmt_funDef (ihr : AllRO f) t n ps r b : RO (execStmt (f+1) (.funDef t n ps r b)) := by
  have ihn := allNE f; rw [Pseudo.execStmt.eq_def]; dsimp only; ro_auto

/-- `RETURN e` is the origin itself -/
theorem stepRO_stmt_ret (t : Tok) (e : Expr) : RO (execStmt (f+1) (.ret t e)) := ⟨fun σ σ' h => ⟨f, t, e, σ, h⟩⟩

theorem stepRO_execStmt (ihr : AllRO f) : ∀ s, RO (execStmt (f+1) s) := by
  intro s
  cases s with
  | ret t e => exact stepRO_stmt_ret t e
  | expr e => exact stepRO_stmt_expr ihr e
  | declare t ns ty => exact stepRO_stmt_declare ihr t ns ty
  | declareArr t ns ty bs => exact stepRO_stmt_declareArr ihr t ns ty bs
  | const t n e => exact stepRO_stmt_const ihr t n e
  | typeEnum t n vs => exact stepRO_stmt_typeEnum ihr t n vs
  | typePtr t n tg => exact stepRO_stmt_typePtr ihr t n tg
  | typeRec t n b => exact stepRO_stmt_typeRec ihr t n b
  | ifs t bs els => exact stepRO_stmt_ifs ihr t bs els
  | case t sel cls => exact stepRO_stmt_case ihr t sel cls
  | «while» t c b => exact stepRO_stmt_while ihr t c b
  | «repeat» t b c => exact stepRO_stmt_repeat ihr t b c
  | «for» t it st sp step b => exact stepRO_stmt_for ihr t it st sp step b
  | call t n args => exact stepRO_stmt_call ihr t n args
  | brk t => exact stepRO_stmt_brk ihr t
  | cont t => exact stepRO_stmt_cont ihr t
  | output t es => exact stepRO_stmt_output ihr t es
  | input t r => exact stepRO_stmt_input ihr t r
  | openFile t fn m => exact stepRO_stmt_openFile ihr t fn m
  | readFile t fn id => exact stepRO_stmt_readFile ihr t fn id
  | writeFile t fn e => exact stepRO_stmt_writeFile ihr t fn e
  | closeFile t fn => exact stepRO_stmt_closeFile ihr t fn
  | seek t fn a => exact stepRO_stmt_seek ihr t fn a
  | getRecord t fn id => exact stepRO_stmt_getRecord ihr t fn id
  | putRecord t fn id => exact stepRO_stmt_putRecord ihr t fn id
  | procDef t n ps b => exact stepRO_stmt_procDef ihr t n ps b
  | funDef t n ps r b => exact stepRO_stmt_funDef ihr t n ps r b

theorem AllRO.succ (ihr : AllRO f) : AllRO (f + 1) where
  runBlock := stepRO_runBlock ihr
  ifChain := stepRO_ifChain ihr
  caseClauses := stepRO_caseClauses ihr
  loopBody := stepRO_loopBody ihr
  whileLoop := stepRO_whileLoop ihr
  repeatLoop := stepRO_repeatLoop ihr
  forLoop := stepRO_forLoop ihr
  execStmt := stepRO_execStmt ihr

end rsteps

/-- every run of a statement executor that ends with `Stop.ret` ends in the state in which a RETURN statement raised it -/
theorem allRO : ∀ fuel, AllRO fuel
  | 0 => AllRO.zero
  | f + 1 => (allRO f).succ

end Pseudo.C04Return

namespace Pseudo.C04Return
open Pseudo ArrayLemmas CallLemmas

theorem ne_ret_of_SP {α : Type} {m : M α} (h : NL.SP false m) (σ : St) : (m.run.run σ).1 ≠ .error .ret := by
  intro hr
  exact (h.run σ).ne_ret (by rw [hr]; rfl)

/-- the run of a RETURN statement that ends with the signal, read backwards: the current activation `a` is a function's,
    the expression evaluated normally to `w` (state `σ1`), the cast of `w` to the declared return type has that type and
    has been recorded in `a` -/
theorem ret_stmt_run (f : Nat) (t : Tok) (e : Expr) (σ σ' : St)
    (h : (execStmt (f+1) (.ret t e)).run.run σ = (.error .ret, σ')) :
    ∃ a rest w σ1, σ.acts = a :: rest ∧ a.isFn = true ∧ σ.steps + 1 ≤ σ.stepLimit ∧
      (evalExpr f e).run.run (tickSt σ) = (.ok w, σ1) ∧ (implicitCast a.retTy w).ty = a.retTy ∧
      σ' = retSt σ1 a.id (implicitCast a.retTy w) := by
  by_cases hsteps : σ.steps + 1 ≤ σ.stepLimit
  · cases hacts : σ.acts with
    | nil =>
      rw [execStmt_ret, run_bind_ok _ _ _ _ _ (run_tick_ok t σ hsteps),
        run_bind_err _ _ _ _ _ (NL.run_curAct_nil (tickSt σ) hacts)] at h
      cases h
    | cons a rest =>
      cases hfn : a.isFn with
      | false =>
        rw [run_execStmt_ret_outside f t e σ a rest hsteps hacts hfn] at h
        cases h
      | true =>
        rcases he : (evalExpr f e).run.run (tickSt σ) with ⟨x | w, σ1⟩
        · rw [execStmt_ret, run_bind_ok _ _ _ _ _ (run_tick_ok t σ hsteps),
            run_bind_ok _ _ _ _ _ (ArrayLemmas.run_curAct_cons (tickSt σ) a rest hacts)] at h
          simp only [hfn, Bool.not_true, Bool.false_eq_true, if_false] at h
          rw [run_bind_err _ _ _ _ _ he] at h
          have hx : x = .ret := by cases h; rfl
          subst hx
          exact absurd (by rw [he]) (ne_ret_of_SP ((allNE f).evalExpr e) (tickSt σ))
        · rw [run_execStmt_ret f t e σ σ1 a rest w hsteps hacts hfn he] at h
          by_cases hty : (implicitCast a.retTy w).ty = a.retTy
          · rw [if_pos hty] at h
            cases h
            exact ⟨a, rest, w, σ1, rfl, hfn, hsteps, rfl, hty, rfl⟩
          · rw [if_neg hty] at h
            cases h
  · rw [execStmt_ret, run_bind_err _ _ _ _ _ (run_tick_budget t σ (by omega))] at h
    cases h

/-- recording a value in the activation with the id of the top activation changes the top activation only -/
theorem retSt_top (σ : St) (a : Act) (rest : List Act) (v : Val) (h : σ.acts = a :: rest) :
    (retSt σ a.id v).acts = { a with retVal := some v } :: rest := by
  simp only [retSt, updSt, h, updActs, beq_self_eq_true, if_true]

end Pseudo.C04Return

namespace Pseudo
open ArrayLemmas CallLemmas C04Return

/-- **C04 (the RETURN signal never escapes a call).**  For every fuel, every argument list and EVERY state (no
    well-formedness is needed): a procedure call, a function call (user-defined or built-in) and the evaluation of an
    expression never end with the signal `Stop.ret` — whatever RETURN statements the bodies contain and wherever the call
    is made (main program, procedure, function body, TYPE body).  In `callFun` the signal of the body is caught, in
    `callProc` and in a TYPE body a RETURN is the runtime error `returnOutside`. -/
theorem C04_ret_no_escape (fuel : Nat) (σ : St) :
    (∀ t name args, ((callProc fuel t name args).run.run σ).1 ≠ .error .ret) ∧
    (∀ t args, ((callFun fuel t args).run.run σ).1 ≠ .error .ret) ∧
    (∀ e, ((evalExpr fuel e).run.run σ).1 ≠ .error .ret) :=
  ⟨fun t name args => ne_ret_of_SP ((allNE fuel).callProc t name args) σ,
   fun t args => ne_ret_of_SP ((allNE fuel).callFun t args) σ,
   fun e => ne_ret_of_SP ((allNE fuel).evalExpr e) σ⟩

/-- … and so do all other functions of the evaluator that are not statement executors: argument lists, index lists,
    references, parameter binding, assignments, default values (TYPE bodies), CASE labels, declarations, OUTPUT lists,
    file names -/
theorem C04_ret_no_escape_all (fuel : Nat) (σ : St) :
    (∀ es acc, ((evalArgs fuel es acc).run.run σ).1 ≠ .error .ret) ∧
    (∀ es dims acc, ((evalIndices fuel es dims acc).run.run σ).1 ≠ .error .ret) ∧
    (∀ r, ((resolveRef fuel r).run.run σ).1 ≠ .error .ret) ∧
    (∀ t ps es vs acc, ((bindParams fuel t ps es vs acc).run.run σ).1 ≠ .error .ret) ∧
    (∀ t r rhs, ((execAssign fuel t r rhs).run.run σ).1 ≠ .error .ret) ∧
    (∀ t ty, ((defaultVal fuel t ty).run.run σ).1 ≠ .error .ret) ∧
    (∀ t ty n acc, ((defaultCells fuel t ty n acc).run.run σ).1 ≠ .error .ret) ∧
    (∀ v cl, ((caseMatch fuel v cl).run.run σ).1 ≠ .error .ret) ∧
    (∀ ps acc, ((resolveParams fuel ps acc).run.run σ).1 ≠ .error .ret) ∧
    (∀ bs acc, ((evalBounds fuel bs acc).run.run σ).1 ≠ .error .ret) ∧
    (∀ t ids ty, ((declareVars fuel t ids ty).run.run σ).1 ≠ .error .ret) ∧
    (∀ t ids ty dims, ((declareArrs fuel t ids ty dims).run.run σ).1 ≠ .error .ret) ∧
    (∀ es, ((outputAll fuel es).run.run σ).1 ≠ .error .ret) ∧
    (∀ t e, ((fileName fuel t e).run.run σ).1 ≠ .error .ret) :=
  ⟨fun _ _ => ne_ret_of_SP ((allNE fuel).evalArgs _ _) σ, fun _ _ _ => ne_ret_of_SP ((allNE fuel).evalIndices _ _ _) σ,
   fun _ => ne_ret_of_SP ((allNE fuel).resolveRef _) σ, fun _ _ _ _ _ => ne_ret_of_SP ((allNE fuel).bindParams _ _ _ _ _) σ,
   fun _ _ _ => ne_ret_of_SP ((allNE fuel).execAssign _ _ _) σ, fun _ _ => ne_ret_of_SP ((allNE fuel).defaultVal _ _) σ,
   fun _ _ _ _ => ne_ret_of_SP ((allNE fuel).defaultCells _ _ _ _) σ, fun _ _ => ne_ret_of_SP ((allNE fuel).caseMatch _ _) σ,
   fun _ _ => ne_ret_of_SP ((allNE fuel).resolveParams _ _) σ, fun _ _ => ne_ret_of_SP ((allNE fuel).evalBounds _ _) σ,
   fun _ _ _ => ne_ret_of_SP ((allNE fuel).declareVars _ _ _) σ, fun _ _ _ _ => ne_ret_of_SP ((allNE fuel).declareArrs _ _ _ _) σ,
   fun _ => ne_ret_of_SP ((allNE fuel).outputAll _) σ, fun _ _ => ne_ret_of_SP ((allNE fuel).fileName _ _) σ⟩

/-- **C04 (a block that ends with the RETURN signal ends in the state the RETURN statement left).**  Any block, any
    start state: if the run ends with `Stop.ret` in `σ4`, then some statement `RETURN e` was executed in a state `σa` whose
    current activation `a` is a function's, `e` evaluated normally to `w`, the cast of `w` to the return type of `a` has
    that type, and `σ4` is the state after the evaluation with that value recorded in `a` — nothing was executed between
    the RETURN and the end of the block's run (loops, IF, CASE pass the signal on unchanged). -/
theorem C04_ret_signal_origin (f : Nat) (body : Block) (σ σ4 : St)
    (h : (runBlock f body).run.run σ = (.error .ret, σ4)) :
    ∃ fr rt e σa a rest w σb, (execStmt (fr+1) (.ret rt e)).run.run σa = (.error .ret, σ4) ∧
      σa.acts = a :: rest ∧ a.isFn = true ∧ (evalExpr fr e).run.run (tickSt σa) = (.ok w, σb) ∧
      (implicitCast a.retTy w).ty = a.retTy ∧ σ4 = retSt σb a.id (implicitCast a.retTy w) := by
  obtain ⟨fr, rt, e, σa, hst⟩ := ((allRO f).runBlock body).run σ σ4 h
  obtain ⟨a, rest, w, σb, hacts, hfn, _, he, hty, hσ4⟩ := ret_stmt_run fr rt e σa σ4 hst
  exact ⟨fr, rt, e, σa, a, rest, w, σb, hst, hacts, hfn, he, hty, hσ4⟩

/-- **C04 (the body of a function call, without hypotheses about its run).**  The call prefix is as in
    `CallLemmas.run_callFun_user`: the arguments evaluate to `vals` (state `σ1`), they bind to `slots` (state `σ2`).
    The caller then notes the call position (`setSwitch`); the body runs in
    `calleeSt (funAct fd slots) (setSwitch σ2 cur.id t)`.
    * If its run ends with the RETURN signal in `σ4`, then the function's activation is on top of `σ4` and holds a value
      `v` of the declared return type, the call yields exactly `v`, and `v` is the cast to the declared return type of
      the value `w` of the expression of the RETURN statement that raised the signal, `σ4` being the state that
      statement left.
    * If its run ends normally in `σ4`, no value has been recorded and the call ends in `missingReturn`. -/
theorem C04_ret_body_outcome (f : Nat) (t : Tok) (args : List Expr) (σ σ1 σ2 : St) (fd : FunDef) (body : Block)
    (defTok : Tok) (vals : List Val) (cur : Act) (rest : List Act) (slots : List Slot)
    (hfd : funLookup σ t.val = some fd) (hbody : fd.body = .user body defTok)
    (hargs : (evalArgs f args []).run.run σ = (.ok vals, σ1))
    (hlen : vals.length = fd.params.length)
    (hdepth : σ1.depth + 1 ≤ σ1.depthLimit)
    (hcur : σ1.acts = cur :: rest)
    (hbind : (bindParams f t fd.params args vals []).run.run σ1 = (.ok slots, σ2)) (σ4 : St) :
    ((runBlock f body).run.run (calleeSt (funAct fd slots) (setSwitch σ2 cur.id t)) = (.error .ret, σ4) →
      ∃ a rest4 v, σ4.acts = a :: rest4 ∧ a.id = σ2.nextId ∧ a.retVal = some v ∧ v.ty = fd.ret ∧
        (callFun (f+1) t args).run.run σ = (.ok v, clearSwitch (decDepth (popSt σ4)) cur.id) ∧
        ∃ fr rt e σa σb w, (execStmt (fr+1) (.ret rt e)).run.run σa = (.error .ret, σ4) ∧
          (evalExpr fr e).run.run (tickSt σa) = (.ok w, σb) ∧ v = implicitCast fd.ret w ∧
          σ4 = retSt σb σ2.nextId v) ∧
    ((runBlock f body).run.run (calleeSt (funAct fd slots) (setSwitch σ2 cur.id t)) = (.ok ⟨⟩, σ4) →
      (∃ a rest4, σ4.acts = a :: rest4 ∧ a.id = σ2.nextId ∧ a.retVal = none) ∧
      (callFun (f+1) t args).run.run σ =
        (.error (.diag (rtDiag σ4 defTok.line defTok.col .missingReturn)), popSt σ4)) := by
  have hrun := run_callFun_user f t args σ σ1 σ2 fd body defTok vals cur rest slots hfd hbody hargs hlen hdepth hcur hbind
  have hacts : (calleeSt (funAct fd slots) (setSwitch σ2 cur.id t)).acts =
      funAct fd slots σ2.nextId :: (setSwitch σ2 cur.id t).acts := rfl
  have hfb := NL.fun_body_ret f body (calleeSt (funAct fd slots) (setSwitch σ2 cur.id t)) (funAct fd slots σ2.nextId)
    (setSwitch σ2 cur.id t).acts hacts rfl
  constructor
  · intro hb
    rw [hb] at hfb hrun
    obtain ⟨a', rest', hacts4, ⟨v, hrv, hvty⟩, hhdr⟩ := hfb
    have hid : a'.id = σ2.nextId := congrArg (fun x => x.1) hhdr
    have hrty : a'.retTy = fd.ret := congrArg (fun x => x.2.2.2.2) hhdr
    refine ⟨a', rest', v, hacts4, hid, hrv, hvty.trans hrty, ?_, ?_⟩
    · rw [hrun]
      simp only [funResult, hacts4, hrv]
    · obtain ⟨fr, rt, e, σa, ar, restr, w, σb, hst, hactsa, _, he, _, hσ4⟩ := C04_ret_signal_origin f body _ σ4 hb
      -- the top activation after the evaluation of the RETURN expression is still `ar`'s
      have hh := ((NL.allRP fr).evalExpr e).run (tickSt σa)
      rw [he] at hh
      have hh1 : σb.acts.map NL.hdr = (ar :: restr).map NL.hdr := by rw [← hactsa]; exact hh.1
      cases hactsb : σb.acts with
      | nil => rw [hactsb] at hh1; cases hh1
      | cons ab restb =>
        rw [hactsb] at hh1
        simp only [List.map_cons, List.cons.injEq] at hh1
        have hidb : ab.id = ar.id := congrArg (fun x => x.1) hh1.1
        have hrtb : ab.retTy = ar.retTy := congrArg (fun x => x.2.2.2.2) hh1.1
        have htop : σ4.acts = { ab with retVal := some (implicitCast ar.retTy w) } :: restb := by
          rw [hσ4, ← hidb]
          exact retSt_top σb ab restb (implicitCast ar.retTy w) hactsb
        rw [hacts4] at htop
        simp only [List.cons.injEq] at htop
        have ha' : a' = { ab with retVal := some (implicitCast ar.retTy w) } := htop.1
        have hv : v = implicitCast ar.retTy w := by
          have := hrv; rw [ha'] at this; exact (Option.some.inj this).symm
        have hrt : ar.retTy = fd.ret := by
          rw [← hrtb, ← hrty, ha']
        have hida : ar.id = σ2.nextId := by
          rw [← hidb, ← hid, ha']
        refine ⟨fr, rt, e, σa, σb, w, hst, he, by rw [hv, hrt], ?_⟩
        rw [hσ4, hida, hv]
  · intro hb
    rw [hb] at hfb hrun
    obtain ⟨a', rest', hacts4, hrv, hhdr⟩ := hfb
    have hid : a'.id = σ2.nextId := congrArg (fun x => x.1) hhdr
    refine ⟨⟨a', rest', hacts4, hid, hrv⟩, ?_⟩
    rw [hrun]
    simp only [funResult, hacts4, hrv]

/-- **C04 (a function call yields exactly the value of the RETURN statement it executed; without RETURN it is a runtime
    error).**  Any user-defined function, any parameters, any body, any state; the call prefix as in
    `C04_exec_function_result` (arguments evaluate to `vals`, they bind to `slots`), but NOTHING is assumed about the
    run of the body:
    1. if the call yields a value `v`, then the body's run ended with the signal `Stop.ret` (in a state `σ4` whose top
       activation is the function's and holds `v`, of the declared return type), the final state is `σ4` without that
       activation (depth counter and call-position note reset), and `v` is the value stored by the RETURN statement
       `RETURN e` that raised the signal: `e` evaluated to `w` and `v` is the cast of `w` to the declared return type;
    2. if the body's run ends normally, the call ends in the runtime diagnostic `missingReturn` at the token of the
       function definition. -/
theorem C04_ret_function_yields_return (f : Nat) (t : Tok) (args : List Expr) (σ σ1 σ2 : St) (fd : FunDef) (body : Block)
    (defTok : Tok) (vals : List Val) (cur : Act) (rest : List Act) (slots : List Slot)
    (hfd : funLookup σ t.val = some fd) (hbody : fd.body = .user body defTok)
    (hargs : (evalArgs f args []).run.run σ = (.ok vals, σ1))
    (hlen : vals.length = fd.params.length)
    (hdepth : σ1.depth + 1 ≤ σ1.depthLimit)
    (hcur : σ1.acts = cur :: rest)
    (hbind : (bindParams f t fd.params args vals []).run.run σ1 = (.ok slots, σ2)) :
    (∀ v σ', (callFun (f+1) t args).run.run σ = (.ok v, σ') →
      ∃ σ4 a rest4, (runBlock f body).run.run (calleeSt (funAct fd slots) (setSwitch σ2 cur.id t)) = (.error .ret, σ4) ∧
        σ4.acts = a :: rest4 ∧ a.id = σ2.nextId ∧ a.retVal = some v ∧ v.ty = fd.ret ∧
        σ' = clearSwitch (decDepth (popSt σ4)) cur.id ∧
        ∃ fr rt e σa σb w, (execStmt (fr+1) (.ret rt e)).run.run σa = (.error .ret, σ4) ∧
          (evalExpr fr e).run.run (tickSt σa) = (.ok w, σb) ∧ v = implicitCast fd.ret w ∧
          σ4 = retSt σb σ2.nextId v) ∧
    (∀ σ4, (runBlock f body).run.run (calleeSt (funAct fd slots) (setSwitch σ2 cur.id t)) = (.ok ⟨⟩, σ4) →
      (callFun (f+1) t args).run.run σ =
        (.error (.diag (rtDiag σ4 defTok.line defTok.col .missingReturn)), popSt σ4)) := by
  have hout := C04_ret_body_outcome f t args σ σ1 σ2 fd body defTok vals cur rest slots hfd hbody hargs hlen hdepth hcur hbind
  refine ⟨fun v σ' hcall => ?_, fun σ4 hb => ((hout σ4).2 hb).2⟩
  rcases hb : (runBlock f body).run.run (calleeSt (funAct fd slots) (setSwitch σ2 cur.id t)) with ⟨x | u, σ4⟩
  · cases x with
    | ret =>
      obtain ⟨a, rest4, v', hacts4, hid, hrv, hty, hc, horig⟩ := (hout σ4).1 hb
      rw [hc] at hcall
      cases hcall
      exact ⟨σ4, a, rest4, rfl, hacts4, hid, hrv, hty, rfl, horig⟩
    | _ =>
      rw [run_callFun_user f t args σ σ1 σ2 fd body defTok vals cur rest slots hfd hbody hargs hlen hdepth hcur hbind, hb]
        at hcall
      cases hcall
  · rw [((hout σ4).2 hb).2] at hcall
    cases hcall

/-! ## 3. whole programs: the arm `.ret → crash .other` of `runMain` is unreachable -/

/-- the current activation, if there is one, is not a function call's (the main program: the global activation; a
    procedure; a TYPE body) -/
def C04.TopNotFn (σ : St) : Prop := ∀ a rest, σ.acts = a :: rest → a.isFn = false

theorem C04.topNotFn_init (fs : List (Str × FsNode)) (stdin : Str) (p r : Bool) : C04.TopNotFn (St.init fs stdin p r) := by
  intro a rest h
  cases h
  rfl

/-- the property depends on the activation stack only (the start states of `runFileOn` and of the REPL differ from
    `St.init` in limits, input and output) -/
theorem C04.topNotFn_congr (σ σ' : St) (h : σ'.acts = σ.acts) (hσ : C04.TopNotFn σ) : C04.TopNotFn σ' := by
  intro a rest ha
  exact hσ a rest (by rw [← h, ha])

/-- `MainBlock::run` without the arm for `Stop.ret` -/
def C04.runMainNoRet (fuel : Nat) (b : Block) : M Unit :=
  tryCatch (runBlock fuel b) fun e =>
    match e with
    | .brk t => rtErr t .breakOutside
    | .cont t => rtErr t .breakOutside
    | e => throw e

/-- **C04 (a block run outside a function never ends with the RETURN signal)**: there a RETURN statement is the
    runtime error `returnOutside`, and the signal of a RETURN in a called function is caught by the call. -/
theorem C04_ret_block_no_ret (fuel : Nat) (b : Block) (σ : St) (h : C04.TopNotFn σ) :
    ((runBlock fuel b).run.run σ).1 ≠ .error .ret := by
  intro hr
  have hh := ((NL.allRP fuel).runBlock b).run σ
  rw [hr] at hh
  obtain ⟨hmap, _, a', rest', hacts', hfn', _⟩ := hh
  rw [hacts'] at hmap
  cases hacts : σ.acts with
  | nil => rw [hacts] at hmap; cases hmap
  | cons a rest =>
    rw [hacts] at hmap
    simp only [List.map_cons, List.cons.injEq] at hmap
    have h1 : a'.isFn = a.isFn := congrArg (fun x => x.2.1) hmap.1
    rw [hfn', h a rest hacts] at h1
    cases h1

/-- **C04 (the arm `.ret → crash .other` of `runMain` is unreachable).**  From every state whose current activation is
    not a function call's — in particular from the initial state of a program run and of every REPL entry — `runMain`
    behaves as the handler without that arm, and a crash point `other` reported by `runMain` is one raised by the run of
    the block itself. -/
theorem C04_ret_runMain_arm_unreachable (fuel : Nat) (b : Block) (σ : St) (h : C04.TopNotFn σ) :
    (runMain fuel b).run.run σ = (C04.runMainNoRet fuel b).run.run σ ∧
    (∀ p σ', (runMain fuel b).run.run σ = (.error (.crash p), σ') → (runBlock fuel b).run.run σ = (.error (.crash p), σ')) := by
  have hne := C04_ret_block_no_ret fuel b σ h
  unfold runMain C04.runMainNoRet
  rw [run_tryCatch, run_tryCatch]
  rcases hb : (runBlock fuel b).run.run σ with ⟨e | u, σ1⟩
  · rw [hb] at hne
    cases e with
    | ret => exact absurd rfl hne
    | brk t =>
      refine ⟨rfl, fun p σ' hc => ?_⟩
      have : (rtErr t .breakOutside : M Unit).run.run σ1 = (.error (.crash p), σ') := hc
      rw [run_rtErr] at this
      cases this
    | cont t =>
      refine ⟨rfl, fun p σ' hc => ?_⟩
      have : (rtErr t .breakOutside : M Unit).run.run σ1 = (.error (.crash p), σ') := hc
      rw [run_rtErr] at this
      cases this
    | diag d => exact ⟨rfl, fun p σ' hc => hc⟩
    | crash q => exact ⟨rfl, fun p σ' hc => hc⟩
    | outOfFuel => exact ⟨rfl, fun p σ' hc => hc⟩
  · exact ⟨rfl, fun p σ' hc => by cases hc⟩

/-- **C04, the outcome of a program run**: when `runOn` (run of a parsed program on a state, as in `runFile` and in
    the REPL) reports a crash point, the evaluator's run of the block ended at that crash point — it is never the
    translation of a stray RETURN signal. -/
theorem C04_ret_runOn_crash (fuel : Nat) (b : Block) (σ : St) (h : C04.TopNotFn σ) (p : CrashPoint) (σ' : St)
    (hc : runOn fuel b σ = (.crash p, σ')) : (runBlock fuel b).run.run σ = (.error (.crash p), σ') := by
  obtain ⟨_, h2⟩ := C04_ret_runMain_arm_unreachable fuel b σ h
  have hne := C04_ret_block_no_ret fuel b σ h
  unfold runOn at hc
  have hrm : (ExceptT.run (runMain fuel b)).run σ = (runMain fuel b).run.run σ := rfl
  rw [hrm] at hc
  rcases hm : (runMain fuel b).run.run σ with ⟨e | u, σ1⟩
  · rw [hm] at hc
    cases e with
    | crash q =>
      simp only [Prod.mk.injEq, Outcome.crash.injEq] at hc
      obtain ⟨rfl, rfl⟩ := hc
      exact h2 q σ1 hm
    | diag d => cases hc
    | outOfFuel => cases hc
    | ret =>
      -- `runMain` itself never ends with `.ret`, `.brk`, `.cont`
      exfalso
      unfold runMain at hm
      rw [run_tryCatch] at hm
      rcases hb : (runBlock fuel b).run.run σ with ⟨x | u, σ2⟩
      · rw [hb] at hm hne
        cases x with
        | ret => exact hne rfl
        | brk t => have : (rtErr t .breakOutside : M Unit).run.run σ2 = _ := hm; rw [run_rtErr] at this; cases this
        | cont t => have : (rtErr t .breakOutside : M Unit).run.run σ2 = _ := hm; rw [run_rtErr] at this; cases this
        | diag d => cases hm
        | crash q => cases hm
        | outOfFuel => cases hm
      · rw [hb] at hm; cases hm
    | brk t' =>
      exfalso
      unfold runMain at hm
      rw [run_tryCatch] at hm
      rcases hb : (runBlock fuel b).run.run σ with ⟨x | u, σ2⟩
      · rw [hb] at hm
        cases x with
        | ret => cases hm
        | brk t => have : (rtErr t .breakOutside : M Unit).run.run σ2 = _ := hm; rw [run_rtErr] at this; cases this
        | cont t => have : (rtErr t .breakOutside : M Unit).run.run σ2 = _ := hm; rw [run_rtErr] at this; cases this
        | diag d => cases hm
        | crash q => cases hm
        | outOfFuel => cases hm
      · rw [hb] at hm; cases hm
    | cont t' =>
      exfalso
      unfold runMain at hm
      rw [run_tryCatch] at hm
      rcases hb : (runBlock fuel b).run.run σ with ⟨x | u, σ2⟩
      · rw [hb] at hm
        cases x with
        | ret => cases hm
        | brk t => have : (rtErr t .breakOutside : M Unit).run.run σ2 = _ := hm; rw [run_rtErr] at this; cases this
        | cont t => have : (rtErr t .breakOutside : M Unit).run.run σ2 = _ := hm; rw [run_rtErr] at this; cases this
        | diag d => cases hm
        | crash q => cases hm
        | outOfFuel => cases hm
      · rw [hb] at hm; cases hm
  · rw [hm] at hc
    cases hc

/-- **C04, from the initial state** (`St.init`, any file system, input, mode; any limits, since they are not part of
    the activation stack): the three statements above. -/
theorem C04_ret_main_from_init (fuel : Nat) (b : Block) (fs : List (Str × FsNode)) (stdin : Str) (p r : Bool)
    (σ : St) (hσ : σ.acts = (St.init fs stdin p r).acts) :
    ((runBlock fuel b).run.run σ).1 ≠ .error .ret ∧
    (runMain fuel b).run.run σ = (C04.runMainNoRet fuel b).run.run σ ∧
    (∀ q σ', runOn fuel b σ = (.crash q, σ') → (runBlock fuel b).run.run σ = (.error (.crash q), σ')) := by
  have h : C04.TopNotFn σ := C04.topNotFn_congr _ σ hσ (C04.topNotFn_init fs stdin p r)
  exact ⟨C04_ret_block_no_ret fuel b σ h, (C04_ret_runMain_arm_unreachable fuel b σ h).1,
    fun q σ' => C04_ret_runOn_crash fuel b σ h q σ'⟩

/-! ## non-vacuity -/
namespace C04RetEx
open C04Ex

/-- `F(x)` on the example state of `C04Exec` yields 42.0: by the theorem, the body's run ended with the signal, and the
    value is the cast of the RETURN expression's value -/
example : ∃ σ4 w, (runBlock 19 [.ret (tk "RETURN" 2 1) (lit 42)]).run.run
      (calleeSt (funAct funF [byvalSlot "n".toList .int (.int 1)]) (setSwitch exSt 0 (tk "F" 9 1))) = (.error .ret, σ4) ∧
    Val.real (FloatFmt.floatOfInt 42) = implicitCast .real w := by
  obtain ⟨σ4, a, rest4, hb, _, _, _, _, _, fr, rt, e, σa, σb, w, _, _, hv, _⟩ :=
    (C04_ret_function_yields_return 19 (tk "F" 9 1) [var "x"] exSt exSt exSt funF
      [.ret (tk "RETURN" 2 1) (lit 42)] (tk "FUNCTION" 1 1) [.int 1] glob [] [byvalSlot "n".toList .int (.int 1)]
      rfl rfl rfl rfl (by decide) rfl rfl).1 _ _ fun_run
  exact ⟨σ4, w, hb, hv⟩

/-- `G()` (empty body): the body's run ends normally, so the call is `missingReturn` -/
example : ∃ σ4, (callFun 20 (tk "G" 9 1) []).run.run exSt =
    (.error (.diag (rtDiag σ4 5 1 .missingReturn)), popSt σ4) :=
  ⟨_, (C04_ret_function_yields_return 19 (tk "G" 9 1) [] exSt exSt exSt funG [] (tk "FUNCTION" 5 1)
    [] glob [] [] rfl rfl rfl rfl (by decide) rfl rfl).2 _ (run_runBlock_nil 18 _)⟩

/-- no escape, on runs of the model -/
example : ((callFun 20 (tk "F" 9 1) [var "x"]).run.run exSt).1 ≠ .error .ret := (C04_ret_no_escape 20 exSt).2.1 _ _
example : ((callProc 20 callT "PX".toList []).run.run exSt).1 ≠ .error .ret := (C04_ret_no_escape 20 exSt).1 _ _ _
example : C04.TopNotFn exSt := by intro a rest h; cases h; rfl

/-- whole programs: RETURN inside FOR inside IF ends the function at once with that value … -/
def progH : String :=
  "FUNCTION H(n : INTEGER) RETURNS INTEGER\n    FOR i <- 1 TO 10\n        IF i = n THEN\n            RETURN i * 2\n        ENDIF\n    NEXT i\nENDFUNCTION\n"
example : (runFile {} (progH ++ "OUTPUT H(3)\nOUTPUT 7\n").toList [] []).out = "6\n7\n".toList := by decide +kernel
/-- … and when no RETURN is executed the call is `missingReturn` -/
example : (runFile {} (progH ++ "OUTPUT H(30)\n").toList [] []).diags.map (·.msg) = [.missingReturn] := by decide +kernel
/-- RETURN in a procedure called from a function body: `returnOutside`, not the function's result -/
example : (runFile {} ("PROCEDURE P()\n    RETURN 1\nENDPROCEDURE\nFUNCTION K() RETURNS INTEGER\n    CALL P()\n    RETURN 2\nENDFUNCTION\nOUTPUT K()\n").toList [] []).diags.map (·.msg)
    = [.returnOutside] := by decide +kernel
/-- RETURN at top level: a runtime error, no crash point -/
example : (runFile {} "RETURN 1\n".toList [] []).crash = none ∧
    (runFile {} "RETURN 1\n".toList [] []).diags.map (·.msg) = [.returnOutside] := by decide +kernel

end C04RetEx

end Pseudo
