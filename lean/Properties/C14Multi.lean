import Properties.C14Exec
import Properties.C13
import PseudoProofs.RandomFile2Frame
import PseudoProofs.RandomFile2Pair
import PseudoProofs.RandomFile2Hetero
import PseudoProofs.RandomFile2Restart
/-!
# C14 / C13 for programs: several random files at once, several record types in one file

`Properties/C14Exec.lean` proves C14 about runs of statements for ONE file name and ONE record class per file. Here:

1. **Frame** (`C14_multi_frame`): a block of SEEK / PUTRECORD / GETRECORD / close + reopen statements on the file `n` leaves, for
   every other file name `m ≠ n`, the handles of that name and the node on disk exactly as they were (`Kept`), and therefore
   any one-file invariant `RInv` of another open random file.
2. **Two files** (`C14_multi_ops_refine_pair`): an arbitrary interleaving — a list of `(file name, ROp)` over the two names
   `n ≠ m` — runs exactly like the abstract machine on the PAIR of value sequences (`spec2Run`), and each of the two sequences
   reached is `Seq.run` of that file's own `SOp` history (`trace2`). `C14_multi_reopen_one`: CLOSEFILE + OPENFILE of one file
   does not disturb the other. `C14_multi_restart`: both sequences survive a restart of the interpreter.
3. **Several record types in one file** (`C14_multi_get_mismatch…`, `C14_multi_get_right_shape`, `C14_multi_seek_get`): the
   handle may hold ANY record texts. GETRECORD into a variable against whose value the record under the cursor does not decode
   (`Codec.load … = none`: the `C13_mismatch*` cases) is the runtime error `recordRead`; nothing but `steps` changes — the
   variable keeps its value, the handle its records AND its cursor (the cursor stays ON the unreadable record), the disk is
   untouched. GETRECORD into a variable in one class with the record under the cursor yields the stored value, whatever the
   other records are.

Vocabulary (`Pseudo.RandomFile2`): `Kept s s' m` — `s'.handles.filter (·.name == m) = s.handles.filter (·.name == m)` and
`s'.node m = s.node m`; `NOp = Str × ROp`; `block2`, `cost2`, `spec2Step n`, `spec2Run n`, `trace2 n`; `RInv2 C1 C2 σ n m q1 q2 a rest`
— `n ≠ m` and `RInv C1 σ n q1 a rest` and `RInv C2 σ m q2 a rest`; `Compat C1 C2` — the classes are disjoint or have the same
values; `VarsOK2`.

Restrictions: those of `C14Exec` (literal file names and SEEK addresses, plain variables of the current activation).
-/
namespace Pseudo
open FileStmt ReadLoop RandomFile RandomFile2

/-! ## 1. frame -/

/-- **A block of random-file operations on `n` leaves every other file name alone.**
    Hypotheses: those of `C14_exec_ops_refine_seq` (the invariant `RInv` for `n`, the variables of the operations are good
    variables, fuel `≥ cost ops + 3`, step budget). Whatever the outcome of the block (normal end, or the runtime error of the
    first undefined operation), in the state `σ'` it ends in, for EVERY name `m ≠ n`:
    * the handles named `m` are the same list, the handle found under `m` is the same, and the node of `m` on disk is the same
      (`Kept`) — also when the block contains CLOSEFILE / OPENFILE of `n` (which rewrites the file `n` only);
    * hence the one-file invariant of any other open random file `m` (any class, any sequence) holds again, for the activation
      the block leaves.
    `σ'` is also the state of `C14_exec_ops_refine_seq` (the run is a function). -/
theorem C14_multi_frame {defs : Codec.Defs} (C : RecClass defs) (fuel : Nat) (n : Str) (ops : List ROp) (σ : St) (q : VSeq)
    (a : Act) (rest : List Act) (inv : RInv C σ n q a rest) (hvars : VarsOK C a ops) (hfuel : cost ops + 3 ≤ fuel)
    (hb : σ.steps + cost ops ≤ σ.stepLimit) :
    ∃ res σ', (runBlock fuel (block n ops)).run.run σ = (res, σ') ∧
      RInv C σ' n (specRun q a ops).q (specRun q a ops).a rest ∧
      ∀ m, m ≠ n →
        σ'.handles.filter (·.name == m) = σ.handles.filter (·.name == m) ∧
        FState.handle { fs := σ'.fs, handles := σ'.handles } m = FState.handle { fs := σ.fs, handles := σ.handles } m ∧
        FState.node { fs := σ'.fs, handles := σ'.handles } m = FState.node { fs := σ.fs, handles := σ.handles } m ∧
        ∀ (C' : RecClass defs) (q' : VSeq), RInv C' σ m q' a rest → RInv C' σ' m q' (specRun q a ops).a rest := by
  obtain ⟨σ', hrun, hinv, hfr, hkept⟩ := run_ops_kept (C := C) (n := n) (rest := rest) 0 ops σ q a inv hvars hb
  have hmono : ∀ r, outcome (specRun q a ops) σ' = (r, σ') → r ≠ .error .outOfFuel →
      (runBlock fuel (block n ops)).run.run σ = (r, σ') := fun r hr hne =>
    runBlock_fuel_mono _ _ fuel (by omega) σ _ _ (hrun.trans hr) hne
  have hacts : σ'.acts = (specRun q a ops).a :: rest := by rw [hfr]
  have hall : ∀ m, m ≠ n →
        σ'.handles.filter (·.name == m) = σ.handles.filter (·.name == m) ∧
        FState.handle { fs := σ'.fs, handles := σ'.handles } m = FState.handle { fs := σ.fs, handles := σ.handles } m ∧
        FState.node { fs := σ'.fs, handles := σ'.handles } m = FState.node { fs := σ.fs, handles := σ.handles } m ∧
        ∀ (C' : RecClass defs) (q' : VSeq), RInv C' σ m q' a rest → RInv C' σ' m q' (specRun q a ops).a rest :=
    fun m hm => ⟨(hkept m hm).1, handle_of_kept (hkept m hm), (hkept m hm).2,
      fun C' q' inv' => rinv_frame inv' hacts hinv.defs (hkept m hm)⟩
  unfold outcome at hmono
  cases hfail : (specRun q a ops).failed with
  | none =>
    rw [hfail] at hmono
    exact ⟨_, σ', hmono _ rfl (by intro h; cases h), hinv, hall⟩
  | some op =>
    rw [hfail] at hmono
    exact ⟨_, σ', hmono _ rfl (by intro h; cases h), hinv, hall⟩

/-! ## 2. two files -/

/-- **when an operation of an interleaving is defined**: an operation on `n` exactly when `specStep` on the first sequence is
    (`C14_exec_defined_iff`: SEEK k iff `1 ≤ k ≤ len + 1`, GETRECORD iff the cursor is on a record, …), any other exactly
    when `specStep` on the second sequence is; the other sequence is not touched by the step -/
theorem C14_multi_defined_iff (n : Str) (q1 q2 : VSeq) (a : Act) (op : ROp) :
    ((spec2Step n q1 q2 a (n, op)).isSome ↔ (specStep q1 a op).isSome) ∧
    (∀ m, m ≠ n → ((spec2Step n q1 q2 a (m, op)).isSome ↔ (specStep q2 a op).isSome)) ∧
    (∀ q1' q2' a', spec2Step n q1 q2 a (n, op) = some (q1', q2', a') → q2' = q2 ∧ specStep q1 a op = some (q1', a')) ∧
    (∀ m q1' q2' a', m ≠ n → spec2Step n q1 q2 a (m, op) = some (q1', q2', a') →
      q1' = q1 ∧ specStep q2 a op = some (q2', a')) := by
  refine ⟨by simp [spec2Step], fun m hm => by simp [spec2Step, hm], ?_, ?_⟩
  · intro q1' q2' a' h
    simp only [spec2Step, if_true, Option.map_eq_some_iff, Prod.mk.injEq] at h
    obtain ⟨r, hr, rfl, rfl, rfl⟩ := h
    exact ⟨rfl, hr⟩
  · intro m q1' q2' a' hm h
    simp only [spec2Step, hm, if_false, Option.map_eq_some_iff, Prod.mk.injEq] at h
    obtain ⟨r, hr, rfl, rfl, rfl⟩ := h
    exact ⟨rfl, hr⟩

/-- **An interleaving of SEEK / PUTRECORD / GETRECORD statements (and CLOSEFILE + OPENFILE pairs) on TWO open random files runs
    exactly like the abstract machine on the pair of sequences, and each sequence evolves by `Seq.run` on its own history.**

    Hypotheses: `RInv2` — `n ≠ m`, and each file satisfies the one-file invariant of `C14Exec` (`n` for the class `C1` and the
    sequence `q1`, `m` for `C2` and `q2`); `Compat C1 C2` — the classes are disjoint or equal (needed because a GETRECORD from
    one file changes a variable that a later PUTRECORD may write to the other file: the variable must still hold a value of
    that file's class); `VarsOK2` — the variable of every PUT / GET on `n` is a good variable for `C1`, on `m` for `C2`;
    every name in the list is `n` or `m`; fuel `≥ cost2 ops + 3`; step budget `cost2 ops`.

    Let `r = spec2Run n q1 q2 a ops` (it stops at the first undefined operation). The block `block2 ops` reaches `σ'` where
    * `n` and `m` are open FOR RANDOM with handles `h1'`, `h2'` abstracting to `r.q1.toSeq`, `r.q2.toSeq`, which are the
      sequences `Seq.run` reaches from `absH h1` on the history of the operations on `n` (`(trace2 …).1`) and from `absH h2`
      on the history of the operations on `m` (`(trace2 …).2`) — an operation on one file does not occur in, and has no effect
      on, the sequence of the other; `Seq.run` reports every operation of both histories as defined;
    * the invariant `RInv2` holds again (the theorem applies to the next interleaving);
    * `σ'` differs from `σ` only in `steps` (+ `r.steps`), the file component and the current activation `r.a` (in which every
      GETRECORD has stored the value of the record under the cursor of ITS file: `spec2Step` / `specStep`);
    * every third file name keeps its handles and its node on disk;
    * all operations defined: normal end after `cost2 ops` steps; otherwise the block ends at the first undefined operation
      `p` with the runtime diagnostic `seekRange` / `recordRead` at its token. -/
theorem C14_multi_ops_refine_pair {defs : Codec.Defs} (C1 C2 : RecClass defs) (hc : Compat C1 C2) (fuel : Nat) (n m : Str)
    (ops : List NOp) (σ : St) (h1 h2 : Handle) (q1 q2 : VSeq) (a : Act) (rest : List Act)
    (inv : RInv2 C1 C2 σ n m q1 q2 a rest)
    (hh1 : FState.handle { fs := σ.fs, handles := σ.handles } n = some h1)
    (hh2 : FState.handle { fs := σ.fs, handles := σ.handles } m = some h2)
    (hvars : VarsOK2 C1 C2 n a ops) (hnames : ∀ p ∈ ops, p.1 = n ∨ p.1 = m)
    (hfuel : cost2 ops + 3 ≤ fuel) (hb : σ.steps + cost2 ops ≤ σ.stepLimit) :
    absH h1 = q1.toSeq ∧ absH h2 = q2.toSeq ∧
    ∃ (σ' : St) (h1' h2' : Handle),
      FState.handle { fs := σ'.fs, handles := σ'.handles } n = some h1' ∧ h1'.mode = .random ∧
      FState.handle { fs := σ'.fs, handles := σ'.handles } m = some h2' ∧ h2'.mode = .random ∧
      absH h1' = ((absH h1).run (trace2 n q1 q2 a ops).1).1 ∧ absH h2' = ((absH h2).run (trace2 n q1 q2 a ops).2).1 ∧
      (∀ o ∈ ((absH h1).run (trace2 n q1 q2 a ops).1).2, o.isSome = true) ∧
      (∀ o ∈ ((absH h2).run (trace2 n q1 q2 a ops).2).2, o.isSome = true) ∧
      absH h1' = (spec2Run n q1 q2 a ops).q1.toSeq ∧ absH h2' = (spec2Run n q1 q2 a ops).q2.toSeq ∧
      RInv2 C1 C2 σ' n m (spec2Run n q1 q2 a ops).q1 (spec2Run n q1 q2 a ops).q2 (spec2Run n q1 q2 a ops).a rest ∧
      StFrame σ σ' (spec2Run n q1 q2 a ops).steps ((spec2Run n q1 q2 a ops).a :: rest) ∧
      (∀ k, k ≠ n → k ≠ m → Kept { fs := σ.fs, handles := σ.handles } { fs := σ'.fs, handles := σ'.handles } k) ∧
      match (spec2Run n q1 q2 a ops).failed with
      | none => (runBlock fuel (block2 ops)).run.run σ = (.ok ⟨⟩, σ') ∧ (spec2Run n q1 q2 a ops).steps = cost2 ops
      | some p => p ∈ ops ∧
          spec2Step n (spec2Run n q1 q2 a ops).q1 (spec2Run n q1 q2 a ops).q2 (spec2Run n q1 q2 a ops).a p = none ∧
          ∃ d, (runBlock fuel (block2 ops)).run.run σ = (.error (.diag d), σ') ∧
            d.kind = .runtime ∧ d.msg = p.2.failMsg ∧ d.line = p.2.tok.line ∧ d.col = p.2.tok.col := by
  obtain ⟨g1, hf1⟩ := inv.i1.file
  obtain ⟨g2, hf2⟩ := inv.i2.file
  have e1 : h1 = g1 := by
    have := hf1.handle
    rw [show FState.handle (fileSt σ) n = FState.handle { fs := σ.fs, handles := σ.handles } n from rfl, hh1] at this
    injection this
  have e2 : h2 = g2 := by
    have := hf2.handle
    rw [show FState.handle (fileSt σ) m = FState.handle { fs := σ.fs, handles := σ.handles } m from rfl, hh2] at this
    injection this
  subst e1 e2
  refine ⟨hf1.abs, hf2.abs, ?_⟩
  obtain ⟨σ', hrun, hinv, hfr, hkept, _, _⟩ :=
    run_ops2 (C1 := C1) (C2 := C2) (n := n) (m := m) (rest := rest) hc 0 ops σ q1 q2 a inv hvars hnames hb
  obtain ⟨k1, hk1⟩ := hinv.i1.file
  obtain ⟨k2, hk2⟩ := hinv.i2.file
  obtain ⟨t1, t2, t3, t4⟩ := spec2Run_toSeq n q1 q2 a ops
  refine ⟨σ', k1, k2, hk1.handle, hk1.mode, hk2.handle, hk2.mode, ?_, ?_, ?_, ?_, hk1.abs, hk2.abs, hinv, hfr, hkept, ?_⟩
  · rw [hf1.abs, t1]; exact hk1.abs
  · rw [hf2.abs, t2]; exact hk2.abs
  · rw [hf1.abs]; exact t3
  · rw [hf2.abs]; exact t4
  · unfold outcome2 at hrun
    cases hfail : (spec2Run n q1 q2 a ops).failed with
    | none =>
      rw [hfail] at hrun
      exact ⟨runBlock_fuel_mono _ _ fuel (by omega) σ _ _ hrun (by intro h; cases h), spec2Run_steps n q1 q2 a ops hfail⟩
    | some p =>
      rw [hfail] at hrun
      dsimp only at hrun ⊢
      obtain ⟨hs, hmem⟩ := spec2Run_failed n q1 q2 a ops p hfail
      obtain ⟨d, hd, hk, hm, hl, hcl⟩ := errAt_spec (α := Unit) σ' p.2.tok p.2.failMsg
      rw [hd] at hrun
      exact ⟨hmem, hs, d, runBlock_fuel_mono _ _ fuel (by omega) σ _ _ hrun (by intro h; cases h), hk, hm, hl, hcl⟩

/-- **CLOSEFILE n ; OPENFILE n FOR RANDOM while `m` is open does not disturb `m`**: the block ends normally; `n` has the same
    values with the cursor at record 1; the invariant of `m` holds for the SAME sequence `q2` (values and cursor), with the same
    handle `h2` found under `m`; every name other than `n` keeps its handles and its node on disk. (Symmetric in the two files:
    `RInv2` can be turned around, `RInv2.symm`.) -/
theorem C14_multi_reopen_one {defs : Codec.Defs} (C1 C2 : RecClass defs) (fuel : Nat) (t tn t' tn' : Tok) (n m : Str) (σ : St)
    (h2 : Handle) (q1 q2 : VSeq) (a : Act) (rest : List Act) (inv : RInv2 C1 C2 σ n m q1 q2 a rest)
    (hh2 : FState.handle { fs := σ.fs, handles := σ.handles } m = some h2)
    (hfuel : 5 ≤ fuel) (hb : σ.steps + 2 ≤ σ.stepLimit) :
    ∃ σ', (runBlock fuel [.closeFile t (.strLit tn n), .openFile t' (.strLit tn' n) .random]).run.run σ = (.ok ⟨⟩, σ') ∧
      RInv2 C1 C2 σ' n m { q1 with cur := 0 } q2 a rest ∧
      FState.handle { fs := σ'.fs, handles := σ'.handles } m = some h2 ∧
      StFrame σ σ' 2 (a :: rest) ∧
      ∀ k, k ≠ n → Kept { fs := σ.fs, handles := σ.handles } { fs := σ'.fs, handles := σ'.handles } k := by
  have hv : VarsOK C1 a [.reopen t tn t' tn'] := fun o ho x hx => by
    simp only [List.mem_cons, List.not_mem_nil, or_false] at ho; subst ho; cases hx
  obtain ⟨σ', hrun, hinv, hfr, hkept, _⟩ :=
    (run_op_cont (C := C1) (n := n) (rest := rest) 0 (.reopen t tn t' tn') inv.i1 hv hb []).1 _ _ rfl
  have hacts : σ'.acts = a :: rest := by rw [hfr]
  refine ⟨σ', ?_, ⟨inv.ne, hinv, rinv_frame inv.i2 hacts hinv.defs (hkept m inv.ne.symm)⟩, ?_, hfr, hkept⟩
  · have h5 : (runBlock 5 [.closeFile t (.strLit tn n), .openFile t' (.strLit tn' n) .random]).run.run σ = (.ok ⟨⟩, σ') := by
      have : (runBlock (0 + 3) []).run.run σ' = (.ok ⟨⟩, σ') := run_runBlock_nil 2 σ'
      rw [← this]
      exact hrun
    exact runBlock_fuel_mono _ 5 fuel hfuel σ _ _ h5 (by intro h; cases h)
  · have := handle_of_kept (hkept m inv.ne.symm)
    rw [show FState.handle { fs := σ'.fs, handles := σ'.handles } m = FState.handle (fileSt σ') m from rfl, this]
    exact hh2

/-- the two-file invariant is symmetric -/
theorem RandomFile2.RInv2.symm {defs : Codec.Defs} {C1 C2 : RecClass defs} {σ : St} {n m : Str} {q1 q2 : VSeq} {a : Act} {rest : List Act}
    (inv : RInv2 C1 C2 σ n m q1 q2 a rest) : RInv2 C2 C1 σ m n q2 q1 a rest := ⟨inv.ne.symm, inv.i2, inv.i1⟩

/-! ## 3. several record types in one file -/

/-- the four ways of C13 in which the record text of `v` does not fit a variable currently holding `cur`:
    different type tags (INTEGER / REAL / BOOLEAN / CHAR / STRING / DATE / enum / record / array), two different enum types, two
    different record types, arrays of different lengths (hypotheses as in `C13_mismatch`, `C13_mismatch_enum`,
    `C13_mismatch_record`, `C13_mismatch_array_length`) -/
inductive Mismatch (defs : Codec.Defs) : Val → Val → Prop
  | tag (cur v : Val) (hv : Codec.tagOf v ≠ "") (h : Codec.tagOf cur ≠ Codec.tagOf v) : Mismatch defs cur v
  | enum (ty ty' : Str) (i j : Nat) (hty : Codec.WordOK ty)
      (hname : ∀ dn vals, defs.enumDef ty = some (dn, vals) → dn = ty) (hne : ty ≠ ty') :
      Mismatch defs (.enum ty' j) (.enum ty i)
  | record (ty ty' : Str) (fs gs : List (Str × Val)) (hty : Codec.WordOK ty)
      (hname : ∀ dn, defs.compDef ty = some dn → dn = ty) (hne : ty ≠ ty') : Mismatch defs (.comp ty' gs) (.comp ty fs)
  | arrayLength (e e' : Ty) (d d' : List (Int × Int)) (cells cs : List Val) (hlen : cells.length < 2 ^ 64)
      (hne : cells.length ≠ cs.length) : Mismatch defs (.arr e' d' cs) (.arr e d cells)

/-- C13: a mismatching record text does not decode -/
theorem C14_multi_mismatch_load_none (defs : Codec.Defs) (cur v : Val) (h : Mismatch defs cur v) :
    Codec.load defs cur (Codec.dump v) = none := by
  cases h with
  | tag _ _ hv h => simpa using Codec.C13_mismatch defs cur v [] hv h
  | enum ty ty' i j hty hname hne => simpa using Codec.C13_mismatch_enum defs ty ty' i j [] hty hname hne
  | record ty ty' fs gs hty hname hne => simpa using Codec.C13_mismatch_record defs ty ty' fs gs [] hty hname hne
  | arrayLength e e' d d' cells cs hlen hne =>
    simpa using Codec.C13_mismatch_array_length defs e e' d d' cells cs [] hlen hne

/-- **GETRECORD of a record that does not decode against the variable is a runtime error and changes nothing.**
    `n` is open FOR RANDOM with ANY records (no "one class per file"); the cursor is on the record text `rec`; `x` is a plain
    variable of the current activation (`HasVar`: not a constant, not BYREF) of a non-pointer type, holding `cur`; the codec
    sees the definitions `defs`; `Codec.load defs cur rec = none`. Then `GETRECORD n, x` (fuel ≥ 3, one step of budget) ends
    with a runtime diagnostic of class `recordRead` at the statement's token, in the state `{ σ with steps := σ.steps + 1 }`:
    the variable still holds `cur`, the handle is the same handle — same records and SAME CURSOR: the cursor stays on the
    unreadable record (the model, like the C++, never advances the cursor in GETRECORD) —, and the disk is untouched.
    CAVEAT (model vs C++, see `C14MultiEx.partial_load_witness`): this is a theorem about the MODEL, whose `Codec.load` is
    all-or-nothing. The C++ `load` writes into the variable in place; it agrees with "the variable is unchanged" when decoding
    fails at the first token it looks at (all `Mismatch` cases below: `C14_multi_get_mismatch_value`), but when a record / array
    text fails only after some fields / cells have been decoded, the C++ leaves those fields overwritten. -/
theorem C14_multi_get_mismatch {defs : Codec.Defs} (fuel : Nat) (t tn x : Tok) (n : Str) (σ : St) (a : Act) (rest : List Act)
    (ty : Ty) (cur : Val) (h : Handle) (rec : Str) (hacts : σ.acts = a :: rest) (hdefs : codecDefsP σ = .ok defs)
    (hx : HasVar a x.val ty cur) (hp : isPtrTy ty = false)
    (hh : FState.handle { fs := σ.fs, handles := σ.handles } n = some h) (hm : h.mode = .random)
    (hrec : h.records[h.ptr]? = some rec) (hload : Codec.load defs cur rec = none)
    (hfuel : 3 ≤ fuel) (hb : σ.steps + 1 ≤ σ.stepLimit) :
    ∃ d, (execStmt fuel (.getRecord t (.strLit tn n) x)).run.run σ = (.error (.diag d), { σ with steps := σ.steps + 1 }) ∧
      d.kind = .runtime ∧ d.msg = .recordRead ∧ d.line = t.line ∧ d.col = t.col := by
  obtain ⟨f, rfl⟩ : ∃ f, fuel = f + 3 := ⟨fuel - 3, by omega⟩
  rw [(step_get_any hacts hdefs f t tn x ty cur h rec hb hx hp hh hm hrec).1 hload]
  exact errAt_spec (tickSt σ) t .recordRead

/-- … in particular when the record under the cursor is the text of a value `v` of another type / enum type / record type /
    array length than the variable's (`Mismatch`, the cases of `C13_mismatch*`) -/
theorem C14_multi_get_mismatch_value {defs : Codec.Defs} (fuel : Nat) (t tn x : Tok) (n : Str) (σ : St) (a : Act)
    (rest : List Act) (ty : Ty) (cur v : Val) (h : Handle) (hacts : σ.acts = a :: rest) (hdefs : codecDefsP σ = .ok defs)
    (hx : HasVar a x.val ty cur) (hp : isPtrTy ty = false)
    (hh : FState.handle { fs := σ.fs, handles := σ.handles } n = some h) (hm : h.mode = .random)
    (hrec : h.records[h.ptr]? = some (Codec.dump v)) (hmis : Mismatch defs cur v)
    (hfuel : 3 ≤ fuel) (hb : σ.steps + 1 ≤ σ.stepLimit) :
    ∃ d, (execStmt fuel (.getRecord t (.strLit tn n) x)).run.run σ = (.error (.diag d), { σ with steps := σ.steps + 1 }) ∧
      d.kind = .runtime ∧ d.msg = .recordRead ∧ d.line = t.line ∧ d.col = t.col :=
  C14_multi_get_mismatch fuel t tn x n σ a rest ty cur h _ hacts hdefs hx hp hh hm hrec
    (C14_multi_mismatch_load_none defs cur v hmis) hfuel hb

/-- **GETRECORD of record k into a variable of the right shape yields the stored value, whatever the OTHER records of the file
    are.** "One class per file" of `C14Exec` is weakened to: the record under the cursor is the text of a storable value `v`
    (C13: `Storable`, under the reader law `L` for REALs) and the variable's current value `cur` has the same shape as `v`
    (`SameShape`). Then `GETRECORD n, x` ends normally and the state is `σ` with `steps + 1` and `x := v`; the file component
    (records, cursor, disk) is unchanged. -/
theorem C14_multi_get_right_shape (Fin : Float → Prop) (L : Codec.ReaderLaws Fin) {defs : Codec.Defs} (fuel : Nat)
    (t tn x : Tok) (n : Str) (σ : St) (a : Act) (rest : List Act) (ty : Ty) (cur v : Val) (h : Handle)
    (hacts : σ.acts = a :: rest) (hdefs : codecDefsP σ = .ok defs) (hx : HasVar a x.val ty cur) (hp : isPtrTy ty = false)
    (hh : FState.handle { fs := σ.fs, handles := σ.handles } n = some h) (hm : h.mode = .random)
    (hrec : h.records[h.ptr]? = some (Codec.dump v)) (hv : Codec.Storable Fin defs v) (hshape : Codec.SameShape v cur)
    (hfuel : 3 ≤ fuel) (hb : σ.steps + 1 ≤ σ.stepLimit) :
    (execStmt fuel (.getRecord t (.strLit tn n) x)).run.run σ =
      (.ok .none, { σ with steps := σ.steps + 1, acts := setVar a x.val v :: rest }) ∧
    HasVar (setVar a x.val v) x.val ty v := by
  obtain ⟨f, rfl⟩ : ∃ f, fuel = f + 3 := ⟨fuel - 3, by omega⟩
  have hl := Codec.C13_get_put Fin L defs v cur hv hshape
  refine ⟨?_, hasVar_setVar_same a x.val ty cur v hx⟩
  cases hl' : Codec.load defs cur (Codec.dump v) with
  | none => rw [hl'] at hl; cases hl
  | some p =>
    obtain ⟨nv, r⟩ := p
    rw [hl'] at hl
    injection hl with hl
    have : nv = v := hl
    subst this
    exact (step_get_any hacts hdefs f t tn x ty cur h _ hb hx hp hh hm hrec).2 nv r hl' (Codec.sameShape_isArr nv cur hshape)

/-- the same for a record class that contains the record under the cursor and the variable's value (e.g. `RecClass.int`,
    `RecClass.str`) — the other records of the file need not belong to it -/
theorem C14_multi_get_class {defs : Codec.Defs} (C : RecClass defs) (fuel : Nat) (t tn x : Tok) (n : Str) (σ : St) (a : Act)
    (rest : List Act) (v : Val) (h : Handle) (hacts : σ.acts = a :: rest) (hdefs : codecDefsP σ = .ok defs)
    (hx : GoodVar C a x.val) (hv : C.T v)
    (hh : FState.handle { fs := σ.fs, handles := σ.handles } n = some h) (hm : h.mode = .random)
    (hrec : h.records[h.ptr]? = some (Codec.dump v)) (hfuel : 3 ≤ fuel) (hb : σ.steps + 1 ≤ σ.stepLimit) :
    (execStmt fuel (.getRecord t (.strLit tn n) x)).run.run σ =
      (.ok .none, { σ with steps := σ.steps + 1, acts := setVar a x.val v :: rest }) := by
  obtain ⟨f, rfl⟩ : ∃ f, fuel = f + 3 := ⟨fuel - 3, by omega⟩
  exact step_get_class C hacts hdefs f t tn x v h hb hx hv hh hm hrec

/-- **`SEEK n, k ; GETRECORD n, x` on a file with records of several types** (`1 ≤ k ≤ len`, `rec` = record `k`, the variable
    holds `cur`): SEEK only moves the cursor to `k`; then
    * `Codec.load defs cur rec = none` (e.g. `Mismatch`): the block ends with the runtime error `recordRead` at the GETRECORD
      token after 2 steps; the handle has the same records and the cursor ON record `k` (`ptr = k - 1`); the variable is
      unchanged (`acts` is);
    * `Codec.load defs cur rec = some (nv, _)` (e.g. same shape: `nv` is the stored value): normal end, `x := nv`, cursor on
      record `k`.
    In both cases nothing else changes. -/
theorem C14_multi_seek_get {defs : Codec.Defs} (fuel : Nat) (t tn tk t' tn' x : Tok) (n : Str) (k : Int) (σ : St) (a : Act)
    (rest : List Act) (ty : Ty) (cur : Val) (h : Handle) (rec : Str) (hacts : σ.acts = a :: rest)
    (hdefs : codecDefsP σ = .ok defs) (hx : HasVar a x.val ty cur) (hp : isPtrTy ty = false)
    (hh : FState.handle { fs := σ.fs, handles := σ.handles } n = some h) (hm : h.mode = .random)
    (h1 : 1 ≤ k) (hrec : h.records[k.toNat - 1]? = some rec) (hfuel : 5 ≤ fuel) (hb : σ.steps + 2 ≤ σ.stepLimit) :
    FState.handle { fs := σ.fs, handles := updHandles σ.handles n fun h => { h with ptr := k.toNat - 1 } } n =
      some { h with ptr := k.toNat - 1 } ∧
    (Codec.load defs cur rec = none →
      ∃ d, (runBlock fuel [.seek t (.strLit tn n) (.intLit tk k), .getRecord t' (.strLit tn' n) x]).run.run σ =
          (.error (.diag d), { σ with steps := σ.steps + 2,
                                      handles := updHandles σ.handles n fun h => { h with ptr := k.toNat - 1 } }) ∧
        d.kind = .runtime ∧ d.msg = .recordRead ∧ d.line = t'.line ∧ d.col = t'.col) ∧
    (∀ nv r, Codec.load defs cur rec = some (nv, r) → cur.isArr = nv.isArr →
      (runBlock fuel [.seek t (.strLit tn n) (.intLit tk k), .getRecord t' (.strLit tn' n) x]).run.run σ =
        (.ok ⟨⟩, { σ with steps := σ.steps + 2, acts := setVar a x.val nv :: rest,
                          handles := updHandles σ.handles n fun h => { h with ptr := k.toNat - 1 } })) := by
  have hlen : k.toNat - 1 < h.records.length := (List.getElem?_eq_some_iff.mp hrec).1
  obtain ⟨hseek, hh1⟩ := step_seek_any (σ := σ) (n := n) 1 t tn tk k h (by omega) hh hm h1 (by omega)
  let σ1 : St := { σ with steps := σ.steps + 1, handles := updHandles σ.handles n fun h => { h with ptr := k.toNat - 1 } }
  have hget := step_get_any (σ := σ1) (n := n) (a := a) (rest := rest) (defs := defs) hacts hdefs 0 t' tn' x ty cur
    { h with ptr := k.toNat - 1 } rec (by show σ.steps + 1 + 1 ≤ σ.stepLimit; omega) hx hp hh1 hm hrec
  refine ⟨hh1, ?_, ?_⟩
  · intro hl
    obtain ⟨d, hd, hk, hmsg, hline, hcol⟩ := errAt_spec (α := Unit) (tickSt σ1) t' .recordRead
    refine ⟨d, ?_, hk, hmsg, hline, hcol⟩
    have h5 : (runBlock 5 [.seek t (.strLit tn n) (.intLit tk k), .getRecord t' (.strLit tn' n) x]).run.run σ =
        (.error (.diag d), tickSt σ1) := by
      rw [run_runBlock_cons 4 _ _ σ σ1 hseek, ← hd]
      exact run_runBlock_cons_err 3 _ _ σ1 _ _ (hget.1 hl)
    exact runBlock_fuel_mono _ 5 fuel hfuel σ _ _ h5 (by intro h; cases h)
  · intro nv r hl hk
    have h5 : (runBlock 5 [.seek t (.strLit tn n) (.intLit tk k), .getRecord t' (.strLit tn' n) x]).run.run σ =
        (.ok ⟨⟩, { σ1 with steps := σ1.steps + 1, acts := setVar a x.val nv :: rest }) := by
      rw [run_runBlock_cons 4 _ _ σ σ1 hseek, run_runBlock_cons 3 _ _ σ1 _ (hget.2 nv r hl hk)]
      exact run_runBlock_nil 2 _
    exact runBlock_fuel_mono _ 5 fuel hfuel σ _ _ h5 (by intro h; cases h)

/-! ## 3b. restart with two files -/

/-- **Both sequences survive a restart of the interpreter.** Two program texts are run one after the other in file mode, the
    second on the file system the first one left. If the state the first program ends in (`endState`, whatever the outcome) has
    `n` open FOR RANDOM with the framed records `rs1` or closed with `rs1` on disk, and likewise `m` with `rs2` (`SeqAtExit`;
    `RInv.seqAtExit` gives it for each file of an `RInv2` state), then
    * the file system the first run leaves holds `rs1` under `n` AND `rs2` under `m` (the exit routine wrote back every handle;
      the write-back of one file does not touch the other);
    * if the second text parses to `OPENFILE n FOR RANDOM ; OPENFILE m FOR RANDOM` followed by `more`, both statements end
      normally and the second run is `more` run from the state `σ2` = start state with `steps = 2` and exactly the two handles
      `⟨n, RANDOM, rs1, cursor 0⟩`, `⟨m, RANDOM, rs2, cursor 0⟩` (then the exit routine).
    Hypotheses `hlong*`: OPENFILE refuses over-long names; `n ≠ m`; fuel ≥ 5 and two steps of budget for the two OPENFILEs. -/
theorem C14_multi_restart (cfg : Cfg) (content1 content2 : Str) (fs : List (Str × FsNode)) (stdin1 stdin2 : Str)
    (eof1 eof2 : Bool) (n m : Str) (rs1 rs2 : List Str) (toks : List Tok) (t tn t' tn' : Tok) (more : Block) (warns : List Tok)
    (hne : n ≠ m)
    (hend1 : SeqAtExit { fs := (endState cfg content1 fs stdin1 eof1).fs, handles := (endState cfg content1 fs stdin1 eof1).handles } n rs1)
    (hend2 : SeqAtExit { fs := (endState cfg content1 fs stdin1 eof1).fs, handles := (endState cfg content1 fs stdin1 eof1).handles } m rs2)
    (hlong1 : nameTooLong n = false) (hlong2 : nameTooLong m = false)
    (hl : lex { pedantic := cfg.pedantic } (content2 ++ ['\n']) = .ok toks)
    (hp : parse { pedantic := cfg.pedantic } toks =
      .ok (.openFile t (.strLit tn n) .random :: .openFile t' (.strLit tn' m) .random :: more, warns))
    (hfuel : 5 ≤ cfg.fuel) (hlim : 2 ≤ cfg.stepLimit) :
    ∀ fs1, fs1 = (runFileOn cfg content1 fs stdin1 eof1).2.fs →
      DiskHas fs1 n rs1 ∧ DiskHas fs1 m rs2 ∧ (runFileOn cfg content1 fs stdin1 eof1).2.handles = [] ∧
      ∃ σ2 : St,
        σ2 = { startState cfg fs1 stdin2 eof2 warns with
               steps := 2, handles := [{ name := n, mode := .random, records := rs1 },
                                       { name := m, mode := .random, records := rs2 }] } ∧
        FState.handle { fs := σ2.fs, handles := σ2.handles } n = some { name := n, mode := .random, records := rs1 } ∧
        FState.handle { fs := σ2.fs, handles := σ2.handles } m = some { name := m, mode := .random, records := rs2 } ∧
        σ2.fs = fs1 ∧
        runFileOn cfg content2 fs1 stdin2 eof2 = finishFile (runOn (cfg.fuel - 2) more σ2) := by
  intro fs1 hfs1
  have hd1 : DiskHas fs1 n rs1 := by
    rw [hfs1, (runFileOn_fs cfg content1 fs stdin1 eof1).1]
    exact diskHas_closeAll _ n rs1 hend1
  have hd2 : DiskHas fs1 m rs2 := by
    rw [hfs1, (runFileOn_fs cfg content1 fs stdin1 eof1).1]
    exact diskHas_closeAll _ m rs2 hend2
  refine ⟨hd1, hd2, rfl, ?_⟩
  obtain ⟨g, hg⟩ : ∃ g, cfg.fuel = g + 5 := ⟨cfg.fuel - 5, by omega⟩
  have hnm : (n == m) = false := by simpa using hne
  have hopen1 := run_open_fresh (g+1) t tn n rs1 (startState cfg fs1 stdin2 eof2 warns) rfl
    (by show 0 + 1 ≤ cfg.stepLimit; omega) hlong1 hd1
  let σ1 : St := { startState cfg fs1 stdin2 eof2 warns with
                   steps := (startState cfg fs1 stdin2 eof2 warns).steps + 1,
                   handles := [{ name := n, mode := .random, records := rs1 }] }
  have hopen2 := run_open_more g t' tn' m rs2 σ1 (by simp [FState.handle, fileSt, σ1, hnm])
    (by show 0 + 1 + 1 ≤ cfg.stepLimit; omega) hlong2 hd2
  refine ⟨_, rfl, ?_, ?_, rfl, ?_⟩
  · simp [FState.handle]
  · simp [FState.handle, hnm]
  · rw [runFileOn_parsed cfg content2 fs1 stdin2 eof2 toks _ warns hl hp]
    have e' : cfg.fuel = (g + 1 + 3) + 1 := by omega
    rw [e', runOn_cons (g + 1 + 3) _ _ _ _ hopen1, show g + 1 + 3 = (g + 3) + 1 by omega, runOn_cons (g + 3) _ more _ _ hopen2,
      show g + 3 + 1 + 1 - 2 = g + 3 by omega]
    rfl

/-- … and when the records are texts of values of two classes over the definitions visible at program start, the state after the
    second program's two OPENFILEs satisfies the two-file invariant `RInv2`, with both cursors at record 1 — so
    `C14_multi_ops_refine_pair` applies to what the second program does next -/
theorem C14_multi_restart_inv (C1 C2 : RecClass (defsOf mkGlobal mkGlobal)) (cfg : Cfg) (fs1 : List (Str × FsNode))
    (stdin2 : Str) (eof2 : Bool) (warns : List Tok) (n m : Str) (vs1 vs2 : List Val) (hne : n ≠ m)
    (hlong1 : nameTooLong n = false) (hlong2 : nameTooLong m = false)
    (hd1 : DiskHas fs1 n (vs1.map Codec.dump)) (hd2 : DiskHas fs1 m (vs2.map Codec.dump))
    (hvs1 : ∀ v ∈ vs1, C1.T v) (hvs2 : ∀ v ∈ vs2, C2.T v) :
    RInv2 C1 C2 { startState cfg fs1 stdin2 eof2 warns with
                  steps := 2, handles := [{ name := n, mode := .random, records := vs1.map Codec.dump },
                                          { name := m, mode := .random, records := vs2.map Codec.dump }] }
      n m ⟨vs1, 0⟩ ⟨vs2, 0⟩ mkGlobal [] :=
  rinv2_open_fresh C1 C2 n m vs1 vs2 (startState cfg fs1 stdin2 eof2 warns) mkGlobal [] hne rfl rfl hlong1 hlong2 hd1 hd2
    hvs1 hvs2

/-- an `RInv2` state is one from which the exit routine leaves both sequences on disk (the hypotheses `hend1`, `hend2` of
    `C14_multi_restart`) -/
theorem C14_multi_seqAtExit {defs : Codec.Defs} {C1 C2 : RecClass defs} {σ : St} {n m : Str} {q1 q2 : VSeq} {a : Act}
    {rest : List Act} (inv : RInv2 C1 C2 σ n m q1 q2 a rest) :
    SeqAtExit { fs := σ.fs, handles := σ.handles } n (q1.vals.map Codec.dump) ∧
    SeqAtExit { fs := σ.fs, handles := σ.handles } m (q2.vals.map Codec.dump) :=
  ⟨inv.i1.seqAtExit, inv.i2.seqAtExit⟩

/-! ## 4. non-vacuity -/

namespace C14MultiEx
open C14ExecEx

/-! ### two files: INTEGER records in "i.dat", STRING records with line breaks in "s.dat" -/

def fi : Str := "i.dat".toList
def fs : Str := "s.dat".toList

/-- `x : INTEGER = 7`, `s : STRING = "a⏎#b"`, `u : STRING = ""` -/
def actM : Act :=
  { id := 0, name := "Program".toList,
    vars := [{ name := "x".toList, ty := .int, val := .int 7 },
             { name := "s".toList, ty := .str, val := .str ['a', '\n', '#', 'b'] },
             { name := "u".toList, ty := .str, val := .str [] }] }
def valsI : List Val := [.int 10, .int 20]
def hdI : Handle := { name := fi, mode := .random, records := valsI.map Codec.dump }
def hdS : Handle := { name := fs, mode := .random }
/-- "i.dat" holds the INTEGER records 10, 20; "s.dat" is empty; both have just been opened FOR RANDOM -/
def stM : St :=
  { acts := [actM], fs := [(fi, .file "INTEGER 10\nINTEGER 20\n".toList), (fs, .file [])], handles := [hdI, hdS] }

abbrev defsM : Codec.Defs := defsOf actM actM
def CI : RecClass defsM := RecClass.int defsM
def CS : RecClass defsM := RecClass.str defsM

theorem intT (n : Int) (h : InRange64 n) : CI.T (.int n) := ⟨n, rfl, h⟩
theorem strT (x : Str) (h : (Codec.escNL x).length < 10 ^ 18) : CS.T (.str x) := ⟨x, rfl, h⟩

/-- INTEGER and STRING records are disjoint classes -/
theorem compatM : Compat CI CS :=
  Compat.of_disjoint CI CS (by rintro u ⟨n, rfl, _⟩ ⟨s, hs, _⟩; cases hs)

/-- the concrete state satisfies the two-file invariant -/
theorem invM : RInv2 CI CS stM fi fs ⟨valsI, 0⟩ ⟨[], 0⟩ actM [] := by
  refine ⟨by decide, ⟨rfl, rfl, hdI, ⟨by decide, rfl, rfl, by decide, ?_, ?_, by decide, ?_⟩⟩,
    ⟨rfl, rfl, hdS, ⟨by decide, rfl, rfl, by decide, by simp, ?_, by decide, ?_⟩⟩⟩
  · intro v hv
    simp only [valsI, List.mem_cons, List.not_mem_nil, or_false] at hv
    rcases hv with rfl | rfl <;> exact intT _ (by decide)
  · intro x hx hn
    simp only [stM, fileSt, List.mem_cons, List.not_mem_nil, or_false] at hx
    rcases hx with rfl | rfl
    · rfl
    · exact absurd hn (by decide)
  · unfold DiskOK
    simp only [hdI, Bool.false_eq_true, if_false]
    exact ⟨"INTEGER 10\nINTEGER 20\n".toList, by decide, by decide +kernel⟩
  · intro x hx hn
    simp only [stM, fileSt, List.mem_cons, List.not_mem_nil, or_false] at hx
    rcases hx with rfl | rfl
    · exact absurd hn (by decide)
    · rfl
  · unfold DiskOK
    simp only [hdS, Bool.false_eq_true, if_false]
    exact ⟨[], by decide, by decide⟩

/-- the interleaving (13 statements):
    `PUTRECORD i, x ; PUTRECORD s, s ; SEEK i, 3 ; PUTRECORD i, x ; CLOSEFILE s ; OPENFILE s FOR RANDOM ; GETRECORD s, u ;
     SEEK i, 2 ; GETRECORD i, x ; SEEK s, 2 ; PUTRECORD s, u ; SEEK i, 1 ; PUTRECORD i, x` -/
def opsM : List NOp :=
  [(fi, .put (tk 1) (tk 1) tx), (fs, .put (tk 2) (tk 2) ts), (fi, .seek (tk 3) (tk 3) (tk 3) 3), (fi, .put (tk 4) (tk 4) tx),
   (fs, .reopen (tk 5) (tk 5) (tk 6) (tk 6)), (fs, .get (tk 7) (tk 7) tu), (fi, .seek (tk 8) (tk 8) (tk 8) 2),
   (fi, .get (tk 9) (tk 9) tx), (fs, .seek (tk 10) (tk 10) (tk 10) 2), (fs, .put (tk 11) (tk 11) tu),
   (fi, .seek (tk 12) (tk 12) (tk 12) 1), (fi, .put (tk 13) (tk 13) tx)]

theorem varsM : VarsOK2 CI CS fi actM opsM := by
  have gx : GoodVar CI actM "x".toList := ⟨.int, _, ⟨_, rfl, rfl, rfl, rfl, rfl⟩, rfl, intT 7 (by decide)⟩
  have gs : GoodVar CS actM "s".toList := ⟨.str, _, ⟨_, rfl, rfl, rfl, rfl, rfl⟩, rfl, strT _ (by decide)⟩
  have gu : GoodVar CS actM "u".toList := ⟨.str, _, ⟨_, rfl, rfl, rfl, rfl, rfl⟩, rfl, strT _ (by decide)⟩
  intro p hp y hy
  simp only [opsM, List.mem_cons, List.not_mem_nil, or_false] at hp
  rcases hp with rfl | rfl | rfl | rfl | rfl | rfl | rfl | rfl | rfl | rfl | rfl | rfl <;> cases hy <;>
    first
      | exact ⟨fun _ => gx, fun h => absurd rfl h⟩
      | exact ⟨fun h => absurd h (by decide), fun _ => gs⟩
      | exact ⟨fun h => absurd h (by decide), fun _ => gu⟩

theorem namesM : ∀ p ∈ opsM, p.1 = fi ∨ p.1 = fs := by
  intro p hp
  simp only [opsM, List.mem_cons, List.not_mem_nil, or_false] at hp
  rcases hp with rfl | rfl | rfl | rfl | rfl | rfl | rfl | rfl | rfl | rfl | rfl | rfl <;> simp

/-- the abstract run: "i.dat" ends as 20, 20, 7 (record 1 replaced twice, record 3 appended), "s.dat" as two copies of the
    two-line string; `u` has received the string back after close + reopen, `x` the INTEGER record 2 -/
theorem specM : spec2Run fi ⟨valsI, 0⟩ ⟨[], 0⟩ actM opsM =
    ⟨⟨[.int 20, .int 20, .int 7], 0⟩, ⟨[.str ['a', '\n', '#', 'b'], .str ['a', '\n', '#', 'b']], 1⟩,
      setVar (setVar actM "u".toList (.str ['a', '\n', '#', 'b'])) "x".toList (.int 20), 13, none⟩ := by rfl

/-- the run according to `C14_multi_ops_refine_pair`: normal end after 13 steps, both handles abstract to the sequences of the
    abstract run -/
theorem runM_by_theorem : ∃ (σ' : St) (h1' h2' : Handle),
    (runBlock 16 (block2 opsM)).run.run stM = (.ok ⟨⟩, σ') ∧
    FState.handle { fs := σ'.fs, handles := σ'.handles } fi = some h1' ∧
    FState.handle { fs := σ'.fs, handles := σ'.handles } fs = some h2' ∧
    absH h1' = ⟨["INTEGER 20".toList, "INTEGER 20".toList, "INTEGER 7".toList], 0⟩ ∧
    absH h2' = ⟨["STRING 5 a\n##b".toList, "STRING 5 a\n##b".toList], 1⟩ ∧
    σ'.steps = 13 ∧
    σ'.acts = [setVar (setVar actM "u".toList (.str ['a', '\n', '#', 'b'])) "x".toList (.int 20)] := by
  obtain ⟨_, _, σ', h1', h2', hh1, _, hh2, _, _, _, _, _, ha1, ha2, _, hfr, _, hres⟩ :=
    C14_multi_ops_refine_pair CI CS compatM 16 fi fs opsM stM hdI hdS ⟨valsI, 0⟩ ⟨[], 0⟩ actM [] invM (by decide) (by decide)
      varsM namesM (by decide) (by decide)
  rw [specM] at ha1 ha2 hfr hres
  refine ⟨σ', h1', h2', hres.1, hh1, hh2, ?_, ?_, by rw [hfr]; rfl, by rw [hfr]⟩
  · rw [ha1]; decide +kernel
  · rw [ha2]; decide +kernel

/-- the same run computed by the kernel from the model: the handles, the disk ("s.dat" was written by its CLOSEFILE — one
    record, two physical lines —, "i.dat" not yet), the variables -/
theorem runM_computed :
    isOkUnit ((runBlock 16 (block2 opsM)).run.run stM).1 = true ∧
    ((runBlock 16 (block2 opsM)).run.run stM).2.handles =
      [{ hdI with records := ["INTEGER 20".toList, "INTEGER 20".toList, "INTEGER 7".toList], ptr := 0, modified := true },
       { hdS with records := ["STRING 5 a\n##b".toList, "STRING 5 a\n##b".toList], ptr := 1, modified := true }] ∧
    ((runBlock 16 (block2 opsM)).run.run stM).2.fs =
      [(fi, .file "INTEGER 10\nINTEGER 20\n".toList), (fs, .file "STRING 5 a\n##b\n".toList)] ∧
    ((runBlock 16 (block2 opsM)).run.run stM).2.steps = 13 ∧
    (((runBlock 16 (block2 opsM)).run.run stM).2.acts.map fun a =>
      (intOf (varVal a "x".toList), C14ExecEx.strOf (varVal a "u".toList))) = [(some 20, some ['a', '\n', '#', 'b'])] := by
  decide +kernel

/-- the two `SOp` histories of the run, one per file -/
example : trace2 fi ⟨valsI, 0⟩ ⟨[], 0⟩ actM opsM =
    ([.put "INTEGER 7".toList, .seek 3, .put "INTEGER 7".toList, .seek 2, .get, .seek 1, .put "INTEGER 20".toList],
     [.put "STRING 5 a\n##b".toList, .seek 1, .get, .seek 2, .put "STRING 5 a\n##b".toList]) := by rfl

/-- a failing interleaving: two more statements `SEEK s, 3 ; GETRECORD s, u` — address 3 = len + 1 is accepted by SEEK, but there
    is no record under the cursor, so GETRECORD is refused (`recordRead`, line 15) after 15 steps; by the theorem -/
example : ∃ (σ' : St) (d : Diag),
    (runBlock 18 (block2 (opsM ++ [(fs, .seek (tk 14) (tk 14) (tk 14) 3), (fs, .get (tk 15) (tk 15) tu)]))).run.run stM =
      (.error (.diag d), σ') ∧
    d.kind = .runtime ∧ d.msg = .recordRead ∧ d.line = 15 ∧ σ'.steps = 15 := by
  have hspec : spec2Run fi ⟨valsI, 0⟩ ⟨[], 0⟩ actM (opsM ++ [(fs, .seek (tk 14) (tk 14) (tk 14) 3), (fs, .get (tk 15) (tk 15) tu)]) =
      ⟨⟨[.int 20, .int 20, .int 7], 0⟩, ⟨[.str ['a', '\n', '#', 'b'], .str ['a', '\n', '#', 'b']], 2⟩,
        setVar (setVar actM "u".toList (.str ['a', '\n', '#', 'b'])) "x".toList (.int 20), 15,
        some (fs, .get (tk 15) (tk 15) tu)⟩ := by rfl
  have hv : VarsOK2 CI CS fi actM (opsM ++ [(fs, .seek (tk 14) (tk 14) (tk 14) 3), (fs, .get (tk 15) (tk 15) tu)]) := by
    intro p hp y hy
    rcases List.mem_append.mp hp with hp | hp
    · exact varsM p hp y hy
    · simp only [List.mem_cons, List.not_mem_nil, or_false] at hp
      rcases hp with rfl | rfl <;> cases hy
      exact ⟨fun h => absurd h (by decide),
        fun _ => ⟨.str, _, ⟨_, rfl, rfl, rfl, rfl, rfl⟩, rfl, strT _ (by decide)⟩⟩
  have hn : ∀ p ∈ opsM ++ [(fs, .seek (tk 14) (tk 14) (tk 14) 3), (fs, .get (tk 15) (tk 15) tu)], p.1 = fi ∨ p.1 = fs := by
    intro p hp
    rcases List.mem_append.mp hp with hp | hp
    · exact namesM p hp
    · simp only [List.mem_cons, List.not_mem_nil, or_false] at hp
      rcases hp with rfl | rfl <;> simp
  obtain ⟨_, _, σ', _, _, _, _, _, _, _, _, _, _, _, _, _, hfr, _, hres⟩ :=
    C14_multi_ops_refine_pair CI CS compatM 18 fi fs _ stM hdI hdS ⟨valsI, 0⟩ ⟨[], 0⟩ actM [] invM (by decide) (by decide)
      hv hn (by decide) (by decide)
  rw [hspec] at hfr hres
  obtain ⟨_, _, d, hrun, hk, hm, hl, _⟩ := hres
  exact ⟨σ', d, hrun, hk, hm, hl, by rw [hfr]; rfl⟩

/-- the frame theorem on the example: a block on "i.dat" alone (with a close + reopen of it) keeps the handle of "s.dat" -/
example : ∃ res σ', (runBlock 7 (block fi [.put (tk 1) (tk 1) tx, .reopen (tk 2) (tk 2) (tk 3) (tk 3), .get (tk 4) (tk 4) tx])).run.run stM =
      (res, σ') ∧
    FState.handle { fs := σ'.fs, handles := σ'.handles } fs = some hdS ∧
    FState.node { fs := σ'.fs, handles := σ'.handles } fs = some (.file []) := by
  have hv : VarsOK CI actM [.put (tk 1) (tk 1) tx, .reopen (tk 2) (tk 2) (tk 3) (tk 3), .get (tk 4) (tk 4) tx] := by
    intro o ho y hy
    simp only [List.mem_cons, List.not_mem_nil, or_false] at ho
    rcases ho with rfl | rfl | rfl <;> cases hy <;>
      exact ⟨.int, _, ⟨_, rfl, rfl, rfl, rfl, rfl⟩, rfl, intT 7 (by decide)⟩
  obtain ⟨res, σ', hrun, _, hall⟩ := C14_multi_frame CI 7 fi _ stM ⟨valsI, 0⟩ actM [] invM.i1 hv (by decide) (by decide)
  obtain ⟨_, hh, hn, _⟩ := hall fs (by decide)
  exact ⟨res, σ', hrun, by rw [hh]; decide, by rw [hn]; decide⟩

/-- `C14_multi_reopen_one` on the example: close + reopen of "s.dat" leaves "i.dat"'s handle alone -/
example : ∃ σ', (runBlock 5 [.closeFile (tk 1) (.strLit (tk 1) fs), .openFile (tk 2) (.strLit (tk 2) fs) .random]).run.run stM =
      (.ok ⟨⟩, σ') ∧
    FState.handle { fs := σ'.fs, handles := σ'.handles } fi = some hdI := by
  obtain ⟨σ', hrun, _, hh, _⟩ := C14_multi_reopen_one CS CI 5 (tk 1) (tk 1) (tk 2) (tk 2) fs fi stM hdI ⟨[], 0⟩ ⟨valsI, 0⟩ actM []
    invM.symm (by decide) (by decide) (by decide)
  exact ⟨σ', hrun, hh⟩

/-! ### one file with records of two types -/

/-- "m.dat": record 1 is the INTEGER 10, record 2 the STRING "a⏎#b" -/
def fm : Str := "m.dat".toList
def hdX : Handle :=
  { name := fm, mode := .random, records := [Codec.dump (.int 10), Codec.dump (.str ['a', '\n', '#', 'b'])] }
def stX : St := { acts := [actM], fs := [(fm, .file "INTEGER 10\nSTRING 5 a\n##b\n".toList)], handles := [hdX] }

theorem hasX : HasVar actM "x".toList .int (.int 7) := ⟨_, rfl, rfl, rfl, rfl, rfl⟩
theorem hasU : HasVar actM "u".toList .str (.str []) := ⟨_, rfl, rfl, rfl, rfl, rfl⟩

/-- `SEEK m, 2 ; GETRECORD m, x` (x : INTEGER, record 2 a STRING): by `C14_multi_seek_get` + `Mismatch.tag` a `recordRead`
    error at the GETRECORD (line 2) after 2 steps; cursor on record 2, `x` still 7 -/
example : ∃ d, (runBlock 5 [.seek (tk 1) (.strLit (tk 1) fm) (.intLit (tk 1) 2), .getRecord (tk 2) (.strLit (tk 2) fm) tx]).run.run stX =
      (.error (.diag d), { stX with steps := 2, handles := [{ hdX with ptr := 1 }] }) ∧
    d.kind = .runtime ∧ d.msg = .recordRead ∧ d.line = 2 := by
  obtain ⟨_, herr, _⟩ := C14_multi_seek_get (defs := defsM) 5 (tk 1) (tk 1) (tk 1) (tk 2) (tk 2) tx fm 2 stX actM [] .int (.int 7)
    hdX (Codec.dump (.str ['a', '\n', '#', 'b'])) rfl rfl hasX rfl (by decide) rfl (by decide) rfl (by decide) (by decide)
  obtain ⟨d, hrun, hk, hm, hl, _⟩ := herr
    (C14_multi_mismatch_load_none defsM (.int 7) (.str ['a', '\n', '#', 'b']) (.tag _ _ (by decide) (by decide)))
  exact ⟨d, hrun, hk, hm, hl⟩

/-- … and `SEEK m, 2 ; GETRECORD m, u` (u : STRING) reads the string although record 1 is an INTEGER: by `C14_multi_seek_get`
    with the C13 round trip -/
example : (runBlock 5 [.seek (tk 1) (.strLit (tk 1) fm) (.intLit (tk 1) 2), .getRecord (tk 2) (.strLit (tk 2) fm) tu]).run.run stX =
      (.ok ⟨⟩, { stX with steps := 2, acts := [setVar actM "u".toList (.str ['a', '\n', '#', 'b'])],
                          handles := [{ hdX with ptr := 1 }] }) := by
  obtain ⟨_, _, hok⟩ := C14_multi_seek_get (defs := defsM) 5 (tk 1) (tk 1) (tk 1) (tk 2) (tk 2) tu fm 2 stX actM [] .str (.str [])
    hdX (Codec.dump (.str ['a', '\n', '#', 'b'])) rfl rfl hasU rfl (by decide) rfl (by decide) rfl (by decide) (by decide)
  have hl := CS.load_dump (.str ['a', '\n', '#', 'b']) (.str []) (strT _ (by decide)) (strT _ (by decide))
  cases hl' : Codec.load defsM (.str []) (Codec.dump (.str ['a', '\n', '#', 'b'])) with
  | none => rw [hl'] at hl; cases hl
  | some p =>
    obtain ⟨nv, r⟩ := p
    rw [hl'] at hl
    injection hl with hl
    have : nv = .str ['a', '\n', '#', 'b'] := hl
    subst this
    exact hok _ r hl' rfl

/-- `C14_multi_get_right_shape` / `C14_multi_get_class` on the example: with the cursor on record 1, `GETRECORD m, x` yields 10 -/
example : (execStmt 3 (.getRecord (tk 1) (.strLit (tk 1) fm) tx)).run.run stX =
    (.ok .none, { stX with steps := 1, acts := [setVar actM "x".toList (.int 10)] }) :=
  C14_multi_get_class CI 3 (tk 1) (tk 1) tx fm stX actM [] (.int 10) hdX rfl rfl
    ⟨.int, _, hasX, rfl, intT 7 (by decide)⟩ (intT 10 (by decide)) (by decide) rfl rfl (by decide) (by decide)

/-- the kernel computes the same three runs from the model -/
example :
    ((runBlock 5 [.seek (tk 1) (.strLit (tk 1) fm) (.intLit (tk 1) 2), .getRecord (tk 2) (.strLit (tk 2) fm) tx]).run.run stX).2.handles =
      [{ hdX with ptr := 1 }] ∧
    ((runBlock 5 [.seek (tk 1) (.strLit (tk 1) fm) (.intLit (tk 1) 2), .getRecord (tk 2) (.strLit (tk 2) fm) tx]).run.run stX).2.steps = 2 ∧
    (((runBlock 5 [.seek (tk 1) (.strLit (tk 1) fm) (.intLit (tk 1) 2), .getRecord (tk 2) (.strLit (tk 2) fm) tx]).run.run stX).2.acts.map
      fun a => intOf (varVal a "x".toList)) = [some 7] ∧
    isOkUnit ((runBlock 5 [.seek (tk 1) (.strLit (tk 1) fm) (.intLit (tk 1) 2), .getRecord (tk 2) (.strLit (tk 2) fm) tx]).run.run stX).1 = false ∧
    isOkUnit ((runBlock 5 [.seek (tk 1) (.strLit (tk 1) fm) (.intLit (tk 1) 2), .getRecord (tk 2) (.strLit (tk 2) fm) tu]).run.run stX).1 = true ∧
    (((runBlock 5 [.seek (tk 1) (.strLit (tk 1) fm) (.intLit (tk 1) 2), .getRecord (tk 2) (.strLit (tk 2) fm) tu]).run.run stX).2.acts.map
      fun a => C14ExecEx.strOf (varVal a "u".toList)) = [some ['a', '\n', '#', 'b']] ∧
    (((execStmt 3 (.getRecord (tk 1) (.strLit (tk 1) fm) tx)).run.run stX).2.acts.map fun a => intOf (varVal a "x".toList)) =
      [some 10] := by
  decide +kernel

/-! ### restart with two files: two programs through `runFile` -/

/-- the first program writes INTEGER records 10, 20 to "i.dat" and the STRING records "a⏎#b", "zz" to "s.dat" (closing and
    reopening "s.dat" in between) and ends with both files open -/
def p1 : String :=
  "DECLARE x : INTEGER\nDECLARE s : STRING\nOPENFILE \"i.dat\" FOR RANDOM\nOPENFILE \"s.dat\" FOR RANDOM\nx <- 10\nPUTRECORD \"i.dat\", x\ns <- \"a\" & CHR(10) & \"#b\"\nPUTRECORD \"s.dat\", s\nx <- 20\nSEEK \"i.dat\", 2\nPUTRECORD \"i.dat\", x\nCLOSEFILE \"s.dat\"\nOPENFILE \"s.dat\" FOR RANDOM\nSEEK \"s.dat\", 2\ns <- \"zz\"\nPUTRECORD \"s.dat\", s"

/-- the second program opens both, reads INTEGER record 2, STRING records 1 and 2, and finally tries to read STRING record 2
    into the INTEGER variable -/
def p2 : String :=
  "OPENFILE \"i.dat\" FOR RANDOM\nOPENFILE \"s.dat\" FOR RANDOM\nDECLARE y : INTEGER\nDECLARE u : STRING\nSEEK \"i.dat\", 2\nGETRECORD \"i.dat\", y\nOUTPUT y\nGETRECORD \"s.dat\", u\nOUTPUT LENGTH(u)\nSEEK \"s.dat\", 2\nGETRECORD \"s.dat\", u\nOUTPUT u\nGETRECORD \"s.dat\", y"

/-- the exit routine of the first run writes both files -/
theorem restart2_fs : (runFile {} p1.toList [] []).fs =
      [(fi, .file "INTEGER 10\nINTEGER 20\n".toList), (fs, .file "STRING 5 a\n##b\nSTRING 2 zz\n".toList)] ∧
    (runFile {} p1.toList [] []).exitCode = 0 := by decide +kernel

/-- the second program finds 20, the 4-byte string, "zz"; reading the STRING record into the INTEGER variable is refused
    (`recordRead`, line 13: a type mismatch, the cursor IS on a record) -/
theorem restart2_second :
    (runFile {} p2.toList (runFile {} p1.toList [] []).fs []).out = "20\n4\nzz\n\n".toList ∧
    (runFile {} p2.toList (runFile {} p1.toList [] []).fs []).diags.map (fun d => (d.line, d.msg)) = [(13, .recordRead)] := by
  decide +kernel

def hdEndI : Handle := { name := fi, mode := .random, records := valsI.map Codec.dump, ptr := 1, modified := true }
def hdEndS : Handle :=
  { name := fs, mode := .random, records := [Codec.dump (.str ['a', '\n', '#', 'b']), Codec.dump (.str "zz".toList)], ptr := 1,
    modified := true }

set_option maxRecDepth 100000 in
theorem p1_end_handles :
    FState.handles { fs := (endState {} p1.toList [] [] false).fs, handles := (endState {} p1.toList [] [] false).handles } =
      [hdEndI, hdEndS] := by decide +kernel

set_option maxRecDepth 100000 in
theorem p1_end_nodes :
    FState.node { fs := (endState {} p1.toList [] [] false).fs, handles := (endState {} p1.toList [] [] false).handles } fi =
      some (.file []) ∧
    FState.node { fs := (endState {} p1.toList [] [] false).fs, handles := (endState {} p1.toList [] [] false).handles } fs =
      some (.file "STRING 5 a\n##b\n".toList) := by decide +kernel

/-- the hypotheses `hend1`, `hend2` of `C14_multi_restart` hold for the first program -/
theorem p1_seqAtExit :
    SeqAtExit { fs := (endState {} p1.toList [] [] false).fs, handles := (endState {} p1.toList [] [] false).handles } fi
      hdEndI.records ∧
    SeqAtExit { fs := (endState {} p1.toList [] [] false).fs, handles := (endState {} p1.toList [] [] false).handles } fs
      hdEndS.records := by
  constructor
  · refine seqAtExit_modified _ hdEndI [] ?_ rfl rfl ?_ p1_end_nodes.1 ?_
    · unfold FState.handle; rw [p1_end_handles]; decide
    · intro r hr
      obtain ⟨v, hv, rfl⟩ := List.mem_map.mp hr
      simp only [valsI, List.mem_cons, List.not_mem_nil, or_false] at hv
      rcases hv with rfl | rfl <;> exact Codec.C13_dump_framed _ (by simp [Codec.Clean])
    · intro x hx hn
      rw [p1_end_handles] at hx
      simp only [List.mem_cons, List.not_mem_nil, or_false] at hx
      rcases hx with rfl | rfl
      · rfl
      · exact absurd hn (by decide)
  · refine seqAtExit_modified _ hdEndS _ ?_ rfl rfl ?_ p1_end_nodes.2 ?_
    · unfold FState.handle; rw [p1_end_handles]; decide
    · intro r hr
      simp only [hdEndS, List.mem_cons, List.not_mem_nil, or_false] at hr
      rcases hr with rfl | rfl <;> exact Codec.C13_dump_framed _ (by simp [Codec.Clean])
    · intro x hx hn
      rw [p1_end_handles] at hx
      simp only [List.mem_cons, List.not_mem_nil, or_false] at hx
      rcases hx with rfl | rfl
      · exact absurd hn (by decide)
      · rfl

/-- by `C14_multi_restart`: the file system the first run leaves holds both sequences, and the second run is the rest of the
    second program started in a state whose handles are exactly `⟨"i.dat", RANDOM, 10 20, cursor 0⟩`,
    `⟨"s.dat", RANDOM, "a⏎#b" "zz", cursor 0⟩` -/
theorem restart2_by_theorem : ∃ (more : Block) (σ2 : St),
    DiskHas (runFile {} p1.toList [] []).fs fi hdEndI.records ∧ DiskHas (runFile {} p1.toList [] []).fs fs hdEndS.records ∧
    σ2.handles = [{ name := fi, mode := .random, records := hdEndI.records },
                  { name := fs, mode := .random, records := hdEndS.records }] ∧
    σ2.fs = (runFile {} p1.toList [] []).fs ∧ σ2.steps = 2 ∧
    runFileOn {} p2.toList (runFile {} p1.toList [] []).fs [] false = finishFile (runOn (({} : Cfg).fuel - 2) more σ2) := by
  obtain ⟨toks, t, tn, t', tn', more, warns, hl, hp⟩ := frontOpen2_spec {} p2.toList fi fs (by decide +kernel)
  have hfs := runFile_fs {} p1.toList [] []
  obtain ⟨hd1, hd2, _, σ2, hσ2, _, _, hfs2, hrun⟩ :=
    C14_multi_restart {} p1.toList p2.toList [] [] [] false false fi fs hdEndI.records hdEndS.records toks t tn t' tn' more warns
      (by decide) p1_seqAtExit.1 p1_seqAtExit.2 (by decide) (by decide) hl hp (by decide) (by decide) _ hfs
  exact ⟨more, σ2, hd1, hd2, by rw [hσ2], hfs2, by rw [hσ2], hrun⟩

/-- … in which the two-file invariant holds (`C14_multi_restart_inv`), e.g. for the file system computed above -/
example : RInv2 (RecClass.int (defsOf mkGlobal mkGlobal)) (RecClass.str (defsOf mkGlobal mkGlobal))
    { startState {} (runFile {} p1.toList [] []).fs [] false [] with
      steps := 2, handles := [{ name := fi, mode := .random, records := valsI.map Codec.dump },
                              { name := fs, mode := .random,
                                records := [Val.str ['a', '\n', '#', 'b'], Val.str "zz".toList].map Codec.dump }] }
    fi fs ⟨valsI, 0⟩ ⟨[.str ['a', '\n', '#', 'b'], .str "zz".toList], 0⟩ mkGlobal [] := by
  have hd := restart2_by_theorem
  obtain ⟨_, _, hd1, hd2, _⟩ := hd
  refine C14_multi_restart_inv _ _ {} _ [] false [] fi fs valsI _ (by decide) (by decide) (by decide) hd1 hd2 ?_ ?_
  · intro v hv
    simp only [valsI, List.mem_cons, List.not_mem_nil, or_false] at hv
    rcases hv with rfl | rfl <;> exact ⟨_, rfl, by decide⟩
  · intro v hv
    simp only [List.mem_cons, List.not_mem_nil, or_false] at hv
    rcases hv with rfl | rfl <;> exact ⟨_, rfl, by decide⟩

/-! ### a record whose text fails to decode only after its first field (model vs C++) -/

/-- REPL session: the file "t.dat" holds `COMPOSITE R INTEGER 111 INTEGER 222` (written by an earlier run in which `R` had two
    INTEGER fields); now `R` has the fields `a : INTEGER`, `b : STRING`, and `r = (5, "old")`. GETRECORD fails (`recordRead`) —
    and in the MODEL `r.a` is still 5 (`Codec.load` is all-or-nothing, as `C14_multi_get_mismatch` says). The C++ interpreter
    (`Composite::load`, src/psc/types/userType.cpp, loads field by field into the variable itself) prints 111 here: the first
    field has been overwritten before the second one failed. -/
def partialInput : String :=
  "TYPE R\nDECLARE a : INTEGER\nDECLARE b : STRING\nENDTYPE\n\nDECLARE r : R\nr.a <- 5\nr.b <- \"old\"\nOPENFILE \"t.dat\" FOR RANDOM\nGETRECORD \"t.dat\", r\nOUTPUT r.a\nOUTPUT r.b\nEXIT\n"

theorem partial_load_witness :
    (repl {} [("t.dat".toList, .file "COMPOSITE R INTEGER 111 INTEGER 222\n".toList)] partialInput.toList).out =
      "> . . . . \x1e> \x1e> \x1e> \x1e> \x1e> \n\x1e> 5\n\x1e> old\n\x1e> ".toList ∧
    (repl {} [("t.dat".toList, .file "COMPOSITE R INTEGER 111 INTEGER 222\n".toList)] partialInput.toList).diags.map (·.msg) =
      [.recordRead] := by decide +kernel

end C14MultiEx

end Pseudo
