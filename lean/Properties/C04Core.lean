import PseudoModel.Eval
/-!
# C04 (core) — locals belong to one activation: `withAct` always removes the activation it pushed
Every procedure / function call (and every record initialisation) runs its body inside `withAct`. Whatever way the body
ends — normally, with a runtime error, with RETURN / BREAK / CONTINUE signals — the activation is popped, so the callee's
locals are gone after the call and no other procedure can see them. (The full stack discipline for nested calls is
`C04_stack_discipline`, Properties/C04.lean.)
-/
namespace Pseudo

/-- after `withAct`, the activation stack is the body's final stack minus its innermost entry, for every outcome of the body -/
theorem C04_withAct_pops {α} (mk : Nat → Act) (body : M α) (σ : St) :
    let pushed : St := { σ with acts := mk σ.nextId :: σ.acts, nextId := σ.nextId + 1 }
    ((withAct mk body).run.run σ).2.acts = ((body.run.run pushed).2.acts).drop 1 ∧
    ((withAct mk body).run.run σ).2.nextId = (body.run.run pushed).2.nextId := by
  unfold withAct pushAct popAct
  simp only [ExceptT.run, bind, ExceptT.bind, ExceptT.mk, StateT.bind, get, getThe, MonadStateOf.get, liftM, monadLift, set,
    MonadLift.monadLift, ExceptT.lift, StateT.get, StateT.set, Functor.map, StateT.map, ExceptT.bindCont, StateT.run, pure, StateT.pure,
    ExceptT.pure, modify, modifyGet, MonadStateOf.modifyGet, StateT.modifyGet]
  generalize body { σ with acts := mk σ.nextId :: σ.acts, nextId := σ.nextId + 1 } = r
  obtain ⟨a, s⟩ := r
  cases a <;> simp [throw, throwThe, MonadExceptOf.throw, ExceptT.mk, pure, StateT.pure, ExceptT.pure, StateT.map, StateT.modifyGet, StateT.bind, ExceptT.bindCont, bind]

/-- if the body leaves the (extended) stack as it found it, the call leaves the caller's stack as it found it -/
theorem C04_withAct_restores {α} (mk : Nat → Act) (body : M α) (σ : St)
    (hbody : (body.run.run { σ with acts := mk σ.nextId :: σ.acts, nextId := σ.nextId + 1 }).2.acts = mk σ.nextId :: σ.acts) :
    ((withAct mk body).run.run σ).2.acts = σ.acts := by
  rw [(C04_withAct_pops mk body σ).1, hbody]; rfl

/-- a BYVAL parameter is a new cell of the new activation holding a copy of the (implicitly converted) argument;
    a BYREF parameter is an alias slot pointing at the caller's location -/
theorem C04_param_slots (pn : Str) (pty : Ty) (v : Val) (l : Loc) (c : Bool) :
    ({ name := pn, ty := pty, val := implicitCast pty v } : Slot).ref = none ∧
    ({ name := pn, ty := pty, isConst := c, val := .none, ref := some l } : Slot).ref = some l := ⟨rfl, rfl⟩

/-- a name resolves to the activation's own variables first and to the global variables otherwise -/
theorem C04_lookup (a g : Act) (n : Str) :
    lookupVarIn a g n = (match findSlot a.vars n with
      | some s => some (a, s)
      | none => if a.id == g.id then none else (findSlot g.vars n).map (fun s => (g, s))) := rfl

end Pseudo
