import PseudoModel.Top
import Properties.C10
/-!
# C10 — layout: whole-pipeline corollaries of the lexer-level line-ending theorems
`Properties/C10.lean` proves CR-insensitivity for `lex` only; here it is lifted, for ALL texts,
configurations, file systems and inputs, to `runSource` and `runFile` (`PseudoModel/Top.lean`):
output, exit status, diagnostics (kind, line AND column), steps and final state are equal.
-/
namespace Pseudo

/-- Running a source text and running it with every carriage return removed give the very same
    outcome and final state (output, diagnostics with their positions, files). -/
theorem C10_layout_crlf_runSource (cfg : Cfg) (src : Str) (st : St) :
    runSource cfg src st = runSource cfg (src.filter (· != '\r')) st := by
  unfold runSource
  rw [← C10_crlf]

/-- Running a program file and running the same file with every carriage return removed give
    the same `RunResult` (output, exit code, diagnostics, crash flag, file system, stdin left). -/
theorem C10_layout_crlf_runFile (cfg : Cfg) (content : Str) (fs : List (Str × FsNode)) (stdin : Str) :
    runFile cfg content fs stdin = runFile cfg (content.filter (· != '\r')) fs stdin := by
  have h : (content ++ ['\n']).filter (· != '\r') = content.filter (· != '\r') ++ ['\n'] := by
    simp [List.filter_append]
  unfold runFile runFileOn
  dsimp only
  rw [C10_layout_crlf_runSource cfg (content ++ ['\n']), h]

/-- Writing every line break of a program file as CRLF instead of LF does not change the
    `RunResult` at all. -/
theorem C10_layout_crlf_insert_runFile (cfg : Cfg) (content : Str) (fs : List (Str × FsNode)) (stdin : Str) :
    runFile cfg (content.flatMap fun c => if c = '\n' then ['\r', '\n'] else [c]) fs stdin
      = runFile cfg content fs stdin := by
  rw [C10_layout_crlf_runFile cfg (content.flatMap _), C10_layout_crlf_runFile cfg content]
  congr 1
  induction content with
  | nil => rfl
  | cons c s ih =>
    by_cases h : c = '\n'
    · subst h; simp [ih]
    · by_cases h' : c = '\r' <;> simp [h, h', ih]

/-- Writing every line break of a source text as CRLF instead of LF does not change the outcome
    or the final state of `runSource` (the entry shared by file mode and the REPL). -/
theorem C10_layout_crlf_insert_runSource (cfg : Cfg) (src : Str) (st : St) :
    runSource cfg (src.flatMap fun c => if c = '\n' then ['\r', '\n'] else [c]) st
      = runSource cfg src st := by
  unfold runSource
  rw [C10_crlf_insert]

/-- A text consisting of one comment only (`//` then any characters but a line break) lexes to
    the end marker alone, on line 1 — the same tokens, up to the column, as the empty text.
    `_partial`: the comment is at the very start of the text and runs to its end; the general
    statement (comment appended to an arbitrary line of an arbitrary text) is not proved here. -/
theorem C10_layout_comment_only_partial (cfg : LexCfg) (t : List Char) (ht : '\n' ∉ t) :
    ExRel ToksEqc (lex cfg ('/' :: '/' :: t)) (lex cfg []) := by
  have ht' : '\n' ∉ t.filter (· != '\r') := fun h => ht (List.mem_filter.mp h).1
  obtain ⟨col', h⟩ := C10_comment_eof_result cfg ((t.filter (· != '\r')).length + 2)
    (t.filter (· != '\r')) 1 1 '/' none [] ht'
  have hs : ('/' :: '/' :: t).filter (· != '\r') = '/' :: '/' :: t.filter (· != '\r') := by
    simp
  unfold lex
  simp only [hs, List.length_cons, Cur.init]
  rw [h]
  exact ToksEqc.cons rfl rfl rfl rfl

example : '\n' ∉ " a \" 1 'x' // BREAK".toList := by decide

/-- concrete instance: a CRLF text and its CR-free form -/
example : ("OUTPUT 1\r\nOUTPUT 2\r\n".toList).filter (· != '\r') = "OUTPUT 1\nOUTPUT 2\n".toList := by decide
example : ("OUTPUT 1\nOUTPUT 2".toList.flatMap fun c => if c = '\n' then ['\r', '\n'] else [c])
    = "OUTPUT 1\r\nOUTPUT 2".toList := by decide

end Pseudo
