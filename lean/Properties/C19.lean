import PseudoModel.Numeric
/-!
# C19 — enumerated values keep their type and cycle through their declared order
Model: the enum branch of `Pseudo.evalArith`, `Pseudo.evalCmp`, `Pseudo.storeCompatible`.
-/
namespace Pseudo

/-- the cyclic move: position + k modulo the number of names (Euclidean remainder), for every integer k -/
theorem C19_cycle (n : Nat) (hn : 0 < n) (res : Int) :
    ((enumShift n res : Nat) : Int) = res % (n : Int) ∧ enumShift n res < n := by
  unfold enumShift
  have h0 : 0 ≤ res % (n : Int) := Int.emod_nonneg _ (by omega)
  have h1 : res % (n : Int) < (n : Int) := Int.emod_lt_of_pos _ (by omega)
  constructor
  · exact Int.toNat_of_nonneg h0
  · omega

/-- `E + k`, `k + E` and `E - k` on a value at position `idx` of an enum type with `n` names: the result
    is a value of the *same* type at position `(idx ± k) mod n` — no 64-bit wrap-around, for every k. -/
theorem C19_add (size : Str → Option Nat) (ty : Str) (idx n : Nat) (k : Int) (hs : size ty = some n) (hn : 0 < n) :
    evalArith size .add (.enum ty idx) (.int k) = .ok (.enum ty (enumShift n (idx + k))) ∧
    evalArith size .add (.int k) (.enum ty idx) = .ok (.enum ty (enumShift n (k + idx))) ∧
    evalArith size .sub (.enum ty idx) (.int k) = .ok (.enum ty (enumShift n (idx - k))) := by
  have hn' : (n == 0) = false := by simp; omega
  refine ⟨?_, ?_, ?_⟩ <;> simp [evalArith, hs, hn']

/-- other arithmetic on enum values is rejected -/
theorem C19_no_other_arith (size : Str → Option Nat) (ty : Str) (idx : Nat) (k : Int) (op : ArOp)
    (h : op ≠ .add ∧ op ≠ .sub) : evalArith size op (.enum ty idx) (.int k) = .error .typeMismatch := by
  obtain ⟨h1, h2⟩ := h
  cases op <;> simp_all [evalArith]

/-- `=` and `<>` compare positions within one type; values of different enum types are never equal -/
theorem C19_eq (ty : Str) (i j : Nat) :
    evalCmp .eq (.enum ty i) (.enum ty j) = .ok (.bool (i == j)) ∧
    evalCmp .ne (.enum ty i) (.enum ty j) = .ok (.bool (!(i == j))) := by
  constructor <;> simp [evalCmp, eqRes, Val.ty]

theorem C19_eq_cross (ta tb : Str) (i j : Nat) (h : ta ≠ tb) :
    evalCmp .eq (.enum ta i) (.enum tb j) = .ok (.bool false) := by
  simp [evalCmp, eqRes, Val.ty, h]

/-- a value of enum type A is not store-compatible with a target of enum type B ≠ A (whatever channel
    performs the store: every channel applies `implicitCast` then compares the types) -/
theorem C19_cross_type (ta tb : Str) (i : Nat) (h : ta ≠ tb) : storeCompatible (.enum tb) (.enum ta i) = false := by
  simp [storeCompatible, implicitCast, Val.ty, h]

theorem C19_same_type (ta : Str) (i : Nat) : storeCompatible (.enum ta) (.enum ta i) = true := by
  simp [storeCompatible, implicitCast, Val.ty]

/-! non-vacuity -/
example : enumShift 3 (-1) = 2 := by decide
example : enumShift 5 (1 + 9223372036854775807) = 3 := by decide

end Pseudo
