import PseudoProofs.LexLemmas
/-!
# C11 (positions) — every lexer diagnostic and every token carries a line inside the source
Model: `lex` (`PseudoModel/Lexer.lean`). The line of the cursor is always
`1 + (number of line breaks consumed so far)`; every token and every diagnostic takes its line from
some cursor reached while scanning, so it lies between 1 and `lastLine src = 1 + (number of '\n' in src)`.
The bound is sharp (see the examples at the end). Columns are only bounded coarsely: a column never exceeds
the number of characters of the source (`C11_lex_error_col`, `C11_lex_token_col`); no per-line bound is proved.

The one delicate point: `Cur.adv` on a cursor already at the end re-reads the stale `last` character and would
bump the line if that were a line break. The lexer does this only in `scanString` after a backslash that ends
the source, where `last = '\\'`; `LineInv.adv_adv` covers it. Everywhere else the advanced cursor is not at the end.
-/
namespace Pseudo

/-- the number of the last line of a source text: one more than its number of line breaks -/
def lastLine (s : List Char) : Nat := 1 + s.count '\n'

/-- a line number inside a source whose last line is `N` -/
def BLine (N l : Nat) : Prop := 1 ≤ l ∧ l ≤ N

/-- the cursor invariant: the line of the cursor is 1 + the number of line breaks already consumed,
    stated as "line + line breaks still ahead = last line" -/
def LineInv (N : Nat) (c : Cur) : Prop := 1 ≤ c.line ∧ c.line + c.cs.count '\n' = N

theorem LineInv.bline {N : Nat} {c : Cur} (h : LineInv N c) : BLine N c.line :=
  ⟨h.1, by have := h.2; omega⟩

/-! ## the carriage-return filter keeps the line breaks -/

theorem count_nl_filter_cr (src : List Char) :
    (src.filter (· != '\r')).count '\n' = src.count '\n' := by
  induction src with
  | nil => rfl
  | cons x xs ih =>
    by_cases hx : x = '\r'
    · subst hx
      have e1 : ('\r' != '\r') = false := by decide
      have e2 : ('\r' == '\n') = false := by decide
      simp only [List.filter_cons, List.count_cons, e1, e2, Bool.false_eq_true, if_false, ih, Nat.add_zero]
    · have : (x != '\r') = true := by simpa using hx
      simp only [List.filter_cons, this, if_true, List.count_cons, ih]

theorem lastLine_filter_cr (src : List Char) : lastLine (src.filter (· != '\r')) = lastLine src := by
  unfold lastLine; rw [count_nl_filter_cr]

/-! ## the cursor -/

theorem Cur.init_inv (s : List Char) : LineInv (lastLine s) (Cur.init s) := by
  cases s with
  | nil => exact ⟨Nat.le_refl _, rfl⟩
  | cons x xs => exact ⟨Nat.le_refl _, rfl⟩

theorem ne_nil_of_lt {l : List Char} {k : Nat} (h : k < l.length) : l ≠ [] := by
  intro e; rw [e] at h; exact absurd h (Nat.not_lt_zero _)

theorem Cur.not_atEnd {c : Cur} (h : c.atEnd = false) : c.cs ≠ [] := by
  intro e; simp [Cur.atEnd, e] at h

/-- advancing a cursor that is not at the end keeps the invariant -/
theorem LineInv.adv {N : Nat} {c : Cur} (h : LineInv N c) (hne : c.cs ≠ []) : LineInv N c.adv := by
  obtain ⟨cs, l, k, la⟩ := c
  obtain ⟨h1, h2⟩ := h
  simp only at h1 h2
  match cs, hne with
  | [x], _ =>
    by_cases hx : x = '\n'
    · subst hx
      refine ⟨?_, ?_⟩ <;> simp [Cur.adv, Cur.cur] at * <;> omega
    · have hx' : (x == '\n') = false := by simpa using hx
      rw [Cur.adv_single _ _ _ _ hx]
      simp only [List.count_cons, hx', List.count_nil] at h2
      exact ⟨h1, by simpa using h2⟩
  | x :: y :: r, _ =>
    by_cases hx : x = '\n'
    · subst hx
      rw [Cur.adv_nl_cons]
      rw [List.count_cons] at h2
      refine ⟨by simp only; omega, ?_⟩
      simp only [beq_self_eq_true, if_true] at h2 ⊢
      omega
    · have hx' : (x == '\n') = false := by simpa using hx
      rw [Cur.adv_cons_cons _ _ _ _ _ _ hx]
      rw [List.count_cons] at h2
      simp only [hx', Bool.false_eq_true, if_false] at h2
      exact ⟨h1, h2⟩

/-- advancing twice from a non-line-break that may be the last character: the second advance of a
    cursor at the end re-reads the stale `last` character, which is then not a line break -/
theorem LineInv.adv_adv {N : Nat} {c : Cur} (h : LineInv N c) (hne : c.cs ≠ []) (hc : c.cur ≠ '\n') :
    LineInv N c.adv.adv := by
  obtain ⟨cs, l, k, la⟩ := c
  match cs, hne with
  | [x], _ =>
    have hx : x ≠ '\n' := hc
    have h1 := h.adv (by simp)
    rw [Cur.adv_single _ _ _ _ hx] at h1 ⊢
    have : (Cur.mk [] l k x).adv = Cur.mk [] l k x := by simp [Cur.adv, Cur.cur, hx]
    rw [this]; exact h1
  | x :: y :: r, _ =>
    exact (h.adv (by simp)).adv (by simp [Cur.adv_cs])

/-! ## columns (coarse): the column never exceeds the length of the source -/

/-- the column invariant: the column never exceeds the number of characters (bound `M`) -/
def ColInv (M : Nat) (c : Cur) : Prop := c.col + c.cs.length ≤ M + 1 ∧ c.col ≤ M

theorem ColInv.adv {M : Nat} {c : Cur} (h : ColInv M c) : ColInv M c.adv := by
  obtain ⟨cs, l, k, la⟩ := c
  obtain ⟨h1, h2⟩ := h
  simp only at h1 h2
  match cs with
  | [] =>
    cases hx : (la == '\n') <;> refine ⟨?_, ?_⟩ <;>
      simp only [Cur.adv, Cur.cur, hx, Bool.false_eq_true, if_false, if_true, List.length_nil] <;> omega
  | [x] =>
    simp only [List.length_cons, List.length_nil] at h1
    cases hx : (x == '\n') <;> refine ⟨?_, ?_⟩ <;>
      simp only [Cur.adv, Cur.cur, hx, Bool.false_eq_true, if_false, if_true, List.length_nil] <;> omega
  | x :: y :: r =>
    simp only [List.length_cons] at h1
    cases hx : (x == '\n') <;> refine ⟨?_, ?_⟩ <;>
      simp only [Cur.adv, Cur.cur, hx, Bool.false_eq_true, if_false, if_true, List.length_cons] <;> omega

theorem Cur.init_col (s : List Char) {M : Nat} (h : s.length ≤ M) : ColInv M (Cur.init s) := by
  cases s with
  | nil => exact ⟨Nat.le_add_left _ _, Nat.zero_le _⟩
  | cons x xs =>
    simp only [List.length_cons] at h
    refine ⟨?_, ?_⟩ <;> simp only [Cur.init, List.length_cons] <;> omega

/-- line and column invariant together -/
def PosInv (N M : Nat) (c : Cur) : Prop := LineInv N c ∧ ColInv M c

/-- a position inside the source: line in `1..N`, column at most `M` -/
def BPos (N M l k : Nat) : Prop := BLine N l ∧ k ≤ M

theorem PosInv.adv {N M : Nat} {c : Cur} (h : PosInv N M c) (hne : c.cs ≠ []) : PosInv N M c.adv :=
  ⟨h.1.adv hne, h.2.adv⟩

theorem PosInv.adv_adv {N M : Nat} {c : Cur} (h : PosInv N M c) (hne : c.cs ≠ []) (hc : c.cur ≠ '\n') :
    PosInv N M c.adv.adv :=
  ⟨h.1.adv_adv hne hc, h.2.adv.adv⟩

theorem PosInv.bline {N M : Nat} {c : Cur} (h : PosInv N M c) : BLine N c.line := h.1.bline
theorem PosInv.bcol {N M : Nat} {c : Cur} (h : PosInv N M c) : c.col ≤ M := h.2.2
theorem PosInv.bpos {N M : Nat} {c : Cur} (h : PosInv N M c) : BPos N M c.line c.col := ⟨h.bline, h.bcol⟩
theorem PosInv.bpos' {N M : Nat} {c : Cur} (h : PosInv N M c) : BPos N M c.line (c.col - 1) :=
  ⟨h.bline, Nat.le_trans (Nat.sub_le _ _) h.bcol⟩

theorem advWhile_inv {N M : Nat} (p : Char → Bool) : ∀ (n : Nat) {c : Cur}, PosInv N M c →
    PosInv N M (advWhile p n c)
  | 0, _, h => h
  | n + 1, c, h => by
    simp only [advWhile]
    split
    · rename_i hc
      have : c.atEnd = false := by
        cases he : c.atEnd <;> simp [he] at hc ⊢
      exact advWhile_inv p n (h.adv (Cur.not_atEnd this))
    · exact h

theorem scanNumber_inv {N M : Nat} : ∀ (n : Nat) {c : Cur} (d : Bool), PosInv N M c →
    PosInv N M (scanNumber n c d).1
  | 0, _, _, h => h
  | n + 1, c, d, h => by
    simp only [scanNumber]
    split
    · exact h
    · rename_i hc
      have hne : c.cs ≠ [] := Cur.not_atEnd (by simpa using hc)
      split
      · exact scanNumber_inv n true (h.adv hne)
      · split
        · exact scanNumber_inv n d (h.adv hne)
        · exact h

theorem advN_inv {N M : Nat} : ∀ (k : Nat) {c : Cur}, k ≤ c.cs.length → PosInv N M c → PosInv N M (advN k c)
  | 0, _, _, h => h
  | k + 1, c, hk, h => by
    have hne : c.cs ≠ [] := by intro e; simp [e] at hk
    refine advN_inv k ?_ (h.adv hne)
    simp only [Cur.adv_cs, List.length_tail]; omega

/-! ## the token makers -/

/-- result of a token maker: the diagnostic, or the token and the cursor after it, are in range -/
def GoodTC (N M : Nat) : Except Diag (Tok × Cur) → Prop
  | .error d => BPos N M d.line d.col
  | .ok p => BPos N M p.1.line p.1.col ∧ PosInv N M p.2

/-- result of the string body scan -/
def GoodSC (N M : Nat) : Except Diag (Cur × List Char) → Prop
  | .error d => BPos N M d.line d.col
  | .ok p => PosInv N M p.1

/-- result of the main loop: the diagnostic, or all tokens, are in range -/
def Good (N M : Nat) : Except Diag (List Tok) → Prop
  | .error d => BPos N M d.line d.col
  | .ok ts => ∀ t ∈ ts, BPos N M t.line t.col

theorem makeWord_inv {N M : Nat} (cfg : LexCfg) {c : Cur} (h : PosInv N M c) : GoodTC N M (makeWord cfg c) := by
  have h' := advWhile_inv (fun ch => isAlnum ch || ch == '_') c.cs.length h
  unfold makeWord
  simp only []
  split
  · split
    · exact ⟨h'.bline, h.bcol⟩
    · split
      · exact ⟨h'.bline, h.bcol⟩
      · exact ⟨⟨h'.bline, h.bcol⟩, h'⟩
  · exact ⟨⟨h'.bline, h.bcol⟩, h'⟩

theorem peek_digit_lt {c : Cur} {k : Nat} (h : isDigit (c.peek k) = true) : k < c.cs.length := by
  refine Nat.lt_of_not_le (fun hle => ?_)
  have : c.cs[k]? = none := List.getElem?_eq_none hle
  rw [Cur.peek, this] at h
  revert h; decide

theorem makeNumber_inv {N M : Nat} {c : Cur} (h : PosInv N M c) :
    BPos N M (makeNumber c).1.line (makeNumber c).1.col ∧ PosInv N M (makeNumber c).2 := by
  have h1 := scanNumber_inv c.cs.length false h
  unfold makeNumber
  generalize scanNumber c.cs.length c false = r at h1
  obtain ⟨c1, dec⟩ := r
  simp only at h1 ⊢
  split
  · exact ⟨⟨h1.bline, h.bcol⟩, h1⟩
  · split
    · exact ⟨⟨h1.bline, h.bcol⟩, h1⟩
    · split
      · exact ⟨⟨h1.bline, h.bcol⟩, h1⟩
      · split
        · exact ⟨⟨h1.bline, h.bcol⟩, h1⟩
        · rename_i hd
          have hd' : isDigit (c1.peek (2 + countDigitsFrom c1 1)) = true := by simpa using hd
          have h2 := advN_inv (2 + countDigitsFrom c1 1) (Nat.le_of_lt (peek_digit_lt hd')) h1
          have h3 := advWhile_inv isDigit (advN (2 + countDigitsFrom c1 1) c1).cs.length h2
          exact ⟨⟨h3.bline, h.bcol⟩, h3⟩

theorem makeChar_inv {N M : Nat} {c : Cur} (h : PosInv N M c) : GoodTC N M (makeChar c) := by
  unfold makeChar
  split
  · exact h.bpos
  · rename_i hlen
    have hlen : 2 < c.cs.length := Nat.lt_of_not_le hlen
    have hne : c.cs ≠ [] := ne_nil_of_lt hlen
    have h1 := h.adv hne
    have hl1 : 1 < c.adv.cs.length := by simp only [Cur.adv_cs, List.length_tail]; omega
    have hne1 : c.adv.cs ≠ [] := ne_nil_of_lt hl1
    have h2 := h1.adv hne1
    -- the common tail, from a cursor `c2` satisfying the invariant
    have tail : ∀ (ch : Char) (c2 : Cur), PosInv N M c2 →
        GoodTC N M (if c2.cs.length ≤ 1 || c2.peek 1 != '\'' then .error (lexErr c2.line c2.col)
          else .ok ({ k := .CHAR, line := c2.adv.adv.line, col := c.col, val := [ch] }, c2.adv.adv)) := by
      intro ch c2 hc2
      split
      · exact hc2.bpos
      · rename_i hcond
        have hl2 : 1 < c2.cs.length := by
          refine Nat.lt_of_not_le (fun hle => hcond ?_)
          simp [hle]
        have hne2 : c2.cs ≠ [] := ne_nil_of_lt hl2
        have hne3 : c2.adv.cs ≠ [] := by
          intro e
          have := congrArg List.length e
          simp only [Cur.adv_cs, List.length_tail, List.length_nil] at this
          omega
        have h3 := (hc2.adv hne2).adv hne3
        exact ⟨⟨h3.bline, h.bcol⟩, h3⟩
    simp only []
    by_cases e1 : (c.adv.cur == '\\') = true
    · simp only [e1, if_true]
      cases escSeq c.adv.adv.cur with
      | none => exact h2.bpos
      | some ch => exact tail ch _ h2
    · simp only [e1]
      by_cases e2 : (c.adv.cur == '\'') = true
      · simp only [e2, if_true]; exact h1.bpos
      · simp only [e2]
        exact tail _ _ h1

theorem scanString_inv {N M : Nat} : ∀ (n : Nat) {c : Cur} (acc : List Char), PosInv N M c →
    GoodSC N M (scanString n c acc)
  | 0, _, _, h => h
  | n + 1, c, acc, h => by
    simp only [scanString]
    split
    · exact h
    · rename_i hc
      have hne : c.cs ≠ [] := Cur.not_atEnd (by
        cases he : c.atEnd <;> simp [he] at hc ⊢)
      split
      · rename_i hb
        have hcur : c.cur ≠ '\n' := by
          have : c.cur = '\\' := by simpa using hb
          rw [this]; decide
        split
        · -- the escape branch: `c.adv` may be at the end (source ends in a backslash); see `LineInv.adv_adv`
          exact scanString_inv n _ (h.adv_adv hne hcur)
        · exact (h.adv hne).bpos
      · exact scanString_inv n _ (h.adv hne)

theorem makeString_inv {N M : Nat} {c : Cur} (h : PosInv N M c) (hne : c.cs ≠ []) : GoodTC N M (makeString c) := by
  have h1 := h.adv hne
  have hs := scanString_inv (c.adv.cs.length + 1) [] h1
  unfold makeString
  simp only []
  generalize scanString (c.adv.cs.length + 1) c.adv [] = r at hs
  match r, hs with
  | .error e, hs => exact hs
  | .ok (c2, acc), hs =>
    have hs : PosInv N M c2 := hs
    simp only []
    split
    · exact hs.bpos
    · rename_i hc
      have hne2 : c2.cs ≠ [] := Cur.not_atEnd (by
        cases he : c2.atEnd <;> simp [he] at hc ⊢)
      exact ⟨⟨(hs.adv hne2).bline, h.bcol⟩, hs.adv hne2⟩

/-! ## the main loop -/

theorem Good.ite {N M : Nat} (b : Prop) [Decidable b] {x y : Except Diag (List Tok)}
    (h1 : b → Good N M x) (h2 : ¬b → Good N M y) : Good N M (if b then x else y) := by
  by_cases h : b
  · simp only [h, if_true]; exact h1 h
  · simp only [h, if_false]; exact h2 h

theorem cons_ok {N M : Nat} {t : Tok} {acc : List Tok} (ht : BPos N M t.line t.col)
    (hacc : ∀ t ∈ acc, BPos N M t.line t.col) : ∀ t' ∈ t :: acc, BPos N M t'.line t'.col := by
  intro t' h'
  rcases List.mem_cons.1 h' with rfl | h'
  · exact ht
  · exact hacc t' h'

theorem ne_nil_of_not_or {c : Cur} {b : Bool} (h : ¬ ((c.atEnd || b) = true)) : c.cs ≠ [] :=
  Cur.not_atEnd (by cases he : c.atEnd <;> simp [he] at h ⊢)

/-- The main loop keeps every token and the diagnostic inside the source, from any cursor satisfying the
    invariant and any in-range accumulator. -/
theorem lexLoop_inv {N M : Nat} (cfg : LexCfg) : ∀ (n : Nat) {c : Cur} {prev : Option Char} {acc : List Tok},
    PosInv N M c → (∀ t ∈ acc, BPos N M t.line t.col) → Good N M (lexLoop cfg n c prev acc) := by
  intro n
  induction n with
  | zero =>
    intro c prev acc h hacc
    exact cons_ok h.bpos hacc
  | succ n ih =>
    intro c prev acc h hacc
    obtain ⟨cs, l, k, la⟩ := c
    cases cs with
    | nil => exact cons_ok h.bpos hacc
    | cons ch rest =>
      have h1 := h.adv (by simp)
      simp only [lexLoop]
      -- the single-character tokens, the two-character operators, comments, blanks and the plain errors
      repeat' (first
        | exact ih h1 (cons_ok h.bpos hacc)
        | exact ih h1 (cons_ok h1.bpos hacc)
        | exact ih h1 (cons_ok h1.bpos' hacc)
        | exact ih (h1.adv (ne_nil_of_not_or ‹_›)) (cons_ok h1.bpos hacc)
        | exact ih h1 hacc
        | exact ih (advWhile_inv _ _ h1) hacc
        | exact h.bpos
        | exact h1.bpos'
        | (apply Good.ite <;> intro _))
      · have hm := makeChar_inv h
        generalize makeChar _ = r at hm
        match r, hm with
        | .error e, hm => exact hm
        | .ok (t, c1), hm => exact ih hm.2 (cons_ok hm.1 hacc)
      · have hm := makeString_inv h (by simp)
        generalize makeString _ = r at hm
        match r, hm with
        | .error e, hm => exact hm
        | .ok (t, c1), hm => exact ih hm.2 (cons_ok hm.1 hacc)
      · have hm := makeWord_inv cfg h
        generalize makeWord _ _ = r at hm
        match r, hm with
        | .error e, hm => exact hm
        | .ok (t, c1), hm => exact ih hm.2 (cons_ok hm.1 hacc)
      · have hm := makeNumber_inv h
        exact ih hm.2 (cons_ok hm.1 hacc)

/-- every diagnostic and every token of `lex` has its line in `1..lastLine src` and its column at most
    the length of the source -/
theorem lex_good (cfg : LexCfg) (src : List Char) : Good (lastLine src) src.length (lex cfg src) := by
  have h := lexLoop_inv (N := lastLine (src.filter (· != '\r'))) (M := src.length) cfg
    ((src.filter (· != '\r')).length + 1) (prev := none) (acc := [])
    ⟨Cur.init_inv _, Cur.init_col _ (List.length_filter_le _ _)⟩ (fun _ h => absurd h List.not_mem_nil)
  rw [lastLine_filter_cr] at h
  unfold lex
  simp only []
  generalize lexLoop cfg _ _ _ _ = r at h
  match r, h with
  | .error d, h => exact h
  | .ok ts, h =>
    intro t ht
    exact h t (List.mem_reverse.1 ht)

/-! ## the statements -/

/-- every lexer diagnostic has a line inside the source -/
theorem C11_lex_error_line (cfg : LexCfg) (src : List Char) (d : Diag) :
    lex cfg src = .error d → 1 ≤ d.line ∧ d.line ≤ lastLine src := by
  intro h
  have := lex_good cfg src
  rw [h] at this
  exact this.1

/-- every token has a line inside the source -/
theorem C11_lex_token_line (cfg : LexCfg) (src : List Char) (ts : List Tok) :
    lex cfg src = .ok ts → ∀ t ∈ ts, 1 ≤ t.line ∧ t.line ≤ lastLine src := by
  intro h t ht
  have := lex_good cfg src
  rw [h] at this
  exact (this t ht).1

/-- (coarse) the column of a lexer diagnostic never exceeds the number of characters of the source -/
theorem C11_lex_error_col (cfg : LexCfg) (src : List Char) (d : Diag) :
    lex cfg src = .error d → d.col ≤ src.length := by
  intro h
  have := lex_good cfg src
  rw [h] at this
  exact this.2

/-- (coarse) the column of a token never exceeds the number of characters of the source -/
theorem C11_lex_token_col (cfg : LexCfg) (src : List Char) (ts : List Tok) :
    lex cfg src = .ok ts → ∀ t ∈ ts, t.col ≤ src.length := by
  intro h t ht
  have := lex_good cfg src
  rw [h] at this
  exact (this t ht).2

/-! ## non-vacuity -/

/-- an unterminated string on the second (and last) line: the diagnostic is on line 2 = `lastLine` -/
example : ∃ d, lex {} "x <- 1\n\"abc".toList = .error d ∧ d.line = 2 ∧ lastLine "x <- 1\n\"abc".toList = 2 :=
  ⟨_, rfl, rfl, by decide⟩

/-- the bound is attained by tokens: the end-of-input token of a text ending in a line break is on `lastLine` -/
example : ∃ ts, lex {} "x\ny\n".toList = .ok ts ∧ (ts.map (·.line)) = [1, 1, 2, 2, 3] ∧ lastLine "x\ny\n".toList = 3 :=
  ⟨_, rfl, rfl, by decide⟩

/-- a source ending in a backslash inside a string (the one place where the lexer advances a cursor that is
    already at the end): still inside the source -/
example : ∃ d, lex {} "\n\"a\\".toList = .error d ∧ d.line = 2 ∧ lastLine "\n\"a\\".toList = 2 :=
  ⟨_, rfl, rfl, by decide⟩

/-- carriage returns are dropped before lexing and do not count as lines -/
example : ∃ d, lex {} "a\r\n\r$".toList = .error d ∧ d.line = 2 ∧ d.col = 1 ∧ lastLine "a\r\n\r$".toList = 2 :=
  ⟨_, rfl, rfl, rfl, by decide⟩


end Pseudo
