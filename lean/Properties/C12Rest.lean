import PseudoProofs.AtomicRestLoop
import PseudoProofs.AtomicRestOutput
import Properties.C12Atomic
import Properties.C12Loop
/-!
# C12 (last clause, second half) — after a failing atomic entry the rest of the session is as if it had never been made

"A failing entry that is a single call-free assignment, one-name declaration, constant definition or file statement has no
effect at all, so the remainder of the session behaves as if it had never been made."

`Properties/C12Atomic.lean` proves the first half: the state after such an entry is the state before it up to `steps`, `depth`
and `out` (`NoEffect`). What was left open there is the consequence for the REST of the session: the later entries run from a
state with a different `out` (the prompts of the failing entry and the line break before its diagnostic are in it), and — because
the loop reads its entries from the same standard input — with a different text behind them on the input.

* `C12_rest_out_write_only_stmt` / `_expr` / `_block`: no function of the evaluator reads `out`: from two states that differ in
  `out` only, a statement / expression / block ends with the same result (value, the same diagnostic with the same traceback,
  crash point, fuel) in states that again differ in `out` only, and both runs have appended the same chunks. Proved for all
  25 functions of the evaluator by one induction on fuel (`OutSim.osim_all`, `PseudoProofs/AtomicRestSim*.lean`).
* `C12_rest_out_insensitive`: the same for a whole entry (`runSource`: lexer, parser, warnings, run, echo, the line break
  before a diagnostic). No side condition: entries that read input, hit the budget or stop at a crash point included.
* `C12_rest_turn_out_insensitive`: the same for one turn of the loop (`ReplLoop.step` on `entrySt`) in two sessions whose
  states differ in `out`, `steps`, `depth` (the loop resets the counters).
* `C12_rest_session_gen`: a session `es₁ ++ bad :: es₂` against the session `es₁ ++ es₂`, where `bad` ends with a diagnostic
  and `NoEffect` (any entry for which that is known: also the entries that fail in the lexer / parser).
* `C12_rest_session_as_if_never_made`: the instance for the entries of `C12_atomic_entry` (`atomicStmt`), with the chunk printed
  by `bad` known exactly: the parser's warnings and one line break.
* `C12_rest_repl_as_if_never_made`: the same for two whole runs of `repl` ended by `EXIT`.
* the id counter: the entries with `NoEffectIds` only (failing DECLARE of a RECORD type, `C12_atomic_entry_declare_record`) are
  covered only when the id counter happens not to have moved (`C12_rest_session_declare_record_partial`). Otherwise the id
  counter is larger afterwards, the activations of later calls get other ids, and ids are stored in values (pointers, BYREF
  aliases), so the later states are equal only up to a renaming of ids — a simulation that is not proved here.
  `C12_rest_record_declare_ids_differ` shows on a concrete session that the final states then really differ (in `nextId`)
  while output and diagnostics agree.
* `C12_rest_output_entry_no_effect`: a failing `OUTPUT e` with one call-free `e` is `NoEffect` too (used for the demo session of
  `C12LoopDemo`, whose failing entry is `OUTPUT y`).

The two-session theorems need the standard input to be intact at every turn of the session WITH the extra entry
(`inputKept`, the computable condition of `PseudoProofs/ReplLoopFile.lean`); that the session without it keeps its input too
is a conclusion.
-/
namespace Pseudo
open ReplLoop AtomicRest

/-! ### `out` is write-only -/

/-- **C12 (`out` is write-only, statements).** Any statement, any fuel, any state `τ`, any two output histories `o1`, `o2`:
    the runs from `τ` with `out := o1` and from `τ` with `out := o2` end with the same result `r` in the same state `τ'` up to
    `out`, and both have put the same chunks `a` in front of their `out`. No hypothesis. -/
theorem C12_rest_out_write_only_stmt (f : Nat) (s : Stmt) (τ : St) (o1 o2 : List Str) :
    ∃ (r : Except Stop Val) (τ' : St) (a : List Str),
      (execStmt f s).run.run { τ with out := o1 } = (r, { τ' with out := a ++ o1 }) ∧
      (execStmt f s).run.run { τ with out := o2 } = (r, { τ' with out := a ++ o2 }) := by
  obtain ⟨r, τ', a, h1, h2⟩ := (((OutSim.osim_all f).execStmt s).run τ o1 o2).alt
  exact ⟨r, τ', a, h1, h2⟩

/-- the same for expressions (calls of procedures / functions with OUTPUT in their bodies included) -/
theorem C12_rest_out_write_only_expr (f : Nat) (e : Expr) (τ : St) (o1 o2 : List Str) :
    ∃ (r : Except Stop Val) (τ' : St) (a : List Str),
      (evalExpr f e).run.run { τ with out := o1 } = (r, { τ' with out := a ++ o1 }) ∧
      (evalExpr f e).run.run { τ with out := o2 } = (r, { τ' with out := a ++ o2 }) := by
  obtain ⟨r, τ', a, h1, h2⟩ := (((OutSim.osim_all f).evalExpr e).run τ o1 o2).alt
  exact ⟨r, τ', a, h1, h2⟩

/-- the same for whole blocks as `runOn` runs them (a program, the block of an entry) -/
theorem C12_rest_out_write_only_block (f : Nat) (b : Block) (τ : St) (o1 o2 : List Str) :
    ∃ (o : Outcome) (τ' : St) (a : List Str),
      runOn f b { τ with out := o1 } = (o, { τ' with out := a ++ o1 }) ∧
      runOn f b { τ with out := o2 } = (o, { τ' with out := a ++ o2 }) :=
  runOn_out f b τ o1 o2

/-- **C12 (an entry does not depend on `out`).** `σ₁` and `σ₂` agree in everything but `out` (`h`). Then running the entry text
    `src` — lexer, parser, the parser's warnings, the run itself, the echo, the line break before a diagnostic: `runSource`, the
    function the loop calls for every entry — ends with the same outcome `o` (the same diagnostic, crash point, …) in states
    that agree in everything but `out` (`τ'`: also `steps`, `depth`, the unread input), and the output appended by the entry is
    the same list of chunks `a`. No other hypothesis: entries that read from the standard input, exhaust the budget or stop at a
    crash point are included. -/
theorem C12_rest_out_insensitive (cfg : Cfg) (src : Str) (σ₁ σ₂ : St) (h : σ₂ = { σ₁ with out := σ₂.out }) :
    ∃ (o : Outcome) (τ' : St) (a : List Str),
      runSource cfg src σ₁ = (o, { τ' with out := a ++ σ₁.out }) ∧
      runSource cfg src σ₂ = (o, { τ' with out := a ++ σ₂.out }) := by
  obtain ⟨o, τ', a, h1, h2⟩ := runSource_out cfg src σ₁ σ₁.out σ₂.out
  refine ⟨o, τ', a, h1, ?_⟩
  rw [h]
  exact h2

/-- **C12 (a turn of the loop does not depend on `out`, `steps`, `depth`).** Two session records whose states agree in
    everything but `out`, `steps` and `depth` (`h`; the loop overwrites the two counters before every entry), the same entry `e`,
    the same rest of the input: the turn — `runSource` on `entrySt`, as `C12_loop_turn` shows — ends with the same outcome, in
    states that agree in everything but `out`, having appended the same chunks `a` to the prompts. `f₁`, `f₂`: whether the
    turn is the first of its session (no record separator before the prompt). -/
theorem C12_rest_turn_out_insensitive (cfg : Cfg) (f₁ f₂ : Bool) (e : Entry) (r₁ r₂ : ReplSt) (rest : Str)
    (h : ({ r₂.st with out := [], steps := 0, depth := 0 } : St) = { r₁.st with out := [], steps := 0, depth := 0 }) :
    ∃ (o : Outcome) (τ' : St) (a : List Str),
      runSource cfg e.src (entrySt f₁ e r₁.st rest) = (o, { τ' with out := a ++ (entrySt f₁ e r₁.st rest).out }) ∧
      runSource cfg e.src (entrySt f₂ e r₂.st rest) = (o, { τ' with out := a ++ (entrySt f₂ e r₂.st rest).out }) ∧
      step cfg f₁ e r₁ rest = record r₁ (o, { τ' with out := a ++ (entrySt f₁ e r₁.st rest).out }) ∧
      step cfg f₂ e r₂ rest = record r₂ (o, { τ' with out := a ++ (entrySt f₂ e r₂.st rest).out }) := by
  have h2 : entrySt f₂ e r₂.st rest = { entrySt f₁ e r₁.st rest with out := (entrySt f₂ e r₂.st rest).out } := by
    have := congrArg (fun s : St => ({ s with out := (entrySt f₂ e r₂.st rest).out, stdin := rest } : St)) h
    exact this
  obtain ⟨o, τ', a, h1, h2'⟩ := C12_rest_out_insensitive cfg e.src _ _ h2
  refine ⟨o, τ', a, h1, h2', ?_, ?_⟩
  · unfold step; rw [h1]
  · unfold step; rw [h2']

/-! ### the session without the failing entry -/

theorem sameCore_of_noEffect {σ σ' : St} (h : NoEffect σ σ') : SameCore σ σ' := by
  intro p
  obtain ⟨h1, h2, h3, h4, h5, h6, h7, h8, h9, h10, h11, h12⟩ := h
  cases σ; cases σ'
  simp only at h1 h2 h3 h4 h5 h6 h7 h8 h9 h10 h11 h12
  subst h1 h2 h3 h4 h5 h6 h7 h8 h9 h10 h11 h12
  rfl

/-- two sessions started on different input texts start with the same core -/
theorem sameCore_replStart (cfg : Cfg) (fs : List (Str × FsNode)) (i₁ i₂ : Str) :
    SameCore (replStart cfg fs i₁).st (replStart cfg fs i₂).st := fun _ => rfl

theorem replStart_eof (cfg : Cfg) (fs : List (Str × FsNode)) (i : Str) : (replStart cfg fs i).st.stdinEof = false := rfl
theorem replStart_crash_eq (cfg : Cfg) (fs : List (Str × FsNode)) (i₁ i₂ : Str) :
    (replStart cfg fs i₁).crash = (replStart cfg fs i₂).crash := rfl

theorem sameProgramState_of_sameCore {σ ψ : St} (h : SameCore σ ψ) : SameProgramState σ ψ :=
  ⟨h.acts, h.nextId, h.procs, h.funs, h.fs, h.handles⟩

/-- **C12 (the rest of the session, general form).** Two sessions (`session`, the fold of `step` over the entries that
    `C12_loop_session` shows `replLoop` computes): `A` runs `es₁ ++ bad :: es₂` from the record `rA`, `B` runs `es₁ ++ es₂` from
    `rB`.
    Hypotheses. `hcore`, `hc`: the two start records have states with the same core (`SameCore`: same activations, id counter,
    procedures, functions, files, handles, flags, limits; free: `out`, `steps`, `depth` and the standard input — typically `rB`
    is `rA` with the input text that lacks `bad`) and the same crash status. `hk`: session `A` finds its input intact at every
    turn (`inputKept`, computable; needed because entries are read from the input the program reads from). `hin`, `heofB`: the
    input of `B` is the texts of its entries followed by anything. `hcr`: `A` has not stopped at a crash point before `bad`, so
    `bad` is run, in the state `stateAt cfg es₁ first rA bad`. `hfail`, `hne`: there `bad` ends with the diagnostic `d` and
    without effect (`NoEffect`; `C12_atomic_entry`, or `C12_failing_lex_no_effect` / `C12_failing_parse_no_effect`).
    Conclusion. The final states have the same core — in particular the same program state (activations, id counter,
    procedures, functions, files, handles). Every common entry prints the same chunks in both sessions (`as₁`, `as₂`), so the
    output of `A` is the output of `B` with the prompts of `bad` and the chunks `aBad` printed by `bad` inserted (`replOut`: per
    entry the prompt — after the first turn preceded by the record separator —, the continuation prompts, the entry's
    chunks). The diagnostics of `A` are those of `B` (`ds₂ ++ ds₁`, newest first) with `d` inserted after those of `es₁`
    (`newDiags`: `[d]`, or nothing when `d` is the budget diagnostic, which the model records as `inconclusive`); crash status
    and error lines agree. And unless the sessions stop at a crash point, `B` has run all its entries with its input intact
    (`inputKept`) and stands at `tailB`. -/
theorem C12_rest_session_gen (cfg : Cfg) (es₁ es₂ : List Entry) (bad : Entry) (d : Diag) (first : Bool)
    (rA rB : ReplSt) (tailB : Str)
    (hcore : SameCore rA.st rB.st) (heofB : rB.st.stdinEof = false) (hc : rA.crash = rB.crash)
    (hk : inputKept cfg (es₁ ++ bad :: es₂) first rA = true)
    (hin : rB.st.stdin = ((es₁ ++ es₂).map Entry.text).flatten ++ tailB)
    (hcr : (session cfg es₁ first rA).crash = none)
    (hfail : (runSource cfg bad.src (stateAt cfg es₁ first rA bad)).1 = .diag d)
    (hne : NoEffect (stateAt cfg es₁ first rA bad) (runSource cfg bad.src (stateAt cfg es₁ first rA bad)).2) :
    ∃ (as₁ as₂ : List (List Str)) (ds₁ ds₂ : List Diag) (b₁ b₂ : Bool) (aBad : List Str),
      SameCore (session cfg (es₁ ++ bad :: es₂) first rA).st (session cfg (es₁ ++ es₂) first rB).st ∧
      SameProgramState (session cfg (es₁ ++ bad :: es₂) first rA).st (session cfg (es₁ ++ es₂) first rB).st ∧
      as₁.length = es₁.length ∧ as₂.length ≤ es₂.length ∧
      (session cfg (es₁ ++ bad :: es₂) first rA).st.out = replOut ((es₁ ++ bad :: es₂).zip (as₁ ++ aBad :: as₂)) first rA.st.out ∧
      (session cfg (es₁ ++ es₂) first rB).st.out = replOut ((es₁ ++ es₂).zip (as₁ ++ as₂)) first rB.st.out ∧
      (runSource cfg bad.src (stateAt cfg es₁ first rA bad)).2.out = aBad ++ (stateAt cfg es₁ first rA bad).out ∧
      (session cfg (es₁ ++ bad :: es₂) first rA).diags = ds₂ ++ (newDiags (.diag d) ++ ds₁) ++ rA.diags ∧
      (session cfg (es₁ ++ es₂) first rB).diags = ds₂ ++ ds₁ ++ rB.diags ∧
      (session cfg es₁ first rB).diags = ds₁ ++ rB.diags ∧
      (session cfg (es₁ ++ bad :: es₂) first rA).inconclusive = (b₂ || (newInc (.diag d) || b₁) || rA.inconclusive) ∧
      (session cfg (es₁ ++ es₂) first rB).inconclusive = (b₂ || b₁ || rB.inconclusive) ∧
      (session cfg (es₁ ++ bad :: es₂) first rA).crash = (session cfg (es₁ ++ es₂) first rB).crash ∧
      (session cfg (es₁ ++ bad :: es₂) first rA).errLines = rA.errLines ∧
      (session cfg (es₁ ++ es₂) first rB).errLines = rB.errLines ∧
      ((session cfg (es₁ ++ bad :: es₂) first rA).crash = none → as₂.length = es₂.length ∧
        (session cfg (es₁ ++ es₂) first rB).st.stdin = tailB ∧ (session cfg (es₁ ++ es₂) first rB).st.stdinEof = false ∧
        inputKept cfg (es₁ ++ es₂) first rB = true) := by
  obtain ⟨as₁, as₂, ds₁, ds₂, b₁, b₂, aBad, hl1, hl2, hsim, hoA, hoB, haBad, hpos, hfin⟩ :=
    session_bad_sim cfg bad d es₂ es₁ first first rA rB tailB hcore heofB hc hk hin hcr hfail (sameCore_of_noEffect hne)
  exact ⟨as₁, as₂, ds₁, ds₂, b₁, b₂, aBad, hsim.core, sameProgramState_of_sameCore hsim.core, hl1, hl2, hoA, hoB, haBad,
    hsim.diagsA, hsim.diagsB, hpos, hsim.incA, hsim.incB, hsim.crash, hsim.errA, hsim.errB, hfin⟩

/-- what a failing atomic entry prints: the parser's warnings (if any) and the line break before the diagnostic -/
def badChunks (warns : List Tok) : List Str := ['\n'] :: (warns.map warningText).reverse

/-- a failing atomic entry: `NoEffect`, and the chunks it printed -/
theorem atomic_entry_out (cfg : Cfg) (src : Str) (σ : St) (d : Diag) (s : Stmt) (warns : List Tok)
    (hparse : entryStmt cfg src = some (s, warns)) (hat : atomicStmt s = true)
    (h : (runSource cfg src σ).1 = .diag d) :
    NoEffect σ (runSource cfg src σ).2 ∧ (runSource cfg src σ).2.out = badChunks warns ++ σ.out := by
  obtain ⟨toks, hl, hp⟩ := entryStmt_some hparse
  rcases hrun : runSource cfg src σ with ⟨o, σ'⟩
  rw [hrun] at h
  dsimp only at h
  subst h
  obtain ⟨σ2, ⟨n, rfl⟩, rfl⟩ := entry_run_eq (R := SK) cfg src σ σ' d toks s warns hl hp
    (fun g => stmtNE_atomic s hat g _) hrun
  exact ⟨⟨rfl, rfl, rfl, rfl, rfl, rfl, rfl, rfl, rfl, rfl, rfl, rfl⟩, rfl⟩

/-- **C12 (after a failing atomic entry the session is as if the entry had never been made).** As `C12_rest_session_gen`, for
    an entry `bad` of the class of `C12_atomic_entry`: its text parses to ONE statement `s` (with the parser warnings `warns`,
    `hparse`) that is a call-free assignment, a CONSTANT definition, a one-name DECLARE of a primitive type (or array of one,
    call-free bounds) or one of the seven file statements with call-free arguments (`hat`, decidable), and in session `A` it ends
    with a diagnostic `d` (`hfail`; a lexical / syntax error is covered by `C12_rest_session_gen` with `C12_failing_lex_no_effect`).
    The other hypotheses are those of `C12_rest_session_gen`: same core at the start, input of `A` intact at every turn, input of
    `B` = the texts of its entries, no crash point before `bad`.
    Conclusion: the final program state (activations = all variables, constants, arrays and types; id counter, procedures,
    functions, files, handles; also flags and limits: `SameCore`) of the session with `bad` equals that of the session without
    it; every other entry prints the same chunks (`as₁`, `as₂`) in both, so the output of `A` is the output of `B` plus exactly
    the prompts of `bad` and `badChunks warns` (the line break printed before the diagnostic, after the parser's warnings —
    none for the statements of this class unless the parser warns about them); the diagnostics of `A` are those of `B` with
    `d` inserted after the diagnostics of `es₁`; crash status, error lines and — up to `d` being the budget diagnostic — the
    `inconclusive` flag agree; `B` keeps its input intact as well. -/
theorem C12_rest_session_as_if_never_made (cfg : Cfg) (es₁ es₂ : List Entry) (bad : Entry) (d : Diag) (first : Bool)
    (rA rB : ReplSt) (tailB : Str) (s : Stmt) (warns : List Tok)
    (hcore : SameCore rA.st rB.st) (heofB : rB.st.stdinEof = false) (hc : rA.crash = rB.crash)
    (hk : inputKept cfg (es₁ ++ bad :: es₂) first rA = true)
    (hin : rB.st.stdin = ((es₁ ++ es₂).map Entry.text).flatten ++ tailB)
    (hcr : (session cfg es₁ first rA).crash = none)
    (hparse : entryStmt cfg bad.src = some (s, warns)) (hat : atomicStmt s = true)
    (hfail : (runSource cfg bad.src (stateAt cfg es₁ first rA bad)).1 = .diag d) :
    ∃ (as₁ as₂ : List (List Str)) (ds₁ ds₂ : List Diag) (b₁ b₂ : Bool),
      SameCore (session cfg (es₁ ++ bad :: es₂) first rA).st (session cfg (es₁ ++ es₂) first rB).st ∧
      SameProgramState (session cfg (es₁ ++ bad :: es₂) first rA).st (session cfg (es₁ ++ es₂) first rB).st ∧
      as₁.length = es₁.length ∧ as₂.length ≤ es₂.length ∧
      (session cfg (es₁ ++ bad :: es₂) first rA).st.out
        = replOut ((es₁ ++ bad :: es₂).zip (as₁ ++ badChunks warns :: as₂)) first rA.st.out ∧
      (session cfg (es₁ ++ es₂) first rB).st.out = replOut ((es₁ ++ es₂).zip (as₁ ++ as₂)) first rB.st.out ∧
      (session cfg (es₁ ++ bad :: es₂) first rA).diags = ds₂ ++ (newDiags (.diag d) ++ ds₁) ++ rA.diags ∧
      (session cfg (es₁ ++ es₂) first rB).diags = ds₂ ++ ds₁ ++ rB.diags ∧
      (session cfg es₁ first rB).diags = ds₁ ++ rB.diags ∧
      (session cfg (es₁ ++ bad :: es₂) first rA).inconclusive = (b₂ || (newInc (.diag d) || b₁) || rA.inconclusive) ∧
      (session cfg (es₁ ++ es₂) first rB).inconclusive = (b₂ || b₁ || rB.inconclusive) ∧
      (session cfg (es₁ ++ bad :: es₂) first rA).crash = (session cfg (es₁ ++ es₂) first rB).crash ∧
      (session cfg (es₁ ++ bad :: es₂) first rA).errLines = rA.errLines ∧
      (session cfg (es₁ ++ es₂) first rB).errLines = rB.errLines ∧
      ((session cfg (es₁ ++ bad :: es₂) first rA).crash = none → as₂.length = es₂.length ∧
        (session cfg (es₁ ++ es₂) first rB).st.stdin = tailB ∧ (session cfg (es₁ ++ es₂) first rB).st.stdinEof = false ∧
        inputKept cfg (es₁ ++ es₂) first rB = true) := by
  obtain ⟨hne, hout⟩ := atomic_entry_out cfg bad.src (stateAt cfg es₁ first rA bad) d s warns hparse hat hfail
  obtain ⟨as₁, as₂, ds₁, ds₂, b₁, b₂, aBad, h1, h2, h3, h4, h5, h6, h7, h8⟩ :=
    C12_rest_session_gen cfg es₁ es₂ bad d first rA rB tailB hcore heofB hc hk hin hcr hfail hne
  have ha : aBad = badChunks warns := by
    rw [hout] at h7
    exact (List.append_cancel_right h7).symm
  subst ha
  exact ⟨as₁, as₂, ds₁, ds₂, b₁, b₂, h1, h2, h3, h4, h5, h6, h8⟩

/-- **C12 (the rest of the session after a failing DECLARE of any type — partial).** `bad` parses to a one-name DECLARE (scalar,
    or array with call-free bounds) of ANY type, RECORD types included (`declOne`), in a session whose record bodies are
    declarations with call-free bounds (`hcomps`, as in `C12_atomic_entry_declare_record`), and ends with a diagnostic. For these
    entries only `NoEffectIds` holds in general: the id counter may have advanced. PARTIAL: the theorem assumes in addition that
    the id counter did NOT move (`hid`, computable on the session; true when the declaration fails before a record body is
    instantiated — name already declared, unknown type name — and for all non-record types); then the conclusion of
    `C12_rest_session_gen` holds. What is missing: the case where the counter has advanced (a member declaration inside the record
    body failed). Then the final states differ (`C12_rest_record_declare_ids_differ`) and can only be equal up to a renaming of
    activation ids, which are stored in pointer values and BYREF aliases; that simulation is not proved. -/
theorem C12_rest_session_declare_record_partial (cfg : Cfg) (es₁ es₂ : List Entry) (bad : Entry) (d : Diag) (first : Bool)
    (rA rB : ReplSt) (tailB : Str)
    (hcore : SameCore rA.st rB.st) (heofB : rB.st.stdinEof = false) (hc : rA.crash = rB.crash)
    (hk : inputKept cfg (es₁ ++ bad :: es₂) first rA = true)
    (hin : rB.st.stdin = ((es₁ ++ es₂).map Entry.text).flatten ++ tailB)
    (hcr : (session cfg es₁ first rA).crash = none)
    (hat : (entryStmt cfg bad.src).map (fun p => declOne p.1) = some true)
    (hcomps : CompsOK (stateAt cfg es₁ first rA bad))
    (hfail : (runSource cfg bad.src (stateAt cfg es₁ first rA bad)).1 = .diag d)
    (hid : (runSource cfg bad.src (stateAt cfg es₁ first rA bad)).2.nextId = (stateAt cfg es₁ first rA bad).nextId) :
    ∃ (as₁ as₂ : List (List Str)) (ds₁ ds₂ : List Diag) (b₁ b₂ : Bool) (aBad : List Str),
      SameCore (session cfg (es₁ ++ bad :: es₂) first rA).st (session cfg (es₁ ++ es₂) first rB).st ∧
      SameProgramState (session cfg (es₁ ++ bad :: es₂) first rA).st (session cfg (es₁ ++ es₂) first rB).st ∧
      as₁.length = es₁.length ∧ as₂.length ≤ es₂.length ∧
      (session cfg (es₁ ++ bad :: es₂) first rA).st.out = replOut ((es₁ ++ bad :: es₂).zip (as₁ ++ aBad :: as₂)) first rA.st.out ∧
      (session cfg (es₁ ++ es₂) first rB).st.out = replOut ((es₁ ++ es₂).zip (as₁ ++ as₂)) first rB.st.out ∧
      (runSource cfg bad.src (stateAt cfg es₁ first rA bad)).2.out = aBad ++ (stateAt cfg es₁ first rA bad).out ∧
      (session cfg (es₁ ++ bad :: es₂) first rA).diags = ds₂ ++ (newDiags (.diag d) ++ ds₁) ++ rA.diags ∧
      (session cfg (es₁ ++ es₂) first rB).diags = ds₂ ++ ds₁ ++ rB.diags ∧
      (session cfg es₁ first rB).diags = ds₁ ++ rB.diags ∧
      (session cfg (es₁ ++ bad :: es₂) first rA).inconclusive = (b₂ || (newInc (.diag d) || b₁) || rA.inconclusive) ∧
      (session cfg (es₁ ++ es₂) first rB).inconclusive = (b₂ || b₁ || rB.inconclusive) ∧
      (session cfg (es₁ ++ bad :: es₂) first rA).crash = (session cfg (es₁ ++ es₂) first rB).crash ∧
      (session cfg (es₁ ++ bad :: es₂) first rA).errLines = rA.errLines ∧
      (session cfg (es₁ ++ es₂) first rB).errLines = rB.errLines ∧
      ((session cfg (es₁ ++ bad :: es₂) first rA).crash = none → as₂.length = es₂.length ∧
        (session cfg (es₁ ++ es₂) first rB).st.stdin = tailB ∧ (session cfg (es₁ ++ es₂) first rB).st.stdinEof = false ∧
        inputKept cfg (es₁ ++ es₂) first rB = true) := by
  have h := C12_atomic_entry_declare_record cfg bad.src _ d hat hcomps hfail
  exact C12_rest_session_gen cfg es₁ es₂ bad d first rA rB tailB hcore heofB hc hk hin hcr hfail
    ⟨h.acts, hid, h.procs, h.funs, h.fs, h.handles, h.stdin, h.stdinEof, h.pedantic, h.repl, h.stepLimit, h.depthLimit⟩

/-- **C12 (a failing OUTPUT of one call-free expression has no effect either).** Not in the list of C12, but true of the model and
    needed for the demo session of `C12LoopDemo` (failing entry `OUTPUT y`): an entry that parses to `OUTPUT e` with ONE call-free
    expression `e` and ends with a diagnostic (undefined name, index out of bounds, division by zero, value that cannot be
    printed, step budget) has printed nothing but the line break before the diagnostic and leaves the state as it was:
    `NoEffect`. With more than one expression the first may already have been printed — still `NoEffect` (`out` is free), but
    not proved here. Together with `C12_rest_session_gen` the rest of the session is as if the entry had never been made. -/
theorem C12_rest_output_entry_no_effect (cfg : Cfg) (src : Str) (σ : St) (d : Diag)
    (hat : (entryStmt cfg src).map (fun p => outputOne p.1) = some true)
    (h : (runSource cfg src σ).1 = .diag d) : NoEffect σ (runSource cfg src σ).2 := by
  obtain ⟨s, warns, hparse, hat'⟩ := entryStmt_map_some hat
  obtain ⟨toks, hl, hp⟩ := entryStmt_some hparse
  exact atomic_entry_gen_eq cfg src σ _ d toks s warns hl hp (fun g => stmtNE_outputOne s hat' g _) (Prod.ext h rfl)

/-! ### two whole runs of `repl` -/

theorem session_crash_start (cfg : Cfg) (l : List Entry) (first : Bool) (r : ReplSt)
    (h : (session cfg l first r).crash = none) : r.crash = none := by
  cases l with
  | nil => exact h
  | cons e l =>
    unfold session at h
    by_cases hc : r.crash.isSome = true
    · simp only [hc, if_true] at h
      rw [h] at hc
      cases hc
    · exact isSome_false_of_none (by simpa using hc)

theorem session_crash_prefix (cfg : Cfg) : ∀ (es₁ l : List Entry) (first : Bool) (r : ReplSt),
    (session cfg (es₁ ++ l) first r).crash = none → (session cfg es₁ first r).crash = none
  | [], l, first, r, h => session_crash_start cfg l first r h
  | e :: es₁, l, first, r, h => by
    simp only [List.cons_append] at h
    unfold session at h ⊢
    by_cases hc : r.crash.isSome = true
    · simp only [hc, if_true] at h ⊢
      exact h
    · simp only [hc, Bool.false_eq_true, if_false] at h ⊢
      exact session_crash_prefix cfg es₁ l false _ h

/-- **C12 (two whole REPL runs, with and without the failing atomic entry).** `repl` on the input `stdinA`, which offers the
    well-formed entries `es₁`, then `bad`, then `es₂`, then `EXIT`, against `repl` on `stdinB` = the texts of `es₁ ++ es₂`, `EXIT`
    and anything. Hypotheses about run `A` (all computable): the input is intact at every turn (`hk`), it does not stop at a
    crash point (`hcrA`), after the last entry the input stands at `EXIT` (`hendA`), `hlenA` (the loop's fuel covers the turns);
    `bad` parses to one atomic statement (`hparse`, `hat`) and ends with a diagnostic `d` (`hfail`).
    Conclusion: the two runs leave the same file system (all files closed), both exit with code 0 without a crash point; the
    diagnostics reported by `A` (oldest first) are those reported by `B` with `d` inserted at the position of `bad` (after the
    `pre`, the diagnostics of `es₁`) — nothing inserted if `d` is the budget diagnostic, which the model reports as
    `inconclusive` —; no error lines in either. -/
theorem C12_rest_repl_as_if_never_made (cfg : Cfg) (fs : List (Str × FsNode)) (es₁ es₂ : List Entry) (bad : Entry) (d : Diag)
    (stdinA junkA junkB : Str) (s : Stmt) (warns : List Tok)
    (hw : ∀ e ∈ es₁ ++ bad :: es₂, e.WF)
    (hk : inputKept cfg (es₁ ++ bad :: es₂) true (replStart cfg fs stdinA) = true)
    (hlenA : (es₁ ++ bad :: es₂).length ≤ stdinA.length)
    (hcrA : (session cfg (es₁ ++ bad :: es₂) true (replStart cfg fs stdinA)).crash = none)
    (hendA : (session cfg (es₁ ++ bad :: es₂) true (replStart cfg fs stdinA)).st.stdin = "EXIT".toList ++ '\n' :: junkA)
    (hparse : entryStmt cfg bad.src = some (s, warns)) (hat : atomicStmt s = true)
    (hfail : (runSource cfg bad.src (stateAt cfg es₁ true (replStart cfg fs stdinA) bad)).1 = .diag d) :
    let stdinB := ((es₁ ++ es₂).map Entry.text).flatten ++ ("EXIT".toList ++ '\n' :: junkB)
    (repl cfg fs stdinA).fs = (repl cfg fs stdinB).fs ∧
    (repl cfg fs stdinA).exitCode = 0 ∧ (repl cfg fs stdinB).exitCode = 0 ∧
    (repl cfg fs stdinA).crash = none ∧ (repl cfg fs stdinB).crash = none ∧
    (repl cfg fs stdinA).errLines = [] ∧ (repl cfg fs stdinB).errLines = [] ∧
    (repl cfg fs stdinA).stdinLeft = junkA ∧ (repl cfg fs stdinB).stdinLeft = junkB ∧
    ∃ pre post : List Diag, (repl cfg fs stdinB).diags = pre ++ post ∧
      (repl cfg fs stdinA).diags = pre ++ newDiags (.diag d) ++ post ∧
      (session cfg es₁ true (replStart cfg fs stdinB)).diags.reverse = pre := by
  intro stdinB
  have hcr1 := session_crash_prefix cfg es₁ (bad :: es₂) true _ hcrA
  obtain ⟨as₁, as₂, ds₁, ds₂, b₁, b₂, hcore, _, _, _, _, _, hdA, hdB, hpos, _, _, hcrAB, heA, heB, hfin⟩ :=
    C12_rest_session_as_if_never_made cfg es₁ es₂ bad d true (replStart cfg fs stdinA) (replStart cfg fs stdinB)
      ("EXIT".toList ++ '\n' :: junkB) s warns (fun _ => rfl) rfl rfl hk rfl hcr1 hparse hat hfail
  obtain ⟨_, hinBend, heofBend, hkB⟩ := hfin hcrA
  have hcrB : (session cfg (es₁ ++ es₂) true (replStart cfg fs stdinB)).crash = none := by rw [← hcrAB]; exact hcrA
  have hwB : ∀ e ∈ es₁ ++ es₂, e.WF := by
    intro e he
    apply hw
    rcases List.mem_append.mp he with h | h
    · exact List.mem_append_left _ h
    · exact List.mem_append_right _ (List.mem_cons_of_mem _ h)
  have hlenB : (es₁ ++ es₂).length ≤ stdinB.length := by
    have := texts_length (es₁ ++ es₂)
    have h2 : stdinB.length = (((es₁ ++ es₂).map Entry.text).flatten).length + ("EXIT".toList ++ '\n' :: junkB).length :=
      List.length_append
    omega
  have hA := C12_repl_session_exit cfg fs stdinA junkA (es₁ ++ bad :: es₂) hw (inputOK_of_kept cfg _ true _ hk) hlenA hcrA
    (inputKept_end cfg _ true _ rfl hk) hendA
  have hB := C12_repl_session_exit cfg fs stdinB junkB (es₁ ++ es₂) hwB (inputOK_of_kept cfg _ true _ hkB) hlenB hcrB
    heofBend hinBend
  rw [hA, hB]
  refine ⟨?_, ?_, ?_, hcrA, hcrB, ?_, ?_, rfl, rfl, ds₁.reverse, ds₂.reverse, ?_, ?_, ?_⟩
  · show (closeAllF { fs := _, handles := _ }).fs = (closeAllF { fs := _, handles := _ }).fs
    show (closeAllF { fs := (session cfg (es₁ ++ bad :: es₂) true (replStart cfg fs stdinA)).st.fs,
                      handles := (session cfg (es₁ ++ bad :: es₂) true (replStart cfg fs stdinA)).st.handles }).fs = _
    rw [hcore.fs, hcore.handles]
    rfl
  · show (if (session cfg (es₁ ++ bad :: es₂) true (replStart cfg fs stdinA)).crash.isSome then 134 else 0) = 0
    rw [hcrA]; rfl
  · show (if (session cfg (es₁ ++ es₂) true (replStart cfg fs stdinB)).crash.isSome then 134 else 0) = 0
    rw [hcrB]; rfl
  · show (session cfg (es₁ ++ bad :: es₂) true (replStart cfg fs stdinA)).errLines.reverse = []
    rw [heA]; rfl
  · show (session cfg (es₁ ++ es₂) true (replStart cfg fs stdinB)).errLines.reverse = []
    rw [heB]; rfl
  · show (session cfg (es₁ ++ es₂) true (replStart cfg fs stdinB)).diags.reverse = _
    rw [hdB]
    show (ds₂ ++ ds₁ ++ []).reverse = _
    simp
  · show (session cfg (es₁ ++ bad :: es₂) true (replStart cfg fs stdinA)).diags.reverse = _
    rw [hdA]
    show (ds₂ ++ (newDiags (.diag d) ++ ds₁) ++ []).reverse = _
    have : (newDiags (.diag d)).reverse = newDiags (.diag d) := by
      unfold newDiags; dsimp only; split <;> rfl
    simp [this]
  · rw [hpos]
    show (ds₁ ++ []).reverse = _
    simp

/-! ### non-vacuity -/

namespace C12RestDemo
open C12LoopDemo C12AtomicDemo

/-- `out` is write-only, on the session state of `C12AtomicDemo`: the entry `OUTPUT x` from two output histories -/
example : ∃ (o : Outcome) (τ' : St) (a : List Str),
    runSource {} "OUTPUT x".toList demoSt = (o, { τ' with out := a ++ demoSt.out }) ∧
    runSource {} "OUTPUT x".toList { demoSt with out := ["earlier".toList] }
      = (o, { τ' with out := a ++ ["earlier".toList] }) :=
  C12_rest_out_insensitive {} _ demoSt { demoSt with out := ["earlier".toList] } rfl

/-- … and what the two runs print (computed): the same chunks `7`, line break in front of the two histories -/
example : (runSource {} "OUTPUT x".toList demoSt).2.out = ["\n".toList, "7".toList] ∧
    (runSource {} "OUTPUT x".toList { demoSt with out := ["earlier".toList] }).2.out
      = ["\n".toList, "7".toList, "earlier".toList] := by decide +kernel

/-- the demo session of `C12LoopDemo` (`x <- 5`, a failing entry, a three-line IF, the echo `x + 1`, `OUTPUT x`) with an ATOMIC
    failing second entry: division by zero in a call-free assignment (the failing entry of `C12LoopDemo.es5`, `OUTPUT y`, is
    not in the class `atomicStmt`) -/
def eBad : Entry := ⟨"x <- x DIV 0".toList, []⟩
def inA : Str := "x <- 5\nx <- x DIV 0\nIF x > 3 THEN\n  OUTPUT \"big\"\nENDIF\n\nx + 1\nOUTPUT x\nEXIT\nignored".toList
/-- the same input without the line of the failing entry: the entries are `C12LoopDemo.es4` = `es5` without its second entry -/
def inB : Str := "x <- 5\nIF x > 3 THEN\n  OUTPUT \"big\"\nENDIF\n\nx + 1\nOUTPUT x\nEXIT\nignored".toList

example : (([e1] ++ eBad :: [e3, e4, e5]).map Entry.text).flatten ++ "EXIT\nignored".toList = inA := by decide
example : [e1] ++ [e3, e4, e5] = es4 := rfl
theorem inB_eq : ((([e1] ++ [e3, e4, e5]).map Entry.text).flatten ++ ("EXIT".toList ++ '\n' :: "ignored".toList)) = inB := by decide
example : ∀ e ∈ [e1] ++ eBad :: [e3, e4, e5], e.WF := by decide

/-- both sessions evaluated by the model: the output of the first has the second prompt and a line break more, and one
    diagnostic (division by zero) -/
theorem C12_rest_demo_computed :
    (session {} ([e1] ++ eBad :: [e3, e4, e5]) true (replStart {} [] inA)).st.output = "> \x1e> \n\x1e> . . . big\n\x1e> 6\n\x1e> 5\n".toList ∧
    (session {} ([e1] ++ [e3, e4, e5]) true (replStart {} [] inB)).st.output = "> \x1e> . . . big\n\x1e> 6\n\x1e> 5\n".toList ∧
    (session {} ([e1] ++ eBad :: [e3, e4, e5]) true (replStart {} [] inA)).diags.map (·.msg) = [.divZero] ∧
    (session {} ([e1] ++ [e3, e4, e5]) true (replStart {} [] inB)).diags.map (·.msg) = [] := by decide +kernel

/-- the hypotheses of `C12_rest_session_as_if_never_made` / `C12_rest_repl_as_if_never_made` for it, all by evaluation: the
    input of session `A` is intact at every turn, no crash point, the failing entry parses to one atomic statement without
    warnings and ends with the diagnostic `divZero`, after the last entry the input stands at `EXIT` -/
theorem C12_rest_demo_hyps :
    inputKept {} ([e1] ++ eBad :: [e3, e4, e5]) true (replStart {} [] inA) = true ∧
    (session {} ([e1] ++ eBad :: [e3, e4, e5]) true (replStart {} [] inA)).crash.isSome = false ∧
    (entryStmt {} eBad.src).map (fun p => atomicStmt p.1) = some true ∧
    (entryStmt {} eBad.src).map (fun p => p.2.length) = some 0 ∧
    diagOf (runSource {} eBad.src (stateAt {} [e1] true (replStart {} [] inA) eBad)).1 = some .divZero ∧
    (session {} ([e1] ++ eBad :: [e3, e4, e5]) true (replStart {} [] inA)).st.stdin = "EXIT".toList ++ '\n' :: "ignored".toList := by
  decide +kernel

/-- the two sessions related by the theorem: same program state at the end, same chunks printed by the four common entries,
    the failing entry's chunk is the line break alone, its diagnostic is the only difference in the diagnostics, and the
    session without it keeps its input intact -/
theorem C12_rest_demo :
    SameProgramState (session {} ([e1] ++ eBad :: [e3, e4, e5]) true (replStart {} [] inA)).st
      (session {} ([e1] ++ [e3, e4, e5]) true (replStart {} [] inB)).st ∧
    (∃ (as₁ as₂ : List (List Str)) (d : Diag), d.msg = .divZero ∧ as₁.length = 1 ∧ as₂.length = 3 ∧
      (session {} ([e1] ++ eBad :: [e3, e4, e5]) true (replStart {} [] inA)).st.out
        = replOut (([e1] ++ eBad :: [e3, e4, e5]).zip (as₁ ++ [['\n']] :: as₂)) true [] ∧
      (session {} ([e1] ++ [e3, e4, e5]) true (replStart {} [] inB)).st.out
        = replOut (([e1] ++ [e3, e4, e5]).zip (as₁ ++ as₂)) true [] ∧
      ∃ ds₁ ds₂ : List Diag, (session {} ([e1] ++ eBad :: [e3, e4, e5]) true (replStart {} [] inA)).diags = ds₂ ++ ([d] ++ ds₁) ++ [] ∧
        (session {} ([e1] ++ [e3, e4, e5]) true (replStart {} [] inB)).diags = ds₂ ++ ds₁ ++ []) ∧
    inputKept {} ([e1] ++ [e3, e4, e5]) true (replStart {} [] inB) = true := by
  obtain ⟨hk, hcrA, hat, hw0, hd, _⟩ := C12_rest_demo_hyps
  obtain ⟨s, warns, hparse, hat'⟩ := entryStmt_map_some hat
  have hwarns : warns = [] := by
    rw [hparse] at hw0
    exact List.eq_nil_of_length_eq_zero (Option.some.inj hw0)
  subst hwarns
  obtain ⟨d, hd'⟩ := of_diagOf hd
  have hmsg : d.msg = .divZero := by
    rw [hd'] at hd
    exact Option.some.inj hd
  have hcrA' := isSome_false_of_none hcrA
  obtain ⟨as₁, as₂, ds₁, ds₂, b₁, b₂, _, hsame, hl1, _, hoA, hoB, hdA, hdB, _, _, _, _, _, _, hfin⟩ :=
    C12_rest_session_as_if_never_made {} [e1] [e3, e4, e5] eBad d true (replStart {} [] inA) (replStart {} [] inB)
      ("EXIT".toList ++ '\n' :: "ignored".toList) s [] (sameCore_replStart _ _ _ _) (replStart_eof _ _ _)
      (replStart_crash_eq _ _ _ _) hk inB_eq.symm
      (session_crash_prefix {} [e1] _ true _ hcrA') hparse hat' hd'
  obtain ⟨hl2, _, _, hkB⟩ := hfin hcrA'
  have hnb : newDiags (.diag d) = [d] := by
    have : isBudget d = false := by unfold isBudget; rw [hmsg]; rfl
    simp [newDiags, this]
  rw [hnb] at hdA
  exact ⟨hsame, ⟨as₁, as₂, d, hmsg, hl1, hl2, hoA, hoB, ds₁, ds₂, hdA, hdB⟩, hkB⟩

/-- the two whole runs of `repl`, by `C12_rest_repl_as_if_never_made`: same file system, exit code 0, the diagnostics differ by
    the one of the failing entry -/
example : (repl {} [] inA).fs = (repl {} [] inB).fs ∧ (repl {} [] inA).exitCode = 0 ∧ (repl {} [] inB).exitCode = 0 ∧
    (repl {} [] inA).stdinLeft = "ignored".toList ∧ (repl {} [] inB).stdinLeft = "ignored".toList ∧
    ∃ (pre post : List Diag) (d : Diag), (repl {} [] inB).diags = pre ++ post ∧ (repl {} [] inA).diags = pre ++ [d] ++ post := by
  obtain ⟨hk, hcrA, hat, _, hd, hend⟩ := C12_rest_demo_hyps
  obtain ⟨s, warns, hparse, hat'⟩ := entryStmt_map_some hat
  obtain ⟨d, hd'⟩ := of_diagOf hd
  have hmsg : d.msg = .divZero := by
    rw [hd'] at hd
    exact Option.some.inj hd
  have hnb : newDiags (.diag d) = [d] := by
    have : isBudget d = false := by unfold isBudget; rw [hmsg]; rfl
    simp [newDiags, this]
  obtain ⟨h1, h2, h3, _, _, _, _, h4, h5, pre, post, h6, h7, _⟩ :=
    C12_rest_repl_as_if_never_made {} [] [e1] [e3, e4, e5] eBad d inA "ignored".toList "ignored".toList s warns (by decide) hk
      (by decide) (isSome_false_of_none hcrA) hend hparse hat' hd'
  rw [hnb] at h7
  exact ⟨h1, h2, h3, h4, h5, pre, post, d, h6, h7⟩

/-- … and what `repl` prints for the two inputs (computed) -/
example : (repl {} [] inA).out = "> \x1e> \n\x1e> . . . big\n\x1e> 6\n\x1e> 5\n\x1e> ".toList ∧
    (repl {} [] inB).out = "> \x1e> . . . big\n\x1e> 6\n\x1e> 5\n\x1e> ".toList := by decide +kernel

/-! the demo session of `C12LoopDemo` itself: `es5` (failing second entry `OUTPUT y`) against `es4` = `es5` without it -/

example : es5 = [e1] ++ e2 :: [e3, e4, e5] := rfl

theorem C12_rest_demo5_hyps :
    inputKept {} ([e1] ++ e2 :: [e3, e4, e5]) true (replStart {} [] in5) = true ∧
    (session {} ([e1] ++ e2 :: [e3, e4, e5]) true (replStart {} [] in5)).crash.isSome = false ∧
    (entryStmt {} e2.src).map (fun p => outputOne p.1) = some true ∧
    diagOf (runSource {} e2.src (stateAt {} [e1] true (replStart {} [] in5) e2)).1 = some .notDefined := by
  decide +kernel

/-- both sessions, evaluated: -/
example : (session {} ([e1] ++ e2 :: [e3, e4, e5]) true (replStart {} [] in5)).st.output = "> \x1e> \n\x1e> . . . big\n\x1e> 6\n\x1e> 5\n".toList ∧
    (session {} ([e1] ++ [e3, e4, e5]) true (replStart {} [] inB)).st.output = "> \x1e> . . . big\n\x1e> 6\n\x1e> 5\n".toList ∧
    (session {} ([e1] ++ e2 :: [e3, e4, e5]) true (replStart {} [] in5)).diags.map (·.msg) = [.notDefined] ∧
    (session {} ([e1] ++ [e3, e4, e5]) true (replStart {} [] inB)).diags.map (·.msg) = [] := by decide +kernel

/-- … and related by `C12_rest_session_gen` with `C12_rest_output_entry_no_effect`: the 5-entry session and the 4-entry session
    without the failing entry end in the same program state, the four common entries print the same chunks, the session
    without the failing entry keeps its input intact -/
theorem C12_rest_demo5 :
    SameProgramState (session {} ([e1] ++ e2 :: [e3, e4, e5]) true (replStart {} [] in5)).st (session {} ([e1] ++ [e3, e4, e5]) true (replStart {} [] inB)).st ∧
    (∃ (as₁ as₂ : List (List Str)) (aBad : List Str), as₁.length = 1 ∧ as₂.length = 3 ∧
      (session {} ([e1] ++ e2 :: [e3, e4, e5]) true (replStart {} [] in5)).st.out = replOut (([e1] ++ e2 :: [e3, e4, e5]).zip (as₁ ++ aBad :: as₂)) true [] ∧
      (session {} ([e1] ++ [e3, e4, e5]) true (replStart {} [] inB)).st.out = replOut (([e1] ++ [e3, e4, e5]).zip (as₁ ++ as₂)) true []) ∧
    (session {} ([e1] ++ e2 :: [e3, e4, e5]) true (replStart {} [] in5)).crash = (session {} ([e1] ++ [e3, e4, e5]) true (replStart {} [] inB)).crash ∧
    inputKept {} ([e1] ++ [e3, e4, e5]) true (replStart {} [] inB) = true := by
  obtain ⟨hk, hcrA0, hat, hd⟩ := C12_rest_demo5_hyps
  have hcrA := isSome_false_of_none hcrA0
  obtain ⟨d, hd'⟩ := of_diagOf hd
  have hne := C12_rest_output_entry_no_effect {} e2.src _ d hat hd'
  obtain ⟨as₁, as₂, ds₁, ds₂, b₁, b₂, aBad, _, hsame, hl1, _, hoA, hoB, _, _, _, _, _, _, hcrAB, _, _, hfin⟩ :=
    C12_rest_session_gen {} [e1] [e3, e4, e5] e2 d true (replStart {} [] in5) (replStart {} [] inB)
      ("EXIT".toList ++ '\n' :: "ignored".toList) (sameCore_replStart _ _ _ _) (replStart_eof _ _ _)
      (replStart_crash_eq _ _ _ _) hk inB_eq.symm (session_crash_prefix {} [e1] _ true _ hcrA) hd' hne
  obtain ⟨hl2, _, _, hkB⟩ := hfin hcrA
  exact ⟨hsame, ⟨as₁, as₂, aBad, hl1, hl2, hoA, hoB⟩, hcrAB, hkB⟩

/-! `C12_rest_session_declare_record_partial`: an instance of its hypotheses — the record type `R` is declared, then
   `DECLARE x : R` fails because `x` exists (before the record body is instantiated: the id counter does not move) -/

def eTok : Entry := ⟨"TYPE R".toList, ["  DECLARE m : INTEGER".toList, "ENDTYPE".toList]⟩
def eDx : Entry := ⟨"DECLARE x : R".toList, []⟩
def inPA : Str := (([e1, eTok] ++ eDx :: [e5]).map Entry.text).flatten
def inPB : Str := (([e1, eTok] ++ [e5]).map Entry.text).flatten

theorem C12_rest_demo_partial_hyps :
    inputKept {} ([e1, eTok] ++ eDx :: [e5]) true (replStart {} [] inPA) = true ∧
    (session {} [e1, eTok] true (replStart {} [] inPA)).crash.isSome = false ∧
    (entryStmt {} eDx.src).map (fun p => declOne p.1) = some true ∧
    compsOKb (stateAt {} [e1, eTok] true (replStart {} [] inPA) eDx) = true ∧
    diagOf (runSource {} eDx.src (stateAt {} [e1, eTok] true (replStart {} [] inPA) eDx)).1 = some .redeclared ∧
    (runSource {} eDx.src (stateAt {} [e1, eTok] true (replStart {} [] inPA) eDx)).2.nextId
      = (stateAt {} [e1, eTok] true (replStart {} [] inPA) eDx).nextId := by decide +kernel

example : SameProgramState (session {} ([e1, eTok] ++ eDx :: [e5]) true (replStart {} [] inPA)).st
    (session {} ([e1, eTok] ++ [e5]) true (replStart {} [] inPB)).st := by
  obtain ⟨hk, hcr, hat, hcomps, hd, hid⟩ := C12_rest_demo_partial_hyps
  obtain ⟨d, hd'⟩ := of_diagOf hd
  obtain ⟨_, _, _, _, _, _, _, _, h, _⟩ :=
    C12_rest_session_declare_record_partial {} [e1, eTok] [e5] eDx d true (replStart {} [] inPA) (replStart {} [] inPB) []
      (sameCore_replStart _ _ _ _) (replStart_eof _ _ _) (replStart_crash_eq _ _ _ _) hk (by simp [inPB, replStart, St.init])
      (isSome_false_of_none hcr) hat (compsOK_of_b hcomps) hd' hid
  exact h

/-! the id counter: a failing DECLARE of a record type is NOT covered -/

def eT : Entry := ⟨"TYPE R".toList, ["  DECLARE m : Foo".toList, "ENDTYPE".toList]⟩
/-- fails: the body of `R` names the unknown type `Foo`; `NoEffectIds` only (`C12_atomic_entry_declare_record`) -/
def eD : Entry := ⟨"DECLARE r : R".toList, []⟩
def eP : Entry := ⟨"PROCEDURE P()".toList, ["  OUTPUT 1".toList, "ENDPROCEDURE".toList]⟩
def eC : Entry := ⟨"CALL P()".toList, []⟩
def inRA : Str := (([eT] ++ eD :: [eP, eC]).map Entry.text).flatten
def inRB : Str := (([eT] ++ [eP, eC]).map Entry.text).flatten

/-- **the id-counter caveat, on a session.** After the failing entry `DECLARE r : R` (a one-name DECLARE of a RECORD type whose
    body fails: `NoEffectIds`, not `NoEffect`) the rest of the session — a procedure definition and a call — prints the same and
    records no further diagnostic, but the final states are NOT the same program state: the id counter of the session with the
    failing entry is one ahead (the call's activation got id 2 instead of 1). So `C12_rest_session_as_if_never_made` cannot
    be extended to these entries with `SameProgramState` as it stands; what one expects to hold is equality up to a renaming
    of activation ids (not proved). -/
theorem C12_rest_record_declare_ids_differ :
    (entryStmt {} eD.src).map (fun p => declOne p.1) = some true ∧
    (session {} ([eT] ++ eD :: [eP, eC]) true (replStart {} [] inRA)).diags.map (·.msg) = [.notDefined] ∧
    (session {} ([eT] ++ [eP, eC]) true (replStart {} [] inRB)).diags.map (·.msg) = [] ∧
    (session {} ([eT] ++ eD :: [eP, eC]) true (replStart {} [] inRA)).st.output = "> . . . \x1e> \n\x1e> . . . \x1e> 1\n".toList ∧
    (session {} ([eT] ++ [eP, eC]) true (replStart {} [] inRB)).st.output = "> . . . \x1e> . . . \x1e> 1\n".toList ∧
    (session {} ([eT] ++ eD :: [eP, eC]) true (replStart {} [] inRA)).st.nextId = 3 ∧
    (session {} ([eT] ++ [eP, eC]) true (replStart {} [] inRB)).st.nextId = 2 ∧
    ¬ SameProgramState (session {} ([eT] ++ eD :: [eP, eC]) true (replStart {} [] inRA)).st
        (session {} ([eT] ++ [eP, eC]) true (replStart {} [] inRB)).st := by
  have h6 : (session {} ([eT] ++ eD :: [eP, eC]) true (replStart {} [] inRA)).st.nextId = 3 := by decide +kernel
  have h7 : (session {} ([eT] ++ [eP, eC]) true (replStart {} [] inRB)).st.nextId = 2 := by decide +kernel
  refine ⟨by decide +kernel, by decide +kernel, by decide +kernel, by decide +kernel, by decide +kernel, h6, h7, fun h => ?_⟩
  have := h.nextId
  rw [h6, h7] at this
  exact absurd this (by decide)

end C12RestDemo

end Pseudo
