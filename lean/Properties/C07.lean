import PseudoModel.State
/-!
# C07 — records are values: every copy is deep and independent
In the model a record is a tree value (`Val.comp`), so a copy *is* a deep copy; what has to be shown is that a
write addresses exactly one path of one variable: `setPath` / `getPath` (fields, array cells, nested) and the
slot / activation update functions used by `writeLoc`. The weight of this property is on the correspondence
check (the C++ realises the same value semantics with Context cloning).
-/
namespace Pseudo

theorem findField_isArr (fs : List (Str × Val)) (n : Str) (k : Bool) (y : Val) (h : findField fs n k = some y) : y.isArr = k := by
  unfold findField at h
  cases hf : fs.find? (fun p => p.1 == n && p.2.isArr == k) with
  | none => simp [hf] at h
  | some p =>
    simp [hf] at h; subst h
    have := List.find?_some hf
    simp at this; exact this.2

theorem findField_setField_same : ∀ (fs : List (Str × Val)) (n : Str) (k : Bool) (x y : Val),
    findField fs n k = some y → x.isArr = k → findField (setField fs n k x) n k = some x
  | [], n, k, x, y, h, _ => by simp [findField] at h
  | p :: rest, n, k, x, y, h, hx => by
    unfold setField
    by_cases hp : (p.1 == n && p.2.isArr == k) = true
    · simp only [hp, if_true]
      have hn : (p.1 == n) = true := by simp at hp; simp [hp.1]
      simp [findField, List.find?_cons, hn, hx]
    · simp only [hp]
      simp only [Bool.false_eq_true, if_false]
      have hp' : (p.1 == n && p.2.isArr == k) = false := by simpa using hp
      have hrest : findField rest n k = some y := by
        simpa [findField, List.find?_cons, hp'] using h
      have ih := findField_setField_same rest n k x y hrest hx
      simpa [findField, List.find?_cons, hp'] using ih

theorem findField_setField_other : ∀ (fs : List (Str × Val)) (n : Str) (k k' : Bool) (x : Val),
    k' ≠ k → x.isArr = k → findField (setField fs n k x) n k' = findField fs n k'
  | [], _, _, _, _, _, _ => rfl
  | p :: rest, n, k, k', x, hk, hx => by
    unfold setField
    by_cases hp : (p.1 == n && p.2.isArr == k) = true
    · simp only [hp, if_true]
      have hpk : p.2.isArr = k := by simp at hp; exact hp.2
      have h1 : ((p.1 == n) && (x.isArr == k')) = false := by simp [hx]; intro _ h; exact hk h.symm
      have h2 : ((p.1 == n) && (p.2.isArr == k')) = false := by simp [hpk]; intro _ h; exact hk h.symm
      simp [findField, List.find?_cons, h1, h2]
    · have hp' : (p.1 == n && p.2.isArr == k) = false := by simpa using hp
      simp only [hp', Bool.false_eq_true, if_false]
      have ih := findField_setField_other rest n k k' x hk hx
      unfold findField at ih ⊢
      simp only [List.find?_cons]
      split
      · rfl
      · exact ih

theorem memberKind_setField (fs : List (Str × Val)) (n : Str) (k : Bool) (x y : Val)
    (hm : memberKind fs n = some k) (hf : findField fs n k = some y) (hx : x.isArr = k) :
    memberKind (setField fs n k x) n = some k := by
  unfold memberKind at *
  cases k with
  | false =>
    rw [findField_setField_same fs n false x y hf hx]; simp
  | true =>
    have h0 : findField fs n false = none := by
      cases h : findField fs n false with
      | none => rfl
      | some z => simp [h] at hm
    rw [findField_setField_other fs n true false x (by decide) hx, h0, findField_setField_same fs n true x y hf hx]
    simp

theorem setPath_isArr (v nv v' : Val) (s : Step) (rest : List Step) (h : setPath v (s :: rest) nv = some v') : v'.isArr = v.isArr := by
  cases v <;> cases s <;> simp [setPath] at h
  · rename_i ty fs n
    cases hk : memberKind fs n <;> simp [hk] at h
    rename_i k
    cases hf : findField fs n k <;> simp [hf] at h
    rename_i fv
    cases hs : setPath fv rest nv <;> simp [hs] at h
    subst h; rfl
  · rename_i e d cells i
    cases hc : cells[i]? <;> simp [hc] at h
    rename_i cv
    cases hs : setPath cv rest nv <;> simp [hs] at h
    subst h; rfl

/-- the new value has the same array-ness as the old value at the leaf (what the type checks in front of every store guarantee) -/
def LeafKind (v : Val) (p : List Step) (nv : Val) : Prop := ∃ old, getPath v p = some old ∧ old.isArr = nv.isArr

/-- a write through a path is read back through the same path, at any depth of nesting
    (scalar fields, nested records, array fields, arrays of records) -/
theorem C07_get_set_same : ∀ (p : List Step) (v nv v' : Val), LeafKind v p nv → setPath v p nv = some v' → getPath v' p = some nv
  | [], v, nv, v', _, h => by simp [setPath] at h; subst h; simp [getPath]
  | .field n :: rest, v, nv, v', hl, h => by
    cases v <;> simp [setPath] at h
    rename_i ty fs
    cases hk : memberKind fs n with
    | none => simp [hk] at h
    | some k =>
      simp only [hk] at h
      cases hf : findField fs n k with
      | none => simp [hf] at h
      | some fv =>
        simp only [hf] at h
        cases hs : setPath fv rest nv with
        | none => simp [hs] at h
        | some fv' =>
          simp only [hs, Option.some.injEq] at h
          subst h
          have hl' : LeafKind fv rest nv := by
            obtain ⟨old, ho, hoa⟩ := hl
            simp only [getPath, hk, hf] at ho
            exact ⟨old, ho, hoa⟩
          have ih := C07_get_set_same rest fv nv fv' hl' hs
          have hfk : fv.isArr = k := findField_isArr fs n k fv hf
          have hx : fv'.isArr = k := by
            cases rest with
            | nil =>
              simp [setPath] at hs; subst hs
              obtain ⟨old, ho, hoa⟩ := hl'
              simp [getPath] at ho; subst ho; rw [← hoa]; exact hfk
            | cons s r => rw [setPath_isArr fv nv fv' s r hs]; exact hfk
          simp only [getPath, memberKind_setField fs n k fv' fv hk hf hx, findField_setField_same fs n k fv' fv hf hx]
          exact ih
  | .idx i :: rest, v, nv, v', hl, h => by
    cases v <;> simp [setPath] at h
    rename_i e d cells
    cases hc : cells[i]? with
    | none => simp [hc] at h
    | some cv =>
      simp only [hc] at h
      cases hs : setPath cv rest nv with
      | none => simp [hs] at h
      | some cv' =>
        simp only [hs, Option.some.injEq] at h
        subst h
        have hi : i < cells.length := by
          rcases List.getElem?_eq_some_iff.mp hc with ⟨hi, _⟩; exact hi
        have hl' : LeafKind cv rest nv := by
          obtain ⟨old, ho, hoa⟩ := hl
          simp only [getPath, hc] at ho
          exact ⟨old, ho, hoa⟩
        simp [getPath, hi, C07_get_set_same rest cv nv cv' hl' hs]

/-- writing one cell of an array (of records, say) leaves every other cell as it was -/
theorem C07_other_cell (e : Ty) (d : List (Int × Int)) (cells : List Val) (i j : Nat) (rest : List Step) (nv v' : Val) (hij : i ≠ j)
    (h : setPath (.arr e d cells) (.idx i :: rest) nv = some v') : getPath v' [.idx j] = getPath (.arr e d cells) [.idx j] := by
  simp [setPath] at h
  cases hc : cells[i]? <;> simp [hc] at h
  rename_i cv
  cases hs : setPath cv rest nv <;> simp [hs] at h
  subst h
  simp [getPath, List.getElem?_set_ne hij]

/-- variables are independent: updating the slot named `n` leaves every other slot of the activation unchanged,
    and updating activation `id` leaves every other activation unchanged (so a change to one copy of a record
    never shows in another variable holding the other copy) -/
theorem C07_other_slot : ∀ (ss : List Slot) (n m : Str) (f : Slot → Slot), m ≠ n → (∀ s, (f s).name = s.name) →
    findSlot (updSlot ss n f) m = findSlot ss m
  | [], _, _, _, _, _ => rfl
  | s :: rest, n, m, f, hne, hf => by
    unfold updSlot findSlot
    by_cases hs : (s.name == n) = true
    · have hsn : s.name = n := by simpa using hs
      have h1 : ((f s).name == m) = false := by rw [hf]; simp [hsn]; exact fun h => hne h.symm
      have h2 : (s.name == m) = false := by simp [hsn]; exact fun h => hne h.symm
      simp [hs, List.find?_cons, h1, h2]
    · have hs' : (s.name == n) = false := by simpa using hs
      simp only [hs', Bool.false_eq_true, if_false, List.find?_cons]
      split
      · rfl
      · exact C07_other_slot rest n m f hne hf

theorem C07_other_act : ∀ (acts : List Act) (id id' : Nat) (f : Act → Act), id' ≠ id → (∀ a, (f a).id = a.id) →
    (updActs acts id f).find? (·.id == id') = acts.find? (·.id == id')
  | [], _, _, _, _, _ => rfl
  | a :: rest, id, id', f, hne, hf => by
    unfold updActs
    by_cases ha : (a.id == id) = true
    · have hai : a.id = id := by simpa using ha
      have h1 : ((f a).id == id') = false := by rw [hf]; simp [hai]; exact fun h => hne h.symm
      have h2 : (a.id == id') = false := by simp [hai]; exact fun h => hne h.symm
      simp [ha, List.find?_cons, h1, h2]
    · have ha' : (a.id == id) = false := by simpa using ha
      simp only [ha', Bool.false_eq_true, if_false, List.find?_cons]
      split
      · rfl
      · exact C07_other_act rest id id' f hne hf

/-- a freshly declared record field holds its type's default value -/
theorem C07_fresh_default : defaultPrim .int = .int 0 ∧ defaultPrim .str = .str [] ∧ defaultPrim .bool = .bool false ∧
    defaultPrim .real = .real 0.0 ∧ (∀ n, defaultPrim (.enum n) = .enum n 0 ∧ defaultPrim (.ptr n) = .ptr n none) :=
  ⟨rfl, rfl, rfl, rfl, fun _ => ⟨rfl, rfl⟩⟩

/-- a field the type does not declare is not found (no fall-through to any other scope) -/
theorem C07_no_such_field (ty : Str) (fs : List (Str × Val)) (n : Str) (rest : List Step) (h : memberKind fs n = none) (nv : Val) :
    getPath (.comp ty fs) (.field n :: rest) = none ∧ setPath (.comp ty fs) (.field n :: rest) nv = none := by
  simp [getPath, setPath, h]

/-! non-vacuity -/
example : setPath (.comp "R".toList [("f".toList, .int 1), ("g".toList, .str [])]) [.field "g".toList] (.str ['x']) =
    some (.comp "R".toList [("f".toList, .int 1), ("g".toList, .str ['x'])]) := by rfl

end Pseudo
