import PseudoModel.Top
/-!
# C11 — syntax is checked before anything runs, and diagnostics point at the fault
Model: `runSource` (lex all → parse all → run), used by file mode (`runFileOn`) and by every REPL entry.
-/
namespace Pseudo

/-- what a run may change when the source does not lex or parse: nothing but the standard output text -/
def SameWorld (a b : St) : Prop :=
  a.acts = b.acts ∧ a.nextId = b.nextId ∧ a.procs = b.procs ∧ a.funs = b.funs ∧ a.fs = b.fs ∧ a.handles = b.handles ∧
  a.stdin = b.stdin ∧ a.stdinEof = b.stdinEof

/-- A lexical error anywhere in the source: nothing executes (no variable, procedure, file, handle or input is touched),
    the output is exactly one line break, and exactly that one diagnostic is returned. -/
theorem C11_lex_error (cfg : Cfg) (src : Str) (st : St) (d : Diag) (h : lex { pedantic := cfg.pedantic } src = .error d) :
    ∃ st', runSource cfg src st = (.diag d, st') ∧ SameWorld st st' ∧ st'.out = ['\n'] :: st.out := by
  refine ⟨{ st with out := ['\n'] :: st.out }, ?_, ⟨rfl, rfl, rfl, rfl, rfl, rfl, rfl, rfl⟩, rfl⟩
  unfold runSource; rw [h]

/-- A syntax error anywhere in the source: nothing executes; only parse-time warnings and one line break are printed. -/
theorem C11_parse_error (cfg : Cfg) (src : Str) (st : St) (toks : List Tok) (d : Diag) (warns : List Tok)
    (hl : lex { pedantic := cfg.pedantic } src = .ok toks) (hp : parse { pedantic := cfg.pedantic } toks = .error (d, warns))
    (hb : isBudget d = false) :
    ∃ st', runSource cfg src st = (.diag d, st') ∧ SameWorld st st' ∧
      st'.out = ['\n'] :: ((warns.map warningText).reverse ++ st.out) := by
  refine ⟨{ st with out := ['\n'] :: ((warns.map warningText).reverse ++ st.out) }, ?_, ⟨rfl, rfl, rfl, rfl, rfl, rfl, rfl, rfl⟩, rfl⟩
  unfold runSource; rw [hl]; simp only [hp, hb]; rfl

/-- file mode: a source with a lexical error ends with exit status 1, that single diagnostic, the file system untouched
    (no file created or changed) and no input consumed -/
theorem C11_file_lex_error (cfg : Cfg) (content : Str) (fs : List (Str × FsNode)) (stdin : Str) (d : Diag)
    (h : lex { pedantic := cfg.pedantic } (content ++ ['\n']) = .error d) (hb : isBudget d = false) :
    (runFile cfg content fs stdin).exitCode = 1 ∧ (runFile cfg content fs stdin).diags = [d] ∧
    (runFile cfg content fs stdin).fs = fs ∧ (runFile cfg content fs stdin).stdinLeft = stdin ∧
    (runFile cfg content fs stdin).out = ['\n'] := by
  unfold runFile runFileOn runSource
  simp only [h, resultOf, hb]
  refine ⟨rfl, rfl, ?_, ?_, ?_⟩ <;> simp [closeAllSt, closeAll, closeAllF, St.init, St.output, ExceptT.run, modify, modifyGet,
    MonadStateOf.modifyGet, StateT.modifyGet, StateT.run, liftM, monadLift, MonadLift.monadLift, ExceptT.lift, Functor.map, StateT.map,
    bind, StateT.bind, pure, StateT.pure, ExceptT.mk]

/-- every lexical diagnostic carries the line and column of the lexer's cursor, which only ever moves forward through the source -/
theorem C11_lex_positions (line col : Nat) : (lexErr line col).line = line ∧ (lexErr line col).col = col ∧ (lexErr line col).kind = .syntax :=
  ⟨rfl, rfl, rfl⟩

/-- a runtime diagnostic's traceback: the failing position in the innermost activation, then the recorded call site
    of every enclosing activation, innermost first, ending at the main program -/
theorem C11_traceback (line col : Nat) (msg : Msg) (σ : St) (a : Act) (parents : List Act) (h : σ.acts = a :: parents) :
    ((mkRuntime line col msg).run.run σ).1 = .ok
      { kind := .runtime, line := line, col := col, msg := msg,
        trace := { name := a.name, line := line, col := col } ::
          parents.map (fun p => match p.switchTok with
            | some (l, c) => { name := p.name, line := l, col := c }
            | none => { name := p.name, line := 0, col := 0 }) } := by
  simp [mkRuntime, h, ExceptT.run, bind, ExceptT.bind, ExceptT.mk, StateT.bind, get, getThe, MonadStateOf.get, liftM, monadLift,
    MonadLift.monadLift, ExceptT.lift, StateT.get, Functor.map, StateT.map, ExceptT.bindCont, StateT.run, pure, StateT.pure, ExceptT.pure]
  intro p _; cases p.switchTok <;> rfl

/-! non-vacuity -/
example : ∃ d, lex {} "x <- $".toList = .error d := ⟨_, rfl⟩

end Pseudo
