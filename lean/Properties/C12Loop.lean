import PseudoProofs.ReplLoopAux
/-!
# C12 — the theorems on the REPL loop itself (`Top.replLoop` / `Top.repl`)

`Properties/C12ReplFile.lean` and `C12Survive.lean` are about `runOn` / `runEntries` / `runSource` on an evolving state.
This file connects them with the loop of the model, which reads its entries from the same standard input the program
reads from, collects multi-line entries up to an empty line, handles `?` / `EXIT` / `RUNFILE`, prints prompts and resets
`steps` and `depth` before every entry.

* entries: `ReplLoop.Entry` (first line + continuation lines), `Entry.text` (what is typed), `Entry.src` (what is lexed),
  `Entry.WF` (an ordinary entry: not empty, not `?`, not `EXIT`, not `RUNFILE…`; continuation lines exactly when the first
  line starts with a block keyword, none of them empty);
* `C12_loop_turn`: one turn of the loop on an input that starts with a well-formed entry = `runSource` on the state
  `entrySt` (prompts printed, `steps := 0`, `depth := 0`, entry text consumed), the result recorded (`record`), and the
  loop goes on unless the entry stopped at a crash point;
* `C12_loop_session`: any number of turns = the function `session` (a fold of `step` over the entries, no reading);
  `C12_repl_session_exit` / `C12_repl_session_eof`: the whole of `repl` on such an input, ended by `EXIT` / the end of input;
* `C12_loop_other_turns`: `EXIT`, empty line, `?`, end of input (RUNFILE and the end of input INSIDE a multi-line entry,
  which ends the session, are not treated here);
* `C12_loop_turn_eq_file`: one turn against the same block run from a state with the same core but a larger step count /
  call depth (a file run that has come this far): same outcome — also the same diagnostic — unless the file side hits
  the budget;
* `C12_loop_eq_entries`: if no entry reads the standard input (`inputKept`, a computable check on the session itself) and
  the blocks of the entries run one after the other **with one shared step budget and call depth** (`runEntries`) all end
  normally, then every REPL entry ends normally, the session records nothing, and the final states agree on variables,
  types, procedures, functions, files and handles; the REPL output chunks are the prompts interleaved with the chunks of
  the entries (`replOut`), the chunks of the shared-budget run are the same chunks without the prompts (`fileOut`);
* `C12_loop_eq_file`: the same against ONE run of the concatenated blocks without the REPL flag (file mode): same
  program state; the file's output chunks are a sublist of the entries' chunks (the rest are echoes) — or the echo of a
  value stops at one of its two crash points; `C12_repl_eq_runFile`: for `repl` and `runFileOn`;
  `C12_loop_budget_needed`: the budget hypothesis cannot be dropped;
* `C12_loop_survives`, `C12_loop_survives_next`, `C12_session_established`: failing entries;
* `C12_loop_exit_closes`, `C12_loop_eof_closes`: the end of the session closes the files.

Why the comparison with file mode is stated on BLOCKS (`runOn … bs.flatten`): the tokens of an entry carry positions
relative to the entry (every single-line entry is "line 1"), the tokens of a file carry file positions, and positions
are part of the syntax tree (they go into diagnostics and call-site notes). The parse of a file with two lines is
therefore never literally the concatenation of the parses of its lines (`C12_positions_differ`); for a session of one
(multi-line) entry the two texts are the same and `C12_repl_eq_runFile` applies as it is.
-/
namespace Pseudo
open ReplLoop ReplSim C12Echo

/-! ### one turn, many turns -/

/-- **C12 (one turn of the loop).** `r` is the session record, not crashed; the standard input is not at its end and
    starts with the text of the well-formed entry `e` (needed: otherwise the turn is one of the other cases — `EXIT`,
    `?`, empty line, `RUNFILE`, end of input — see `replLoop_exit` etc.), `rest` is what follows. Then the turn runs
    `runSource cfg e.src` on `entrySt first e r.st rest` — the session state with the prompt(s) printed, `steps` and
    `depth` reset to 0 and the entry text consumed —, records the result (`record`: new state; a diagnostic is added to
    `diags`, a budget / fuel stop sets `inconclusive`, a crash point sets `crash`), and goes on with the next turn unless
    a crash point was recorded. -/
theorem C12_loop_turn (cfg : Cfg) (n : Nat) (first : Bool) (r : ReplSt) (e : Entry) (rest : Str) (hw : e.WF)
    (hc : r.crash = none) (heof : r.st.stdinEof = false) (hin : r.st.stdin = e.text ++ rest) :
    replLoop cfg (n + 1) first r =
      if (step cfg first e r rest).crash.isSome then step cfg first e r rest
      else replLoop cfg n false (step cfg first e r rest) :=
  replLoop_entry cfg n first r e rest hw hc heof hin

/-- **C12 (a session of the loop).** If at every turn the standard input starts with the text of the next entry of `es`
    (`inputOK`, a computable check: it holds when the input is the concatenation of the entry texts and no entry reads
    from the standard input), then `es.length` turns of the loop compute `session cfg es first r` — each entry run by
    `runSource` on the state the previous ones left, with the per-entry reset `entrySt` — and the loop goes on with the
    rest of the input. `n + 1`: the loop has fuel left (`repl` gives it `stdin.length + 2`). -/
theorem C12_loop_session (cfg : Cfg) (n : Nat) (es : List Entry) (first : Bool) (r : ReplSt)
    (hw : ∀ e ∈ es, e.WF) (hok : inputOK cfg es first r = true) :
    replLoop cfg (es.length + (n + 1)) first r = replLoop cfg (n + 1) (first && es.isEmpty) (session cfg es first r) :=
  replLoop_session cfg n es first r hw hok

/-- **C12 (the turns that run nothing).** `EXIT` ends the loop at once; an empty line and `?` (which prints the help
    text) go on with the next turn; at the end of the input — reached before, or now with an unfinished last line, which
    is NOT run — the loop ends. In all five cases the session record changes only in `st`, and `st` only by the prompt
    printed, `steps` / `depth` reset and the line consumed (`promptSt`): variables, procedures, files are untouched.
    Hypotheses: the session has not crashed; `heof` / `hin` say which case it is. -/
theorem C12_loop_other_turns (cfg : Cfg) (n : Nat) (first : Bool) (r : ReplSt) (rest : Str) (hc : r.crash = none) :
    (r.st.stdinEof = false → r.st.stdin = "EXIT".toList ++ '\n' :: rest →
      replLoop cfg (n + 1) first r = { r with st := promptSt first r.st rest }) ∧
    (r.st.stdinEof = false → r.st.stdin = '\n' :: rest →
      replLoop cfg (n + 1) first r = replLoop cfg n false { r with st := promptSt first r.st rest }) ∧
    (r.st.stdinEof = false → r.st.stdin = '?' :: '\n' :: rest →
      replLoop cfg (n + 1) first r =
        replLoop cfg n false { r with st := { promptSt first r.st rest with out := helpText :: (promptSt first r.st rest).out } }) ∧
    (r.st.stdinEof = true → replLoop cfg (n + 1) first r = { r with st := promptSt first r.st r.st.stdin }) ∧
    (r.st.stdinEof = false → '\n' ∉ r.st.stdin →
      replLoop cfg (n + 1) first r = { r with st := { promptSt first r.st [] with stdinEof := true } }) :=
  ⟨fun h1 h2 => replLoop_exit cfg n first r rest hc h1 h2, fun h1 h2 => replLoop_blank cfg n first r rest hc h1 h2,
   fun h1 h2 => replLoop_help cfg n first r rest hc h1 h2, fun h1 => replLoop_eof cfg n first r hc h1,
   fun h1 h2 => replLoop_eof_partial_line cfg n first r hc h1 h2⟩

/-- **C12 (a whole session ended by `EXIT`).** The standard input is the texts of the well-formed entries `es`, then
    the line `EXIT`, then anything (`junk`, not read). If no entry stops at a crash point and the input is intact at
    every turn (`inputOK`; `hend`: after the last entry the input stands at `EXIT`), `repl` reports: the output of the
    final session state plus the last prompt, the diagnostics / error lines recorded by `session` in the order they
    occurred, exit code 0, and the files as `closeAllSt` leaves them (all closed, see `C12_loop_exit_closes`).
    `hlen`: the loop's fuel `stdin.length + 2` covers the turns (true whenever the input contains the entry texts:
    `texts_length`). -/
theorem C12_repl_session_exit (cfg : Cfg) (fs : List (Str × FsNode)) (stdin junk : Str) (es : List Entry)
    (hw : ∀ e ∈ es, e.WF) (hok : inputOK cfg es true (replStart cfg fs stdin) = true)
    (hlen : es.length ≤ stdin.length)
    (hcr : (session cfg es true (replStart cfg fs stdin)).crash = none)
    (heof : (session cfg es true (replStart cfg fs stdin)).st.stdinEof = false)
    (hend : (session cfg es true (replStart cfg fs stdin)).st.stdin = "EXIT".toList ++ '\n' :: junk) :
    repl cfg fs stdin = finish (session cfg es true (replStart cfg fs stdin))
      (promptSt es.isEmpty (session cfg es true (replStart cfg fs stdin)).st junk) := by
  have hfuel : stdin.length + 2 = es.length + ((stdin.length - es.length + 1) + 1) := by omega
  have key : replLoop cfg (stdin.length + 2) true (replStart cfg fs stdin)
      = { session cfg es true (replStart cfg fs stdin) with
          st := promptSt es.isEmpty (session cfg es true (replStart cfg fs stdin)).st junk } := by
    rw [hfuel, replLoop_session cfg _ es true _ hw hok, replLoop_exit cfg _ _ _ junk hcr heof hend]
    simp only [Bool.true_and]
  rw [repl_eq_finish, key]
  rfl

/-- **C12 (a whole session ended by the end of the input).** The same when the input ends after the last entry (or
    with an unfinished line `'\n' ∉ …`, which is NOT run): the end of input is recorded, the files are closed. -/
theorem C12_repl_session_eof (cfg : Cfg) (fs : List (Str × FsNode)) (stdin : Str) (es : List Entry)
    (hw : ∀ e ∈ es, e.WF) (hok : inputOK cfg es true (replStart cfg fs stdin) = true)
    (hlen : es.length ≤ stdin.length)
    (hcr : (session cfg es true (replStart cfg fs stdin)).crash = none)
    (heof : (session cfg es true (replStart cfg fs stdin)).st.stdinEof = false)
    (hend : '\n' ∉ (session cfg es true (replStart cfg fs stdin)).st.stdin) :
    repl cfg fs stdin = finish (session cfg es true (replStart cfg fs stdin))
      { promptSt es.isEmpty (session cfg es true (replStart cfg fs stdin)).st [] with stdinEof := true } := by
  have hfuel : stdin.length + 2 = es.length + ((stdin.length - es.length + 1) + 1) := by omega
  have key : replLoop cfg (stdin.length + 2) true (replStart cfg fs stdin)
      = { session cfg es true (replStart cfg fs stdin) with
          st := { promptSt es.isEmpty (session cfg es true (replStart cfg fs stdin)).st [] with stdinEof := true } } := by
    rw [hfuel, replLoop_session cfg _ es true _ hw hok, replLoop_eof_partial_line cfg _ _ _ hcr heof hend]
    simp only [Bool.true_and]
  rw [repl_eq_finish, key]
  rfl

/-! ### the end of the session closes the files -/

/-- **C12 / C16 (EXIT closes).** However a session ends (`finish` is what `repl` reports in both theorems above), the
    reported file system is the one `closeAllF` — C16's "exit closes": every handle closed, modified random files
    written back — computes from the last session state, and no handle stays open. -/
theorem C12_loop_exit_closes (R : ReplSt) (s : St) :
    (finish R s).fs = (closeAllF { fs := s.fs, handles := s.handles }).fs ∧ (closeAllSt s).handles = [] :=
  ⟨rfl, rfl⟩

/-- the same, spelled out for `EXIT` and for the end of the input: the prompt and the bookkeeping of the last turn do not
    touch files or handles, so it is the file state the last ENTRY left that is closed -/
theorem C12_loop_eof_closes (R : ReplSt) (first : Bool) (rest : Str) :
    (finish R (promptSt first R.st rest)).fs = (closeAllF { fs := R.st.fs, handles := R.st.handles }).fs ∧
    (finish R { promptSt first R.st [] with stdinEof := true }).fs = (closeAllF { fs := R.st.fs, handles := R.st.handles }).fs :=
  ⟨rfl, rfl⟩

/-! ### failing entries -/

/-- **C12 (the loop survives a failing entry).** The entry `e` fails: `runSource` reports the diagnostic `d` (lexical,
    syntax or runtime error; `hb`: not the budget diagnostic, which is recorded as `inconclusive` instead) in state `s`.
    Then the loop goes on — with fuel `n` — from the record with `st := s` and `d` added to the diagnostics (what `repl`
    reports on stderr), nothing else changed; and everything established before the entry (procedures, functions, global
    types, variables with their types and CONSTANT flags, activation ids) is still there in `s` (`Established`). -/
theorem C12_loop_survives (cfg : Cfg) (n : Nat) (first : Bool) (r : ReplSt) (e : Entry) (rest : Str) (d : Diag) (s : St)
    (hw : e.WF) (hc : r.crash = none) (heof : r.st.stdinEof = false) (hin : r.st.stdin = e.text ++ rest)
    (hfail : runSource cfg e.src (entrySt first e r.st rest) = (.diag d, s)) (hb : isBudget d = false) :
    replLoop cfg (n + 1) first r = replLoop cfg n false { r with st := s, diags := d :: r.diags } ∧
    Established r.st s := by
  have hstep : step cfg first e r rest = { r with st := s, diags := d :: r.diags } := by
    unfold step; rw [hfail]; simp only [record, hb, Bool.false_eq_true, if_false]
  refine ⟨?_, ?_⟩
  · rw [replLoop_entry cfg n first r e rest hw hc heof hin, hstep]
    simp [hc]
  · have h := established_entry cfg first e r.st rest
    rw [hfail] at h
    exact .of_R h

/-- **C12 (the entry after a failing one).** Two entries in a row, the first failing with `d` in state `s`: the second is
    run by `runSource` on `entrySt false e2 s rest2` — the state the failing entry left, with the counters reset and the
    prompt printed — and its result is recorded after `d`. -/
theorem C12_loop_survives_next (cfg : Cfg) (n : Nat) (first : Bool) (r : ReplSt) (e1 e2 : Entry) (rest1 rest2 : Str)
    (d : Diag) (s : St) (hw1 : e1.WF) (hw2 : e2.WF) (hc : r.crash = none) (heof : r.st.stdinEof = false)
    (hin : r.st.stdin = e1.text ++ rest1)
    (hfail : runSource cfg e1.src (entrySt first e1 r.st rest1) = (.diag d, s)) (hb : isBudget d = false)
    (heof2 : s.stdinEof = false) (hin2 : s.stdin = e2.text ++ rest2) :
    replLoop cfg (n + 2) first r =
      if (step cfg false e2 { r with st := s, diags := d :: r.diags } rest2).crash.isSome
      then step cfg false e2 { r with st := s, diags := d :: r.diags } rest2
      else replLoop cfg n false (step cfg false e2 { r with st := s, diags := d :: r.diags } rest2) := by
  rw [(C12_loop_survives cfg (n + 1) first r e1 rest1 d s hw1 hc heof hin hfail hb).1]
  exact replLoop_entry cfg n false _ e2 rest2 hw2 hc heof2 hin2

/-- **C12 (a session keeps what was established)**, for the pure description `session` of the loop: whatever the entries
    do and however each of them ends. -/
theorem C12_session_established (cfg : Cfg) : ∀ (es : List Entry) (first : Bool) (r : ReplSt),
    Established r.st (session cfg es first r).st := by
  have key : ∀ (es : List Entry) (first : Bool) (r : ReplSt), C12.R r.st (session cfg es first r).st := by
    intro es
    induction es with
    | nil => intro first r; exact RPre.refl _
    | cons e es ih =>
      intro first r
      unfold session
      split
      · exact RPre.refl _
      · refine RPre.trans ?_ (ih false _)
        unfold step
        rw [record_st]
        exact established_entry cfg first e r.st _
  exact fun es first r => .of_R (key es first r)

/-! ### the session against the same statements run with one budget / as one program -/

/-- **C12 (the session = the entries run with ONE budget).** `ebs`: the entries with the blocks they parse to (no
    warnings). Hypotheses: the session record `r` is not crashed; `φ` is a state with the same core as the session state
    (`SameCore`: same variables, types, procedures, functions, files, handles, flags and limits — `out`, `steps`, `depth`,
    `stdin` are free); no entry reads the standard input and the input offers the entries one after the other
    (`inputKept`, computable on the session); and `runEntries` — the blocks run one after the other on the evolving
    state WITHOUT any reset, so with one shared step budget and call depth — ends normally. This last hypothesis is the
    budget hypothesis: the loop counts steps from 0 in every entry, `runEntries` (and a file run) counts them all, so the
    session can be fine where the single run hits the limit (`C12_loop_budget_needed`), never the other way round.
    Conclusion: the session records nothing (no diagnostic, no crash, flags unchanged), its final state has the same core
    as the final state of `runEntries`, its output chunks are `replOut` — per entry the prompt `> ` (preceded by the
    record separator after the first turn), the continuation prompts, then the chunks `a` of the entry —, and the chunks
    of `runEntries` are the same `a`s without the prompts (`fileOut`); the input of the `runEntries` side is untouched. -/
theorem C12_loop_eq_entries (cfg : Cfg) (ebs : List (Entry × Block)) (first : Bool) (r : ReplSt) (φ φ' : St)
    (hp : ∀ eb ∈ ebs, Parses cfg eb.1 eb.2) (hc : r.crash = none) (hcore : SameCore r.st φ)
    (hk : inputKept cfg (ebs.map (·.1)) first r = true)
    (hfile : runEntries cfg.fuel (ebs.map (·.2)) φ = (.ok, φ')) :
    ∃ as : List (List Str), as.length = ebs.length ∧
      session cfg (ebs.map (·.1)) first r = { r with st := (session cfg (ebs.map (·.1)) first r).st } ∧
      SameCore (session cfg (ebs.map (·.1)) first r).st φ' ∧
      (session cfg (ebs.map (·.1)) first r).st.out = replOut ((ebs.map (·.1)).zip as) first r.st.out ∧
      φ'.out = fileOut as φ.out ∧ φ'.stdin = φ.stdin ∧ φ'.stdinEof = φ.stdinEof :=
  session_vs_entries cfg ebs first r φ φ' hp hc hcore hk hfile

/-- **C12 (one turn = the same block in a file run, whatever the outcome).** The entry `e` parses to `b`; `φ` is a state
    with the same core as the session state (for instance the state a file run has reached after the statements of the
    earlier entries: `C12_loop_eq_entries`) — it may have counted more steps and have more calls open, which is why the
    file side decides: if `runOn` of `b` from `φ` ends with outcome `o` that is not the budget diagnostic (`hnb`), and the
    REPL turn leaves the standard input as it was (`hkept`: the entry does not read input), then the REPL turn ends with
    the SAME outcome `o` — same diagnostic at the same token with the same traceback, or same crash point —, in a state
    with the same core, having appended the same output chunks `a` (the REPL then adds the line break that follows a
    diagnostic, `post`, and records the outcome). -/
theorem C12_loop_turn_eq_file (cfg : Cfg) (first : Bool) (r : ReplSt) (e : Entry) (b : Block) (rest : Str) (φ φ1 : St)
    (o : Outcome) (hp : Parses cfg e b) (hcore : SameCore r.st φ) (heof : r.st.stdinEof = false)
    (hfile : runOn cfg.fuel b φ = (o, φ1)) (hnb : ∀ d, o = .diag d → isBudget d = false)
    (hkept : (step cfg first e r rest).st.stdin = rest ∧ (step cfg first e r rest).st.stdinEof = false) :
    ∃ (a : List Str) (s : St), step cfg first e r rest = record r (post (o, s)) ∧ SameCore s φ1 ∧
      s.out = a ++ (entrySt first e r.st rest).out ∧ φ1.out = a ++ φ.out := by
  have hstep : step cfg first e r rest = record r (post (runOn cfg.fuel b (entrySt first e r.st rest))) := by
    unfold step; rw [runSource_parses hp]
  have hk : (runOn cfg.fuel b (entrySt first e r.st rest)).2.stdin = (entrySt first e r.st rest).stdin ∧
      (runOn cfg.fuel b (entrySt first e r.st rest)).2.stdinEof = false := by
    have h1 := post_stdin (runOn cfg.fuel b (entrySt first e r.st rest))
    rw [hstep, record_st] at hkept
    exact ⟨h1.1 ▸ hkept.1, h1.2 ▸ hkept.2⟩
  obtain ⟨a, s, hrun, hc1, hout, hfout, _⟩ :=
    block_vs_file cfg.fuel b (entrySt first e r.st rest) φ φ1 o ((SameCore.entrySt first e r.st rest).trans hcore) heof
      (Nat.zero_le _) (Nat.zero_le _) hfile hnb hk
  exact ⟨a, s, by rw [hstep, hrun], hc1, hout, hfout⟩

/-- **C12 (the REPL loop = file mode).** As `C12_loop_eq_entries`, against ONE run of the concatenated blocks in file
    mode: `φ` with the REPL flag cleared is the file-mode start state (`hcore`: the session state agrees with `φ` up to
    the flag and the free components). Hypothesis `hfile`: that run ends normally — in particular within the step budget
    and the call-depth limit, which the file run counts over the whole program and the loop per entry (the budget
    hypothesis, needed: `C12_loop_budget_needed`), and within the fuel `cfg.fuel` of the model.
    Conclusion: either the echo of a value stops the flag-set run at one of its two crash points (`EchoCrash`, see
    `C12_echo_only_output`), or: the session records nothing, the final session state and the final file-mode state have
    the same variables / types (activations), procedures, functions, files and handles, the session output is the prompts
    interleaved with the entries' chunks `as`, and the output chunks the file run appended are a sublist of
    `fileOut as []` — the entries' chunks without the prompts; what is missing are the echoes. -/
theorem C12_loop_eq_file (cfg : Cfg) (ebs : List (Entry × Block)) (first : Bool) (r : ReplSt) (φ : St)
    (hp : ∀ eb ∈ ebs, Parses cfg eb.1 eb.2) (hc : r.crash = none) (hcore : SameCore r.st { φ with repl := true })
    (hk : inputKept cfg (ebs.map (·.1)) first r = true)
    (hfile : (runOn cfg.fuel (ebs.map (·.2)).flatten { φ with repl := false }).1.isOk = true) :
    (∃ p, EchoCrash p ∧ (runOn cfg.fuel (ebs.map (·.2)).flatten { φ with repl := true }).1 = .crash p) ∨
    (session cfg (ebs.map (·.1)) first r = { r with st := (session cfg (ebs.map (·.1)) first r).st } ∧
     SameProgramState (session cfg (ebs.map (·.1)) first r).st (runOn cfg.fuel (ebs.map (·.2)).flatten { φ with repl := false }).2 ∧
     ∃ (as : List (List Str)) (a2 : List Str), as.length = ebs.length ∧
       (session cfg (ebs.map (·.1)) first r).st.out = replOut ((ebs.map (·.1)).zip as) first r.st.out ∧
       (runOn cfg.fuel (ebs.map (·.2)).flatten { φ with repl := false }).2.out = a2 ++ φ.out ∧
       a2.Sublist (fileOut as [])) := by
  rcases C12_echo_only_output cfg.fuel (ebs.map (·.2)).flatten φ with hcrash | ⟨h1, h2, ⟨a1, a2, h3, h4, h5⟩, _⟩
  · exact .inl hcrash
  · refine .inr ?_
    have hok := Outcome.eq_ok_of_isOk hfile
    rw [hok] at h1
    have hT : runOn cfg.fuel (ebs.map (·.2)).flatten { φ with repl := true }
        = (.ok, (runOn cfg.fuel (ebs.map (·.2)).flatten { φ with repl := true }).2) := by
      rw [← h1]
    have hE := C12_file_eq_entries cfg.fuel (ebs.map (·.2)) _ _ .ok hT (fun h => nomatch h)
    obtain ⟨as, hlen, hrec, hcoreN, houtN, hfoutN, _, _⟩ := session_vs_entries cfg ebs first r _ _ hp hc hcore hk hE
    refine ⟨hrec, ?_, as, a2, hlen, houtN, h4, ?_⟩
    · have e1 := congrArg St.acts h2
      have e2 := congrArg St.nextId h2
      have e3 := congrArg St.procs h2
      have e4 := congrArg St.funs h2
      have e5 := congrArg St.fs h2
      have e6 := congrArg St.handles h2
      exact ⟨hcoreN.acts.trans e1, hcoreN.nextId.trans e2, hcoreN.procs.trans e3, hcoreN.funs.trans e4,
        hcoreN.fs.trans e5, hcoreN.handles.trans e6⟩
    · have : fileOut as [] = a1 := by
        have h := hfoutN
        rw [h3, fileOut_append] at h
        exact (List.append_cancel_right h).symm
      rw [this]
      exact h5

/-- **C12 (`repl` = `runFile`).** A whole REPL session (entries `es`, then `EXIT`) against `runFile` on a program text
    that parses to the concatenation of the entries' blocks (`hpf`; because token positions are part of the blocks this
    holds when the session is one — possibly multi-line — entry whose lines are the file's lines, see the header).
    Hypotheses as in `C12_repl_session_exit` and `C12_loop_eq_file`; `hfile`: the file run ends normally (exit code 0,
    conclusive) — in particular within ITS step budget, counted over the whole program. Then, unless the echo of a value
    stops at a crash point: the session reports no diagnostic, exit code 0, is conclusive; the file system after the
    session (files closed) is the file system after the file run; and the output of the file run is a subsequence of the
    output of the session (which has the prompts and the echoes in addition). -/
theorem C12_repl_eq_runFile (cfg : Cfg) (fs : List (Str × FsNode)) (stdin junk stdinF content : Str) (es : List Entry)
    (hw : ∀ e ∈ es, e.WF) (hps : ∀ e ∈ es, parsesOK cfg e = true)
    (hk : inputKept cfg es true (replStart cfg fs stdin) = true) (hlen : es.length ≤ stdin.length)
    (hend : (session cfg es true (replStart cfg fs stdin)).st.stdin = "EXIT".toList ++ '\n' :: junk)
    (hpf : ParsesFile cfg content (es.map (blockOf cfg)).flatten)
    (hfile : (runFileOn cfg content fs stdinF false).1.isOk = true) :
    (∃ p, EchoCrash p ∧ (runOn cfg.fuel (es.map (blockOf cfg)).flatten
        { St.init fs stdinF cfg.pedantic true with stepLimit := cfg.stepLimit, depthLimit := cfg.depthLimit }).1 = .crash p) ∨
    ((repl cfg fs stdin).diags = [] ∧ (repl cfg fs stdin).exitCode = 0 ∧ (repl cfg fs stdin).inconclusive = false ∧
     (repl cfg fs stdin).fs = (runFile cfg content fs stdinF).fs ∧
     (runFile cfg content fs stdinF).out.Sublist (repl cfg fs stdin).out) := by
  let ebs : List (Entry × Block) := es.map fun e => (e, blockOf cfg e)
  have hm1 : ebs.map (·.1) = es := by simp [ebs, List.map_map, Function.comp_def]
  have hm2 : ebs.map (·.2) = es.map (blockOf cfg) := by simp [ebs, List.map_map, Function.comp_def]
  have hp : ∀ eb ∈ ebs, Parses cfg eb.1 eb.2 := by
    intro eb heb
    obtain ⟨e, he, rfl⟩ := List.mem_map.mp heb
    exact parses_of_ok cfg e (hps e he)
  let φ : St := { St.init fs stdinF cfg.pedantic false with stepLimit := cfg.stepLimit, depthLimit := cfg.depthLimit }
  have hrf := runFileOn_parses hpf fs stdinF false
  have hfile' : (runOn cfg.fuel (ebs.map (·.2)).flatten { φ with repl := false }).1.isOk = true := by
    rw [hm2]
    rw [hrf] at hfile
    generalize hx : runOn cfg.fuel (es.map (blockOf cfg)).flatten
      { St.init fs stdinF cfg.pedantic false with stdinEof := false, stepLimit := cfg.stepLimit, depthLimit := cfg.depthLimit } = x at hfile
    have : ({ φ with repl := false } : St) = { St.init fs stdinF cfg.pedantic false with stdinEof := false, stepLimit := cfg.stepLimit, depthLimit := cfg.depthLimit } := rfl
    rw [this, hx]
    rcases x with ⟨o, s⟩
    cases o <;> first | rfl | cases hfile
  have hcore : SameCore (replStart cfg fs stdin).st { φ with repl := true } := fun _ => rfl
  rcases C12_loop_eq_file cfg ebs true (replStart cfg fs stdin) φ hp rfl hcore (by rw [hm1]; exact hk) hfile' with
    hcrash | ⟨hrec, hsame, as, a2, hlen', hout, hfout, hsub⟩
  · left
    rw [hm2] at hcrash
    exact hcrash
  · right
    rw [hm1] at hrec hsame hout
    rw [hm2] at hsame hfout
    have hR := hrec
    generalize hRdef : session cfg es true (replStart cfg fs stdin) = R at hR hsame hout hend
    have hcr : R.crash = none := by rw [hR]; rfl
    have hkE := inputKept_end cfg es true (replStart cfg fs stdin) rfl hk
    rw [hRdef] at hkE
    have hrepl : repl cfg fs stdin = finish R (promptSt es.isEmpty R.st junk) := by
      rw [← hRdef] at hcr hend ⊢
      exact C12_repl_session_exit cfg fs stdin junk es hw (inputOK_of_kept cfg es true _ hk) hlen hcr
        (by rw [hRdef]; exact hkE) hend
    -- the file run
    have hψ : runFileOn cfg content fs stdinF false = (.ok, closeAllSt (runOn cfg.fuel (es.map (blockOf cfg)).flatten { φ with repl := false }).2) := by
      rw [hrf]
      have : ({ φ with repl := false } : St) = { St.init fs stdinF cfg.pedantic false with stdinEof := false, stepLimit := cfg.stepLimit, depthLimit := cfg.depthLimit } := rfl
      rw [← this]
      have hok := Outcome.eq_ok_of_isOk (by rw [hm2] at hfile'; exact hfile')
      generalize runOn cfg.fuel (es.map (blockOf cfg)).flatten { φ with repl := false } = x at hok ⊢
      rcases x with ⟨o, s⟩
      cases hok
      rfl
    have hrunFile : runFile cfg content fs stdinF
        = resultOf .ok (closeAllSt (runOn cfg.fuel (es.map (blockOf cfg)).flatten { φ with repl := false }).2) := by
      unfold runFile; rw [hψ]
    rw [hrepl, hrunFile]
    refine ⟨by rw [hR]; rfl, by rw [hR]; rfl, by rw [hR]; rfl, ?_, ?_⟩
    · show (closeAllF { fs := R.st.fs, handles := R.st.handles }).fs = (closeAllF { fs := _, handles := _ }).fs
      rw [hsame.fs, hsame.handles]
    · show St.output _ |>.Sublist (St.output _)
      apply output_sublist
      show (runOn cfg.fuel (es.map (blockOf cfg)).flatten { φ with repl := false }).2.out.Sublist
        ("> ".toList :: (if es.isEmpty then R.st.out else marker :: R.st.out))
      rw [hfout, hout]
      refine List.Sublist.cons _ ?_
      have h1 : (a2 ++ φ.out).Sublist (replOut (es.zip as) true (replStart cfg fs stdin).st.out) := by
        have : φ.out = [] := rfl
        rw [this, List.append_nil]
        exact hsub.trans (fileOut_sublist_replOut es as true [] _ (by rw [hlen']; simp [ebs]) (List.Sublist.refl _))
      split
      · exact h1
      · exact List.Sublist.cons _ h1

/-! ### the hypotheses cannot be dropped -/

/-- **the budget hypothesis is needed.** With a step limit of 1 the session `x <- 1`, `x <- 2`, `OUTPUT x` is fine in the
    REPL (every entry is one step, counted from 0) and prints `2`; the same three lines as a file use three steps of ONE
    budget: the run stops at the limit (reported as `inconclusive` by the model) having printed nothing but the line
    break that follows a diagnostic. -/
theorem C12_loop_budget_needed :
    let cfg : Cfg := { stepLimit := 1 }
    (repl cfg [] "x <- 1\nx <- 2\nOUTPUT x\n".toList).out = "> \x1e> \x1e> 2\n\x1e> ".toList ∧
    (repl cfg [] "x <- 1\nx <- 2\nOUTPUT x\n".toList).inconclusive = false ∧
    (repl cfg [] "x <- 1\nx <- 2\nOUTPUT x\n".toList).diags.length = 0 ∧
    (runFile cfg "x <- 1\nx <- 2\nOUTPUT x".toList [] []).inconclusive = true ∧
    (runFile cfg "x <- 1\nx <- 2\nOUTPUT x".toList [] []).out = "\n".toList := by decide +kernel

/-- **why file mode is compared on blocks.** The tokens of the entry `y <- 2` are on line 1; the tokens of the same
    text as second line of a file are on line 2 (and a file has end-of-line tokens). -/
theorem C12_positions_differ :
    ((lex {} "y <- 2".toList).toOption.map fun ts => ts.map fun t => (t.line, t.col)) = some [(1, 1), (1, 4), (1, 6), (1, 6)] ∧
    ((lex {} "x <- 1\ny <- 2\n".toList).toOption.map fun ts => ts.map fun t => (t.line, t.col))
      = some [(1, 1), (1, 4), (1, 6), (1, 7), (2, 1), (2, 4), (2, 6), (2, 7), (3, 0)] := by decide +kernel

/-! ### non-vacuity: a session of five entries, one failing, one a multi-line IF -/

namespace C12LoopDemo

def e1 : Entry := ⟨"x <- 5".toList, []⟩
/-- fails: `y` is not defined -/
def e2 : Entry := ⟨"OUTPUT y".toList, []⟩
def e3 : Entry := ⟨"IF x > 3 THEN".toList, ["  OUTPUT \"big\"".toList, "ENDIF".toList]⟩
/-- echoes 6 -/
def e4 : Entry := ⟨"x + 1".toList, []⟩
def e5 : Entry := ⟨"OUTPUT x".toList, []⟩
def es5 : List Entry := [e1, e2, e3, e4, e5]
def in5 : Str := "x <- 5\nOUTPUT y\nIF x > 3 THEN\n  OUTPUT \"big\"\nENDIF\n\nx + 1\nOUTPUT x\nEXIT\nignored".toList

/-- the input is the texts of the five entries, `EXIT`, and a rest -/
example : (es5.map Entry.text).flatten ++ "EXIT\nignored".toList = in5 := by decide
example : ∀ e ∈ es5, e.WF := by decide
/-- the model, directly: prompts (`\x1e` separates the turns), the line break after the diagnostic of the second entry, the
    three continuation prompts of the IF and its output, the echo `6`, the output `5`, the last prompt; one diagnostic -/
example : (repl {} [] in5).out = "> \x1e> \n\x1e> . . . big\n\x1e> 6\n\x1e> 5\n\x1e> ".toList ∧
    (repl {} [] in5).diags.map (·.msg) = [.notDefined] ∧ (repl {} [] in5).exitCode = 0 ∧
    (repl {} [] in5).stdinLeft = "ignored".toList := by decide +kernel

/-- the hypotheses of `C12_repl_session_exit` hold for this session … -/
theorem C12_demo_hyps : inputOK {} es5 true (replStart {} [] in5) = true ∧
    (session {} es5 true (replStart {} [] in5)).crash.isSome = false ∧
    (session {} es5 true (replStart {} [] in5)).st.stdinEof = false ∧
    (session {} es5 true (replStart {} [] in5)).st.stdin = "EXIT".toList ++ '\n' :: "ignored".toList := by decide +kernel

/-- … so `repl` is `finish` of `session`, by the theorem -/
example : repl {} [] in5 = finish (session {} es5 true (replStart {} [] in5))
    (promptSt false (session {} es5 true (replStart {} [] in5)).st "ignored".toList) := by
  have hcr : (session {} es5 true (replStart {} [] in5)).crash = none := by
    cases h : (session {} es5 true (replStart {} [] in5)).crash with
    | none => rfl
    | some p => have := C12_demo_hyps.2.1; rw [h] at this; cases this
  exact C12_repl_session_exit {} [] in5 _ es5 (by decide) C12_demo_hyps.1 (by decide) hcr C12_demo_hyps.2.2.1 C12_demo_hyps.2.2.2

/-- the session itself: the diagnostic of the second entry is recorded, the later entries have run on the state it left
    (`x` is still 5: the IF prints `big`, the echo is 6) -/
example : (session {} es5 true (replStart {} [] in5)).diags.map (·.msg) = [.notDefined] ∧
    (session {} es5 true (replStart {} [] in5)).st.output = "> \x1e> \n\x1e> . . . big\n\x1e> 6\n\x1e> 5\n".toList := by
  decide +kernel

/-! the failing entry, by `C12_loop_survives` -/

/-- the record after the first entry -/
def r1 : ReplSt := session {} [e1] true (replStart {} [] in5)
def rest2 : Str := r1.st.stdin.drop e2.text.length

def isNotDefinedO : Outcome → Bool
  | .diag d => d.msg == .notDefined && !isBudget d
  | _ => false

/-- the hypotheses of `C12_loop_survives` for the second entry: it fails with `notDefined` (computed by the model), the
    session is not crashed, the input stands at the entry -/
theorem C12_demo_e2_fails : isNotDefinedO (runSource {} e2.src (entrySt false e2 r1.st rest2)).1 = true ∧
    r1.crash.isSome = false ∧ r1.st.stdinEof = false ∧ r1.st.stdin = e2.text ++ rest2 := by decide +kernel

/-- the loop goes on after the failing entry, with the diagnostic recorded and everything established before intact
    (in particular the variable `x` of the first entry) -/
example (n : Nat) : ∃ d s, d.msg = .notDefined ∧
    replLoop {} (n + 1) false r1 = replLoop {} n false { r1 with st := s, diags := d :: r1.diags } ∧
    Established r1.st s := by
  have hc : r1.crash = none := by
    cases h : r1.crash with
    | none => rfl
    | some p => have := C12_demo_e2_fails.2.1; rw [h] at this; cases this
  rcases h : runSource {} e2.src (entrySt false e2 r1.st rest2) with ⟨o, s⟩
  have h1 := C12_demo_e2_fails.1
  rw [h] at h1
  cases o with
  | diag d =>
    simp only [isNotDefinedO, Bool.and_eq_true, beq_iff_eq, Bool.not_eq_true'] at h1
    have := C12_loop_survives {} n false r1 e2 rest2 d s (by decide) hc C12_demo_e2_fails.2.2.1 C12_demo_e2_fails.2.2.2 h h1.2
    exact ⟨d, s, h1.1, this.1, this.2⟩
  | ok => cases h1
  | crash p => cases h1
  | fuel => cases h1

/-- the failing entry against the same block run in file mode from the same state, by `C12_loop_turn_eq_file`: the
    same diagnostic -/
example : ∃ (d : Diag) (s : St), d.msg = .notDefined ∧ (runOn ({} : Cfg).fuel (blockOf {} e2) r1.st).1 = .diag d ∧
    step {} false e2 r1 rest2 = { r1 with st := { s with out := ['\n'] :: s.out }, diags := d :: r1.diags } := by
  have hp : Parses {} e2 (blockOf {} e2) := parses_of_ok {} e2 (by decide +kernel)
  have hk : (step {} false e2 r1 rest2).st.stdin = rest2 ∧ (step {} false e2 r1 rest2).st.stdinEof = false := by
    decide +kernel
  have hf : isNotDefinedO (runOn ({} : Cfg).fuel (blockOf {} e2) r1.st).1 = true := by decide +kernel
  rcases h : runOn ({} : Cfg).fuel (blockOf {} e2) r1.st with ⟨o, φ1⟩
  rw [h] at hf
  cases o with
  | diag d =>
    simp only [isNotDefinedO, Bool.and_eq_true, beq_iff_eq, Bool.not_eq_true'] at hf
    obtain ⟨a, s, hs, _⟩ := C12_loop_turn_eq_file {} false r1 e2 _ rest2 r1.st φ1 (.diag d) hp (SameCore.refl _)
      C12_demo_e2_fails.2.2.1 h (fun d' hd' => by cases hd'; exact hf.2) hk
    refine ⟨d, s, hf.1, rfl, ?_⟩
    rw [hs]
    simp only [post, record, hf.2, Bool.false_eq_true, if_false]
  | ok => cases hf
  | crash p => cases hf
  | fuel => cases hf

/-! the four good entries against file mode, by `C12_loop_eq_file` -/

def es4 : List Entry := [e1, e3, e4, e5]
def in4 : Str := "x <- 5\nIF x > 3 THEN\n  OUTPUT \"big\"\nENDIF\n\nx + 1\nOUTPUT x\n".toList
def ebs4 : List (Entry × Block) := es4.map fun e => (e, blockOf {} e)
/-- the file-mode start state -/
def φ0 : St := { St.init [] [] false false with stepLimit := ({} : Cfg).stepLimit, depthLimit := ({} : Cfg).depthLimit }

/-- the hypotheses of `C12_loop_eq_file` for the four good entries: they parse, none reads input, the file-mode run of
    the concatenated blocks ends normally (and so does the run with the REPL flag: no echo crash) -/
theorem C12_demo_hyps4 : (∀ e ∈ es4, parsesOK {} e = true) ∧ inputKept {} es4 true (replStart {} [] in4) = true ∧
    (runOn ({} : Cfg).fuel (ebs4.map (·.2)).flatten { φ0 with repl := false }).1.isOk = true ∧
    (runOn ({} : Cfg).fuel (ebs4.map (·.2)).flatten { φ0 with repl := true }).1.isOk = true := by decide +kernel

/-- the file run prints `big` and `5`; the session in addition the prompts and the echo `6` -/
example : (runOn ({} : Cfg).fuel (ebs4.map (·.2)).flatten { φ0 with repl := false }).2.output = "big\n5\n".toList ∧
    (session {} es4 true (replStart {} [] in4)).st.output = "> \x1e> . . . big\n\x1e> 6\n\x1e> 5\n".toList := by
  decide +kernel

/-- the second alternative of `C12_loop_eq_file` is the one that holds here: same variables, procedures, files -/
example : SameProgramState (session {} es4 true (replStart {} [] in4)).st
    (runOn ({} : Cfg).fuel (ebs4.map (·.2)).flatten { φ0 with repl := false }).2 := by
  have hp : ∀ eb ∈ ebs4, Parses {} eb.1 eb.2 := by
    intro eb heb
    obtain ⟨e, he, rfl⟩ := List.mem_map.mp heb
    exact parses_of_ok {} e (C12_demo_hyps4.1 e he)
  rcases C12_loop_eq_file {} ebs4 true (replStart {} [] in4) φ0 hp rfl (fun _ => rfl) C12_demo_hyps4.2.1 C12_demo_hyps4.2.2.1 with
    ⟨p, _, h⟩ | h
  · have := C12_demo_hyps4.2.2.2
    rw [h] at this
    cases this
  · exact h.2.1

/-! a one-entry session (a FOR loop over three lines) against `runFile`, by `C12_repl_eq_runFile` -/

def eFor : Entry := ⟨"FOR i <- 1 TO 3".toList, ["  OUTPUT i * i".toList, "NEXT i".toList]⟩
def inFor : Str := "FOR i <- 1 TO 3\n  OUTPUT i * i\nNEXT i\n\nEXIT\n".toList
def fileFor : Str := "FOR i <- 1 TO 3\n  OUTPUT i * i\nNEXT i".toList

/-- the entry's source text is the file's text: both parse to the same block -/
example : eFor.src = fileFor ++ ['\n'] := by decide
/-- the file text parses to the block of the entry (the two texts are equal) -/
theorem C12_demo_parsesFor : ParsesFile {} fileFor ([eFor].map (blockOf {})).flatten := by
  have h : parsesOK {} eFor = true := by decide +kernel
  obtain ⟨toks, hl, hp⟩ := parses_of_ok {} eFor h
  refine ⟨toks, hl, ?_⟩
  rw [hp]
  simp

/-- the hypotheses of `C12_repl_eq_runFile` for the one-entry session -/
theorem C12_demo_hypsFor : eFor.WF ∧ parsesOK {} eFor = true ∧ inputKept {} [eFor] true (replStart {} [] inFor) = true ∧
    (session {} [eFor] true (replStart {} [] inFor)).st.stdin = "EXIT".toList ++ '\n' :: [] ∧
    (runFileOn {} fileFor [] [] false).1.isOk = true ∧
    (runOn ({} : Cfg).fuel ([eFor].map (blockOf {})).flatten
      { St.init [] [] false true with stepLimit := ({} : Cfg).stepLimit, depthLimit := ({} : Cfg).depthLimit }).1.isOk = true := by
  decide +kernel

example : (repl {} [] inFor).diags = [] ∧ (repl {} [] inFor).fs = (runFile {} fileFor [] []).fs ∧
    (runFile {} fileFor [] []).out.Sublist (repl {} [] inFor).out := by
  rcases C12_repl_eq_runFile {} [] inFor [] [] fileFor [eFor] (by simpa using C12_demo_hypsFor.1) (by simpa using C12_demo_hypsFor.2.1)
    C12_demo_hypsFor.2.2.1 (by decide) C12_demo_hypsFor.2.2.2.1 C12_demo_parsesFor C12_demo_hypsFor.2.2.2.2.1 with ⟨p, _, h⟩ | h
  · have := C12_demo_hypsFor.2.2.2.2.2
    rw [h] at this
    cases this
  · exact ⟨h.1, h.2.2.2.1, h.2.2.2.2⟩

/-- and what the two print -/
example : (runFile {} fileFor [] []).out = "1\n4\n9\n".toList ∧ (repl {} [] inFor).out = "> . . . 1\n4\n9\n\x1e> ".toList := by
  decide +kernel

end C12LoopDemo

end Pseudo
