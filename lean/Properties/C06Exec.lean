import PseudoProofs.ArrayLemmas
/-!
# C06 at the level of the evaluator

`Properties/C06.lean` proves the pure facts about the array geometry (`lin`, `totalCells`, `InBoundsAll`) and about
`getPath` / `setPath` on array values.  This file lifts them to runs of the evaluator (`PseudoModel/Eval.lean`):
every theorem is a statement `(… ).run.run σ = (result, final state)` about `resolveRef`, `evalExpr`, `execAssign`
or `execStmt`.

**The hypothesis on index expressions and right-hand sides** is `ArrayLemmas.PureAt σ f₀ e v`:
`∀ f ≥ f₀, (evalExpr f e).run.run σ = (.ok v, σ)` — the expression evaluates to `v` and leaves the state as it is,
with every fuel from `f₀` on (`PureAll` for a list of expressions).  This is exactly the form of the conclusion of
`C02_eval_denote` (`Properties/C02Eval.lean`, INTEGER / BOOLEAN fragment, `f₀ = e.size + 1`, any state with a
scope); that module cannot be imported next to `PseudoProofs.EvalStep` (clash of `Pseudo.run_bind` / `run_pure`
between the parser library and the evaluator library), so integer literals are provided here
(`ArrayLemmas.pureAt_intLit`, `pureAll_intLits`, `f₀ = 1`) and everything else is a hypothesis.

**The hypothesis on the array** is `ArrayLemmas.HasArray σ n id e dims cells`: the name `n` resolves (`resolveRef` on
`Ref.var`: variables of the current activation, of the global one, then arrays of the current activation, of the
global one) to the array slot `n` of the activation `id`, that slot holds `.arr e dims cells` with
`cells.length = totalCells dims`, and it is not a constant.  `C06_exec_declare_default` shows that `DECLARE` establishes it.
Restrictions: the array is a *variable* (not an array member of a record: `r.a[i]` goes through `Ref.field`), of the
current or the global activation.

Messages (`Msg` in `PseudoModel/Basic.lean`): an index outside its bounds is `indexOOB` ("Index out of bounds"), a
non-INTEGER index and a wrong number of indices are both `badIndex` (not `typeMismatch`).
-/
namespace Pseudo

open ArrayLemmas C07Copy

/-! ## 1. resolving `a[e₁,…,eₙ]` -/

/-- **In bounds.**  `a` a declared array with dimensions `dims`; the index expressions evaluate (purely) to the
    integers `ks`, inside the bounds.  Then `a[e₁,…,eₙ]` resolves to the holder whose location is the array slot
    with the one-step path `[.idx (lin dims ks)]`; its type is the element type; the state is unchanged. -/
theorem C06_exec_resolve_elem (σ : St) (t at' : Tok) (es : List Expr) (ks : List Int) (id : Nat) (e : Ty)
    (dims : List (Int × Int)) (cells : List Val) (f₀ f : Nat)
    (ha : HasArray σ at'.val id e dims cells) (hp : PureAll σ f₀ es (ks.map .int)) (hb : InBoundsAll dims ks)
    (hf : f₀ + es.length + 2 ≤ f) :
    (resolveRef f (.index t (.var at') es)).run.run σ =
      (.ok { loc := ⟨id, true, at'.val, [.idx (lin dims ks)]⟩, isArr := false, ty := e, name := at'.val }, σ) := by
  obtain ⟨f', rfl⟩ : ∃ f', f = f' + 2 := ⟨f - 2, by omega⟩
  have hl : es.length = ks.length := by rw [hp.length_eq, List.length_map]
  have hlen : es.length = dims.length := by rw [hl, inBoundsAll_length dims ks hb]
  rw [run_resolveRef_elem σ t at' es _ id e dims cells f₀ f' ha hp hlen (by omega), idxOutcome_ok dims es ks hl hb]
  rfl

/-- **Out of bounds.**  As many INTEGER indices as dimensions, not all inside the bounds: the runtime diagnostic
    `indexOOB`, positioned at one of the index expressions; the state — every activation's `vars` and `arrs`
    included — is unchanged. -/
theorem C06_exec_resolve_elem_oob (σ : St) (t at' : Tok) (es : List Expr) (ks : List Int) (id : Nat) (e : Ty)
    (dims : List (Int × Int)) (cells : List Val) (f₀ f : Nat)
    (ha : HasArray σ at'.val id e dims cells) (hp : PureAll σ f₀ es (ks.map .int))
    (hlen : ks.length = dims.length) (hb : ¬ InBoundsAll dims ks) (hf : f₀ + es.length + 2 ≤ f) :
    ∃ d, (resolveRef f (.index t (.var at') es)).run.run σ = (.error (.diag d), σ) ∧
      d.kind = .runtime ∧ d.msg = .indexOOB ∧ ∃ ex ∈ es, d.line = ex.tok.line ∧ d.col = ex.tok.col := by
  obtain ⟨f', rfl⟩ : ∃ f', f = f' + 2 := ⟨f - 2, by omega⟩
  have hl : es.length = ks.length := by rw [hp.length_eq, List.length_map]
  obtain ⟨ex, hex, ho⟩ := idxOutcome_oob dims es ks hl hlen hb
  refine ⟨rtDiag σ ex.tok.line ex.tok.col .indexOOB, ?_, by simp, by simp, ex, hex, by simp, by simp⟩
  rw [run_resolveRef_elem σ t at' es _ id e dims cells f₀ f' ha hp (by omega) (by omega), ho]
  rfl

/-- **Not an INTEGER.**  The indices before `e` are integers inside their bounds, `e` evaluates to a value that is
    not an INTEGER (the later ones are not evaluated: nothing is assumed about `es₂` except their number): the runtime
    diagnostic `badIndex` at the token of `e`; the state is unchanged. -/
theorem C06_exec_resolve_elem_nonint (σ : St) (t at' : Tok) (es₁ : List Expr) (ex : Expr) (es₂ : List Expr)
    (ks₁ : List Int) (v : Val) (vs₂ : List Val) (id : Nat) (e : Ty) (dims : List (Int × Int)) (cells : List Val) (f₀ f : Nat)
    (ha : HasArray σ at'.val id e dims cells)
    (hp : PureAll σ f₀ (es₁ ++ ex :: es₂) (ks₁.map .int ++ v :: vs₂))
    (hlen : (es₁ ++ ex :: es₂).length = dims.length) (hl₁ : es₁.length = ks₁.length)
    (hb : InBoundsAll (dims.take ks₁.length) ks₁) (hv : ∀ k, v ≠ .int k)
    (hf : f₀ + (es₁ ++ ex :: es₂).length + 2 ≤ f) :
    ∃ d, (resolveRef f (.index t (.var at') (es₁ ++ ex :: es₂))).run.run σ = (.error (.diag d), σ) ∧
      d.kind = .runtime ∧ d.msg = .badIndex ∧ d.line = ex.tok.line ∧ d.col = ex.tok.col := by
  obtain ⟨f', rfl⟩ : ∃ f', f = f' + 2 := ⟨f - 2, by omega⟩
  refine ⟨rtDiag σ ex.tok.line ex.tok.col .badIndex, ?_, by simp, by simp, by simp, by simp⟩
  rw [run_resolveRef_elem σ t at' _ _ id e dims cells f₀ f' ha hp hlen (by omega),
    idxOutcome_nonint dims es₁ ex es₂ ks₁ v vs₂ hl₁ hv hb]
  rfl

/-- the same without looking at the position: as many (pure) indices as dimensions, one of them not an INTEGER —
    a runtime diagnostic, `badIndex` or (when an earlier index is an out-of-bounds INTEGER) `indexOOB`; state unchanged -/
theorem C06_exec_resolve_elem_some_nonint (σ : St) (t at' : Tok) (es : List Expr) (vs : List Val) (id : Nat) (e : Ty)
    (dims : List (Int × Int)) (cells : List Val) (f₀ f : Nat)
    (ha : HasArray σ at'.val id e dims cells) (hp : PureAll σ f₀ es vs)
    (hlen : vs.length = dims.length) (hv : ∃ v ∈ vs, ∀ k, v ≠ .int k) (hf : f₀ + es.length + 2 ≤ f) :
    ∃ d, (resolveRef f (.index t (.var at') es)).run.run σ = (.error (.diag d), σ) ∧
      d.kind = .runtime ∧ (d.msg = .badIndex ∨ d.msg = .indexOOB) := by
  obtain ⟨f', rfl⟩ : ∃ f', f = f' + 2 := ⟨f - 2, by omega⟩
  have hl : es.length = vs.length := hp.length_eq
  obtain ⟨ex, _, m, ho, hm⟩ := idxOutcome_some_nonint dims es vs hl hlen hv
  refine ⟨rtDiag σ ex.tok.line ex.tok.col m, ?_, by simp, by simpa using hm⟩
  rw [run_resolveRef_elem σ t at' es vs id e dims cells f₀ f' ha hp (by omega) (by omega), ho]
  rfl

/-- **Wrong number of indices**: the runtime diagnostic `badIndex` at the token of the element reference; no index
    expression is evaluated (nothing is assumed about them), the state is unchanged. -/
theorem C06_exec_resolve_elem_arity (σ : St) (t at' : Tok) (es : List Expr) (id : Nat) (e : Ty)
    (dims : List (Int × Int)) (cells : List Val) (f : Nat)
    (ha : HasArray σ at'.val id e dims cells) (hne : es.length ≠ dims.length) (hf : 2 ≤ f) :
    ∃ d, (resolveRef f (.index t (.var at') es)).run.run σ = (.error (.diag d), σ) ∧
      d.kind = .runtime ∧ d.msg = .badIndex ∧ d.line = t.line ∧ d.col = t.col := by
  obtain ⟨f', rfl⟩ : ∃ f', f = f' + 2 := ⟨f - 2, by omega⟩
  exact ⟨rtDiag σ t.line t.col .badIndex, run_resolveRef_elem_arity σ t at' es id e dims cells f' ha hne,
    by simp, by simp, by simp, by simp⟩

/-! ## 2. `a[e₁,…,eₙ] <- rhs`: exactly the addressed element changes -/

/-- **Write, then read.**  `a` a declared array (`HasArray`), the index expressions evaluate purely to the in-bounds
    integers `ks`, the right-hand side evaluates purely to `rv`, and `rv` — after the implicit cast to the element
    type `e` (INTEGER → REAL, one-character STRING ↔ CHAR, otherwise nothing) — has type `e`.  Then the assignment
    `a[e₁,…,eₙ] <- rhs` succeeds, and in the final state `σ'`:
    1. `a` is the same array (same owner, element type, bounds) whose cells are the old cells with exactly the cell
       `lin dims ks` replaced by the stored value;
    2. reading `a[ks]` (`readLoc` on the location `C06_exec_resolve_elem` resolves it to) yields the stored value;
    3. reading `a[js]` for every other in-bounds tuple `js ≠ ks` yields what it yielded before;
    4. every location with another root (another variable, another array, another activation) reads as before;
    5. every other declared array is still the same declared array;
    6. nothing else of the state changes (step counter, output, files, handles, procedures, functions, ids). -/
theorem C06_exec_write_read (σ : St) (t t' at' : Tok) (es : List Expr) (ks : List Int) (rhs : Expr) (rv : Val)
    (id : Nat) (e : Ty) (dims : List (Int × Int)) (cells : List Val) (f₀ f : Nat)
    (ha : HasArray σ at'.val id e dims cells) (hp : PureAll σ f₀ es (ks.map .int)) (hb : InBoundsAll dims ks)
    (hrhs : PureAt σ f₀ rhs rv) (hty : (implicitCast e rv).ty = e) (hf : f₀ + es.length + 3 ≤ f) :
    ∃ σ', (execAssign f t (.index t' (.var at') es) rhs).run.run σ = (.ok ⟨⟩, σ') ∧
      HasArray σ' at'.val id e dims (cells.set (lin dims ks) (implicitCast e rv)) ∧
      readLocP σ' ⟨id, true, at'.val, [.idx (lin dims ks)]⟩ = .ok (implicitCast e rv) ∧
      (∀ js, InBoundsAll dims js → js ≠ ks →
        readLocP σ' ⟨id, true, at'.val, [.idx (lin dims js)]⟩ = readLocP σ ⟨id, true, at'.val, [.idx (lin dims js)]⟩) ∧
      (∀ l', DiffRoot ⟨id, true, at'.val, []⟩ l' → readLocP σ' l' = readLocP σ l') ∧
      (∀ m id' e' d' c', (id' ≠ id ∨ m ≠ at'.val) → HasArray σ m id' e' d' c' → HasArray σ' m id' e' d' c') ∧
      (σ'.steps = σ.steps ∧ σ'.out = σ.out ∧ σ'.fs = σ.fs ∧ σ'.handles = σ.handles ∧ σ'.procs = σ.procs ∧
        σ'.funs = σ.funs ∧ σ'.nextId = σ.nextId ∧ σ'.acts.map (·.id) = σ.acts.map (·.id)) := by
  obtain ⟨f', rfl⟩ : ∃ f', f = f' + 1 := ⟨f - 1, by omega⟩
  have hi : lin dims ks < cells.length := ha.lin_lt ks hb
  have hres := C06_exec_resolve_elem σ t' at' es ks id e dims cells f₀ f' ha hp hb (by omega)
  have hrun : (execAssign (f'+1) t (.index t' (.var at') es) rhs).run.run σ =
      (.ok ⟨⟩, updSt σ id (writeF (arrLoc id at'.val) (.arr e dims (cells.set (lin dims ks) (implicitCast e rv))))) := by
    rw [run_execAssign_resolved σ t _ rhs rv _ f' ha.acts_ne (hrhs f' (by omega)) hres rfl ha.notConst]
    have : ((implicitCast e rv).ty != e) = false := by simp [hty]
    simp only [this, Bool.false_eq_true, if_false]
    exact run_writeLoc_arr σ t id at'.val [.idx (lin dims ks)] _ _ _ ha.reads ha.notConst
      (setPath_cell e dims cells _ _ hi)
  have ha' := ha.write_same e dims (cells.set (lin dims ks) (implicitCast e rv)) (by rw [List.length_set]; exact ha.wf)
  refine ⟨_, hrun, ha', ?_, ?_, ?_, ?_, ⟨rfl, rfl, rfl, rfl, rfl, rfl, rfl, ?_⟩⟩
  · rw [ha'.read_cell, List.getElem?_set_self hi]
  · intro js hjs hne
    have hlin : lin dims ks ≠ lin dims js := fun h => hne (C06_lin_inj dims ks js hb hjs h).symm
    rw [ha'.read_cell, ha.read_cell, List.getElem?_set_ne hlin]
  · intro l' hd
    exact readLocP_updSt_writeF_other σ (arrLoc id at'.val) l' _ hd
  · intro m id' e' d' c' hne hm
    refine hm.write_other (arrLoc id at'.val) _ ?_
    rcases hne with h | h
    · exact .inl h
    · exact .inr (.inr h)
  · simp only [updSt]
    generalize σ.acts = acts
    induction acts with
    | nil => rfl
    | cons a rest ih =>
      unfold updActs
      by_cases hc : (a.id == id) = true
      · simp only [hc, if_true, List.map_cons, writeF_id]
      · simp only [hc, Bool.false_eq_true, if_false, List.map_cons, ih]

/-- the same for a right-hand side whose value already has the element type: the stored value is that value -/
theorem C06_exec_write_read_same_type (σ : St) (t t' at' : Tok) (es : List Expr) (ks : List Int) (rhs : Expr) (rv : Val)
    (id : Nat) (e : Ty) (dims : List (Int × Int)) (cells : List Val) (f₀ f : Nat)
    (ha : HasArray σ at'.val id e dims cells) (hp : PureAll σ f₀ es (ks.map .int)) (hb : InBoundsAll dims ks)
    (hrhs : PureAt σ f₀ rhs rv) (hty : rv.ty = e) (hf : f₀ + es.length + 3 ≤ f) :
    ∃ σ', (execAssign f t (.index t' (.var at') es) rhs).run.run σ = (.ok ⟨⟩, σ') ∧
      HasArray σ' at'.val id e dims (cells.set (lin dims ks) rv) ∧
      readLocP σ' ⟨id, true, at'.val, [.idx (lin dims ks)]⟩ = .ok rv ∧
      (∀ js, InBoundsAll dims js → js ≠ ks →
        readLocP σ' ⟨id, true, at'.val, [.idx (lin dims js)]⟩ = readLocP σ ⟨id, true, at'.val, [.idx (lin dims js)]⟩) ∧
      (∀ l', DiffRoot ⟨id, true, at'.val, []⟩ l' → readLocP σ' l' = readLocP σ l') := by
  have hc := implicitCast_of_ty e rv hty
  obtain ⟨σ', h1, h2, h3, h4, h5, _⟩ :=
    C06_exec_write_read σ t t' at' es ks rhs rv id e dims cells f₀ f ha hp hb hrhs (by rw [hc]; exact hty) hf
  rw [hc] at h2 h3
  exact ⟨σ', h1, h2, h3, h4, h5⟩

/-- **A refused element assignment changes nothing**: with an out-of-bounds index tuple (as many INTEGER indices as
    dimensions) the statement-level assignment `a[…] <- rhs` ends in the runtime diagnostic `indexOOB`, and the final
    state is the start state — no element of any array, no variable has changed. -/
theorem C06_exec_write_oob (σ : St) (t t' at' : Tok) (es : List Expr) (ks : List Int) (rhs : Expr) (rv : Val)
    (id : Nat) (e : Ty) (dims : List (Int × Int)) (cells : List Val) (f₀ f : Nat)
    (ha : HasArray σ at'.val id e dims cells) (hp : PureAll σ f₀ es (ks.map .int))
    (hlen : ks.length = dims.length) (hb : ¬ InBoundsAll dims ks)
    (hrhs : PureAt σ f₀ rhs rv) (hf : f₀ + es.length + 3 ≤ f) :
    ∃ d, (execAssign f t (.index t' (.var at') es) rhs).run.run σ = (.error (.diag d), σ) ∧
      d.kind = .runtime ∧ d.msg = .indexOOB := by
  obtain ⟨f', rfl⟩ : ∃ f', f = f' + 1 := ⟨f - 1, by omega⟩
  obtain ⟨d, hres, hk, hm, _⟩ := C06_exec_resolve_elem_oob σ t' at' es ks id e dims cells f₀ f' ha hp hlen hb (by omega)
  exact ⟨d, run_execAssign_resolve_error σ t _ rhs rv d f' ha.acts_ne (hrhs f' (by omega)) hres (by rw [hm]; decide), hk, hm⟩

/-! ## reading `a[e₁,…,eₙ]` as an expression -/

/-- the expression `a[e₁,…,eₙ]` (pure in-bounds indices) evaluates to the cell `lin dims ks` of the array value and
    leaves the state unchanged -/
theorem C06_exec_read_elem (σ : St) (t t' at' : Tok) (es : List Expr) (ks : List Int) (id : Nat) (e : Ty)
    (dims : List (Int × Int)) (cells : List Val) (f₀ f : Nat)
    (ha : HasArray σ at'.val id e dims cells) (hp : PureAll σ f₀ es (ks.map .int)) (hb : InBoundsAll dims ks)
    (hf : f₀ + es.length + 3 ≤ f) :
    ∃ v, cells[lin dims ks]? = some v ∧
      (evalExpr f (.access t (.index t' (.var at') es))).run.run σ = (.ok v, σ) := by
  obtain ⟨f', rfl⟩ : ∃ f', f = f' + 1 := ⟨f - 1, by omega⟩
  have hi : lin dims ks < cells.length := ha.lin_lt ks hb
  refine ⟨cells[lin dims ks], List.getElem?_eq_getElem hi, ?_⟩
  rw [run_evalExpr_access_resolved σ t _ _ f' (C06_exec_resolve_elem σ t' at' es ks id e dims cells f₀ f' ha hp hb (by omega)) rfl]
  have := ha.read_cell (lin dims ks)
  rw [List.getElem?_eq_getElem hi] at this
  rw [this]

/-! ## 3. `DECLARE a : ARRAY[l₁:u₁,…] OF T` -/

/-- **A new array holds the default value in every cell.**  The activation stack is `cur :: rest` (global activation
    `g`), the step budget is not used up, the name is not yet an array of the current activation (otherwise:
    `redeclared`) and no variable of that name is visible (it would hide the array, see `arrOwner`), `T` is one of the
    six primitive type keywords, the bounds evaluate purely to `dims` (each lower ≤ upper; integer literals:
    `pureBounds_of_lit`), and the array has at most 1 000 000 cells (the model's allocation budget).  Then the
    declaration succeeds, and in the final state the name denotes an array of the current activation with element
    type `T`, the declared bounds, and `totalCells dims` cells, each the default value of `T`; every in-bounds cell
    reads that default value; every location with another root reads as before. -/
theorem C06_exec_declare_default (σ : St) (t idt tyTok : Tok) (bounds : List (Expr × Expr)) (dims : List (Int × Int))
    (cur g : Act) (rest : List Act) (f₀ f : Nat)
    (hacts : σ.acts = cur :: rest) (hg : σ.acts.getLast? = some g) (hsteps : σ.steps + 1 ≤ σ.stepLimit)
    (hfresh : findSlot cur.arrs idt.val = none) (hnovar : lookupVarIn cur g idt.val = none)
    (hty : tyTok.k = .DATA_TYPE) (hbounds : PureBounds (tickSt σ) f₀ bounds dims)
    (hsize : totalCells dims ≤ 1000000) (hf : f₀ + bounds.length + totalCells dims + 4 ≤ f) :
    ∃ σ', (execStmt f (.declareArr t [idt] tyTok bounds)).run.run σ = (.ok .none, σ') ∧
      HasArray σ' idt.val cur.id (dataTy tyTok.val) dims
        (List.replicate (totalCells dims) (defaultPrim (dataTy tyTok.val))) ∧
      (∀ ks, InBoundsAll dims ks →
        readLocP σ' ⟨cur.id, true, idt.val, [.idx (lin dims ks)]⟩ = .ok (defaultPrim (dataTy tyTok.val))) ∧
      (∀ l', DiffRoot ⟨cur.id, true, idt.val, []⟩ l' → readLocP σ' l' = readLocP σ l') ∧
      (∀ m id' e' d' c', m ≠ idt.val → HasArray σ m id' e' d' c' → HasArray σ' m id' e' d' c') ∧
      (σ'.steps = σ.steps + 1 ∧ σ'.stepLimit = σ.stepLimit) := by
  obtain ⟨f', rfl⟩ : ∃ f', f = f' + 2 := ⟨f - 2, by omega⟩
  have hacts' : (tickSt σ).acts = cur :: rest := hacts
  have hg' : (tickSt σ).acts.getLast? = some g := hg
  let slot : Slot :=
    { name := idt.val, ty := dataTy tyTok.val,
      val := .arr (dataTy tyTok.val) dims (List.replicate (totalCells dims) (defaultPrim (dataTy tyTok.val))) }
  have hdecl : (declareArrs (f'+1) t [idt] tyTok dims).run.run (tickSt σ) =
      (.ok ⟨⟩, declSt (tickSt σ) cur rest slot) := by
    rw [declareArrs_cons, run_bind_ok _ _ _ _ _ (run_getType_data (tickSt σ) tyTok true hty)]
    have hsz : ¬ (totalCells dims > 1000000) := by omega
    simp only [dataTy_ne_none, Bool.false_eq_true, if_false, hsz]
    rw [run_bind_ok _ _ _ _ _ (run_defaultCells_prim (tickSt σ) t (dataTy tyTok.val) (dataTy_ne_comp tyTok.val)
      (totalCells dims) [] f' (by omega))]
    simp only [List.reverse_nil, List.nil_append]
    rw [run_bind_ok _ _ _ _ _ (run_addArr (tickSt σ) cur rest slot hacts')]
    obtain ⟨f'', rfl⟩ : ∃ f'', f' = f'' + 1 := ⟨f' - 1, by omega⟩
    rw [declareArrs_nil]
    rfl
  have hrun : (execStmt (f'+2) (.declareArr t [idt] tyTok bounds)).run.run σ =
      (.ok .none, declSt (tickSt σ) cur rest slot) := by
    rw [execStmt_declareArr, run_bind_ok _ _ _ _ _ (run_tick_ok t σ hsteps),
      run_bind_ok _ _ _ _ _ (run_curAct_cons _ cur rest hacts')]
    simp only [List.any_cons, List.any_nil, hfresh, Option.isSome_none, Bool.or_false, Bool.false_eq_true, if_false]
    rw [run_bind_ok _ _ _ _ _ (run_evalBounds (tickSt σ) f₀ bounds dims [] (f'+1) hbounds (by omega))]
    simp only [List.reverse_nil, List.nil_append]
    rw [run_bind_ok _ _ _ _ _ hdecl]
    rfl
  have ha : HasArray (declSt (tickSt σ) cur rest slot) idt.val cur.id (dataTy tyTok.val) dims
      (List.replicate (totalCells dims) (defaultPrim (dataTy tyTok.val))) :=
    hasArray_declSt (tickSt σ) cur g rest idt.val (dataTy tyTok.val) dims _ hacts' hg' hfresh hnovar
      (List.length_replicate ..)
  refine ⟨_, hrun, ha, ?_, ?_, ?_, rfl, rfl⟩
  · intro ks hks
    have hi : lin dims ks < totalCells dims := C06_lin_bound dims ks hks
    rw [ha.read_cell, List.getElem?_replicate]
    simp only [hi, if_true]
  · intro l' hd
    rw [readLocP_declSt_other (tickSt σ) cur rest slot l' hacts' hd]
    rfl
  · intro m id' e' d' c' hne hm
    exact hm.tick.declSt_other cur rest slot hacts' hne

/-- the same for `DECLARE a₁, …, aₘ : ARRAY[…] OF T` (any number of names, none of them an array of the current
    activation yet, none hidden by a variable): every name denotes afterwards its own array of default values -/
theorem C06_exec_declare_default_multi (σ : St) (t tyTok : Tok) (ids : List Tok) (bounds : List (Expr × Expr))
    (dims : List (Int × Int)) (cur g : Act) (rest : List Act) (f₀ f : Nat)
    (hacts : σ.acts = cur :: rest) (hg : σ.acts.getLast? = some g) (hsteps : σ.steps + 1 ≤ σ.stepLimit)
    (hfresh : ∀ id ∈ ids, findSlot cur.arrs id.val = none) (hnovar : ∀ id ∈ ids, lookupVarIn cur g id.val = none)
    (hty : tyTok.k = .DATA_TYPE) (hbounds : PureBounds (tickSt σ) f₀ bounds dims)
    (hsize : totalCells dims ≤ 1000000) (hf : f₀ + bounds.length + ids.length + totalCells dims + 4 ≤ f) :
    ∃ σ', (execStmt f (.declareArr t ids tyTok bounds)).run.run σ = (.ok .none, σ') ∧
      (∀ id ∈ ids,
        HasArray σ' id.val cur.id (dataTy tyTok.val) dims
          (List.replicate (totalCells dims) (defaultPrim (dataTy tyTok.val))) ∧
        ∀ ks, InBoundsAll dims ks →
          readLocP σ' ⟨cur.id, true, id.val, [.idx (lin dims ks)]⟩ = .ok (defaultPrim (dataTy tyTok.val))) ∧
      (∀ l', (l'.act ≠ cur.id ∨ l'.isArr = false ∨ ∀ id ∈ ids, id.val ≠ l'.name) → readLocP σ' l' = readLocP σ l') := by
  obtain ⟨f', rfl⟩ : ∃ f', f = f' + 2 := ⟨f - 2, by omega⟩
  have hacts' : (tickSt σ).acts = cur :: rest := hacts
  have hg' : (tickSt σ).acts.getLast? = some g := hg
  have hdecl := run_declareArrs_prim t tyTok dims hty hsize ids (tickSt σ) cur rest (f'+1) hacts' (by omega)
  have hany : ids.any (fun id => (findSlot cur.arrs id.val).isSome) = false := by
    rw [List.any_eq_false]
    intro id hid
    rw [hfresh id hid]
    simp
  have hrun : (execStmt (f'+2) (.declareArr t ids tyTok bounds)).run.run σ =
      (.ok .none, declManySt (tickSt σ) cur rest (ids.map fun id => newArrSlot (dataTy tyTok.val) dims id.val)) := by
    rw [execStmt_declareArr, run_bind_ok _ _ _ _ _ (run_tick_ok t σ hsteps),
      run_bind_ok _ _ _ _ _ (run_curAct_cons _ cur rest hacts')]
    simp only [hany, Bool.false_eq_true, if_false]
    rw [run_bind_ok _ _ _ _ _ (run_evalBounds (tickSt σ) f₀ bounds dims [] (f'+1) hbounds (by omega))]
    simp only [List.reverse_nil, List.nil_append]
    rw [run_bind_ok _ _ _ _ _ hdecl]
    rfl
  refine ⟨_, hrun, ?_, ?_⟩
  · intro id hid
    have ha := hasArray_declManySt (tickSt σ) cur g rest ids (dataTy tyTok.val) dims id.val hacts' hg' ⟨id, hid, rfl⟩
      (hfresh id hid) (hnovar id hid)
    refine ⟨ha, ?_⟩
    intro ks hks
    have hi : lin dims ks < totalCells dims := C06_lin_bound dims ks hks
    rw [ha.read_cell, List.getElem?_replicate]
    simp only [hi, if_true]
  · intro l' hd
    rw [readLocP_declManySt_other (tickSt σ) cur rest _ l' hacts' ?_]
    · rfl
    · rcases hd with hd | hd | hd
      · exact .inl hd
      · exact .inr (.inl hd)
      · exact .inr (.inr (find?_map_newArrSlot_none _ _ _ ids hd))

/-! ## 4. whole-array assignment `b <- a` -/

/-- **`b <- a` copies every element, iff element types and bounds agree.**  `a` and `b` declared arrays (possibly the
    same one).
    * Element types and bounds equal: the assignment succeeds; afterwards `b` is a declared array with the cells of
      `a`, `a` is what it was, cell by cell `b[i]` reads what `a[i]` reads (and read before), every location outside
      `b` reads as before, every other declared array is still the same declared array.
    * Otherwise: the runtime diagnostic `typeMismatch` at the assignment token, and the state is unchanged. -/
theorem C06_exec_array_assign (σ : St) (t bt at' at'' : Tok) (ida idb : Nat) (ea eb : Ty) (da db : List (Int × Int))
    (ca cb : List Val) (f : Nat)
    (ha : HasArray σ at''.val ida ea da ca) (hb : HasArray σ bt.val idb eb db cb) (hf : 3 ≤ f) :
    (ea = eb ∧ da = db →
      ∃ σ', (execAssign f t (.var bt) (.access at' (.var at''))).run.run σ = (.ok ⟨⟩, σ') ∧
        HasArray σ' bt.val idb ea da ca ∧ HasArray σ' at''.val ida ea da ca ∧
        (∀ i, readLocP σ' ⟨idb, true, bt.val, [.idx i]⟩ = readLocP σ' ⟨ida, true, at''.val, [.idx i]⟩ ∧
              readLocP σ' ⟨ida, true, at''.val, [.idx i]⟩ = readLocP σ ⟨ida, true, at''.val, [.idx i]⟩) ∧
        (∀ l', DiffRoot ⟨idb, true, bt.val, []⟩ l' → readLocP σ' l' = readLocP σ l') ∧
        (∀ m id' e' d' c', (id' ≠ idb ∨ m ≠ bt.val) → HasArray σ m id' e' d' c' → HasArray σ' m id' e' d' c')) ∧
    (¬ (ea = eb ∧ da = db) →
      ∃ d, (execAssign f t (.var bt) (.access at' (.var at''))).run.run σ = (.error (.diag d), σ) ∧
        d.kind = .runtime ∧ d.msg = .typeMismatch ∧ d.line = t.line ∧ d.col = t.col) := by
  obtain ⟨f', rfl⟩ : ∃ f', f = f' + 3 := ⟨f - 3, by omega⟩
  have hstart := run_execAssign_arrays σ t bt at' at'' ida idb ea eb da db ca cb f' ha hb
  constructor
  · rintro ⟨rfl, rfl⟩
    have hrun : (execAssign (f'+3) t (.var bt) (.access at' (.var at''))).run.run σ =
        (.ok ⟨⟩, updSt σ idb (writeF (arrLoc idb bt.val) (.arr ea da ca))) := by
      rw [hstart]
      simp only [bne_self_eq_false, Bool.false_eq_true, if_false]
      exact run_writeLoc_arr σ t idb bt.val [] _ _ _ hb.reads hb.notConst rfl
    have hb' : HasArray (updSt σ idb (writeF (arrLoc idb bt.val) (.arr ea da ca))) bt.val idb ea da ca :=
      hb.write_same ea da ca ha.wf
    have ha' : HasArray (updSt σ idb (writeF (arrLoc idb bt.val) (.arr ea da ca))) at''.val ida ea da ca := by
      by_cases hroot : ida = idb ∧ at''.val = bt.val
      · rw [hroot.1, hroot.2]; exact hb'
      · refine ha.write_other (arrLoc idb bt.val) _ ?_
        by_cases h1 : ida = idb
        · exact .inr (.inr fun h2 => hroot ⟨h1, h2⟩)
        · exact .inl h1
    refine ⟨_, hrun, hb', ha', ?_, ?_, ?_⟩
    · intro i
      exact ⟨by rw [hb'.read_cell, ha'.read_cell], by rw [ha'.read_cell, ha.read_cell]⟩
    · intro l' hd
      exact readLocP_updSt_writeF_other σ (arrLoc idb bt.val) l' _ hd
    · intro m id' e' d' c' hne hm
      refine hm.write_other (arrLoc idb bt.val) _ ?_
      rcases hne with h | h
      · exact .inl h
      · exact .inr (.inr h)
  · intro hne
    refine ⟨rtDiag σ t.line t.col .typeMismatch, ?_, by simp, by simp, by simp, by simp⟩
    rw [hstart]
    by_cases he : ea = eb
    · have hd : da ≠ db := fun h => hne ⟨he, h⟩
      have h1 : (ea != eb) = false := by simp [he]
      have h2 : (da != db) = true := by simp [hd]
      simp only [h1, h2, Bool.false_eq_true, if_false, if_true]
      exact run_rtErr t .typeMismatch σ
    · have h1 : (ea != eb) = true := by simp [he]
      simp only [h1, if_true]
      exact run_rtErr t .typeMismatch σ

/-- the assignment `b <- a` ends normally exactly when element types and bounds are identical -/
theorem C06_exec_array_assign_iff (σ : St) (t bt at' at'' : Tok) (ida idb : Nat) (ea eb : Ty) (da db : List (Int × Int))
    (ca cb : List Val) (f : Nat)
    (ha : HasArray σ at''.val ida ea da ca) (hb : HasArray σ bt.val idb eb db cb) (hf : 3 ≤ f) :
    (∃ σ', (execAssign f t (.var bt) (.access at' (.var at''))).run.run σ = (.ok ⟨⟩, σ')) ↔ (ea = eb ∧ da = db) := by
  obtain ⟨hok, herr⟩ := C06_exec_array_assign σ t bt at' at'' ida idb ea eb da db ca cb f ha hb hf
  constructor
  · rintro ⟨σ', h⟩
    by_cases heq : ea = eb ∧ da = db
    · exact heq
    · obtain ⟨d, hd, _⟩ := herr heq
      rw [hd] at h
      cases h
  · intro heq
    obtain ⟨σ', h, _⟩ := hok heq
    exact ⟨σ', h⟩

/-- **After `b <- a` the two arrays are independent.**  `a` and `b` two different declared arrays with identical element
    type and bounds; `σ₁` the state after `b <- a`.  A later element assignment `b[e₁,…] <- rhs` (pure in `σ₁`, in bounds,
    value of the element type after the implicit cast) leaves `a` — every cell — as it is and changes exactly one cell
    of `b`; and the other way round for `a[e₁,…] <- rhs`. -/
theorem C06_exec_array_assign_independent (σ : St) (t bt at' at'' : Tok) (ida idb : Nat) (e : Ty) (d : List (Int × Int))
    (ca cb : List Val) (f : Nat)
    (ha : HasArray σ at''.val ida e d ca) (hb : HasArray σ bt.val idb e d cb) (hdiff : ida ≠ idb ∨ at''.val ≠ bt.val)
    (hf : 3 ≤ f) :
    ∃ σ₁, (execAssign f t (.var bt) (.access at' (.var at''))).run.run σ = (.ok ⟨⟩, σ₁) ∧
      HasArray σ₁ bt.val idb e d ca ∧ HasArray σ₁ at''.val ida e d ca ∧
      (∀ (t₂ t₂' : Tok) (es : List Expr) (ks : List Int) (rhs : Expr) (rv : Val) (f₀ f₂ : Nat),
        PureAll σ₁ f₀ es (ks.map .int) → InBoundsAll d ks → PureAt σ₁ f₀ rhs rv → (implicitCast e rv).ty = e →
        f₀ + es.length + 3 ≤ f₂ →
        (∃ σ₂, (execAssign f₂ t₂ (.index t₂' (.var bt) es) rhs).run.run σ₁ = (.ok ⟨⟩, σ₂) ∧
          HasArray σ₂ at''.val ida e d ca ∧ HasArray σ₂ bt.val idb e d (ca.set (lin d ks) (implicitCast e rv))) ∧
        (∃ σ₂, (execAssign f₂ t₂ (.index t₂' (.var at'') es) rhs).run.run σ₁ = (.ok ⟨⟩, σ₂) ∧
          HasArray σ₂ bt.val idb e d ca ∧ HasArray σ₂ at''.val ida e d (ca.set (lin d ks) (implicitCast e rv)))) := by
  obtain ⟨σ₁, hrun, hb₁, ha₁, _⟩ := (C06_exec_array_assign σ t bt at' at'' ida idb e e d d ca cb f ha hb hf).1 ⟨rfl, rfl⟩
  refine ⟨σ₁, hrun, hb₁, ha₁, ?_⟩
  intro t₂ t₂' es ks rhs rv f₀ f₂ hp hks hrhs hty hf₂
  constructor
  · obtain ⟨σ₂, h1, h2, _, _, _, h6, _⟩ :=
      C06_exec_write_read σ₁ t₂ t₂' bt es ks rhs rv idb e d ca f₀ f₂ hb₁ hp hks hrhs hty hf₂
    exact ⟨σ₂, h1, h6 _ _ _ _ _ hdiff ha₁, h2⟩
  · obtain ⟨σ₂, h1, h2, _, _, _, h6, _⟩ :=
      C06_exec_write_read σ₁ t₂ t₂' at'' es ks rhs rv ida e d ca f₀ f₂ ha₁ hp hks hrhs hty hf₂
    have hdiff' : idb ≠ ida ∨ bt.val ≠ at''.val := by
      rcases hdiff with h | h
      · exact .inl (Ne.symm h)
      · exact .inr (Ne.symm h)
    exact ⟨σ₂, h1, h6 _ _ _ _ _ hdiff' hb₁, h2⟩

/-- **A value of the wrong type is refused**: if the right-hand side's value, after the implicit cast, does not have
    the element type, the assignment ends in the runtime diagnostic `typeMismatch` and nothing is written. -/
theorem C06_exec_write_type_mismatch (σ : St) (t t' at' : Tok) (es : List Expr) (ks : List Int) (rhs : Expr) (rv : Val)
    (id : Nat) (e : Ty) (dims : List (Int × Int)) (cells : List Val) (f₀ f : Nat)
    (ha : HasArray σ at'.val id e dims cells) (hp : PureAll σ f₀ es (ks.map .int)) (hb : InBoundsAll dims ks)
    (hrhs : PureAt σ f₀ rhs rv) (hty : (implicitCast e rv).ty ≠ e) (hf : f₀ + es.length + 3 ≤ f) :
    ∃ d, (execAssign f t (.index t' (.var at') es) rhs).run.run σ = (.error (.diag d), σ) ∧
      d.kind = .runtime ∧ d.msg = .typeMismatch := by
  obtain ⟨f', rfl⟩ : ∃ f', f = f' + 1 := ⟨f - 1, by omega⟩
  have hres := C06_exec_resolve_elem σ t' at' es ks id e dims cells f₀ f' ha hp hb (by omega)
  refine ⟨rtDiag σ t.line t.col .typeMismatch, ?_, by simp, by simp⟩
  rw [run_execAssign_resolved σ t _ rhs rv _ f' ha.acts_ne (hrhs f' (by omega)) hres rfl ha.notConst]
  have : ((implicitCast e rv).ty != e) = true := by simpa using hty
  simp only [this, if_true]
  exact run_rtErr t .typeMismatch σ

/-! ## the same as statements: one tick of the step counter, then the assignment -/

/-- `C06_exec_write_read` for the statement `a[e₁,…,eₙ] <- rhs` (`execStmt` on `Stmt.expr (Expr.assign …)`): the step
    counter advances by one (`tickSt`; purity is assumed in that state), the value of the statement is NONE, and the
    final state relates to the start state as in `C06_exec_write_read`. -/
theorem C06_exec_stmt_write_read (σ : St) (t t' at' : Tok) (es : List Expr) (ks : List Int) (rhs : Expr) (rv : Val)
    (id : Nat) (e : Ty) (dims : List (Int × Int)) (cells : List Val) (f₀ f : Nat)
    (hsteps : σ.steps + 1 ≤ σ.stepLimit)
    (ha : HasArray σ at'.val id e dims cells) (hp : PureAll (tickSt σ) f₀ es (ks.map .int)) (hb : InBoundsAll dims ks)
    (hrhs : PureAt (tickSt σ) f₀ rhs rv) (hty : (implicitCast e rv).ty = e) (hf : f₀ + es.length + 5 ≤ f) :
    ∃ σ', (execStmt f (.expr (.assign t (.index t' (.var at') es) rhs))).run.run σ = (.ok .none, σ') ∧
      HasArray σ' at'.val id e dims (cells.set (lin dims ks) (implicitCast e rv)) ∧
      readLocP σ' ⟨id, true, at'.val, [.idx (lin dims ks)]⟩ = .ok (implicitCast e rv) ∧
      (∀ js, InBoundsAll dims js → js ≠ ks →
        readLocP σ' ⟨id, true, at'.val, [.idx (lin dims js)]⟩ = readLocP σ ⟨id, true, at'.val, [.idx (lin dims js)]⟩) ∧
      (∀ l', DiffRoot ⟨id, true, at'.val, []⟩ l' → readLocP σ' l' = readLocP σ l') ∧
      (∀ m id' e' d' c', (id' ≠ id ∨ m ≠ at'.val) → HasArray σ m id' e' d' c' → HasArray σ' m id' e' d' c') := by
  obtain ⟨f', rfl⟩ : ∃ f', f = f' + 2 := ⟨f - 2, by omega⟩
  obtain ⟨σ', h1, h2, h3, h4, h5, h6, _⟩ :=
    C06_exec_write_read (tickSt σ) t t' at' es ks rhs rv id e dims cells f₀ f' ha.tick hp hb hrhs hty (by omega)
  refine ⟨σ', ?_, h2, h3, h4, h5, fun m id' e' d' c' hne hm => h6 m id' e' d' c' hne hm.tick⟩
  rw [run_execStmt_assign σ t _ rhs f' hsteps, h1]

/-- `C06_exec_write_oob` for the statement: the diagnostic `indexOOB`; the final state is the start state with the step
    counter advanced — no activation has changed. -/
theorem C06_exec_stmt_write_oob (σ : St) (t t' at' : Tok) (es : List Expr) (ks : List Int) (rhs : Expr) (rv : Val)
    (id : Nat) (e : Ty) (dims : List (Int × Int)) (cells : List Val) (f₀ f : Nat)
    (hsteps : σ.steps + 1 ≤ σ.stepLimit)
    (ha : HasArray σ at'.val id e dims cells) (hp : PureAll (tickSt σ) f₀ es (ks.map .int))
    (hlen : ks.length = dims.length) (hb : ¬ InBoundsAll dims ks)
    (hrhs : PureAt (tickSt σ) f₀ rhs rv) (hf : f₀ + es.length + 5 ≤ f) :
    ∃ d, (execStmt f (.expr (.assign t (.index t' (.var at') es) rhs))).run.run σ = (.error (.diag d), tickSt σ) ∧
      d.kind = .runtime ∧ d.msg = .indexOOB ∧ (tickSt σ).acts = σ.acts := by
  obtain ⟨f', rfl⟩ : ∃ f', f = f' + 2 := ⟨f - 2, by omega⟩
  obtain ⟨d, h1, h2, h3⟩ :=
    C06_exec_write_oob (tickSt σ) t t' at' es ks rhs rv id e dims cells f₀ f' ha.tick hp hlen hb hrhs (by omega)
  refine ⟨d, ?_, h2, h3, rfl⟩
  rw [run_execStmt_assign σ t _ rhs f' hsteps, h1]

/-- `C06_exec_array_assign` for the statement `b <- a` -/
theorem C06_exec_stmt_array_assign (σ : St) (t bt at' at'' : Tok) (ida idb : Nat) (ea eb : Ty) (da db : List (Int × Int))
    (ca cb : List Val) (f : Nat) (hsteps : σ.steps + 1 ≤ σ.stepLimit)
    (ha : HasArray σ at''.val ida ea da ca) (hb : HasArray σ bt.val idb eb db cb) (hf : 5 ≤ f) :
    (ea = eb ∧ da = db →
      ∃ σ', (execStmt f (.expr (.assign t (.var bt) (.access at' (.var at''))))).run.run σ = (.ok .none, σ') ∧
        HasArray σ' bt.val idb ea da ca ∧ HasArray σ' at''.val ida ea da ca ∧
        (∀ l', DiffRoot ⟨idb, true, bt.val, []⟩ l' → readLocP σ' l' = readLocP σ l')) ∧
    (¬ (ea = eb ∧ da = db) →
      ∃ d, (execStmt f (.expr (.assign t (.var bt) (.access at' (.var at''))))).run.run σ =
          (.error (.diag d), tickSt σ) ∧
        d.kind = .runtime ∧ d.msg = .typeMismatch ∧ (tickSt σ).acts = σ.acts) := by
  obtain ⟨f', rfl⟩ : ∃ f', f = f' + 2 := ⟨f - 2, by omega⟩
  obtain ⟨hok, herr⟩ := C06_exec_array_assign (tickSt σ) t bt at' at'' ida idb ea eb da db ca cb f' ha.tick hb.tick (by omega)
  constructor
  · intro heq
    obtain ⟨σ', h1, h2, h3, _, h5, _⟩ := hok heq
    refine ⟨σ', ?_, h2, h3, h5⟩
    rw [run_execStmt_assign σ t _ _ f' hsteps, h1]
  · intro hne
    obtain ⟨d, h1, h2, h3, _⟩ := herr hne
    refine ⟨d, ?_, h2, h3, rfl⟩
    rw [run_execStmt_assign σ t _ _ f' hsteps, h1]

/-! ## the three together: a declared array is a total map -/

/-- **Declare, write one element, read any element** — with integer literals as bounds, indices and value.
    `DECLARE a : ARRAY[l₁:u₁,…] OF INTEGER`, then `a[k₁,…] <- v` for an in-bounds tuple `ks`, then the expression
    `a[j₁,…]` for *any* in-bounds tuple `js`: both statements succeed, and the expression evaluates to `v` when
    `js = ks` and to the default value `0` otherwise, without changing the state. -/
theorem C06_exec_total_map_lits (σ : St) (t idt tyTok ta tb tv : Tok) (bounds : List (Expr × Expr)) (dims : List (Int × Int))
    (cur g : Act) (rest : List Act) (ks : List Int) (tks : List Tok) (v : Int) (f : Nat)
    (hacts : σ.acts = cur :: rest) (hg : σ.acts.getLast? = some g) (hsteps : σ.steps + 2 ≤ σ.stepLimit)
    (hfresh : findSlot cur.arrs idt.val = none) (hnovar : lookupVarIn cur g idt.val = none)
    (hty : tyTok.k = .DATA_TYPE) (hint : tyTok.val = "INTEGER".toList) (hbounds : LitBounds bounds dims)
    (hsize : totalCells dims ≤ 1000000) (hks : InBoundsAll dims ks) (htks : tks.length = ks.length)
    (hf : bounds.length + totalCells dims + 6 ≤ f) :
    ∃ σ₁ σ₂, (execStmt f (.declareArr t [idt] tyTok bounds)).run.run σ = (.ok .none, σ₁) ∧
      (execStmt f (.expr (.assign ta (.index tb (.var idt) (List.zipWith Expr.intLit tks ks)) (.intLit tv v)))).run.run σ₁
        = (.ok .none, σ₂) ∧
      ∀ (js : List Int) (tjs : List Tok) (tr tr' : Tok), InBoundsAll dims js → tjs.length = js.length →
        (evalExpr f (.access tr (.index tr' (.var idt) (List.zipWith Expr.intLit tjs js)))).run.run σ₂ =
          (.ok (.int (if js = ks then v else 0)), σ₂) := by
  have hdt : dataTy tyTok.val = .int := by rw [hint]; rfl
  obtain ⟨σ₁, h1, ha₁, _, _, _, hst, hlim⟩ := C06_exec_declare_default σ t idt tyTok bounds dims cur g rest 1 f hacts hg
    (by omega) hfresh hnovar hty (pureBounds_of_lit _ _ _ hbounds) hsize (by omega)
  rw [hdt] at ha₁
  have hlen : ∀ (ts : List Tok) (is : List Int), ts.length = is.length → InBoundsAll dims is →
      (List.zipWith Expr.intLit ts is).length = bounds.length := by
    intro ts is h1 h2
    rw [List.length_zipWith, h1, Nat.min_self, inBoundsAll_length dims is h2,
      (pureBounds_of_lit σ bounds dims hbounds).length_eq]
  obtain ⟨σ₂, h2, ha₂, _⟩ := C06_exec_stmt_write_read σ₁ ta tb idt (List.zipWith Expr.intLit tks ks) ks (.intLit tv v) (.int v)
    cur.id .int dims _ 1 f (by omega) ha₁ (pureAll_intLits _ tks ks htks) hks (pureAt_intLit _ tv v) rfl
    (by rw [hlen tks ks htks hks]; omega)
  refine ⟨σ₁, σ₂, h1, h2, ?_⟩
  intro js tjs tr tr' hjs htjs
  obtain ⟨w, hw, hrun⟩ := C06_exec_read_elem σ₂ tr tr' idt (List.zipWith Expr.intLit tjs js) js cur.id .int dims _ 1 f
    ha₂ (pureAll_intLits _ tjs js htjs) hjs (by rw [hlen tjs js htjs hjs]; omega)
  rw [hrun]
  have hi : lin dims ks < (List.replicate (totalCells dims) (defaultPrim Ty.int)).length := by
    rw [List.length_replicate]; exact C06_lin_bound dims ks hks
  by_cases hjk : js = ks
  · subst hjk
    rw [List.getElem?_set_self hi] at hw
    injection hw with hw
    simp only [if_true, ← hw]
    rfl
  · have hne : lin dims ks ≠ lin dims js := fun h => hjk (C06_lin_inj dims ks js hks hjs h).symm
    rw [List.getElem?_set_ne hne, List.getElem?_replicate] at hw
    have hj : lin dims js < totalCells dims := C06_lin_bound dims js hjs
    simp only [hj, if_true, Option.some.injEq] at hw
    simp only [hjk, if_false, ← hw]
    rfl

/-! ## non-vacuity: a concrete state with two-dimensional arrays; theorems instantiated and the evaluator actually run -/
namespace C06ExecEx

def tk (s : String) : Tok := { k := .IDENTIFIER, line := 2, col := 3, val := s.toList }
def lit (n : Int) : Expr := .intLit { k := .INTEGER, line := 2, col := 7 } n
/-- `ARRAY[1:2, 0:2]` -/
def dims2 : List (Int × Int) := [(1, 2), (0, 2)]
def zeros : List Val := List.replicate 6 (.int 0)
def oneToSix : List Val := [.int 1, .int 2, .int 3, .int 4, .int 5, .int 6]

/-- global activation: `x : INTEGER = 7`; `a, b : ARRAY[1:2,0:2] OF INTEGER` (`a` all 0, `b` = 1…6);
    `c : ARRAY[1:6] OF INTEGER`; `s : ARRAY[1:2,0:2] OF STRING` -/
def exSt : St :=
  { acts := [{ id := 0, name := "Program".toList,
               vars := [{ name := "x".toList, ty := .int, val := .int 7 }],
               arrs := [{ name := "a".toList, ty := .int, val := .arr .int dims2 zeros },
                        { name := "b".toList, ty := .int, val := .arr .int dims2 oneToSix },
                        { name := "c".toList, ty := .int, val := .arr .int [(1, 6)] zeros },
                        { name := "s".toList, ty := .str, val := .arr .str dims2 (List.replicate 6 (.str [])) }] }] }

theorem hasA : HasArray exSt (tk "a").val 0 .int dims2 zeros := ⟨rfl, rfl, rfl, rfl⟩
theorem hasB : HasArray exSt (tk "b").val 0 .int dims2 oneToSix := ⟨rfl, rfl, rfl, rfl⟩
theorem hasC : HasArray exSt (tk "c").val 0 .int [(1, 6)] zeros := ⟨rfl, rfl, rfl, rfl⟩
theorem hasS : HasArray exSt (tk "s").val 0 .str dims2 (List.replicate 6 (.str [])) := ⟨rfl, rfl, rfl, rfl⟩

theorem pure21 (σ : St) : PureAll σ 1 [lit 2, lit 1] ([2, 1].map .int) :=
  ⟨pureAt_intLit σ _ 2, pureAt_intLit σ _ 1, trivial⟩
theorem in21 : InBoundsAll dims2 [2, 1] := ⟨⟨by decide, by decide⟩, ⟨by decide, by decide⟩, trivial⟩
example : lin dims2 [2, 1] = 3 ∧ totalCells dims2 = 6 := by decide

/-- `a[2,1]`: the theorem applied, and the evaluator run by the kernel -/
example : (resolveRef 5 (.index (tk "[") (.var (tk "a")) [lit 2, lit 1])).run.run exSt =
    (.ok { loc := ⟨0, true, "a".toList, [.idx 3]⟩, isArr := false, ty := .int, name := "a".toList }, exSt) :=
  C06_exec_resolve_elem exSt (tk "[") (tk "a") [lit 2, lit 1] [2, 1] 0 .int dims2 zeros 1 5 hasA (pure21 _) in21 (by decide)
example : (resolveRef 5 (.index (tk "[") (.var (tk "a")) [lit 2, lit 1])).run.run exSt =
    (.ok { loc := ⟨0, true, "a".toList, [.idx 3]⟩, isArr := false, ty := .int, name := "a".toList }, exSt) := rfl

/-- `a[3,1]` (first index above its upper bound), `a[2,-1]`: `indexOOB`, state unchanged -/
example : ∃ d, (resolveRef 5 (.index (tk "[") (.var (tk "a")) [lit 3, lit 1])).run.run exSt = (.error (.diag d), exSt) ∧
    d.msg = .indexOOB := ⟨_, rfl, rfl⟩
example : ∃ d, (resolveRef 5 (.index (tk "[") (.var (tk "a")) [lit 2, lit (-1)])).run.run exSt = (.error (.diag d), exSt) ∧
    d.msg = .indexOOB := ⟨_, rfl, rfl⟩
example : ∃ d, (resolveRef 5 (.index (tk "[") (.var (tk "a")) [lit 3, lit 1])).run.run exSt = (.error (.diag d), exSt) ∧
    d.kind = .runtime ∧ d.msg = .indexOOB ∧ ∃ ex ∈ [lit 3, lit 1], d.line = ex.tok.line ∧ d.col = ex.tok.col :=
  C06_exec_resolve_elem_oob exSt (tk "[") (tk "a") [lit 3, lit 1] [3, 1] 0 .int dims2 zeros 1 5 hasA
    ⟨pureAt_intLit _ _ 3, pureAt_intLit _ _ 1, trivial⟩ rfl (by simp [InBoundsAll, dims2]) (by decide)

/-- `a[TRUE,1]`, `a["x",1]`: `badIndex`; `a[1]`, `a[1,1,1]`: `badIndex`; state unchanged -/
example : ∃ d, (resolveRef 5 (.index (tk "[") (.var (tk "a")) [.boolLit (tk "TRUE") true, lit 1])).run.run exSt =
    (.error (.diag d), exSt) ∧ d.msg = .badIndex := ⟨_, rfl, rfl⟩
example : ∃ d, (resolveRef 5 (.index (tk "[") (.var (tk "a")) [.strLit (tk "x") ['x'], lit 1])).run.run exSt =
    (.error (.diag d), exSt) ∧ d.msg = .badIndex := ⟨_, rfl, rfl⟩
example : ∃ d, (resolveRef 5 (.index (tk "[") (.var (tk "a")) [lit 1])).run.run exSt = (.error (.diag d), exSt) ∧
    d.msg = .badIndex := ⟨_, rfl, rfl⟩
example : ∃ d, (resolveRef 5 (.index (tk "[") (.var (tk "a")) [lit 1, lit 1, lit 1])).run.run exSt =
    (.error (.diag d), exSt) ∧ d.kind = .runtime ∧ d.msg = .badIndex ∧ d.line = (tk "[").line ∧ d.col = (tk "[").col :=
  C06_exec_resolve_elem_arity exSt (tk "[") (tk "a") [lit 1, lit 1, lit 1] 0 .int dims2 zeros 5 hasA (by decide) (by decide)
/-- an out-of-bounds integer in front of a non-integer index is reported first -/
example : ∃ d, (resolveRef 5 (.index (tk "[") (.var (tk "a")) [lit 9, .boolLit (tk "TRUE") true])).run.run exSt =
    (.error (.diag d), exSt) ∧ d.msg = .indexOOB := ⟨_, rfl, rfl⟩

/-- `a[2,1] <- 42`: the theorem gives the final state's content … -/
example : ∃ σ', (execAssign 6 (tk "<-") (.index (tk "[") (.var (tk "a")) [lit 2, lit 1]) (lit 42)).run.run exSt = (.ok ⟨⟩, σ') ∧
    HasArray σ' "a".toList 0 .int dims2 [.int 0, .int 0, .int 0, .int 42, .int 0, .int 0] ∧
    HasArray σ' "b".toList 0 .int dims2 oneToSix ∧
    readLocP σ' ⟨0, false, "x".toList, []⟩ = .ok (.int 7) := by
  obtain ⟨σ', h1, h2, _, _, h5, h6, _⟩ := C06_exec_write_read exSt (tk "<-") (tk "[") (tk "a") [lit 2, lit 1] [2, 1] (lit 42)
    (.int 42) 0 .int dims2 zeros 1 6 hasA (pure21 _) in21 (pureAt_intLit _ _ 42) rfl (by decide)
  exact ⟨σ', h1, h2, h6 _ _ _ _ _ (.inr (by decide)) hasB, by rw [h5 _ (.inr (.inl (by decide)))]; rfl⟩

/-- … and so does the kernel: write `a[2,1] <- 42`, then read `a[2,1]`, `a[1,1]`, `b[2,1]` as expressions -/
def afterWrite : St := ((execAssign 6 (tk "<-") (.index (tk "[") (.var (tk "a")) [lit 2, lit 1]) (lit 42)).run.run exSt).2
example : ((execAssign 6 (tk "<-") (.index (tk "[") (.var (tk "a")) [lit 2, lit 1]) (lit 42)).run.run exSt).1 = .ok ⟨⟩ := rfl
example : ((evalExpr 6 (.access (tk "a") (.index (tk "[") (.var (tk "a")) [lit 2, lit 1]))).run.run afterWrite).1 = .ok (.int 42) := rfl
example : ((evalExpr 6 (.access (tk "a") (.index (tk "[") (.var (tk "a")) [lit 1, lit 1]))).run.run afterWrite).1 = .ok (.int 0) := rfl
example : ((evalExpr 6 (.access (tk "b") (.index (tk "[") (.var (tk "b")) [lit 2, lit 1]))).run.run afterWrite).1 = .ok (.int 4) := rfl
example : ∃ v, oneToSix[lin dims2 [2, 1]]? = some v ∧
    (evalExpr 6 (.access (tk "b") (.index (tk "[") (.var (tk "b")) [lit 2, lit 1]))).run.run exSt = (.ok v, exSt) :=
  C06_exec_read_elem exSt (tk "b") (tk "[") (tk "b") [lit 2, lit 1] [2, 1] 0 .int dims2 oneToSix 1 6 hasB (pure21 _) in21 (by decide)

/-- a refused write changes nothing: `a[3,1] <- 42` (out of bounds), `a[2,1] <- "x"` (wrong type) -/
example : ∃ d, (execAssign 6 (tk "<-") (.index (tk "[") (.var (tk "a")) [lit 3, lit 1]) (lit 42)).run.run exSt =
    (.error (.diag d), exSt) ∧ d.msg = .indexOOB := ⟨_, rfl, rfl⟩
example : ∃ d, (execAssign 6 (tk "<-") (.index (tk "[") (.var (tk "a")) [lit 2, lit 1]) (.strLit (tk "x") ['x'])).run.run exSt =
    (.error (.diag d), exSt) ∧ d.msg = .typeMismatch := ⟨_, rfl, rfl⟩

/-- `DECLARE d : ARRAY[1:2, 0:2] OF INTEGER` in `exSt`: theorem and kernel -/
def declStmt : Stmt :=
  .declareArr (tk "DECLARE") [tk "d"] { k := .DATA_TYPE, line := 2, col := 9, val := "INTEGER".toList }
    [(lit 1, lit 2), (lit 0, lit 2)]
example : ∃ σ', (execStmt 20 declStmt).run.run exSt = (.ok .none, σ') ∧
    HasArray σ' "d".toList 0 .int dims2 (List.replicate 6 (.int 0)) ∧
    (∀ ks, InBoundsAll dims2 ks → readLocP σ' ⟨0, true, "d".toList, [.idx (lin dims2 ks)]⟩ = .ok (.int 0)) := by
  obtain ⟨σ', h1, h2, h3, _⟩ := C06_exec_declare_default exSt (tk "DECLARE") (tk "d")
    { k := .DATA_TYPE, line := 2, col := 9, val := "INTEGER".toList } [(lit 1, lit 2), (lit 0, lit 2)] dims2
    _ _ [] 1 20 rfl rfl (by decide) rfl rfl rfl
    (pureBounds_of_lit _ _ _ ⟨rfl, rfl, by decide, rfl, rfl, by decide, trivial⟩) (by decide) (by decide)
  exact ⟨σ', h1, h2, h3⟩
example : (((execStmt 20 declStmt).run.run exSt).2.acts.head?.bind fun a => (findSlot a.arrs "d".toList).map (·.val)) =
    some (.arr .int dims2 (List.replicate 6 (.int 0))) := rfl
/-- `DECLARE p, q : ARRAY[1:2,0:2] OF STRING`: both names denote an array of empty strings -/
example : ∃ σ', (execStmt 20 (.declareArr (tk "DECLARE") [tk "p", tk "q"]
      { k := .DATA_TYPE, line := 2, col := 9, val := "STRING".toList } [(lit 1, lit 2), (lit 0, lit 2)])).run.run exSt = (.ok .none, σ') ∧
    HasArray σ' "p".toList 0 .str dims2 (List.replicate 6 (.str [])) ∧
    HasArray σ' "q".toList 0 .str dims2 (List.replicate 6 (.str [])) := by
  obtain ⟨σ', h1, h2, _⟩ := C06_exec_declare_default_multi exSt (tk "DECLARE")
    { k := .DATA_TYPE, line := 2, col := 9, val := "STRING".toList } [tk "p", tk "q"] [(lit 1, lit 2), (lit 0, lit 2)] dims2
    _ _ [] 1 20 rfl rfl (by decide) (by intro id hid; simp at hid; rcases hid with rfl | rfl <;> rfl)
    (by intro id hid; simp at hid; rcases hid with rfl | rfl <;> rfl) rfl
    (pureBounds_of_lit _ _ _ ⟨rfl, rfl, by decide, rfl, rfl, by decide, trivial⟩) (by decide) (by decide)
  exact ⟨σ', h1, (h2 (tk "p") (by simp)).1, (h2 (tk "q") (by simp)).1⟩
/-- declaring `a` again is refused -/
example : ∃ d, ((execStmt 20 (.declareArr (tk "DECLARE") [tk "a"] { k := .DATA_TYPE, line := 2, col := 9, val := "INTEGER".toList }
    [(lit 1, lit 2)])).run.run exSt).1 = .error (.diag d) ∧ d.msg = .redeclared := ⟨_, rfl, rfl⟩

/-- `b <- a` (same type, same bounds) succeeds and copies; `c <- a` (other bounds), `s <- a` (other element type) are
    refused with the state unchanged -/
example : ∃ σ', (execAssign 5 (tk "<-") (.var (tk "b")) (.access (tk "a") (.var (tk "a")))).run.run exSt = (.ok ⟨⟩, σ') ∧
    HasArray σ' "b".toList 0 .int dims2 zeros ∧ HasArray σ' "a".toList 0 .int dims2 zeros := by
  obtain ⟨σ', h1, h2, h3, _⟩ := (C06_exec_array_assign exSt (tk "<-") (tk "b") (tk "a") (tk "a") 0 0 .int .int dims2 dims2
    zeros oneToSix 5 hasA hasB (by decide)).1 ⟨rfl, rfl⟩
  exact ⟨σ', h1, h2, h3⟩
example : ∃ d, (execAssign 5 (tk "<-") (.var (tk "c")) (.access (tk "a") (.var (tk "a")))).run.run exSt = (.error (.diag d), exSt) ∧
    d.kind = .runtime ∧ d.msg = .typeMismatch ∧ d.line = (tk "<-").line ∧ d.col = (tk "<-").col :=
  (C06_exec_array_assign exSt (tk "<-") (tk "c") (tk "a") (tk "a") 0 0 .int .int dims2 [(1, 6)]
    zeros zeros 5 hasA hasC (by decide)).2 (by decide)
example : ∃ d, (execAssign 5 (tk "<-") (.var (tk "s")) (.access (tk "a") (.var (tk "a")))).run.run exSt = (.error (.diag d), exSt) ∧
    d.msg = .typeMismatch := ⟨_, rfl, rfl⟩
/-- independence, run by the kernel: `a <- b ; a[2,1] <- 42` leaves `b[2,1] = 4`, and `a[2,1] = 42`, `a[1,0] = 1` -/
def afterCopy : St := ((execAssign 5 (tk "<-") (.var (tk "a")) (.access (tk "b") (.var (tk "b")))).run.run exSt).2
def afterCopyWrite : St :=
  ((execAssign 6 (tk "<-") (.index (tk "[") (.var (tk "a")) [lit 2, lit 1]) (lit 42)).run.run afterCopy).2
example : readLocP afterCopy ⟨0, true, "a".toList, [.idx 3]⟩ = .ok (.int 4) := rfl
example : readLocP afterCopyWrite ⟨0, true, "a".toList, [.idx 3]⟩ = .ok (.int 42) ∧
    readLocP afterCopyWrite ⟨0, true, "b".toList, [.idx 3]⟩ = .ok (.int 4) ∧
    readLocP afterCopyWrite ⟨0, true, "a".toList, [.idx 0]⟩ = .ok (.int 1) := ⟨rfl, rfl, rfl⟩

/-- inside a procedure activation the global array is found (`HasArray` with the global id), and written -/
def exStProc : St := { exSt with acts := { id := 1, name := "P".toList } :: exSt.acts, nextId := 2 }
theorem hasAProc : HasArray exStProc (tk "a").val 0 .int dims2 zeros := ⟨rfl, rfl, rfl, rfl⟩
example : ∃ σ', (execAssign 6 (tk "<-") (.index (tk "[") (.var (tk "a")) [lit 2, lit 1]) (lit 42)).run.run exStProc = (.ok ⟨⟩, σ') ∧
    readLocP σ' ⟨0, true, "a".toList, [.idx 3]⟩ = .ok (.int 42) := by
  obtain ⟨σ', h1, _, h3, _⟩ := C06_exec_write_read exStProc (tk "<-") (tk "[") (tk "a") [lit 2, lit 1] [2, 1] (lit 42)
    (.int 42) 0 .int dims2 zeros 1 6 hasAProc (pure21 _) in21 (pureAt_intLit _ _ 42) rfl (by decide)
  exact ⟨σ', h1, h3⟩

/-- **the side condition "no variable of that name is visible" in `HasArray` is needed** (model and C++ alike: the C++
    reports "Attempting to index non-array variable 'a'"): a variable `a` — even one of the *global* activation, seen
    from a procedure that declares its own array `a` — hides the array; `a[2,1]` is then a `typeMismatch` -/
def exStHidden : St :=
  { acts := [{ id := 1, name := "P".toList, arrs := [{ name := "a".toList, ty := .int, val := .arr .int dims2 zeros }] },
             { id := 0, name := "Program".toList, vars := [{ name := "a".toList, ty := .int, val := .int 7 }] }] }
example : arrOwner exStHidden "a".toList = none := rfl
example : ∃ d, (resolveRef 5 (.index (tk "[") (.var (tk "a")) [lit 2, lit 1])).run.run exStHidden =
    (.error (.diag d), exStHidden) ∧ d.msg = .typeMismatch := ⟨_, rfl, rfl⟩

/-- the total-map theorem on the initial state of a run: `DECLARE m : ARRAY[1:2,0:2] OF INTEGER ; m[2,1] <- 42 ; m[j₁,j₂]` -/
example : ∃ σ₁ σ₂,
    (execStmt 20 (.declareArr (tk "DECLARE") [tk "m"] { k := .DATA_TYPE, line := 1, col := 30, val := "INTEGER".toList }
      [(lit 1, lit 2), (lit 0, lit 2)])).run.run (St.init [] [] false false) = (.ok .none, σ₁) ∧
    (execStmt 20 (.expr (.assign (tk "<-") (.index (tk "[") (.var (tk "m"))
      (List.zipWith Expr.intLit [tk "2", tk "1"] [2, 1])) (.intLit (tk "42") 42)))).run.run σ₁ = (.ok .none, σ₂) ∧
    ∀ (js : List Int) (tjs : List Tok) (tr tr' : Tok), InBoundsAll dims2 js → tjs.length = js.length →
      (evalExpr 20 (.access tr (.index tr' (.var (tk "m")) (List.zipWith Expr.intLit tjs js)))).run.run σ₂ =
        (.ok (.int (if js = [2, 1] then 42 else 0)), σ₂) :=
  C06_exec_total_map_lits (St.init [] [] false false) (tk "DECLARE") (tk "m") _ (tk "<-") (tk "[") (tk "42") _ dims2
    mkGlobal mkGlobal [] [2, 1] [tk "2", tk "1"] 42 20 rfl rfl (by decide) rfl rfl rfl rfl
    ⟨rfl, rfl, by decide, rfl, rfl, by decide, trivial⟩ (by decide) in21 rfl (by decide)

/-- the same program as text, through lexer, parser and evaluator (kernel evaluation of `runFile`) -/
example : (runFile {} "DECLARE m : ARRAY[1:2,0:2] OF INTEGER\nm[2,1] <- 42\nOUTPUT m[2,1]\nOUTPUT m[1,1]\nOUTPUT m[3,1]".toList [] []).out
    = "42\n0\n\n".toList := by decide +kernel
example : (runFile {} "DECLARE m : ARRAY[1:2,0:2] OF INTEGER\nm[2,1] <- 42\nOUTPUT m[2,1]\nOUTPUT m[1,1]\nOUTPUT m[3,1]".toList [] []).diags.map (·.msg)
    = [.indexOOB] := by decide +kernel

end C06ExecEx

end Pseudo
