import PseudoProofs.TraceChain2
import Properties.C11Chain
import PseudoProofs.TraceChain2Ex
import PseudoProofs.TraceChain2Byref
/-!
# C11 (traceback) — the chain of call sites: the remaining positions

Informal clause: *"A runtime error's traceback names the line of the failing statement in its own frame and then the
line of each active call site, innermost first, ending at the main program."*

`Properties/C11Chain.lean` proves the chain theorem for paths `TraceChain.Descent` and lists the positions of a call site
it does not cover.  `Descent` is an inductive type of a finished file; its step constructors take `Descent` premises, so
a new position BELOW an old step cannot be added by embedding alone.  `TraceChain2.Descent2 N σ c calls σl last`
(`PseudoProofs/TraceChain2.lean`) therefore

* embeds `Descent` (constructor `old`),
* restates its 38 step constructors over `Descent2` (same names and hypotheses: `seq`, `pre`, `head`, `call`, `callF`, `ifS`, …, `retS`),
  so that old and new steps mix, and
* adds the missing positions (41 constructors):
  - `forS` — **the FOR statement**: one step counted, iterator found or created (`forIter`), start value, bound and step
    (`StepVal`) evaluated, the iterator assigned, then the iterations (`forBody` / `forNext`); `forStart` / `forStop` / `forStep`:
    the call site inside the start value / the bound / the STEP expression;
  - `whileCond`, `repeatCond` — the condition of a WHILE (any iteration, via `whileNext`) / after UNTIL;
  - `negA`, `notA`, `castA`, `concatL` / `concatR`, `logicL` / `logicR` — unary minus, NOT, casts, `&`, AND / OR (`logicR` requires
    that the operator is not `AND` with left operand `FALSE`: the interpreter's only short circuit, `run_logic_short`);
  - `accessRef` (a reference that is read), `assignTarget` (the target of an assignment, `A[F(i)] <- …`), `inputRef`
    (`INPUT A[F(i)]`), `ptrAssignL` / `ptrAssignR`, and inside a reference `refField`, `refDeref`, `refIndexBase`, `refIndex`,
    `idxHead` / `idxNext` (code positions `Code2.ref` = `resolveRef`, `Code2.indices` = `evalIndices`).  At `accessRef` and
    `inputRef` the diagnostic passes the handler `catchNotDefined` because it comes from a callee (`calls ≠ []`);
  - `caseLabel`, `caseEq`, `caseLo` / `caseHi` — the labels of a CASE clause (the selector of a CASE is a bare name in this
    interpreter: no call site there);
  - `fileS` + `fileNameE` (the file-name expression of OPENFILE / READFILE / WRITEFILE / CLOSEFILE / GETRECORD / PUTRECORD),
    `writeData`, `seekAddr` / `seekName`;
  - `declBounds`, `boundLo` / `boundHi` / `boundNext` (bounds of an array declaration), `constE` (CONSTANT);
  - `callBind` / `callFBind`, `bindRef`, `bindVal` / `bindNextRef` — the binding of parameters (code position `Code2.bind` =
    `bindParams`): the reference of a BYREF argument is resolved a SECOND time there, so `CALL Q(A[F(i)])` has a call site in
    the binding (the regression case `C11_trace_regression_byref_index_call`).
  The arguments of a BUILT-IN function were already covered by `callFArgs` (`funLookup` finds built-ins too): instance
  `C11Chain2Fam.builtinArg` below.

Main theorems: `C11_chain2_code` (any code position), `C11_chain2_call_chain` (blocks), `C11_chain2_program` (`runMain`),
`C11_chain2_runFile` (a program file); `C11_chain2_short_circuit` (why `logicR` has its side condition).  Non-vacuity:
`C11Chain2Ex` — a program whose failing call sits inside `WHILE F(x) > 0` / `A[G(x)] <- 5` / `OUTPUT "a" & H(1)`, three calls
deep, by evaluation (`run_by_evaluation`) and from the theorem (`path`, `run_by_theorem`); `C11Chain2Fam` — one instance
per family of new constructors; `C11Chain2Byref` — the call site in the binding of a BYREF parameter.

Still not covered: the whole-array assignment `B <- src` (when the first evaluation of `src` raises `arrayDirect`, source
and target references are resolved again: a call site inside them, e.g. `B <- R[F(i)].cells`, is met a second time there),
and a failing statement inside the body of a record TYPE run by a declaration (`defaultVal`; its activation is a record
body, not a call).
-/
namespace Pseudo

open ArrayLemmas C07Copy TraceLemmas TraceChain TraceChain2

/-- **C11 (chain of call sites, any code, any depth, all positions).**  `hc`: the path from the code `c` (started in `σ`,
    activations `cur :: rest`) through the nested calls `calls` to the block `last` (started in `σl`); `N`: the fuel the
    path needs.  `hfail`: `last`, run from `σl` with fuel `F`, raises a runtime error by `rtErr t m` at its own level (`σe`:
    the state in which the diagnostic was built = the state in which that run ends).  Then `c`, run from `σ` with any
    fuel `≥ F + N`, ends with the diagnostic whose traceback is
    `(P_k, t) :: (P_{k-1}, t_{k-1}) :: … :: (P₁, t₁) :: (cur.name, t₀) :: ` the entries `rest` had.
    Hypotheses: `hacts` names the stack at the start (needed to say whose name the outermost frame carries); `hfail` is
    the failure itself; `hfuel` excludes the model's own fuel exhaustion; step and depth budgets are hypotheses of the
    single steps inside `hc`. -/
theorem C11_chain2_code {N : Nat} {σ : St} {c : Code2} {calls : List (Tok × Str)} {σl : St} {last : Block}
    (hc : Descent2 N σ c calls σl last) (F fuel : Nat) (σe : St) (cur : Act) (rest : List Act) (t : Tok) (m : Msg)
    (hacts : σ.acts = cur :: rest)
    (hfail : (runBlock F last).run.run σl = (.error (.diag (rtDiag σe t.line t.col m)), σe))
    (hfuel : F + N ≤ fuel) :
    ∃ d, c.err fuel σ = some (.diag d) ∧ d.kind = .runtime ∧ d.msg = m ∧ d.line = t.line ∧ d.col = t.col ∧
      d.trace = { name := chainName cur.name calls, line := t.line, col := t.col } ::
        chainFrames cur.name calls (rest.map frameOf) := by
  obtain ⟨a, parents, hin, hname, hframes⟩ := hc.acts cur rest hacts
  have hR : RTrace σl σe := by
    have := runBlock_RTrace F last σl
    rw [hfail] at this
    exact this
  obtain ⟨a', parents', hacts_e, _, hn, hf, hl⟩ := RTrace_cons hR a parents hin
  have htrace := rtDiag_trace σe a' parents' hacts_e t.line t.col m
  have hdeep : σl.acts.length ≤ (rtDiag σe t.line t.col m).trace.length := by
    rw [htrace, hin]
    simp only [List.length_cons, List.length_map]
    omega
  refine ⟨rtDiag σe t.line t.col m, Code2.err_mono c hfuel (hc.sound F _ (errOf_of_run hfail) hdeep),
    rtDiag_kind _ _ _ _, rtDiag_msg _ _ _ _, rtDiag_line _ _ _ _, rtDiag_col _ _ _ _, ?_⟩
  rw [htrace, hn, hname, hf, hframes]

/-- **C11 (chain of call sites, blocks).**  The block `b`, run from `σ` with enough fuel, ends with the runtime
    diagnostic of the innermost failing statement; see `C11_chain2_code`. -/
theorem C11_chain2_call_chain {N : Nat} {σ : St} {b : Block} {calls : List (Tok × Str)} {σl : St} {last : Block}
    (hc : Descent2 N σ (.block b) calls σl last) (F fuel : Nat) (σe : St) (cur : Act) (rest : List Act) (t : Tok) (m : Msg)
    (hacts : σ.acts = cur :: rest)
    (hfail : (runBlock F last).run.run σl = (.error (.diag (rtDiag σe t.line t.col m)), σe))
    (hfuel : F + N ≤ fuel) :
    ∃ d σ', (runBlock fuel b).run.run σ = (.error (.diag d), σ') ∧
      d.kind = .runtime ∧ d.msg = m ∧ d.line = t.line ∧ d.col = t.col ∧
      d.trace = { name := chainName cur.name calls, line := t.line, col := t.col } ::
        chainFrames cur.name calls (rest.map frameOf) := by
  obtain ⟨d, herr, h1, h2, h3, h4, h5⟩ := C11_chain2_code hc F fuel σe cur rest t m hacts hfail hfuel
  obtain ⟨σ', hrun⟩ := run_of_errOf (show errOf (runBlock fuel b) σ = some (.diag d) from herr)
  exact ⟨d, σ', hrun, h1, h2, h3, h4, h5⟩

/-- **C11 (whole program, `runMain`).** -/
theorem C11_chain2_program {N : Nat} {σ : St} {b : Block} {calls : List (Tok × Str)} {σl : St} {last : Block}
    (hc : Descent2 N σ (.block b) calls σl last) (F fuel : Nat) (σe : St) (cur : Act) (rest : List Act) (t : Tok) (m : Msg)
    (hacts : σ.acts = cur :: rest)
    (hfail : (runBlock F last).run.run σl = (.error (.diag (rtDiag σe t.line t.col m)), σe))
    (hfuel : F + N ≤ fuel) :
    ∃ d σ', (runMain fuel b).run.run σ = (.error (.diag d), σ') ∧
      d.kind = .runtime ∧ d.msg = m ∧ d.line = t.line ∧ d.col = t.col ∧
      d.trace = { name := chainName cur.name calls, line := t.line, col := t.col } ::
        chainFrames cur.name calls (rest.map frameOf) := by
  obtain ⟨d, σ', hrun, h⟩ := C11_chain2_call_chain hc F fuel σe cur rest t m hacts hfail hfuel
  exact ⟨d, σ', C11_trace_propagates_runMain fuel b σ σ' d hrun, h⟩

/-- **C11 (whole program file, all positions).**  The text `content` lexes and parses to the block `b`; from the start
    state of a file run there is a path `Descent2` through the nested calls `calls` to the block `last`, which raises a
    runtime error `m` (other than the model's own budget message) at `t`.  Then the run of the file reports exactly one
    diagnostic, ends with status 1, and the traceback is
    `(P_k, t) :: (P_{k-1}, t_{k-1}) :: … :: (P₁, t₁) :: [("Program", t₀)]`. -/
theorem C11_chain2_runFile (cfg : Cfg) (content : Str) (fs : List (Str × FsNode)) (stdin : Str) (toks : List Tok) (b : Block)
    (warns : List Tok) {N : Nat} {calls : List (Tok × Str)} {σl : St} {last : Block} (F : Nat) (σe : St) (t : Tok) (m : Msg)
    (hl : lex { pedantic := cfg.pedantic } (content ++ ['\n']) = .ok toks)
    (hp : parse { pedantic := cfg.pedantic } toks = .ok (b, warns))
    (hc : Descent2 N (fileStW cfg fs stdin warns) (.block b) calls σl last)
    (hfail : (runBlock F last).run.run σl = (.error (.diag (rtDiag σe t.line t.col m)), σe))
    (hfuel : F + N ≤ cfg.fuel) (hm : m ≠ .budget) :
    ∃ d, (runFile cfg content fs stdin).diags = [d] ∧ (runFile cfg content fs stdin).exitCode = 1 ∧
      d.kind = .runtime ∧ d.msg = m ∧ d.line = t.line ∧ d.col = t.col ∧
      d.trace = { name := chainName "Program".toList calls, line := t.line, col := t.col } ::
        chainFrames "Program".toList calls [] := by
  obtain ⟨d, σ', hrun, hk, hmsg, hline, hcol, htr⟩ :=
    C11_chain2_program hc F cfg.fuel σe mkGlobal [] t m rfl hfail hfuel
  have hb : isBudget d = false := by
    unfold isBudget
    rw [hmsg]
    cases m <;> first | rfl | exact absurd rfl hm
  have hrep := C11_trace_runFile_reports cfg content fs stdin σ' toks b warns d hl hp hrun hb
  exact ⟨d, hrep.1, hrep.2, hk, hmsg, hline, hcol, htr⟩

/-! ## non-vacuity: a concrete program, by the theorem and by evaluation -/

namespace C11Chain2Ex
open C11ChainEx (tk getOk isOkB isTrueB run_of_isOk run_of_isOk_unit run_of_isTrue acts_head_tail)

set_option maxRecDepth 1000000

/-! ### the states along the run (defined by running the pieces; every fact below is an evaluation) -/
def σ₀ : St := fileStW {} [] [] []
def fdF : FunDef := { name := "F".toList, params := [("x".toList, .int, false)], ret := .int, body := .user bodyF defTokF }
def fdG : FunDef := { name := "G".toList, params := [("i".toList, .int, false)], ret := .int, body := .user bodyG defTokG }
def fdH : FunDef := { name := "H".toList, params := [("n".toList, .int, false)], ret := .str, body := .user bodyH defTokH }

-- main program: definitions, DECLARE x, x <- 2; the WHILE statement and its first iteration are counted
def σA : St := ((runBlock 20 pre₀).run.run σ₀).2
def σW : St := tickSt (tickSt σA)
-- the call F(x) in the condition
def σB : St := ((evalArgs 10 argsF []).run.run σW).2
def valsB : List Val := getOk [] ((evalArgs 10 argsF []).run.run σW).1
def curB : Act := σB.acts.headD default
def slotsB : List Slot := getOk [] ((bindParams 10 tF fdF.params argsF valsB []).run.run σB).1
def σB2 : St := ((bindParams 10 tF fdF.params argsF valsB []).run.run σB).2
def σC : St := calleeSt (funAct fdF slotsB) (setSwitch σB2 curB.id tF)
-- F: DECLARE A; the assignment is counted, its right-hand side evaluated, `A` resolved
def σD : St := ((runBlock 20 [declA]).run.run σC).2
def σE : St := ((evalExpr 10 rhs5).run.run (tickSt σD)).2
def rvE : Val := getOk .none ((evalExpr 10 rhs5).run.run (tickSt σD)).1
def hA : Holder := getOk default ((resolveRef 10 refA).run.run σE).1
def σE2 : St := ((resolveRef 10 refA).run.run σE).2
def etyA : Ty := (arrParts (readLocP σE2 hA.loc)).1
def dimsA : List (Int × Int) := (arrParts (readLocP σE2 hA.loc)).2.1
def cellsA : List Val := (arrParts (readLocP σE2 hA.loc)).2.2
-- the call G(x) in the index
def σI : St := ((evalArgs 10 argsG []).run.run σE2).2
def valsI : List Val := getOk [] ((evalArgs 10 argsG []).run.run σE2).1
def curI : Act := σI.acts.headD default
def slotsI : List Slot := getOk [] ((bindParams 10 tG fdG.params argsG valsI []).run.run σI).1
def σI2 : St := ((bindParams 10 tG fdG.params argsG valsI []).run.run σI).2
def σJ : St := calleeSt (funAct fdG slotsI) (setSwitch σI2 curI.id tG)
-- G: OUTPUT is counted, "a" evaluated
def σL : St := ((evalExpr 10 litA).run.run (tickSt σJ)).2
def lvL : Val := getOk .none ((evalExpr 10 litA).run.run (tickSt σJ)).1
-- the call H(1)
def σM : St := ((evalArgs 10 argsH []).run.run σL).2
def valsM : List Val := getOk [] ((evalArgs 10 argsH []).run.run σL).1
def curM : Act := σM.acts.headD default
def slotsM : List Slot := getOk [] ((bindParams 10 tH fdH.params argsH valsM []).run.run σM).1
def σM2 : St := ((bindParams 10 tH fdH.params argsH valsM []).run.run σM).2
def σK : St := calleeSt (funAct fdH slotsM) (setSwitch σM2 curM.id tH)
def aK : Act := σK.acts.headD default

theorem hpre₀ : (runBlock 20 pre₀).run.run σ₀ = (.ok ⟨⟩, σA) := run_of_isOk_unit _ _ (by decide +kernel)
theorem hstepsA : σA.steps + 1 ≤ σA.stepLimit := by decide +kernel
theorem hstepsA' : (tickSt σA).steps + 1 ≤ (tickSt σA).stepLimit := by decide +kernel
set_option maxHeartbeats 4000000 in
theorem hfdF : funLookup σW tF.val = some fdF := by rfl
theorem hargsB : (evalArgs 10 argsF []).run.run σW = (.ok valsB, σB) := run_of_isOk [] _ _ (by decide +kernel)
theorem hlenB : valsB.length = fdF.params.length := by decide +kernel
theorem hdepthB : σB.depth + 1 ≤ σB.depthLimit := by decide +kernel
theorem hcurB : σB.acts = curB :: σB.acts.tail := acts_head_tail _ (by decide +kernel)
theorem hbindB : (bindParams 10 tF fdF.params argsF valsB []).run.run σB = (.ok slotsB, σB2) := run_of_isOk [] _ _ (by decide +kernel)

theorem hpreF : (runBlock 20 [declA]).run.run σC = (.ok ⟨⟩, σD) := run_of_isOk_unit _ _ (by decide +kernel)
theorem hstepsD : σD.steps + 1 ≤ σD.stepLimit := by decide +kernel
theorem hactsD : (tickSt σD).acts = (tickSt σD).acts.headD default :: (tickSt σD).acts.tail := acts_head_tail _ (by decide +kernel)
theorem hrhsE : (evalExpr 10 rhs5).run.run (tickSt σD) = (.ok rvE, σE) := run_of_isOk .none _ _ (by decide +kernel)
theorem hresA : (resolveRef 10 refA).run.run σE = (.ok hA, σE2) := run_of_isOk default _ _ (by decide +kernel)
theorem harrA : hA.isArr = true := by decide +kernel
theorem hvalA : readLocP σE2 hA.loc = .ok (.arr etyA dimsA cellsA) := arr_of_isArrB _ (by decide +kernel)
theorem hlenA : [Expr.call tG argsG].length = dimsA.length := by decide +kernel
set_option maxHeartbeats 4000000 in
theorem hfdG : funLookup σE2 tG.val = some fdG := by rfl
theorem hargsI : (evalArgs 10 argsG []).run.run σE2 = (.ok valsI, σI) := run_of_isOk [] _ _ (by decide +kernel)
theorem hlenI : valsI.length = fdG.params.length := by decide +kernel
theorem hdepthI : σI.depth + 1 ≤ σI.depthLimit := by decide +kernel
theorem hcurI : σI.acts = curI :: σI.acts.tail := acts_head_tail _ (by decide +kernel)
theorem hbindI : (bindParams 10 tG fdG.params argsG valsI []).run.run σI = (.ok slotsI, σI2) := run_of_isOk [] _ _ (by decide +kernel)

theorem hstepsJ : σJ.steps + 1 ≤ σJ.stepLimit := by decide +kernel
theorem hlitA : (evalExpr 10 litA).run.run (tickSt σJ) = (.ok lvL, σL) := run_of_isOk .none _ _ (by decide +kernel)
set_option maxHeartbeats 4000000 in
theorem hfdH : funLookup σL tH.val = some fdH := by rfl
theorem hargsM : (evalArgs 10 argsH []).run.run σL = (.ok valsM, σM) := run_of_isOk [] _ _ (by decide +kernel)
theorem hlenM : valsM.length = fdH.params.length := by decide +kernel
theorem hdepthM : σM.depth + 1 ≤ σM.depthLimit := by decide +kernel
theorem hcurM : σM.acts = curM :: σM.acts.tail := acts_head_tail _ (by decide +kernel)
theorem hbindM : (bindParams 10 tH fdH.params argsH valsM []).run.run σM = (.ok slotsM, σM2) := run_of_isOk [] _ _ (by decide +kernel)

theorem hactsK : σK.acts = aK :: σK.acts.tail := acts_head_tail _ (by decide +kernel)
theorem hcompK : aK.isComp = false := by decide +kernel
theorem hstepsK : σK.steps + 1 ≤ σK.stepLimit := by decide +kernel

/-- the four frames the theorem predicts -/
def frames : List Frame :=
  [{ name := "H".toList, line := 2, col := 14 }, { name := "G".toList, line := 6, col := 18 },
   { name := "F".toList, line := 11, col := 7 }, { name := "Program".toList, line := 16, col := 7 }]

/-- the run of the model, by evaluation -/
theorem run_by_evaluation : (runFile {} src.toList [] []).diags.map (·.trace) = [frames] := by decide +kernel

/-- the path: main program → condition of `WHILE F(x) > 0` → (in F) index of the target of `A[G(x)] <- 5` → (in G) right operand
    of `"a" & H(1)` in OUTPUT → (in H) `OUTPUT 1 DIV 0`.  New steps used: `whileCond`, `assignTarget`, `refIndex`, `idxHead`,
    `concatR`; restated steps: `pre`, `head`, `whileS`, `cmpL`, `callF`, `exprS`, `outputS`, `outHead`, `here`. -/
theorem path : ∃ N, N + 5 ≤ 100000 ∧
    Descent2 N σ₀ (.block prog) [(tF, "F".toList), (tG, "G".toList), (tH, "H".toList)] σK bodyH := by
  have hH : Descent2 0 σK (.block bodyH) [] σK bodyH := .here σK bodyH
  have hG : Descent2 _ σJ (.block bodyG) [(tH, "H".toList)] σK bodyH :=
    .head _ [retI] σJ (.outputS outTok _ σJ hstepsJ (.outHead _ [] (tickSt σJ) (.concatR 10 catTok litA _ lvL (tickSt σJ) σL hlitA
      (.callF 10 tH argsH σL σM σM2 fdH bodyH defTokH valsM curM σM.acts.tail slotsM hfdH rfl hargsM hlenM hdepthM hcurM hbindM hH))))
  have hF : Descent2 _ σC (.block bodyF) [(tG, "G".toList), (tH, "H".toList)] σK bodyH :=
    .pre 20 [declA] _ σC σD hpreF (.head _ [retX] σD (.exprS _ σD hstepsD
      (.assignTarget 10 asgTok (.index ixTok refA [.call tG argsG]) rhs5 rvE _ _ (tickSt σD) σE hactsD hrhsE (by intro vt h; cases h)
        (.refIndex 10 ixTok refA [.call tG argsG] hA etyA dimsA cellsA σE σE2 hresA harrA hvalA hlenA
          (.idxHead _ [] dimsA [] σE2
            (.callF 10 tG argsG σE2 σI σI2 fdG bodyG defTokG valsI curI σI.acts.tail slotsI hfdG rfl hargsI hlenI hdepthI hcurI hbindI hG))))))
  have hMain : Descent2 _ σ₀ (.block prog) [(tF, "F".toList), (tG, "G".toList), (tH, "H".toList)] σK bodyH :=
    .pre 20 pre₀ _ σ₀ σA hpre₀ (.head _ [] σA (.whileS wt _ wb σA hstepsA (.whileCond wt _ wb (tickSt σA) hstepsA'
      (.cmpL ct .gt _ lit0 σW
        (.callF 10 tF argsF σW σB σB2 fdF bodyF defTokF valsB curB σB.acts.tail slotsB hfdF rfl hargsB hlenB hdepthB hcurB hbindB hF)))))
  exact ⟨_, by decide, hMain⟩

/-- **the theorem's instance**: the program text `src`, run as a file, ends with exactly one diagnostic, `divZero` at line 2,
    whose traceback is `H, line 2` / `G, line 6` / `F, line 11` / `Program, line 16` — derived from `C11_chain2_runFile` with the
    path `path`, not by running the whole program; `run_by_evaluation` is the same fact by evaluation. -/
theorem run_by_theorem : ∃ d, (runFile {} src.toList [] []).diags = [d] ∧ (runFile {} src.toList [] []).exitCode = 1 ∧
    d.kind = .runtime ∧ d.msg = .divZero ∧ d.line = 2 ∧ d.col = 14 ∧ d.trace = frames := by
  obtain ⟨N, hN, hc⟩ := path
  have hfail := C11TraceAux.run_output_div0 0 odTok divTok oneTok zeroTok 1 moreH σK aK σK.acts.tail hactsK hcompK hstepsK
  obtain ⟨d, h1, h2, h3, h4, h5, h6, h7⟩ := C11_chain2_runFile {} src.toList [] [] toks prog [] 5 (tickSt σK) divTok .divZero
    lexEq parseEq hc hfail (by show 5 + N ≤ 100000; omega) (by intro h; cases h)
  exact ⟨d, h1, h2, h3, h4, h5, h6, h7⟩

end C11Chain2Ex

/-- **why `logicR` has its side condition**: `FALSE AND r` does not evaluate `r`.  If `l` evaluates to FALSE (state `σ1`),
    `l AND r` is FALSE in `σ1` whatever `r` is — a call inside `r` is not made, no error of `r` is reported.  (`TRUE OR r`
    does evaluate `r`: `logicR` applies, instance `C11Chain2Fam.logic_by_theorem`.) -/
theorem C11_chain2_short_circuit (f : Nat) (t : Tok) (l r : Expr) (σ σ1 : St)
    (hl : (evalExpr f l).run.run σ = (.ok (.bool false), σ1)) :
    (evalExpr (f+1) (.logic t .and l r)).run.run σ = (.ok (.bool false), σ1) :=
  run_logic_short f t l r σ σ1 hl

/-! ## non-vacuity of the families of new constructors

One function `K` whose body fails (`OUTPUT 1 DIV 0`), two declarations, then ONE statement that contains the call `K(1)`
at the position in question.  For every family: the path (`…_path`), the traceback the theorem gives
(`fam` = `C11_chain2_code`), and the same traceback by evaluation. -/
namespace C11Chain2Fam
open C11ChainEx (tk getOk isOkB isTrueB run_of_isOk run_of_isOk_unit run_of_isTrue acts_head_tail)

set_option maxRecDepth 1000000

def odTok : Tok := tk .OUTPUT 2 5
def divTok : Tok := tk .DIV 2 14
def oneTok : Tok := tk .INTEGER 2 12 "1"
def zeroTok : Tok := tk .INTEGER 2 18 "0"
def moreK : Block := [.ret (tk .RETURN 3 5) (.access (tk .IDENTIFIER 3 12 "n") (.var (tk .IDENTIFIER 3 12 "n")))]
def bodyK : Block := .output odTok [.arith divTok .idiv (.intLit oneTok 1) (.intLit zeroTok 0)] :: moreK
def defTokK : Tok := tk .FUNCTION 1 1
def defK : Stmt := .funDef defTokK "K".toList [{ name := "n".toList, ty := tk .DATA_TYPE 1 16 "INTEGER", byRef := false }]
  (tk .DATA_TYPE 1 33 "INTEGER") bodyK
def fdK : FunDef := { name := "K".toList, params := [("n".toList, .int, false)], ret := .int, body := .user bodyK defTokK }
def declA : Stmt := .declareArr (tk .DECLARE 5 1) [tk .IDENTIFIER 5 9 "A"] (tk .DATA_TYPE 5 27 "INTEGER")
  [(.intLit (tk .INTEGER 5 19 "1") 1, .intLit (tk .INTEGER 5 21 "3") 3)]
def declY : Stmt := .declare (tk .DECLARE 6 1) [tk .IDENTIFIER 6 9 "y"] (tk .DATA_TYPE 6 13 "INTEGER")
/-- `FUNCTION K … ENDFUNCTION`, `DECLARE A : ARRAY[1:3] OF INTEGER`, `DECLARE y : INTEGER` -/
def pre₀ : Block := [defK, declA, declY]
/-- the state in which the statement under test starts -/
def σS : St := ((runBlock 20 pre₀).run.run (fileStW {} [] [] [])).2

/-- the call `K(1)` written at line `l`, column `c` -/
def tK (l c : Nat) : Tok := tk .IDENTIFIER l c "K"
def argsK (l c : Nat) : List Expr := [.intLit (tk .INTEGER l (c + 2) "1") 1]
def callK (l c : Nat) : Expr := .call (tK l c) (argsK l c)

/-! the call made in the state `σx` -/
def σargs (l c : Nat) (σx : St) : St := ((evalArgs 10 (argsK l c) []).run.run σx).2
def valsAt (l c : Nat) (σx : St) : List Val := getOk [] ((evalArgs 10 (argsK l c) []).run.run σx).1
def curAt (l c : Nat) (σx : St) : Act := (σargs l c σx).acts.headD default
def slotsAt (l c : Nat) (σx : St) : List Slot :=
  getOk [] ((bindParams 10 (tK l c) fdK.params (argsK l c) (valsAt l c σx) []).run.run (σargs l c σx)).1
def σbind (l c : Nat) (σx : St) : St := ((bindParams 10 (tK l c) fdK.params (argsK l c) (valsAt l c σx) []).run.run (σargs l c σx)).2
/-- the state in which the body of `K` starts -/
def σK (l c : Nat) (σx : St) : St := calleeSt (funAct fdK (slotsAt l c σx)) (setSwitch (σbind l c σx) (curAt l c σx).id (tK l c))

/-- everything the call and the failure need, as one evaluation -/
def callOK (l c : Nat) (σx : St) : Bool :=
  isOkB ((evalArgs 10 (argsK l c) []).run.run σx).1 && (valsAt l c σx).length == fdK.params.length &&
  decide ((σargs l c σx).depth + 1 ≤ (σargs l c σx).depthLimit) && !(σargs l c σx).acts.isEmpty &&
  isOkB ((bindParams 10 (tK l c) fdK.params (argsK l c) (valsAt l c σx) []).run.run (σargs l c σx)).1 &&
  !(σK l c σx).acts.isEmpty && !((σK l c σx).acts.headD default).isComp && decide ((σK l c σx).steps + 1 ≤ (σK l c σx).stepLimit)

/-- the step `callF` for `K(1)` in the state `σx` -/
theorem callK_path (l c : Nat) (σx : St) (hfd : funLookup σx (tK l c).val = some fdK) (h : callOK l c σx = true) :
    Descent2 (0 + 10 + 2) σx (.expr (callK l c)) [(tK l c, "K".toList)] (σK l c σx) bodyK := by
  unfold callOK at h
  simp only [Bool.and_eq_true, beq_iff_eq, decide_eq_true_eq, Bool.not_eq_true'] at h
  obtain ⟨⟨⟨⟨⟨⟨⟨h1, h2⟩, h3⟩, h4⟩, h5⟩, _⟩, _⟩, _⟩ := h
  exact .callF 10 (tK l c) (argsK l c) σx (σargs l c σx) (σbind l c σx) fdK bodyK defTokK (valsAt l c σx) (curAt l c σx)
    (σargs l c σx).acts.tail (slotsAt l c σx) hfd rfl (run_of_isOk [] _ _ h1) h2 h3 (acts_head_tail _ h4) (run_of_isOk [] _ _ h5)
    (.here _ bodyK)

/-- the failure of the body of `K` -/
theorem failK (l c : Nat) (σx : St) (h : callOK l c σx = true) :
    (runBlock 5 bodyK).run.run (σK l c σx) =
      (.error (.diag (rtDiag (tickSt (σK l c σx)) divTok.line divTok.col .divZero)), tickSt (σK l c σx)) := by
  unfold callOK at h
  simp only [Bool.and_eq_true, beq_iff_eq, decide_eq_true_eq, Bool.not_eq_true'] at h
  obtain ⟨⟨⟨_, h6⟩, h7⟩, h8⟩ := h
  exact C11TraceAux.run_output_div0 0 odTok divTok oneTok zeroTok 1 moreK (σK l c σx) _ _ (acts_head_tail _ h6) h7 h8

theorem hactsS : σS.acts = [σS.acts.headD default] := by
  have h1 : σS.acts.isEmpty = false := by decide +kernel
  have h2 : σS.acts.tail.isEmpty = true := by decide +kernel
  rw [acts_head_tail _ h1, List.isEmpty_iff.mp h2]
  rfl
theorem hnameS : (σS.acts.headD default).name = "Program".toList := by decide +kernel

/-- the two frames of every instance: `K, line 2` / `Program,` the position of the call -/
def frames (l c : Nat) : List Frame := [{ name := "K".toList, line := 2, col := 14 }, { name := "Program".toList, line := l, col := c }]

/-- **the theorem's instance for a family**: from a path through the one call `K(1)` (line `l`, column `c`, made in the
    state `σx`) the code `code`, started in `σS`, ends with `divZero` and the traceback `K, line 2` / `Program, line l` -/
theorem fam {code : Code2} (l c : Nat) (σx : St) (hc : ∃ N, Descent2 N σS code [(tK l c, "K".toList)] (σK l c σx) bodyK)
    (h : callOK l c σx = true) :
    ∃ fuel d, code.err fuel σS = some (.diag d) ∧ d.kind = .runtime ∧ d.msg = .divZero ∧ d.trace = frames l c := by
  obtain ⟨N, hc⟩ := hc
  refine ⟨5 + N, ?_⟩
  obtain ⟨d, h1, h2, h3, _, _, h6⟩ := C11_chain2_code hc 5 (5 + N) (tickSt (σK l c σx)) _ [] divTok .divZero hactsS (failK l c σx h)
    (Nat.le_refl _)
  refine ⟨d, h1, h2, h3, ?_⟩
  rw [h6, hnameS]
  rfl

/-- the traceback with which a statement ends when run from `σS`, by evaluation -/
def traceOf (s : Stmt) : Option (List Frame) :=
  match ((execStmt 1000 s).run.run σS).1 with
  | .error (.diag d) => some d.trace
  | _ => none

/-! ### evaluation helpers -/
def isIntV : Except Stop Val → Int → Bool
  | .ok (.int n), a => n == a
  | _, _ => false
theorem eq_of_isIntV (x : Except Stop Val) (a : Int) (h : isIntV x a = true) : x = .ok (.int a) := by
  rcases x with e | v
  · cases h
  · cases v <;> first | cases h | (simp only [isIntV, beq_iff_eq] at h; rw [h])
theorem run_of_isInt (m : M Val) (σ : St) (a : Int) (h : isIntV (m.run.run σ).1 a = true) :
    m.run.run σ = (.ok (.int a), (m.run.run σ).2) := by
  have := eq_of_isIntV _ a h
  rcases hr : m.run.run σ with ⟨x, σ'⟩
  rw [hr] at this
  cases this
  rfl
def isFalseB : Except Stop Bool → Bool
  | .ok false => true
  | _ => false
theorem run_of_isFalse (m : M Bool) (σ : St) (h : isFalseB (m.run.run σ).1 = true) : m.run.run σ = (.ok false, (m.run.run σ).2) := by
  rcases hr : m.run.run σ with ⟨e | b, σ'⟩
  · rw [hr] at h; cases h
  · rw [hr] at h
    cases b with
    | false => rfl
    | true => cases h
def isIntIter : Except Stop (Loc × Ty) → Bool
  | .ok (_, .int) => true
  | _ => false
theorem run_of_isIntIter (m : M (Loc × Ty)) (σ : St) (h : isIntIter (m.run.run σ).1 = true) :
    m.run.run σ = (.ok ((getOk default (m.run.run σ).1).1, .int), (m.run.run σ).2) := by
  rcases hr : m.run.run σ with ⟨e | ⟨l, ty⟩, σ'⟩
  · rw [hr] at h; cases h
  · rw [hr] at h
    cases ty <;> first | rfl | cases h
def isNumB : Val → Bool
  | .int _ => true
  | .real _ => true
  | _ => false
theorem numeric_of_isNumB (v : Val) (h : isNumB v = true) : numeric v := by
  cases v <;> first | exact Or.inl ⟨_, rfl⟩ | exact Or.inr ⟨_, rfl⟩ | cases h
theorem some_getD {α : Type} [Inhabited α] (x : Option α) (h : x.isSome = true) : x = some (x.getD default) := by
  cases x with
  | none => cases h
  | some a => rfl

theorem stepsS : σS.steps + 1 ≤ σS.stepLimit := by decide +kernel
/-- the state after the statement under test has been counted -/
def σT : St := tickSt σS
theorem stepsT : σT.steps + 1 ≤ σT.stepLimit := by decide +kernel
theorem actsS : σS.acts = σS.acts.headD default :: σS.acts.tail := acts_head_tail _ (by decide +kernel)
theorem actsT : σT.acts = σT.acts.headD default :: σT.acts.tail := acts_head_tail _ (by decide +kernel)
def yTok (l c : Nat) : Tok := tk .IDENTIFIER l c "y"
def lit (l c : Nat) (s : String) (n : Int) : Expr := .intLit (tk .INTEGER l c s) n
def asgY1 : Stmt := .expr (.assign (tk .ASSIGNMENT 8 8) (.var (yTok 8 5)) (lit 8 10 "1" 1))

/-! ### unary minus (`negA`): `y <- -K(1)` -/
def s_neg : Stmt := .expr (.assign (tk .ASSIGNMENT 7 4) (.var (yTok 7 1)) (.neg (tk .MINUS 7 6) (callK 7 7)))

set_option maxHeartbeats 4000000 in
theorem neg_fd : funLookup σT (tK 7 7).val = some fdK := by rfl
theorem neg_ok : callOK 7 7 σT = true := by decide +kernel
theorem neg_path : ∃ N, Descent2 N σS (.stmt s_neg) [(tK 7 7, "K".toList)] (σK 7 7 σT) bodyK :=
  ⟨_, .exprS _ σS stepsS (.assignRhs _ _ _ _ _ σT (by simp) actsT (.negA _ _ σT (callK_path 7 7 σT neg_fd neg_ok)))⟩
theorem neg_by_theorem : ∃ fuel d, (Code2.stmt s_neg).err fuel σS = some (.diag d) ∧ d.kind = .runtime ∧ d.msg = .divZero ∧
    d.trace = frames 7 7 := fam 7 7 σT neg_path neg_ok
theorem neg_by_evaluation : traceOf s_neg = some (frames 7 7) := by decide +kernel

/-! ### a cast (`castA`): `y <- INTEGER(K(1))` -/
def s_cast : Stmt := .expr (.assign (tk .ASSIGNMENT 7 4) (.var (yTok 7 1)) (.cast (tk .DATA_TYPE 7 6 "INTEGER") .int (callK 7 14)))

set_option maxHeartbeats 4000000 in
theorem cast_fd : funLookup σT (tK 7 14).val = some fdK := by rfl
theorem cast_ok : callOK 7 14 σT = true := by decide +kernel
theorem cast_path : ∃ N, Descent2 N σS (.stmt s_cast) [(tK 7 14, "K".toList)] (σK 7 14 σT) bodyK :=
  ⟨_, .exprS _ σS stepsS (.assignRhs _ _ _ _ _ σT (by simp) actsT (.castA _ _ _ σT (callK_path 7 14 σT cast_fd cast_ok)))⟩
theorem cast_by_theorem : ∃ fuel d, (Code2.stmt s_cast).err fuel σS = some (.diag d) ∧ d.kind = .runtime ∧ d.msg = .divZero ∧
    d.trace = frames 7 14 := fam 7 14 σT cast_path cast_ok
theorem cast_by_evaluation : traceOf s_cast = some (frames 7 14) := by decide +kernel

/-! ### `OR` does not short-circuit (`logicR`, `notA`): `IF TRUE OR NOT (K(1) > 0) THEN …` -/
def lTrue : Expr := .boolLit (tk .TRUE 7 4) true
def rNot : Expr := .not (tk .NOT 7 12) (.cmp (tk .GREATER 7 23) .gt (callK 7 17) (lit 7 24 "0" 0))
def s_logic : Stmt := .ifs (tk .IF 7 1) [(.logic (tk .OR 7 9) .or lTrue rNot, [asgY1])] none
def σLg : St := ((evalExpr 10 lTrue).run.run σT).2
def lvLg : Val := getOk .none ((evalExpr 10 lTrue).run.run σT).1
theorem logic_l : (evalExpr 10 lTrue).run.run σT = (.ok lvLg, σLg) := run_of_isOk .none _ _ (by decide +kernel)
set_option maxHeartbeats 4000000 in
theorem logic_fd : funLookup σLg (tK 7 17).val = some fdK := by rfl
theorem logic_ok : callOK 7 17 σLg = true := by decide +kernel
theorem logic_path : ∃ N, Descent2 N σS (.stmt s_logic) [(tK 7 17, "K".toList)] (σK 7 17 σLg) bodyK :=
  ⟨_, .ifS _ _ none σS stepsS (.ifCond _ _ _ [] none σT (.logicR 10 _ .or lTrue rNot lvLg σT σLg logic_l (fun h => by cases h.1)
    (.notA _ _ σLg (.cmpL _ .gt _ _ σLg (callK_path 7 17 σLg logic_fd logic_ok)))))⟩
theorem logic_by_theorem : ∃ fuel d, (Code2.stmt s_logic).err fuel σS = some (.diag d) ∧ d.kind = .runtime ∧ d.msg = .divZero ∧
    d.trace = frames 7 17 := fam 7 17 σLg logic_path logic_ok
theorem logic_by_evaluation : traceOf s_logic = some (frames 7 17) := by decide +kernel

/-! ### the condition after UNTIL (`repeatCond`): `REPEAT y <- 1 UNTIL K(1) > 0` -/
def cRep : Expr := .cmp (tk .GREATER 9 13) .gt (callK 9 7) (lit 9 14 "0" 0)
def s_repeat : Stmt := .repeat (tk .REPEAT 7 1) [asgY1] cRep
def σRp : St := ((loopBody 20 [asgY1]).run.run (tickSt σT)).2
theorem repeat_b : (loopBody 20 [asgY1]).run.run (tickSt σT) = (.ok false, σRp) := run_of_isFalse _ _ (by decide +kernel)
set_option maxHeartbeats 4000000 in
theorem repeat_fd : funLookup σRp (tK 9 7).val = some fdK := by rfl
theorem repeat_ok : callOK 9 7 σRp = true := by decide +kernel
theorem repeat_path : ∃ N, Descent2 N σS (.stmt s_repeat) [(tK 9 7, "K".toList)] (σK 9 7 σRp) bodyK :=
  ⟨_, .repeatS _ _ _ σS stepsS (.repeatCond 20 _ [asgY1] cRep σT σRp stepsT repeat_b (.cmpL _ .gt _ _ σRp (callK_path 9 7 σRp repeat_fd repeat_ok)))⟩
theorem repeat_by_theorem : ∃ fuel d, (Code2.stmt s_repeat).err fuel σS = some (.diag d) ∧ d.kind = .runtime ∧ d.msg = .divZero ∧
    d.trace = frames 9 7 := fam 9 7 σRp repeat_path repeat_ok
theorem repeat_by_evaluation : traceOf s_repeat = some (frames 9 7) := by decide +kernel

/-! ### the FOR statement, start value (`forStart`): `FOR y <- K(1) TO 2` -/
def forT : Tok := tk .FOR 7 1
def bodyFor1 : Block := [.expr (.assign (tk .ASSIGNMENT 8 11) (.index (tk .LSQRBRACKET 8 6) (.var (tk .IDENTIFIER 8 5 "A")) [lit 8 7 "1" 1]) (lit 8 13 "1" 1))]
/-- the iterator `y` is found -/
def σIt : St := ((forIter (yTok 7 5)).run.run σT).2
def lIt : Loc := (getOk default ((forIter (yTok 7 5)).run.run σT).1).1
theorem for_it : (forIter (yTok 7 5)).run.run σT = (.ok (lIt, .int), σIt) := run_of_isIntIter _ _ (by decide +kernel)
theorem for_const : locConstP σIt lIt = false := by decide +kernel
def s_forStart : Stmt := .for forT (yTok 7 5) (callK 7 10) (lit 7 18 "2" 2) none bodyFor1

set_option maxHeartbeats 4000000 in
theorem forStart_fd : funLookup σIt (tK 7 10).val = some fdK := by rfl
theorem forStart_ok : callOK 7 10 σIt = true := by decide +kernel
theorem forStart_path : ∃ N, Descent2 N σS (.stmt s_forStart) [(tK 7 10, "K".toList)] (σK 7 10 σIt) bodyK :=
  ⟨_, .forStart forT (yTok 7 5) _ _ none bodyFor1 lIt σS σIt stepsS for_it for_const (callK_path 7 10 σIt forStart_fd forStart_ok)⟩
theorem forStart_by_theorem : ∃ fuel d, (Code2.stmt s_forStart).err fuel σS = some (.diag d) ∧ d.kind = .runtime ∧ d.msg = .divZero ∧
    d.trace = frames 7 10 := fam 7 10 σIt forStart_path forStart_ok
theorem forStart_by_evaluation : traceOf s_forStart = some (frames 7 10) := by decide +kernel

/-! ### the FOR statement, STEP expression (`forStep`): `FOR y <- 1 TO 2 STEP K(1)` -/
def s_forStep : Stmt := .for forT (yTok 7 5) (lit 7 10 "1" 1) (lit 7 15 "2" 2) (some (callK 7 22)) bodyFor1
def σF2 : St := ((evalExpr 10 (lit 7 10 "1" 1)).run.run σIt).2
theorem for_s : (evalExpr 10 (lit 7 10 "1" 1)).run.run σIt = (.ok (.int 1), σF2) := run_of_isInt _ _ 1 (by decide +kernel)
def σF3 : St := ((evalExpr 10 (lit 7 15 "2" 2)).run.run σF2).2
theorem for_e : (evalExpr 10 (lit 7 15 "2" 2)).run.run σF2 = (.ok (.int 2), σF3) := run_of_isInt _ _ 2 (by decide +kernel)
set_option maxHeartbeats 4000000 in
theorem forStep_fd : funLookup σF3 (tK 7 22).val = some fdK := by rfl
theorem forStep_ok : callOK 7 22 σF3 = true := by decide +kernel
theorem forStep_path : ∃ N, Descent2 N σS (.stmt s_forStep) [(tK 7 22, "K".toList)] (σK 7 22 σF3) bodyK :=
  ⟨_, .forStep 10 forT (yTok 7 5) _ _ _ bodyFor1 lIt 1 2 σS σIt σF2 σF3 stepsS for_it for_const for_s for_e (callK_path 7 22 σF3 forStep_fd forStep_ok)⟩
theorem forStep_by_theorem : ∃ fuel d, (Code2.stmt s_forStep).err fuel σS = some (.diag d) ∧ d.kind = .runtime ∧ d.msg = .divZero ∧
    d.trace = frames 7 22 := fam 7 22 σF3 forStep_path forStep_ok
theorem forStep_by_evaluation : traceOf s_forStep = some (frames 7 22) := by decide +kernel

/-! ### **the FOR statement** (`forS`, then `forBody`): `FOR y <- 1 TO 2` / `A[1] <- K(1)` / `NEXT y` — the call is in the body of the first iteration -/
def bodyForK : Block := [.expr (.assign (tk .ASSIGNMENT 8 11) (.index (tk .LSQRBRACKET 8 6) (.var (tk .IDENTIFIER 8 5 "A")) [lit 8 7 "1" 1]) (callK 8 13))]
def s_forS : Stmt := .for forT (yTok 7 5) (lit 7 10 "1" 1) (lit 7 15 "2" 2) none bodyForK
def σF5 : St := ((writeLoc forT lIt (.int 1)).run.run σF3).2
theorem for_w : (writeLoc forT lIt (.int 1)).run.run σF3 = (.ok ⟨⟩, σF5) := run_of_isOk_unit _ _ (by decide +kernel)
theorem for_read : readLocP σF5 lIt = .ok (.int 1) := eq_of_isIntV _ 1 (by decide +kernel)
theorem for_steps5 : σF5.steps + 1 ≤ σF5.stepLimit := by decide +kernel
theorem for_steps6 : (tickSt σF5).steps + 1 ≤ (tickSt σF5).stepLimit := by decide +kernel
def σF7 : St := tickSt (tickSt σF5)
theorem for_acts7 : σF7.acts = σF7.acts.headD default :: σF7.acts.tail := acts_head_tail _ (by decide +kernel)
set_option maxHeartbeats 4000000 in
theorem forS_fd : funLookup σF7 (tK 8 13).val = some fdK := by rfl
theorem forS_ok : callOK 8 13 σF7 = true := by decide +kernel
theorem forS_path : ∃ N, Descent2 N σS (.stmt s_forS) [(tK 8 13, "K".toList)] (σK 8 13 σF7) bodyK :=
  ⟨_, .forS 10 forT (yTok 7 5) _ _ none bodyForK lIt 1 2 1 σS σIt σF2 σF3 σF3 σF5 stepsS for_it for_const for_s for_e ⟨rfl, rfl⟩ for_w
    (.forBody forT lIt 2 1 1 bodyForK σF5 for_read (by decide) for_steps5 (.loopBody bodyForK (tickSt σF5) (.head _ [] (tickSt σF5)
      (.exprS _ (tickSt σF5) for_steps6 (.assignRhs _ _ _ _ _ σF7 (by simp) for_acts7 (callK_path 8 13 σF7 forS_fd forS_ok))))))⟩
theorem forS_by_theorem : ∃ fuel d, (Code2.stmt s_forS).err fuel σS = some (.diag d) ∧ d.kind = .runtime ∧ d.msg = .divZero ∧
    d.trace = frames 8 13 := fam 8 13 σF7 forS_path forS_ok
theorem forS_by_evaluation : traceOf s_forS = some (frames 8 13) := by decide +kernel

/-! ### an index expression of a reference that is READ (`accessRef`, `refIndex`, `idxHead`): `y <- A[K(1)]` -/
def refA (l c : Nat) : Ref := .var (tk .IDENTIFIER l c "A")
open C11Chain2Ex (arrParts isArrB arr_of_isArrB)
def rAcc : Ref := .index (tk .LSQRBRACKET 7 7) (refA 7 6) [callK 7 8]
def s_access : Stmt := .expr (.assign (tk .ASSIGNMENT 7 4) (.var (yTok 7 1)) (.access (tk .IDENTIFIER 7 6 "A") rAcc))
def hAc : Holder := getOk default ((resolveRef 10 (refA 7 6)).run.run σT).1
def σAc : St := ((resolveRef 10 (refA 7 6)).run.run σT).2
theorem access_res : (resolveRef 10 (refA 7 6)).run.run σT = (.ok hAc, σAc) := run_of_isOk default _ _ (by decide +kernel)
theorem access_arr : hAc.isArr = true := by decide +kernel
theorem access_val : readLocP σAc hAc.loc = .ok (.arr (arrParts (readLocP σAc hAc.loc)).1 (arrParts (readLocP σAc hAc.loc)).2.1
    (arrParts (readLocP σAc hAc.loc)).2.2) := arr_of_isArrB _ (by decide +kernel)
theorem access_len : [callK 7 8].length = (arrParts (readLocP σAc hAc.loc)).2.1.length := by decide +kernel
set_option maxHeartbeats 4000000 in
theorem access_fd : funLookup σAc (tK 7 8).val = some fdK := by rfl
theorem access_ok : callOK 7 8 σAc = true := by decide +kernel
theorem access_path : ∃ N, Descent2 N σS (.stmt s_access) [(tK 7 8, "K".toList)] (σK 7 8 σAc) bodyK :=
  ⟨_, .exprS _ σS stepsS (.assignRhs _ _ _ _ _ σT (by simp) actsT (.accessRef _ rAcc _ _ σT (by simp) actsT
    (.refIndex 10 _ (refA 7 6) [callK 7 8] hAc _ _ _ σT σAc access_res access_arr access_val access_len
      (.idxHead _ [] _ [] σAc (callK_path 7 8 σAc access_fd access_ok)))))⟩
theorem access_by_theorem : ∃ fuel d, (Code2.stmt s_access).err fuel σS = some (.diag d) ∧ d.kind = .runtime ∧ d.msg = .divZero ∧
    d.trace = frames 7 8 := fam 7 8 σAc access_path access_ok
theorem access_by_evaluation : traceOf s_access = some (frames 7 8) := by decide +kernel

/-! ### the target of INPUT (`inputRef`): `INPUT A[K(1)]` -/
def rInp : Ref := .index (tk .LSQRBRACKET 7 8) (refA 7 7) [callK 7 9]
def s_input : Stmt := .input (tk .INPUT 7 1) rInp
def hIn : Holder := getOk default ((resolveRef 10 (refA 7 7)).run.run σT).1
def σIn : St := ((resolveRef 10 (refA 7 7)).run.run σT).2
theorem input_res : (resolveRef 10 (refA 7 7)).run.run σT = (.ok hIn, σIn) := run_of_isOk default _ _ (by decide +kernel)
theorem input_arr : hIn.isArr = true := by decide +kernel
theorem input_val : readLocP σIn hIn.loc = .ok (.arr (arrParts (readLocP σIn hIn.loc)).1 (arrParts (readLocP σIn hIn.loc)).2.1
    (arrParts (readLocP σIn hIn.loc)).2.2) := arr_of_isArrB _ (by decide +kernel)
theorem input_len : [callK 7 9].length = (arrParts (readLocP σIn hIn.loc)).2.1.length := by decide +kernel
set_option maxHeartbeats 4000000 in
theorem input_fd : funLookup σIn (tK 7 9).val = some fdK := by rfl
theorem input_ok : callOK 7 9 σIn = true := by decide +kernel
theorem input_path : ∃ N, Descent2 N σS (.stmt s_input) [(tK 7 9, "K".toList)] (σK 7 9 σIn) bodyK :=
  ⟨_, .inputRef _ rInp _ _ σS (by simp) actsS stepsS
    (.refIndex 10 _ (refA 7 7) [callK 7 9] hIn _ _ _ σT σIn input_res input_arr input_val input_len
      (.idxHead _ [] _ [] σIn (callK_path 7 9 σIn input_fd input_ok)))⟩
theorem input_by_theorem : ∃ fuel d, (Code2.stmt s_input).err fuel σS = some (.diag d) ∧ d.kind = .runtime ∧ d.msg = .divZero ∧
    d.trace = frames 7 9 := fam 7 9 σIn input_path input_ok
theorem input_by_evaluation : traceOf s_input = some (frames 7 9) := by decide +kernel

/-! ### a CASE label (`caseLabel`, `caseEq`): `CASE OF y` / `K(1) : OUTPUT 1` -/
def selT : Tok := yTok 7 9
def out1 : Block := [.output (tk .OUTPUT 8 12) [lit 8 19 "1" 1]]
def vSel : Val := getOk .none ((evalExpr 10 (.access selT (.var selT))).run.run σT).1
def σCs : St := ((evalExpr 10 (.access selT (.var selT))).run.run σT).2
theorem case_sel : (evalExpr 10 (.access selT (.var selT))).run.run σT = (.ok vSel, σCs) := run_of_isOk .none _ _ (by decide +kernel)
def s_caseEq : Stmt := .case (tk .CASE 7 1) selT [.eq (callK 8 5) out1]

set_option maxHeartbeats 4000000 in
theorem caseEq_fd : funLookup σCs (tK 8 5).val = some fdK := by rfl
theorem caseEq_ok : callOK 8 5 σCs = true := by decide +kernel
theorem caseEq_path : ∃ N, Descent2 N σS (.stmt s_caseEq) [(tK 8 5, "K".toList)] (σK 8 5 σCs) bodyK :=
  ⟨_, .caseS 10 _ selT _ vSel σS σCs stepsS case_sel (.caseLabel vSel _ [] σCs (.caseEq vSel _ out1 σCs (callK_path 8 5 σCs caseEq_fd caseEq_ok)))⟩
theorem caseEq_by_theorem : ∃ fuel d, (Code2.stmt s_caseEq).err fuel σS = some (.diag d) ∧ d.kind = .runtime ∧ d.msg = .divZero ∧
    d.trace = frames 8 5 := fam 8 5 σCs caseEq_path caseEq_ok
theorem caseEq_by_evaluation : traceOf s_caseEq = some (frames 8 5) := by decide +kernel

/-! ### the upper bound of a CASE range label (`caseHi`): `CASE OF y` / `1 TO K(1) : OUTPUT 1` -/
def s_caseHi : Stmt := .case (tk .CASE 7 1) selT [.range (lit 8 5 "1" 1) (callK 8 10) out1]
def σCl : St := ((evalExpr 10 (lit 8 5 "1" 1)).run.run σCs).2
def vLo : Val := getOk .none ((evalExpr 10 (lit 8 5 "1" 1)).run.run σCs).1
theorem caseHi_lo : (evalExpr 10 (lit 8 5 "1" 1)).run.run σCs = (.ok vLo, σCl) := run_of_isOk .none _ _ (by decide +kernel)
set_option maxHeartbeats 4000000 in
theorem caseHi_fd : funLookup σCl (tK 8 10).val = some fdK := by rfl
theorem caseHi_ok : callOK 8 10 σCl = true := by decide +kernel
theorem caseHi_path : ∃ N, Descent2 N σS (.stmt s_caseHi) [(tK 8 10, "K".toList)] (σK 8 10 σCl) bodyK :=
  ⟨_, .caseS 10 _ selT _ vSel σS σCs stepsS case_sel (.caseLabel vSel _ [] σCs
    (.caseHi 10 vSel vLo _ _ out1 σCs σCl (numeric_of_isNumB _ (by decide +kernel)) caseHi_lo (numeric_of_isNumB _ (by decide +kernel))
      (callK_path 8 10 σCl caseHi_fd caseHi_ok)))⟩
theorem caseHi_by_theorem : ∃ fuel d, (Code2.stmt s_caseHi).err fuel σS = some (.diag d) ∧ d.kind = .runtime ∧ d.msg = .divZero ∧
    d.trace = frames 8 10 := fam 8 10 σCl caseHi_path caseHi_ok
theorem caseHi_by_evaluation : traceOf s_caseHi = some (frames 8 10) := by decide +kernel

/-! ### the file-name expression of a file statement (`fileS`, `fileNameE`): `OPENFILE K(1) FOR READ` -/
def s_open : Stmt := .openFile (tk .OPENFILE 7 1) (callK 7 10) .read

set_option maxHeartbeats 4000000 in
theorem open_fd : funLookup σT (tK 7 10).val = some fdK := by rfl
theorem open_ok : callOK 7 10 σT = true := by decide +kernel
theorem open_path : ∃ N, Descent2 N σS (.stmt s_open) [(tK 7 10, "K".toList)] (σK 7 10 σT) bodyK :=
  ⟨_, .fileS s_open (tk .OPENFILE 7 1) (callK 7 10) σS rfl stepsS (.fileNameE _ _ σT (callK_path 7 10 σT open_fd open_ok))⟩
theorem open_by_theorem : ∃ fuel d, (Code2.stmt s_open).err fuel σS = some (.diag d) ∧ d.kind = .runtime ∧ d.msg = .divZero ∧
    d.trace = frames 7 10 := fam 7 10 σT open_path open_ok
theorem open_by_evaluation : traceOf s_open = some (frames 7 10) := by decide +kernel

/-! ### the address of SEEK (`seekAddr`): `SEEK "f", K(1)` -/
def s_seek : Stmt := .seek (tk .SEEK 7 1) (.strLit (tk .STRING 7 6 "f") "f".toList) (callK 7 11)

set_option maxHeartbeats 4000000 in
theorem seek_fd : funLookup σT (tK 7 11).val = some fdK := by rfl
theorem seek_ok : callOK 7 11 σT = true := by decide +kernel
theorem seek_path : ∃ N, Descent2 N σS (.stmt s_seek) [(tK 7 11, "K".toList)] (σK 7 11 σT) bodyK :=
  ⟨_, .seekAddr _ _ _ σS stepsS (callK_path 7 11 σT seek_fd seek_ok)⟩
theorem seek_by_theorem : ∃ fuel d, (Code2.stmt s_seek).err fuel σS = some (.diag d) ∧ d.kind = .runtime ∧ d.msg = .divZero ∧
    d.trace = frames 7 11 := fam 7 11 σT seek_path seek_ok
theorem seek_by_evaluation : traceOf s_seek = some (frames 7 11) := by decide +kernel

/-! ### the bounds of an array declaration (`declBounds`, `boundHi`): `DECLARE B : ARRAY[1:K(1)] OF INTEGER` -/
def s_decl : Stmt := .declareArr (tk .DECLARE 7 1) [tk .IDENTIFIER 7 9 "B"] (tk .DATA_TYPE 7 30 "INTEGER") [(lit 7 19 "1" 1, callK 7 21)]
def σDl : St := ((evalExpr 10 (lit 7 19 "1" 1)).run.run σT).2
theorem decl_lo : (evalExpr 10 (lit 7 19 "1" 1)).run.run σT = (.ok (.int 1), σDl) := run_of_isInt _ _ 1 (by decide +kernel)
theorem decl_new : [tk .IDENTIFIER 7 9 "B"].any (fun id => (findSlot (σS.acts.headD default).arrs id.val).isSome) = false := by decide +kernel
set_option maxHeartbeats 4000000 in
theorem decl_fd : funLookup σDl (tK 7 21).val = some fdK := by rfl
theorem decl_ok : callOK 7 21 σDl = true := by decide +kernel
theorem decl_path : ∃ N, Descent2 N σS (.stmt s_decl) [(tK 7 21, "K".toList)] (σK 7 21 σDl) bodyK :=
  ⟨_, .declBounds _ _ _ _ _ _ σS stepsS actsS decl_new (.boundHi 10 _ _ [] [] 1 σT σDl decl_lo (callK_path 7 21 σDl decl_fd decl_ok))⟩
theorem decl_by_theorem : ∃ fuel d, (Code2.stmt s_decl).err fuel σS = some (.diag d) ∧ d.kind = .runtime ∧ d.msg = .divZero ∧
    d.trace = frames 7 21 := fam 7 21 σDl decl_path decl_ok
theorem decl_by_evaluation : traceOf s_decl = some (frames 7 21) := by decide +kernel

/-! ### CONSTANT (`constE`; the parser accepts literals only, so this is an instance on the syntax tree): `CONSTANT c = K(1)` -/
def s_const : Stmt := .const (tk .CONSTANT 7 1) (tk .IDENTIFIER 7 10 "c") (callK 7 14)

set_option maxHeartbeats 4000000 in
theorem const_fd : funLookup σT (tK 7 14).val = some fdK := by rfl
theorem const_ok : callOK 7 14 σT = true := by decide +kernel
theorem const_path : ∃ N, Descent2 N σS (.stmt s_const) [(tK 7 14, "K".toList)] (σK 7 14 σT) bodyK :=
  ⟨_, .constE _ _ _ σS stepsS (callK_path 7 14 σT const_fd const_ok)⟩
theorem const_by_theorem : ∃ fuel d, (Code2.stmt s_const).err fuel σS = some (.diag d) ∧ d.kind = .runtime ∧ d.msg = .divZero ∧
    d.trace = frames 7 14 := fam 7 14 σT const_path const_ok
theorem const_by_evaluation : traceOf s_const = some (frames 7 14) := by decide +kernel

/-! ### the argument of a BUILT-IN function (restated `callFArgs`, `argHead`): `OUTPUT CHR(K(1))` -/
def chrT : Tok := tk .IDENTIFIER 7 8 "CHR"
def s_builtin : Stmt := .output (tk .OUTPUT 7 1) [.call chrT [callK 7 12]]
def fdChr : FunDef := (funLookup σT chrT.val).getD default
theorem builtin_chr : funLookup σT chrT.val = some fdChr := some_getD _ (by decide +kernel)
theorem builtin_is : (match fdChr.body with | .builtin _ => true | .user _ _ => false) = true := by decide +kernel
set_option maxHeartbeats 4000000 in
theorem builtin_fd : funLookup σT (tK 7 12).val = some fdK := by rfl
theorem builtin_ok : callOK 7 12 σT = true := by decide +kernel
theorem builtin_path : ∃ N, Descent2 N σS (.stmt s_builtin) [(tK 7 12, "K".toList)] (σK 7 12 σT) bodyK :=
  ⟨_, .outputS _ _ σS stepsS (.outHead _ [] σT (.callFArgs chrT [callK 7 12] fdChr σT builtin_chr (.argHead _ [] [] σT (callK_path 7 12 σT builtin_fd builtin_ok))))⟩
theorem builtin_by_theorem : ∃ fuel d, (Code2.stmt s_builtin).err fuel σS = some (.diag d) ∧ d.kind = .runtime ∧ d.msg = .divZero ∧
    d.trace = frames 7 12 := fam 7 12 σT builtin_path builtin_ok
theorem builtin_by_evaluation : traceOf s_builtin = some (frames 7 12) := by decide +kernel

/-! ### the short circuit, by evaluation: `IF FALSE AND K(1) > 0 THEN …` makes no call and ends normally -/
def s_short : Stmt := .ifs (tk .IF 7 1) [(.logic (tk .AND 7 10) .and (.boolLit (tk .FALSE 7 4) false)
  (.cmp (tk .GREATER 7 20) .gt (callK 7 14) (lit 7 21 "0" 0)), [asgY1])] none
theorem short_by_evaluation : isOkB ((execStmt 1000 s_short).run.run σS).1 = true := by decide +kernel

/-- the embedding (`old`): the path of `Properties/C11Chain.lean`'s example program is a `Descent2` path -/
theorem old_instance : ∃ N, Descent2 N C11ChainEx.σ₀ (.block C11ChainEx.main)
    [(C11ChainEx.t₀, "P1".toList), (C11ChainEx.t₁, "P2".toList), (C11ChainEx.t₂, "P3".toList)] C11ChainEx.σK [C11ChainEx.outDiv] := by
  obtain ⟨N, _, h⟩ := C11ChainEx.path
  exact ⟨N, .old _ (.block _) h⟩

end C11Chain2Fam

/-! ## non-vacuity of the binding steps (`callBind`, `bindRef`): a call site inside the reference of a BYREF argument

`CALL Q(A[K2(1)])` with `Q(BYREF z : INTEGER)`: the argument is evaluated once for its value (`evalArgs`: `K2` returns) and
its reference is resolved a second time when the parameter is bound (`bindParams`).  `K2` counts its calls and fails in the
second one, so the failing call is the one made from the binding.  Program, states and their evaluations:
`PseudoProofs/TraceChain2Byref.lean`. -/
namespace C11Chain2Byref
open C11ChainEx (tk getOk isOkB isTrueB run_of_isOk run_of_isOk_unit run_of_isTrue acts_head_tail)
set_option maxRecDepth 1000000

def frames : List Frame := [{ name := "K2".toList, line := 6, col := 18 }, { name := "Program".toList, line := 14, col := 10 }]

/-- the path: `CALL Q(A[K2(1)])` → binding of the BYREF parameter `z` (`callBind`, `bindRef`) → index of the argument's reference
    (`refIndex`, `idxHead`) → second call `K2(1)` → (in K2, after `cnt <- cnt + 1`) the branch of `IF cnt = 2` → `OUTPUT 1 DIV 0` -/
theorem path : ∃ N, Descent2 N σ₀ (.block prog) [(tK2, "K2".toList)] σK2 outDiv := by
  have hK : Descent2 _ σJ (.block bodyK2) [] σK2 outDiv :=
    .pre 20 [asgCnt] _ σJ σK1 hpreK (.head _ [retN] σK1 (.ifS ifT _ none σK1 hstepsK1
      (.ifTrue 10 ifT cond2 outDiv [] none (tickSt σK1) σK2 hcondK (.here σK2 outDiv))))
  have hB : ∃ N, Descent2 N σB (.bind tQ pdQ.params argsQ valsB []) [(tK2, "K2".toList)] σK2 outDiv := by
    rw [hvalsB]
    exact ⟨_, .bindRef tQ "z".toList .int [] atA rArg [] vB [] [] σB htyB
      (.refIndex 10 ixT refA [.call tK2 argsK2] hA _ _ _ σB σB2 hresA harrA hvalA hlenA (.idxHead _ [] _ [] σB2
        (.callF 10 tK2 argsK2 σB2 σI σI2 fdK2 bodyK2 defTokK2 valsI curI σI.acts.tail slotsI hfdK2 rfl hargsI hlenI hdepthI hcurI hbindI hK)))⟩
  obtain ⟨NB, hB⟩ := hB
  have hM : Descent2 _ σ₀ (.block prog) [(tK2, "K2".toList)] σK2 outDiv := .pre 20 pre₀ _ σ₀ σA hpre₀ (.head _ [] σA
    (.callBind 20 tQ "Q".toList argsQ σA σB pdQ valsB _ _ hstepsA hpdQ hargsB hlenB hdepthB hcurB hB))
  exact ⟨_, hM⟩

/-- **the theorem's instance**: the program ends with `divZero` and the traceback `K2, line 6` / `Program, line 14` (the position
    of the call `K2(1)` made from the binding — the regression case `C11_trace_regression_byref_index_call` of
    `Properties/C11Trace.lean`, here from the theorem) -/
theorem run_by_theorem : ∃ fuel d σ', (runMain fuel prog).run.run σ₀ = (.error (.diag d), σ') ∧ d.kind = .runtime ∧ d.msg = .divZero ∧
    d.trace = frames := by
  obtain ⟨N, hc⟩ := path
  have hfail := C11TraceAux.run_output_div0 0 odTok divTok oneTok zeroTok 1 [] σK2 aK σK2.acts.tail hactsK hcompK hstepsK2
  obtain ⟨d, σ', h1, h2, h3, _, _, h6⟩ := C11_chain2_program hc 5 (5 + N) (tickSt σK2) mkGlobal [] divTok .divZero rfl hfail (Nat.le_refl _)
  exact ⟨5 + N, d, σ', h1, h2, h3, h6⟩

/-- the same by evaluation -/
theorem run_by_evaluation :
    (match ((runMain 100000 prog).run.run σ₀).1 with | .error (.diag d) => some d.trace | _ => none) = some frames := by decide +kernel

end C11Chain2Byref

end Pseudo
