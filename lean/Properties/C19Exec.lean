import PseudoProofs.CallLemmas
import Properties.C19
/-!
# C19 at the level of the evaluator: enumerated values on runs of `evalExpr` / `execAssign`

`Properties/C19.lean` proves the enum clauses about the pure functions `evalArith` (over an abstract `size`), `evalCmp`,
`storeCompatible`.  This file ties them to what runs: every theorem is a statement about
`(evalExpr f e).run.run σ`, `(execAssign f …).run.run σ` or `(execStmt f …).run.run σ`.

**Hypotheses on operand expressions**: `ArrayLemmas.PureAt σ f₀ e v` — with every fuel `≥ f₀` the expression evaluates
in `σ` to `v` and leaves `σ` as it is (integer literals: `ArrayLemmas.pureAt_intLit`, variables: `CallLemmas.pureAt_var`,
enum names: `C19_exec_enum_name` below, and the results of this file again: `C19_exec_add_pure` …).

**Which definition of the enum type counts** (`C19ExecL.EnumVisible σ T n`): exactly what the `.arith` case of `evalExpr`
computes — `a` := the scope activation (`scopeAct`: the innermost activation that is not a record context), `g` := the
global activation (last of the stack); the definition of `T` among `a.enums` if there is one, otherwise — when `a` is not
the global activation (`a.id ≠ g.id`) — the one among `g.enums`; `n` is the number of its names (`C19ExecL.sizeIn`).
Sufficient: `C19ExecL.enumVisible_global` (defined in the global activation, no activation above it defines the name
or shares its id), `C19ExecL.enumVisible_single` (only the global activation is live).

**The exact formula.**  `evalArith` computes `res : Int` WITHOUT any 64-bit wrap — `res = ↑i + k` for `e + k`,
`res = k + ↑i` for `k + e`, `res = ↑i - k` for `e - k` (and `k - ↑i` for `k - e`, which the model accepts as well) — and the
new position is `enumShift n res = (res % ↑n).toNat`, `%` being `Int.emod` (Euclidean remainder, `0 ≤ res % ↑n < ↑n`
for `n > 0`, whatever the sign of `res`).

**Messages.**  `*`, `/`, `DIV`, `MOD` on an enum value and an integer (either order), and every arithmetic operator on two
enum values: runtime diagnostic `typeMismatch` at the operator token (even `e / 0`: the division-by-zero check is never
reached).  `<`, `>`, `<=`, `>=` on enum values: `typeMismatch`.  Assignment of a value of another enum type:
`typeMismatch` at the assignment token.
-/
namespace Pseudo

namespace C19ExecL

open ArrayLemmas CallLemmas

/-! ## the primitives `evalExpr` uses, as functions of the state -/

/-- the activation whose scope resolves type names (the pure content of `scopeAct`) -/
def scopeOf (σ : St) : Option Act := σ.acts.find? (fun a => !a.isComp)

/-- the `size` function of the `.arith` case of `evalExpr`, for scope activation `a` and global activation `g` -/
def sizeIn (a g : Act) (n : Str) : Option Nat :=
  match a.enums.find? (·.1 == n) with
  | some (_, vals) => some vals.length
  | none => if a.id == g.id then none else (g.enums.find? (·.1 == n)).map (·.2.length)

/-- a scope activation exists (true in every state the interpreter reaches: the global activation is not a record) -/
def HasScope (σ : St) : Prop := ∃ a, scopeOf σ = some a

/-- the definition of enum type `T` that `evalExpr` sees in `σ` has `n` names -/
def EnumVisible (σ : St) (T : Str) (n : Nat) : Prop :=
  ∃ a g, scopeOf σ = some a ∧ σ.acts.getLast? = some g ∧ sizeIn a g T = some n

/-- no definition of `T` is visible -/
def EnumHidden (σ : St) (T : Str) : Prop :=
  ∃ a g, scopeOf σ = some a ∧ σ.acts.getLast? = some g ∧ sizeIn a g T = none

theorem run_scopeAct_some (σ : St) (a : Act) (h : scopeOf σ = some a) : scopeAct.run.run σ = (.ok a, σ) := by
  unfold scopeAct
  rw [run_bind_ok _ _ _ _ _ (run_get σ)]
  unfold scopeOf at h
  rw [h]; rfl

theorem scopeOf_cur (σ : St) (cur : Act) (rest : List Act) (h : σ.acts = cur :: rest) (hc : cur.isComp = false) :
    scopeOf σ = some cur := by
  unfold scopeOf
  rw [h]
  simp [hc]

theorem last_of_scope (σ : St) (a : Act) (h : scopeOf σ = some a) : ∃ g, σ.acts.getLast? = some g := by
  cases hl : σ.acts.getLast? with
  | some g => exact ⟨g, rfl⟩
  | none =>
    rw [List.getLast?_eq_none_iff] at hl
    unfold scopeOf at h
    rw [hl] at h
    cases h

theorem EnumVisible.hasScope {σ : St} {T : Str} {n : Nat} (h : EnumVisible σ T n) : HasScope σ := by
  obtain ⟨a, _, ha, _, _⟩ := h
  exact ⟨a, ha⟩

theorem hasScope_cur (σ : St) (cur : Act) (rest : List Act) (h : σ.acts = cur :: rest) (hc : cur.isComp = false) :
    HasScope σ := ⟨cur, scopeOf_cur σ cur rest h hc⟩

/-- **sufficient for `EnumVisible`**: `T` is defined in the global activation `g` (the last one, not a record
    context) with the names `vals`, and no activation above `g` defines a type of that name or shares `g`'s id -/
theorem enumVisible_global (σ : St) (above : List Act) (g : Act) (T T' : Str) (vals : List Str)
    (h : σ.acts = above ++ [g]) (hc : g.isComp = false) (hdef : g.enums.find? (·.1 == T) = some (T', vals))
    (hab : ∀ a ∈ above, a.id ≠ g.id ∧ a.enums.find? (·.1 == T) = none) :
    EnumVisible σ T vals.length := by
  have hg : σ.acts.getLast? = some g := by rw [h]; simp
  have hgg : sizeIn g g T = some vals.length := by simp only [sizeIn, hdef]
  cases hf : above.find? (fun a => !a.isComp) with
  | some a =>
    have hmem := List.mem_of_find?_eq_some hf
    obtain ⟨hid, hno⟩ := hab a hmem
    refine ⟨a, g, ?_, hg, ?_⟩
    · unfold scopeOf; rw [h, List.find?_append, hf]; rfl
    · have hid' : (a.id == g.id) = false := by simpa using hid
      simp only [sizeIn, hno, hid', Bool.false_eq_true, if_false, hdef, Option.map_some]
  | none =>
    refine ⟨g, g, ?_, hg, hgg⟩
    unfold scopeOf; rw [h, List.find?_append, hf]
    simp [hc]

/-- only the global activation is live -/
theorem enumVisible_single (σ : St) (g : Act) (T T' : Str) (vals : List Str)
    (h : σ.acts = [g]) (hc : g.isComp = false) (hdef : g.enums.find? (·.1 == T) = some (T', vals)) :
    EnumVisible σ T vals.length :=
  enumVisible_global σ [] g T T' vals h hc hdef (fun _ ha => by cases ha)

/-- the name a definition is found under is the name asked for -/
theorem find_enum_name (enums : List (Str × List Str)) (T T' : Str) (vals : List Str)
    (h : enums.find? (·.1 == T) = some (T', vals)) : T' = T := by
  have := List.find?_some h
  simpa using this

/-! ## unfolding equations and run lemmas -/

theorem evalExpr_arith (f : Nat) (t : Tok) (op : ArOp) (l r : Expr) :
    evalExpr (f+1) (.arith t op l r) = (do
      let lv ← evalExpr f l
      let rv ← evalExpr f r
      let a ← scopeAct
      let g ← globalAct
      liftMsg t (evalArith (sizeIn a g) op lv rv)) := by
  rw [evalExpr.eq_def]; rfl

theorem evalExpr_cmp (f : Nat) (t : Tok) (op : CmpOp) (l r : Expr) :
    evalExpr (f+1) (.cmp t op l r) = (do
      let lv ← evalExpr f l
      let rv ← evalExpr f r
      liftMsg t (evalCmp op lv rv)) := by
  rw [evalExpr.eq_def]

theorem run_liftMsg_ok {α : Type} (t : Tok) (v : α) (σ : St) : (liftMsg t (.ok v) : M α).run.run σ = (.ok v, σ) := rfl

theorem run_liftMsg_err {α : Type} (t : Tok) (m : Msg) (σ : St) :
    (liftMsg t (.error m) : M α).run.run σ = (.error (.diag (rtDiag σ t.line t.col m)), σ) := run_rtErr t m σ

/-- the outcome of `liftMsg` in state `σ` -/
def lifted (σ : St) (t : Tok) : Except Msg Val → Except Stop Val × St
  | .ok v => (.ok v, σ)
  | .error m => (.error (.diag (rtDiag σ t.line t.col m)), σ)

theorem run_liftMsg (t : Tok) (x : Except Msg Val) (σ : St) : (liftMsg t x).run.run σ = lifted σ t x := by
  cases x with
  | ok v => rfl
  | error m => exact run_liftMsg_err t m σ

/-- an arithmetic node on two pure operands: `evalArith` with the `size` function of the state -/
theorem run_arith (σ : St) (f : Nat) (t : Tok) (op : ArOp) (l r : Expr) (lv rv : Val) (a g : Act)
    (hl : (evalExpr f l).run.run σ = (.ok lv, σ)) (hr : (evalExpr f r).run.run σ = (.ok rv, σ))
    (ha : scopeOf σ = some a) (hg : σ.acts.getLast? = some g) :
    (evalExpr (f+1) (.arith t op l r)).run.run σ = lifted σ t (evalArith (sizeIn a g) op lv rv) := by
  rw [evalExpr_arith, run_bind_ok _ _ _ _ _ hl, run_bind_ok _ _ _ _ _ hr,
    run_bind_ok _ _ _ _ _ (run_scopeAct_some σ a ha), run_bind_ok _ _ _ _ _ (run_globalAct_some σ g hg)]
  exact run_liftMsg t _ σ

/-- a comparison node on two pure operands: `evalCmp` -/
theorem run_cmp (σ : St) (f : Nat) (t : Tok) (op : CmpOp) (l r : Expr) (lv rv : Val)
    (hl : (evalExpr f l).run.run σ = (.ok lv, σ)) (hr : (evalExpr f r).run.run σ = (.ok rv, σ)) :
    (evalExpr (f+1) (.cmp t op l r)).run.run σ = lifted σ t (evalCmp op lv rv) := by
  rw [evalExpr_cmp, run_bind_ok _ _ _ _ _ hl, run_bind_ok _ _ _ _ _ hr]
  exact run_liftMsg t _ σ

/-- a pure expression needs fuel -/
theorem pureAt_pos {σ : St} {f₀ : Nat} {e : Expr} {v : Val} (h : PureAt σ f₀ e v) : 1 ≤ f₀ := by
  cases f₀ with
  | succ n => omega
  | zero =>
    have h0 := h 0 (Nat.le_refl 0)
    rw [evalExpr.eq_def] at h0
    cases h0

/-! ## pure facts about `evalArith` / `evalCmp` on enum values that `Properties/C19.lean` does not state -/

theorem arith_int_sub_enum (size : Str → Option Nat) (ty : Str) (idx n : Nat) (k : Int) (hs : size ty = some n) (hn : 0 < n) :
    evalArith size .sub (.int k) (.enum ty idx) = .ok (.enum ty (enumShift n (k - idx))) := by
  have hn' : (n == 0) = false := by simp; omega
  simp [evalArith, hs, hn']

theorem arith_int_enum_other (size : Str → Option Nat) (ty : Str) (idx : Nat) (k : Int) (op : ArOp)
    (h : op ≠ .add ∧ op ≠ .sub) : evalArith size op (.int k) (.enum ty idx) = .error .typeMismatch := by
  obtain ⟨h1, h2⟩ := h
  cases op <;> simp_all [evalArith]

theorem arith_enum_enum (size : Str → Option Nat) (ta tb : Str) (i j : Nat) (op : ArOp) :
    evalArith size op (.enum ta i) (.enum tb j) = .error .typeMismatch := by
  simp [evalArith]

theorem arith_undefined (size : Str → Option Nat) (ty : Str) (idx : Nat) (k : Int) (hs : size ty = none) :
    evalArith size .add (.enum ty idx) (.int k) = .error .notDefined ∧
    evalArith size .add (.int k) (.enum ty idx) = .error .notDefined ∧
    evalArith size .sub (.enum ty idx) (.int k) = .error .notDefined := by
  refine ⟨?_, ?_, ?_⟩ <;> simp [evalArith, hs]

theorem cmp_ne_cross (ta tb : Str) (i j : Nat) (h : ta ≠ tb) :
    evalCmp .ne (.enum ta i) (.enum tb j) = .ok (.bool true) := by
  simp [evalCmp, eqRes, Val.ty, h]

theorem cmp_order (ta tb : Str) (i j : Nat) (op : CmpOp) (h : op ≠ .eq ∧ op ≠ .ne) :
    evalCmp op (.enum ta i) (.enum tb j) = .error .typeMismatch := by
  obtain ⟨h1, h2⟩ := h
  cases op <;> simp_all [evalCmp]

/-- a non-negative step: the natural-number remainder -/
theorem enumShift_nat (n i m : Nat) : enumShift n ((i : Int) + (m : Int)) = (i + m) % n := by
  unfold enumShift
  have : ((i : Int) + (m : Int)) % (n : Int) = (((i + m) % n : Nat) : Int) := by
    rw [← Int.natCast_add]; exact (Int.natCast_emod (i + m) n).symm
  rw [this]; rfl

/-! ## enum names: `typeScopeAct`, `getEnumElement` as functions of the state -/

/-- the activation from which `getEnumElement` / `enumDefOf` look names up (the pure content of `typeScopeAct`) -/
def typeScopeOf (σ : St) : Option Act :=
  if (σ.acts.takeWhile (·.isComp)).any (·.typeGlobal) then σ.acts.getLast? else scopeOf σ

/-- the pure content of `getEnumElement` for type-scope activation `a` and global activation `g` -/
def enumElemAt (a g : Act) (v : Str) : Option Val :=
  match enumElemIn a v with
  | some x => some x
  | none => if a.id == g.id then none else enumElemIn g v

theorem run_typeScopeAct_some (σ : St) (a : Act) (h : typeScopeOf σ = some a) : typeScopeAct.run.run σ = (.ok a, σ) := by
  unfold typeScopeAct
  rw [run_bind_ok _ _ _ _ _ (run_get σ)]
  unfold typeScopeOf at h
  by_cases hc : ((σ.acts.takeWhile (·.isComp)).any (·.typeGlobal)) = true
  · simp only [hc, if_true] at h ⊢
    exact run_globalAct_some σ a h
  · simp only [hc, Bool.false_eq_true, if_false] at h ⊢
    exact run_scopeAct_some σ a h

theorem run_getEnumElement (σ : St) (a g : Act) (v : Str) (ha : typeScopeOf σ = some a) (hg : σ.acts.getLast? = some g) :
    (getEnumElement v).run.run σ = (.ok (enumElemAt a g v), σ) := by
  unfold getEnumElement
  rw [run_bind_ok _ _ _ _ _ (run_typeScopeAct_some σ a ha), run_bind_ok _ _ _ _ _ (run_globalAct_some σ g hg)]
  unfold enumElemAt
  cases enumElemIn a v with
  | some x => rfl
  | none =>
    simp only [Bool.not_true, Bool.false_or]
    cases a.id == g.id <;> rfl

theorem typeScopeOf_cur (σ : St) (cur : Act) (rest : List Act) (h : σ.acts = cur :: rest) (hc : cur.isComp = false) :
    typeScopeOf σ = some cur := by
  unfold typeScopeOf
  rw [h]
  simp only [List.takeWhile_cons, hc, Bool.false_eq_true, if_false, List.any_nil]
  exact scopeOf_cur σ cur rest h hc

theorem enumElemAt_self (g : Act) (v : Str) : enumElemAt g g v = enumElemIn g v := by
  unfold enumElemAt
  cases enumElemIn g v <;> simp

theorem enumElemAt_global (a g : Act) (v : Str) (h : enumElemIn a v = none) (hid : a.id ≠ g.id) :
    enumElemAt a g v = enumElemIn g v := by
  have hid' : (a.id == g.id) = false := by simpa using hid
  simp only [enumElemAt, h, hid', Bool.false_eq_true, if_false]

/-- what `enumElemIn` asks of one type definition -/
def elemOf (x : Str) (p : Str × List Str) : Option Val :=
  match p.2.findIdx? (· == x) with
  | some i => some (.enum p.1 i)
  | none => none

theorem enumElemIn_eq (a : Act) (x : Str) : enumElemIn a x = a.enums.findSome? (elemOf x) := rfl

theorem enumElemIn_split (a : Act) (pre post : List (Str × List Str)) (T : Str) (vals : List Str) (x : Str) (i : Nat)
    (h : a.enums = pre ++ (T, vals) :: post) (hpre : ∀ p ∈ pre, x ∉ p.2) (hi : vals.findIdx? (· == x) = some i) :
    enumElemIn a x = some (.enum T i) := by
  rw [enumElemIn_eq, h, List.findSome?_append]
  have hnone : pre.findSome? (elemOf x) = none := by
    rw [List.findSome?_eq_none_iff]
    intro p hp
    have : p.2.findIdx? (· == x) = none := by
      rw [List.findIdx?_eq_none_iff]
      intro y hy
      have := hpre _ hp
      simp only [beq_eq_false_iff_ne, ne_eq]
      intro hyx; subst hyx; exact this hy
    simp only [elemOf, this]
  rw [hnone]
  simp only [List.findSome?_cons, elemOf, hi, Option.none_or]

/-- what `enumElemIn` finds is a name of a type defined in that activation, at its (first) position -/
theorem enumElemIn_sound (a : Act) (x T : Str) (i : Nat) (h : enumElemIn a x = some (.enum T i)) :
    ∃ vals, (T, vals) ∈ a.enums ∧ vals[i]? = some x := by
  rw [enumElemIn_eq] at h
  obtain ⟨p, hp, hf⟩ := List.exists_of_findSome?_eq_some h
  unfold elemOf at hf
  cases hidx : p.2.findIdx? (· == x) with
  | none => rw [hidx] at hf; cases hf
  | some j =>
    rw [hidx] at hf
    simp only [Option.some.injEq, Val.enum.injEq] at hf
    obtain ⟨h1, h2⟩ := hf
    subst h1 h2
    refine ⟨p.2, hp, ?_⟩
    rw [List.findIdx?_eq_some_iff_getElem] at hidx
    obtain ⟨hlt, hx, _⟩ := hidx
    rw [List.getElem?_eq_getElem hlt]
    simpa using hx

end C19ExecL

open ArrayLemmas CallLemmas C19ExecL

/-! ## 1. `e + k`, `k + e`, `e - k`: a cyclic move inside the type, state unchanged -/

/-- **`e + k`**: an enum value at position `i` of a type whose visible definition has `n > 0` names, plus the integer
    `k` (any `k`: no 64-bit wrap): the value of the same type at position `((↑i + k) % ↑n).toNat` (`%` = `Int.emod`) -/
theorem C19_exec_add (σ : St) (t : Tok) (e k : Expr) (T : Str) (i n : Nat) (kv : Int) (f₀ : Nat)
    (hvis : EnumVisible σ T n) (hn : 0 < n)
    (he : PureAt σ f₀ e (.enum T i)) (hk : PureAt σ f₀ k (.int kv)) :
    ∀ f, f₀ + 1 ≤ f →
      (evalExpr f (.arith t .add e k)).run.run σ = (.ok (.enum T (((i : Int) + kv) % (n : Int)).toNat), σ) := by
  intro f hf
  obtain ⟨f', rfl⟩ : ∃ f', f = f' + 1 := ⟨f - 1, by omega⟩
  obtain ⟨a, g, ha, hg, hs⟩ := hvis
  rw [run_arith σ f' t .add e k _ _ a g (he f' (by omega)) (hk f' (by omega)) ha hg,
    (C19_add (sizeIn a g) T i n kv hs hn).1]
  rfl

/-- **`k + e`**: position `((k + ↑i) % ↑n).toNat` -/
theorem C19_exec_add_left (σ : St) (t : Tok) (e k : Expr) (T : Str) (i n : Nat) (kv : Int) (f₀ : Nat)
    (hvis : EnumVisible σ T n) (hn : 0 < n)
    (he : PureAt σ f₀ e (.enum T i)) (hk : PureAt σ f₀ k (.int kv)) :
    ∀ f, f₀ + 1 ≤ f →
      (evalExpr f (.arith t .add k e)).run.run σ = (.ok (.enum T ((kv + (i : Int)) % (n : Int)).toNat), σ) := by
  intro f hf
  obtain ⟨f', rfl⟩ : ∃ f', f = f' + 1 := ⟨f - 1, by omega⟩
  obtain ⟨a, g, ha, hg, hs⟩ := hvis
  rw [run_arith σ f' t .add k e _ _ a g (hk f' (by omega)) (he f' (by omega)) ha hg,
    (C19_add (sizeIn a g) T i n kv hs hn).2.1]
  rfl

/-- **`e - k`**: position `((↑i - k) % ↑n).toNat` -/
theorem C19_exec_sub (σ : St) (t : Tok) (e k : Expr) (T : Str) (i n : Nat) (kv : Int) (f₀ : Nat)
    (hvis : EnumVisible σ T n) (hn : 0 < n)
    (he : PureAt σ f₀ e (.enum T i)) (hk : PureAt σ f₀ k (.int kv)) :
    ∀ f, f₀ + 1 ≤ f →
      (evalExpr f (.arith t .sub e k)).run.run σ = (.ok (.enum T (((i : Int) - kv) % (n : Int)).toNat), σ) := by
  intro f hf
  obtain ⟨f', rfl⟩ : ∃ f', f = f' + 1 := ⟨f - 1, by omega⟩
  obtain ⟨a, g, ha, hg, hs⟩ := hvis
  rw [run_arith σ f' t .sub e k _ _ a g (he f' (by omega)) (hk f' (by omega)) ha hg,
    (C19_add (sizeIn a g) T i n kv hs hn).2.2]
  rfl

/-- model observation: `k - e` is accepted as well — position `((k - ↑i) % ↑n).toNat` -/
theorem C19_exec_int_sub_enum (σ : St) (t : Tok) (e k : Expr) (T : Str) (i n : Nat) (kv : Int) (f₀ : Nat)
    (hvis : EnumVisible σ T n) (hn : 0 < n)
    (he : PureAt σ f₀ e (.enum T i)) (hk : PureAt σ f₀ k (.int kv)) :
    ∀ f, f₀ + 1 ≤ f →
      (evalExpr f (.arith t .sub k e)).run.run σ = (.ok (.enum T ((kv - (i : Int)) % (n : Int)).toNat), σ) := by
  intro f hf
  obtain ⟨f', rfl⟩ : ∃ f', f = f' + 1 := ⟨f - 1, by omega⟩
  obtain ⟨a, g, ha, hg, hs⟩ := hvis
  rw [run_arith σ f' t .sub k e _ _ a g (hk f' (by omega)) (he f' (by omega)) ha hg,
    arith_int_sub_enum (sizeIn a g) T i n kv hs hn]
  rfl

/-- the same three facts as `PureAt` (so that they compose: `e + 1 + 1`, `(e + 2) = e'`, `x <- e + 1` …) -/
theorem C19_exec_add_pure (σ : St) (t : Tok) (e k : Expr) (T : Str) (i n : Nat) (kv : Int) (f₀ : Nat)
    (hvis : EnumVisible σ T n) (hn : 0 < n)
    (he : PureAt σ f₀ e (.enum T i)) (hk : PureAt σ f₀ k (.int kv)) :
    PureAt σ (f₀ + 1) (.arith t .add e k) (.enum T (enumShift n (i + kv))) ∧
    PureAt σ (f₀ + 1) (.arith t .add k e) (.enum T (enumShift n (kv + i))) ∧
    PureAt σ (f₀ + 1) (.arith t .sub e k) (.enum T (enumShift n (i - kv))) :=
  ⟨C19_exec_add σ t e k T i n kv f₀ hvis hn he hk, C19_exec_add_left σ t e k T i n kv f₀ hvis hn he hk,
   C19_exec_sub σ t e k T i n kv f₀ hvis hn he hk⟩

/-- **the result stays inside the type and is the Euclidean remainder**: for `e + k` there is a position `j < n`
    with `↑j = (↑i + k) % ↑n` (in `Int`) that every run yields; for `k ≥ 0` it is the natural-number remainder
    `(i + k) % n` -/
theorem C19_exec_add_cycle (σ : St) (t : Tok) (e k : Expr) (T : Str) (i n : Nat) (kv : Int) (f₀ : Nat)
    (hvis : EnumVisible σ T n) (hn : 0 < n)
    (he : PureAt σ f₀ e (.enum T i)) (hk : PureAt σ f₀ k (.int kv)) :
    ∃ j : Nat, j < n ∧ (j : Int) = ((i : Int) + kv) % (n : Int) ∧ (∀ m : Nat, kv = m → j = (i + m) % n) ∧
      ∀ f, f₀ + 1 ≤ f → (evalExpr f (.arith t .add e k)).run.run σ = (.ok (.enum T j), σ) := by
  refine ⟨enumShift n (i + kv), (C19_cycle n hn _).2, (C19_cycle n hn _).1, ?_,
    C19_exec_add σ t e k T i n kv f₀ hvis hn he hk⟩
  intro m hm
  subst hm
  exact enumShift_nat n i m

/-- … and for `e - k`: `j < n`, `↑j = (↑i - k) % ↑n` -/
theorem C19_exec_sub_cycle (σ : St) (t : Tok) (e k : Expr) (T : Str) (i n : Nat) (kv : Int) (f₀ : Nat)
    (hvis : EnumVisible σ T n) (hn : 0 < n)
    (he : PureAt σ f₀ e (.enum T i)) (hk : PureAt σ f₀ k (.int kv)) :
    ∃ j : Nat, j < n ∧ (j : Int) = ((i : Int) - kv) % (n : Int) ∧
      ∀ f, f₀ + 1 ≤ f → (evalExpr f (.arith t .sub e k)).run.run σ = (.ok (.enum T j), σ) :=
  ⟨enumShift n (i - kv), (C19_cycle n hn _).2, (C19_cycle n hn _).1, C19_exec_sub σ t e k T i n kv f₀ hvis hn he hk⟩

/-- moving `n` steps (or any multiple of `n`, either direction) comes back to the same value -/
theorem C19_exec_full_turn (σ : St) (t : Tok) (e k : Expr) (T : Str) (i n : Nat) (q : Int) (f₀ : Nat)
    (hvis : EnumVisible σ T n) (hi : i < n)
    (he : PureAt σ f₀ e (.enum T i)) (hk : PureAt σ f₀ k (.int (q * n))) :
    ∀ f, f₀ + 1 ≤ f → (evalExpr f (.arith t .add e k)).run.run σ = (.ok (.enum T i), σ) := by
  intro f hf
  rw [C19_exec_add σ t e k T i n (q * n) f₀ hvis (by omega) he hk f hf]
  have : ((i : Int) + q * (n : Int)) % (n : Int) = (i : Int) := by
    rw [Int.add_mul_emod_self_right]
    exact Int.emod_eq_of_lt (by omega) (by omega)
  rw [this]; rfl

/-- no definition of the type is visible from the scope activation (e.g. a value of a procedure's local type that
    outlived the procedure): `notDefined` -/
theorem C19_exec_add_hidden (σ : St) (t : Tok) (e k : Expr) (T : Str) (i : Nat) (kv : Int) (f₀ : Nat)
    (hhid : EnumHidden σ T)
    (he : PureAt σ f₀ e (.enum T i)) (hk : PureAt σ f₀ k (.int kv)) :
    ∀ f, f₀ + 1 ≤ f →
      (evalExpr f (.arith t .add e k)).run.run σ = (.error (.diag (rtDiag σ t.line t.col .notDefined)), σ) ∧
      (evalExpr f (.arith t .add k e)).run.run σ = (.error (.diag (rtDiag σ t.line t.col .notDefined)), σ) ∧
      (evalExpr f (.arith t .sub e k)).run.run σ = (.error (.diag (rtDiag σ t.line t.col .notDefined)), σ) := by
  intro f hf
  obtain ⟨f', rfl⟩ : ∃ f', f = f' + 1 := ⟨f - 1, by omega⟩
  obtain ⟨a, g, ha, hg, hs⟩ := hhid
  have h := arith_undefined (sizeIn a g) T i kv hs
  refine ⟨?_, ?_, ?_⟩
  · rw [run_arith σ f' t .add e k _ _ a g (he f' (by omega)) (hk f' (by omega)) ha hg, h.1]; rfl
  · rw [run_arith σ f' t .add k e _ _ a g (hk f' (by omega)) (he f' (by omega)) ha hg, h.2.1]; rfl
  · rw [run_arith σ f' t .sub e k _ _ a g (he f' (by omega)) (hk f' (by omega)) ha hg, h.2.2]; rfl

/-! ## 2. the other arithmetic on enum values: `typeMismatch`, state unchanged -/

/-- `e op k` for every operator other than `+` and `-` -/
theorem C19_exec_no_other_arith (σ : St) (t : Tok) (op : ArOp) (e k : Expr) (T : Str) (i : Nat) (kv : Int) (f₀ : Nat)
    (hs : HasScope σ) (hop : op ≠ .add ∧ op ≠ .sub)
    (he : PureAt σ f₀ e (.enum T i)) (hk : PureAt σ f₀ k (.int kv)) :
    ∀ f, f₀ + 1 ≤ f →
      (evalExpr f (.arith t op e k)).run.run σ = (.error (.diag (rtDiag σ t.line t.col .typeMismatch)), σ) := by
  intro f hf
  obtain ⟨f', rfl⟩ : ∃ f', f = f' + 1 := ⟨f - 1, by omega⟩
  obtain ⟨a, ha⟩ := hs
  obtain ⟨g, hg⟩ := last_of_scope σ a ha
  rw [run_arith σ f' t op e k _ _ a g (he f' (by omega)) (hk f' (by omega)) ha hg,
    C19_no_other_arith (sizeIn a g) T i kv op hop]
  rfl

/-- **`e * k`, `e / k`, `e DIV k`, `e MOD k`** (whatever `k`, zero included) end in `typeMismatch` at the operator -/
theorem C19_exec_mul_div_mod (σ : St) (t : Tok) (e k : Expr) (T : Str) (i : Nat) (kv : Int) (f₀ : Nat)
    (hs : HasScope σ) (he : PureAt σ f₀ e (.enum T i)) (hk : PureAt σ f₀ k (.int kv)) :
    ∀ f, f₀ + 1 ≤ f → ∀ op ∈ [ArOp.mul, .div, .idiv, .mod],
      (evalExpr f (.arith t op e k)).run.run σ = (.error (.diag (rtDiag σ t.line t.col .typeMismatch)), σ) := by
  intro f hf op hop
  apply C19_exec_no_other_arith σ t op e k T i kv f₀ hs ?_ he hk f hf
  simp only [List.mem_cons, List.mem_nil_iff, or_false] at hop
  rcases hop with rfl | rfl | rfl | rfl <;> exact ⟨by decide, by decide⟩

/-- the same with the integer on the left: `k * e`, `k / e`, `k DIV e`, `k MOD e` -/
theorem C19_exec_no_other_arith_left (σ : St) (t : Tok) (op : ArOp) (e k : Expr) (T : Str) (i : Nat) (kv : Int) (f₀ : Nat)
    (hs : HasScope σ) (hop : op ≠ .add ∧ op ≠ .sub)
    (he : PureAt σ f₀ e (.enum T i)) (hk : PureAt σ f₀ k (.int kv)) :
    ∀ f, f₀ + 1 ≤ f →
      (evalExpr f (.arith t op k e)).run.run σ = (.error (.diag (rtDiag σ t.line t.col .typeMismatch)), σ) := by
  intro f hf
  obtain ⟨f', rfl⟩ : ∃ f', f = f' + 1 := ⟨f - 1, by omega⟩
  obtain ⟨a, ha⟩ := hs
  obtain ⟨g, hg⟩ := last_of_scope σ a ha
  rw [run_arith σ f' t op k e _ _ a g (hk f' (by omega)) (he f' (by omega)) ha hg,
    arith_int_enum_other (sizeIn a g) T i kv op hop]
  rfl

/-- **`e + e'`** — and every other arithmetic operator on two enum values, of one type or of two: `typeMismatch` -/
theorem C19_exec_enum_enum (σ : St) (t : Tok) (op : ArOp) (e e' : Expr) (T T' : Str) (i j : Nat) (f₀ : Nat)
    (hs : HasScope σ) (he : PureAt σ f₀ e (.enum T i)) (he' : PureAt σ f₀ e' (.enum T' j)) :
    ∀ f, f₀ + 1 ≤ f →
      (evalExpr f (.arith t op e e')).run.run σ = (.error (.diag (rtDiag σ t.line t.col .typeMismatch)), σ) := by
  intro f hf
  obtain ⟨f', rfl⟩ : ∃ f', f = f' + 1 := ⟨f - 1, by omega⟩
  obtain ⟨a, ha⟩ := hs
  obtain ⟨g, hg⟩ := last_of_scope σ a ha
  rw [run_arith σ f' t op e e' _ _ a g (he f' (by omega)) (he' f' (by omega)) ha hg,
    arith_enum_enum (sizeIn a g) T T' i j op]
  rfl

/-! ## 3. `=` and `<>` -/

/-- **within one type** the positions are compared -/
theorem C19_exec_eq (σ : St) (t : Tok) (e e' : Expr) (T : Str) (i j : Nat) (f₀ : Nat)
    (he : PureAt σ f₀ e (.enum T i)) (he' : PureAt σ f₀ e' (.enum T j)) :
    ∀ f, f₀ + 1 ≤ f →
      (evalExpr f (.cmp t .eq e e')).run.run σ = (.ok (.bool (i == j)), σ) ∧
      (evalExpr f (.cmp t .ne e e')).run.run σ = (.ok (.bool (!(i == j))), σ) := by
  intro f hf
  obtain ⟨f', rfl⟩ : ∃ f', f = f' + 1 := ⟨f - 1, by omega⟩
  constructor
  · rw [run_cmp σ f' t .eq e e' _ _ (he f' (by omega)) (he' f' (by omega)), (C19_eq T i j).1]; rfl
  · rw [run_cmp σ f' t .ne e e' _ _ (he f' (by omega)) (he' f' (by omega)), (C19_eq T i j).2]; rfl

/-- **across two different types**: `=` is FALSE and `<>` is TRUE, whatever the positions — never an error -/
theorem C19_exec_eq_cross (σ : St) (t : Tok) (e e' : Expr) (T T' : Str) (i j : Nat) (f₀ : Nat) (hne : T ≠ T')
    (he : PureAt σ f₀ e (.enum T i)) (he' : PureAt σ f₀ e' (.enum T' j)) :
    ∀ f, f₀ + 1 ≤ f →
      (evalExpr f (.cmp t .eq e e')).run.run σ = (.ok (.bool false), σ) ∧
      (evalExpr f (.cmp t .ne e e')).run.run σ = (.ok (.bool true), σ) := by
  intro f hf
  obtain ⟨f', rfl⟩ : ∃ f', f = f' + 1 := ⟨f - 1, by omega⟩
  constructor
  · rw [run_cmp σ f' t .eq e e' _ _ (he f' (by omega)) (he' f' (by omega)), C19_eq_cross T T' i j hne]; rfl
  · rw [run_cmp σ f' t .ne e e' _ _ (he f' (by omega)) (he' f' (by omega)), cmp_ne_cross T T' i j hne]; rfl

/-- the order comparisons `<`, `>`, `<=`, `>=` are not defined on enum values: `typeMismatch` -/
theorem C19_exec_order_rejected (σ : St) (t : Tok) (op : CmpOp) (e e' : Expr) (T T' : Str) (i j : Nat) (f₀ : Nat)
    (hop : op ≠ .eq ∧ op ≠ .ne)
    (he : PureAt σ f₀ e (.enum T i)) (he' : PureAt σ f₀ e' (.enum T' j)) :
    ∀ f, f₀ + 1 ≤ f →
      (evalExpr f (.cmp t op e e')).run.run σ = (.error (.diag (rtDiag σ t.line t.col .typeMismatch)), σ) := by
  intro f hf
  obtain ⟨f', rfl⟩ : ∃ f', f = f' + 1 := ⟨f - 1, by omega⟩
  rw [run_cmp σ f' t op e e' _ _ (he f' (by omega)) (he' f' (by omega)), cmp_order T T' i j op hop]
  rfl

/-! ## 4. an enum name is an expression -/

/-- **an enum name evaluates purely to its enum value.**  The identifier `x` (access token `xt`; the parser gives both
    the same text) denotes neither a variable nor an array — seen from the current activation `cur`, then from the
    global one `g` — and `getEnumElement` finds the name as the value `v`: the reference fails with `notDefined`, the
    handler of `evalExpr`'s `.access` case finds the enum name, and the expression evaluates to `v` with every fuel
    `≥ 2`; the state is unchanged. -/
theorem C19_exec_enum_name (σ : St) (cur g : Act) (rest : List Act) (xt x : Tok) (v : Val)
    (h : σ.acts = cur :: rest) (hg : σ.acts.getLast? = some g)
    (hv : lookupVarIn cur g x.val = none) (ha : lookupArrIn cur g x.val = none)
    (hen : (getEnumElement xt.val).run.run σ = (.ok (some v), σ)) :
    PureAt σ 2 (.access xt (.var x)) v := by
  intro f hf
  obtain ⟨f', rfl⟩ : ∃ f', f = f' + 2 := ⟨f - 2, by omega⟩
  have hr := run_resolveRef_undefined σ cur g rest x f' h hg hv ha
  have h2 : (resolveRef (f'+1) (.var x) >>= fun h => (pure (some h) : M (Option Holder))).run.run σ =
      (.error (.diag (rtDiag σ x.line x.col .notDefined)), σ) := run_bind_err _ _ _ _ _ hr
  rw [evalExpr_access]
  unfold catchNotDefined
  rw [run_bind_ok _ _ σ σ none]
  · simp only
    rw [run_bind_ok _ _ _ _ _ hen]
    rfl
  · rw [run_tryCatch_err _ _ _ _ _ h2]
    simp only [rtDiag_kind, rtDiag_msg, beq_self_eq_true, Bool.and_self, if_true]
    rw [run_bind_ok _ _ _ _ _ (run_get σ)]
    simp only [(rtDiag_trace σ cur rest x.line x.col .notDefined h).2, beq_self_eq_true, if_true]
    rw [run_bind_ok _ _ _ _ _ hen]
    rfl

/-- **the same with the lookup spelled out** (`C19ExecL.enumElemAt`, the pure content of `getEnumElement`): the current
    activation is not a record context, and the name is the `i`-th name of enum type `T` — looked up among the enum
    types of the current activation first (`enumElemIn cur`), then, when `cur` is not the global activation, among the
    global ones.  `C19ExecL.enumElemAt_self` / `enumElemAt_global` reduce it to `enumElemIn g`, `enumElemIn_split`
    computes that from the list of definitions, `enumElemIn_sound` says that `vals[i] = x` for a definition `(T, vals)`. -/
theorem C19_exec_enum_name_at (σ : St) (cur g : Act) (rest : List Act) (xt x : Tok) (T : Str) (i : Nat)
    (h : σ.acts = cur :: rest) (hg : σ.acts.getLast? = some g) (hc : cur.isComp = false)
    (hv : lookupVarIn cur g x.val = none) (ha : lookupArrIn cur g x.val = none)
    (hen : enumElemAt cur g xt.val = some (.enum T i)) :
    PureAt σ 2 (.access xt (.var x)) (.enum T i) := by
  apply C19_exec_enum_name σ cur g rest xt x _ h hg hv ha
  rw [run_getEnumElement σ cur g xt.val (typeScopeOf_cur σ cur rest h hc) hg, hen]

/-! ## 5. a value of another enum type is not stored -/

/-- **`x <- rhs` with `x` a variable of declared type `.enum T` (`Ty.enum`, the slot's `ty`; `x` may be a BYREF formal:
    `holderOf`), not a constant, and `rhs` a pure expression whose value is of enum type `T' ≠ T`**: the runtime
    diagnostic `typeMismatch` at the assignment token; the state — hence the variable — is unchanged. -/
theorem C19_exec_assign_cross_type (σ : St) (cur g : Act) (rest : List Act) (t x : Tok) (rhs : Expr) (a : Act) (s : Slot)
    (T T' : Str) (j : Nat) (f₀ : Nat)
    (h : σ.acts = cur :: rest) (hg : σ.acts.getLast? = some g) (hl : lookupVarIn cur g x.val = some (a, s))
    (hty : s.ty = .enum T) (hne : T ≠ T') (hconst : locConstP σ (holderOf a s).loc = false)
    (hrhs : PureAt σ f₀ rhs (.enum T' j)) :
    ∀ f, f₀ + 1 ≤ f →
      (execAssign f t (.var x) rhs).run.run σ = (.error (.diag (rtDiag σ t.line t.col .typeMismatch)), σ) := by
  intro f hf
  have hpos := pureAt_pos hrhs
  obtain ⟨f', rfl⟩ : ∃ f', f = f' + 2 := ⟨f - 2, by omega⟩
  have hacts : σ.acts ≠ [] := by rw [h]; exact List.cons_ne_nil _ _
  rw [run_execAssign_resolved σ t (.var x) rhs (.enum T' j) (holderOf a s) (f'+1) hacts (hrhs (f'+1) (by omega))
    (run_resolveRef_var σ cur g rest x f' a s h hg hl) (holderOf_isArr a s) hconst]
  have hc : ((implicitCast (holderOf a s).ty (.enum T' j)).ty != (holderOf a s).ty) = true := by
    rw [holderOf_ty, hty]
    have := C19_cross_type T' T j (Ne.symm hne)
    unfold storeCompatible at this
    rw [bne, this]; rfl
  rw [if_pos hc]
  exact run_rtErr t .typeMismatch σ

/-- the expression form `x <- rhs` (an assignment is an expression of the model) -/
theorem C19_exec_assign_expr_cross_type (σ : St) (cur g : Act) (rest : List Act) (t x : Tok) (rhs : Expr) (a : Act) (s : Slot)
    (T T' : Str) (j : Nat) (f₀ : Nat)
    (h : σ.acts = cur :: rest) (hg : σ.acts.getLast? = some g) (hl : lookupVarIn cur g x.val = some (a, s))
    (hty : s.ty = .enum T) (hne : T ≠ T') (hconst : locConstP σ (holderOf a s).loc = false)
    (hrhs : PureAt σ f₀ rhs (.enum T' j)) :
    ∀ f, f₀ + 2 ≤ f →
      (evalExpr f (.assign t (.var x) rhs)).run.run σ = (.error (.diag (rtDiag σ t.line t.col .typeMismatch)), σ) := by
  intro f hf
  obtain ⟨f', rfl⟩ : ∃ f', f = f' + 1 := ⟨f - 1, by omega⟩
  rw [evalExpr_assign]
  exact run_bind_err _ _ _ _ _
    (C19_exec_assign_cross_type σ cur g rest t x rhs a s T T' j f₀ h hg hl hty hne hconst hrhs f' (by omega))

/-- **the statement `x <- rhs`**: one step is counted (`tickSt`), then the `typeMismatch` diagnostic; no stored value
    changes (`readLocP` of every location is what it was), in particular `x` keeps its value -/
theorem C19_exec_assign_stmt_cross_type (σ : St) (cur g : Act) (rest : List Act) (t x : Tok) (rhs : Expr) (a : Act) (s : Slot)
    (T T' : Str) (j : Nat) (f₀ : Nat) (hsteps : σ.steps + 1 ≤ σ.stepLimit)
    (h : σ.acts = cur :: rest) (hg : σ.acts.getLast? = some g) (hl : lookupVarIn cur g x.val = some (a, s))
    (hty : s.ty = .enum T) (hne : T ≠ T') (hconst : locConstP σ (holderOf a s).loc = false)
    (hrhs : PureAt (tickSt σ) f₀ rhs (.enum T' j)) :
    ∀ f, f₀ + 3 ≤ f →
      (execStmt f (.expr (.assign t (.var x) rhs))).run.run σ =
        (.error (.diag (rtDiag σ t.line t.col .typeMismatch)), tickSt σ) ∧
      (tickSt σ).acts = σ.acts ∧ ∀ l, readLocP (tickSt σ) l = readLocP σ l := by
  intro f hf
  obtain ⟨f', rfl⟩ : ∃ f', f = f' + 2 := ⟨f - 2, by omega⟩
  refine ⟨?_, rfl, fun l => readLocP_tickSt σ l⟩
  rw [run_execStmt_assign σ t (.var x) rhs f' hsteps,
    C19_exec_assign_cross_type (tickSt σ) cur g rest t x rhs a s T T' j f₀ h hg hl hty hne hconst hrhs f' (by omega)]
  rfl

/-- for contrast: a value of the variable's own enum type is stored (the variable then reads it) -/
theorem C19_exec_assign_same_type (σ : St) (cur g : Act) (rest : List Act) (t x : Tok) (rhs : Expr) (a : Act) (s : Slot)
    (T : Str) (j : Nat) (old : Val) (f₀ : Nat)
    (h : σ.acts = cur :: rest) (hg : σ.acts.getLast? = some g) (hl : lookupVarIn cur g x.val = some (a, s))
    (hty : s.ty = .enum T) (hconst : locConstP σ (holderOf a s).loc = false)
    (hold : readLocP σ (holderOf a s).loc = .ok old) (hk : old.isArr = false)
    (hrhs : PureAt σ f₀ rhs (.enum T j)) :
    ∀ f, f₀ + 1 ≤ f → ∃ σ', (execAssign f t (.var x) rhs).run.run σ = (.ok ⟨⟩, σ') ∧
      readLocP σ' (holderOf a s).loc = .ok (.enum T j) := by
  intro f hf
  have hpos := pureAt_pos hrhs
  obtain ⟨f', rfl⟩ : ∃ f', f = f' + 2 := ⟨f - 2, by omega⟩
  have hacts : σ.acts ≠ [] := by rw [h]; exact List.cons_ne_nil _ _
  rw [run_execAssign_resolved σ t (.var x) rhs (.enum T j) (holderOf a s) (f'+1) hacts (hrhs (f'+1) (by omega))
    (run_resolveRef_var σ cur g rest x f' a s h hg hl) (holderOf_isArr a s) hconst]
  have hc : ((implicitCast (holderOf a s).ty (.enum T j)).ty != (holderOf a s).ty) = false := by
    rw [holderOf_ty, hty]
    have := C19_same_type T j
    unfold storeCompatible at this
    rw [bne, this]; rfl
  rw [hc]
  simp only [Bool.false_eq_true, if_false]
  have hcast : implicitCast (holderOf a s).ty (.enum T j) = .enum T j := by
    rw [holderOf_ty, hty]; rfl
  rw [hcast]
  obtain ⟨F, _, hw, hr, _⟩ := run_writeLoc_ok t (holderOf a s).loc (.enum T j) old σ hold hconst hk
  exact ⟨_, hw, hr⟩

/-! ## non-vacuity -/
namespace C19Ex

def tk (s : String) (l : Nat := 1) (c : Nat := 1) : Tok := { k := .IDENTIFIER, line := l, col := c, val := s.toList }
def lit (k : Int) : Expr := .intLit (tk "lit") k
def var (s : String) : Expr := .access (tk s) (.var (tk s))
def colour : Str := "Colour".toList
def size : Str := "Size".toList

/-- `c = Blue` (position 2 of `Colour`), `s = Large` (position 1 of `Size`) -/
def slotC : Slot := { name := "c".toList, ty := .enum colour, val := .enum colour 2 }
def slotS : Slot := { name := "s".toList, ty := .enum size, val := .enum size 1 }
def glob : Act :=
  { id := 0, name := "Program".toList, vars := [slotC, slotS],
    enums := [(colour, ["Red".toList, "Green".toList, "Blue".toList]), (size, ["Small".toList, "Large".toList])] }
def exSt : St := { acts := [glob] }
def plus : Tok := tk "+" 3 7

theorem visC : EnumVisible exSt colour 3 := enumVisible_single exSt glob colour colour _ rfl rfl rfl
theorem scopeEx : HasScope exSt := visC.hasScope
theorem pureC : PureAt exSt 2 (var "c") (.enum colour 2) :=
  pureAt_var exSt glob glob [] (tk "c") (tk "c") glob slotC _ rfl rfl rfl rfl
theorem pureS : PureAt exSt 2 (var "s") (.enum size 1) :=
  pureAt_var exSt glob glob [] (tk "s") (tk "s") glob slotS _ rfl rfl rfl rfl
theorem pureLit (k : Int) : PureAt exSt 2 (lit k) (.int k) := (pureAt_intLit _ _ k).mono (by decide)

/-- the names `Red` and `Large` are expressions (4) -/
theorem pureRed : PureAt exSt 2 (var "Red") (.enum colour 0) :=
  C19_exec_enum_name_at exSt glob glob [] (tk "Red") (tk "Red") colour 0 rfl rfl rfl rfl rfl rfl
theorem pureLarge : PureAt exSt 2 (var "Large") (.enum size 1) :=
  C19_exec_enum_name_at exSt glob glob [] (tk "Large") (tk "Large") size 1 rfl rfl rfl rfl rfl
    (enumElemIn_split glob [(colour, ["Red".toList, "Green".toList, "Blue".toList])] [] size _ "Large".toList 1 rfl
      (by decide) (by decide))
example : enumElemIn glob "Blue".toList = some (.enum colour 2) ∧ enumElemIn glob "Pink".toList = none := ⟨rfl, rfl⟩

/-- `c + 4` wraps: Blue + 4 = Red -/
example : (evalExpr 5 (.arith plus .add (var "c") (lit 4))).run.run exSt = (.ok (.enum colour 0), exSt) :=
  C19_exec_add exSt plus (var "c") (lit 4) colour 2 3 4 2 visC (by decide) pureC (pureLit 4) 5 (by decide)
/-- negative `k`: Blue + (-7) = Green, Blue - 7 = Green, Red - 1 = Blue -/
example : (evalExpr 5 (.arith plus .add (var "c") (lit (-7)))).run.run exSt = (.ok (.enum colour 1), exSt) :=
  C19_exec_add exSt plus (var "c") (lit (-7)) colour 2 3 (-7) 2 visC (by decide) pureC (pureLit (-7)) 5 (by decide)
example : (evalExpr 5 (.arith plus .sub (var "c") (lit 7))).run.run exSt = (.ok (.enum colour 1), exSt) :=
  C19_exec_sub exSt plus (var "c") (lit 7) colour 2 3 7 2 visC (by decide) pureC (pureLit 7) 5 (by decide)
example : (evalExpr 5 (.arith plus .sub (var "Red") (lit 1))).run.run exSt = (.ok (.enum colour 2), exSt) :=
  C19_exec_sub exSt plus (var "Red") (lit 1) colour 0 3 1 2 visC (by decide) pureRed (pureLit 1) 5 (by decide)
/-- `1 + c` -/
example : (evalExpr 5 (.arith plus .add (lit 1) (var "c"))).run.run exSt = (.ok (.enum colour 0), exSt) :=
  C19_exec_add_left exSt plus (var "c") (lit 1) colour 2 3 1 2 visC (by decide) pureC (pureLit 1) 5 (by decide)
/-- no 64-bit wrap: Blue + (2^63 - 1) = Red; had the sum been wrapped to 64 bits first it would be Blue -/
example : (evalExpr 5 (.arith plus .add (var "c") (lit 9223372036854775807))).run.run exSt = (.ok (.enum colour 0), exSt) :=
  C19_exec_add exSt plus (var "c") (lit 9223372036854775807) colour 2 3 9223372036854775807 2 visC (by decide) pureC
    (pureLit _) 5 (by decide)
example : enumShift 3 (2 + 9223372036854775807) = 0 ∧ enumShift 3 (wrap64 (2 + 9223372036854775807)) = 2 := by decide
/-- composition: `(c + 4) - 1` = Blue -/
example : (evalExpr 6 (.arith plus .sub (.arith plus .add (var "c") (lit 4)) (lit 1))).run.run exSt = (.ok (.enum colour 2), exSt) :=
  C19_exec_sub exSt plus _ (lit 1) colour 0 3 1 3 visC (by decide)
    (C19_exec_add_pure exSt plus (var "c") (lit 4) colour 2 3 4 2 visC (by decide) pureC (pureLit 4)).1
    ((pureLit 1).mono (by decide)) 6 (by decide)
/-- the same by running the model -/
example : ((evalExpr 5 (.arith plus .add (var "c") (lit 4))).run.run exSt).1 = .ok (.enum colour 0) ∧
    ((evalExpr 5 (.arith plus .add (var "c") (lit (-7)))).run.run exSt).1 = .ok (.enum colour 1) ∧
    ((evalExpr 5 (var "Red")).run.run exSt).1 = .ok (.enum colour 0) := ⟨rfl, rfl, rfl⟩

/-- (2) `c * 2`, `c / 0`, `c DIV 2`, `c MOD 2`, `c + c`, `c + s`: `typeMismatch` at the operator (line 3, column 7) -/
example : ∀ op ∈ [ArOp.mul, .div, .idiv, .mod],
    (evalExpr 5 (.arith plus op (var "c") (lit 0))).run.run exSt = (.error (.diag (rtDiag exSt 3 7 .typeMismatch)), exSt) :=
  C19_exec_mul_div_mod exSt plus (var "c") (lit 0) colour 2 0 2 scopeEx pureC (pureLit 0) 5 (by decide)
example : (evalExpr 5 (.arith plus .add (var "c") (var "c"))).run.run exSt = (.error (.diag (rtDiag exSt 3 7 .typeMismatch)), exSt) :=
  C19_exec_enum_enum exSt plus .add (var "c") (var "c") colour colour 2 2 2 scopeEx pureC pureC 5 (by decide)
example : (evalExpr 5 (.arith plus .add (var "c") (var "s"))).run.run exSt = (.error (.diag (rtDiag exSt 3 7 .typeMismatch)), exSt) :=
  C19_exec_enum_enum exSt plus .add (var "c") (var "s") colour size 2 1 2 scopeEx pureC pureS 5 (by decide)
example : (rtDiag exSt 3 7 .typeMismatch) =
    { kind := .runtime, line := 3, col := 7, msg := .typeMismatch, trace := [{ name := "Program".toList, line := 3, col := 7 }] } := rfl

/-- (3) `c = Red` is FALSE, `c <> Red` TRUE, `c = c` TRUE; across types `c = s`, `Red = Large`: FALSE / TRUE -/
example : (evalExpr 5 (.cmp plus .eq (var "c") (var "Red"))).run.run exSt = (.ok (.bool false), exSt) ∧
    (evalExpr 5 (.cmp plus .ne (var "c") (var "Red"))).run.run exSt = (.ok (.bool true), exSt) :=
  C19_exec_eq exSt plus (var "c") (var "Red") colour 2 0 2 pureC pureRed 5 (by decide)
example : (evalExpr 5 (.cmp plus .eq (var "c") (var "c"))).run.run exSt = (.ok (.bool true), exSt) :=
  (C19_exec_eq exSt plus (var "c") (var "c") colour 2 2 2 pureC pureC 5 (by decide)).1
example : (evalExpr 5 (.cmp plus .eq (var "c") (var "s"))).run.run exSt = (.ok (.bool false), exSt) ∧
    (evalExpr 5 (.cmp plus .ne (var "c") (var "s"))).run.run exSt = (.ok (.bool true), exSt) :=
  C19_exec_eq_cross exSt plus (var "c") (var "s") colour size 2 1 2 (by decide) pureC pureS 5 (by decide)
/-- same position, different types: still FALSE -/
example : (evalExpr 5 (.cmp plus .eq (.arith plus .add (var "Red") (lit 1)) (var "Large"))).run.run exSt = (.ok (.bool false), exSt) :=
  (C19_exec_eq_cross exSt plus _ (var "Large") colour size 1 1 3 (by decide)
    (C19_exec_add_pure exSt plus (var "Red") (lit 1) colour 0 3 1 2 visC (by decide) pureRed (pureLit 1)).1
    (pureLarge.mono (by decide)) 5 (by decide)).1
example : (evalExpr 5 (.cmp plus .lt (var "c") (var "Red"))).run.run exSt = (.error (.diag (rtDiag exSt 3 7 .typeMismatch)), exSt) :=
  C19_exec_order_rejected exSt plus .lt (var "c") (var "Red") colour colour 2 0 2 (by decide) pureC pureRed 5 (by decide)

/-- (5) `c <- Large` is refused, `c` still reads Blue; `c <- Red` is stored -/
def locC : Loc := ⟨0, false, "c".toList, []⟩
example : (execAssign 5 (tk "<-" 4 3) (.var (tk "c")) (var "Large")).run.run exSt = (.error (.diag (rtDiag exSt 4 3 .typeMismatch)), exSt) :=
  C19_exec_assign_cross_type exSt glob glob [] (tk "<-" 4 3) (tk "c") (var "Large") glob slotC colour size 1 2 rfl rfl rfl rfl
    (by decide) rfl pureLarge 5 (by decide)
example : (execStmt 6 (.expr (.assign (tk "<-" 4 3) (.var (tk "c")) (var "Large")))).run.run exSt =
      (.error (.diag (rtDiag exSt 4 3 .typeMismatch)), tickSt exSt) ∧ readLocP (tickSt exSt) locC = .ok (.enum colour 2) := by
  obtain ⟨h1, _, h3⟩ := C19_exec_assign_stmt_cross_type exSt glob glob [] (tk "<-" 4 3) (tk "c") (var "Large") glob slotC colour size 1 2
    (by decide) rfl rfl rfl rfl (by decide) rfl
    (C19_exec_enum_name_at (tickSt exSt) glob glob [] (tk "Large") (tk "Large") size 1 rfl rfl rfl rfl rfl
      (enumElemIn_split glob [(colour, ["Red".toList, "Green".toList, "Blue".toList])] [] size _ "Large".toList 1 rfl
        (by decide) (by decide))) 6 (by decide)
  exact ⟨h1, by rw [h3]; rfl⟩
example : ∃ σ', (execAssign 5 (tk "<-" 4 3) (.var (tk "c")) (var "Red")).run.run exSt = (.ok ⟨⟩, σ') ∧ readLocP σ' locC = .ok (.enum colour 0) :=
  C19_exec_assign_same_type exSt glob glob [] (tk "<-" 4 3) (tk "c") (var "Red") glob slotC colour 0 (.enum colour 2) 2 rfl rfl rfl rfl
    rfl rfl rfl pureRed 5 (by decide)
/-- the same by running the model -/
example : readLocP ((execAssign 5 (tk "<-" 4 3) (.var (tk "c")) (var "Large")).run.run exSt).2 locC = .ok (.enum colour 2) ∧
    readLocP ((execAssign 5 (tk "<-" 4 3) (.var (tk "c")) (var "Red")).run.run exSt).2 locC = .ok (.enum colour 0) := ⟨rfl, rfl⟩

/-- the hypothesis `locConstP … = false` of (5) is needed for the message only: on a constant of type `Colour` the
    refusal is `constAssign` (the constant check comes before the type check); nothing is stored either way -/
def constSt : St := { acts := [{ glob with vars := [{ slotC with isConst := true }, slotS] }] }
example : ((execAssign 5 (tk "<-" 4 3) (.var (tk "c")) (var "Large")).run.run constSt).1 =
    .error (.diag (rtDiag constSt 4 3 .constAssign)) ∧
    readLocP ((execAssign 5 (tk "<-" 4 3) (.var (tk "c")) (var "Large")).run.run constSt).2 locC = .ok (.enum colour 2) := ⟨rfl, rfl⟩

/-! ### inside a procedure: the scope activation is the callee, the definition is the global one -/
def inProc : St := { acts := [{ id := 1, name := "P".toList }, glob], nextId := 2 }
theorem visP : EnumVisible inProc colour 3 :=
  enumVisible_global inProc [{ id := 1, name := "P".toList }] glob colour colour _ rfl rfl rfl
    (by intro a ha; simp only [List.mem_singleton] at ha; subst ha; exact ⟨by decide, rfl⟩)
example : (evalExpr 5 (.arith plus .add (var "c") (lit 4))).run.run inProc = (.ok (.enum colour 0), inProc) :=
  C19_exec_add inProc plus (var "c") (lit 4) colour 2 3 4 2 visP (by decide)
    (pureAt_var inProc _ glob [glob] (tk "c") (tk "c") glob slotC _ rfl rfl rfl rfl) ((pureAt_intLit _ _ 4).mono (by decide))
    5 (by decide)
/-- "visible" is the scope activation's definition first (hand-made state: a callee with its own two-name `Colour`;
    the interpreter itself refuses such a redefinition, see `redeclared` below): the global `c` = position 2 moves
    modulo 2 there -/
def shadow : St := { acts := [{ id := 1, name := "P".toList, enums := [(colour, ["Cyan".toList, "Magenta".toList])] }, glob], nextId := 2 }
example : EnumVisible shadow colour 2 := ⟨_, glob, rfl, rfl, rfl⟩
example : ((evalExpr 5 (.arith plus .add (var "c") (lit 1))).run.run shadow).1 = .ok (.enum colour 1) := rfl
/-- a value whose type has no visible definition: `notDefined` -/
def ghost : St := { acts := [{ glob with enums := [] }] }
example : (evalExpr 5 (.arith plus .add (var "c") (lit 1))).run.run ghost = (.error (.diag (rtDiag ghost 3 7 .notDefined)), ghost) :=
  (C19_exec_add_hidden ghost plus (var "c") (lit 1) colour 2 1 2 ⟨_, _, rfl, rfl, rfl⟩
    (pureAt_var ghost _ _ [] (tk "c") (tk "c") _ slotC _ rfl rfl rfl rfl) ((pureAt_intLit _ _ 1).mono (by decide)) 5 (by decide)).1

/-! ### whole programs through lexer, parser and evaluator -/
def decls : String := "TYPE Colour = (Red, Green, Blue)\nTYPE Size = (Small, Large)\nDECLARE c : Colour\nc <- Blue\n"
example : (runFile {} (decls ++ "OUTPUT c + 4\nOUTPUT c - 7\nOUTPUT Red + 9223372036854775807\n").toList [] []).out =
    "Red\nGreen\nGreen\n".toList := by decide +kernel
example : (runFile {} (decls ++ "OUTPUT c = Blue\nOUTPUT Red = Small\nOUTPUT Red <> Small\n").toList [] []).out =
    "TRUE\nFALSE\nTRUE\n".toList := by decide +kernel
example : (runFile {} (decls ++ "c <- 1 + c\nOUTPUT c\nOUTPUT 1 - c\n").toList [] []).out = "Red\nGreen\n".toList := by decide +kernel
example : (runFile {} (decls ++ "OUTPUT c * 2\n").toList [] []).diags.map (fun d => (d.msg, d.line, d.col)) = [(.typeMismatch, 5, 10)] := by
  decide +kernel
example : (runFile {} (decls ++ "OUTPUT c / 0\n").toList [] []).diags.map (·.msg) = [.typeMismatch] := by decide +kernel
example : (runFile {} (decls ++ "OUTPUT c + c\n").toList [] []).diags.map (·.msg) = [.typeMismatch] := by decide +kernel
/-- the refused assignment ends the program: `OUTPUT c` is not reached (the only output is the newline of the report) -/
example : (fun r : RunResult => (r.diags.map (fun d => (d.msg, d.line)), r.out))
      (runFile {} (decls ++ "c <- Small\nOUTPUT c\n").toList [] []) = ([(.typeMismatch, 5)], ['\n']) := by decide +kernel
/-- a procedure cannot redefine a global type name -/
example : (runFile {} (decls ++ "PROCEDURE P()\nTYPE Colour = (Cyan, Magenta)\nENDPROCEDURE\nCALL P()\n").toList [] []).diags.map (·.msg) =
    [.redeclared] := by decide +kernel

end C19Ex
end Pseudo
