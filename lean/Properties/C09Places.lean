import PseudoProofs.PtrPlaces
/-!
# C09 for pointers to places at any depth, held in places at any depth and used from any activation

`Properties/C09Exec.lean` proves the clauses of C09 with the restrictions "the pointer is a plain variable of the current /
global activation, the target is `x`, `a[i]` or `r.m` (one level)".  Here both restrictions are removed:

* a **place** is any reference `ref` with `ArrayFieldLemmas.RefAt σ f₀ ref h v` — it resolves, with every fuel `≥ f₀` and without
  changing the state, to the holder `h`, whose location reads `v`.  `RefAt` is closed under `.field` (`RefAt.field`), `.index`
  (`RefAt.index`, `RefAt.of_elem`), `^` (`PtrPlaces.RefAt.deref`) and contains plain variables (`RefAt.of_hasVar`), whole arrays
  (`RefAt.of_hasArray`) and every NAME that resolves anywhere on the stack (`PtrPlaces.RefAt.of_tgt` from `ReadLoop2.Tgt`:
  current activation, global activation, BYREF formal — then the location is the caller's).  So the places are
  `x`, `r.s.a[2]`, `arr[1].f`, `p^`, `p^.f`, a BYREF formal, a global seen from a callee at any depth, ….
* the **pointer** is held in any place `pr` (non-array holder `ph`), the **target** is any place.

1. `C09_places_ptr_assign` (`_ok`, `_mismatch`): `pr <- ^ref`.
2. `C09_places_deref_read`, `C09_places_deref_write` (`_mismatch`), `C09_places_deref_unset`.
3. `C09_places_copy_aliases`, `C09_places_alias_sees_write`: `q <- p`, then `q^` and `p^` are the same location.
4. `C09_places_from_callee_name`: in ANY state (any activation depth) a pointer reached through a name (global variable,
   local BYVAL cell, BYREF formal) dereferences to the location it holds while that location is readable.
   `C09_places_from_callee_byval` (a pointer passed BYVAL: any body, call from any depth: in the state in which the body
   starts the formal holds the same location, still readable), `C09_places_from_callee_global` (a global pointer seen from
   the state in which any callee starts).
5. `C09_places_dead_general` (`_fun`, `C09_places_created_not_live`, `C09_places_dead_stays_dead`): ANY call (any body):
   afterwards a pointer — held in any place — to a location whose activation is not one of the caller's stack is dead.
-/
namespace Pseudo
open ArrayLemmas C07Copy CallLemmas RecordLemmas C09ExecL ArrayFieldLemmas PtrPlaces

/-! ## 1. `pr <- ^ref` -/

/-- **`pr <- ^ref` for any two places.**  `pr` resolves without effect to the non-array holder `ph` of the pointer type `pn`
    (`hpty`), currently holding a pointer value, its root cell not a constant (`hpc`; needed: the write is refused otherwise);
    `ref` resolves without effect to the NON-ARRAY holder `vh` (`hvarr`; a whole array has no address in this language);
    `pn` is visible and defined as "pointer to `T`" (`hdef`).  The statement is accepted iff `T` is EXACTLY `vh.ty`:
    then it ends normally with NONE, the state is the old one with the root cell of `ph.loc` holding `root'` = the old root
    value with `.ptr pn (some vh.loc)` at the path of `ph.loc`; in that state `ph.loc` reads `.ptr pn (some vh.loc)`, every
    location with another root reads as before, the live activations are the same.  Otherwise: `typeMismatch` at the
    assignment token, state unchanged. -/
theorem C09_places_ptr_assign (σ : St) (t : Tok) (pr ref : Ref) (ph vh : Holder) (pn : Str) (T : Ty) (old : Option Loc)
    (tv : Val) (fp fv f : Nat)
    (hp : RefAt σ fp pr ph (.ptr pn old)) (hparr : ph.isArr = false) (hpty : ph.ty = .ptr pn)
    (hpc : locConstP σ ph.loc = false)
    (hv : RefAt σ fv ref vh tv) (hvarr : vh.isArr = false) (hdef : PtrDef σ pn T) (hf : max fp fv + 1 ≤ f) :
    ∃ root root', readLocP σ (rootOf ph.loc) = .ok root ∧ getPath root ph.loc.path = some (.ptr pn old) ∧
      setPath root ph.loc.path (.ptr pn (some vh.loc)) = some root' ∧
      (evalExpr f (.ptrAssign t pr ref)).run.run σ =
        (if T = vh.ty then (.ok .none, updSt σ ph.loc.act (writeF (rootOf ph.loc) root'))
         else (.error (.diag (rtDiag σ t.line t.col .typeMismatch)), σ)) ∧
      readLocP (updSt σ ph.loc.act (writeF (rootOf ph.loc) root')) ph.loc = .ok (.ptr pn (some vh.loc)) ∧
      (∀ l', DiffRoot ph.loc l' →
        readLocP (updSt σ ph.loc.act (writeF (rootOf ph.loc) root')) l' = readLocP σ l') ∧
      (∀ k, (updSt σ ph.loc.act (writeF (rootOf ph.loc) root')).acts.any (·.id == k) = σ.acts.any (·.id == k)) := by
  obtain ⟨root, root', h1, h2, h3, h4⟩ :=
    run_ptrAssign_ref σ t pr ref ph vh pn T old tv fp fv f hp hparr hpty hpc hv hvarr hdef hf
  obtain ⟨root₂, root₂', g1, _, g3, g4, _⟩ :=
    run_writeLoc_at σ t ph.loc (.ptr pn old) (.ptr pn (some vh.loc)) hp.reads hpc rfl
  have e1 : root₂ = root := by rw [h1] at g1; injection g1 with g1; exact g1.symm
  subst e1
  have e2 : root₂' = root' := by rw [h3] at g3; injection g3 with g3; exact g3.symm
  subst e2
  obtain ⟨r1, r2, r3⟩ := reads_after_write σ ph.loc root₂ root₂' _ h1 g4
  exact ⟨root₂, root₂', h1, h2, h3, h4, r1, r2, r3⟩

/-- … the target's type is exactly the pointed-to type: accepted, the pointer place holds the target's LOCATION -/
theorem C09_places_ptr_assign_ok (σ : St) (t : Tok) (pr ref : Ref) (ph vh : Holder) (pn : Str) (old : Option Loc)
    (tv : Val) (fp fv f : Nat)
    (hp : RefAt σ fp pr ph (.ptr pn old)) (hparr : ph.isArr = false) (hpty : ph.ty = .ptr pn)
    (hpc : locConstP σ ph.loc = false)
    (hv : RefAt σ fv ref vh tv) (hvarr : vh.isArr = false) (hdef : PtrDef σ pn vh.ty) (hf : max fp fv + 1 ≤ f) :
    ∃ σ', (evalExpr f (.ptrAssign t pr ref)).run.run σ = (.ok .none, σ') ∧
      readLocP σ' ph.loc = .ok (.ptr pn (some vh.loc)) ∧
      (∀ l', DiffRoot ph.loc l' → readLocP σ' l' = readLocP σ l') ∧
      (∀ k, σ'.acts.any (·.id == k) = σ.acts.any (·.id == k)) := by
  obtain ⟨root, root', _, _, _, h4, h5, h6, h7⟩ :=
    C09_places_ptr_assign σ t pr ref ph vh pn vh.ty old tv fp fv f hp hparr hpty hpc hv hvarr hdef hf
  rw [if_pos rfl] at h4
  exact ⟨_, h4, h5, h6, h7⟩

/-- … another type: `typeMismatch` at the assignment token, state unchanged -/
theorem C09_places_ptr_assign_mismatch (σ : St) (t : Tok) (pr ref : Ref) (ph vh : Holder) (pn : Str) (T : Ty)
    (old : Option Loc) (tv : Val) (fp fv f : Nat)
    (hp : RefAt σ fp pr ph (.ptr pn old)) (hparr : ph.isArr = false) (hpty : ph.ty = .ptr pn)
    (hpc : locConstP σ ph.loc = false)
    (hv : RefAt σ fv ref vh tv) (hvarr : vh.isArr = false) (hdef : PtrDef σ pn T) (hf : max fp fv + 1 ≤ f)
    (hne : T ≠ vh.ty) :
    (evalExpr f (.ptrAssign t pr ref)).run.run σ = (.error (.diag (rtDiag σ t.line t.col .typeMismatch)), σ) := by
  obtain ⟨root, root', _, _, _, h4, _⟩ :=
    C09_places_ptr_assign σ t pr ref ph vh pn T old tv fp fv f hp hparr hpty hpc hv hvarr hdef hf
  rw [if_neg hne] at h4
  exact h4

/-! ## 2. `pr^` -/

/-- **`pr^` reads what the target location reads NOW**, for a pointer held in any place `pr` and a target location `l` at any
    depth: `pr` resolves without effect to a non-array holder reading `.ptr pn (some l)`; `l` is readable (value `v`; its
    activation is therefore live).  The expression `pr^` evaluates to `v`, state unchanged; and `pr^` is again a place
    (`RefAt`), at the location `l` itself — so `pr^.f`, `pr^[i]` are places below `l`. -/
theorem C09_places_deref_read (σ : St) (at' t : Tok) (pr : Ref) (ph : Holder) (pn : Str) (l : Loc) (v : Val) (fp f : Nat)
    (hp : RefAt σ fp pr ph (.ptr pn (some l))) (harr : ph.isArr = false) (hv : readLocP σ l = .ok v) (hf : fp + 2 ≤ f) :
    (evalExpr f (.access at' (.deref t pr))).run.run σ = (.ok v, σ) ∧
    RefAt σ (fp+1) (.deref t pr) (derefHolder l v) v ∧ (derefHolder l v).loc = l := by
  obtain ⟨f', rfl⟩ : ∃ f', f = f' + 2 := ⟨f - 2, by omega⟩
  refine ⟨?_, RefAt.deref t hp harr hv, rfl⟩
  rw [run_evalExpr_access_resolved σ at' _ (derefHolder l v) (f'+1) (run_deref_ref σ t pr ph pn l v fp f' hp harr hv (by omega)) rfl]
  exact congrArg (·, σ) hv

/-- **`pr^ <- rhs` is exactly one write at the target location `l`** (any depth).  `pr` a place holding `.ptr pn (some l)`;
    `l` reads `old`, the root cell of `l` is not a constant; `rhs` is pure with a value that fits the type of `old` (the check
    is against the CURRENT value of the target; `hk`: array-ness is kept — `rfl` for scalar targets).  The assignment ends
    normally; the new state is the old one with the root cell of `l` holding `root'` = the old root value with the (cast)
    value at the path of `l` (`setPath`: nothing else inside the root value changes); `l` reads the new value; every location
    with another root reads as before (in particular the pointer, if it lives in another variable); live activations the same. -/
theorem C09_places_deref_write (σ : St) (at' t : Tok) (pr : Ref) (ph : Holder) (rhs : Expr) (rv : Val) (pn : Str) (l : Loc)
    (old : Val) (fp f₀ f : Nat)
    (hp : RefAt σ fp pr ph (.ptr pn (some l))) (harr : ph.isArr = false)
    (hold : readLocP σ l = .ok old) (hc : locConstP σ l = false) (hrhs : PureAt σ f₀ rhs rv)
    (hty : (implicitCast old.ty rv).ty = old.ty) (hk : old.isArr = (implicitCast old.ty rv).isArr)
    (hf : max f₀ (fp+1) + 1 ≤ f) :
    ∃ root root', readLocP σ (rootOf l) = .ok root ∧ getPath root l.path = some old ∧
      setPath root l.path (implicitCast old.ty rv) = some root' ∧
      (execAssign f at' (.deref t pr) rhs).run.run σ = (.ok ⟨⟩, updSt σ l.act (writeF (rootOf l) root')) ∧
      readLocP (updSt σ l.act (writeF (rootOf l) root')) l = .ok (implicitCast old.ty rv) ∧
      (∀ l', DiffRoot l l' → readLocP (updSt σ l.act (writeF (rootOf l) root')) l' = readLocP σ l') ∧
      (∀ k, (updSt σ l.act (writeF (rootOf l) root')).acts.any (·.id == k) = σ.acts.any (·.id == k)) := by
  obtain ⟨root, root', h1, h2, h3, h4, hw⟩ := run_writeLoc_at σ at' l old (implicitCast old.ty rv) hold hc hk
  obtain ⟨r1, r2, r3⟩ := reads_after_write σ l root root' _ h1 h4
  refine ⟨root, root', h1, h2, h3, ?_, r1, r2, r3⟩
  rw [run_assign_deref_ref σ at' t pr ph rhs rv pn l old fp f₀ f hp harr hold hc hrhs hf]
  have : ((implicitCast old.ty rv).ty != old.ty) = false := by simp [hty]
  simp only [this, Bool.false_eq_true, if_false]
  exact hw

/-- … a value that does not fit the target's current type: `typeMismatch` at the assignment token, nothing written -/
theorem C09_places_deref_write_mismatch (σ : St) (at' t : Tok) (pr : Ref) (ph : Holder) (rhs : Expr) (rv : Val) (pn : Str)
    (l : Loc) (old : Val) (fp f₀ f : Nat)
    (hp : RefAt σ fp pr ph (.ptr pn (some l))) (harr : ph.isArr = false)
    (hold : readLocP σ l = .ok old) (hc : locConstP σ l = false) (hrhs : PureAt σ f₀ rhs rv)
    (hty : (implicitCast old.ty rv).ty ≠ old.ty) (hf : max f₀ (fp+1) + 1 ≤ f) :
    (execAssign f at' (.deref t pr) rhs).run.run σ = (.error (.diag (rtDiag σ at'.line at'.col .typeMismatch)), σ) := by
  rw [run_assign_deref_ref σ at' t pr ph rhs rv pn l old fp f₀ f hp harr hold hc hrhs hf]
  have : ((implicitCast old.ty rv).ty != old.ty) = true := by simpa using hty
  simp only [this, if_true]
  exact run_rtErr at' .typeMismatch σ

/-- **a never-set pointer held in any place** (`DECLARE`d pointer member of a record, element of an array of pointers, …):
    `pr^`, read or written, is `deletedObject` at the `^` token, state unchanged -/
theorem C09_places_deref_unset (σ : St) (at' t : Tok) (pr : Ref) (ph : Holder) (pn : Str) (fp f : Nat)
    (hp : RefAt σ fp pr ph (.ptr pn none)) (harr : ph.isArr = false) (hf : fp + 2 ≤ f) :
    (evalExpr f (.access at' (.deref t pr))).run.run σ = (.error (.diag (rtDiag σ t.line t.col .deletedObject)), σ) ∧
    (∀ rhs rv f₀ g, PureAt σ f₀ rhs rv → max f₀ (fp+1) + 1 ≤ g →
      (execAssign g at' (.deref t pr) rhs).run.run σ = (.error (.diag (rtDiag σ t.line t.col .deletedObject)), σ)) :=
  ⟨run_access_deref_ref_bad σ at' t pr ph pn none fp f hp harr (fun l h => by cases h) hf,
   fun rhs rv f₀ g hrhs hg => run_assign_deref_ref_bad σ at' t pr ph rhs rv pn none fp f₀ g hp harr (fun l h => by cases h) hrhs hg⟩

/-! ## 3. copies of a pointer; 4. pointers reached through names, from any activation -/

/-- **A pointer reached through a NAME, in any state — any activation depth.**  `Tgt σ p (.ptr pn) Lp (.ptr pn (some l))`: in
    `σ` the name `p` resolves — in the current activation, else in the global one; a BYREF formal resolves to the caller's
    cell — to the assignable pointer variable at `Lp`, holding the location `l`.  So `p` may be a GLOBAL pointer seen from
    a callee (at any depth), the callee's own BYVAL parameter cell holding a pointer that was passed in, or a BYREF formal
    bound to a pointer variable of the caller.  As long as `l` is readable (its activation is on the stack — wherever),
    `p^` evaluates to what `l` reads now, and `p^` resolves to the holder AT `l`: the same target from every activation. -/
theorem C09_places_from_callee_name (σ : St) (at' t pt : Tok) (pn : Str) (Lp l : Loc) (v : Val) (f : Nat)
    (hp : ReadLoop2.Tgt σ pt.val (.ptr pn) Lp (.ptr pn (some l))) (hv : readLocP σ l = .ok v) (hf : 3 ≤ f) :
    (evalExpr f (.access at' (.deref t (.var pt)))).run.run σ = (.ok v, σ) ∧
    RefAt σ 2 (.deref t (.var pt)) (derefHolder l v) v :=
  let h := C09_places_deref_read σ at' t (.var pt) _ pn l v 1 f (RefAt.of_tgt pt hp) rfl hv hf
  ⟨h.1, h.2.1⟩

/-- **A write through one alias is read through the other.**  The place `qr` (any place) and the name `p` both hold the
    location `l` (`l` is not inside the variable `p` itself: `hlp`).  `qr^ <- rhs` (hypotheses of `C09_places_deref_write`)
    ends normally, and in the state it leaves `p^` evaluates to the value just written. -/
theorem C09_places_alias_sees_write (σ : St) (at' t a1 td pt : Tok) (qr : Ref) (qh : Holder) (rhs : Expr) (rv : Val)
    (pn : Str) (Lp l : Loc) (old : Val) (fq f₀ f : Nat)
    (hq : RefAt σ fq qr qh (.ptr pn (some l))) (hqarr : qh.isArr = false)
    (hp : ReadLoop2.Tgt σ pt.val (.ptr pn) Lp (.ptr pn (some l))) (hlp : DiffRoot l Lp)
    (hold : readLocP σ l = .ok old) (hc : locConstP σ l = false) (hrhs : PureAt σ f₀ rhs rv)
    (hty : (implicitCast old.ty rv).ty = old.ty) (hk : old.isArr = (implicitCast old.ty rv).isArr)
    (hf : max (max f₀ (fq+1)) 2 + 1 ≤ f) :
    ∃ σ', (execAssign f at' (.deref t qr) rhs).run.run σ = (.ok ⟨⟩, σ') ∧
      (evalExpr f (.access a1 (.deref td (.var pt)))).run.run σ' = (.ok (implicitCast old.ty rv), σ') ∧
      (∀ l', DiffRoot l l' → readLocP σ' l' = readLocP σ l') := by
  obtain ⟨root, root', _, _, _, hrun, hread, hframe, _⟩ :=
    C09_places_deref_write σ at' t qr qh rhs rv pn l old fq f₀ f hq hqarr hold hc hrhs hty hk (by omega)
  have hp' : ReadLoop2.Tgt (updSt σ l.act (writeF (rootOf l) root')) pt.val (.ptr pn) Lp (.ptr pn (some l)) :=
    hp.write_other (rootOf l) root' hlp
  exact ⟨_, hrun, (C09_places_from_callee_name _ a1 td pt pn Lp l _ f hp' hread (by omega)).1, hframe⟩

/-- **Copies of a pointer alias the same target.**  `p`, `q` names of two different pointer variables (`hpq`) of the pointer
    type `pn` (each resolving anywhere on the stack: local, global, BYREF formal), `p` holding the location `l`, readable,
    not inside `q` (`hql`).  `q <- p` ends normally; afterwards BOTH names hold `l`, `q^` and `p^` resolve to the SAME holder
    — the one at `l` — and both evaluate to what `l` reads (`qt'`, `pt'`: other occurrences of the names). -/
theorem C09_places_copy_aliases (σ : St) (at' a td1 td2 a1 a2 qt qt' pt pt' : Tok) (pn : Str) (Lp Lq l : Loc)
    (oldq : Option Loc) (tv : Val) (f : Nat)
    (hp : ReadLoop2.Tgt σ pt.val (.ptr pn) Lp (.ptr pn (some l)))
    (hq : ReadLoop2.Tgt σ qt.val (.ptr pn) Lq (.ptr pn oldq))
    (hpq : DiffRoot Lq Lp) (hql : DiffRoot Lq l) (hv : readLocP σ l = .ok tv)
    (hqt' : qt'.val = qt.val) (hpt' : pt'.val = pt.val) (hf : 3 ≤ f) :
    ∃ σ', (execAssign f at' (.var qt) (.access a (.var pt))).run.run σ = (.ok ⟨⟩, σ') ∧
      ReadLoop2.Tgt σ' qt.val (.ptr pn) Lq (.ptr pn (some l)) ∧ ReadLoop2.Tgt σ' pt.val (.ptr pn) Lp (.ptr pn (some l)) ∧
      readLocP σ' l = .ok tv ∧
      (resolveRef f (.deref td1 (.var qt'))).run.run σ' = (.ok (derefHolder l tv), σ') ∧
      (resolveRef f (.deref td2 (.var pt'))).run.run σ' = (.ok (derefHolder l tv), σ') ∧
      (evalExpr f (.access a1 (.deref td1 (.var qt')))).run.run σ' = (.ok tv, σ') ∧
      (evalExpr f (.access a2 (.deref td2 (.var pt')))).run.run σ' = (.ok tv, σ') := by
  have hrun := run_assign_tgt σ at' qt (.access a (.var pt)) (.ptr pn (some l)) (.ptr pn) Lq (.ptr pn oldq) 2 f hq
    (pureAt_refAt a (RefAt.of_tgt pt hp) rfl) rfl (by omega)
  have hq1 : ReadLoop2.Tgt (updSt σ Lq.act (writeF Lq (.ptr pn (some l)))) qt.val (.ptr pn) Lq (.ptr pn (some l)) :=
    hq.write_same _
  have hp1 : ReadLoop2.Tgt (updSt σ Lq.act (writeF Lq (.ptr pn (some l)))) pt.val (.ptr pn) Lp (.ptr pn (some l)) :=
    hp.write_other Lq _ hpq
  have hv1 : readLocP (updSt σ Lq.act (writeF Lq (.ptr pn (some l)))) l = .ok tv := by
    rw [readLocP_updSt_writeF_other σ Lq l _ hql]; exact hv
  have hq2 := hq1
  have hp2 := hp1
  rw [← hqt'] at hq2
  rw [← hpt'] at hp2
  obtain ⟨f', rfl⟩ : ∃ f', f = f' + 2 := ⟨f - 2, by omega⟩
  refine ⟨_, hrun, hq1, hp1, hv1, ?_, ?_, ?_, ?_⟩
  · exact (RefAt.deref td1 (RefAt.of_tgt qt' hq2) rfl hv1).run _ (by omega)
  · exact (RefAt.deref td2 (RefAt.of_tgt pt' hp2) rfl hv1).run _ (by omega)
  · exact (C09_places_from_callee_name _ a1 td1 qt' pn Lq l tv _ hq2 hv1 (by omega)).1
  · exact (C09_places_from_callee_name _ a2 td2 pt' pn Lp l tv _ hp2 hv1 (by omega)).1

/-- **A pointer passed BYVAL to a procedure — ANY body, called from ANY activation depth** (`σ.acts = cur :: rest`).  The
    procedure `name` has the one parameter `q : pn`, BYVAL; the argument is pure and evaluates to a pointer to the location
    `l`, readable in `σ` (its activation is somewhere on the stack); `IdsBelow σ` (true of every reachable state) makes the new
    activation number differ from that of `l`; `hdepth`: the recursion limit is not hit.  Then the call is the body run in
    the state `σb` (new activation `σ.nextId` on top) followed by the return steps (`procResult`), and in `σb` — where the
    body starts — the name `q` resolves to the callee's own parameter cell, which holds the SAME location `l`; `l` reads what
    it read in the caller and is a constant iff it was.  So by `C09_places_from_callee_name` / `C09_places_deref_write` (with
    `RefAt.of_tgt`) `q^` inside the callee reads the caller's target and `q^ <- …` writes exactly it. -/
theorem C09_places_from_callee_byval (σ : St) (cur : Act) (rest : List Act) (tc : Tok) (name : Str) (pd : ProcDef)
    (q pn : Str) (arg : Expr) (l : Loc) (tv : Val) (f₀ f : Nat)
    (hacts : σ.acts = cur :: rest) (hids : IdsBelow σ)
    (hpd : σ.procs.find? (·.name == name) = some pd) (hparams : pd.params = [(q, .ptr pn, false)])
    (harg : PureAt σ f₀ arg (.ptr pn (some l))) (hv : readLocP σ l = .ok tv)
    (hdepth : σ.depth + 1 ≤ σ.depthLimit) (hf : f₀ + 3 ≤ f) :
    let σb := calleeSt (procAct pd [byvalSlot q (.ptr pn) (.ptr pn (some l))]) (setSwitch σ cur.id tc)
    (callProc f tc name [arg]).run.run σ = procResult cur.id ((runBlock (f-1) pd.body).run.run σb) ∧
    ReadLoop2.Tgt σb q (.ptr pn) ⟨σ.nextId, false, q, []⟩ (.ptr pn (some l)) ∧
    readLocP σb l = .ok tv ∧ locConstP σb l = locConstP σ l := by
  intro σb
  obtain ⟨f', rfl⟩ : ∃ f', f = f' + 3 := ⟨f - 3, by omega⟩
  have hargs : (evalArgs (f'+2) [arg] []).run.run σ = (.ok [.ptr pn (some l)], σ) := by
    have := run_evalArgs_pure σ f₀ [arg] [.ptr pn (some l)] [] (f'+2) ⟨harg, trivial⟩
      (by simp only [List.length_cons, List.length_nil]; omega)
    simpa using this
  have hbind : (bindParams (f'+2) tc pd.params [arg] [.ptr pn (some l)] []).run.run σ =
      (.ok [byvalSlot q (.ptr pn) (.ptr pn (some l))], σ) := by
    rw [hparams, run_bindParams_byval,
      if_pos (show (implicitCast (Ty.ptr pn) (Val.ptr pn (some l))).ty = Ty.ptr pn from rfl), run_bindParams_done]; rfl
  have hcall := run_callProc (f'+2) tc name [arg] σ σ σ pd [.ptr pn (some l)] cur rest _ hpd hargs
    (by rw [hparams]; rfl) hdepth hacts hbind
  have hne : l.act ≠ σ.nextId := by
    have := hids _ (act_mem_ids_of_read σ l tv hv)
    omega
  have hr : readLocP σb l = readLocP σ l := by
    show readLocP (pushSt _ (incDepth (setSwitch σ cur.id tc))) l = _
    rw [readLocP_pushSt (incDepth (setSwitch σ cur.id tc)) _ l rfl hne,
      readLocP_congr (setSwitch σ cur.id tc) (incDepth (setSwitch σ cur.id tc)) l rfl, readLocP_setSwitch]
  have hc : locConstP σb l = locConstP σ l := by
    show locConstP (pushSt _ (incDepth (setSwitch σ cur.id tc))) l = _
    rw [locConstP_pushSt (incDepth (setSwitch σ cur.id tc)) _ l rfl hne,
      locConstP_congr (setSwitch σ cur.id tc) (incDepth (setSwitch σ cur.id tc)) l rfl, locConstP_setSwitch]
  refine ⟨hcall, ?_, hr.trans hv, hc⟩
  let new : Act := procAct pd [byvalSlot q (.ptr pn) (.ptr pn (some l))] σ.nextId
  have hbacts : σb.acts = new :: (setSwitch σ cur.id tc).acts := rfl
  have hfs : findSlot new.vars q = some (byvalSlot q (.ptr pn) (.ptr pn (some l))) := by
    simp [new, procAct, findSlot, byvalSlot]
  refine ⟨⟨new, byvalSlot q (.ptr pn) (.ptr pn (some l)), ?_, rfl, rfl⟩, rfl, rfl, ?_, ?_⟩
  · rw [FileStmt.lookupVarP_cons σb new _ hbacts q, lookupVarIn_own new _ q _ hfs]
  · unfold locConstP
    rw [hbacts]
    simp [new, procAct, slotOf, findSlot, byvalSlot]
  · unfold readLocP
    rw [hbacts]
    simp [new, procAct, slotOf, findSlot, byvalSlot, getPath, implicitCast]

/-- **A pointer held in a GLOBAL variable, seen from a callee — any callee, called from ANY activation depth.**  `σ.acts =
    cur :: rest` with global activation `g` (`hg`); `g` has the plain (`hsref`) pointer variable `p : pn` (`hs`, `hsty`), whose
    cell reads `.ptr pn (some l)` and is not a constant (`hval`, `hnc` — facts about the location, so that no uniqueness of
    activation numbers has to be assumed); `l` is readable.  `mk` is the activation the call creates (`procAct pd slots`,
    `funAct fd slots`): it gets the number `σ.nextId` (`hmk`) and has no variable named `p` (`hnew`; otherwise the name
    would denote that local).  `IdsBelow σ`: true of every reachable state.  Then in the state `σb` in which the body
    starts, the name `p` resolves to the global cell, holding the same location; `l` reads what it read in the caller; and
    `p^` evaluates to that value — the same target as seen from the caller. -/
theorem C09_places_from_callee_global (σ : St) (cur g : Act) (rest : List Act) (tc : Tok) (mk : Nat → Act) (p pn : Str)
    (s : Slot) (l : Loc) (tv : Val)
    (hacts : σ.acts = cur :: rest) (hg : σ.acts.getLast? = some g) (hids : IdsBelow σ)
    (hmk : (mk σ.nextId).id = σ.nextId) (hnew : findSlot (mk σ.nextId).vars p = none)
    (hs : findSlot g.vars p = some s) (hsty : s.ty = .ptr pn) (hsref : s.ref = none)
    (hval : readLocP σ ⟨g.id, false, p, []⟩ = .ok (.ptr pn (some l)))
    (hnc : locConstP σ ⟨g.id, false, p, []⟩ = false)
    (hv : readLocP σ l = .ok tv) :
    let σb := calleeSt mk (setSwitch σ cur.id tc)
    ReadLoop2.Tgt σb p (.ptr pn) ⟨g.id, false, p, []⟩ (.ptr pn (some l)) ∧ readLocP σb l = .ok tv ∧
    (∀ at' t pt f, pt.val = p → 3 ≤ f → (evalExpr f (.access at' (.deref t (.var pt)))).run.run σb = (.ok tv, σb)) := by
  intro σb
  have hgne : g.id ≠ σ.nextId := by
    have := hids _ (act_mem_ids_of_read σ _ _ hval)
    exact Nat.ne_of_lt this
  have hlne : l.act ≠ σ.nextId := by
    have := hids _ (act_mem_ids_of_read σ l tv hv)
    omega
  have hr : ∀ l' : Loc, l'.act ≠ σ.nextId → readLocP σb l' = readLocP σ l' := by
    intro l' hne
    show readLocP (pushSt _ (incDepth (setSwitch σ cur.id tc))) l' = _
    rw [readLocP_pushSt (incDepth (setSwitch σ cur.id tc)) _ l' hmk hne,
      readLocP_congr (setSwitch σ cur.id tc) (incDepth (setSwitch σ cur.id tc)) l' rfl, readLocP_setSwitch]
  have hc : locConstP σb ⟨g.id, false, p, []⟩ = locConstP σ ⟨g.id, false, p, []⟩ := by
    show locConstP (pushSt _ (incDepth (setSwitch σ cur.id tc))) _ = _
    rw [locConstP_pushSt (incDepth (setSwitch σ cur.id tc)) _ _ hmk hgne,
      locConstP_congr (setSwitch σ cur.id tc) (incDepth (setSwitch σ cur.id tc)) _ rfl, locConstP_setSwitch]
  have hlook : ∃ a s', FileStmt.lookupVarP σb p = .ok (some (a, s')) ∧ s'.ty = .ptr pn ∧
      FileStmt.varLoc a s' = ⟨g.id, false, p, []⟩ := by
    rw [hacts] at hg
    obtain ⟨cur', rest', g', hu, hg', _, hgg⟩ :=
      updActs_head_last cur.id (fun a => { a with switchTok := some (tc.line, tc.col) }) cur g rest hg
    have hbacts : σb.acts = mk σ.nextId :: (cur' :: rest') := by
      show mk σ.nextId :: updActs σ.acts _ _ = _
      rw [hacts, hu]
    have hlast : (mk σ.nextId :: (cur' :: rest')).getLast (List.cons_ne_nil _ _) = g' := by
      have : (mk σ.nextId :: (cur' :: rest')).getLast? = some g' := by
        rw [List.getLast?_cons_cons]; exact hg'
      rw [List.getLast?_eq_some_getLast (List.cons_ne_nil _ _)] at this
      injection this
    have hg'id : g'.id = g.id ∧ g'.vars = g.vars := by
      rcases hgg with rfl | rfl <;> exact ⟨rfl, rfl⟩
    have hname : s.name = p := findSlot_name _ _ _ hs
    refine ⟨g', s, ?_, hsty, ?_⟩
    · rw [FileStmt.lookupVarP_cons σb _ _ hbacts p, hlast]
      unfold lookupVarIn
      rw [hnew, hmk, hg'id.1, hg'id.2, hs]
      have : (σ.nextId == g.id) = false := by
        cases h : σ.nextId == g.id with
        | false => rfl
        | true => exact absurd (by simpa using h : σ.nextId = g.id).symm hgne
      simp only [this, Bool.false_eq_true, if_false, Option.map_some]
    · unfold FileStmt.varLoc
      rw [hsref, hg'id.1, hname]
  have htgt : ReadLoop2.Tgt σb p (.ptr pn) ⟨g.id, false, p, []⟩ (.ptr pn (some l)) :=
    ⟨hlook, rfl, rfl, hc.trans hnc, (hr _ hgne).trans hval⟩
  have hv' : readLocP σb l = .ok tv := (hr l hlne).trans hv
  refine ⟨htgt, hv', ?_⟩
  intro at' t pt f hpt hf
  subst hpt
  exact (C09_places_from_callee_name σb at' t pt pn _ l tv f htgt hv' hf).1

/-! ## 5. dead targets, any call, any body -/

/-- an activation number at or above the counter is not on the stack (`IdsBelow`: true of every reachable state) -/
theorem C09_places_created_not_live (σ : St) (k : Nat) (hids : IdsBelow σ) (hnew : σ.nextId ≤ k) : k ∉ C04.ids σ := by
  intro hmem
  have := hids _ hmem
  omega

/-- **A dead pointer held in any place is diagnosed**: in `τ` the place `pr` holds a location whose activation is not live:
    `pr^`, read or written, is `deletedObject` at the `^`, state unchanged. -/
theorem C09_places_deref_dead_state (τ : St) (at' t : Tok) (pr : Ref) (ph : Holder) (pn : Str) (l : Loc) (fp f : Nat)
    (hp : RefAt τ fp pr ph (.ptr pn (some l))) (harr : ph.isArr = false)
    (hdead : τ.acts.any (·.id == l.act) = false) (hf : fp + 2 ≤ f) :
    (evalExpr f (.access at' (.deref t pr))).run.run τ = (.error (.diag (rtDiag τ t.line t.col .deletedObject)), τ) ∧
    (∀ rhs rv f₀ g, PureAt τ f₀ rhs rv → max f₀ (fp+1) + 1 ≤ g →
      (execAssign g at' (.deref t pr) rhs).run.run τ = (.error (.diag (rtDiag τ t.line t.col .deletedObject)), τ)) := by
  have hbad : ∀ l', some l = some l' → τ.acts.any (·.id == l'.act) = false := fun l' h => by cases h; exact hdead
  exact ⟨run_access_deref_ref_bad τ at' t pr ph pn (some l) fp f hp harr hbad hf,
    fun rhs rv f₀ g hrhs hg => run_assign_deref_ref_bad τ at' t pr ph rhs rv pn (some l) fp f₀ g hp harr hbad hrhs hg⟩

/-- **ANY procedure call, ANY body, however it ends**: the call starts in `σ` and ends in `σ'`.  If in `σ'` some place `pr`
    (a global pointer variable, a member of a global record, an element of a global array of pointers, a caller's variable
    reached BYREF, …) holds a location `l` whose activation is NOT one of the caller's stack `σ` (`hnot`) — e.g. a local
    variable, a BYVAL parameter cell, a local array element, a field of a local record of the callee or of anything the
    callee called: their activation numbers are `≥ σ.nextId` (`C09_places_created_not_live`) — then that activation is not
    live in `σ'` (the stack after the call is the stack before it, `C04_exec_locals_gone`) and `pr^`, read or written, is
    the runtime diagnostic `deletedObject`: never a stale or reused value. -/
theorem C09_places_dead_general (fuel f : Nat) (tc : Tok) (name : Str) (args : List Expr) (σ : St) (at' t : Tok) (pr : Ref)
    (ph : Holder) (pn : Str) (l : Loc) (fp : Nat) (hnot : l.act ∉ C04.ids σ)
    (hp : RefAt ((callProc fuel tc name args).run.run σ).2 fp pr ph (.ptr pn (some l))) (harr : ph.isArr = false)
    (hf : fp + 2 ≤ f) :
    let σ' := ((callProc fuel tc name args).run.run σ).2
    σ'.acts.any (·.id == l.act) = false ∧
    (evalExpr f (.access at' (.deref t pr))).run.run σ' = (.error (.diag (rtDiag σ' t.line t.col .deletedObject)), σ') ∧
    (∀ rhs rv f₀ g, PureAt σ' f₀ rhs rv → max f₀ (fp+1) + 1 ≤ g →
      (execAssign g at' (.deref t pr) rhs).run.run σ' = (.error (.diag (rtDiag σ' t.line t.col .deletedObject)), σ')) := by
  intro σ'
  have hdead : σ'.acts.any (·.id == l.act) = false := by
    apply any_false_of_not_mem_ids
    show l.act ∉ σ'.acts.map (·.id)
    rw [(C04_exec_locals_gone fuel tc name args σ).1]
    exact hnot
  exact ⟨hdead, C09_places_deref_dead_state σ' at' t pr ph pn l fp f hp harr hdead hf⟩

/-- the same for ANY function call (user function with any body, or builtin) -/
theorem C09_places_dead_general_fun (fuel f : Nat) (tc : Tok) (args : List Expr) (σ : St) (at' t : Tok) (pr : Ref)
    (ph : Holder) (pn : Str) (l : Loc) (fp : Nat) (hnot : l.act ∉ C04.ids σ)
    (hp : RefAt ((callFun fuel tc args).run.run σ).2 fp pr ph (.ptr pn (some l))) (harr : ph.isArr = false)
    (hf : fp + 2 ≤ f) :
    let σ' := ((callFun fuel tc args).run.run σ).2
    σ'.acts.any (·.id == l.act) = false ∧
    (evalExpr f (.access at' (.deref t pr))).run.run σ' = (.error (.diag (rtDiag σ' t.line t.col .deletedObject)), σ') ∧
    (∀ rhs rv f₀ g, PureAt σ' f₀ rhs rv → max f₀ (fp+1) + 1 ≤ g →
      (execAssign g at' (.deref t pr) rhs).run.run σ' = (.error (.diag (rtDiag σ' t.line t.col .deletedObject)), σ')) := by
  intro σ'
  have hdead : σ'.acts.any (·.id == l.act) = false := by
    apply any_false_of_not_mem_ids
    show l.act ∉ σ'.acts.map (·.id)
    rw [(C04_exec_locals_gone_fun fuel tc args σ).1]
    exact hnot
  exact ⟨hdead, C09_places_deref_dead_state σ' at' t pr ph pn l fp f hp harr hdead hf⟩

/-- **… and stays dead**: whatever statement runs next (however it ends), the target's activation is still not live and its
    number (below the counter) will never be handed out again (`C09_exec_dead_stays_dead`); so whenever, afterwards, a place
    `pr` holds that pointer, `pr^` is still `deletedObject`. -/
theorem C09_places_dead_stays_dead (τ : St) (fuel f : Nat) (s : Stmt) (at' t : Tok) (pr : Ref) (ph : Holder) (pn : Str)
    (l : Loc) (fp : Nat) (hdead : τ.acts.any (·.id == l.act) = false) (hold : l.act < τ.nextId)
    (hp : RefAt ((execStmt fuel s).run.run τ).2 fp pr ph (.ptr pn (some l))) (harr : ph.isArr = false) (hf : fp + 2 ≤ f) :
    let τ' := ((execStmt fuel s).run.run τ).2
    τ'.acts.any (·.id == l.act) = false ∧ l.act < τ'.nextId ∧
    (evalExpr f (.access at' (.deref t pr))).run.run τ' = (.error (.diag (rtDiag τ' t.line t.col .deletedObject)), τ') := by
  intro τ'
  obtain ⟨h1, h2, _⟩ := C09_exec_dead_stays_dead τ fuel s l hdead hold
  exact ⟨h1, h2, (C09_places_deref_dead_state τ' at' t pr ph pn l fp f hp harr h1 hf).1⟩

/-! ## non-vacuity: concrete places, concrete runs checked by the kernel -/

namespace C09PlacesEx

def tk (s : String) (l : Nat := 1) (c : Nat := 1) : Tok := { k := .IDENTIFIER, line := l, col := c, val := s.toList }
def lit (k : Int) : Expr := .intLit (tk "lit") k
def dt (s : String) : Tok := { k := .DATA_TYPE, line := 1, col := 1, val := s.toList }
def cellsA : List Val := [.int 10, .int 20, .int 30]
def fieldsS : List (Str × Val) := [("a".toList, .arr .int [(1, 3)] cellsA)]
def fieldsR : List (Str × Val) := [("f".toList, .int 1), ("s".toList, .comp "S".toList fieldsS)]
def recE (k : Int) : Val := .comp "E".toList [("f".toList, .int k)]
def slotP : Slot := { name := "p".toList, ty := .ptr "IntPtr".toList, val := .ptr "IntPtr".toList none }
def slotQ : Slot := { name := "q".toList, ty := .ptr "IntPtr".toList, val := .ptr "IntPtr".toList none }
def glob : Act :=
  { id := 0, name := "Program".toList, ptrs := [("IntPtr".toList, .int)],
    vars := [{ name := "r".toList, ty := .comp "R".toList, val := .comp "R".toList fieldsR }, slotP, slotQ],
    comps := [("E".toList, [.declare (tk "DECLARE") [tk "f"] (dt "INTEGER")])],
    arrs := [{ name := "arr".toList, ty := .comp "E".toList, val := .arr (.comp "E".toList) [(1, 2)] [recE 5, recE 6] }] }
/-- `PROCEDURE W(BYVAL w : IntPtr)  w^ <- 77  ENDPROCEDURE` -/
def procW : ProcDef :=
  { name := "W".toList, params := [("w".toList, .ptr "IntPtr".toList, false)],
    body := [.expr (.assign (tk "<-" 3 8) (.deref (tk "^" 3 6) (.var (tk "w" 3 5))) (lit 77))] }
/-- `PROCEDURE Leak()  DECLARE loc : E ; p <- ^loc.f  ENDPROCEDURE` -/
def procLeak : ProcDef :=
  { name := "Leak".toList, params := [],
    body := [.declare (tk "DECLARE") [tk "loc"] (tk "E"),
             .expr (.ptrAssign (tk "<-") (.var (tk "p")) (.field (tk ".") (.var (tk "loc")) (tk "f")))] }
def exSt : St := { acts := [glob], procs := [procW, procLeak] }

theorem hasR : HasVar exSt (tk "r").val 0 (.comp "R".toList) (.comp "R".toList fieldsR) := ⟨rfl, rfl, rfl⟩
theorem hasP : HasVar exSt (tk "p").val 0 (.ptr "IntPtr".toList) (.ptr "IntPtr".toList none) := ⟨rfl, rfl, rfl⟩
theorem hasQ : HasVar exSt (tk "q").val 0 (.ptr "IntPtr".toList) (.ptr "IntPtr".toList none) := ⟨rfl, rfl, rfl⟩
theorem hasArr : HasArray exSt (tk "arr").val 0 (.comp "E".toList) [(1, 2)] [recE 5, recE 6] := ⟨rfl, rfl, rfl, rfl⟩
theorem ptrDef : PtrDef exSt "IntPtr".toList .int := ⟨"IntPtr".toList, rfl⟩

/-- the place `r.s.a[2]` -/
def refRSA2 : Ref := .index (tk "[") (.field (tk ".") (.field (tk ".") (.var (tk "r")) (tk "s")) (tk "a")) [lit 2]
def locRSA2 : Loc := ⟨0, false, "r".toList, [.field "s".toList, .field "a".toList, .idx 1]⟩
theorem refAtRSA2 : RefAt exSt 6 refRSA2 (idxHolder (memberHolder2 0 "r".toList "s".toList "a".toList .int) .int 1) (.int 20) :=
  (RefAt.index (tk "[") (ArrAt.of_var_member2 (tk ".") (tk ".") (tk "r") (tk "s") (tk "a") hasR (by decide +kernel) rfl
    (by decide +kernel) rfl rfl).ref rfl (es := [lit 2]) (ks := [2]) ⟨pureAt_intLit _ _ 2, trivial⟩ ⟨⟨by decide, by decide⟩, trivial⟩ rfl).mono (by decide)

/-- the place `arr[1].f` -/
def refArr1F : Ref := .field (tk ".") (.index (tk "[") (.var (tk "arr")) [lit 1]) (tk "f")
def locArr1F : Loc := ⟨0, true, "arr".toList, [.idx 0, .field "f".toList]⟩
theorem refAtArr1 : RefAt exSt 5 (.index (tk "[") (.var (tk "arr")) [lit 1]) (elemHolder 0 "arr".toList (.comp "E".toList) 0) (recE 5) :=
  RefAt.of_elem (tk "[") (tk "arr") (es := [lit 1]) (ks := [1]) hasArr ⟨pureAt_intLit _ _ 1, trivial⟩ ⟨⟨by decide, by decide⟩, trivial⟩ rfl
theorem refAtArr1F : RefAt exSt 6 refArr1F (fieldHolder (elemHolder 0 "arr".toList (.comp "E".toList) 0) "f".toList false (.int 5)) (.int 5) :=
  RefAt.field (tk ".") (tk "f") refAtArr1 rfl (by decide +kernel) rfl

example : (idxHolder (memberHolder2 0 "r".toList "s".toList "a".toList .int) .int 1).loc = locRSA2 := rfl
example : (fieldHolder (elemHolder 0 "arr".toList (.comp "E".toList) 0) "f".toList false (.int 5)).loc = locArr1F := rfl

def pAssign (r : Ref) : Expr := .ptrAssign (tk "<-" 5 3) (.var (tk "p")) r

/-- (1) `p <- ^r.s.a[2]`, `p <- ^arr[1].f`: accepted -/
theorem run_p_rsa2 : ∃ σ', (evalExpr 7 (pAssign refRSA2)).run.run exSt = (.ok .none, σ') ∧
    readLocP σ' (varLoc 0 "p".toList) = .ok (.ptr "IntPtr".toList (some locRSA2)) ∧ readLocP σ' locRSA2 = .ok (.int 20) := by
  obtain ⟨σ', h1, h2, h3, _⟩ := C09_places_ptr_assign_ok exSt (tk "<-" 5 3) (.var (tk "p")) refRSA2 _ _ "IntPtr".toList none _ 1 6 7
    (RefAt.of_hasVar (tk "p") hasP) rfl rfl rfl refAtRSA2 rfl ptrDef (by decide)
  exact ⟨σ', h1, h2, (h3 locRSA2 (.inr (.inr (by decide)))).trans refAtRSA2.reads⟩
theorem run_p_arr1f : ∃ σ', (evalExpr 7 (pAssign refArr1F)).run.run exSt = (.ok .none, σ') ∧
    readLocP σ' (varLoc 0 "p".toList) = .ok (.ptr "IntPtr".toList (some locArr1F)) := by
  obtain ⟨σ', h1, h2, _⟩ := C09_places_ptr_assign_ok exSt (tk "<-" 5 3) (.var (tk "p")) refArr1F _ _ "IntPtr".toList none _ 1 6 7
    (RefAt.of_hasVar (tk "p") hasP) rfl rfl rfl refAtArr1F rfl ptrDef (by decide)
  exact ⟨σ', h1, h2⟩
/-- … `p <- ^arr[1]` (an `E`, not an INTEGER): `typeMismatch` at the assignment token, state unchanged -/
example : (evalExpr 7 (pAssign (.index (tk "[") (.var (tk "arr")) [lit 1]))).run.run exSt =
    (.error (.diag (rtDiag exSt 5 3 .typeMismatch)), exSt) :=
  C09_places_ptr_assign_mismatch exSt (tk "<-" 5 3) (.var (tk "p")) _ _ _ "IntPtr".toList .int none _ 1 5 7
    (RefAt.of_hasVar (tk "p") hasP) rfl rfl rfl refAtArr1 rfl ptrDef (by decide) (by decide)

/-! (2) the state in which `p` points to `r.s.a[2]` -/
def stP : St := ptrSt exSt 0 "p".toList "IntPtr".toList locRSA2
theorem hasP' : HasVar stP (tk "p").val 0 (.ptr "IntPtr".toList) (.ptr "IntPtr".toList (some locRSA2)) :=
  (C09_exec_ptrSt_frame exSt 0 "p".toList "IntPtr".toList locRSA2 _ hasP).1
theorem readsRSA2 : readLocP stP locRSA2 = .ok (.int 20) := readsAs_sound (by decide +kernel)
def pDeref : Expr := .access (tk "p" 7 8) (.deref (tk "^" 7 9) (.var (tk "p" 7 8)))
def intAt (σ : St) (l : Loc) : Option Int := match readLocP σ l with | .ok (.int k) => some k | _ => none
def msgOf {α : Type} : Except Stop α × St → Option (Msg × Nat × Nat)
  | (.error (.diag d), _) => some (d.msg, d.line, d.col)
  | _ => none

example : (evalExpr 3 pDeref).run.run stP = (.ok (.int 20), stP) :=
  (C09_places_deref_read stP _ _ (.var (tk "p" 7 8)) _ "IntPtr".toList locRSA2 (.int 20) 1 3 (RefAt.of_hasVar (tk "p" 7 8) hasP') rfl
    readsRSA2 (by decide)).1
/-- `p^ <- 21`: one write at `r.s.a[2]`; the neighbours `r.s.a[1]`, `r.f`, `arr[1].f` are unchanged -/
example : ∃ σ', (execAssign 3 (tk "<-") (.deref (tk "^") (.var (tk "p"))) (lit 21)).run.run stP = (.ok ⟨⟩, σ') ∧
    readLocP σ' locRSA2 = .ok (.int 21) ∧ readLocP σ' locArr1F = readLocP stP locArr1F := by
  obtain ⟨_, _, _, _, _, h1, h2, h3, _⟩ := C09_places_deref_write stP (tk "<-") (tk "^") (.var (tk "p")) _ (lit 21) (.int 21)
    "IntPtr".toList locRSA2 (.int 20) 1 1 3 (RefAt.of_hasVar (tk "p") hasP') rfl readsRSA2 rfl (pureAt_intLit _ _ _) rfl rfl (by decide)
  exact ⟨_, h1, h2, h3 locArr1F (.inr (.inl (by decide)))⟩
example : intAt ((execAssign 3 (tk "<-") (.deref (tk "^") (.var (tk "p"))) (lit 21)).run.run stP).2 locRSA2 = some 21 ∧
    intAt ((execAssign 3 (tk "<-") (.deref (tk "^") (.var (tk "p"))) (lit 21)).run.run stP).2
      ⟨0, false, "r".toList, [.field "s".toList, .field "a".toList, .idx 0]⟩ = some 10 ∧
    intAt ((execAssign 3 (tk "<-") (.deref (tk "^") (.var (tk "p"))) (lit 21)).run.run stP).2
      ⟨0, false, "r".toList, [.field "f".toList]⟩ = some 1 := by decide +kernel

/-! (3) `q <- p`: both names hold the location of `r.s.a[2]` -/
theorem tgtP : ReadLoop2.Tgt stP (tk "p").val (.ptr "IntPtr".toList) (varLoc 0 "p".toList) (.ptr "IntPtr".toList (some locRSA2)) :=
  ⟨⟨_, _, rfl, rfl, rfl⟩, rfl, rfl, rfl, rfl⟩
theorem tgtQ : ReadLoop2.Tgt stP (tk "q").val (.ptr "IntPtr".toList) (varLoc 0 "q".toList) (.ptr "IntPtr".toList none) :=
  ⟨⟨_, _, rfl, rfl, rfl⟩, rfl, rfl, rfl, rfl⟩
example : ∃ σ', (execAssign 3 (tk "<-") (.var (tk "q")) (.access (tk "p") (.var (tk "p")))).run.run stP = (.ok ⟨⟩, σ') ∧
    (resolveRef 3 (.deref (tk "^") (.var (tk "q")))).run.run σ' = (.ok (derefHolder locRSA2 (.int 20)), σ') ∧
    (resolveRef 3 (.deref (tk "^") (.var (tk "p")))).run.run σ' = (.ok (derefHolder locRSA2 (.int 20)), σ') := by
  obtain ⟨σ', h1, _, _, _, h5, h6, _⟩ := C09_places_copy_aliases stP (tk "<-") (tk "p") (tk "^") (tk "^") (tk "q") (tk "p") (tk "q")
    (tk "q") (tk "p") (tk "p") "IntPtr".toList _ _ locRSA2 none (.int 20) 3 tgtP tgtQ (.inr (.inr (by decide))) (.inr (.inr (by decide)))
    readsRSA2 rfl rfl (by decide)
  exact ⟨σ', h1, h5, h6⟩

/-! (4) `CALL W(p)`: the callee receives the pointer BYVAL and writes 77 through it -/
def globP : Act := writeF (varLoc 0 "p".toList) (.ptr "IntPtr".toList (some locRSA2)) glob
theorem stP_acts : stP.acts = [globP] := rfl
theorem idsBelow : IdsBelow stP := by
  intro i hi
  have h : C04.ids stP = [0] := rfl
  rw [h] at hi
  have : i = 0 := by simpa using hi
  subst this
  decide
/-- the state in which the body of `W` starts -/
def stB : St := calleeSt (procAct procW [byvalSlot "w".toList (.ptr "IntPtr".toList) (.ptr "IntPtr".toList (some locRSA2))])
  (setSwitch stP 0 (tk "CALL" 9 1))
example : (callProc 8 (tk "CALL" 9 1) "W".toList [.access (tk "p") (.var (tk "p"))]).run.run stP =
      procResult 0 ((runBlock 7 procW.body).run.run stB) ∧
    (evalExpr 3 (.access (tk "w") (.deref (tk "^") (.var (tk "w"))))).run.run stB = (.ok (.int 20), stB) := by
  obtain ⟨h1, h2, h3, _⟩ := C09_places_from_callee_byval stP globP [] (tk "CALL" 9 1) "W".toList procW "w".toList "IntPtr".toList
    (.access (tk "p") (.var (tk "p"))) locRSA2 (.int 20) 2 8 stP_acts idsBelow rfl rfl (pureAt_refAt (tk "p") (RefAt.of_hasVar (tk "p") hasP') rfl)
    readsRSA2 (by decide) (by decide)
  exact ⟨h1, (C09_places_from_callee_name stB _ _ (tk "w") _ _ locRSA2 _ 3 h2 h3 (by decide)).1⟩
example : intAt ((callProc 8 (tk "CALL" 9 1) "W".toList [.access (tk "p") (.var (tk "p"))]).run.run stP).2 locRSA2 = some 77 ∧
    ((callProc 8 (tk "CALL" 9 1) "W".toList [.access (tk "p") (.var (tk "p"))]).run.run stP).2.acts.map (·.id) = [0] := by
  decide +kernel

/-! (5) `CALL Leak()`: the global `p` gets `^loc.f`, `loc` a local record of the callee (activation 1); afterwards `p^` is dead -/
def stL : St := ((callProc 20 (tk "CALL" 9 1) "Leak".toList []).run.run exSt).2
def locLeak : Loc := ⟨1, false, "loc".toList, [.field "f".toList]⟩
theorem hasPL : HasVar stL (tk "p").val 0 (.ptr "IntPtr".toList) (.ptr "IntPtr".toList (some locLeak)) :=
  hasVarB_sound (by decide +kernel)
example : stL.acts.any (·.id == 1) = false ∧
    (evalExpr 3 pDeref).run.run stL = (.error (.diag (rtDiag stL 7 9 .deletedObject)), stL) := by
  have h := C09_places_dead_general 20 3 (tk "CALL" 9 1) "Leak".toList [] exSt (tk "p" 7 8) (tk "^" 7 9) (.var (tk "p" 7 8)) _
    "IntPtr".toList locLeak 1 (by decide) (RefAt.of_hasVar (tk "p" 7 8) hasPL) rfl (by decide)
  unfold stL
  exact ⟨h.1, h.2.1⟩
example : msgOf ((evalExpr 3 pDeref).run.run stL) = some (.deletedObject, 7, 9) ∧
    msgOf ((execAssign 3 (tk "<-") (.deref (tk "^" 8 2) (.var (tk "p"))) (lit 1)).run.run stL) = some (.deletedObject, 8, 2) ∧
    stL.nextId = 3 := by decide +kernel

/-- the state in which a parameterless procedure called from `stP` starts: the GLOBAL `p` still dereferences to `r.s.a[2]` -/
example : (evalExpr 3 pDeref).run.run (calleeSt (procAct procLeak []) (setSwitch stP 0 (tk "CALL" 9 1))) =
    (.ok (.int 20), calleeSt (procAct procLeak []) (setSwitch stP 0 (tk "CALL" 9 1))) :=
  (C09_places_from_callee_global stP globP globP [] (tk "CALL" 9 1) (procAct procLeak []) "p".toList "IntPtr".toList
    { slotP with val := .ptr "IntPtr".toList (some locRSA2) } locRSA2 (.int 20) stP_acts rfl idsBelow rfl rfl rfl rfl rfl
    hasP'.reads hasP'.notConst readsRSA2).2.2 _ _ (tk "p" 7 8) 3 rfl (by decide)

/-! ### whole programs through lexer, parser and evaluator -/
open C09ExecEx in
/-- a record with a nested record with an array member; pointers to `r.s.a[2]` and to `arr[1].f`; a copy `q <- p`; a procedure
    that receives the pointer BYVAL and writes through it (`W`), one that uses the GLOBAL pointer (`G`), one that reaches the
    pointer variable as a BYREF formal, writes through it and re-targets it (`B`) -/
example : outAndDiags (
    "TYPE IntPtr = ^INTEGER\nTYPE S\n    DECLARE a : ARRAY[1:3] OF INTEGER\nENDTYPE\nTYPE R\n    DECLARE f : INTEGER\n    DECLARE s : S\nENDTYPE\n" ++
    "TYPE E\n    DECLARE f : INTEGER\nENDTYPE\nDECLARE r : R\nDECLARE arr : ARRAY[1:2] OF E\nDECLARE p : IntPtr\nDECLARE q : IntPtr\n" ++
    "PROCEDURE W(BYVAL w : IntPtr)\n    OUTPUT w^\n    w^ <- 77\nENDPROCEDURE\n" ++
    "PROCEDURE G()\n    OUTPUT p^\n    p^ <- p^ + 1\nENDPROCEDURE\n" ++
    "PROCEDURE B(BYREF b : IntPtr)\n    b^ <- 5\n    b <- ^arr[2].f\nENDPROCEDURE\n" ++
    "r.s.a[2] <- 20\narr[1].f <- 6\np <- ^r.s.a[2]\nOUTPUT p^\nq <- p\nq^ <- 21\nOUTPUT r.s.a[2]\nOUTPUT p^\n" ++
    "CALL W(p)\nOUTPUT r.s.a[2]\nCALL G()\nOUTPUT r.s.a[2]\np <- ^arr[1].f\nCALL W(p)\nOUTPUT arr[1].f\nCALL B(p)\nOUTPUT arr[1].f\np^ <- 9\nOUTPUT arr[2].f\nOUTPUT q^\n")
    = ("20\n21\n21\n21\n77\n77\n78\n6\n77\n5\n9\n78\n", []) := by decide +kernel

def hdr : String := "TYPE IntPtr = ^INTEGER\nTYPE E\n    DECLARE f : INTEGER\nENDTYPE\nDECLARE p : IntPtr\n"
/-- leaks of `^local.field`, `^localArray[i]`, `^byvalParameter` (from a FUNCTION), a leak two calls deep that is already dead
    in the intermediate caller, and a live global target used three calls deep -/
example : C09ExecEx.outAndDiags (hdr ++ "PROCEDURE Leak()\n    DECLARE loc : E\n    loc.f <- 5\n    p <- ^loc.f\n    OUTPUT p^\nENDPROCEDURE\nCALL Leak()\nOUTPUT p^\n")
    = ("5\n\n", [(.deletedObject, 13, 9)]) := by decide +kernel
example : C09ExecEx.outAndDiags (hdr ++ "PROCEDURE LeakArr()\n    DECLARE la : ARRAY[1:2] OF INTEGER\n    la[2] <- 8\n    p <- ^la[2]\n    OUTPUT p^\nENDPROCEDURE\nCALL LeakArr()\np^ <- 1\n")
    = ("8\n\n", [(.deletedObject, 13, 2)]) := by decide +kernel
example : C09ExecEx.outAndDiags (hdr ++ "FUNCTION LeakF(BYVAL n : INTEGER) RETURNS INTEGER\n    p <- ^n\n    RETURN p^\nENDFUNCTION\nOUTPUT LeakF(4)\nOUTPUT p^\n")
    = ("4\n\n", [(.deletedObject, 11, 9)]) := by decide +kernel
example : C09ExecEx.outAndDiags (hdr ++ "PROCEDURE Inner()\n    DECLARE y : INTEGER\n    y <- 3\n    p <- ^y\nENDPROCEDURE\nPROCEDURE Outer()\n    CALL Inner()\n    OUTPUT p^\nENDPROCEDURE\nCALL Outer()\n")
    = ("\n", [(.deletedObject, 13, 13)]) := by decide +kernel
example : C09ExecEx.outAndDiags (hdr ++ "DECLARE x : INTEGER\nx <- 1\np <- ^x\nPROCEDURE D3()\n    p^ <- p^ + 1\nENDPROCEDURE\nPROCEDURE D2()\n    CALL D3()\nENDPROCEDURE\nPROCEDURE D1(BYVAL w : IntPtr)\n    CALL D2()\n    OUTPUT w^\nENDPROCEDURE\nCALL D1(p)\nOUTPUT x\n")
    = ("2\n2\n", []) := by decide +kernel

end C09PlacesEx

end Pseudo
