import Properties.C01Types
import PseudoProofs.NoCrashLAll
import PseudoProofs.NoCrashLRepl
import PseudoProofs.NoCrashLCounter
import PseudoProofs.NoCrashLCounter2
import PseudoProofs.NoCrashLCounter3
import PseudoProofs.NoCrashLParse
/-!
# C01 — "the interpreter never crashes": TYPE statements in ANY activation

`Properties/C01Types.lean` covers programs whose TYPE statements run in the global activation.  This file removes that restriction:
enum, pointer and record types may be defined inside procedures and functions (also in recursive ones, differently in every
activation, inside IF / CASE / loops).  Development `Pseudo.NL` (`PseudoProofs/NoCrashL*.lean`).

## What was found on the way

`C01.progByrefReresolve` (`PseudoProofs/NoCrashLCounter.lean`): a BYREF argument is evaluated (for the type check) and later RESOLVED A
SECOND TIME (for the alias).  If the first evaluation raises "not defined" somewhere inside (here: in a function called from an index
expression), the access node falls back to an enum element with the name of the root identifier — a value of a *global* enum type that
passes the check against the parameter type; the second resolution then succeeds and binds the alias to a record of a type that is
LOCAL to the caller; the callee looks up the caller's local enum type and finds nothing: `enumIndexOOB` in the model, a null
`EnumTypeDefinition` reference (SIGSEGV) in the C++.  Repaired in the C++ (d712123: the type of the re-resolved variable is checked
against the parameter type) and in the model (`bindParams`); `C01_byref_reresolve_refused`.  With that check no "name resolution is
stable while the arguments are evaluated" argument is needed: the alias slot's type IS the parameter type, a global type.

## The invariant

A type name means something relative to a **scope** `k` (the id of the activation whose definitions are searched first, then the global
ones — `typeScopeAct`; inside the TYPE body of a global record type the scope is the global one):

* `NL.Local σ k w` / `NL.Good σ k v`: the value predicate of `C01Types.lean`, relative to a scope; the members of a record of a local type
  are resolved in the declaring scope, those of a global record type in the global scope (`NL.compLk` returns the scope with the body);
* the slots of an activation are typed in the scope `NL.scopeAt σ id` (a record context defers to its declaring context, or to the
  global one — `NL.scopeOfL`); every readable value is good in the scope of its activation (`NL.WF.reads_good`);
* local type names are disjoint from the global ones (`NL.ActOK.disj`: a local definition of a globally visible name is refused, and
  while a non-global activation is live the global definitions do not change — `NL.Ext.gsame`); hence a value that is good in the global
  scope is good in every scope (`NL.Good.of_global`) and a value of a GLOBAL type that is good in some scope is good in the global one
  (`NL.Good.toG`: the members of a global record type have global types, and so on down every path);
* values cross scopes only with global types: parameters and return types are resolved at top level (PROCEDURE / FUNCTION definitions
  run in the global activation only — the parser refuses them elsewhere), BYREF aliases have the parameter's type (`NL.SlotOK`),
  global variables have global types, and a location reached through a reference is of a global type or belongs to the current
  scope (`NL.HolderOK`, second component; `NL.TgtOK` for pointer targets) — so every store is into a location where the stored value is
  good (`NL.run_writeAt`);
* the RETURN protocol (`PseudoProofs/NoCrashLRet.lean`, for the full language): the value read by `callFun` after the body was stored by
  a RETURN that passed the type check (`NL.fun_body_ret`), so it has the function's (global) return type and is good in the caller's
  scope after the callee's activation — and with it the callee's local types — is gone (`NL.good_after_pop`).

## The side condition

`NL.okStmt` (decidable, `NL.okSrcB`): enum types have at least one name, record TYPE bodies are DECLAREs whose array bounds are integer
literals, PROCEDURE / FUNCTION definitions occur at top level only.  The parser guarantees all of this except the literal bounds
(`NL.parse_shape`), so the final theorems `C01_no_crash_except_dynamic_record_bounds(_repl)` have ONE side condition, on the program
text: `NL.BndSrc` — in every record TYPE body of the parsed program the array bounds are integer literals (`NL.bndBlock`).  Without it
the statement is false for the model (`C01_counterexample_model_recordCopy` in `C01Exec.lean`; the C++ does not crash there).
-/
namespace Pseudo

/-- **TYPE statements anywhere: no function of the evaluator reaches a crash point** (all 25 functions, every fuel). -/
theorem C01_eval_no_crash_local : ∀ fuel, NL.AllTri fuel := NL.allTri

/-- the instance for `execStmt`: from a well-formed state whose top activation is not a record context, a statement of the sublanguage
    (`top = true` only when the global activation is the only one) keeps the invariant and raises no crash point -/
theorem C01_exec_no_crash_local (fuel : Nat) (top : Bool) (s : Stmt) (hs : NL.okStmt top s = true) (σ : St) (hW : NL.WF σ)
    (hT : NL.TopCond top σ) (hN : NL.NTop σ) :
    NL.WF ((execStmt fuel s).run.run σ).2 ∧ ∀ e, ((execStmt fuel s).run.run σ).1 = .error e → ∀ p, e ≠ .crash p := by
  obtain ⟨h1, _, h3⟩ := (NL.allTri fuel).execStmt top s hs σ hW ⟨hT, Or.inl hN⟩
  refine ⟨h1, fun e he => ?_⟩
  rw [he] at h3
  exact h3.1

theorem C01_wf_init_local (fs : List (Str × FsNode)) (stdin : Str) (p r : Bool) : NL.WF (St.init fs stdin p r) :=
  NL.WF.init fs stdin p r

/-- **file mode**: a program whose parse is in the sublanguage never ends in a crash point -/
theorem C01_no_crash_local_file (cfg : Cfg) (content : Str) (fs : List (Str × FsNode)) (stdin : Str)
    (h : NL.OkSrc cfg (content ++ ['\n'])) : (runFile cfg content fs stdin).crash = none :=
  NL.runFile_ok NL.allTri cfg content h fs stdin

/-- **REPL**: a session all of whose entries and RUNFILE'd files are in the sublanguage never ends in a crash point -/
theorem C01_no_crash_local_repl (cfg : Cfg) (fs : List (Str × FsNode)) (stdin : Str)
    (h : NL.ReplOk cfg (stdin.length + 2) true (NL.replInit cfg fs stdin)) : (repl cfg fs stdin).crash = none :=
  NL.repl_ok NL.allTri cfg fs stdin h

/-! ## the summary theorems: one side condition -/

namespace NL

/-- THE side condition: in every record TYPE body of the program that the lexer and the parser make of `src`, the array bounds are
    integer literals -/
def BndSrc (cfg : Cfg) (src : Str) : Prop :=
  ∀ toks b w, lex { pedantic := cfg.pedantic } src = .ok toks → parse { pedantic := cfg.pedantic } toks = .ok (b, w) →
    bndBlock b = true

/-- executable form of `BndSrc` -/
def bndSrcB (cfg : Cfg) (src : Str) : Bool :=
  match lex { pedantic := cfg.pedantic } src with
  | .error _ => true
  | .ok toks =>
    match parse { pedantic := cfg.pedantic } toks with
    | .error _ => true
    | .ok (b, _) => bndBlock b

theorem bndSrc_iff (cfg : Cfg) (src : Str) : BndSrc cfg src ↔ bndSrcB cfg src = true := by
  unfold BndSrc bndSrcB
  constructor
  · intro h
    cases hl : lex { pedantic := cfg.pedantic } src with
    | error d => rfl
    | ok toks =>
      dsimp only
      cases hp : parse { pedantic := cfg.pedantic } toks with
      | error e => rfl
      | ok r => obtain ⟨b, w⟩ := r; exact h toks b w hl hp
  · intro h toks b w hl hp
    rw [hl] at h; dsimp only at h; rw [hp] at h; exact h

instance (cfg : Cfg) (src : Str) : Decidable (BndSrc cfg src) := decidable_of_iff _ (bndSrc_iff cfg src).symm

/-- what the parser produces is in the sublanguage as soon as the record array bounds are literals -/
theorem okSrc_of_bnd (cfg : Cfg) (src : Str) (h : BndSrc cfg src) : OkSrc cfg src :=
  fun toks b w hl hp => ok_of_shape_bounds true b (parse_shape _ toks b w hp) (h toks b w hl hp)

end NL

/-- **C01, file mode, final form**: a program never ends in a crash point, unless a record TYPE body has an array member whose bounds
    are not integer literals (for ALL configurations, file systems and inputs) -/
theorem C01_no_crash_except_dynamic_record_bounds (cfg : Cfg) (content : Str) (fs : List (Str × FsNode)) (stdin : Str)
    (h : NL.BndSrc cfg (content ++ ['\n'])) : (runFile cfg content fs stdin).crash = none :=
  C01_no_crash_local_file cfg content fs stdin (NL.okSrc_of_bnd cfg _ h)

/-- **C01, REPL, final form**: a session never ends in a crash point, unless one of its entries or RUNFILE'd files has a record TYPE
    body with an array member whose bounds are not integer literals (`NL.ReplChk (NL.bndSrcB cfg)`: decidable, follows the session) -/
theorem C01_no_crash_except_dynamic_record_bounds_repl (cfg : Cfg) (fs : List (Str × FsNode)) (stdin : Str)
    (h : NL.ReplChk (NL.bndSrcB cfg) cfg (stdin.length + 2) true (NL.replInit cfg fs stdin)) : (repl cfg fs stdin).crash = none :=
  NL.repl_chk_ok NL.allTri cfg (NL.bndSrcB cfg) (fun src hs => NL.okSrc_of_bnd cfg src ((NL.bndSrc_iff cfg src).2 hs)) fs stdin h

/-- a program without record TYPEs at all satisfies the side condition trivially; in particular: -/
theorem C01_byref_reresolve_refused :
    (runFile {} C01.progByrefReresolve.toList [] []).crash = none ∧
    (runFile {} C01.progByrefReresolve.toList [] []).exitCode = 1 := C01.cx_byrefReresolve_refused

/-! ### non-vacuity (kernel evaluations in `PseudoProofs/NoCrashLCounter2.lean`) -/

/-- a program with procedure-level enum, pointer and record types, recursion, BYREF and RETURN of global records -/
example (fs : List (Str × FsNode)) (stdin : Str) : (runFile {} C01.progLocalTypes.toList fs stdin).crash = none :=
  C01_no_crash_local_file {} _ fs stdin NL.progLocalTypes_ok
example : (runFile {} C01.progLocalTypes.toList [] []).out = "South\nSouth\n6\n".toList := NL.progLocalTypes_runs
/-- the programs that crashed the interpreter before the repairs are programs of this sublanguage … -/
example (fs : List (Str × FsNode)) (stdin : Str) : (runFile {} C01.progEnum.toList fs stdin).crash = none :=
  C01_no_crash_local_file {} _ fs stdin NL.progEnum_ok
example (fs : List (Str × FsNode)) (stdin : Str) : (runFile {} C01.progByrefReresolve.toList fs stdin).crash = none :=
  C01_no_crash_local_file {} _ fs stdin NL.progByrefReresolve_ok
/-- … and the model-only counterexample is excluded by the one side condition -/
example : ¬ NL.BndSrc {} (C01.progRecordCopy.toList ++ ['\n']) := by decide +kernel
example : NL.BndSrc {} (C01.progLocalTypes.toList ++ ['\n']) := by decide +kernel
/-- a REPL session: a multi-line entry (a procedure with a local enum type), then a call -/
example : (repl {} [] "PROCEDURE P()\nTYPE E = (a, b)\nDECLARE x : E\nx <- b\nOUTPUT x\nENDPROCEDURE\nCALL P()\n".toList).crash = none :=
  C01_no_crash_except_dynamic_record_bounds_repl {} [] _ (by decide +kernel)

end Pseudo
