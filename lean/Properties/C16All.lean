import PseudoProofs.EvalInv2
import Properties.C16
/-!
# C16 (whole evaluator) — the handle table never holds two handles of one name, and exit closes everything

`C16_table_inv` (Properties/C16.lean) says that one step `fstep` of the pure file layer keeps
`NoDup hs := (hs.map (·.name)).Nodup`. Here the invariant is lifted to everything that runs: every statement, block,
expression, program run (`runOn`, `runSource`) and the real REPL loop — whatever way they end.
Instance of the generic theorem `eval_all` with `R σ σ' := NoDup σ.handles → NoDup σ'.handles`: the only primitives
that touch `handles` are `doFile` / `doFile0` (one `fstep`, or nothing on an error).
Also: interpreter exit (`closeAllSt`, `runFileOn`) leaves no handle open, whatever the outcome of the run.
-/
namespace Pseudo
namespace C16

/-- the handle-table invariant is not lost -/
def R (σ σ' : St) : Prop := NoDup σ.handles → NoDup σ'.handles

instance : RPre R := ⟨fun _ h => h, fun h1 h2 h => h2 (h1 h)⟩

theorem R_of_handles_eq {σ σ' : St} (h : σ'.handles = σ.handles) : R σ σ' := fun hn => by rw [h]; exact hn

theorem writeLoc_ok (Q : Stop → Prop) [QBase Q] (t : Tok) (l : Loc) (v : Val) : Ens R Q (writeLoc t l v) := by
  unfold writeLoc
  ens_auto
  all_goals exact Ens.modifyAct_of _ _ fun _ => R_of_handles_eq rfl

/-- the primitives keep the handle-table invariant -/
instance primOK (Q : Stop → Prop) [QBase Q] : PrimOK R Q :=
  primOK_build2 (fun _ _ h => R_of_handles_eq h.handles)
    (fun σ op f r hf hn => C16_table_inv { fs := σ.fs, handles := σ.handles } f op r hn hf)
    (fun _ _ => R_of_handles_eq rfl) (fun _ _ => R_of_handles_eq rfl)
    (fun _ => True) (fun _ _ _ _ => R_of_handles_eq rfl)
    (fun _ => trivial) (fun _ => trivial) (fun _ => trivial) (fun _ => trivial) (fun _ => trivial) (fun _ => trivial)
    (fun _ => trivial)
    (writeLoc_ok Q)
    (fun _ _ _ _ h hn => h hn)

theorem all (fuel : Nat) : AllEns R (fun _ => True) (fun _ => True) fuel := eval_all R _ _ fuel

theorem runMain_ok (fuel : Nat) (b : Block) : Ens R (fun _ => True) (runMain fuel b) :=
  runMain_ens fuel b ((all fuel).runBlock b)

theorem R_of_replFrame (σ σ' : St) (h : ReplFrame σ σ') : R σ σ' := R_of_handles_eq h.handles

end C16

/-- **C16 (the table invariant holds throughout).** After any statement, block, expression, program run, source text
    (lexed, parsed, run) or REPL session — however each ends — the handle table still has at most one handle per name. -/
theorem C16_table_inv_all (fuel : Nat) (σ : St) (hn : NoDup σ.handles) :
    (∀ s, NoDup ((execStmt fuel s).run.run σ).2.handles) ∧
    (∀ b, NoDup ((runBlock fuel b).run.run σ).2.handles) ∧
    (∀ e, NoDup ((evalExpr fuel e).run.run σ).2.handles) ∧
    (∀ b, NoDup (runOn fuel b σ).2.handles) ∧
    (∀ cfg src, NoDup (runSource cfg src σ).2.handles) :=
  have h := C16.all fuel
  ⟨fun s => ((h.execStmt s).run σ).1 hn, fun b => ((h.runBlock b).run σ).1 hn, fun e => ((h.evalExpr e).run σ).1 hn,
   fun b => runOn_rel2 C16.runMain_ok fuel b σ hn,
   fun cfg src => runSource_rel2 C16.R_of_replFrame C16.runMain_ok cfg src σ hn⟩

/-- … and across the real REPL loop: any number of entries, failing or not, RUNFILE included -/
theorem C16_table_inv_repl (cfg : Cfg) (n : Nat) (first : Bool) (r : ReplSt) (hn : NoDup r.st.handles) :
    NoDup (replLoop cfg n first r).st.handles :=
  replLoop_rel2 C16.R_of_replFrame C16.runMain_ok cfg n first r hn

/-- a history of entries run one after the other (`List.foldl`) -/
theorem C16_table_inv_history (fuel : Nat) (bs : List Block) (σ : St) (hn : NoDup σ.handles) :
    NoDup (bs.foldl (fun σ b => (runOn fuel b σ).2) σ).handles := by
  induction bs generalizing σ with
  | nil => exact hn
  | cons b bs ih => exact ih _ (runOn_rel2 C16.runMain_ok fuel b σ hn)

/-- the invariant holds initially (no handle) -/
theorem C16_table_inv_init (fs : List (Str × FsNode)) (stdin : Str) (p r : Bool) : NoDup (St.init fs stdin p r).handles :=
  List.nodup_nil

/-- **C16 (exit closes everything).** After the exit routine no handle is open … -/
theorem C16_exit_closes_all (s : St) : (closeAllSt s).handles = [] := rfl

/-- … and what it leaves on disk is `closeAllF` of the final file state (every modified random file written back) -/
theorem C16_exit_fs (s : St) : (closeAllSt s).fs = (closeAllF { fs := s.fs, handles := s.handles }).fs := rfl

/-- a program run in file mode ends with an empty handle table whatever the outcome (ok, diagnostic, crash point,
    fuel) — also when the program forgot CLOSEFILE or died in the middle of a file statement -/
theorem C16_runFileOn_closes_all (cfg : Cfg) (content : Str) (fs : List (Str × FsNode)) (stdin : Str) (eof : Bool) :
    (runFileOn cfg content fs stdin eof).2.handles = [] := by
  unfold runFileOn
  rfl

/-- the final file system of `runFile` is the exit write-back of the state the run ended in -/
theorem C16_runFile_fs (cfg : Cfg) (content : Str) (fs : List (Str × FsNode)) (stdin : Str) :
    ∃ s : St, (runFile cfg content fs stdin).fs = (closeAllF { fs := s.fs, handles := s.handles }).fs := by
  unfold runFile runFileOn
  refine ⟨(runSource cfg (content ++ ['\n'])
    { St.init fs stdin cfg.pedantic false with stdinEof := false, stepLimit := cfg.stepLimit, depthLimit := cfg.depthLimit }).2, ?_⟩
  dsimp only
  generalize runSource cfg (content ++ ['\n']) _ = p
  obtain ⟨o, s⟩ := p
  cases o <;> simp only [resultOf] <;> (try split) <;> rfl

/-! ### non-vacuity -/

/-- an OPENFILE statement really adds a handle (computed by the model), and the invariant holds afterwards -/
def C16.demoTok (s : String) : Tok := { k := .IDENTIFIER, line := 1, col := 1, val := s.toList }
def C16.demoSt : St := St.init [("a".toList, .file "x\n".toList)] [] false false
def C16.openA : Stmt := .openFile (C16.demoTok "OPENFILE") (.strLit (C16.demoTok "a") "a".toList) .read
example : ((execStmt 5 C16.openA).run.run C16.demoSt).2.handles.map (·.name) = ["a".toList] := by decide
example : NoDup ((execStmt 5 C16.openA).run.run C16.demoSt).2.handles :=
  (C16_table_inv_all 5 C16.demoSt List.nodup_nil).1 _
/-- opening it twice is refused: still one handle -/
example : ((runBlock 6 [C16.openA, C16.openA]).run.run C16.demoSt).2.handles.map (·.name) = ["a".toList] := by decide
/-- a run that leaves the file open: exit closes it -/
example : (closeAllSt ((execStmt 5 C16.openA).run.run C16.demoSt).2).handles = [] := C16_exit_closes_all _

end Pseudo
