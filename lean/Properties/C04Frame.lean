import PseudoProofs.FrameInvAll
import PseudoProofs.FrameInvCall
/-!
# C04 — a caller's locals are invisible to the callee: the general frame theorem

Property C04 (excerpt): "Every activation, recursive ones included, has its own locals, which no other procedure can
see and which are gone after return … BYVAL writes are invisible to the caller."

`Properties/C04Exec.lean` proves isolation for one-statement bodies.  This file proves it for EVERY statement, block and
expression of the language, by one induction on fuel over the 25 mutually recursive functions of the evaluator
(`Frame.frame_all`, files `PseudoProofs/FrameInv*.lean`).

Vocabulary (namespace `Pseudo.Frame`, `PseudoProofs/FrameInvDefs.lean`):
* `HasPtr k v`: the value `v` contains — at any depth inside records and arrays — a pointer whose target is a location of
  the activation with id `k`; `NoPtr k v := ¬ HasPtr k v`.
* `SlotClosed k s`: the cell `s` is not a BYREF alias of a location of `k` and its value is `NoPtr k`.
  `ActClosed k a`: all variables and arrays of `a` are `SlotClosed k`, and a pending RETURN value is `NoPtr k`.
* `Inv k σ` ("σ is closed w.r.t. k, and k is a non-top, non-global activation"):
  `top`: the id of the top (current) activation is not `k`; `glob`: the id of the last (global) activation is not `k`;
  `below`: `k < σ.nextId` (ids of later activations are fresh, hence `≠ k`);
  `closed`: every activation of the stack whose id is not `k` — procedure / function activations and the record contexts that
  run TYPE bodies alike — is `ActClosed k`.   Nothing is assumed about activation `k` itself (it may hold pointers to and
  aliases of anything, itself included), nor about where in the stack it is, nor that it is there at all.
* `Fr k σ σ'`: same activation ids in the same order, `σ'.acts.filter (·.id == k) = σ.acts.filter (·.id == k)` (activation
  `k` is the SAME record: variables, arrays, values, types, type definitions, RETURN value, call-position note), and the
  id counter did not decrease.
* `EnsF k P m`: from every `σ` with `Inv k σ`, the run of `m` — however it ends: normally, with a diagnostic, a crash
  point, fuel exhaustion, or a BREAK / CONTINUE / RETURN signal — ends in `σ'` with `Inv k σ'` and `Fr k σ σ'`, and a
  normal result `a` satisfies `P a`.
-/
namespace Pseudo
open Frame CallLemmas ArrayLemmas

/-- **C04, general frame theorem (all 25 evaluator functions).**  For every activation id `k` and every fuel, each function
    of the evaluator satisfies `EnsF k`: run from a state that is closed w.r.t. `k` (`Inv k σ`: `k` is neither the current nor
    the global activation, nothing outside `k` aliases or points into `k`), it leaves activation `k` exactly as it was and the
    state closed w.r.t. `k`, however the run ends.  The result predicates say that what the function returns cannot be used
    to reach `k` later: values are `NoPtr k`, resolved references (`resolveRef`) do not lie in `k`, bound parameter cells
    (`bindParams`) are `SlotClosed k`.  No hypothesis on the program: any statement, any nesting / recursion depth. -/
theorem C04_frame_all_functions (k fuel : Nat) : Frame.AllF k fuel := Frame.frame_all k fuel

/-- **C04 (a caller's locals are invisible to the callee), statements.**  Let `Inv k σ` hold (hypothesis `h`; needed: if `k`
    were the current or the global activation its variables would be in scope, and a BYREF alias or a pointer into `k` held
    outside `k` is exactly a legitimate way to reach `k`'s cells).  Then after `execStmt fuel s` — for every statement `s`,
    every fuel, and whether the run ends normally, with an error or with a signal — the activation(s) with id `k` are identical
    to what they were (same variables, arrays, values and types), the stack has the same ids, and the state is again closed
    w.r.t. `k` (so the theorem can be applied to the next statement). -/
theorem C04_frame_locals_invisible (k fuel : Nat) (s : Stmt) (σ : St) (h : Frame.Inv k σ) :
    Frame.Inv k ((execStmt fuel s).run.run σ).2 ∧
    ((execStmt fuel s).run.run σ).2.acts.filter (·.id == k) = σ.acts.filter (·.id == k) ∧
    ((execStmt fuel s).run.run σ).2.acts.map (·.id) = σ.acts.map (·.id) :=
  have h1 := ((Frame.frame_all k fuel).execStmt s).run σ h
  ⟨h1.1, h1.2.1.same, h1.2.1.ids⟩

/-- the same for a block (`runBlock`: a procedure body, a loop body, a whole program) -/
theorem C04_frame_locals_invisible_block (k fuel : Nat) (b : Block) (σ : St) (h : Frame.Inv k σ) :
    Frame.Inv k ((runBlock fuel b).run.run σ).2 ∧
    ((runBlock fuel b).run.run σ).2.acts.filter (·.id == k) = σ.acts.filter (·.id == k) ∧
    ((runBlock fuel b).run.run σ).2.acts.map (·.id) = σ.acts.map (·.id) :=
  have h1 := ((Frame.frame_all k fuel).runBlock b).run σ h
  ⟨h1.1, h1.2.1.same, h1.2.1.ids⟩

/-- the same for an expression (`evalExpr`: function calls, assignments and `<-` on pointers are expressions); in addition the
    value of the expression contains no pointer into `k` -/
theorem C04_frame_locals_invisible_expr (k fuel : Nat) (e : Expr) (σ : St) (h : Frame.Inv k σ) :
    Frame.Inv k ((evalExpr fuel e).run.run σ).2 ∧
    ((evalExpr fuel e).run.run σ).2.acts.filter (·.id == k) = σ.acts.filter (·.id == k) ∧
    ((evalExpr fuel e).run.run σ).2.acts.map (·.id) = σ.acts.map (·.id) ∧
    ∀ v, ((evalExpr fuel e).run.run σ).1 = .ok v → Frame.NoPtr k v :=
  have h1 := ((Frame.frame_all k fuel).evalExpr e).run σ h
  ⟨h1.1, h1.2.1.same, h1.2.1.ids, h1.2.2⟩

/-- … in the words of the property: the activation that `k` denotes (the first one with that id — ids are unique in
    reachable states) is found again after the block, as the very same record `A`. -/
theorem C04_frame_activation_unchanged (k fuel : Nat) (b : Block) (σ : St) (A : Act) (h : Frame.Inv k σ)
    (hA : σ.acts.find? (·.id == k) = some A) : ((runBlock fuel b).run.run σ).2.acts.find? (·.id == k) = some A := by
  have h1 := (C04_frame_locals_invisible_block k fuel b σ h).2.1
  rw [← List.head?_filter, h1, List.head?_filter]
  exact hA

/-- **C04 (BYVAL writes are invisible to the caller), any body, any number of parameters: procedures.**
    `CALL name(args)` in state `σ`; `pd` is the procedure (`hpd`), ALL its parameters are BYVAL (`hbyval`).  The arguments are
    evaluated in the caller (`hargs`; this may itself change the caller — an argument may be an assignment or a function call —
    so the statement is about the state `σ1` after it).  In `σ1` the caller `cur` is on top (`hcur`) and is not the global
    activation (`hne`, `hglob`: there is an activation below it and the last one has another id — needed: the callee sees the
    global variables); `hbelow`: its id is below the id counter (so the callee's fresh id differs); `hvals`: the argument values
    contain no pointer into `cur`, `hclosed`: no other activation holds an alias of or a pointer into `cur` (needed: these are the
    legitimate ways for a callee to write the caller's cells — BYREF aliases passed further down, `^`-pointers).
    Then — whatever the body does (assignments to the parameters, same-named locals, nested and recursive calls, errors) and
    however the call ends (normal return, arity / depth / type error, error or crash in the body) — the final state has the
    caller on top with every field except the call-position note `switchTok` unchanged: same variables, arrays, values, types. -/
theorem C04_frame_byval_call (f : Nat) (t : Tok) (name : Str) (args : List Expr) (σ σ1 : St) (pd : ProcDef)
    (vals : List Val) (cur : Act) (rest : List Act)
    (hpd : σ.procs.find? (·.name == name) = some pd)
    (hbyval : ∀ p ∈ pd.params, p.2.2 = false)
    (hargs : (evalArgs f args []).run.run σ = (.ok vals, σ1))
    (hcur : σ1.acts = cur :: rest)
    (hne : rest ≠ [])
    (hglob : ∀ g, rest.getLast? = some g → g.id ≠ cur.id)
    (hbelow : cur.id < σ1.nextId)
    (hvals : ∀ v ∈ vals, Frame.NoPtr cur.id v)
    (hclosed : ∀ a ∈ rest, a.id ≠ cur.id → Frame.ActClosed cur.id a) :
    ∃ c' rest', ((callProc (f+1) t name args).run.run σ).2.acts = c' :: rest' ∧
      { c' with switchTok := cur.switchTok } = cur :=
  Frame.callProc_byval_frame f t name args σ σ1 pd vals cur rest (Frame.frame_all cur.id f) hpd hbyval hargs hcur hne hglob
    hbelow hvals hclosed

/-- … in particular the caller's variables and arrays are what they were -/
theorem C04_frame_byval_call_vars (f : Nat) (t : Tok) (name : Str) (args : List Expr) (σ σ1 : St) (pd : ProcDef)
    (vals : List Val) (cur : Act) (rest : List Act)
    (hpd : σ.procs.find? (·.name == name) = some pd)
    (hbyval : ∀ p ∈ pd.params, p.2.2 = false)
    (hargs : (evalArgs f args []).run.run σ = (.ok vals, σ1))
    (hcur : σ1.acts = cur :: rest)
    (hne : rest ≠ [])
    (hglob : ∀ g, rest.getLast? = some g → g.id ≠ cur.id)
    (hbelow : cur.id < σ1.nextId)
    (hvals : ∀ v ∈ vals, Frame.NoPtr cur.id v)
    (hclosed : ∀ a ∈ rest, a.id ≠ cur.id → Frame.ActClosed cur.id a) :
    ∃ c' rest', ((callProc (f+1) t name args).run.run σ).2.acts = c' :: rest' ∧
      c'.id = cur.id ∧ c'.vars = cur.vars ∧ c'.arrs = cur.arrs := by
  obtain ⟨c', rest', h1, h2⟩ := C04_frame_byval_call f t name args σ σ1 pd vals cur rest hpd hbyval hargs hcur hne hglob
    hbelow hvals hclosed
  refine ⟨c', rest', h1, ?_⟩
  rw [← h2]
  exact ⟨rfl, rfl, rfl⟩

/-- **C04 (BYVAL writes are invisible to the caller): functions.**  The same for a call `name(args)` of a user function (or a
    built-in one) inside an expression: `fd` is the function the name denotes (`hfd`), all its parameters are BYVAL; the other
    hypotheses are those of `C04_frame_byval_call`.  Whatever the body does and however the call ends (RETURN, missing RETURN,
    errors), the caller is on top of the final stack with everything but its call-position note unchanged. -/
theorem C04_frame_byval_callFun (f : Nat) (t : Tok) (args : List Expr) (σ σ1 : St) (fd : FunDef)
    (vals : List Val) (cur : Act) (rest : List Act)
    (hfd : funLookup σ t.val = some fd)
    (hbyval : ∀ p ∈ fd.params, p.2.2 = false)
    (hargs : (evalArgs f args []).run.run σ = (.ok vals, σ1))
    (hcur : σ1.acts = cur :: rest)
    (hne : rest ≠ [])
    (hglob : ∀ g, rest.getLast? = some g → g.id ≠ cur.id)
    (hbelow : cur.id < σ1.nextId)
    (hvals : ∀ v ∈ vals, Frame.NoPtr cur.id v)
    (hclosed : ∀ a ∈ rest, a.id ≠ cur.id → Frame.ActClosed cur.id a) :
    ∃ c' rest', ((callFun (f+1) t args).run.run σ).2.acts = c' :: rest' ∧
      { c' with switchTok := cur.switchTok } = cur :=
  Frame.callFun_byval_frame f t args σ σ1 fd vals cur rest (Frame.frame_all cur.id f) hfd hbyval hargs hcur hne hglob
    hbelow hvals hclosed

/-! ### non-vacuity: a concrete two-deep stack, a procedure with two BYVAL parameters -/

namespace C04Frame
def tk (s : String) (l : Nat := 1) (c : Nat := 1) : Tok := { k := .IDENTIFIER, line := l, col := c, val := s.toList }
def lit (n : Int) : Expr := .intLit (tk "lit") n
def var (s : String) : Expr := .access (tk s) (.var (tk s))
def asg (s : String) (n : Int) (l : Nat) : Stmt := .expr (.assign (tk "<-" l 3) (.var (tk s l 1)) (lit n))

/-- `PROCEDURE P(a : INTEGER, b : INTEGER)  a <- 10  b <- 20  x <- 99  ENDPROCEDURE`: assigns to both parameters and to `x`,
    which names a local of the caller — in the callee it becomes a new local of its own -/
def procP : ProcDef :=
  { name := "P".toList, params := [("a".toList, .int, false), ("b".toList, .int, false)],
    body := [asg "a" 10 2, asg "b" 20 3, asg "x" 99 4] }

def globA : Act := { id := 0, name := "Program".toList }
/-- the caller: a procedure activation (not the global one) with locals `x = 5`, `y = 7` -/
def curA : Act :=
  { id := 1, name := "Main".toList,
    vars := [{ name := "x".toList, ty := .int, val := .int 5 }, { name := "y".toList, ty := .int, val := .int 7 }] }

/-- a two-deep stack: `Main` (current) above the global activation -/
def exSt : St := { acts := [curA, globA], nextId := 2, procs := [procP] }

def intOf : Val → Option Int
  | .int n => some n
  | _ => none

/-- what is observed of a state: per activation its id and the names and (integer) values of its variables -/
def view (σ : St) : List (Nat × List (String × Option Int)) :=
  σ.acts.map fun a => (a.id, a.vars.map fun s => (String.ofList s.name, intOf s.val))

def callP : M Unit := callProc (9+1) (tk "CALL" 9 1) "P".toList [var "x", var "y"]

/-- the state inside the callee, just before it returns: its own `a`, `b`, `x` were written; the caller's `x`, `y` are intact -/
def bodySt : St :=
  ((runBlock 9 procP.body).run.run (calleeSt (procAct procP [byvalSlot "a".toList .int (.int 5), byvalSlot "b".toList .int (.int 7)])
    (setSwitch exSt 1 (tk "CALL" 9 1)))).2
end C04Frame

open C04Frame in
/-- the concrete run, evaluated: `CALL P(x, y)` from `Main` ends normally and `Main` still has `x = 5`, `y = 7` -/
theorem C04_frame_example_run :
    view (callP.run.run exSt).2 = [(1, [("x", some 5), ("y", some 7)]), (0, [])] := by decide +kernel

open C04Frame in
/-- … although the body did assign: at its end the callee (id 2) holds `a = 10`, `b = 20` and its own `x = 99` -/
theorem C04_frame_example_body :
    view bodySt = [(2, [("a", some 10), ("b", some 20), ("x", some 99)]), (1, [("x", some 5), ("y", some 7)]), (0, [])] := by
  decide +kernel

open C04Frame in
/-- the arguments `x`, `y` of the example evaluate (purely) to 5 and 7 -/
theorem C04Frame.ex_hargs : (evalArgs 9 [var "x", var "y"] []).run.run exSt = (.ok [.int 5, .int 7], exSt) := by
  have h := run_evalArgs_pure exSt 2 [var "x", var "y"] [.int 5, .int 7] [] 9
    ⟨pureAt_var exSt curA globA [globA] (tk "x") (tk "x") curA _ (.int 5) rfl rfl rfl rfl,
     pureAt_var exSt curA globA [globA] (tk "y") (tk "y") curA _ (.int 7) rfl rfl rfl rfl, trivial⟩ (by decide)
  exact h

open C04Frame in
theorem C04Frame.ex_hvals : ∀ v ∈ [Val.int 5, Val.int 7], Frame.NoPtr curA.id v := by
  intro v hv
  simp only [List.mem_cons, List.not_mem_nil, or_false] at hv
  rcases hv with rfl | rfl <;> (intro h; cases h)

open C04Frame in
theorem C04Frame.ex_hclosed : ∀ a ∈ [globA], a.id ≠ curA.id → Frame.ActClosed curA.id a := by
  intro a ha _
  simp only [List.mem_cons, List.not_mem_nil, or_false] at ha
  subst ha
  exact Frame.actClosed_of rfl rfl (by intro s hs; simp [globA] at hs)

open C04Frame in
/-- the same obtained from `C04_frame_byval_call_vars` (all hypotheses hold of the concrete state): the caller's variables after the
    call are the caller's variables before it -/
theorem C04_frame_example_from_theorem :
    ∃ c' rest', ((callProc (9+1) (tk "CALL" 9 1) "P".toList [var "x", var "y"]).run.run exSt).2.acts = c' :: rest' ∧
      c'.id = curA.id ∧ c'.vars = curA.vars ∧ c'.arrs = curA.arrs :=
  C04_frame_byval_call_vars 9 (tk "CALL" 9 1) "P".toList [var "x", var "y"] exSt exSt procP [.int 5, .int 7] curA [globA]
    rfl (by decide) ex_hargs rfl (List.cons_ne_nil _ _) (by intro g hg; cases hg; decide) (by decide) ex_hvals ex_hclosed

open C04Frame in
/-- non-vacuity of `C04_frame_locals_invisible`: the callee's start state of the example is closed w.r.t. the caller (id 1), which is
    there neither the top nor the global activation; so the whole body leaves activation 1 untouched -/
theorem C04_frame_example_inv :
    Frame.Inv 1 (calleeSt (procAct procP [byvalSlot "a".toList .int (.int 5), byvalSlot "b".toList .int (.int 7)])
      (setSwitch exSt 1 (tk "CALL" 9 1))) := by
  refine ⟨?_, ?_, by decide, ?_⟩
  · intro i hi; cases hi; decide
  · intro i hi; cases hi; decide
  · show ∀ a ∈ [procAct procP [byvalSlot "a".toList .int (.int 5), byvalSlot "b".toList .int (.int 7)] 2,
        { curA with switchTok := some (9, 1) }, globA], a.id ≠ 1 → Frame.ActClosed 1 a
    intro a ha hne
    rcases List.mem_cons.1 ha with rfl | ha
    · refine Frame.actClosed_of rfl rfl ?_
      intro s hs
      rcases List.mem_cons.1 hs with rfl | hs
      · exact Frame.slotClosed_plain (Frame.noPtr_implicitCast _ (Frame.noPtr_int _))
      · rcases List.mem_cons.1 hs with rfl | hs
        · exact Frame.slotClosed_plain (Frame.noPtr_implicitCast _ (Frame.noPtr_int _))
        · cases hs
    · rcases List.mem_cons.1 ha with rfl | ha
      · exact absurd rfl hne
      · rcases List.mem_cons.1 ha with rfl | ha
        · exact Frame.actClosed_of rfl rfl (by intro s hs; cases hs)
        · cases ha

end Pseudo
