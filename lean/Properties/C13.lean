import PseudoProofs.CodecLemmas
/-!
# C13 — records written to a random file read back exactly

Model: `Pseudo.Codec` (`dump`, `load`, `escNL`/`unescNL`, `renderFile`/`loadFile`).
Helper lemmas: `PseudoProofs/CodecLemmas.lean`.

Trusted (modelled library behaviour, stated as a hypothesis): the single field `double_rt` of
`ReaderLaws` — `istream >> double` reads back what `printf("%.17g")` printed, bit-exactly, for the
REALs selected by `Fin` ("finite normal").  The other three fields of `ReaderLaws` (the integer
extractors) are *theorems* of the model (`C13_readerLaws_of_real`), and so is "the REAL printer
never emits a line break" (`noNL_fmtG`), hence `C13_dump_framed` has no library hypothesis at all.

Vocabulary (defined in `CodecLemmas`):
* `SepOK rest` — `rest` is empty or starts with a blank: what follows a value inside a record text.
* `Storable Fin defs v` — the value can be stored: INTEGER in the `long` range, REAL satisfying `Fin`,
  DATE valid or never assigned, enum / record type names that are single words whose definition
  `defs` shows, enum position inside the definition, STRING payload shorter than 10^18 bytes and
  array / enum positions below 2^64 (limits of the length fields), parts recursively; no pointer,
  no `.none`.
* `SameShape v cur` — the variable loaded into has the type and shape of `v`.
* `Tight v` — no empty record and no empty array inside `v`.
* `Clean v` — enum / record type names contain no line break (parts recursively), no pointer / `.none`.
-/
namespace Pseudo.Codec
open FloatFmt

/-! ## 1. line-break escaping -/

/-- Un-escaping undoes escaping, for every byte string (line breaks, `#`, blanks, empty). -/
theorem C13_unesc_esc : ∀ s : Str, unescNL (escNL s) = s :=
  fun s => unescAux_escNL s

/-! ## 2. every record text is framed -/

/-- The record text of every storable value is non-empty, does not start with `#`, and each of
    its line breaks is followed by `#` — no hypothesis about the number printers is needed. -/
theorem C13_dump_framed : ∀ v : Val, Clean v → Framed (dump v) :=
  fun v h => framed_dump v h

/-- the same for the values `C13_load_dump` speaks about -/
theorem C13_dump_framed_storable (Fin : Float → Prop) (defs : Defs) :
    ∀ v : Val, Storable Fin defs v → Framed (dump v) :=
  fun v h => framed_dump v (clean_of_storable Fin defs v h)

/-- what the values excluded by `Clean` produce: a pointer (or `.none`) has the empty record text,
    which is not framed (the interpreter rejects PUTRECORD of a pointer before `dump`). -/
theorem C13_dump_ptr_not_framed (ty : Str) (t : Option Loc) : ¬ Framed (dump (.ptr ty t)) := by
  rw [dump_ptr]; exact fun h => h.1 rfl

/-! ## 3. the file container: physical lines vs logical records -/

/-- Writing framed records to the file text and splitting the text again (re-joining the
    continuation lines that start with `#`, dropping the empty tail) gives the same records. -/
theorem C13_file_roundtrip : ∀ rs : List Str, (∀ r ∈ rs, Framed r) → loadFile (renderFile rs) = rs :=
  fun rs h => loadFile_renderFile rs h

/-- CLOSEFILE / OPENFILE (or a later run) on a file holding dumped values: identity on the records. -/
theorem C13_reopen (vs : List Val) (h : ∀ v ∈ vs, Clean v) :
    loadFile (renderFile (vs.map dump)) = vs.map dump := by
  apply C13_file_roundtrip
  intro r hr
  obtain ⟨v, hv, rfl⟩ := List.mem_map.mp hr
  exact C13_dump_framed v (h v hv)

/-! ## 4. `load ∘ dump` -/

/-- The integer extractors need no assumption: `ReaderLaws` follows from its REAL field alone. -/
theorem C13_readerLaws_of_real (Fin : Float → Prop)
    (h : ∀ (x : Float) (rest : Str), Fin x → SepOK rest →
      istreamReadDouble (fmtG 17 x ++ rest) = some (x, rest)) : ReaderLaws Fin :=
  readerLaws_of_double Fin h

/-- BOOLEAN, CHAR (every code: line break, `#`, blank …) and STRING (any bytes) read back exactly,
    at any position of a record — no library hypothesis. -/
theorem C13_load_dump_scalar (defs : Defs) (rest : Str) :
    (∀ b' b : Bool, SepOK rest → load defs (.bool b') (dump (.bool b) ++ rest) = some (.bool b, rest)) ∧
    (∀ c' c : Char, load defs (.chr c') (dump (.chr c) ++ rest) = some (.chr c, rest)) ∧
    (∀ s' s : Str, (escNL s).length < 10 ^ 18 →
      load defs (.str s') (dump (.str s) ++ rest) = some (.str s, rest)) :=
  ⟨fun b' b hr => load_bool defs b' b rest hr,
   fun c' c => load_chr defs c' c rest,
   fun s' s hl => load_str defs s' s rest hl⟩

/-- INTEGER, REAL, DATE and enum values read back exactly (INTEGER, DATE, enum: unconditionally,
    take `readerLaws_noReal`; REAL under the 17-digit law). -/
theorem C13_load_dump_number (Fin : Float → Prop) (L : ReaderLaws Fin) (defs : Defs) (rest : Str)
    (hr : SepOK rest) :
    (∀ m n : Int, InRange64 n → load defs (.int m) (dump (.int n) ++ rest) = some (.int n, rest)) ∧
    (∀ y x : Float, Fin x → load defs (.real y) (dump (.real x) ++ rest) = some (.real x, rest)) ∧
    (∀ (t' t : Calendar.Date) (d m y : Int), Calendar.setDate d m y = some t →
      load defs (.date t') (dump (.date t) ++ rest) = some (.date t, rest)) ∧
    (∀ t' : Calendar.Date,
      load defs (.date t') (dump (.date ⟨0, 0, 0⟩) ++ rest) = some (.date ⟨0, 0, 0⟩, rest)) ∧
    (∀ (ty : Str) (vals : List Str) (j i : Nat), WordOK ty → defs.enumDef ty = some (ty, vals) →
      i < vals.length → i < 2 ^ 64 →
      load defs (.enum ty j) (dump (.enum ty i) ++ rest) = some (.enum ty i, rest)) := by
  refine ⟨fun m n hn => load_int Fin L defs m n rest hn hr,
    fun y x hx => load_real Fin L defs y x rest hx hr, ?_,
    fun t' => load_date_zero Fin L defs t' rest hr,
    fun ty vals j i hty hdef hi hi64 => load_enum Fin L defs ty j i vals rest hty hdef hi hi64 hr⟩
  intro t' t d m y hset
  unfold Calendar.setDate at hset
  split at hset
  · rename_i hv
    injection hset with hset
    subst hset
    exact load_date_valid Fin L defs t' _ rest hv hr
  · cases hset

/-- **Every value type, by induction over the value** (arrays, records with nested records and
    several array fields): loading the record text of `v` into a variable of the same shape
    yields `v`; what is left unread is `rest`, preceded by at most the separator blank of an
    empty record / empty array (`pad`), and exactly `rest` when `v` is `Tight`. -/
theorem C13_load_dump (Fin : Float → Prop) (L : ReaderLaws Fin) (defs : Defs) (v cur : Val)
    (hv : Storable Fin defs v) (hcur : SameShape v cur) (rest : Str) (hr : SepOK rest) :
    ∃ pad, AllSp pad ∧ (Tight v → pad = []) ∧ load defs cur (dump v ++ rest) = some (v, pad ++ rest) :=
  load_dump_val Fin L defs v cur hv hcur rest hr

/-- the statement as the design gives it, for values without empty records / arrays -/
theorem C13_load_dump_tight (Fin : Float → Prop) (L : ReaderLaws Fin) (defs : Defs) (v cur : Val)
    (hv : Storable Fin defs v) (hcur : SameShape v cur) (ht : Tight v) (rest : Str) (hr : SepOK rest) :
    load defs cur (dump v ++ rest) = some (v, rest) := by
  obtain ⟨pad, _, hp, e⟩ := C13_load_dump Fin L defs v cur hv hcur rest hr
  rw [hp ht] at e
  simpa using e

/-- GETRECORD after PUTRECORD (the interpreter keeps the value and ignores the unread tail):
    the value read is the value written — for *every* storable value, empty records included. -/
theorem C13_get_put (Fin : Float → Prop) (L : ReaderLaws Fin) (defs : Defs) (v cur : Val)
    (hv : Storable Fin defs v) (hcur : SameShape v cur) :
    (load defs cur (dump v)).map Prod.fst = some v := by
  obtain ⟨pad, _, _, e⟩ := C13_load_dump Fin L defs v cur hv hcur [] sepOK_nil
  rw [List.append_nil] at e
  rw [e]; rfl

/-- … also after CLOSEFILE / OPENFILE or in a later run: record `i` of the re-read file text
    still loads to the `i`-th value. -/
theorem C13_get_put_reopen (Fin : Float → Prop) (L : ReaderLaws Fin) (defs : Defs) (vs : List Val)
    (hvs : ∀ v ∈ vs, Storable Fin defs v) (i : Nat) (v cur : Val) (hi : vs[i]? = some v)
    (hcur : SameShape v cur) :
    ∃ r, (loadFile (renderFile (vs.map dump)))[i]? = some r ∧ (load defs cur r).map Prod.fst = some v := by
  rw [C13_reopen vs (fun w hw => clean_of_storable Fin defs w (hvs w hw))]
  refine ⟨dump v, by simp [hi], ?_⟩
  exact C13_get_put Fin L defs v cur (hvs v (List.mem_of_getElem? hi)) hcur

/-- Why `pad` is there (found while proving): the literal statement `… = some (v, rest)` is FALSE for
    an empty record — its text is `"COMPOSITE ty "`, and `load` stops after the type name, so the
    separator blank stays unread. (Harmless: every `load` starts by skipping blanks, `load_skip`.) -/
theorem C13_empty_record_pad (defs : Defs) (ty : Str) (hty : WordOK ty) (hdef : defs.compDef ty = some ty)
    (rest : Str) :
    load defs (.comp ty []) (dump (.comp ty []) ++ rest) = some (.comp ty [], ' ' :: rest) := by
  rw [dump_comp]
  simp only [List.append_assoc, List.cons_append]
  simp only [load]
  rw [expectWord_tag _ _ (by decide)]
  simp only [Option.bind_eq_bind, Option.bind_some, readWord_sp]
  rw [readWord_word _ _ hty (sepOK_sp _)]
  simp [hdef, dumpFields_nil, joinSp, loadFields_nil, mergeFields]

/-! ## 5. type mismatch -/

/-- Loading a record whose type tag differs from the variable's type fails (→ runtime error):
    `cur`, `v` any two of INTEGER / REAL / BOOLEAN / CHAR / STRING / DATE / enum / record / array
    with different constructors (`tagOf` is the tag word; `tagOf v ≠ ""` says `v` is not a pointer
    or `.none`, which have no record text). No hypothesis on `rest`, none on the libraries. -/
theorem C13_mismatch (defs : Defs) (cur v : Val) (rest : Str) (hv : tagOf v ≠ "")
    (h : tagOf cur ≠ tagOf v) : load defs cur (dump v ++ rest) = none :=
  load_mismatch defs cur v rest hv h

/-- same tag, different enum type: rejected (a definition looked up by name carries that name) -/
theorem C13_mismatch_enum (defs : Defs) (ty ty' : Str) (i j : Nat) (rest : Str) (hty : WordOK ty)
    (hname : ∀ dn vals, defs.enumDef ty = some (dn, vals) → dn = ty) (hne : ty ≠ ty') :
    load defs (.enum ty' j) (dump (.enum ty i) ++ rest) = none :=
  load_mismatch_enum defs ty ty' i j rest hty hname hne

/-- same tag, different record type: rejected -/
theorem C13_mismatch_record (defs : Defs) (ty ty' : Str) (fs gs : List (Str × Val)) (rest : Str)
    (hty : WordOK ty) (hname : ∀ dn, defs.compDef ty = some dn → dn = ty) (hne : ty ≠ ty') :
    load defs (.comp ty' gs) (dump (.comp ty fs) ++ rest) = none :=
  load_mismatch_comp defs ty ty' fs gs rest hty hname hne

/-- an array of another length: rejected -/
theorem C13_mismatch_array_length (defs : Defs) (e e' : Ty) (d d' : List (Int × Int))
    (cells cs : List Val) (rest : Str) (hlen : cells.length < 2 ^ 64) (hne : cells.length ≠ cs.length) :
    load defs (.arr e' d' cs) (dump (.arr e d cells) ++ rest) = none :=
  load_mismatch_arr _ readerLaws_noReal defs e e' d d' cells cs rest hlen hne

/-! ## 6. non-vacuity: concrete values satisfying the hypotheses -/

section Examples

/-- one enum type `Col = (R, G)`, record types `Rec` and `Empty` -/
def exDefs : Defs :=
  { enumDef := fun n => if n = "Col".toList then some ("Col".toList, ["R".toList, "G".toList]) else none
    compDef := fun n => if n = "Rec".toList ∨ n = "Empty".toList then some n else none }

/-- a record with scalar fields of every type (CHAR line break, STRING with line break / `#` / blank /
    empty), a nested record and two array fields -/
def exVal : Val :=
  .comp "Rec".toList
    [ ("n".toList, .int (-9223372036854775808)),
      ("b".toList, .bool true),
      ("c".toList, .chr '\n'),
      ("h".toList, .chr '#'),
      ("s".toList, .str ['a', '\n', '#', ' ', '\n']),
      ("z".toList, .str []),
      ("d".toList, .date ⟨2024, 2, 29⟩),
      ("u".toList, .date ⟨0, 0, 0⟩),
      ("e".toList, .enum "Col".toList 1),
      ("xs".toList, .arr .chr [(1, 2)] [.chr ' ', .chr '\n']),
      ("r".toList, .comp "Rec".toList [("q".toList, .str ['\n'])]),
      ("ys".toList, .arr .int [(0, 0)] [.int 7]) ]

/-- the variable it is loaded into: same shape, other contents -/
def exCur : Val :=
  .comp "Rec".toList
    [ ("n".toList, .int 0),
      ("b".toList, .bool false),
      ("c".toList, .chr 'x'),
      ("h".toList, .chr 'x'),
      ("s".toList, .str []),
      ("z".toList, .str ['q']),
      ("d".toList, .date ⟨0, 0, 0⟩),
      ("u".toList, .date ⟨1999, 1, 1⟩),
      ("e".toList, .enum "Col".toList 0),
      ("xs".toList, .arr .chr [(1, 2)] [.chr 'a', .chr 'b']),
      ("r".toList, .comp "Rec".toList [("q".toList, .str [])]),
      ("ys".toList, .arr .int [(0, 0)] [.int 0]) ]

theorem exVal_storable : Storable (fun _ => False) exDefs exVal := by
  simp only [exVal, Storable, StorableFields, StorableList]
  refine ⟨by decide, by simp [exDefs], by decide, trivial, trivial, trivial, by decide, by decide,
    Or.inr (by decide), Or.inl rfl, ⟨by decide, by decide, ["R".toList, "G".toList], by simp [exDefs], by decide⟩,
    ⟨by decide, trivial, trivial, trivial⟩, ⟨by decide, by simp [exDefs], by decide, trivial⟩,
    ⟨by decide, by decide, trivial⟩, trivial⟩

theorem exVal_sameShape : SameShape exVal exCur := by
  unfold exVal exCur
  repeat' first
    | exact sameShapeFields_nil
    | exact sameShapeList_nil
    | exact sameShape_int _ _
    | exact sameShape_bool _ _
    | exact sameShape_chr _ _
    | exact sameShape_str _ _
    | exact sameShape_date _ _
    | exact sameShape_enum _ _ _
    | apply sameShapeFields_cons
    | apply sameShapeList_cons
    | apply sameShape_comp
    | apply sameShape_arr

theorem exVal_tight : Tight exVal := by
  simp [exVal, Tight, TightFields, TightList]

/-- `ReaderLaws` is satisfiable (outright when no REAL is allowed; with REALs it is exactly the
    17-digit round trip of the C library) -/
example : ReaderLaws (fun _ => False) := readerLaws_noReal

/-- the hypotheses of `C13_load_dump` / `C13_load_dump_tight` / `C13_get_put` hold for `exVal`, `exCur` -/
example : load exDefs exCur (dump exVal ++ ' ' :: dump exVal) = some (exVal, ' ' :: dump exVal) :=
  C13_load_dump_tight _ readerLaws_noReal exDefs exVal exCur exVal_storable exVal_sameShape exVal_tight _
    (sepOK_sp _)

example : (load exDefs exCur (dump exVal)).map Prod.fst = some exVal :=
  C13_get_put _ readerLaws_noReal exDefs exVal exCur exVal_storable exVal_sameShape

/-- `C13_dump_framed`, `C13_dump_framed_storable`: a STRING with a line break; the big record -/
example : Clean (.str ['a', '\n', 'b']) := by simp [Clean]
example : Framed (dump (.str ['a', '\n', 'b'])) := C13_dump_framed _ (by simp [Clean])
example : Framed (dump exVal) := C13_dump_framed_storable _ exDefs exVal exVal_storable

/-- `C13_file_roundtrip` / `C13_reopen`: a record that spans two physical lines, first in the file -/
example : Framed ['a', '\n', '#', 'b'] := by
  refine ⟨by simp, by simp, ?_⟩
  simp [FramedTail]
example : loadFile (renderFile [['a', '\n', '#', 'b'], ['c']]) = [['a', '\n', '#', 'b'], ['c']] := by decide
example : loadFile (renderFile ([.str ['\n'], exVal].map dump)) = [.str ['\n'], exVal].map dump :=
  C13_reopen _ (by
    intro v hv
    simp only [List.mem_cons, List.mem_nil_iff, or_false] at hv
    rcases hv with rfl | rfl
    · simp [Clean]
    · exact clean_of_storable _ exDefs _ exVal_storable)

/-- `C13_load_dump_scalar`, `C13_load_dump_number`: `SepOK`, the length bound, a valid date, a visible enum -/
example : SepOK [] ∧ SepOK [' ', 'X'] := ⟨sepOK_nil, sepOK_sp _⟩
example : (escNL ['\n', '#', ' ']).length < 10 ^ 18 := by decide
example : InRange64 (-9223372036854775808) := by decide
example : Calendar.setDate 29 2 2024 = some ⟨2024, 2, 29⟩ := by decide
example : WordOK "Col".toList ∧ exDefs.enumDef "Col".toList = some ("Col".toList, ["R".toList, "G".toList]) :=
  ⟨by decide, by simp [exDefs]⟩

/-- `C13_empty_record_pad` -/
example : WordOK "Empty".toList ∧ exDefs.compDef "Empty".toList = some "Empty".toList :=
  ⟨by decide, by simp [exDefs]⟩

/-- `C13_mismatch`: a STRING record read into an INTEGER variable; an INTEGER record into a record variable -/
example (n : Int) (s rest : Str) : load exDefs (.int n) (dump (.str s) ++ rest) = none :=
  C13_mismatch _ _ _ _ (by simp [tagOf]) (by simp [tagOf])
example (fs : List (Str × Val)) (rest : Str) :
    load exDefs (.comp "Rec".toList fs) (dump (.int 5) ++ rest) = none :=
  C13_mismatch _ _ _ _ (by simp [tagOf]) (by simp [tagOf])

/-- `C13_mismatch_enum` / `_record` / `_array_length` -/
example : (∀ dn vals, exDefs.enumDef "Col".toList = some (dn, vals) → dn = "Col".toList) ∧
    "Col".toList ≠ "Dir".toList := by
  refine ⟨?_, by decide⟩
  intro dn vals h
  simp [exDefs] at h
  exact h.1.symm
example : (∀ dn, exDefs.compDef "Rec".toList = some dn → dn = "Rec".toList) ∧
    "Rec".toList ≠ "Empty".toList := by
  refine ⟨?_, by decide⟩
  intro dn h
  simp [exDefs] at h
  exact h.symm
example : [Val.int 1, .int 2].length < 2 ^ 64 ∧ [Val.int 1, .int 2].length ≠ [Val.int 0].length := by
  decide

end Examples

end Pseudo.Codec
