import PseudoModel.Lexer
/-!
# C20 (core) — without --pedantic the word lexer never rejects; with it, it rejects exactly BREAK and CONTINUE
(the simulation theorems for the whole lexer and parser are in Properties/C20.lean)
-/
namespace Pseudo

theorem C20_makeWord_nonpedantic (c : Cur) : ∃ r, makeWord { pedantic := false } c = .ok r := by
  simp only [makeWord]
  split
  · simp
  · exact ⟨_, rfl⟩

theorem C20_makeWord_pedantic_only_break_continue (c : Cur) (d : Diag) (h : makeWord { pedantic := true } c = .error d) :
    d.kind = .pedantic ∧ (d.msg = .pedBreak ∨ d.msg = .pedContinue) := by
  simp only [makeWord, Bool.true_and] at h
  split at h
  · split at h
    · cases h; exact ⟨rfl, Or.inl rfl⟩
    · split at h
      · cases h; exact ⟨rfl, Or.inr rfl⟩
      · simp at h
  · simp at h

example : ∃ d, lex { pedantic := true } "BREAK".toList = .error d ∧ d.kind = .pedantic := ⟨_, rfl, rfl⟩
example : ∃ ts, lex { pedantic := false } "BREAK".toList = .ok ts := ⟨_, rfl⟩

end Pseudo
