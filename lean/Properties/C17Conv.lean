import PseudoProofs.ConvLemmas
/-!
# C17 — the string → number conversions

"every string of decimal digits … is converted by INTEGER() to the number it denotes; text that is not a numeral
converts to 0".

`INTEGER(<string>)` is `castTo .int (.str s) = .ok (.int (strToInteger s))` (`Numeric.lean`), and
`strToInteger` is a *full-match* `strtol(c_str, &end, 10)`: the C string (the bytes up to the first NUL) must be
non-empty and consumed entirely, otherwise the result is 0.

* `C17_int_of_digits`, `C17_int_of_signed_digits`, `C17_int_of_blank_sign_digits`: value on numerals;
* `C17_int_nonzero_shape`: the only strings with a non-zero value are blanks, optional sign, digits;
* `C17_non_numeral_zero` and corollaries: everything else gives 0;
* `C17_cast_int_of_digits`: the same at the level of the cast `INTEGER(s)`;
* `C17_real_of_digits`: `REAL(<digits>)` is the correctly rounded value of the number.
-/
namespace Pseudo
open FloatFmt

theorem strToInteger_eq (s : Str) :
    strToInteger s = if ((cstr s).isEmpty || (strtol10 (cstr s)).2.1 != (cstr s).length) = true then 0
      else (strtol10 (cstr s)).1 := rfl

/-- `strToInteger` through the shape lemma: blanks, optional sign, digits (value within `long`). -/
theorem C17_int_of_blank_sign_digits (ws sg ds : Str) (neg : Bool)
    (hws : ∀ c ∈ ws, isSpaceC c = true) (hsg : IsSign sg neg) (hne : ds ≠ [])
    (hd : ∀ c ∈ ds, isDigit c = true)
    (hrange : if neg then (digitsVal ds : Int) ≤ two63 else (digitsVal ds : Int) < two63) :
    strToInteger (ws ++ (sg ++ ds)) = if neg then -(digitsVal ds : Int) else digitsVal ds := by
  have hnn : ∀ c ∈ ws ++ (sg ++ ds), (c != Char.ofNat 0) = true := by
    intro c hc
    rcases List.mem_append.1 hc with h | h
    · exact isSpaceC_ne_nul c (hws c h)
    · rcases List.mem_append.1 h with h | h
      · cases hsg with
        | none => simp at h
        | minus => simp at h; subst h; decide
        | plus => simp at h; subst h; decide
      · exact isDigit_ne_nul c (hd c h)
  have hst := strtol10_blank_sign_digits ws sg ds [] neg hws hsg hne hd (by simp) hrange
  rw [List.append_nil] at hst
  rw [strToInteger_eq, cstr_of_noNul _ hnn, hst]
  have hemp : (ws ++ (sg ++ ds)).isEmpty = false := Codec.isEmpty_false_of_ne_nil (by simp [hne])
  simp only [hemp, List.length_append, Bool.false_or]
  simp [Nat.add_assoc]

/-- **every string of decimal digits is converted by `INTEGER()` to the number it denotes** (as long as that number
    is a `long`, i.e. `< 2^63`; beyond, `strtol` clamps). -/
theorem C17_int_of_digits (ds : Str) (hne : ds ≠ []) (hd : ∀ c ∈ ds, isDigit c = true)
    (hrange : (digitsVal ds : Int) < two63) : strToInteger ds = digitsVal ds := by
  have := C17_int_of_blank_sign_digits [] [] ds false (by simp) .none hne hd (by simpa using hrange)
  simpa using this

/-- a leading `-` gives the negative (down to `-2^63`), a leading `+` is accepted -/
theorem C17_int_of_signed_digits (ds : Str) (hne : ds ≠ []) (hd : ∀ c ∈ ds, isDigit c = true) :
    ((digitsVal ds : Int) ≤ two63 → strToInteger ('-' :: ds) = -(digitsVal ds : Int)) ∧
    ((digitsVal ds : Int) < two63 → strToInteger ('+' :: ds) = digitsVal ds) := by
  constructor
  · intro h
    have := C17_int_of_blank_sign_digits [] ['-'] ds true (by simp) .minus hne hd (by simpa using h)
    simpa using this
  · intro h
    have := C17_int_of_blank_sign_digits [] ['+'] ds false (by simp) .plus hne hd (by simpa using h)
    simpa using this

/-- leading blanks (C `isspace`) are skipped -/
theorem C17_int_leading_blanks (ws ds : Str) (hws : ∀ c ∈ ws, isSpaceC c = true) (hne : ds ≠ [])
    (hd : ∀ c ∈ ds, isDigit c = true) (hrange : (digitsVal ds : Int) < two63) :
    strToInteger (ws ++ ds) = digitsVal ds := by
  have := C17_int_of_blank_sign_digits ws [] ds false hws .none hne hd (by simpa using hrange)
  simpa using this

/-- the cast itself: `INTEGER("<digits>")` is the number -/
theorem C17_cast_int_of_digits (ds : Str) (hne : ds ≠ []) (hd : ∀ c ∈ ds, isDigit c = true)
    (hrange : (digitsVal ds : Int) < two63) : castTo .int (.str ds) = .ok (.int (digitsVal ds)) := by
  simp only [castTo, C17_int_of_digits ds hne hd hrange]

/-- **REAL() of a digit string** (no point, no exponent; at most 310 digits, beyond which `strtod` answers
    infinity without looking at the digits): the same correctly rounded conversion as `INTEGER → REAL`
    (`floatOfInt`) applied to the number the digits denote. -/
theorem C17_real_of_digits (ds : Str) (hne : ds ≠ []) (hd : ∀ c ∈ ds, isDigit c = true) (hlen : ds.length ≤ 310) :
    strToReal ds = floatOfInt (digitsVal ds) := by
  have hnn : ∀ c ∈ ds, (c != Char.ofNat 0) = true := fun c hc => isDigit_ne_nul c (hd c hc)
  have hemp : ds.isEmpty = false := Codec.isEmpty_false_of_ne_nil hne
  rw [floatOfInt_natCast]
  show (if ((cstr ds).isEmpty || (strtod (cstr ds)).2.1 != (cstr ds).length) = true then (0.0 : Float) else (strtod (cstr ds)).1) = _
  rw [cstr_of_noNul ds hnn]
  unfold strtod
  rw [strtodBits_digits ds hne hd hlen]
  simp [hemp]

/-- the cast itself: `REAL("<digits>")` -/
theorem C17_cast_real_of_digits (ds : Str) (hne : ds ≠ []) (hd : ∀ c ∈ ds, isDigit c = true) (hlen : ds.length ≤ 310) :
    castTo .real (.str ds) = .ok (.real (floatOfInt (digitsVal ds))) := by
  simp only [castTo, C17_real_of_digits ds hne hd hlen]

/-- so `REAL(s)` and `REAL(INTEGER(s))` agree on digit strings that fit a `long` -/
theorem C17_real_int_agree (ds : Str) (hne : ds ≠ []) (hd : ∀ c ∈ ds, isDigit c = true)
    (hrange : (digitsVal ds : Int) < two63) (hlen : ds.length ≤ 310) :
    strToReal ds = floatOfInt (strToInteger ds) := by
  rw [C17_real_of_digits ds hne hd hlen, C17_int_of_digits ds hne hd hrange]

/-- **text that is not a numeral converts to 0** — the general form: whenever `strtol` does not consume the whole
    C string (or the C string is empty) the result is 0. -/
theorem C17_non_numeral_zero (s : Str) (h : cstr s = [] ∨ (strtol10 (cstr s)).2.1 ≠ (cstr s).length) :
    strToInteger s = 0 := by
  rw [strToInteger_eq]
  rcases h with h | h
  · simp [h]
  · simp [h]

theorem C17_empty_zero : strToInteger [] = 0 := by decide

/-- the converse shape: a non-zero result means the C string is blanks, an optional sign and at least one digit -/
theorem C17_int_nonzero_shape (s : Str) (h : strToInteger s ≠ 0) :
    ∃ ws sg ds neg, cstr s = ws ++ (sg ++ ds) ∧ (∀ x ∈ ws, isSpaceC x = true) ∧ IsSign sg neg ∧ ds ≠ [] ∧
      (∀ x ∈ ds, isDigit x = true) := by
  by_cases hne : cstr s = []
  · exact absurd (C17_non_numeral_zero s (.inl hne)) h
  · by_cases hfull : (strtol10 (cstr s)).2.1 = (cstr s).length
    · exact strtol10_full_shape _ hne hfull
    · exact absurd (C17_non_numeral_zero s (.inr hfull)) h

/-- a string (without NUL bytes) containing any character that is not a blank, a sign or a digit converts to 0 -/
theorem C17_bad_char_zero (s : Str) (hnul : ∀ c ∈ s, (c != Char.ofNat 0) = true) (x : Char) (hx : x ∈ s)
    (h1 : isSpaceC x = false) (h2 : isDigit x = false) (h3 : x ≠ '-') (h4 : x ≠ '+') : strToInteger s = 0 := by
  apply Classical.byContradiction
  intro hnz
  obtain ⟨ws, sg, ds, neg, heq, hws, hsg, _, hds⟩ := C17_int_nonzero_shape s hnz
  rw [cstr_of_noNul s hnul] at heq
  rw [heq] at hx
  rcases List.mem_append.1 hx with h | h
  · rw [hws x h] at h1; cases h1
  · rcases List.mem_append.1 h with h | h
    · cases hsg with
      | none => simp at h
      | minus => simp at h; exact h3 h
      | plus => simp at h; exact h4 h
    · rw [hds x h] at h2; cases h2

/-- a string whose first character is not a blank, a sign or a digit — in particular a letter — converts to 0,
    whatever follows (NUL bytes included) -/
theorem C17_first_char_zero (x : Char) (r : Str)
    (h1 : isSpaceC x = false) (h2 : isDigit x = false) (h3 : x ≠ '-') (h4 : x ≠ '+') : strToInteger (x :: r) = 0 := by
  by_cases hx : (x != Char.ofNat 0) = true
  · apply C17_non_numeral_zero
    right
    have hc : cstr (x :: r) = x :: cstr r := by simp [cstr, hx]
    rw [hc, strtol10_eq]
    have htw : (x :: cstr r).takeWhile isSpaceC = [] := by simp [h1]
    have hdw : (x :: cstr r).dropWhile isSpaceC = x :: cstr r := by simp [h1]
    rw [htw, hdw, signSplit_other x _ h3 h4, strtolTail_nodigit _ _ _ (by simp [h2])]
    simp
  · apply C17_non_numeral_zero
    left
    simp [cstr, hx]

theorem isAlpha_not_numeral (x : Char) (h : isAlpha x = true) :
    isSpaceC x = false ∧ isDigit x = false ∧ x ≠ '-' ∧ x ≠ '+' := by
  simp only [isAlpha, isUpper, isLower, Bool.or_eq_true, Bool.and_eq_true, decide_eq_true_eq] at h
  have e1 : 'A'.toNat = 65 := rfl
  have e2 : 'Z'.toNat = 90 := rfl
  have e3 : 'a'.toNat = 97 := rfl
  have e4 : 'z'.toNat = 122 := rfl
  rw [e1, e2, e3, e4] at h
  refine ⟨?_, ?_, ?_, ?_⟩
  · cases hs : isSpaceC x with
    | false => rfl
    | true =>
      simp only [isSpaceC, Bool.or_eq_true, beq_iff_eq] at hs
      rcases hs with ((((rfl | rfl) | rfl) | h') | h') | rfl
      all_goals first | (simp at h; done) | omega
  · cases hd : isDigit x with
    | false => rfl
    | true =>
      simp only [isDigit, Bool.and_eq_true, decide_eq_true_eq] at hd
      have e5 : '0'.toNat = 48 := rfl
      have e6 : '9'.toNat = 57 := rfl
      rw [e5, e6] at hd
      omega
  · rintro rfl; simp at h
  · rintro rfl; simp at h

/-- **a string that starts with a letter converts to 0** -/
theorem C17_letter_first_zero (x : Char) (r : Str) (h : isAlpha x = true) : strToInteger (x :: r) = 0 := by
  obtain ⟨h1, h2, h3, h4⟩ := isAlpha_not_numeral x h
  exact C17_first_char_zero x r h1 h2 h3 h4

/-- concrete non-numerals -/
theorem C17_non_numeral_examples :
    strToInteger "abc".toList = 0 ∧ strToInteger "12x".toList = 0 ∧ strToInteger "".toList = 0 ∧
    strToInteger "1 2".toList = 0 ∧ strToInteger "-".toList = 0 ∧ strToInteger "1.5".toList = 0 ∧
    strToInteger "--1".toList = 0 ∧ strToInteger "12 ".toList = 0 := by decide

/-! non-vacuity -/
example : strToInteger "0042".toList = 42 := by decide
example : strToInteger "-17".toList = -17 := by decide
example : strToInteger "+17".toList = 17 := by decide
example : strToInteger " \t12".toList = 12 := by decide
example : strToInteger "9223372036854775807".toList = 9223372036854775807 :=
  C17_int_of_digits _ (by decide) (by decide) (by decide)
example : strToInteger "-9223372036854775808".toList = -9223372036854775808 :=
  (C17_int_of_signed_digits "9223372036854775808".toList (by decide) (by decide)).1 (by decide)
/-- the range hypothesis is needed: beyond `long`, `strtol` clamps to `LONG_MAX` -/
example : strToInteger "9223372036854775808".toList = 9223372036854775807 := by decide
example : strToInteger ("12".toList ++ [Char.ofNat 0] ++ "x".toList) = 12 := by decide
example : strToInteger "x1".toList = 0 := C17_letter_first_zero 'x' "1".toList (by decide)
example : strToReal "42".toList = floatOfInt 42 := C17_real_of_digits _ (by decide) (by decide) (by decide)
example : castTo .int (.str "123".toList) = .ok (.int 123) :=
  C17_cast_int_of_digits _ (by decide) (by decide) (by decide)

end Pseudo

