/-
  Differential test driver for PseudoModel.FloatFmt (NOT part of the library).

  Usage:   cd /verif/lean && lake env lean --run FloatFmtTest.lean < oracle.txt

  Input lines (tab separated), produced by a C++ oracle program calling the real
  glibc / libstdc++ functions:

    F <bits16hex> <%.10g> <%f> <%.17g> <%.6g> <%.1g> <%.15g> <%.3g>
    I <long decimal> <bits16hex of (double)long>
    P <input hex-encoded, "-" = empty>
        <strtod bits> <strtod consumed> <strtod ERANGE>
        <strtol value> <strtol consumed> <strtol ERANGE>
        <is>>double fail> <bits> <consumed>
        <is>>long fail> <value> <consumed>
        <is>>unsigned long fail> <value> <consumed>
        <is>>unsigned int fail> <value> <consumed>

  Every mismatch is printed; the last line is a summary.
-/
import PseudoModel.FloatFmt

open Pseudo Pseudo.FloatFmt

def hexNat (s : String) : Nat := digitsToNat 16 s.toList

def hexDecode (s : String) : List Char :=
  if s == "-" then [] else
  let rec go : List Char → List Char
    | a :: b :: r => Char.ofNat (hexVal a * 16 + hexVal b) :: go r
    | _ => []
  go s.toList

def parseInt (s : String) : Int :=
  match s.toList with
  | '-' :: r => - (digitsToNat 10 r : Int)
  | r => (digitsToNat 10 r : Int)

def b2s (b : Bool) : String := if b then "1" else "0"

def hex16 (b : UInt64) : String :=
  String.ofList (padLeftZeros 16 (Nat.toDigits 16 b.toNat))

def checkF (fs : Array String) : Array String := Id.run do
  let bits := UInt64.ofNat (hexNat fs[1]!)
  let mut errs : Array String := #[]
  let chk (name : String) (got : List Char) (want : String) (errs : Array String) : Array String :=
    if String.ofList got == want then errs
    else errs.push s!"F {fs[1]!} {name}: lean={String.ofList got} c={want}"
  errs := chk "%.10g" (fmtGBits 10 bits) fs[2]! errs
  errs := chk "%f" (fmtF6Bits bits) fs[3]! errs
  errs := chk "%.17g" (fmtGBits 17 bits) fs[4]! errs
  errs := chk "%.6g" (fmtGBits 6 bits) fs[5]! errs
  errs := chk "%.1g" (fmtGBits 1 bits) fs[6]! errs
  errs := chk "%.15g" (fmtGBits 15 bits) fs[7]! errs
  errs := chk "%.3g" (fmtGBits 3 bits) fs[8]! errs
  -- the Float-level API must agree with the bits-level API except for NaN sign
  let x := Float.ofBits bits
  if !x.isNaN then
    errs := chk "Float %.10g" (fmtG 10 x) fs[2]! errs
    errs := chk "Float %f" (fmtF6 x) fs[3]! errs
    errs := chk "Float %.17g" (fmtG17 x) fs[4]! errs
  return errs

def checkI (fs : Array String) : Array String :=
  let n := parseInt fs[1]!
  let got := hex16 (floatOfIntBits n)
  let got2 := hex16 (floatOfInt n).toBits
  if got == fs[2]! && got2 == fs[2]! then #[] else #[s!"I {fs[1]!}: lean={got}/{got2} c={fs[2]!}"]

def checkP (fs : Array String) : Array String := Id.run do
  let s := hexDecode fs[1]!
  let mut errs : Array String := #[]
  -- strtod
  let (b, n, er) := strtodBits s
  let got := s!"{hex16 b} {n} {b2s er}"
  let want := s!"{fs[2]!} {fs[3]!} {fs[4]!}"
  if got != want then errs := errs.push s!"P {fs[1]!} strtod: lean={got} c={want}"
  -- Float-level API agrees for non-NaN
  let (x, n', er') := strtod s
  if !x.isNaN then
    let got := s!"{hex16 x.toBits} {n'} {b2s er'}"
    if got != want then errs := errs.push s!"P {fs[1]!} strtod(Float): lean={got} c={want}"
  -- strtol
  let (v, n, er) := strtol10 s
  let got := s!"{v} {n} {b2s er}"
  let want := s!"{fs[5]!} {fs[6]!} {fs[7]!}"
  if got != want then errs := errs.push s!"P {fs[1]!} strtol: lean={got} c={want}"
  -- istream >> double
  let (f, b, rest) := istreamReadDoubleRaw s
  let got := s!"{b2s f} {hex16 b} {s.length - rest.length}"
  let want := s!"{fs[8]!} {fs[9]!} {fs[10]!}"
  if got != want then errs := errs.push s!"P {fs[1]!} >>double: lean={got} c={want}"
  match istreamReadDouble s with
  | none => if !f then errs := errs.push s!"P {fs[1]!} >>double option/raw disagree"
  | some (x, r) =>
    if f || r != rest || hex16 x.toBits != hex16 b then
      errs := errs.push s!"P {fs[1]!} >>double option/raw disagree"
  -- istream >> long
  let (f, v, rest) := istreamReadLongRaw s
  let got := s!"{b2s f} {v} {s.length - rest.length}"
  let want := s!"{fs[11]!} {fs[12]!} {fs[13]!}"
  if got != want then errs := errs.push s!"P {fs[1]!} >>long: lean={got} c={want}"
  if (istreamReadLong s).isNone != f then errs := errs.push s!"P {fs[1]!} >>long option/raw disagree"
  -- istream >> unsigned long
  let (f, v, rest) := istreamReadSizeTRaw s
  let got := s!"{b2s f} {v} {s.length - rest.length}"
  let want := s!"{fs[14]!} {fs[15]!} {fs[16]!}"
  if got != want then errs := errs.push s!"P {fs[1]!} >>size_t: lean={got} c={want}"
  if (istreamReadSizeT s).isNone != f then errs := errs.push s!"P {fs[1]!} >>size_t option/raw disagree"
  -- istream >> unsigned int
  let (f, v, rest) := istreamReadUIntRaw s
  let got := s!"{b2s f} {v} {s.length - rest.length}"
  let want := s!"{fs[17]!} {fs[18]!} {fs[19]!}"
  if got != want then errs := errs.push s!"P {fs[1]!} >>uint: lean={got} c={want}"
  if (istreamReadUInt s).isNone != f then errs := errs.push s!"P {fs[1]!} >>uint option/raw disagree"
  return errs

def main : IO UInt32 := do
  let stdin ← IO.getStdin
  let stdout ← IO.getStdout
  let mut nF := 0
  let mut nI := 0
  let mut nP := 0
  let mut bad := 0
  let mut done := false
  while !done do
    let line ← stdin.getLine
    if line.isEmpty then
      done := true
    else
      let line := String.ofList (line.toList.filter (· != '\n'))
      let fs := (line.splitOn "\t").toArray
      let errs ←
        if fs[0]! == "F" && fs.size == 9 then do nF := nF + 1; pure (checkF fs)
        else if fs[0]! == "I" && fs.size == 3 then do nI := nI + 1; pure (checkI fs)
        else if fs[0]! == "P" && fs.size == 20 then do nP := nP + 1; pure (checkP fs)
        else pure #[s!"malformed line: {line}"]
      for e in errs do
        bad := bad + 1
        if bad ≤ 200 then stdout.putStrLn e
  stdout.putStrLn s!"checked: F={nF} I={nI} P={nP}  mismatches={bad}"
  return (if bad == 0 then 0 else 1)

/-
  ORACLE GENERATOR (C++17).  Save as gen.cpp outside /verif, then:
      g++ -std=c++17 -O1 -o gen gen.cpp
      ./gen fmt   [seed] > fmt.txt      # F and I lines (320000 + 30019)
      ./gen parse [seed] > parse.txt    # P lines (260247)
      cd /verif/lean && lake env lean --run FloatFmtTest.lean < fmt.txt
      cd /verif/lean && lake env lean --run FloatFmtTest.lean < parse.txt

// Differential-test oracle generator for PseudoModel.FloatFmt
#include <cstdio>
#include <cstdlib>
#include <cstring>
#include <cstdint>
#include <cmath>
#include <cfloat>
#include <cerrno>
#include <climits>
#include <string>
#include <vector>
#include <sstream>
#include <iostream>

static uint64_t rs = 0x9E3779B97F4A7C15ULL;
static uint64_t rnd() { // splitmix64
  uint64_t z = (rs += 0x9E3779B97F4A7C15ULL);
  z = (z ^ (z >> 30)) * 0xBF58476D1CE4E5B9ULL;
  z = (z ^ (z >> 27)) * 0x94D049BB133111EBULL;
  return z ^ (z >> 31);
}
static uint64_t rndn(uint64_t n) { return rnd() % n; }

static uint64_t bitsOf(double d) { uint64_t b; memcpy(&b, &d, 8); return b; }
static double ofBits(uint64_t b) { double d; memcpy(&d, &b, 8); return d; }

static std::vector<double> vals;
static void add(double d) { vals.push_back(d); vals.push_back(-d); }
static void addN(double d) { // with neighbours
  add(d);
  add(nextafter(d, INFINITY)); add(nextafter(d, -INFINITY));
  add(nextafter(nextafter(d, INFINITY), INFINITY));
  add(nextafter(nextafter(d, -INFINITY), -INFINITY));
}

static void genFmt() {
  add(0.0); add(INFINITY); add(NAN); add(DBL_MAX); add(DBL_MIN); add(DBL_EPSILON);
  vals.push_back(ofBits(0x7FF0000000000001ULL)); vals.push_back(ofBits(0xFFF8000000000123ULL));
  vals.push_back(ofBits(0xFFFFFFFFFFFFFFFFULL));
  addN(DBL_MAX); addN(DBL_MIN); addN(0.0);
  double special[] = {99999.999995, 0.0001, 0.00009999999999, 1e10, 9999999999.5, 12345678901.0,
    99999.99999, 999999.5, 9999995.0, 0.5, 1.5, 2.5, 0.25, 0.125, 1e-5, 9.9999999995e-5, 0.000099999999995,
    9999999999.0, 99999999999.0, 1e9, 1e11, 123456.5, 1234567.5, 0.1, 0.2, 0.3, 1.0/3, 2.0/3, 1e22, 1e23, 1e21,
    5e-324, 1e-323, 1e-310, 1e-320, 0.0000005, 0.0000015, 0.0000025, 0.00000049999999, 1e16, 1e17, 1e18, 123456789012345678.0,
    9007199254740992.0, 9007199254740993.0, 4503599627370496.5, 1e300, 1e-300, 0.000001, 0.0000001, 99999.5, 100000.5,
    9999999999.4999, 99999999995.0, 0.99999999995, 0.999999999949, 9.9999999995, 9.99999999949999};
  for (double s : special) addN(s);
  for (int i = 0; i <= 5000; i++) { add((double)i); add(i + 0.5); add(i * 0.25); }
  for (int k = 0; k < 3000; k++) for (int j = 0; j <= 12; j++) {
    if ((k * 13 + j) % 3) continue;
    add((double)k / pow(10.0, j));
  }
  for (int e = -1074; e <= 1023; e++) addN(ldexp(1.0, e));
  for (int e = -330; e <= 308; e++) { char buf[32]; snprintf(buf, sizeof buf, "1e%d", e); addN(strtod(buf, nullptr)); }
  for (int e = -20; e <= 25; e++) for (int m = 1; m < 100; m += 1) {
    char buf[32]; snprintf(buf, sizeof buf, "%d.5e%d", m, e); add(strtod(buf, nullptr));
    snprintf(buf, sizeof buf, "%de%d", m, e); add(strtod(buf, nullptr));
  }
  // values around rounding boundaries for %.10g and %f
  for (int i = 0; i < 20000; i++) {
    int e = (int)rndn(30) - 12;
    uint64_t m = rndn(100000000000ULL);
    char buf[64]; snprintf(buf, sizeof buf, "%llu5e%d", (unsigned long long)m, e - 11);
    double d = strtod(buf, nullptr);
    add(d); if (i % 4 == 0) { add(nextafter(d, INFINITY)); add(nextafter(d, 0)); }
  }
  // random denormals
  for (int i = 0; i < 5000; i++) add(ofBits(rnd() >> (12 + rndn(52))));
  // random bit patterns
  while (vals.size() < 260000) vals.push_back(ofBits(rnd()));
  // random with moderate exponents
  for (int i = 0; i < 60000; i++) {
    uint64_t b = rnd();
    uint64_t ex = 1023 - 40 + rndn(110);
    b = (b & 0x800FFFFFFFFFFFFFULL) | (ex << 52);
    vals.push_back(ofBits(b));
  }
  for (double d : vals) {
    printf("F\t%016llx\t%.10g\t%f\t%.17g\t%.6g\t%.1g\t%.15g\t%.3g\n", (unsigned long long)bitsOf(d), d, d, d, d, d, d, d);
  }
  // (double)long
  std::vector<long> ls = {0, 1, -1, LONG_MAX, LONG_MIN, LONG_MAX - 1, LONG_MIN + 1, 9007199254740993L, -9007199254740993L,
    9007199254740992L, 9007199254740991L, 9007199254740995L, 9007199254740994L, (1L << 62) + 1, (1L<<62) + 512, (1L<<62)+513, (1L<<62)+511, (1L<<62)+256, (1L<<62)+768};
  for (int i = 0; i < 20000; i++) { long v = (long)rnd(); ls.push_back(v >> rndn(64)); }
  for (int i = 0; i < 5000; i++) { int sh = 54 + rndn(9); long v = (1L << sh) + ((long)rndn(4096) - 2048) * (1L << (sh - 54)) ; ls.push_back(v); ls.push_back(-v); }
  for (long v : ls) { double d = (double)v; printf("I\t%ld\t%016llx\n", v, (unsigned long long)bitsOf(d)); }
}

// ---------------------------------------------------------------------------

static std::vector<std::string> ins;

static std::string hexEnc(const std::string& s) {
  static const char* H = "0123456789abcdef";
  std::string r;
  for (unsigned char c : s) { r += H[c >> 4]; r += H[c & 15]; }
  return r.empty() ? std::string("-") : r;
}

template <class T> static void istreamTest(const std::string& s, bool& fail, T& v, long& pos) {
  std::istringstream in(s);
  v = 0;
  in >> v;
  fail = in.fail();
  in.clear();
  pos = (long)in.rdbuf()->pubseekoff(0, std::ios_base::cur, std::ios_base::in);
}

static std::string randDigits(int n) { std::string s; for (int i = 0; i < n; i++) s += (char)('0' + rndn(10)); return s; }

static const char* garbage0(int k) { const char* g[] = {"", "", "x", ")"}; return g[k]; }
static void genParse() {
  const char* lits[] = {"", " ", "0", "-0", "+0", "0x", "0x1", "0X1P3", "0x.8", "0x.", "0x.p1", "0x1.", "0x1.p", "0x1.p+", "0x1.p+1", "1e", "1e+", "1e-", "1e+5", "1E5", ".", "+.", "-.", "1.", ".5", "-.5e-3",
    "1e99999999999999999999", "1e-99999999999999999999", "0e99999999999999999999", "0.0e99999999999999999999", "-1e99999999999999999999", "-1e-99999999999999999999",
    "0x1p99999999999999999999", "0x1p-99999999999999999999", "0x0p99999999999999999999",
    "1.7976931348623157e308", "1.7976931348623158e308", "1.7976931348623159e308", "1.797693134862315807e308", "1.797693134862315808e308",
    "2.2250738585072011e-308", "2.2250738585072012e-308", "2.2250738585072014e-308", "2.2250738585072013e-308", "2.225073858507201383e-308", "2.2250738585072013e-308",
    "4.9406564584124654e-324", "2.4703282292062327e-324", "2.4703282292062328e-324", "2.4703282292062329e-324", "1e-400", "1e400", "-1e400", "-1e-400", "1e-323", "1e-324", "3e-324", "7e-324", "7.4e-324", "7.5e-324",
    "inf", "INF", "Infinity", "infinit", "infinityx", "-inf", "+INFINITY", "nan", "NaN", "-nan", "nan(", "nan()", "nan(123)", "nan(0x123)", "nan(abc)", "-nan(0x7ffffffffffff)", "nan(0xfffffffffffffffff)",
    "nan(017)", "nan(08)", "nan(0x)", "nan(0xg)", "nan(1_2)", "nan(_)", "nan(99999999999999999999999)", "nan(12", "nan(12 )", "nan (12)", "NAN(0X1F)", "nan(0)", "nan(00)", "nan(4503599627370496)", "nan(2251799813685248)", "nan(2251799813685247)",
    "i", "in", "n", "na", "+i", "-n", "  12", "\t\n\v\f\r 12", "12x", "1e+22 REAL", "1 2", "--1", "+-1", "-+1", "+ 1", "- 1", "1..2", "1.2.3", "1e5e5", "1e5.5", "1.5e", "1.5e+x", "0x1p", "0x1p+", "0x1p-x", "0xg", "0x1g", "00x1", "0x0x1",
    "0x1.8p-1075", "0x1p-1075", "0x1.0000000000001p-1075", "0x1p-1074", "0x3p-1075", "0x1p-1076", "0x1.fffffffffffffp-1023", "0x1.ffffffffffffep-1023", "0x1.fffffffffffff8p-1023", "0x1.fffffffffffff4p-1023", "0x0.fffffffffffff8p-1022", "0x0.fffffffffffffcp-1022", "0x0.fffffffffffffbp-1022",
    "0x1.fffffffffffffp1023", "0x1.fffffffffffff8p1023", "0x1.fffffffffffff7p1023", "0x1p1024", "0x.0000000000000000000000001p1124", "0x1.00000000000008p0", "0x1.00000000000018p0", "0x1.000000000000080000000001p0",
    "9223372036854775807", "9223372036854775808", "-9223372036854775808", "-9223372036854775809", "18446744073709551615", "18446744073709551616", "-18446744073709551615", "-18446744073709551616", "-18446744073709551617",
    "4294967295", "4294967296", "-4294967295", "-4294967296", "-4294967297", "-1", "-0", "+5", "0005", "-0005", "00", "0x10", "99999999999999999999999999", "-99999999999999999999999999", "+", "-", " +", " -5x", "2147483647", "2147483648", "-2147483648", "-2147483649",
    "0e", "0e+", "00.5", "000", "000e5", "0.e5", ".e5", "e5", "E", ".0", "0.", "0.0.", "00e", "1e0005", "1e-0005", "1E+0", "5e-324x", "0.1e1e", "1ee", "1e+e", "1e+-1", "1e 1", "1 e1", ".5.", "5.e", "5.e1", "5.e+", "5.E-1q",
  };
  for (const char* l : lits) ins.push_back(l);
  ins.push_back(std::string("1\0002", 3));
  ins.push_back(std::string("\000", 1));
  ins.push_back("\xa0" "1");
  ins.push_back("1\xff");
  const char alpha[] = "0123456789.+-eExXpPinfatyINFNAabcdef ()_\t\n";
  const int na = sizeof(alpha) - 1;
  for (int i = 0; i < 60000; i++) {
    int len = rndn(13);
    std::string s;
    for (int j = 0; j < len; j++) s += alpha[rndn(na)];
    ins.push_back(s);
  }
  {
    const char* more[] = {"nan(99999999999999999999999_)", "nan(0xffffffffffffffffffg)", "nan(18446744073709551615)", "nan(18446744073709551616)",
      "nan(01777777777777777777777)", "nan(02000000000000000000000)", "nan(0777777777777777777777777)", "nan(9999999999999999999999a)", "nan(0x10000000000000000)", "nan(0xffffffffffffffff)",
      "nan(0X)", "nan(0Xz)", "nan(0_)", "nan(09)", "nan(0b1)", "nan(0B11)", "-nan(99999999999999999999)", "nan(18446744073709551615z)", "nan(18446744073709551616z)", "nan(0000000000000000000000000000017)",
      "nan(0x00000000000000000000000000001f)", "nan(ffff)", "nan(1e5)", "nan(12345678901234567890)", "-.5", "+.e1", ".e", "-.e", "+.5e+", "0000000000000000000000000000000000000001", "-00000.00000e-00000", "0000e0000",
      "1e308", "1e309", "-1e309", "1.7976931348623158e308x", "1e-325", "1e-324 ", "0.00000000000000000000001e+331", "\x85" "1", " \x0b\x0c1"};
    for (const char* l : more) ins.push_back(l);
    const char a2[] = "0123456789.eE+- ";
    for (int i = 0; i < 50000; i++) { int len = 1 + rndn(10); std::string s; for (int j = 0; j < len; j++) s += a2[rndn(16)]; ins.push_back(s); }
    const char a3[] = "0123456789abcdefxX_7700189AF";
    for (int i = 0; i < 10000; i++) { int len = rndn(26); std::string s = rndn(2) ? "nan(" : "-NaN("; int mode = rndn(4);
      if (mode == 0) s += "0x"; if (mode == 1) s += "0";
      for (int j = 0; j < len; j++) s += mode == 3 ? a3[rndn(28)] : mode == 2 ? (char)('0' + rndn(10)) : mode == 1 ? (char)('0' + rndn(rndn(20) ? 8 : 10)) : "0123456789abcdefABCDEF"[rndn(rndn(30) ? 22 : 16)];
      if (rndn(10)) s += ")"; s += garbage0(rndn(4)); ins.push_back(s); }
  }
  // token soup: better grammar coverage
  const char* toks[] = {"0", "1", "9", "12", "007", ".", "e", "E", "+", "-", "0x", "0X", "p", "P", "inf", "INF", "inity", "infinity", "nan", "NaN", "(", ")", "_", "a", "f", "F", " ", "\t", "\n", "x", "e+", "e-", "p+", "p-", "308", "324", "1074", "1023", "00", "g", "nan(", "0x1", ".5", "5.", "\v", "\f", "\r"};
  const int nt = sizeof(toks) / sizeof(toks[0]);
  for (int i = 0; i < 60000; i++) {
    int len = 1 + rndn(6);
    std::string s;
    for (int j = 0; j < len; j++) s += toks[rndn(nt)];
    ins.push_back(s);
  }
  // renderings of random doubles
  const char* garbage[] = {"", "", "", "x", " REAL", "e", "e+", ".", ".5", "p1", "E5", " ", "\n", "-", "+1", "inf", ",", "12x"};
  const int ng = sizeof(garbage) / sizeof(garbage[0]);
  for (int i = 0; i < 30000; i++) {
    uint64_t b = rnd();
    if (i % 3 == 0) { uint64_t ex = 1023 - 60 + rndn(130); b = (b & 0x800FFFFFFFFFFFFFULL) | (ex << 52); }
    if (i % 50 == 1) b &= 0x800FFFFFFFFFFFFFULL; // denormal
    double d = ofBits(b);
    char buf[512];
    const char* fmts[] = {"%.17g", "%g", "%f", "%.10g", "%a", "%.16g", "%.15g", "%e", "%.20e", "%A", "%.3a"};
    int f = rndn(11);
    snprintf(buf, sizeof buf, fmts[f], d);
    std::string s = buf;
    if (rndn(8) == 0) s = std::string(rndn(3) + 1, " \t\n"[rndn(3)]) + s;
    if (rndn(10) == 0 && s[0] != '-') s = "+" + s;
    s += garbage[rndn(ng)];
    ins.push_back(s);
  }
  // long digit strings
  for (int i = 0; i < 6000; i++) {
    int n = 20 + rndn(381);
    std::string s = randDigits(n);
    int p = rndn(n + 1);
    if (rndn(5)) s.insert(p, ".");
    if (rndn(4) == 0) s = "-" + s;
    if (rndn(3) == 0) { char e[32]; snprintf(e, sizeof e, "e%d", (int)rndn(800) - 400); s += e; }
    if (rndn(6) == 0) s += garbage[rndn(ng)];
    ins.push_back(s);
  }
  // leading zeros after the point with compensating exponent
  for (int i = 0; i < 1500; i++) {
    int z = rndn(400);
    std::string s = "0." + std::string(z, '0') + randDigits(1 + rndn(25));
    char e[32]; snprintf(e, sizeof e, "e%d", z + (int)rndn(700) - 350); s += e;
    ins.push_back(s);
    std::string t = randDigits(1 + rndn(20)) + std::string(z, '0');
    snprintf(e, sizeof e, "e%d", -z + (int)rndn(700) - 350); t += e;
    ins.push_back(t);
  }
  // near overflow / underflow
  for (int i = 0; i < 4000; i++) {
    char buf[64];
    int k = rndn(6);
    if (k == 0) snprintf(buf, sizeof buf, "1.79769313486231%03de308", (int)rndn(1000));
    else if (k == 1) snprintf(buf, sizeof buf, "2.22507385850720%03de-308", (int)rndn(1000));
    else if (k == 2) snprintf(buf, sizeof buf, "%d.%05de-324", (int)rndn(30), (int)rndn(100000));
    else if (k == 3) snprintf(buf, sizeof buf, "%d.%05de-%d", (int)rndn(10), (int)rndn(100000), 300 + (int)rndn(30));
    else if (k == 4) snprintf(buf, sizeof buf, "%d.%05de%d", (int)rndn(10), (int)rndn(100000), 300 + (int)rndn(12));
    else snprintf(buf, sizeof buf, "2.2250738585072%05de-308", (int)rndn(100000));
    ins.push_back(buf);
  }
  // exact midpoints between adjacent doubles (and perturbations)
  for (int i = 0; i < 3000; i++) {
    uint64_t b = rnd() & 0x7FFFFFFFFFFFFFFFULL;
    if (i % 3 == 0) { uint64_t ex = 1023 - 60 + rndn(130); b = (b & 0x000FFFFFFFFFFFFFULL) | (ex << 52); }
    if (i % 7 == 1) b &= 0x000FFFFFFFFFFFFFULL;
    if (i % 7 == 2) b = (b & 0x000FFFFFFFFFFFFFULL) | ((uint64_t)rndn(3) << 52);
    if (i % 97 == 5) b = 0x000FFFFFFFFFFFFFULL;
    if (i % 97 == 6) b = 0;
    if (i % 97 == 7) b = 0x7FEFFFFFFFFFFFFFULL;
    double d = ofBits(b);
    if (!std::isfinite(d)) continue;
    double d2 = ofBits(b + 1);
    long double mid;
    if (std::isinf(d2)) mid = (long double)d + ((long double)d - (long double)ofBits(b - 1)) / 2;
    else mid = ((long double)d + (long double)d2) / 2;
    static char buf[2000];
    snprintf(buf, sizeof buf, "%.1200Lg", mid);
    std::string s = buf;
    if (s.find('e') != std::string::npos) {
      // move the exponent out so we can append digits to the mantissa
      size_t ep = s.find('e');
      std::string m = s.substr(0, ep), e = s.substr(ep);
      if (m.find('.') == std::string::npos) m += ".";
      ins.push_back(m + e);
      ins.push_back(m + "000000000000000000001" + e);
      // decrement: replace last nonzero digit d by d-1 followed by 9
      std::string m2 = m; size_t q = m2.find_last_of("123456789");
      if (q != std::string::npos) { m2[q]--; m2.insert(q + 1, "9"); for (size_t j = q + 2; j < m2.size(); j++) if (m2[j] == '0') m2[j] = '9'; ins.push_back(m2 + e); }
    } else {
      if (s.find('.') == std::string::npos) s += ".";
      ins.push_back(s);
      ins.push_back(s + "00000000000000000001");
      std::string m2 = s; size_t q = m2.find_last_of("123456789");
      if (q != std::string::npos) { m2[q]--; m2.insert(q + 1, "9"); for (size_t j = q + 2; j < m2.size(); j++) if (m2[j] == '0') m2[j] = '9'; ins.push_back(m2); }
    }
  }
  // random hex floats
  for (int i = 0; i < 8000; i++) {
    std::string s = rndn(2) ? "0x" : "0X";
    int ni = rndn(4), nf = rndn(20);
    if (ni + nf == 0) ni = 1;
    const char* hd = "0123456789abcdefABCDEF";
    for (int j = 0; j < ni; j++) s += hd[rndn(22)];
    if (nf || rndn(2)) s += ".";
    for (int j = 0; j < nf; j++) s += (rndn(3) == 0 ? (rndn(2) ? '0' : (rndn(2) ? '8' : 'f')) : hd[rndn(22)]);
    if (rndn(5)) { char e[32]; int r = rndn(4); int ex = r == 0 ? (int)rndn(40) - 20 : r == 1 ? -1000 - (int)rndn(150) : r == 2 ? 1000 + (int)rndn(40) : (int)rndn(2400) - 1200;
      snprintf(e, sizeof e, "%c%s%d", rndn(2) ? 'p' : 'P', (ex >= 0 && rndn(2)) ? "+" : "", ex); s += e; }
    if (rndn(4) == 0) s = "-" + s;
    if (rndn(6) == 0) s += garbage[rndn(ng)];
    ins.push_back(s);
  }
  // integers
  for (int i = 0; i < 20000; i++) {
    std::string s;
    if (rndn(6) == 0) s += std::string(rndn(3) + 1, " \t\n\r"[rndn(4)]);
    int sg = rndn(4); if (sg == 0) s += "-"; else if (sg == 1) s += "+";
    if (rndn(8) == 0) s += std::string(rndn(4) + 1, '0');
    int k = rndn(5);
    if (k == 0) s += randDigits(1 + rndn(25));
    else if (k == 1) { char b[32]; snprintf(b, sizeof b, "%llu", (unsigned long long)(9223372036854775807ULL - 5 + rndn(11))); s += b; }
    else if (k == 2) { unsigned __int128 v = (unsigned __int128)18446744073709551615ULL - 5 + rndn(11); char b[48]; int p = 47; b[p] = 0; while (v) { b[--p] = '0' + (int)(v % 10); v /= 10; } s += (b + p); }
    else if (k == 3) { char b[32]; snprintf(b, sizeof b, "%llu", (unsigned long long)(4294967295ULL - 5 + rndn(11))); s += b; }
    else { char b[32]; snprintf(b, sizeof b, "%llu", (unsigned long long)(rnd() >> rndn(64))); s += b; }
    s += garbage[rndn(ng)];
    ins.push_back(s);
  }

  for (const std::string& s : ins) {
    // strtod: NUL-terminated semantics -> cut at first NUL for the C functions
    const char* cs = s.c_str();
    char* end;
    errno = 0;
    double d = strtod(cs, &end);
    int er = errno == ERANGE;
    long dn = end - cs;
    errno = 0;
    long l = strtol(cs, &end, 10);
    int ler = errno == ERANGE;
    long ln = end - cs;
    bool f1, f2, f3, f4; double v1; long v2; unsigned long v3; unsigned int v4; long p1, p2, p3, p4;
    istreamTest(s, f1, v1, p1);
    istreamTest(s, f2, v2, p2);
    istreamTest(s, f3, v3, p3);
    istreamTest(s, f4, v4, p4);
    printf("P\t%s\t%016llx\t%ld\t%d\t%ld\t%ld\t%d\t%d\t%016llx\t%ld\t%d\t%ld\t%ld\t%d\t%lu\t%ld\t%d\t%u\t%ld\n",
      hexEnc(s).c_str(), (unsigned long long)bitsOf(d), dn, er, l, ln, ler,
      (int)f1, (unsigned long long)bitsOf(v1), p1, (int)f2, v2, p2, (int)f3, v3, p3, (int)f4, v4, p4);
  }
}

int main(int argc, char** argv) {
  if (argc > 2) rs = strtoull(argv[2], nullptr, 0);
  if (argc > 1 && !strcmp(argv[1], "fmt")) genFmt();
  else genParse();
  return 0;
}
-/
