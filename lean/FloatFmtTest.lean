/-
  Differential test driver for PseudoModel.FloatFmt (NOT part of the library).

  Usage:   cd /verif/lean && lake env lean --run FloatFmtTest.lean < oracle.txt

  Input lines (tab separated), produced by a C++ oracle program calling the real
  glibc / libstdc++ functions:

    F <bits16hex> <%.10g> <%f> <%.17g> <%.6g> <%.1g> <%.15g> <%.3g>
    I <long decimal> <bits16hex of (double)long>
    P <input hex-encoded, "-" = empty>
        <strtod bits> <strtod consumed> <strtod ERANGE>
        <strtol value> <strtol consumed> <strtol ERANGE>
        <is>>double fail> <bits> <consumed>
        <is>>long fail> <value> <consumed>
        <is>>unsigned long fail> <value> <consumed>
        <is>>unsigned int fail> <value> <consumed>

  Every mismatch is printed; the last line is a summary.
-/
import PseudoModel.FloatFmt

open Pseudo Pseudo.FloatFmt

def hexNat (s : String) : Nat := digitsToNat 16 s.toList

def hexDecode (s : String) : List Char :=
  if s == "-" then [] else
  let rec go : List Char → List Char
    | a :: b :: r => Char.ofNat (hexVal a * 16 + hexVal b) :: go r
    | _ => []
  go s.toList

def parseInt (s : String) : Int :=
  match s.toList with
  | '-' :: r => - (digitsToNat 10 r : Int)
  | r => (digitsToNat 10 r : Int)

def b2s (b : Bool) : String := if b then "1" else "0"

def hex16 (b : UInt64) : String :=
  String.ofList (padLeftZeros 16 (Nat.toDigits 16 b.toNat))

def checkF (fs : Array String) : Array String := Id.run do
  let bits := UInt64.ofNat (hexNat fs[1]!)
  let mut errs : Array String := #[]
  let chk (name : String) (got : List Char) (want : String) (errs : Array String) : Array String :=
    if String.ofList got == want then errs
    else errs.push s!"F {fs[1]!} {name}: lean={String.ofList got} c={want}"
  errs := chk "%.10g" (fmtGBits 10 bits) fs[2]! errs
  errs := chk "%f" (fmtF6Bits bits) fs[3]! errs
  errs := chk "%.17g" (fmtGBits 17 bits) fs[4]! errs
  errs := chk "%.6g" (fmtGBits 6 bits) fs[5]! errs
  errs := chk "%.1g" (fmtGBits 1 bits) fs[6]! errs
  errs := chk "%.15g" (fmtGBits 15 bits) fs[7]! errs
  errs := chk "%.3g" (fmtGBits 3 bits) fs[8]! errs
  -- the Float-level API must agree with the bits-level API except for NaN sign
  let x := Float.ofBits bits
  if !x.isNaN then
    errs := chk "Float %.10g" (fmtG 10 x) fs[2]! errs
    errs := chk "Float %f" (fmtF6 x) fs[3]! errs
    errs := chk "Float %.17g" (fmtG17 x) fs[4]! errs
  return errs

def checkI (fs : Array String) : Array String :=
  let n := parseInt fs[1]!
  let got := hex16 (floatOfIntBits n)
  let got2 := hex16 (floatOfInt n).toBits
  if got == fs[2]! && got2 == fs[2]! then #[] else #[s!"I {fs[1]!}: lean={got}/{got2} c={fs[2]!}"]

def checkP (fs : Array String) : Array String := Id.run do
  let s := hexDecode fs[1]!
  let mut errs : Array String := #[]
  -- strtod
  let (b, n, er) := strtodBits s
  let got := s!"{hex16 b} {n} {b2s er}"
  let want := s!"{fs[2]!} {fs[3]!} {fs[4]!}"
  if got != want then errs := errs.push s!"P {fs[1]!} strtod: lean={got} c={want}"
  -- Float-level API agrees for non-NaN
  let (x, n', er') := strtod s
  if !x.isNaN then
    let got := s!"{hex16 x.toBits} {n'} {b2s er'}"
    if got != want then errs := errs.push s!"P {fs[1]!} strtod(Float): lean={got} c={want}"
  -- strtol
  let (v, n, er) := strtol10 s
  let got := s!"{v} {n} {b2s er}"
  let want := s!"{fs[5]!} {fs[6]!} {fs[7]!}"
  if got != want then errs := errs.push s!"P {fs[1]!} strtol: lean={got} c={want}"
  -- istream >> double
  let (f, b, rest) := istreamReadDoubleRaw s
  let got := s!"{b2s f} {hex16 b} {s.length - rest.length}"
  let want := s!"{fs[8]!} {fs[9]!} {fs[10]!}"
  if got != want then errs := errs.push s!"P {fs[1]!} >>double: lean={got} c={want}"
  match istreamReadDouble s with
  | none => if !f then errs := errs.push s!"P {fs[1]!} >>double option/raw disagree"
  | some (x, r) =>
    if f || r != rest || hex16 x.toBits != hex16 b then
      errs := errs.push s!"P {fs[1]!} >>double option/raw disagree"
  -- istream >> long
  let (f, v, rest) := istreamReadLongRaw s
  let got := s!"{b2s f} {v} {s.length - rest.length}"
  let want := s!"{fs[11]!} {fs[12]!} {fs[13]!}"
  if got != want then errs := errs.push s!"P {fs[1]!} >>long: lean={got} c={want}"
  if (istreamReadLong s).isNone != f then errs := errs.push s!"P {fs[1]!} >>long option/raw disagree"
  -- istream >> unsigned long
  let (f, v, rest) := istreamReadSizeTRaw s
  let got := s!"{b2s f} {v} {s.length - rest.length}"
  let want := s!"{fs[14]!} {fs[15]!} {fs[16]!}"
  if got != want then errs := errs.push s!"P {fs[1]!} >>size_t: lean={got} c={want}"
  if (istreamReadSizeT s).isNone != f then errs := errs.push s!"P {fs[1]!} >>size_t option/raw disagree"
  -- istream >> unsigned int
  let (f, v, rest) := istreamReadUIntRaw s
  let got := s!"{b2s f} {v} {s.length - rest.length}"
  let want := s!"{fs[17]!} {fs[18]!} {fs[19]!}"
  if got != want then errs := errs.push s!"P {fs[1]!} >>uint: lean={got} c={want}"
  if (istreamReadUInt s).isNone != f then errs := errs.push s!"P {fs[1]!} >>uint option/raw disagree"
  return errs

def main : IO UInt32 := do
  let stdin ← IO.getStdin
  let stdout ← IO.getStdout
  let mut nF := 0
  let mut nI := 0
  let mut nP := 0
  let mut bad := 0
  let mut done := false
  while !done do
    let line ← stdin.getLine
    if line.isEmpty then
      done := true
    else
      let line := String.ofList (line.toList.filter (· != '\n'))
      let fs := (line.splitOn "\t").toArray
      let errs ←
        if fs[0]! == "F" && fs.size == 9 then do nF := nF + 1; pure (checkF fs)
        else if fs[0]! == "I" && fs.size == 3 then do nI := nI + 1; pure (checkI fs)
        else if fs[0]! == "P" && fs.size == 20 then do nP := nP + 1; pure (checkP fs)
        else pure #[s!"malformed line: {line}"]
      for e in errs do
        bad := bad + 1
        if bad ≤ 200 then stdout.putStrLn e
  stdout.putStrLn s!"checked: F={nF} I={nI} P={nP}  mismatches={bad}"
  return (if bad == 0 then 0 else 1)
