import PseudoModel.Value
import PseudoModel.Ast
import PseudoModel.FloatFmt
namespace Pseudo

open FloatFmt

/-- `(int_t) x` as compiled for x86-64 (`cvttsd2si`): truncation; NaN and out-of-range give INT_MIN. -/
def floatToIntTrunc (x : Float) : Int :=
  let b := x.toBits.toNat
  let neg := b >>> 63 == 1
  let e := (b >>> 52) &&& 0x7ff
  let m := b &&& (2 ^ 52 - 1)
  if e == 0x7ff then -two63
  else if e == 0 then 0
  else
    let mant := m + 2 ^ 52
    let mag : Nat := if e ≥ 1075 then mant <<< (e - 1075) else mant >>> (1075 - e)
    let v : Int := if neg then -(mag : Int) else (mag : Int)
    if -two63 ≤ v ∧ v < two63 then v else -two63

/-- `(char) x` for a double: `cvttsd2si` to 32 bits, low byte. -/
def floatToByte (x : Float) : Char :=
  let b := x.toBits.toNat
  let neg := b >>> 63 == 1
  let e := (b >>> 52) &&& 0x7ff
  let m := b &&& (2 ^ 52 - 1)
  if e == 0x7ff then Char.ofNat 0
  else if e == 0 then Char.ofNat 0
  else
    let mant := m + 2 ^ 52
    let mag : Nat := if e ≥ 1075 then mant <<< (e - 1075) else mant >>> (1075 - e)
    let v : Int := if neg then -(mag : Int) else (mag : Int)
    if -2147483648 ≤ v ∧ v < 2147483648 then byteOfInt v else Char.ofNat 0

def floatIsIntegral (x : Float) : Bool := x.floor == x

def dropTrailing (c : Char) (s : Str) : Str := (s.reverse.dropWhile (· == c)).reverse

/-- `Real::toString`: `std::to_string` (= `%f`) with trailing zeros and a trailing point removed -/
def realToString (x : Float) : Str :=
  let s := dropTrailing '0' (fmtF6 x)
  match s.reverse with
  | '.' :: r => r.reverse
  | _ => s

/-- text of a REAL in OUTPUT / REPL echo: `%.10g`, plus `.0` when the value is integral -/
def realOutput (x : Float) : Str :=
  fmtG 10 x ++ (if floatIsIntegral x then ".0".toList else [])

/-- the C string seen through `c_str()`: up to the first NUL -/
def cstr (s : Str) : Str := s.takeWhile (· != Char.ofNat 0)

/-- `String::toInteger`: full-match `strtol`, else 0 -/
def strToInteger (s : Str) : Int :=
  let c := cstr s
  let (v, used, _) := strtol10 c
  if c.isEmpty || used != c.length then 0 else v

/-- `String::toReal`: full-match `strtod`, else 0 -/
def strToReal (s : Str) : Float :=
  let c := cstr s
  let (v, used, _) := strtod c
  if c.isEmpty || used != c.length then 0.0 else v

/-- `Primitive::toString` -/
def primToString : Val → Option Str
  | .int n => some (intToStr n)
  | .real x => some (realToString x)
  | .bool b => some (if b then "TRUE".toList else "FALSE".toList)
  | .chr c => some [c]
  | .str s => some s
  | .date t => some (Calendar.text t)
  | _ => none

/-- `NodeResult::implicitCast` -/
def implicitCast (target : Ty) (v : Val) : Val :=
  match target, v with
  | .real, .int n => .real (floatOfInt n)
  | .chr, .str [c] => .chr c
  | .str, .chr c => .str [c]
  | _, v => v

/-- store compatibility after the implicit cast: the types must be equal -/
def storeCompatible (target : Ty) (v : Val) : Bool := (implicitCast target v).ty == target

/-- explicit cast `<type>(v)` of `CastNode` (model of the repaired code: casting a DATE to
    REAL / BOOLEAN / CHAR is an error, not an abort) -/
def castTo (target : PrimTy) (v : Val) : Except Msg Val :=
  match v with
  | .none | .enum _ _ | .ptr _ _ | .comp _ _ | .arr _ _ _ => .error .nonPrimitive
  | _ =>
  match target, v with
  | .int, .int n => .ok (.int n)
  | .int, .real x => .ok (.int (floatToIntTrunc x))
  | .int, .bool b => .ok (.int (if b then 1 else 0))
  | .int, .chr c => .ok (.int (intOfByte c))
  | .int, .str s => .ok (.int (strToInteger s))
  | .int, .date t => .ok (.int (wrap64 (Calendar.key t)))
  | .real, .int n => .ok (.real (floatOfInt n))
  | .real, .real x => .ok (.real x)
  | .real, .bool b => .ok (.real (if b then 1.0 else 0.0))
  | .real, .chr c => .ok (.real (floatOfInt (intOfByte c)))
  | .real, .str s => .ok (.real (strToReal s))
  | .real, .date _ => .error .nonPrimitive
  | .bool, .int n => .ok (.bool (n != 0))
  | .bool, .real x => .ok (.bool (x != 0.0))
  | .bool, .bool b => .ok (.bool b)
  | .bool, .chr c => .ok (.bool (c.toNat != 0))
  | .bool, .str s => .ok (.bool (!s.isEmpty))
  | .bool, .date _ => .error .nonPrimitive
  | .chr, .int n => .ok (.chr (byteOfInt n))
  | .chr, .real x => .ok (.chr (floatToByte x))
  | .chr, .bool b => .ok (.chr (Char.ofNat (if b then 1 else 0)))
  | .chr, .chr c => .ok (.chr c)
  | .chr, .str _ => .ok (.chr (Char.ofNat 0))
  | .chr, .date _ => .error .nonPrimitive
  | .str, v => match primToString v with
    | some s => .ok (.str s)
    | none => .error .nonPrimitive
  | _, _ => .error .nonPrimitive

/-! ### arithmetic -/

def modReal (x y : Float) : Float :=
  let z := x / y
  (z - z.floor) * y

/-- INTEGER ⊕ INTEGER: exact integer arithmetic, then two's-complement wrap. -/
def intArith (op : ArOp) (a b : Int) : Val :=
  match op with
  | .add => .int (wrap64 (a + b))
  | .sub => .int (wrap64 (a - b))
  | .mul => .int (wrap64 (a * b))
  | .div => .real (floatOfInt a / floatOfInt b)
  | .idiv => .int (wrap64 (Int.tdiv a b))
  | .mod => .int (Int.tmod a b)

def realArith (op : ArOp) (x y : Float) : Val :=
  match op with
  | .add => .real (x + y)
  | .sub => .real (x - y)
  | .mul => .real (x * y)
  | .div => .real (x / y)
  | .idiv => .int (floatToIntTrunc (x / y).floor)
  | .mod => .real (modReal x y)

def isZeroNum : Val → Bool
  | .int n => n == 0
  | .real x => x == 0.0
  | _ => false

def divides (op : ArOp) : Bool := op == .div || op == .idiv || op == .mod

/-- enum ± integer: cyclic move through `n` names (Euclidean remainder) -/
def enumShift (n : Nat) (res : Int) : Nat := (res % (n : Int)).toNat

/-- `ArithmeticOperationNode::evaluate` on evaluated operands. `enumSize ty` gives the number
    of names of enum type `ty` visible from the current activation. -/
def evalArith (enumSize : Str → Option Nat) (op : ArOp) (l r : Val) : Except Msg Val :=
  let (l', r', swapped) := match l, r with
    | .int _, .enum _ _ => (r, l, true)
    | _, _ => (l, r, false)
  match l', r' with
  | .enum ty idx, .int k =>
    if op == .add || op == .sub then
      let left : Int := if swapped then k else idx
      let right : Int := if swapped then idx else k
      let res : Int := if op == .add then left + right else left - right
      match enumSize ty with
      | some n => if n == 0 then .error .other else .ok (.enum ty (enumShift n res))
      | none => .error .notDefined
    else .error .typeMismatch
  | _, _ =>
  match l', r' with
  | .int a, .int b =>
    if divides op && b == 0 then .error .divZero else .ok (intArith op a b)
  | .int a, .real y =>
    if divides op && y == 0.0 then .error .divZero else .ok (realArith op (floatOfInt a) y)
  | .real x, .int b =>
    if divides op && b == 0 then .error .divZero else .ok (realArith op x (floatOfInt b))
  | .real x, .real y =>
    if divides op && y == 0.0 then .error .divZero else .ok (realArith op x y)
  | _, _ => .error .typeMismatch

def evalNeg : Val → Except Msg Val
  | .int n => .ok (.int (wrap64 (n * -1)))
  | .real x => .ok (.real (x * floatOfInt (-1)))
  | _ => .error .typeMismatch

/-! ### comparison -/

def cmpInt (op : CmpOp) (a b : Int) : Bool :=
  match op with
  | .eq => a == b | .ne => a != b | .gt => decide (a > b) | .lt => decide (a < b)
  | .ge => decide (a ≥ b) | .le => decide (a ≤ b)

def cmpReal (op : CmpOp) (x y : Float) : Bool :=
  match op with
  | .eq => x == y | .ne => x != y | .gt => x > y | .lt => x < y | .ge => x ≥ y | .le => x ≤ y

def eqRes (op : CmpOp) (same : Bool) : Val := .bool (if op == .eq then same else !same)

/-- `ComparisonNode::evaluate` on evaluated operands -/
def evalCmp (op : CmpOp) (l r : Val) : Except Msg Val :=
  let (l', r') : Val × Val := match l, r with
    | .chr a, .chr b => (.int (intOfByte a), .int (intOfByte b))
    | .date a, .date b => (.int (Calendar.key a), .int (Calendar.key b))
    | _, _ => (l, r)
  match l', r' with
  | .int a, .int b => .ok (.bool (cmpInt op a b))
  | .int a, .real y => .ok (.bool (cmpReal op (floatOfInt a) y))
  | .real x, .int b => .ok (.bool (cmpReal op x (floatOfInt b)))
  | .real x, .real y => .ok (.bool (cmpReal op x y))
  | _, _ =>
    if op != .eq && op != .ne then .error .typeMismatch
    else if l'.ty != r'.ty then .ok (eqRes op false)
    else match l', r' with
      | .bool a, .bool b => .ok (eqRes op (a == b))
      | .str a, .str b => .ok (eqRes op (a == b))
      | .enum _ i, .enum _ j => .ok (eqRes op (i == j))
      | _, _ => .error .typeMismatch

/-- `LogicNode` on the already evaluated operands (short circuit is in Eval) -/
def evalLogic (op : LogOp) (l r : Val) : Except Msg Val :=
  match l, r with
  | .bool a, .bool b => .ok (.bool (match op with | .and => a && b | .or => a || b))
  | _, _ => .error .typeMismatch

def evalNot : Val → Except Msg Val
  | .bool b => .ok (.bool (!b))
  | _ => .error .typeMismatch

/-- `&`: both operands primitive, converted with `toString` -/
def evalConcat (l r : Val) : Except Msg Val :=
  match primToString l, primToString r with
  | some a, some b => .ok (.str (a ++ b))
  | _, _ => .error .nonPrimitive

end Pseudo
