import PseudoModel.Value
import PseudoModel.Ast
namespace Pseudo

/-- a named cell of an activation (`PSC::Variable` / `PSC::Array`) -/
structure Slot where
  name : Str
  ty : Ty               -- declared type (element type for arrays)
  isConst : Bool := false
  val : Val
  ref : Option Loc := none   -- BYREF formal: alias of the caller's location
deriving Repr, Inhabited

structure ProcDef where
  name : Str
  params : List (Str × Ty × Bool)
  body : Block
deriving Inhabited

inductive FunBody
  | user (body : Block) (defTok : Tok)
  | builtin (id : Str)
deriving Inhabited

structure FunDef where
  name : Str
  params : List (Str × Ty × Bool)
  ret : Ty
  body : FunBody
deriving Inhabited

/-- an activation (`PSC::Context`) -/
structure Act where
  id : Nat
  name : Str
  vars : List Slot := []
  arrs : List Slot := []
  enums : List (Str × List Str) := []
  ptrs : List (Str × Ty) := []
  comps : List (Str × Block) := []
  isFn : Bool := false
  isComp : Bool := false
  /-- record context of a globally defined record type: its type names are looked up globally (`Context::typeScope`) -/
  typeGlobal : Bool := false
  retTy : Ty := .none
  retVal : Option Val := none
  switchTok : Option (Nat × Nat) := none
deriving Inhabited

/-! ### paths into values -/

def findField (fs : List (Str × Val)) (n : Str) (wantArr : Bool) : Option Val :=
  (fs.find? (fun p => p.1 == n && p.2.isArr == wantArr)).map (·.2)

def setField (fs : List (Str × Val)) (n : Str) (wantArr : Bool) (v : Val) : List (Str × Val) :=
  match fs with
  | [] => []
  | p :: rest =>
    if p.1 == n && p.2.isArr == wantArr then (p.1, v) :: rest
    else p :: setField rest n wantArr v

/-- a record member: scalar fields are searched before array fields (`Composite::getMember`) -/
def memberKind (fs : List (Str × Val)) (n : Str) : Option Bool :=
  if (findField fs n false).isSome then some false
  else if (findField fs n true).isSome then some true
  else none

inductive PStep
  | field (n : Str) (isArr : Bool)
  | idx (i : Nat)
deriving DecidableEq, Repr, Inhabited

def getPath : Val → List Step → Option Val
  | v, [] => some v
  | .comp _ fs, .field n :: rest =>
    match memberKind fs n with
    | some k => match findField fs n k with
      | some v => getPath v rest
      | none => none
    | none => none
  | .arr _ _ cells, .idx i :: rest =>
    match cells[i]? with
    | some v => getPath v rest
    | none => none
  | _, _ => none

def setPath : Val → List Step → Val → Option Val
  | _, [], nv => some nv
  | .comp ty fs, .field n :: rest, nv =>
    match memberKind fs n with
    | some k => match findField fs n k with
      | some v => match setPath v rest nv with
        | some v' => some (.comp ty (setField fs n k v'))
        | none => none
      | none => none
    | none => none
  | .arr e d cells, .idx i :: rest, nv =>
    match cells[i]? with
    | some v => match setPath v rest nv with
      | some v' => some (.arr e d (cells.set i v'))
      | none => none
    | none => none
  | _, _, _ => none

def findSlot (ss : List Slot) (n : Str) : Option Slot := ss.find? (·.name == n)

def updSlot (ss : List Slot) (n : Str) (f : Slot → Slot) : List Slot :=
  match ss with
  | [] => []
  | s :: rest => if s.name == n then f s :: rest else s :: updSlot rest n f

end Pseudo
