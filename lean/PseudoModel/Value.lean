import PseudoModel.Basic
import PseudoModel.Calendar
namespace Pseudo

/-- `PSC::DataType` (kind + type name for user types) -/
inductive Ty
  | none | int | real | bool | chr | str | date
  | enum (n : Str) | ptr (n : Str) | comp (n : Str)
deriving DecidableEq, Repr, Inhabited

def Ty.isPrimitive : Ty → Bool
  | .int | .real | .bool | .chr | .str | .date => true
  | _ => false

inductive Step
  | field (n : Str)
  | idx (i : Nat)
deriving DecidableEq, Repr, Inhabited

/-- A storage location: a variable or array of an activation, plus a path into it. -/
structure Loc where
  act : Nat
  isArr : Bool        -- root looked up among the activation's arrays (true) or variables (false)
  name : Str
  path : List Step
deriving DecidableEq, Repr, Inhabited

inductive Val
  | none
  | int (n : Int)
  | real (x : Float)
  | bool (b : Bool)
  | chr (c : Char)
  | str (s : Str)
  | date (t : Calendar.Date)
  | enum (ty : Str) (idx : Nat)
  | ptr (ty : Str) (tgt : Option Loc)
  | comp (ty : Str) (fields : List (Str × Val))
  | arr (elem : Ty) (dims : List (Int × Int)) (cells : List Val)
deriving Repr, Inhabited

def Val.ty : Val → Ty
  | .none => .none
  | .int _ => .int
  | .real _ => .real
  | .bool _ => .bool
  | .chr _ => .chr
  | .str _ => .str
  | .date _ => .date
  | .enum n _ => .enum n
  | .ptr n _ => .ptr n
  | .comp n _ => .comp n
  | .arr _ _ _ => .none

def Val.isArr : Val → Bool
  | .arr _ _ _ => true
  | _ => false

/-- default value of a primitive / enum / pointer type (`Variable` constructor);
    records are built by running their TYPE body (see Eval). -/
def defaultPrim : Ty → Val
  | .int => .int 0
  | .real => .real 0.0
  | .bool => .bool false
  | .chr => .chr (Char.ofNat 0)
  | .str => .str []
  | .date => .date ⟨0, 0, 0⟩
  | .enum n => .enum n 0
  | .ptr n => .ptr n none
  | _ => .none

/-! ### array geometry (`Array::getElement`) -/

def dimSize (d : Int × Int) : Nat := (d.2 - d.1 + 1).toNat

def totalCells (dims : List (Int × Int)) : Nat := dims.foldr (fun d acc => dimSize d * acc) 1

def inBounds (d : Int × Int) (i : Int) : Bool := decide (d.1 ≤ i) && decide (i ≤ d.2)

/-- first index varies fastest: `realIndex += (index[i] - lower[i]) * prevSize; prevSize *= size[i]` -/
def lin : List (Int × Int) → List Int → Nat
  | d :: ds, i :: is => (i - d.1).toNat + dimSize d * lin ds is
  | _, _ => 0

def InBoundsAll : List (Int × Int) → List Int → Prop
  | [], [] => True
  | d :: ds, i :: is => (d.1 ≤ i ∧ i ≤ d.2) ∧ InBoundsAll ds is
  | _, _ => False

end Pseudo
