import PseudoModel.Ast
/-!
# PseudoModel.Printer — the specification side of the expression grammar (property C02)

Written from the documented grammar, not from the parser:

* `* / DIV MOD` bind tighter than `+ -`, then `&`, then the comparisons, then `AND OR`;
* every binary level is left-associative;
* parentheses override; unary minus applies to an atom; `NOT` is a prefix of a comparison-level
  expression.

`PExpr` is a position-free expression tree, `denote` is the AST the parser is supposed to build for it
and `render` prints it as a token list with MINIMAL parentheses (`renderFull`: every binary node
parenthesised).  All produced tokens carry position (0,0) and `denote` uses those same tokens, so
`parse (render e) = denote e` can be stated as a plain equality.

This file only contains definitions; nothing here mentions `parseLevel`.
-/
namespace Pseudo

/-- the 15 binary operators -/
inductive BinOpTok
  | add | sub | mul | div | idiv | mod | concat | eq | ne | lt | le | gt | ge | and | or
deriving DecidableEq, Repr, Inhabited

/-- documented precedence level (higher binds tighter) -/
def BinOpTok.level : BinOpTok → Nat
  | .mul | .div | .idiv | .mod => 5
  | .add | .sub => 4
  | .concat => 3
  | .eq | .ne | .lt | .le | .gt | .ge => 2
  | .and | .or => 1

def BinOpTok.tk : BinOpTok → TK
  | .add => .PLUS | .sub => .MINUS | .mul => .STAR | .div => .SLASH | .idiv => .DIV | .mod => .MOD
  | .concat => .AMPERSAND
  | .eq => .EQUALS | .ne => .NOT_EQUALS | .lt => .LESSER | .le => .LESSER_EQUAL
  | .gt => .GREATER | .ge => .GREATER_EQUAL
  | .and => .AND | .or => .OR

/-- the AST node of a binary operator -/
def BinOpTok.mk : BinOpTok → Tok → Expr → Expr → Expr
  | .add => fun o l r => .arith o .add l r
  | .sub => fun o l r => .arith o .sub l r
  | .mul => fun o l r => .arith o .mul l r
  | .div => fun o l r => .arith o .div l r
  | .idiv => fun o l r => .arith o .idiv l r
  | .mod => fun o l r => .arith o .mod l r
  | .concat => fun o l r => .concat o l r
  | .eq => fun o l r => .cmp o .eq l r
  | .ne => fun o l r => .cmp o .ne l r
  | .lt => fun o l r => .cmp o .lt l r
  | .le => fun o l r => .cmp o .le l r
  | .gt => fun o l r => .cmp o .gt l r
  | .ge => fun o l r => .cmp o .ge l r
  | .and => fun o l r => .logic o .and l r
  | .or => fun o l r => .logic o .or l r

/-- position-free token -/
def mkT (k : TK) (v : Str := []) : Tok := { k := k, line := 0, col := 0, val := v }

def lparenT : Tok := mkT .LPAREN
def rparenT : Tok := mkT .RPAREN
def minusT : Tok := mkT .MINUS
def notT : Tok := mkT .NOT
def BinOpTok.tok (op : BinOpTok) : Tok := mkT op.tk

def digitChar (d : Nat) : Char := Char.ofNat ('0'.toNat + d)

def natDigitsAux : Nat → Nat → Str
  | 0, _ => []
  | f + 1, n => if n < 10 then [digitChar n] else natDigitsAux f (n / 10) ++ [digitChar (n % 10)]

/-- decimal digits of `n` (structural, so that it can be reasoned about; equals `natToStr n`) -/
def natDigits (n : Nat) : Str := natDigitsAux (n + 1) n

def intT (n : Nat) : Tok := mkT .INTEGER (natDigits n)
def boolT (b : Bool) : Tok := mkT (if b then .TRUE else .FALSE)
def strT (s : Str) : Tok := mkT .STRING s
def varT (name : Str) : Tok := mkT .IDENTIFIER name

/-- position-free expression trees of the operator grammar -/
inductive PExpr
  | int (n : Nat)
  | bool (b : Bool)
  | str (s : Str)
  | var (name : Str)
  | neg (e : PExpr)
  | not (e : PExpr)
  | bin (op : BinOpTok) (l r : PExpr)
deriving Repr, Inhabited

/-- the AST the parser is supposed to build -/
def denote : PExpr → Expr
  | .int n => .intLit (intT n) n
  | .bool b => .boolLit (boolT b) b
  | .str s => .strLit (strT s) s
  | .var x => .access (varT x) (.var (varT x))
  | .neg e => .neg minusT (denote e)
  | .not e => .not notT (denote e)
  | .bin op l r => op.mk op.tok (denote l) (denote r)

/-- integer literals must fit the interpreter's 64-bit `long` (larger ones are a syntax error) -/
def PExpr.InRange : PExpr → Prop
  | .int n => (n : Int) < two63
  | .bool _ | .str _ | .var _ => True
  | .neg e | .not e => e.InRange
  | .bin _ l r => l.InRange ∧ r.InRange

def PExpr.size : PExpr → Nat
  | .int _ | .bool _ | .str _ | .var _ => 1
  | .neg e | .not e => e.size + 1
  | .bin _ l r => l.size + r.size + 1

def PExpr.isNot : PExpr → Bool
  | .not _ => true
  | _ => false

/-- precedence level of a node: binary operators 1..5, `NOT` 2 (a prefix of a comparison-level
    expression), unary minus 6, atoms 7 -/
def PExpr.level : PExpr → Nat
  | .bin op _ _ => op.level
  | .not _ => 2
  | .neg _ => 6
  | _ => 7

def parenIf (b : Bool) (ts : List Tok) : List Tok :=
  if b then lparenT :: ts ++ [rparenT] else ts

/-- context level of the LEFT operand of an operator of level `L`: `L` itself (left associativity),
    except that a `NOT …` on the left of a comparison is parenthesised: `NOT` extends over the whole
    comparison chain to its right, so `(NOT a) = b` needs its parentheses. -/
def leftCtx (L : Nat) (l : PExpr) : Nat := if L == 2 && l.isNot then 3 else L

/-- Rendering in a context that requires level ≥ `k` (0 = whole expression, `L+1` = right operand of a
    level-`L` operator, 7 = atom).  `full = false`: minimal parentheses, a node of level `L` is
    parenthesised iff `L < k`.  `full = true`: additionally every binary node is parenthesised. -/
def renderG (full : Bool) : Nat → PExpr → List Tok
  | _, .int n => [intT n]
  | _, .bool b => [boolT b]
  | _, .str s => [strT s]
  | _, .var x => [varT x]
  | k, .neg e => parenIf (decide (6 < k)) (minusT :: renderG full 7 e)
  | k, .not e => parenIf (decide (2 < k)) (notT :: renderG full 2 e)
  | k, .bin op l r =>
    parenIf (full || decide (op.level < k))
      (renderG full (leftCtx op.level l) l ++ op.tok :: renderG full (op.level + 1) r)

/-- minimal parentheses -/
def render (k : Nat) (e : PExpr) : List Tok := renderG false k e
/-- every binary node parenthesised -/
def renderFull (k : Nat) (e : PExpr) : List Tok := renderG true k e

end Pseudo
