import PseudoModel.Basic
/-!
  Civil (proleptic Gregorian) calendar as `std::chrono::year_month_day` computes it.
  Model of the *repaired* interpreter: components are range-checked as integers before
  any narrowing conversion (`chrono::day/month` hold an `unsigned char`, `chrono::year` a `short`).
-/
namespace Pseudo.Calendar

def isLeap (y : Int) : Bool := y % 4 == 0 && (y % 100 != 0 || y % 400 == 0)

def daysInMonth (y : Int) (m : Int) : Int :=
  if m == 2 then (if isLeap y then 29 else 28)
  else if m == 4 || m == 6 || m == 9 || m == 11 then 30
  else 31

/-- the range of `std::chrono::year` for which `ok()` holds -/
def yearOk (y : Int) : Bool := decide (-32767 ≤ y) && decide (y ≤ 32767)

/-- `year_month_day::ok()` on un-narrowed integer components. -/
def validYMD (y m d : Int) : Bool :=
  yearOk y && decide (1 ≤ m) && decide (m ≤ 12) && decide (1 ≤ d) && decide (d ≤ daysInMonth y m)

/-- Gregorian validity as the property states it (any year). -/
def ValidGregorian (y m d : Int) : Prop :=
  1 ≤ m ∧ m ≤ 12 ∧ 1 ≤ d ∧ d ≤ daysInMonth y m

structure Date where
  y : Int
  m : Int
  d : Int
deriving DecidableEq, Repr, Inhabited

/-- `SETDATE(d, m, y)` and date literals `d/m/y`. -/
def setDate (d m y : Int) : Option Date :=
  if validYMD y m d then some ⟨y, m, d⟩ else none

/-- Days since 1970-01-01 (Hinnant's `days_from_civil`, the algorithm behind `sys_days(ymd)`). -/
def daysFromCivil (y m d : Int) : Int :=
  let y' := if m ≤ 2 then y - 1 else y
  let era := (if y' ≥ 0 then y' else y' - 399) / 400
  let yoe := y' - era * 400
  let mp := (m + 9) % 12
  let doy := (153 * mp + 2) / 5 + d - 1
  let doe := yoe * 365 + yoe / 4 - yoe / 100 + doy
  era * 146097 + doe - 719468

/-- `weekday(sys_days).c_encoding()`: 0 = Sunday. -/
def weekdayIdx (days : Int) : Int := (days + 4) % 7

/-- DAYINDEX: Sunday = 1 … Saturday = 7 -/
def dayIndex (t : Date) : Int := weekdayIdx (daysFromCivil t.y t.m t.d) + 1

/-- the comparison key of `Date::toInteger` -/
def key (t : Date) : Int := t.y * 372 + t.m * 31 + t.d

/-- lexicographic chronological order -/
def before (a b : Date) : Prop :=
  a.y < b.y ∨ (a.y = b.y ∧ (a.m < b.m ∨ (a.m = b.m ∧ a.d < b.d)))

/-- the day after a valid date -/
def next (t : Date) : Date :=
  if t.d < daysInMonth t.y t.m then ⟨t.y, t.m, t.d + 1⟩
  else if t.m < 12 then ⟨t.y, t.m + 1, 1⟩
  else ⟨t.y + 1, 1, 1⟩

def text (t : Date) : Str := intToStr t.d ++ ['/'] ++ intToStr t.m ++ ['/'] ++ intToStr t.y

end Pseudo.Calendar
