import PseudoModel.Basic
namespace Pseudo

/-- Token kinds: `enum class TokenType` of src/lexer/tokens.h, same order. -/
inductive TK
  | INTEGER | REAL | CHAR | STRING | DATE
  | RPAREN | LPAREN
  | PLUS | MINUS | STAR | SLASH | DIV | MOD
  | AMPERSAND
  | ASSIGNMENT | COLON | COMMA
  | EQUALS | NOT_EQUALS | GREATER | LESSER | GREATER_EQUAL | LESSER_EQUAL
  | AND | OR | NOT
  | TRUE | FALSE
  | DECLARE | CONSTANT | IDENTIFIER
  | DATA_TYPE | ARRAY | LSQRBRACKET | RSQRBRACKET
  | TYPE | ENDTYPE | CARET | PERIOD
  | IF | THEN | ELSE | ENDIF
  | CASE | OF | OTHERWISE | ENDCASE
  | WHILE | DO | ENDWHILE
  | REPEAT | UNTIL
  | FOR | TO | STEP | NEXT
  | BREAK | CONTINUE
  | PROCEDURE | BYREF | BYVAL | ENDPROCEDURE | CALL
  | FUNCTION | ENDFUNCTION | RETURNS | RETURN
  | OUTPUT | INPUT
  | OPENFILE | READFILE | WRITEFILE | CLOSEFILE
  | READ | WRITE | APPEND | RANDOM
  | SEEK | GETRECORD | PUTRECORD
  | LINE_END | EXPRESSION_END
deriving DecidableEq, Repr, Inhabited

structure Tok where
  k : TK
  line : Nat
  col : Nat
  val : Str := []
deriving DecidableEq, Repr, Inhabited

/-- The keyword table of `Lexer::makeWord` (word ↦ kind); `PRINT` is `OUTPUT`;
    the six type names are DATA_TYPE tokens carrying the word. -/
def keywordTable : List (String × TK) := [
  ("DIV", .DIV), ("MOD", .MOD), ("AND", .AND), ("OR", .OR), ("NOT", .NOT),
  ("TRUE", .TRUE), ("FALSE", .FALSE), ("DECLARE", .DECLARE), ("CONSTANT", .CONSTANT),
  ("INTEGER", .DATA_TYPE), ("REAL", .DATA_TYPE), ("BOOLEAN", .DATA_TYPE), ("CHAR", .DATA_TYPE),
  ("STRING", .DATA_TYPE), ("DATE", .DATA_TYPE),
  ("ARRAY", .ARRAY), ("TYPE", .TYPE), ("ENDTYPE", .ENDTYPE),
  ("IF", .IF), ("THEN", .THEN), ("ELSE", .ELSE), ("ENDIF", .ENDIF),
  ("CASE", .CASE), ("OF", .OF), ("OTHERWISE", .OTHERWISE), ("ENDCASE", .ENDCASE),
  ("WHILE", .WHILE), ("DO", .DO), ("ENDWHILE", .ENDWHILE),
  ("REPEAT", .REPEAT), ("UNTIL", .UNTIL),
  ("FOR", .FOR), ("TO", .TO), ("STEP", .STEP), ("NEXT", .NEXT),
  ("BREAK", .BREAK), ("CONTINUE", .CONTINUE),
  ("PROCEDURE", .PROCEDURE), ("BYREF", .BYREF), ("BYVAL", .BYVAL), ("ENDPROCEDURE", .ENDPROCEDURE),
  ("CALL", .CALL),
  ("FUNCTION", .FUNCTION), ("ENDFUNCTION", .ENDFUNCTION), ("RETURNS", .RETURNS), ("RETURN", .RETURN),
  ("OUTPUT", .OUTPUT), ("PRINT", .OUTPUT), ("INPUT", .INPUT),
  ("OPENFILE", .OPENFILE), ("READFILE", .READFILE), ("WRITEFILE", .WRITEFILE), ("CLOSEFILE", .CLOSEFILE),
  ("READ", .READ), ("WRITE", .WRITE), ("APPEND", .APPEND), ("RANDOM", .RANDOM),
  ("SEEK", .SEEK), ("GETRECORD", .GETRECORD), ("PUTRECORD", .PUTRECORD)
]

def lookupKeyword (w : Str) : Option TK :=
  (keywordTable.find? (fun p => p.1.toList == w)).map (·.2)

end Pseudo
