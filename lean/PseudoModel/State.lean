import PseudoModel.Codec
import PseudoModel.FilesPure
import PseudoModel.Store
namespace Pseudo

/-- places where the C++ would end abnormally (kept explicit so that C01 means something) -/
inductive CrashPoint
  | danglingLoc | noActivation | localCompositeType | enumIndexOOB | badAlias | other
deriving DecidableEq, Repr, Inhabited

inductive Stop
  | diag (d : Diag)
  | brk (t : Tok)
  | cont (t : Tok)
  | ret
  | crash (p : CrashPoint)
  | outOfFuel
deriving Repr, Inhabited

structure St where
  acts : List Act                 -- innermost first, global last
  nextId : Nat := 1
  procs : List ProcDef := []
  funs : List FunDef := []
  fs : List (Str × FsNode) := []
  handles : List Handle := []
  stdin : Str := []
  stdinEof : Bool := false
  out : List Str := []            -- chunks, newest first
  pedantic : Bool := false
  repl : Bool := false
  steps : Nat := 0
  stepLimit : Nat := 2000000
  depth : Nat := 0
  depthLimit : Nat := 1000
deriving Inhabited

abbrev M := ExceptT Stop (StateM St)

def St.output (s : St) : Str := (s.out.reverse).foldr (· ++ ·) []

def emit (x : Str) : M Unit := modify fun s => { s with out := x :: s.out }

def globalId : Nat := 0

def mkGlobal : Act := { id := globalId, name := "Program".toList }

def St.init (fs : List (Str × FsNode)) (stdin : Str) (pedantic repl : Bool) : St :=
  { acts := [mkGlobal], fs := fs, stdin := stdin, pedantic := pedantic, repl := repl }

def curAct : M Act := do
  match (← get).acts with
  | a :: _ => pure a
  | [] => throw (.crash .noActivation)

def globalAct : M Act := do
  match (← get).acts.getLast? with
  | some a => pure a
  | none => throw (.crash .noActivation)

def findAct (id : Nat) : M (Option Act) := do
  return (← get).acts.find? (·.id == id)

def updActs (acts : List Act) (id : Nat) (f : Act → Act) : List Act :=
  match acts with
  | [] => []
  | a :: rest => if a.id == id then f a :: rest else a :: updActs rest id f

def modifyAct (id : Nat) (f : Act → Act) : M Unit :=
  modify fun s => { s with acts := updActs s.acts id f }

def modifyCur (f : Act → Act) : M Unit := do
  let a ← curAct
  modifyAct a.id f

/-- build a runtime diagnostic at token position (line, col) from the activation chain -/
def mkRuntime (line col : Nat) (msg : Msg) : M Diag := do
  let s ← get
  match s.acts with
  | [] => pure { kind := .runtime, line := line, col := col, msg := msg }
  | a :: parents =>
    let fr : List Frame := parents.map fun p =>
      match p.switchTok with
      | some (l, c) => { name := p.name, line := l, col := c }
      | none => { name := p.name, line := 0, col := 0 }
    pure { kind := .runtime, line := line, col := col, msg := msg,
           trace := { name := a.name, line := line, col := col } :: fr }

def rtErr {α} (t : Tok) (msg : Msg := .other) : M α := do
  let d ← mkRuntime t.line t.col msg
  throw (.diag d)

def rtErr0 {α} (msg : Msg := .other) : M α := do
  let d ← mkRuntime 0 0 msg
  throw (.diag d)

def pedErr {α} (t : Tok) (msg : Msg) : M α :=
  throw (.diag { kind := .pedantic, line := t.line, col := t.col, msg := msg })

/-- count one executed statement / loop iteration against the budget -/
def tick (t : Tok) : M Unit := do
  let s ← get
  if s.steps + 1 > s.stepLimit then rtErr t .budget
  else set { s with steps := s.steps + 1 }

/-! ### name lookup (`Context::getVariable` etc.) -/

def lookupVarIn (a g : Act) (n : Str) : Option (Act × Slot) :=
  match findSlot a.vars n with
  | some s => some (a, s)
  | none => if a.id == g.id then none else (findSlot g.vars n).map (fun s => (g, s))

def lookupArrIn (a g : Act) (n : Str) : Option (Act × Slot) :=
  match findSlot a.arrs n with
  | some s => some (a, s)
  | none => if a.id == g.id then none else (findSlot g.arrs n).map (fun s => (g, s))

def lookupVar (n : Str) : M (Option (Act × Slot)) := do
  return lookupVarIn (← curAct) (← globalAct) n

def lookupArr (n : Str) : M (Option (Act × Slot)) := do
  return lookupArrIn (← curAct) (← globalAct) n

/-- the activation whose scope resolves type names: a record's own context defers to the
    context that declared it -/
def scopeAct : M Act := do
  match (← get).acts.find? (fun a => !a.isComp) with
  | some a => pure a
  | none => throw (.crash .noActivation)

/-- the activation from which type names are looked up: the declaring activation, except while the TYPE body of a
    globally defined record type runs (a record context with `typeGlobal` on top of the stack): then the global one,
    so that the member types of a global record type never resolve to a procedure's local types -/
def typeScopeAct : M Act := do
  if ((← get).acts.takeWhile (·.isComp)).any (·.typeGlobal) then globalAct else scopeAct

def lookupList {β} (sel : Act → List (Str × β)) (n : Str) (global : Bool := true) : M (Option (Str × β)) := do
  let a ← typeScopeAct
  let g ← globalAct
  match (sel a).find? (·.1 == n) with
  | some x => pure (some x)
  | none =>
    if !global || a.id == g.id then pure none
    else pure ((sel g).find? (·.1 == n))

def enumDefOf (n : Str) (global := true) : M (Option (Str × List Str)) := lookupList (·.enums) n global
def ptrDefOf (n : Str) (global := true) : M (Option (Str × Ty)) := lookupList (·.ptrs) n global
def compDefOf (n : Str) (global := true) : M (Option (Str × Block)) := lookupList (·.comps) n global

/-- `Context::getType` -/
def getType (t : Tok) (global := true) : M Ty := do
  if t.k == .DATA_TYPE then
    if t.val == "INTEGER".toList then pure .int
    else if t.val == "REAL".toList then pure .real
    else if t.val == "BOOLEAN".toList then pure .bool
    else if t.val == "CHAR".toList then pure .chr
    else if t.val == "STRING".toList then pure .str
    else pure .date
  else
    match ← enumDefOf t.val global with
    | some (n, _) => pure (.enum n)
    | none => match ← ptrDefOf t.val global with
      | some (n, _) => pure (.ptr n)
      | none => match ← compDefOf t.val global with
        | some (n, _) => pure (.comp n)
        | none => pure .none

def enumElemIn (a : Act) (v : Str) : Option Val :=
  a.enums.findSome? fun (n, vals) =>
    match vals.findIdx? (· == v) with
    | some i => some (.enum n i)
    | none => none

/-- `Context::getEnumElement` -/
def getEnumElement (v : Str) (global := true) : M (Option Val) := do
  let a ← typeScopeAct
  let g ← globalAct
  match enumElemIn a v with
  | some x => pure (some x)
  | none => if !global || a.id == g.id then pure none else pure (enumElemIn g v)

/-- `Context::isIdentifierType` -/
def isIdentifierType (t : Tok) (global := true) : M Bool := do
  if (← getType t global) != .none then pure true
  else pure (← getEnumElement t.val global).isSome

/-! ### locations -/

def slotOf (a : Act) (l : Loc) : Option Slot := findSlot (if l.isArr then a.arrs else a.vars) l.name

def readLoc (l : Loc) : M Val := do
  match ← findAct l.act with
  | none => throw (.crash .danglingLoc)
  | some a =>
    match slotOf a l with
    | none => throw (.crash .danglingLoc)
    | some s =>
      match getPath s.val l.path with
      | some v => pure v
      | none => throw (.crash .danglingLoc)

/-- is the root cell of this location a constant -/
def locIsConst (l : Loc) : M Bool := do
  match ← findAct l.act with
  | none => pure false
  | some a => pure ((slotOf a l).map (·.isConst) |>.getD false)

/-- The only function that changes the value stored in an existing cell.
    A constant root is refused here, whatever statement asked for the write. -/
def writeLoc (t : Tok) (l : Loc) (v : Val) : M Unit := do
  match ← findAct l.act with
  | none => throw (.crash .danglingLoc)
  | some a =>
    match slotOf a l with
    | none => throw (.crash .danglingLoc)
    | some s =>
      if s.isConst then rtErr t .constAssign
      else match setPath s.val l.path v with
        | none => throw (.crash .danglingLoc)
        | some nv =>
          modifyAct a.id fun a =>
            if l.isArr then { a with arrs := updSlot a.arrs l.name (fun s => { s with val := nv }) }
            else { a with vars := updSlot a.vars l.name (fun s => { s with val := nv }) }

def addVar (s : Slot) : M Unit := modifyCur fun a => { a with vars := a.vars ++ [s] }
def addArr (s : Slot) : M Unit := modifyCur fun a => { a with arrs := a.arrs ++ [s] }

def pushAct (mk : Nat → Act) : M Nat := do
  let s ← get
  let id := s.nextId
  set { s with acts := mk id :: s.acts, nextId := id + 1 }
  pure id

def popAct : M Unit := modify fun s => { s with acts := s.acts.drop 1 }

def isLive (id : Nat) : M Bool := do
  return (← get).acts.any (·.id == id)

end Pseudo
