import PseudoModel.Eval
import PseudoModel.Lexer
import PseudoModel.Parser
namespace Pseudo

structure RunResult where
  out : Str := []
  diags : List Diag := []
  errLines : List Str := []        -- other stderr lines ("Expected filename", file not found)
  exitCode : Nat := 0
  fs : List (Str × FsNode) := []
  stdinLeft : Str := []
  inconclusive : Bool := false
  crash : Option CrashPoint := none
  steps : Nat := 0
deriving Inhabited

def warningText (t : Tok) : Str :=
  ("Warning on line " ++ toString t.line ++ " column " ++ toString t.col ++
   ": Comparison result is ignored. Use '<-' instead of '=' if you wanted to assign.\n").toList

def isBudget (d : Diag) : Bool := d.msg == .budget

/-- outcome of running one parsed block on a state -/
inductive Outcome
  | ok
  | diag (d : Diag)
  | crash (p : CrashPoint)
  | fuel

/-- `MainBlock::run`: a BREAK / CONTINUE that reaches the top is a runtime error -/
def runMain (fuel : Nat) (b : Block) : M Unit :=
  tryCatch (runBlock fuel b) fun e =>
    match e with
    | .brk t => rtErr t .breakOutside
    | .cont t => rtErr t .breakOutside
    | .ret => throw (.crash .other)
    | e => throw e

def runOn (fuel : Nat) (b : Block) (st : St) : Outcome × St :=
  match (ExceptT.run (runMain fuel b)).run st with
  | (.ok (), s) => (.ok, s)
  | (.error (.diag d), s) => (.diag d, s)
  | (.error (.crash p), s) => (.crash p, s)
  | (.error .outOfFuel, s) => (.fuel, s)
  | (.error _, s) => (.crash .other, s)

def closeAllSt (s : St) : St := ((ExceptT.run closeAll).run s).2

structure Cfg where
  pedantic : Bool := false
  fuel : Nat := 100000
  stepLimit : Nat := 200000
  depthLimit : Nat := 1000

/-- lex + parse + run one source text on state `st` (shared by file mode and REPL entries).
    Returns the diagnostics-side result and the new state. -/
def runSource (cfg : Cfg) (src : Str) (st : St) : Outcome × St :=
  match lex { pedantic := cfg.pedantic } src with
  | .error d => (.diag d, { st with out := ['\n'] :: st.out })
  | .ok toks =>
    match parse { pedantic := cfg.pedantic } toks with
    | .error (d, warns) =>
      let st1 := { st with out := (warns.map warningText).reverse ++ st.out }
      if isBudget d then (.fuel, st1) else (.diag d, { st1 with out := ['\n'] :: st1.out })
    | .ok (b, warns) =>
      let st1 := { st with out := (warns.map warningText).reverse ++ st.out }
      match runOn cfg.fuel b st1 with
      | (.diag d, s) => (.diag d, { s with out := ['\n'] :: s.out })
      | r => r

/-- `runFile()` on a program text; `fs`/`stdin` are the world. -/
def runFileOn (cfg : Cfg) (content : Str) (fs : List (Str × FsNode)) (stdin : Str) (stdinEof : Bool) :
    Outcome × St :=
  let st0 : St := { St.init fs stdin cfg.pedantic false with stdinEof := stdinEof, stepLimit := cfg.stepLimit, depthLimit := cfg.depthLimit }
  let (o, s) := runSource cfg (content ++ ['\n']) st0
  (o, closeAllSt s)

def resultOf (o : Outcome) (s : St) : RunResult :=
  let base : RunResult := { out := s.output, fs := s.fs, stdinLeft := s.stdin, steps := s.steps }
  match o with
  | .ok => base
  | .diag d => if isBudget d then { base with inconclusive := true } else { base with diags := [d], exitCode := 1 }
  | .crash p => { base with crash := some p, exitCode := 134 }
  | .fuel => { base with inconclusive := true }

def runFile (cfg : Cfg) (content : Str) (fs : List (Str × FsNode)) (stdin : Str) : RunResult :=
  let (o, s) := runFileOn cfg content fs stdin false
  resultOf o s

/-! ### REPL -/

def multilineKeywords : List String := ["IF", "CASE", "WHILE", "REPEAT", "FOR", "PROCEDURE", "FUNCTION", "TYPE"]

def startsWith (s p : Str) : Bool := s.take p.length == p

/-- the entry begins with keyword `k` as a whole word (model of the repaired code) -/
def startsWithWord (s : Str) (k : Str) : Bool :=
  startsWith s k && match s.drop k.length with
    | [] => true
    | c :: _ => !(isAlnum c || c == '_')

def multilineStart (code : Str) : Bool :=
  match multilineKeywords.find? (fun k => startsWithWord code k.toList) with
  | none => false
  | some k => !(k == "TYPE" && code.contains '=')

def marker : Str := [Char.ofNat 0x1e]

structure ReplSt where
  st : St
  diags : List Diag := []        -- newest first
  errLines : List Str := []
  inconclusive : Bool := false
  crash : Option CrashPoint := none

def stripTrailingBlanks (s : Str) : Str :=
  -- `for (i = size-1; i > 0; i--)`: never removes the first character
  match s with
  | [] => []
  | c :: rest => c :: (rest.reverse.dropWhile (fun x => x == ' ' || x == '\t')).reverse

def helpText : Str :=
  "Visit https://github.com/SingularityT3/PseudoEngine2 for syntax, examples and more info\nUse `RUNFILE <filename>` to run programs stored in files\n".toList

/-- collect continuation lines until an empty one; `none` on end of input (the prompts printed
    so far stay printed) -/
def collectLines : Nat → Str → St → Option Str × St
  | 0, code, st => (some code, st)
  | n + 1, code, st =>
    let st1 := { st with out := ". ".toList :: st.out }
    match (ExceptT.run getLine).run st1 with
    | (.ok (line, ok), st2) =>
      if !ok then (none, st2)
      else
        let code' := code ++ ['\n'] ++ line
        if line.isEmpty then (some code', st2) else collectLines n code' st2
    | (_, st2) => (none, st2)

def replLoop (cfg : Cfg) : Nat → Bool → ReplSt → ReplSt
  | 0, _, r => { r with inconclusive := true }
  | n + 1, first, r =>
    if r.crash.isSome then r else
    let st0 := if first then r.st else { r.st with out := marker :: r.st.out }
    let st1 := { st0 with out := "> ".toList :: st0.out, steps := 0, depth := 0 }
    match (ExceptT.run getLine).run st1 with
    | (.ok (code, ok), st2) =>
      if !ok then { r with st := st2 }
      else if code.isEmpty then replLoop cfg n false { r with st := st2 }
      else if code == ['?'] then replLoop cfg n false { r with st := { st2 with out := helpText :: st2.out } }
      else if code == "EXIT".toList then { r with st := st2 }
      else if startsWith code "RUNFILE".toList then
        if code.length < 9 then replLoop cfg n false { r with st := st2, errLines := "Expected filename".toList :: r.errLines }
        else
          let fname := stripTrailingBlanks (code.drop 8)
          let st3 := { st2 with out := ("==> Running file '".toList ++ fname ++ "'\n".toList) :: st2.out }
          match st3.fs.find? (·.1 == fname) with
          | some (_, .file content) =>
            let (o, s) := runFileOn cfg content st3.fs st3.stdin st3.stdinEof
            let okRun := match o with | .ok => true | _ => false
            let st4 := { st3 with out := (("\n==> Program exited " ++ (if okRun then "successfully" else "with an error") ++ "\n").toList) :: (s.out ++ st3.out),
                                  fs := s.fs, stdin := s.stdin, stdinEof := s.stdinEof }
            match o with
            | .ok => replLoop cfg n false { r with st := st4 }
            | .diag d =>
              if isBudget d then replLoop cfg n false { r with st := st4, inconclusive := true }
              else replLoop cfg n false { r with st := st4, diags := d :: r.diags }
            | .crash p => { r with st := st4, crash := some p }
            | .fuel => replLoop cfg n false { r with st := st4, inconclusive := true }
          | _ =>
            let st4 := { st3 with out := "\n==> Program exited with an error\n".toList :: st3.out }
            replLoop cfg n false { r with st := st4, errLines := ("Error: File '".toList ++ fname ++ "' not found!".toList) :: r.errLines }
      else
        let (full?, st3) : Option Str × St :=
          if multilineStart code then collectLines (st2.stdin.length + 2) code st2 else (some code, st2)
        match full? with
        | none => { r with st := st3 }     -- end of input inside a multi-line entry: the session ends
        | some src =>
          match runSource cfg src st3 with
          | (.ok, s) => replLoop cfg n false { r with st := s }
          | (.diag d, s) =>
            if isBudget d then replLoop cfg n false { r with st := s, inconclusive := true }
            else replLoop cfg n false { r with st := s, diags := d :: r.diags }
          | (.crash p, s) => { r with st := s, crash := some p }
          | (.fuel, s) => replLoop cfg n false { r with st := s, inconclusive := true }
    | (_, st2) => { r with st := st2 }

/-- a whole REPL session on the given standard input (banner not included) -/
def repl (cfg : Cfg) (fs : List (Str × FsNode)) (stdin : Str) : RunResult :=
  let st0 : St := { St.init fs stdin cfg.pedantic true with stepLimit := cfg.stepLimit, depthLimit := cfg.depthLimit }
  let r := replLoop cfg (stdin.length + 2) true { st := st0 }
  let s := closeAllSt r.st
  { out := s.output, diags := r.diags.reverse, errLines := r.errLines.reverse, exitCode := if r.crash.isSome then 134 else 0,
    fs := s.fs, stdinLeft := s.stdin, inconclusive := r.inconclusive, crash := r.crash }

end Pseudo
