import PseudoModel.Numeric
import PseudoModel.Store
/-!
  Record text codec: `dump` / `load` of every value type (random files), over an explicit
  model of the `std::istream` primitives the C++ uses. Model of the repaired code
  (CHAR line break, array-field separators, length-checked STRING payload, validated DATE).
-/
namespace Pseudo.Codec

open FloatFmt

def joinSp : List Str → Str
  | [] => []
  | [x] => x
  | x :: rest => x ++ [' '] ++ joinSp rest

/-- `'\n'` ↦ `"\n#"` -/
def escNL : Str → Str
  | [] => []
  | c :: rest => if c == '\n' then '\n' :: '#' :: escNL rest else c :: escNL rest

/-- inverse of `escNL` as coded in `String::load`: drop a `#` whose preceding raw
    character is a line break -/
def unescAux : Bool → Str → Str
  | _, [] => []
  | prevNL, c :: rest =>
    if prevNL && c == '#' then unescAux false rest
    else c :: unescAux (c == '\n') rest

def unescNL (s : Str) : Str := unescAux false s

mutual
  /-- `Value::dump` -/
  def dump : Val → Str
    | .int n => "INTEGER ".toList ++ intToStr n
    | .real x => "REAL ".toList ++ fmtG 17 x
    | .bool b => "BOOLEAN ".toList ++ (if b then "TRUE".toList else "FALSE".toList)
    | .chr c => "CHAR ".toList ++ [c] ++ (if c == '\n' then ['#'] else [])
    | .str s => let e := escNL s; "STRING ".toList ++ natToStr e.length ++ [' '] ++ e
    | .date t => "DATE ".toList ++ intToStr t.d ++ [' '] ++ intToStr t.m ++ [' '] ++ intToStr t.y
    | .enum ty i => "ENUM ".toList ++ ty ++ [' '] ++ natToStr i
    | .ptr _ _ => []
    | .comp ty fs =>
      "COMPOSITE ".toList ++ ty ++ [' '] ++ joinSp (dumpFields fs false) ++
        (if (dumpFields fs true).isEmpty then [] else [' '] ++ joinSp (dumpFields fs true))
    | .arr _ _ cells => "ARRAY ".toList ++ natToStr cells.length ++ [' '] ++ joinSp (dumpList cells)
    | .none => []
  def dumpList : List Val → List Str
    | [] => []
    | v :: rest => dump v :: dumpList rest
  /-- scalar fields (`wantArr = false`) or array fields (`true`), in declaration order -/
  def dumpFields : List (Str × Val) → Bool → List Str
    | [], _ => []
    | (_, v) :: rest, wantArr =>
      if v.isArr == wantArr then dump v :: dumpFields rest wantArr else dumpFields rest wantArr
end

/-! ### stream primitives -/

def skipWs (s : Str) : Str := s.dropWhile isSpaceC

/-- `in >> std::string` -/
def readWord (s : Str) : Option (Str × Str) :=
  let t := skipWs s
  let w := t.takeWhile (fun c => !isSpaceC c)
  if w.isEmpty then none else some (w, t.drop w.length)

def expectWord (w : String) (s : Str) : Option Str :=
  match readWord s with
  | some (x, rest) => if x == w.toList then some rest else none
  | none => none

structure Defs where
  enumDef : Str → Option (Str × List Str)     -- visible enum definition by name: (name, values)
  compDef : Str → Option Str                  -- visible composite definition by name

/-- put the values `vs` back into the selected (scalar / array) fields, in order -/
def mergeFields : List (Str × Val) → Bool → List Val → List (Str × Val)
  | [], _, _ => []
  | (n, v) :: rest, wantArr, vs =>
    if v.isArr == wantArr then
      match vs with
      | v' :: vs' => (n, v') :: mergeFields rest wantArr vs'
      | [] => (n, v) :: mergeFields rest wantArr []
    else (n, v) :: mergeFields rest wantArr vs

mutual
  /-- `Value::load` into a variable currently holding `cur` (its type and shape are kept). -/
  def load (defs : Defs) : Val → Str → Option (Val × Str)
    | .int _, s => do
      let r ← expectWord "INTEGER" s
      let (n, r') ← istreamReadLong r
      pure (.int n, r')
    | .real _, s => do
      let r ← expectWord "REAL" s
      let (x, r') ← istreamReadDouble r
      pure (.real x, r')
    | .bool _, s => do
      let r ← expectWord "BOOLEAN" s
      let (w, r') ← readWord r
      if w == "TRUE".toList then pure (.bool true, r')
      else if w == "FALSE".toList then pure (.bool false, r')
      else none
    | .chr _, s => do
      let r ← expectWord "CHAR" s
      match r.drop 1 with
      | [] => none
      | c :: r' =>
        if c == '\n' then
          match r' with
          | '#' :: r'' => pure (.chr c, r'')
          | _ => pure (.chr c, r')
        else pure (.chr c, r')
    | .str _, s => do
      let r ← expectWord "STRING" s
      let (w, r') ← readWord r
      -- the length must be a plain decimal numeral (model of the repaired code)
      if w.isEmpty || !w.all isDigit || w.length > 18 then none
      else
        let n := digitsVal w
        let body := (r'.drop 1).take n
        if body.length != n then none
        else pure (.str (unescNL body), (r'.drop 1).drop n)
    | .date _, s => do
      let r ← expectWord "DATE" s
      let (d, r1) ← istreamReadUInt r
      let (m, r2) ← istreamReadUInt r1
      let (y, r3) ← istreamReadLong r2     -- `int`: range-checked below
      if y < -2147483648 || y > 2147483647 then none
      else if d == 0 && m == 0 && y == 0 then pure (.date ⟨0, 0, 0⟩, r3)   -- a DATE never assigned
      else match Calendar.setDate d m y with
        | some t => pure (.date t, r3)
        | none => none
    | .enum ty _, s => do
      let r ← expectWord "ENUM" s
      let (w, r1) ← readWord r
      let (dn, vals) ← defs.enumDef w
      if dn != ty then none
      else
        let (i, r2) ← istreamReadSizeT r1
        if i ≥ vals.length then none else pure (.enum ty i, r2)
    | .ptr _ _, _ => none
    | .comp ty fs, s => do
      let r ← expectWord "COMPOSITE" s
      let (w, r1) ← readWord r
      let dn ← defs.compDef w
      if dn != ty then none
      else
        let (vs1, r2) ← loadFields defs fs false r1
        let (vs2, r3) ← loadFields defs fs true r2
        pure (.comp ty (mergeFields (mergeFields fs false vs1) true vs2), r3)
    | .arr e d cells, s => do
      let r ← expectWord "ARRAY" s
      let (n, r1) ← istreamReadSizeT r
      if n != cells.length then none
      else
        let (cs, r2) ← loadList defs cells r1
        pure (.arr e d cs, r2)
    | .none, _ => none
  def loadList (defs : Defs) : List Val → Str → Option (List Val × Str)
    | [], s => some ([], s)
    | v :: rest, s => do
      let (v', s1) ← load defs v s
      let (rest', s2) ← loadList defs rest s1
      pure (v' :: rest', s2)
  /-- load the scalar (resp. array) fields in order; returns the new values of the selected fields -/
  def loadFields (defs : Defs) : List (Str × Val) → Bool → Str → Option (List Val × Str)
    | [], _, s => some ([], s)
    | (_, v) :: rest, wantArr, s =>
      if v.isArr == wantArr then do
        let (v', s1) ← load defs v s
        let (vs, s2) ← loadFields defs rest wantArr s1
        pure (v' :: vs, s2)
      else loadFields defs rest wantArr s
end

/-! ### the random-file container -/

/-- physical file text of a list of records (`File::close`) -/
def renderFile : List Str → Str
  | [] => []
  | r :: rest => r ++ ['\n'] ++ renderFile rest

/-- split at line breaks the way the `getline` loop of `File::File` does: the text after the
    last line break is a (possibly empty) final line. -/
def splitLines (s : Str) : List Str :=
  let rec go : Str → Str → List Str
    | [], cur => [cur.reverse]
    | c :: rest, cur => if c == '\n' then cur.reverse :: go rest [] else go rest (c :: cur)
  go s []

/-- re-join continuation lines (those starting with `#`) to the previous record
    (model of the repaired code: also for the first record) -/
def joinCont : List Str → List Str → List Str
  | [], acc => acc.reverse
  | l :: rest, acc =>
    match l, acc with
    | '#' :: _, prev :: acc' => joinCont rest ((prev ++ ['\n'] ++ l) :: acc')
    | _, _ => joinCont rest (l :: acc)

def dropTrailingEmpty (rs : List Str) : List Str := (rs.reverse.dropWhile (·.isEmpty)).reverse

/-- records of a random file with content `s` (`File::File`, RANDOM) -/
def loadFile (s : Str) : List Str :=
  if s.isEmpty then [] else dropTrailingEmpty (joinCont (splitLines s) [])

/-- A record text is *framed*: non-empty, does not start with `#`, every line break is followed by `#`. -/
def FramedTail : Str → Prop
  | [] => True
  | c :: rest => (c = '\n' → ∃ r, rest = '#' :: r) ∧ FramedTail rest

def Framed (r : Str) : Prop := r ≠ [] ∧ r.head? ≠ some '#' ∧ FramedTail r

end Pseudo.Codec
