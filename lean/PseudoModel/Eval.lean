import PseudoModel.Builtins
namespace Pseudo

open FloatFmt

def liftMsg {α} (t : Tok) : Except Msg α → M α
  | .ok a => pure a
  | .error m => rtErr t m

def liftMsg0 {α} : Except Msg α → M α
  | .ok a => pure a
  | .error m => rtErr0 m

/-- run `body` in a new activation; the activation is removed whatever way `body` ends
    (C++: the callee `Context` is destroyed by stack unwinding). -/
def withAct {α} (mk : Nat → Act) (body : M α) : M α := do
  let _ ← pushAct mk
  let r ← (liftM (m := StateM St) (ExceptT.run body) : M (Except Stop α))
  popAct
  match r with
  | .ok a => pure a
  | .error e => throw e

/-- catch a runtime diagnostic of class `notDefined` that was raised in the current activation (its traceback has one
    frame per activation on the stack): an error raised inside a function called from an index expression is passed on -/
def catchNotDefined {α} (m : M α) (h : Stop → M α) : M α :=
  tryCatch m fun e =>
    match e with
    | .diag d =>
      if d.kind == .runtime && d.msg == .notDefined then do
        if d.trace.length == (← get).acts.length then h e else throw e
      else throw e
    | _ => throw e

structure Holder where
  loc : Loc
  isArr : Bool
  ty : Ty          -- type of the variable (element type for an array holder)
  name : Str       -- name of the underlying variable / array (for messages and the REPL echo)
deriving Inhabited

def getLine : M (Str × Bool) := do
  let s ← get
  if s.stdinEof then pure ([], false)
  else
    let line := s.stdin.takeWhile (· != '\n')
    let rest := s.stdin.drop line.length
    match rest with
    | [] => set { s with stdin := [], stdinEof := true }; pure (line, false)
    | _ :: rest' => set { s with stdin := rest' }; pure (line, true)

/-- text of a value in OUTPUT -/
def outputText (v : Val) : M (Option Str) := do
  match v with
  | .int n => pure (some (intToStr n))
  | .real x => pure (some (realOutput x))
  | .bool b => pure (some (if b then "TRUE".toList else "FALSE".toList))
  | .chr c => pure (some [c])
  | .str s => pure (some s)
  | .date t => pure (some (Calendar.text t))
  | .enum ty i =>
    match ← enumDefOf ty with
    | some (_, vals) => match vals[i]? with
      | some n => pure (some n)
      | none => throw (.crash .enumIndexOOB)
    | none => throw (.crash .enumIndexOOB)
  | .ptr ty _ => pure (some (ty ++ " object".toList))
  | .comp ty _ => pure (some (ty ++ " object".toList))
  | _ => pure none

def findHandle (n : Str) : M (Option Handle) := do
  return (← get).handles.find? (·.name == n)

/-- legality check of a file statement (no effect) -/
def filePre (t : Tok) (op : FOp) : M Unit := do
  let st ← get
  match fpre { fs := st.fs, handles := st.handles } op with
  | .ok () => pure ()
  | .error m => rtErr t m

/-- perform one file statement through the pure file layer; on an error nothing changes -/
def doFile (t : Tok) (op : FOp) : M FRes := do
  let st ← get
  match fstep { fs := st.fs, handles := st.handles } op with
  | .ok (fs', r) => set { st with fs := fs'.fs, handles := fs'.handles }; pure r
  | .error m => rtErr t m

def doFile0 (op : FOp) : M FRes := do
  let st ← get
  match fstep { fs := st.fs, handles := st.handles } op with
  | .ok (fs', r) => set { st with fs := fs'.fs, handles := fs'.handles }; pure r
  | .error m => rtErr0 m

def closeAll : M Unit := modify fun st =>
  let f := closeAllF { fs := st.fs, handles := st.handles }
  { st with fs := f.fs, handles := f.handles }

def codecDefs : M Codec.Defs := do
  let a ← scopeAct
  let g ← globalAct
  let find {β} (sel : Act → List (Str × β)) (n : Str) : Option (Str × β) :=
    match (sel a).find? (·.1 == n) with
    | some x => some x
    | none => if a.id == g.id then none else (sel g).find? (·.1 == n)
  pure { enumDef := fun n => find (·.enums) n, compDef := fun n => (find (·.comps) n).map (·.1) }

def mathBuiltin (id : Str) (args : List Val) : Option Val :=
  let s := String.ofList id
  match s, args with
  | "POW", [.real x, .real y] => some (.real (Float.pow x y))
  | "EXP", [.real x] => some (.real x.exp)
  | "SIN", [.real x] => some (.real x.sin)
  | "COS", [.real x] => some (.real x.cos)
  | "TAN", [.real x] => some (.real x.tan)
  | "ASIN", [.real x] => some (.real x.asin)
  | "ACOS", [.real x] => some (.real x.acos)
  | "ATAN", [.real x] => some (.real x.atan)
  | "ATAN2", [.real y, .real x] => some (.real (Float.atan2 y x))
  | "SQRT", [.real x] => some (.real x.sqrt)
  | "LOG", [.real x] => some (.real x.log10)
  | "LN", [.real x] => some (.real x.log)
  | _, _ => none

/-- built-in functions on their (already implicitly cast, type-checked) arguments;
    runs inside the function's own activation (errors carry position 0,0) -/
def runBuiltin (id : Str) (args : List Val) : M Val := do
  let s := String.ofList id
  match s, args with
  | "LENGTH", [.str x] => pure (.int x.length)
  | "LEFT", [.str x, .int n] => return .str (← liftMsg0 (bLeft x n))
  | "RIGHT", [.str x, .int n] => return .str (← liftMsg0 (bRight x n))
  | "MID", [.str x, .int i, .int n] => return .str (← liftMsg0 (bMid x i n))
  | "TO_UPPER", [.str x] => pure (.str (x.map toUpperC))
  | "TO_LOWER", [.str x] => pure (.str (x.map toLowerC))
  | "NUM_TO_STR", [.real x] => pure (.str (realToString x))
  | "STR_TO_NUM", [.str x] => pure (.real (strToReal x))
  | "IS_NUM", [.str x] => pure (.bool (bIsNum x))
  | "EOF", [.str f] =>
    match ← doFile0 (.eof f) with
    | .bool b => pure (.bool b)
    | _ => throw (.crash .other)
  | "LCASE", [.chr c] => pure (.chr (toLowerC c))
  | "UCASE", [.chr c] => pure (.chr (toUpperC c))
  | "ASC", [.chr c] => pure (.int (intOfByte c))
  | "CHR", [.int n] => pure (.chr (byteOfInt n))
  | "DAY", [.date t] => pure (.int t.d)
  | "MONTH", [.date t] => pure (.int t.m)
  | "YEAR", [.date t] => pure (.int t.y)
  | "DAYINDEX", [.date t] => pure (.int (Calendar.dayIndex t))
  | "SETDATE", [.int d, .int m, .int y] =>
    match Calendar.setDate d m y with
    | some t => pure (.date t)
    | none => rtErr0 .invalidDate
  | "TODAY", [] => pure (.date ⟨1970, 1, 1⟩)
  | "TIME", [] => pure (.int 0)
  | "HOURS", [] => pure (.int 0)
  | "MINUTES", [] => pure (.int 0)
  | "SECONDS", [] => pure (.int 0)
  | "RAND", [.int x] => pure (.real (bRand x 0 0))
  | "INT", [.real x] => pure (.int (bInt x))
  | _, _ =>
    match mathBuiltin id args with
    | some v => pure v
    | none => throw (.crash .other)

/-- text of a value as WRITEFILE writes it -/
def writeText (t : Tok) (v : Val) : M Str := do
  match v with
  | .none => rtErr t .noValue
  | .enum _ _ | .ptr _ _ | .comp _ _ | .arr _ _ _ => rtErr t .nonPrimitive
  | v => match primToString v with
    | some s => pure s
    | none => rtErr t .nonPrimitive

/-- conversion of a typed line by INPUT; `none` = the type cannot be input -/
def inputConvert (ty : Ty) (line : Str) : Option Val :=
  match ty with
  | .int => some (.int (strToInteger line))
  | .real => some (.real (strToReal line))
  | .bool => some (.bool (line == "TRUE".toList))
  | .chr => some (.chr (line.headD (Char.ofNat 0)))
  | .str => some (.str line)
  | _ => none

/-- echo of a value in the REPL (`Block::runNodeREPL`) -/
def replEcho (v : Val) : M Unit := do
  match v with
  | .none => pure ()
  | .chr c => emit (['\''] ++ [c] ++ ['\'', '\n'])
  | .str s => emit (['"'] ++ s ++ ['"', '\n'])
  | .enum ty i =>
    match ← outputText (.enum ty i) with
    | some n => emit (ty ++ ": ".toList ++ n ++ ['\n'])
    | none => pure ()
  | .ptr ty tgt =>
    match tgt with
    | none => emit (ty ++ ": {DELETED}\n".toList)
    | some l =>
      if ← isLive l.act then emit (ty ++ ": ".toList ++ l.name ++ ['\n'])
      else emit (ty ++ ": {DELETED}\n".toList)
  | v =>
    match ← outputText v with
    | some s => emit (s ++ ['\n'])
    | none => pure ()

mutual

  /-- default value of a declared type: primitives directly, records by running their TYPE body
      in a composite activation (`Composite::Composite`) -/
  def defaultVal : Nat → Tok → Ty → M Val
    | 0, _, _ => throw .outOfFuel
    | f + 1, t, ty => do
      match ty with
      | .comp n =>
        -- the definition is looked up in the declaring scope, then globally
        match ← compDefOf n with
        | none => throw (.crash .localCompositeType)
        | some (_, body) =>
          -- a record type that is not defined in the declaring scope itself is a global one: its body's type names are global
          let loc ← compDefOf n false
          withAct (fun id => { id := id, name := n, isComp := true, typeGlobal := loc.isNone }) do
            runBlock f body
            let a ← curAct
            pure (.comp n ((a.vars.map fun s => (s.name, s.val)) ++ (a.arrs.map fun s => (s.name, s.val))))
      | _ => pure (defaultPrim ty)

  def defaultCells : Nat → Tok → Ty → Nat → List Val → M (List Val)
    | 0, _, _, _, _ => throw .outOfFuel
    | _ + 1, _, _, 0, acc => pure acc.reverse
    | f + 1, t, ty, n + 1, acc => do
      let v ← defaultVal f t ty
      defaultCells f t ty n (v :: acc)

  def evalArgs : Nat → List Expr → List Val → M (List Val)
    | 0, _, _ => throw .outOfFuel
    | _ + 1, [], acc => pure acc.reverse
    | f + 1, e :: rest, acc => do
      let v ← evalExpr f e
      evalArgs f rest (v :: acc)

  /-- evaluate index expressions against the dimensions, in order -/
  def evalIndices : Nat → List Expr → List (Int × Int) → List Int → M (List Int)
    | 0, _, _, _ => throw .outOfFuel
    | _ + 1, [], _, acc => pure acc.reverse
    | f + 1, e :: rest, dims, acc => do
      let v ← evalExpr f e
      match v, dims with
      | .int i, d :: ds =>
        if !inBounds d i then rtErr e.tok .indexOOB
        else evalIndices f rest ds (i :: acc)
      | .int _, [] => throw (.crash .other)
      | _, _ => rtErr e.tok .badIndex

  /-- `AbstractVariableResolver::resolve` -/
  def resolveRef : Nat → Ref → M Holder
    | 0, _ => throw .outOfFuel
    | f + 1, r => do
      match r with
      | .var t =>
        match ← lookupVar t.val with
        | some (a, s) =>
          match s.ref with
          | some l => pure { loc := l, isArr := false, ty := s.ty, name := l.name }
          | none => pure { loc := { act := a.id, isArr := false, name := s.name, path := [] }, isArr := false, ty := s.ty, name := s.name }
        | none =>
          match ← lookupArr t.val with
          | some (a, s) => pure { loc := { act := a.id, isArr := true, name := s.name, path := [] }, isArr := true, ty := s.ty, name := s.name }
          | none => rtErr t .notDefined
      | .field t r m =>
        let h ← resolveRef f r
        if h.isArr then rtErr t .typeMismatch
        else
          let v ← readLoc h.loc
          match v with
          | .comp _ fs =>
            match memberKind fs m.val with
            | none => rtErr t .noMember
            | some k =>
              match findField fs m.val k with
              | none => rtErr t .noMember
              | some fv =>
                let ety := match fv with | .arr e _ _ => e | x => x.ty
                pure { loc := { h.loc with path := h.loc.path ++ [.field m.val] }, isArr := k, ty := ety, name := m.val }
          | _ => rtErr t .typeMismatch
      | .deref t r =>
        let h ← resolveRef f r
        if h.isArr then rtErr t .typeMismatch
        else
          let v ← readLoc h.loc
          match v with
          | .ptr _ tgt =>
            match tgt with
            | none =>
              -- never set: the owner context is null, the liveness walk falls off the chain
              rtErr t .deletedObject
            | some l =>
              if !(← isLive l.act) then rtErr t .deletedObject
              else
                let tv ← readLoc l
                pure { loc := l, isArr := false, ty := tv.ty, name := l.name }
          | _ => rtErr t .typeMismatch
      | .index t r idx =>
        let h ← resolveRef f r
        if !h.isArr then rtErr t .typeMismatch
        else
          let v ← readLoc h.loc
          match v with
          | .arr e dims _ =>
            if idx.length != dims.length then rtErr t .badIndex
            else
              let is ← evalIndices f idx dims []
              pure { loc := { h.loc with path := h.loc.path ++ [.idx (lin dims is)] }, isArr := false, ty := e, name := h.name }
          | _ => throw (.crash .other)

  /-- user / built-in function call -/
  def callFun : Nat → Tok → List Expr → M Val
    | 0, _, _ => throw .outOfFuel
    | f + 1, t, args => do
      let st ← get
      let fd? := match builtinFuns.find? (·.name == t.val) with
        | some b => some b
        | none => st.funs.find? (·.name == t.val)
      match fd? with
      | none => rtErr t .notDefined
      | some fd =>
        let vals ← evalArgs f args []
        if vals.length != fd.params.length then rtErr t .invalidArgs
        else
          if (← get).depth + 1 > (← get).depthLimit then rtErr t .budget
          let caller ← curAct
          let slots ← bindParams f t fd.params args vals []
          -- the call site is noted after the binding: binding a BYREF argument may itself call a function, which clears the note
          modifyAct caller.id fun a => { a with switchTok := some (t.line, t.col) }
          modify fun s => { s with depth := s.depth + 1 }
          let r ← withAct (fun id => { id := id, name := fd.name, isFn := true, retTy := fd.ret, vars := slots }) do
            match fd.body with
            | .builtin id =>
              let a ← curAct
              let argv := a.vars.map (·.val)
              let v ← runBuiltin id argv
              pure (some v)
            | .user body defTok =>
              tryCatch (runBlock f body) fun e =>
                match e with
                | .ret => pure ()
                | .brk bt => rtErr bt .breakOutside
                | .cont ct => rtErr ct .breakOutside
                | e => throw e
              let a ← curAct
              match a.retVal with
              | some v => pure (some v)
              | none => rtErr defTok .missingReturn
          modify fun s => { s with depth := s.depth - 1 }
          modifyAct caller.id fun a => { a with switchTok := none }
          match r with
          | some v => pure v
          | none => throw (.crash .other)

  /-- bind arguments to parameters (`CallNode` / `FunctionCallNode`); evaluated in the caller -/
  def bindParams : Nat → Tok → List (Str × Ty × Bool) → List Expr → List Val → List Slot → M (List Slot)
    | 0, _, _, _, _, _ => throw .outOfFuel
    | f + 1, t, (pn, pty, byRef) :: ps, e :: es, v :: vs, acc => do
      let v' := if byRef then v else implicitCast pty v
      if v'.ty != pty then rtErr t .invalidArgs
      else if byRef then
        match e with
        | .access _ r =>
          let h ← resolveRef f r
          if h.isArr then rtErr t .arrayDirect
          -- the reference is resolved a second time here (the value checked above came from the first evaluation):
          -- the variable that is actually bound must have the parameter's type as well
          else if h.ty != pty then rtErr t .invalidArgs
          else
            let c ← locIsConst h.loc
            bindParams f t ps es vs ({ name := pn, ty := h.ty, isConst := c, val := .none, ref := some h.loc } :: acc)
        | _ => rtErr t .byrefArg
      else
        bindParams f t ps es vs ({ name := pn, ty := pty, val := v' } :: acc)
    | _ + 1, _, _, _, _, acc => pure acc.reverse

  def evalExpr : Nat → Expr → M Val
    | 0, _ => throw .outOfFuel
    | f + 1, e => do
      match e with
      | .intLit _ v => pure (.int v)
      | .realLit _ txt => pure (.real (strtod txt).1)
      | .boolLit _ b => pure (.bool b)
      | .charLit _ c => pure (.chr c)
      | .strLit _ s => pure (.str s)
      | .dateLit t d m y =>
        match Calendar.setDate d m y with
        | some dt => pure (.date dt)
        | none => rtErr t .invalidDate
      | .neg t a =>
        let v ← evalExpr f a
        liftMsg t (evalNeg v)
      | .arith t op l r =>
        let lv ← evalExpr f l
        let rv ← evalExpr f r
        -- the enum definition is looked up from the current activation
        let a ← scopeAct
        let g ← globalAct
        let size (n : Str) : Option Nat :=
          match a.enums.find? (·.1 == n) with
          | some (_, vals) => some vals.length
          | none => if a.id == g.id then none else (g.enums.find? (·.1 == n)).map (·.2.length)
        liftMsg t (evalArith size op lv rv)
      | .cmp t op l r =>
        let lv ← evalExpr f l
        let rv ← evalExpr f r
        liftMsg t (evalCmp op lv rv)
      | .logic t op l r =>
        let lv ← evalExpr f l
        match op, lv with
        | .and, .bool false => pure (.bool false)
        | _, _ =>
          let rv ← evalExpr f r
          liftMsg t (evalLogic op lv rv)
      | .not t a =>
        let v ← evalExpr f a
        liftMsg t (evalNot v)
      | .concat t l r =>
        let lv ← evalExpr f l
        let rv ← evalExpr f r
        liftMsg t (evalConcat lv rv)
      | .cast t ty a =>
        let v ← evalExpr f a
        liftMsg t (castTo ty v)
      | .call t args => callFun f t args
      | .access t r =>
        let h ← catchNotDefined (resolveRef f r >>= fun h => pure (some h)) fun e => do
          match ← getEnumElement t.val with
          | some _ => pure none
          | none => throw e
        match h with
        | none =>
          match ← getEnumElement t.val with
          | some v => pure v
          | none => throw (.crash .other)
        | some h =>
          if h.isArr then rtErr t .arrayDirect
          else readLoc h.loc
      | .assign t r rhs => do
        execAssign f t r rhs
        pure .none
      | .ptrAssign t r v =>
        let ph ← resolveRef f r
        if ph.isArr then rtErr t .arrayDirect
        else
          let vh ← resolveRef f v
          if vh.isArr then rtErr t .typeMismatch
          else
            match ph.ty with
            | .ptr pn =>
              match ← ptrDefOf pn with
              | none => throw (.crash .other)
              | some (_, target) =>
                if target != vh.ty then rtErr t .typeMismatch
                else
                  writeLoc t ph.loc (.ptr pn (some vh.loc))
                  pure .none
            | _ => rtErr t .typeMismatch

  /-- `AssignNode::evaluate` -/
  def execAssign : Nat → Tok → Ref → Expr → M Unit
    | 0, _, _, _ => throw .outOfFuel
    | f + 1, t, r, rhs => do
      let cur ← curAct
      let nActs := (← get).acts.length
      -- evaluate the right-hand side; a whole-array source shows up as `arrayDirect` raised in this activation
      let rv? ← tryCatch (evalExpr f rhs >>= fun v => pure (some v)) fun e =>
        match e with
        | .diag d =>
          if d.kind == .runtime && d.msg == .arrayDirect && (d.trace.head?.map (·.name)) == some cur.name
             && d.trace.length == nActs then
            match rhs with
            | .access _ _ => pure none
            | _ => throw e
          else throw e
        | _ => throw e
      match rv? with
      | none =>
        -- whole-array assignment
        match rhs with
        | .access at' sr =>
          let sh ← resolveRef f sr
          if !sh.isArr then rtErr at' .arrayDirect
          else
            let th ← resolveRef f r
            if !th.isArr then rtErr at' .arrayDirect
            else
              let sv ← readLoc sh.loc
              let tv ← readLoc th.loc
              match sv, tv with
              | .arr se sd _, .arr te td _ =>
                if se != te then rtErr t .typeMismatch
                else if sd != td then rtErr t .typeMismatch
                else writeLoc t th.loc sv
              | _, _ => throw (.crash .other)
        | _ => throw (.crash .other)
      | some rv =>
        let target ← catchNotDefined (resolveRef f r >>= fun h => pure (some h)) fun e => do
          match r with
          | .var vt =>
            if ← isIdentifierType vt then throw e
            else if (← get).pedantic then pedErr t .pedAssign
            else pure none
          | _ => throw e
        match target with
        | some h =>
          if h.isArr then rtErr t .arrayDirect
          else
            if ← locIsConst h.loc then rtErr t .constAssign
            let v' := implicitCast h.ty rv
            if v'.ty != h.ty then rtErr t .typeMismatch
            else writeLoc t h.loc v'
        | none =>
          match r with
          | .var vt =>
            if rv.ty == .none then rtErr t .noValue
            else addVar { name := vt.val, ty := rv.ty, val := rv }
          | _ => throw (.crash .other)

  def runBlock : Nat → Block → M Unit
    | 0, _ => throw .outOfFuel
    | _ + 1, [] => pure ()
    | f + 1, s :: rest => do
      let v ← execStmt f s
      if (← get).repl then replEcho v
      runBlock f rest

  def ifChain : Nat → Tok → List (Expr × Block) → Option Block → M Unit
    | 0, _, _, _ => throw .outOfFuel
    | f + 1, _, [], els =>
      match els with
      | some b => runBlock f b
      | none => pure ()
    | f + 1, t, (c, b) :: rest, els => do
      let v ← evalExpr f c
      match v with
      | .bool true => runBlock f b
      | .bool false => ifChain f t rest els
      | _ => rtErr t .condType

  def caseMatch : Nat → Val → Clause → M (Option Block)
    | 0, _, _ => throw .outOfFuel
    | f + 1, v, cl => do
      match cl with
      | .otherwise b => pure (some b)
      | .eq e b =>
        let r ← evalExpr f e
        let m : Bool := match v, r with
          | .real x, .int n => x == floatOfInt n
          | .int n, .real x => floatOfInt n == x
          | .int a, .int b => a == b
          | .real a, .real b => a == b
          | .bool a, .bool b => a == b
          | .chr a, .chr b => a == b
          | .str a, .str b => a == b
          | .date a, .date b => a == b
          | .enum ta a, .enum tb b => ta == tb && a == b
          | .ptr ta a, .ptr tb b => ta == tb && a == b
          | _, _ => false
        pure (if m then some b else none)
      | .range lo hi b =>
        let tv? : Option Float := match v with
          | .int n => some (floatOfInt n)
          | .real x => some x
          | _ => none
        match tv? with
        | none => pure none
        | some tv =>
          let l ← evalExpr f lo
          let lv ← match l with
            | .int n => pure (floatOfInt n)
            | .real x => pure x
            | _ => rtErr lo.tok .typeMismatch
          let h ← evalExpr f hi
          let hv ← match h with
            | .int n => pure (floatOfInt n)
            | .real x => pure x
            | _ => rtErr hi.tok .typeMismatch
          pure (if lv ≤ tv && tv ≤ hv then some b else none)

  def caseClauses : Nat → Val → List Clause → M Unit
    | 0, _, _ => throw .outOfFuel
    | _ + 1, _, [] => pure ()
    | f + 1, v, cl :: rest => do
      match ← caseMatch f v cl with
      | some b => runBlock f b
      | none => caseClauses f v rest

  /-- run a loop body; `true` = leave the loop (BREAK) -/
  def loopBody : Nat → Block → M Bool
    | 0, _ => throw .outOfFuel
    | f + 1, b =>
      tryCatch (do runBlock f b; pure false) fun e =>
        match e with
        | .brk _ => pure true
        | .cont _ => pure false
        | e => throw e

  def whileLoop : Nat → Tok → Expr → Block → M Unit
    | 0, _, _, _ => throw .outOfFuel
    | f + 1, t, c, b => do
      tick t
      let v ← evalExpr f c
      match v with
      | .bool true =>
        if ← loopBody f b then pure () else whileLoop f t c b
      | .bool false => pure ()
      | _ => rtErr t .condType

  /-- REPEAT: body, then the UNTIL test — also after CONTINUE (model of the repaired code) -/
  def repeatLoop : Nat → Tok → Block → Expr → M Unit
    | 0, _, _, _ => throw .outOfFuel
    | f + 1, t, b, c => do
      tick t
      if ← loopBody f b then pure ()
      else
        let v ← evalExpr f c
        match v with
        | .bool true => pure ()
        | .bool false => repeatLoop f t b c
        | _ => rtErr t .condType

  /-- FOR iterations: the iterator cell is re-read each round (the body may change it) -/
  def forLoop : Nat → Tok → Loc → Int → Int → Block → M Unit
    | 0, _, _, _, _, _ => throw .outOfFuel
    | f + 1, t, it, stop, step, b => do
      let cur ← readLoc it
      match cur with
      | .int i =>
        if (step < 0 && i ≥ stop) || (!(step < 0) && i ≤ stop) then
          tick t
          if ← loopBody f b then pure ()
          else
            let cur2 ← readLoc it
            match cur2 with
            | .int j =>
              writeLoc t it (.int (wrap64 (j + step)))
              forLoop f t it stop step b
            | _ => throw (.crash .other)
        else pure ()
      | _ => throw (.crash .other)

  def callProc : Nat → Tok → Str → List Expr → M Unit
    | 0, _, _, _ => throw .outOfFuel
    | f + 1, t, name, args => do
      match (← get).procs.find? (·.name == name) with
      | none => rtErr t .notDefined
      | some pd =>
        let vals ← evalArgs f args []
        if vals.length != pd.params.length then rtErr t .invalidArgs
        else
          if (← get).depth + 1 > (← get).depthLimit then rtErr t .budget
          let caller ← curAct
          let slots ← bindParams f t pd.params args vals []
          -- the call site is noted after the binding (see callFun)
          modifyAct caller.id fun a => { a with switchTok := some (t.line, t.col) }
          modify fun s => { s with depth := s.depth + 1 }
          withAct (fun id => { id := id, name := pd.name, vars := slots }) do
            tryCatch (runBlock f pd.body) fun e =>
              match e with
              | .brk bt => rtErr bt .breakOutside
              | .cont ct => rtErr ct .breakOutside
              | e => throw e
          modify fun s => { s with depth := s.depth - 1 }
          modifyAct caller.id fun a => { a with switchTok := none }

  def resolveParams : Nat → List Param → List (Str × Ty × Bool) → M (List (Str × Ty × Bool))
    | 0, _, _ => throw .outOfFuel
    | _ + 1, [], acc => pure acc.reverse
    | f + 1, p :: ps, acc => do
      let ty ← getType p.ty
      if ty == .none then rtErr p.ty .notDefined
      else resolveParams f ps ((p.name, ty, p.byRef) :: acc)

  def evalBounds : Nat → List (Expr × Expr) → List (Int × Int) → M (List (Int × Int))
    | 0, _, _ => throw .outOfFuel
    | _ + 1, [], acc => pure acc.reverse
    | f + 1, (lo, hi) :: rest, acc => do
      let l ← evalExpr f lo
      match l with
      | .int a =>
        let h ← evalExpr f hi
        match h with
        | .int b =>
          if b < a then rtErr hi.tok .badIndex
          else evalBounds f rest ((a, b) :: acc)
        | _ => rtErr hi.tok .badIndex
      | _ => rtErr lo.tok .badIndex

  def declareVars : Nat → Tok → List Tok → Tok → M Unit
    | 0, _, _, _ => throw .outOfFuel
    | _ + 1, _, [], _ => pure ()
    | f + 1, t, id :: rest, tyTok => do
      let a ← curAct
      if (findSlot a.vars id.val).isSome then rtErr t .redeclared
      else if ← isIdentifierType id then rtErr t .redeclared
      else
        let ty ← getType tyTok
        if ty == .none then rtErr t .notDefined
        else
          let v ← defaultVal f t ty
          addVar { name := id.val, ty := ty, val := v }
          declareVars f t rest tyTok

  def declareArrs : Nat → Tok → List Tok → Tok → List (Int × Int) → M Unit
    | 0, _, _, _, _ => throw .outOfFuel
    | _ + 1, _, [], _, _ => pure ()
    | f + 1, t, id :: rest, tyTok, dims => do
      let ty ← getType tyTok
      if ty == .none then rtErr t .notDefined
      else
        let n := totalCells dims
        if n > 1000000 then rtErr t .budget
        else
          let cells ← defaultCells f t ty n []
          addArr { name := id.val, ty := ty, val := .arr ty dims cells }
          declareArrs f t rest tyTok dims

  def outputAll : Nat → List Expr → M Unit
    | 0, _ => throw .outOfFuel
    | _ + 1, [] => pure ()
    | f + 1, e :: rest => do
      let v ← evalExpr f e
      match ← outputText v with
      | some s => emit s; outputAll f rest
      | none => rtErr e.tok .noValue

  /-- evaluate a file-name expression: must be a STRING -/
  def fileName : Nat → Tok → Expr → M Str
    | 0, _, _ => throw .outOfFuel
    | f + 1, t, e => do
      match ← evalExpr f e with
      | .str s => pure s
      | _ => rtErr t .typeMismatch

  /-- `Node::evaluate` for statement nodes; the result is the node's value (NONE for statements) -/
  def execStmt : Nat → Stmt → M Val
    | 0, _ => throw .outOfFuel
    | f + 1, s => do
      match s with
      | .expr e => tick e.tok; evalExpr f e
      | .declare t ids ty => tick t; declareVars f t ids ty; pure .none
      | .declareArr t ids ty bounds =>
        tick t
        let a ← curAct
        if ids.any (fun id => (findSlot a.arrs id.val).isSome) then rtErr t .redeclared
        else
          let dims ← evalBounds f bounds []
          declareArrs f t ids ty dims
          pure .none
      | .const t name e =>
        tick t
        let v ← evalExpr f e
        let a ← curAct
        if (findSlot a.vars name.val).isSome then rtErr t .redeclared
        else
          addVar { name := name.val, ty := v.ty, isConst := true, val := v }
          pure .none
      | .typeEnum t name vals =>
        tick t
        if ← isIdentifierType name then rtErr t .redeclared
        else
          modifyCur fun a => { a with enums := a.enums ++ [(name.val, vals)] }
          pure .none
      | .typePtr t name target =>
        tick t
        let ty ← getType target
        if ty == .none then rtErr t .notDefined
        else if ← isIdentifierType name then rtErr t .redeclared
        else
          modifyCur fun a => { a with ptrs := a.ptrs ++ [(name.val, ty)] }
          pure .none
      | .typeRec t name body =>
        tick t
        if ← isIdentifierType name then rtErr t .redeclared
        else
          modifyCur fun a => { a with comps := a.comps ++ [(name.val, body)] }
          pure .none
      | .ifs t branches els => tick t; ifChain f t branches els; pure .none
      | .case t sel clauses =>
        tick t
        let v ← evalExpr f (.access sel (.var sel))
        caseClauses f v clauses
        pure .none
      | .while t c b => tick t; whileLoop f t c b; pure .none
      | .repeat t b c => tick t; repeatLoop f t b c; pure .none
      | .for t it start stop step b =>
        tick t
        -- the iterator: an existing INTEGER variable (not a constant) or a new one
        let h ← match ← lookupVar it.val with
          | some (a, s) =>
            match s.ref with
            | some l => pure (l, s.ty)
            | none => pure ({ act := a.id, isArr := false, name := s.name, path := [] : Loc }, s.ty)
          | none =>
            addVar { name := it.val, ty := .int, val := .int 0 }
            let a ← curAct
            pure ({ act := a.id, isArr := false, name := it.val, path := [] : Loc }, Ty.int)
        if h.2 != .int then rtErr t .typeMismatch
        else
          if ← locIsConst h.1 then rtErr t .constAssign
          let sv ← evalExpr f start
          match sv with
          | .int a =>
            let ev ← evalExpr f stop
            match ev with
            | .int bnd =>
              let stepV ← match step with
                | none => pure (1 : Int)
                | some se =>
                  match ← evalExpr f se with
                  | .int k => pure k
                  | _ => rtErr t .typeMismatch
              writeLoc t h.1 (.int a)
              forLoop f t h.1 bnd stepV b
              pure .none
            | _ => rtErr t .typeMismatch
          | _ => rtErr t .typeMismatch
      | .call t name args => tick t; callProc f t name args; pure .none
      | .ret t e =>
        tick t
        let a ← curAct
        if !a.isFn then rtErr t .returnOutside
        else
          let v ← evalExpr f e
          let v' := implicitCast a.retTy v
          modifyAct a.id fun a => { a with retVal := some v' }
          if v'.ty != a.retTy then rtErr t .typeMismatch
          else throw .ret
      | .brk t => tick t; throw (.brk t)
      | .cont t => tick t; throw (.cont t)
      | .output t es =>
        tick t
        outputAll f es
        emit ['\n']
        pure .none
      | .input t r =>
        tick t
        let target ← catchNotDefined (resolveRef f r >>= fun h => pure (some h)) fun e => do
          match r with
          | .var vt =>
            if ← isIdentifierType vt then throw e
            else if (← get).pedantic then pedErr vt .pedInput
            else pure none
          | _ => throw e
        let h ← match target with
          | some h => if h.isArr then rtErr t .arrayDirect else pure h
          | none =>
            match r with
            | .var vt =>
              addVar { name := vt.val, ty := .str, val := .str [] }
              let a ← curAct
              pure { loc := { act := a.id, isArr := false, name := vt.val, path := [] }, isArr := false, ty := .str, name := vt.val : Holder }
            | _ => throw (.crash .other)
        if ← locIsConst h.loc then rtErr t .constAssign
        let (line, _) ← getLine
        match inputConvert h.ty line with
        | some v => writeLoc t h.loc v; pure .none
        | none => rtErr t .nonPrimitive
      | .openFile t fn mode =>
        tick t
        let name ← fileName f t fn
        let _ ← doFile t (.open name mode)
        pure .none
      | .readFile t fn id =>
        tick t
        let name ← fileName f t fn
        -- checks first, the variable is created only when the read can happen (model of the repaired code)
        let existing ← lookupVar id.val
        match existing with
        | some (_, s) => if s.ty != .str then rtErr t .typeMismatch
        | none => pure ()
        filePre t (.readLine name)
        let loc ← match existing with
          | some (a, s) =>
            match s.ref with
            | some l => pure l
            | none => pure ({ act := a.id, isArr := false, name := s.name, path := [] } : Loc)
          | none =>
            addVar { name := id.val, ty := .str, val := .str [] }
            let a ← curAct
            pure ({ act := a.id, isArr := false, name := id.val, path := [] } : Loc)
        if ← locIsConst loc then rtErr t .constAssign
        match ← doFile t (.readLine name) with
        | .line line => writeLoc t loc (.str line); pure .none
        | _ => throw (.crash .other)
      | .writeFile t fn e =>
        tick t
        let name ← fileName f t fn
        filePre t (.write name [])
        let v ← evalExpr f e
        let txt ← writeText t v
        let _ ← doFile t (.write name txt)
        pure .none
      | .closeFile t fn =>
        tick t
        let name ← fileName f t fn
        let _ ← doFile t (.close name)
        pure .none
      | .seek t fn addr =>
        tick t
        match ← evalExpr f addr with
        | .int a =>
          if a < 1 then rtErr t .seekRange
          else
            let name ← fileName f t fn
            let _ ← doFile t (.seek name a)
            pure .none
        | _ => rtErr t .typeMismatch
      | .getRecord t fn id =>
        tick t
        let name ← fileName f t fn
        filePre t (.get name)
        do
          do
            let v? ← lookupVar id.val
            let a? ← lookupArr id.val
            let tgt : Option (Loc × Ty) := match v?, a? with
              | some (a, s), _ => some (match s.ref with
                  | some l => l
                  | none => { act := a.id, isArr := false, name := s.name, path := [] }, s.ty)
              | none, some (a, s) => some ({ act := a.id, isArr := true, name := s.name, path := [] }, s.ty)
              | none, none => none
            match tgt with
            | none => rtErr id .notDefined
            | some (loc, ty) =>
              match ty with
              | .ptr _ => rtErr t .nonPrimitive
              | _ =>
                if ← locIsConst loc then rtErr t .constAssign
                match ← doFile t (.get name) with
                | .record rec =>
                  let cur ← readLoc loc
                  let defs ← codecDefs
                  match Codec.load defs cur rec with
                  | some (nv, _) => writeLoc t loc nv; pure .none
                  | none => rtErr t .recordRead
                | _ => throw (.crash .other)
      | .putRecord t fn id =>
        tick t
        let name ← fileName f t fn
        filePre t (.put name [])
        do
          do
            let v? ← lookupVar id.val
            let a? ← lookupArr id.val
            let tgt : Option (Loc × Ty) := match v?, a? with
              | some (a, s), _ => some (match s.ref with
                  | some l => l
                  | none => { act := a.id, isArr := false, name := s.name, path := [] }, s.ty)
              | none, some (a, s) => some ({ act := a.id, isArr := true, name := s.name, path := [] }, s.ty)
              | none, none => none
            match tgt with
            | none => rtErr id .notDefined
            | some (loc, ty) =>
              match ty with
              | .ptr _ => rtErr t .nonPrimitive
              | _ =>
                let cur ← readLoc loc
                let _ ← doFile t (.put name (Codec.dump cur))
                pure .none
      | .procDef t name params body =>
        tick t
        if ((← get).procs.find? (·.name == name)).isSome then rtErr t .redeclared
        else
          let ps ← resolveParams f params []
          modify fun st => { st with procs := st.procs ++ [{ name := name, params := ps, body := body }] }
          pure .none
      | .funDef t name params ret body =>
        tick t
        if (builtinFuns.find? (·.name == name)).isSome || ((← get).funs.find? (·.name == name)).isSome then rtErr t .redeclared
        else
          let rty ← getType ret
          if rty == .none then rtErr ret .notDefined
          else
            let ps ← resolveParams f params []
            modify fun st => { st with funs := st.funs ++ [{ name := name, params := ps, ret := rty, body := .user body t }] }
            pure .none

end

end Pseudo
