import PseudoModel.State
namespace Pseudo

open FloatFmt

/-- (name, parameter names and types, return type) — the registration list of
    `Context::createGlobalContext`, in order -/
def builtinTable : List (String × List (String × Ty) × Ty) := [
  ("LENGTH", [("String", .str)], .int),
  ("RIGHT", [("String", .str), ("x", .int)], .str),
  ("MID", [("String", .str), ("x", .int), ("y", .int)], .str),
  ("LEFT", [("String", .str), ("x", .int)], .str),
  ("TO_UPPER", [("String", .str)], .str),
  ("TO_LOWER", [("String", .str)], .str),
  ("NUM_TO_STR", [("x", .real)], .str),
  ("STR_TO_NUM", [("String", .str)], .real),
  ("IS_NUM", [("String", .str)], .bool),
  ("EOF", [("File", .str)], .bool),
  ("LCASE", [("Char", .chr)], .chr),
  ("UCASE", [("Char", .chr)], .chr),
  ("ASC", [("Char", .chr)], .int),
  ("CHR", [("x", .int)], .chr),
  ("DAY", [("Date", .date)], .int),
  ("MONTH", [("Date", .date)], .int),
  ("YEAR", [("Date", .date)], .int),
  ("DAYINDEX", [("Date", .date)], .int),
  ("SETDATE", [("Day", .int), ("Month", .int), ("Year", .int)], .date),
  ("TODAY", [], .date),
  ("TIME", [], .int),
  ("HOURS", [], .int),
  ("MINUTES", [], .int),
  ("SECONDS", [], .int),
  ("RAND", [("x", .int)], .real),
  ("INT", [("x", .real)], .int),
  ("POW", [("x", .real), ("y", .real)], .real),
  ("EXP", [("x", .real)], .real),
  ("SIN", [("x", .real)], .real),
  ("COS", [("x", .real)], .real),
  ("TAN", [("x", .real)], .real),
  ("ASIN", [("x", .real)], .real),
  ("ACOS", [("x", .real)], .real),
  ("ATAN", [("x", .real)], .real),
  ("ATAN2", [("y", .real), ("x", .real)], .real),
  ("SQRT", [("x", .real)], .real),
  ("LOG", [("x", .real)], .real),
  ("LN", [("x", .real)], .real)
]

def builtinFuns : List FunDef :=
  builtinTable.map fun (n, ps, r) =>
    { name := n.toList, params := ps.map (fun (pn, t) => (pn.toList, t, false)), ret := r, body := .builtin n.toList }

/-! ### pure cores of the string built-ins -/

/-- LEFT: `0 ≤ n ≤ |s|` else error -/
def bLeft (s : Str) (n : Int) : Except Msg Str :=
  if n < 0 then .error .strRange
  else if n.toNat > s.length then .error .strRange
  else .ok (s.take n.toNat)

/-- RIGHT: `0 ≤ n ≤ |s|` else error -/
def bRight (s : Str) (n : Int) : Except Msg Str :=
  if n < 0 then .error .strRange
  else if n.toNat > s.length then .error .strRange
  else .ok (s.drop (s.length - n.toNat))

/-- MID(s, i, n): `1 ≤ i ≤ |s|`, `0 ≤ n`, `i - 1 + n ≤ |s|` else error -/
def bMid (s : Str) (i n : Int) : Except Msg Str :=
  let x := wrap64 (i - 1)
  if x < 0 then .error .strRange
  else if x.toNat ≥ s.length then .error .strRange
  else if n < 0 then .error .strRange
  else if (wrap64 (n + x)).toNat > s.length ∨ wrap64 (n + x) < 0 then .error .strRange
  else .ok ((s.drop x.toNat).take n.toNat)

/-- IS_NUM: digits with at most one point (the empty string passes, as coded) -/
def bIsNum (s : Str) : Bool :=
  let rec go : Str → Bool → Bool
    | [], _ => true
    | c :: rest, dec =>
      if c == '.' then (if dec then false else go rest true)
      else if isDigit c then go rest dec
      else false
  go s false

/-- RAND with the two `rand()` draws given: `(r1 % x) + r2 / RAND_MAX` -/
def randMax : Nat := 2147483647
def bRand (x : Int) (r1 r2 : Nat) : Float :=
  if x > 0 then floatOfInt ((r1 : Int) % x) + (floatOfInt r2 / floatOfInt randMax) else 0.0

/-- INT: floor -/
def bInt (x : Float) : Int := floatToIntTrunc x.floor

end Pseudo
