import PseudoModel.Token
namespace Pseudo

inductive ArOp | add | sub | mul | div | idiv | mod
deriving DecidableEq, Repr, Inhabited
inductive CmpOp | eq | ne | gt | lt | ge | le
deriving DecidableEq, Repr, Inhabited
inductive LogOp | and | or
deriving DecidableEq, Repr, Inhabited
inductive FileMode | read | write | append | random
deriving DecidableEq, Repr, Inhabited

/-- primitive cast targets of `Parser::getPSCType` -/
inductive PrimTy | int | real | bool | chr | str
deriving DecidableEq, Repr, Inhabited

mutual
  inductive Expr
    | intLit (t : Tok) (v : Int)
    | realLit (t : Tok) (txt : Str)
    | boolLit (t : Tok) (b : Bool)
    | charLit (t : Tok) (c : Char)
    | strLit (t : Tok) (s : Str)
    | dateLit (t : Tok) (d m y : Nat)
    | neg (t : Tok) (e : Expr)
    | arith (t : Tok) (op : ArOp) (l r : Expr)
    | cmp (t : Tok) (op : CmpOp) (l r : Expr)
    | logic (t : Tok) (op : LogOp) (l r : Expr)
    | not (t : Tok) (e : Expr)
    | concat (t : Tok) (l r : Expr)
    | cast (t : Tok) (ty : PrimTy) (e : Expr)
    | call (t : Tok) (args : List Expr)
    | access (t : Tok) (r : Ref)
    | assign (t : Tok) (r : Ref) (e : Expr)
    | ptrAssign (t : Tok) (r : Ref) (v : Ref)
  inductive Ref
    | var (t : Tok)
    | field (t : Tok) (r : Ref) (m : Tok)
    | deref (t : Tok) (r : Ref)
    | index (t : Tok) (r : Ref) (idx : List Expr)
end

instance : Inhabited Expr := ⟨.intLit default 0⟩
instance : Inhabited Ref := ⟨.var default⟩

structure Param where
  name : Str
  ty : Tok
  byRef : Bool
deriving Repr, Inhabited

mutual
  inductive Stmt
    | expr (e : Expr)
    | declare (t : Tok) (names : List Tok) (ty : Tok)
    | declareArr (t : Tok) (names : List Tok) (ty : Tok) (bounds : List (Expr × Expr))
    | const (t : Tok) (name : Tok) (e : Expr)
    | typeEnum (t : Tok) (name : Tok) (vals : List Str)
    | typePtr (t : Tok) (name : Tok) (target : Tok)
    | typeRec (t : Tok) (name : Tok) (body : List Stmt)
    | ifs (t : Tok) (branches : List (Expr × List Stmt)) (els : Option (List Stmt))
    | case (t : Tok) (sel : Tok) (clauses : List Clause)
    | while (t : Tok) (c : Expr) (body : List Stmt)
    | repeat (t : Tok) (body : List Stmt) (c : Expr)
    | for (t : Tok) (it : Tok) (start stop : Expr) (step : Option Expr) (body : List Stmt)
    | call (t : Tok) (name : Str) (args : List Expr)
    | ret (t : Tok) (e : Expr)
    | brk (t : Tok)
    | cont (t : Tok)
    | output (t : Tok) (es : List Expr)
    | input (t : Tok) (r : Ref)
    | openFile (t : Tok) (fn : Expr) (mode : FileMode)
    | readFile (t : Tok) (fn : Expr) (id : Tok)
    | writeFile (t : Tok) (fn : Expr) (e : Expr)
    | closeFile (t : Tok) (fn : Expr)
    | seek (t : Tok) (fn : Expr) (addr : Expr)
    | getRecord (t : Tok) (fn : Expr) (id : Tok)
    | putRecord (t : Tok) (fn : Expr) (id : Tok)
    | procDef (t : Tok) (name : Str) (params : List Param) (body : List Stmt)
    | funDef (t : Tok) (name : Str) (params : List Param) (ret : Tok) (body : List Stmt)
  inductive Clause
    | eq (e : Expr) (body : List Stmt)
    | range (lo hi : Expr) (body : List Stmt)
    | otherwise (body : List Stmt)
end

instance : Inhabited Stmt := ⟨.brk default⟩

abbrev Block := List Stmt

/-- token of an expression node (`Node::getToken`) -/
def Expr.tok : Expr → Tok
  | .intLit t _ | .realLit t _ | .boolLit t _ | .charLit t _ | .strLit t _ | .dateLit t _ _ _
  | .neg t _ | .arith t _ _ _ | .cmp t _ _ _ | .logic t _ _ _ | .not t _ | .concat t _ _
  | .cast t _ _ | .call t _ | .access t _ | .assign t _ _ | .ptrAssign t _ _ => t

end Pseudo
