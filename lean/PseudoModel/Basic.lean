/-
  PseudoModel.Basic — bytes, C-locale character classes, 64-bit wrap, diagnostics.
  Core Lean only (no Mathlib) so that the driver links as a lean_exe.
-/
namespace Pseudo

/-- Byte strings: `List Char` restricted (by the driver) to code points < 256. -/
abbrev Str := List Char

def Str.ofString (s : String) : Str := s.toList
def strOf (s : String) : Str := s.toList

def isDigit (c : Char) : Bool := decide ('0'.toNat ≤ c.toNat) && decide (c.toNat ≤ '9'.toNat)
def isUpper (c : Char) : Bool := decide ('A'.toNat ≤ c.toNat) && decide (c.toNat ≤ 'Z'.toNat)
def isLower (c : Char) : Bool := decide ('a'.toNat ≤ c.toNat) && decide (c.toNat ≤ 'z'.toNat)
def isAlpha (c : Char) : Bool := isUpper c || isLower c
def isAlnum (c : Char) : Bool := isAlpha c || isDigit c

/-- C-locale `toupper` on a byte. -/
def toUpperC (c : Char) : Char := if isLower c then Char.ofNat (c.toNat - 32) else c
/-- C-locale `tolower` on a byte. -/
def toLowerC (c : Char) : Char := if isUpper c then Char.ofNat (c.toNat + 32) else c

/-- C `isspace` in the C locale. -/
def isSpaceC (c : Char) : Bool :=
  c == ' ' || c == '\t' || c == '\n' || c.toNat == 11 || c.toNat == 12 || c == '\r'

def two63 : Int := 9223372036854775808
def two64 : Int := 18446744073709551616

/-- Two's-complement wrap of a mathematical integer into the `long` range. -/
def wrap64 (n : Int) : Int := (n + two63) % two64 - two63

def InRange64 (n : Int) : Prop := -two63 ≤ n ∧ n < two63

instance (n : Int) : Decidable (InRange64 n) := by unfold InRange64; exact inferInstance

/-- `(char)` conversion of a `long`: low byte. -/
def byteOfInt (n : Int) : Char := Char.ofNat (n % 256).toNat

/-- `(int_t) char` with `char` signed (x86-64): sign extension of the byte. -/
def intOfByte (c : Char) : Int := if c.toNat < 128 then (c.toNat : Int) else (c.toNat : Int) - 256

/-- Decimal rendering of an integer as bytes. -/
def intToStr (n : Int) : Str := (toString n).toList

def natToStr (n : Nat) : Str := (toString n).toList

/-- value of a string of decimal digits -/
def digitsVal (s : Str) : Nat := s.foldl (fun a c => a * 10 + (c.toNat - '0'.toNat)) 0

inductive DiagKind | syntax | runtime | pedantic
deriving DecidableEq, Repr, Inhabited

/-- message classes: what the properties name, everything else is `other`. -/
inductive Msg
  | other | indexOOB | divZero | notDefined | typeMismatch | constAssign | deletedObject
  | uninitPointer | invalidDate | notOpen | alreadyOpen | openFailed | redeclared | condType
  | invalidArgs | missingReturn | returnOutside | breakOutside | noMember | badIndex | wrongMode
  | seekRange | recordRead | budget | overflow | pedBreak | pedContinue | pedElseIf | pedCast
  | pedAssign | pedInput | noValue | nonPrimitive | byrefArg | strRange | arrayDirect
deriving DecidableEq, Repr, Inhabited

structure Frame where
  name : Str
  line : Nat
  col : Nat
deriving DecidableEq, Repr, Inhabited

structure Diag where
  kind : DiagKind
  line : Nat
  col : Nat
  msg : Msg := .other
  trace : List Frame := []
deriving Repr, Inhabited

end Pseudo
