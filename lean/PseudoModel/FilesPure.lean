import PseudoModel.Codec
import PseudoModel.Ast
/-!
  The file layer as a pure state machine: file system + handle table, one step per file statement.
  `Eval` performs every file statement through `fstep`, so theorems about `fstep` are theorems about what runs.
-/
namespace Pseudo

inductive FsNode
  | file (s : Str)
  | dir
  | devFull
deriving Repr, Inhabited, DecidableEq

structure Handle where
  name : Str
  mode : FileMode
  rest : Str := []            -- READ: unread text
  records : List Str := []    -- RANDOM
  ptr : Nat := 0
  modified : Bool := false
deriving Repr, Inhabited, DecidableEq

structure FState where
  fs : List (Str × FsNode) := []
  handles : List Handle := []
deriving Repr, Inhabited

inductive FOp
  | open (n : Str) (mode : FileMode)
  | close (n : Str)
  | write (n : Str) (txt : Str)        -- WRITEFILE: `txt` without the line break
  | readLine (n : Str)                 -- READFILE
  | eof (n : Str)                      -- EOF()
  | seek (n : Str) (a : Int)
  | put (n : Str) (rec : Str)          -- PUTRECORD with the dumped record text
  | get (n : Str)                      -- GETRECORD: the record text under the cursor
deriving Repr, Inhabited

inductive FRes
  | unit
  | line (s : Str)
  | bool (b : Bool)
  | record (s : Str)
deriving Repr, Inhabited, DecidableEq

def FState.node (s : FState) (n : Str) : Option FsNode := (s.fs.find? (·.1 == n)).map (·.2)

def setNode (fs : List (Str × FsNode)) (n : Str) (node : FsNode) : List (Str × FsNode) :=
  if fs.any (·.1 == n) then fs.map fun p => if p.1 == n then (n, node) else p else fs ++ [(n, node)]

def FState.handle (s : FState) (n : Str) : Option Handle := s.handles.find? (·.name == n)

def updHandles (hs : List Handle) (n : Str) (f : Handle → Handle) : List Handle :=
  hs.map fun h => if h.name == n then f h else h

/-- the directory part of `n` exists (names without '/' live in the working directory) -/
def parentOk (s : FState) (n : Str) : Bool :=
  match n.reverse.dropWhile (· != '/') with
  | [] => true
  | _ :: d =>
    let dir := d.reverse
    if dir.isEmpty then true
    else match s.node dir with
      | some .dir => true
      | _ => dir == "/dev".toList

def nameTooLong (n : Str) : Bool := (n.reverse.takeWhile (· != '/')).length > 255

/-- split off the first line of the unread text (`std::getline`) -/
def readLineOf (rest : Str) : Str × Str :=
  let line := rest.takeWhile (· != '\n')
  (line, (rest.drop line.length).drop 1)

/-- write-back of a handle at CLOSEFILE / exit: a modified random file is rewritten from its records -/
def flushNode (s : FState) (h : Handle) : List (Str × FsNode) :=
  if h.mode == .random && h.modified then
    match s.node h.name with
    | some .devFull => s.fs
    | some .dir => s.fs
    | _ => setNode s.fs h.name (.file (Codec.renderFile h.records))
  else s.fs

/-- legality of a file statement in the current handle state (no effect) -/
def fpre (s : FState) : FOp → Except Msg Unit
  | .open n _ => if (s.handle n).isSome then .error .alreadyOpen else .ok ()
  | .close n => if (s.handle n).isSome then .ok () else .error .notOpen
  | .write n _ => match s.handle n with
    | none => .error .notOpen
    | some h => if h.mode == .write || h.mode == .append then .ok () else .error .wrongMode
  | .readLine n | .eof n => match s.handle n with
    | none => .error .notOpen
    | some h => if h.mode == .read then .ok () else .error .wrongMode
  | .seek n _ | .put n _ | .get n => match s.handle n with
    | none => .error .notOpen
    | some h => if h.mode == .random then .ok () else .error .wrongMode

/-- one file statement -/
def fstep (s : FState) (op : FOp) : Except Msg (FState × FRes) :=
  match fpre s op with
  | .error m => .error m
  | .ok () =>
  match op with
  | .open n mode =>
    if nameTooLong n then .error .openFailed
    else
    match mode, s.node n with
    | _, some .dir => .error .openFailed
    | .read, some (.file c) => .ok ({ s with handles := s.handles ++ [{ name := n, mode := .read, rest := c }] }, .unit)
    | .read, _ => .error .openFailed
    | .append, none => .error .openFailed
    | .append, some _ => .ok ({ s with handles := s.handles ++ [{ name := n, mode := .append }] }, .unit)
    | .write, some .devFull => .ok ({ s with handles := s.handles ++ [{ name := n, mode := .write }] }, .unit)
    | .write, _ =>
      if !parentOk s n then .error .openFailed
      else .ok ({ fs := setNode s.fs n (.file []), handles := s.handles ++ [{ name := n, mode := .write }] }, .unit)
    | .random, none =>
      if !parentOk s n then .error .openFailed
      else .ok ({ fs := setNode s.fs n (.file []), handles := s.handles ++ [{ name := n, mode := .random }] }, .unit)
    | .random, some (.file c) =>
      .ok ({ s with handles := s.handles ++ [{ name := n, mode := .random, records := Codec.loadFile c }] }, .unit)
    | .random, some .devFull => .error .openFailed
  | .close n =>
    match s.handle n with
    | none => .error .notOpen
    | some h => .ok ({ fs := flushNode s h, handles := s.handles.filter (·.name != n) }, .unit)
  | .write n txt =>
    match s.node n with
    | some (.file c) => .ok ({ s with fs := setNode s.fs n (.file (c ++ txt ++ ['\n'])) }, .unit)
    | none => .ok ({ s with fs := setNode s.fs n (.file (txt ++ ['\n'])) }, .unit)
    | some .devFull => .error .openFailed
    | some .dir => .error .openFailed
  | .readLine n =>
    match s.handle n with
    | none => .error .notOpen
    | some h =>
      let (line, rest) := readLineOf h.rest
      .ok ({ s with handles := updHandles s.handles n fun h => { h with rest := rest } }, .line line)
  | .eof n =>
    match s.handle n with
    | none => .error .notOpen
    | some h => .ok (s, .bool h.rest.isEmpty)
  | .seek n a =>
    match s.handle n with
    | none => .error .notOpen
    | some h =>
      if a < 1 then .error .seekRange
      else if a.toNat > h.records.length + 1 then .error .seekRange
      else .ok ({ s with handles := updHandles s.handles n fun h => { h with ptr := a.toNat - 1 } }, .unit)
  | .put n rec =>
    .ok ({ s with handles := updHandles s.handles n fun h =>
            { h with records := if h.ptr < h.records.length then h.records.set h.ptr rec else h.records ++ [rec], modified := true } }, .unit)
  | .get n =>
    match s.handle n with
    | none => .error .notOpen
    | some h =>
      match h.records[h.ptr]? with
      | some r => .ok (s, .record r)
      | none => .error .recordRead

/-- all handles written back and closed (interpreter exit, normal or through an error) -/
def closeAllF (s : FState) : FState :=
  { fs := s.handles.foldl (fun fs h => flushNode { s with fs := fs } h) s.fs, handles := [] }

/-- the loop `WHILE NOT EOF(f) … READFILE f, x`: every remaining line, in order -/
def readAll : Nat → Str → List Str
  | 0, _ => []
  | n + 1, rest => if rest.isEmpty then [] else
      let (line, rest') := readLineOf rest
      line :: readAll n rest'

def joinLines : List Str → Str
  | [] => []
  | l :: ls => l ++ ['\n'] ++ joinLines ls

end Pseudo
