/-
  PseudoModel.FloatFmt — executable model of the C library's floating-point /
  integer text conversions (glibc 2.36 `printf`/`strtod`/`strtol`, libstdc++ 12
  `std::istream >>`), for differential testing.  Core Lean only.

  All digits are produced with exact `Nat`/`Int` arithmetic on the decoded
  IEEE-754 binary64 bit pattern; `Float` is used only as a container
  (`Float.toBits` / `Float.ofBits`).

  Every function exists in two forms:
    * a `...Bits` form working on the raw `UInt64` bit pattern (exact, including
      sign and payload of NaNs), and
    * the `Float` form, which is `...Bits` composed with `Float.toBits` /
      `Float.ofBits`.

  DOCUMENTED EXCEPTION (the only one).  Lean's `Float.toBits` canonicalises every
  NaN to 0x7FF8000000000000.  Hence through the `Float` API
    * `fmtG`/`fmtF6`/`fmtG17` print every NaN as "nan" (never "-nan"), and
    * the sign / payload of the NaN returned by `strtod "-nan"`, `strtod "nan(0x12)"`
      cannot be observed with `Float.toBits`.
  The `...Bits` functions (`fmtGBits`, `fmtF6Bits`, `strtodBits`) are exact for
  NaNs too (validated: "-nan" printing, sign and `nan(n-char-seq)` payloads).
  For all non-NaN values both forms agree bit-for-bit with glibc.

  Rounding mode: round-to-nearest (the default C environment) is assumed.

  Behaviours of glibc / libstdc++ encoded here (all validated against the real
  library, see FloatFmtTest.lean):
    * strtod ERANGE: set iff the result overflows to ±inf, or the exact value is
      nonzero, inexact in the result format, and tiny *after rounding* (i.e. the
      value rounded to 53 bits with unbounded exponent is still < DBL_MIN).
      Exact subnormals (only reachable with hex input, e.g. "0x1p-1074") do not
      set ERANGE.  A value below DBL_MIN whose result is DBL_MIN sets ERANGE iff
      it is still below DBL_MIN after rounding to 53 bits, e.g.
      "2.2250738585072012e-308" → DBL_MIN with ERANGE, "0x1.fffffffffffffp-1023"
      → DBL_MIN with ERANGE, but "0x1.fffffffffffff8p-1023" → DBL_MIN, no ERANGE.
    * strtod "nan(chars)": consumed through ')' only when the n-char-sequence
      ([0-9A-Za-z_]*) is immediately followed by ')'; otherwise only "nan" is
      consumed.  The payload is `strtoull(chars, 0)` (base auto-detected, clamped
      to 2^64-1) masked to 51 bits when that parse consumes the whole sequence;
      if that strtoull overflows, its errno=ERANGE leaks out of strtod (modelled).
    * no conversion: value +0.0 (even after a '-'), consumed 0.
    * `istream >> double`: failbit iff the accumulated text is not entirely a
      strtod number (e.g. "1e", "1e+", "-", ".") or the result is ±inf
      (overflow: value stored is ±DBL_MAX).  Underflow never fails.  Leading
      zeros are collapsed into one '0' when accumulating, but all are consumed.
      Hex floats, "inf", "nan" are never accepted.  Empty / all-whitespace input
      fails in the sentry (target variable left untouched; modelled as 0).
    * `istream >> long`: optional sign, decimal digits; no digits → fail, v=0;
      overflow → fail, v = LONG_MAX / LONG_MIN; all digits are consumed anyway.
    * `istream >> unsigned long / unsigned int`: a leading '-' is accepted; the
      magnitude must fit the unsigned type (else fail, v = max) and the result
      is negated modulo 2^64 / 2^32 ("-1" → 18446744073709551615, no failbit).
-/
import PseudoModel.Basic

namespace Pseudo.FloatFmt

/-! ## Small helpers -/

def pow2_52 : Nat := 4503599627370496
def pow2_53 : Nat := 9007199254740992
def pow2_63 : Nat := 9223372036854775808
def pow2_64 : Nat := 18446744073709551616

def signBit : Nat := pow2_63
def infBits : Nat := 0x7FF0000000000000
def qnanBits : Nat := 0x7FF8000000000000
def dblMaxBits : Nat := 0x7FEFFFFFFFFFFFFF

/-- `n / d` rounded to nearest, ties to even, together with "inexact". -/
def divRoundHalfEven (n d : Nat) : Nat × Bool :=
  let q := n / d
  let r := n % d
  if r == 0 then (q, false)
  else if 2 * r < d then (q, true)
  else if 2 * r > d then (q + 1, true)
  else if q % 2 == 0 then (q, true) else (q + 1, true)

/-- round-half-even of `(num/den) / 10^k`. -/
def scaledRound10 (num den : Nat) (k : Int) : Nat :=
  if k ≥ 0 then (divRoundHalfEven num (den * 10 ^ k.toNat)).1
  else (divRoundHalfEven (num * 10 ^ (-k).toNat) den).1

/-- round-half-even of `(num/den) / 2^k`, and inexact flag. -/
def scaledRound2 (num den : Nat) (k : Int) : Nat × Bool :=
  if k ≥ 0 then divRoundHalfEven num (den <<< k.toNat)
  else divRoundHalfEven (num <<< (-k).toNat) den

/-- `num/den ≥ 10^x` -/
def ge10 (num den : Nat) (x : Int) : Bool :=
  if x ≥ 0 then decide (num ≥ den * 10 ^ x.toNat) else decide (num * 10 ^ (-x).toNat ≥ den)

/-- `num/den ≥ 2^x` -/
def ge2 (num den : Nat) (x : Int) : Bool :=
  if x ≥ 0 then decide (num ≥ den <<< x.toNat) else decide (num <<< (-x).toNat ≥ den)

def fixDown10 (num den : Nat) : Nat → Int → Int
  | 0, x => x
  | f + 1, x => if ge10 num den x then x else fixDown10 num den f (x - 1)

def fixUp10 (num den : Nat) : Nat → Int → Int
  | 0, x => x
  | f + 1, x => if ge10 num den (x + 1) then fixUp10 num den f (x + 1) else x

/-- `floor (log10 (num/den))` for `num, den > 0` (exact). -/
def floorLog10 (num den : Nat) : Int :=
  let lb : Int := (num.log2 : Int) - (den.log2 : Int)
  -- 2^(lb-1) < num/den < 2^(lb+1)
  let est : Int := (lb * 30103) / 100000
  fixUp10 num den 700 (fixDown10 num den 700 est)

/-- `floor (log2 (num/den))` for `num, den > 0` (exact). -/
def floorLog2 (num den : Nat) : Int :=
  let lb : Int := (num.log2 : Int) - (den.log2 : Int)
  if ge2 num den lb then (if ge2 num den (lb + 1) then lb + 1 else lb) else lb - 1

/-! ## Decoding a binary64 -/

inductive Cls where
  | zero | finite | inf | nan
  deriving DecidableEq, Repr

structure Decoded where
  neg : Bool
  cls : Cls
  /-- value = num/den for `finite` -/
  num : Nat
  den : Nat

def decodeBits (b : UInt64) : Decoded :=
  let n := b.toNat
  let neg := n / pow2_63 == 1
  let ex := (n / pow2_52) % 2048
  let fr := n % pow2_52
  if ex == 2047 then
    { neg := neg, cls := if fr == 0 then .inf else .nan, num := 0, den := 1 }
  else if ex == 0 then
    if fr == 0 then { neg := neg, cls := .zero, num := 0, den := 1 }
    else { neg := neg, cls := .finite, num := fr, den := 1 <<< 1074 }
  else
    let m := fr + pow2_52
    if ex ≥ 1075 then { neg := neg, cls := .finite, num := m <<< (ex - 1075), den := 1 }
    else { neg := neg, cls := .finite, num := m, den := 1 <<< (1075 - ex) }

/-! ## printf -/

def stripTrailingZeros (l : List Char) : List Char :=
  (l.reverse.dropWhile (· == '0')).reverse

def padLeftZeros (n : Nat) (l : List Char) : List Char :=
  List.replicate (n - l.length) '0' ++ l

def signPrefix (neg : Bool) (l : List Char) : List Char :=
  if neg then '-' :: l else l

def withFrac (ip frac : List Char) : List Char :=
  if frac.isEmpty then ip else ip ++ '.' :: frac

/-- `printf("%.{prec}g")` on a bit pattern. -/
def fmtGBits (prec : Nat) (b : UInt64) : List Char :=
  let p := if prec == 0 then 1 else prec
  let d := decodeBits b
  match d.cls with
  | .nan => signPrefix d.neg "nan".toList
  | .inf => signPrefix d.neg "inf".toList
  | .zero => signPrefix d.neg ['0']
  | .finite =>
    let x0 := floorLog10 d.num d.den
    let n0 := scaledRound10 d.num d.den (x0 - ((p : Int) - 1))
    let carry := decide (n0 ≥ 10 ^ p)
    let n := if carry then 10 ^ (p - 1) else n0
    let x : Int := if carry then x0 + 1 else x0
    let ds := padLeftZeros p (Nat.toDigits 10 n)
    let body :=
      if x ≥ -4 && x < (p : Int) then
        if x ≥ 0 then
          let k := x.toNat + 1
          withFrac (ds.take k) (stripTrailingZeros (ds.drop k))
        else
          withFrac ['0'] (stripTrailingZeros (List.replicate ((-x).toNat - 1) '0' ++ ds))
      else
        let mant := withFrac (ds.take 1) (stripTrailingZeros (ds.drop 1))
        let es := padLeftZeros 2 (Nat.toDigits 10 x.natAbs)
        mant ++ 'e' :: (if x < 0 then '-' else '+') :: es
    signPrefix d.neg body

/-- `printf("%f")` on a bit pattern. -/
def fmtF6Bits (b : UInt64) : List Char :=
  let d := decodeBits b
  match d.cls with
  | .nan => signPrefix d.neg "nan".toList
  | .inf => signPrefix d.neg "inf".toList
  | .zero => signPrefix d.neg "0.000000".toList
  | .finite =>
    let n := scaledRound10 d.num d.den (-6)
    let ds := padLeftZeros 7 (Nat.toDigits 10 n)
    let k := ds.length - 6
    signPrefix d.neg (ds.take k ++ '.' :: ds.drop k)

def fmtG (prec : Nat) (x : Float) : List Char := fmtGBits prec x.toBits
def fmtF6 (x : Float) : List Char := fmtF6Bits x.toBits
def fmtG17 (x : Float) : List Char := fmtG 17 x

/-! ## Rational → binary64 -/

def mkSign (neg : Bool) (n : Nat) : UInt64 :=
  UInt64.ofNat (if neg then n + signBit else n)

/-- Nearest binary64 (ties to even) to `±n/d`; second component: glibc ERANGE. -/
def ratToBits (neg : Bool) (n d : Nat) : UInt64 × Bool :=
  if n == 0 then (mkSign neg 0, false)
  else if d == 0 then (mkSign neg infBits, true)
  else
    let e := floorLog2 n d               -- 2^e ≤ n/d < 2^(e+1)
    if e > 1024 then (mkSign neg infBits, true)
    else if e < -1080 then (mkSign neg 0, true)
    else
      let ulpExp : Int := if e - 52 < -1074 then -1074 else e - 52
      let (q0, inexact) := scaledRound2 n d ulpExp
      -- carry out of the 53-bit significand
      let (q, ue) := if q0 == pow2_53 then (pow2_52, ulpExp + 1) else (q0, ulpExp)
      -- tiny after rounding: value < DBL_MIN and still < DBL_MIN once rounded to
      -- 53 bits with unbounded exponent range (x86: tininess detected after rounding)
      let tiny :=
        decide (e < -1022) &&
          (if e == -1023 then (scaledRound2 n d (e - 52)).1 != pow2_53 else true)
      if q ≥ pow2_52 then
        let biased := ue + 1075
        if biased ≥ 2047 then (mkSign neg infBits, true)
        else (mkSign neg (biased.toNat * pow2_52 + (q - pow2_52)), inexact && tiny)
      else
        -- subnormal or zero result
        (mkSign neg q, inexact && tiny)

def ratToFloat (neg : Bool) (n d : Nat) : Float × Bool :=
  let r := ratToBits neg n d
  (Float.ofBits r.1, r.2)

/-- `(double) n` for a 64-bit `long` (correctly rounded, ties to even), built with
`ratToBits` (not `Float.ofInt`). -/
def floatOfIntBits (n : Int) : UInt64 := (ratToBits (decide (n < 0)) n.natAbs 1).1
def floatOfInt (n : Int) : Float := Float.ofBits (floatOfIntBits n)

/-! ## strtod -/

def isHexDigit (c : Char) : Bool :=
  isDigit c || (decide ('a'.toNat ≤ c.toNat) && decide (c.toNat ≤ 'f'.toNat))
    || (decide ('A'.toNat ≤ c.toNat) && decide (c.toNat ≤ 'F'.toNat))

def hexVal (c : Char) : Nat :=
  if isDigit c then c.toNat - '0'.toNat
  else if isLower c then c.toNat - 'a'.toNat + 10
  else c.toNat - 'A'.toNat + 10

def digitsToNat (base : Nat) (l : List Char) : Nat :=
  l.foldl (fun a c => a * base + hexVal c) 0

/-- Optional exponent part: marker char already matched by the caller.
Returns `(exponent, chars consumed including the marker)`, or `(0,0)`. -/
def parseExpTail (rest : List Char) : Int × Nat :=
  -- rest is what follows the 'e' / 'p'
  let (neg, r, sl) := match rest with
    | '-' :: r => (true, r, 1)
    | '+' :: r => (false, r, 1)
    | _ => (false, rest, 0)
  let ds := r.takeWhile isDigit
  if ds.isEmpty then (0, 0)
  else
    let v : Int := (digitsToNat 10 ds : Nat)
    (if neg then -v else v, 1 + sl + ds.length)

def startsWithCI (pat : List Char) (s : List Char) : Bool :=
  decide (s.length ≥ pat.length) && (s.take pat.length).map toLowerC == pat

def isNCharSeq (c : Char) : Bool := isAlnum c || c == '_'

/-- glibc `strtoull(s, &end, 0)` restricted to inputs made of `[0-9A-Za-z_]`
(no sign / whitespace possible): returns (value clamped to 2^64-1, consumed,
overflow i.e. errno = ERANGE). -/
def strtoullAuto (s : List Char) : Nat × Nat × Bool :=
  let clamp (v : Nat) (used : Nat) : Nat × Nat × Bool :=
    if v ≥ pow2_64 then (pow2_64 - 1, used, true) else (v, used, false)
  match s with
  | '0' :: x :: rest =>
    if (x == 'x' || x == 'X') && (match rest with | c :: _ => isHexDigit c | [] => false) then
      let ds := rest.takeWhile isHexDigit
      clamp (digitsToNat 16 ds) (2 + ds.length)
    else
      let ds := (x :: rest).takeWhile (fun c => decide ('0'.toNat ≤ c.toNat) && decide (c.toNat ≤ '7'.toNat))
      clamp (digitsToNat 8 ds) (1 + ds.length)
  | ['0'] => (0, 1, false)
  | _ =>
    let ds := s.takeWhile isDigit
    clamp (digitsToNat 10 ds) ds.length

/-- Body of strtod after whitespace and sign. `none` = no conversion. -/
def strtodBody (neg : Bool) (s : List Char) : Option (UInt64 × Nat × Bool) :=
  let startsHex : Bool := match s with
    | '0' :: x :: c :: rest =>
      (x == 'x' || x == 'X') &&
        (isHexDigit c || (c == '.' && (match rest with | c2 :: _ => isHexDigit c2 | [] => false)))
    | _ => false
  let startsDec : Bool := match s with
    | c :: rest => isDigit c || (c == '.' && (match rest with | c2 :: _ => isDigit c2 | [] => false))
    | [] => false
  if startsHex then
    let r0 := s.drop 2
    let ih := r0.takeWhile isHexDigit
    let r1 := r0.drop ih.length
    let (fh, r2, dotLen) := match r1 with
      | '.' :: r =>
        let fh := r.takeWhile isHexDigit
        (fh, r.drop fh.length, 1)
      | _ => ([], r1, 0)
    let (ex, exLen) := match r2 with
      | c :: r => if c == 'p' || c == 'P' then parseExpTail r else (0, 0)
      | [] => (0, 0)
    let consumed := 2 + ih.length + dotLen + fh.length + exLen
    let h := digitsToNat 16 (ih ++ fh)
    if h == 0 then some (mkSign neg 0, consumed, false)
    else
      let e2 : Int := ex - 4 * (fh.length : Int)
      let mag : Int := (h.log2 : Int) + e2
      if mag > 1030 then some (mkSign neg infBits, consumed, true)
      else if mag < -1085 then some (mkSign neg 0, consumed, true)
      else
        let (bits, er) :=
          if e2 ≥ 0 then ratToBits neg (h <<< e2.toNat) 1 else ratToBits neg h (1 <<< (-e2).toNat)
        some (bits, consumed, er)
  else if startsDec then
    let ip := s.takeWhile isDigit
    let r1 := s.drop ip.length
    let (fp, r2, dotLen) := match r1 with
      | '.' :: r =>
        let fp := r.takeWhile isDigit
        (fp, r.drop fp.length, 1)
      | _ => ([], r1, 0)
    let (ex, exLen) := match r2 with
      | c :: r => if c == 'e' || c == 'E' then parseExpTail r else (0, 0)
      | [] => (0, 0)
    let consumed := ip.length + dotLen + fp.length + exLen
    let all := (ip ++ fp).dropWhile (· == '0')
    if all.isEmpty then some (mkSign neg 0, consumed, false)
    else
      let dnum := digitsToNat 10 all
      let e10 : Int := ex - (fp.length : Int)
      let mag : Int := (all.length : Int) + e10     -- value < 10^mag, ≥ 10^(mag-1)
      if mag > 310 then some (mkSign neg infBits, consumed, true)
      else if mag < -330 then some (mkSign neg 0, consumed, true)
      else
        let (bits, er) :=
          if e10 ≥ 0 then ratToBits neg (dnum * 10 ^ e10.toNat) 1
          else ratToBits neg dnum (10 ^ (-e10).toNat)
        some (bits, consumed, er)
  else if startsWithCI "infinity".toList s then some (mkSign neg infBits, 8, false)
  else if startsWithCI "inf".toList s then some (mkSign neg infBits, 3, false)
  else if startsWithCI "nan".toList s then
    match s.drop 3 with
    | '(' :: r =>
      let seq := r.takeWhile isNCharSeq
      match r.drop seq.length with
      | ')' :: _ =>
        -- glibc calls strtoull on the sequence; its ERANGE side effect leaks out
        let (mant, used, ovf) := strtoullAuto seq
        let payload := if used == seq.length then mant % (2 ^ 51) else 0
        some (mkSign neg (qnanBits + payload), 3 + 1 + seq.length + 1, ovf)
      | _ => some (mkSign neg qnanBits, 3, false)
    | _ => some (mkSign neg qnanBits, 3, false)
  else none

/-- C `strtod(s, &end)`: (bits of the value, `end - s`, ERANGE). -/
def strtodBits (s : List Char) : UInt64 × Nat × Bool :=
  let ws := (s.takeWhile isSpaceC).length
  let s1 := s.drop ws
  let (neg, s2, sl) := match s1 with
    | '-' :: r => (true, r, 1)
    | '+' :: r => (false, r, 1)
    | _ => (false, s1, 0)
  match strtodBody neg s2 with
  | none => (0, 0, false)
  | some (bits, len, er) => (bits, ws + sl + len, er)

def strtod (s : List Char) : Float × Nat × Bool :=
  let r := strtodBits s
  (Float.ofBits r.1, r.2.1, r.2.2)

/-! ## strtol -/

def longMax : Int := 9223372036854775807
def longMin : Int := -9223372036854775808

/-- C `strtol(s, &end, 10)` with 64-bit long. -/
def strtol10 (s : List Char) : Int × Nat × Bool :=
  let ws := (s.takeWhile isSpaceC).length
  let s1 := s.drop ws
  let (neg, s2, sl) := match s1 with
    | '-' :: r => (true, r, 1)
    | '+' :: r => (false, r, 1)
    | _ => (false, s1, 0)
  let ds := s2.takeWhile isDigit
  if ds.isEmpty then (0, 0, false)
  else
    let mag : Int := (digitsToNat 10 ds : Nat)
    let v : Int := if neg then -mag else mag
    let consumed := ws + sl + ds.length
    if v > longMax then (longMax, consumed, true)
    else if v < longMin then (longMin, consumed, true)
    else (v, consumed, false)

/-! ## libstdc++ istream extractors -/

/-- Main accumulation loop of `num_get::_M_extract_float` ("C" locale branch).
`acc` is the accumulated text reversed; `fm`/`fd`/`fs` = found mantissa / decimal
point / exponent marker; `afterE` = the previous character was the exponent
marker (so one sign character is accepted).  Returns (acc, unread rest).
Structural recursion on the input. -/
def accFloatMain : List Char → List Char → Bool → Bool → Bool → Bool → List Char × List Char
  | [], acc, _, _, _, _ => (acc, [])
  | c :: cs, acc, fm, fd, fs, afterE =>
    if afterE && (c == '+' || c == '-') then accFloatMain cs (c :: acc) fm fd fs false
    else if isDigit c then accFloatMain cs (c :: acc) true fd fs false
    else if c == '.' && !fd && !fs then accFloatMain cs ('.' :: acc) fm true fs false
    else if (c == 'e' || c == 'E') && !fs && fm then accFloatMain cs ('e' :: acc) fm fd true true
    else (acc, c :: cs)

/-- `_M_extract_float`: (accumulated text, unread rest). -/
def accFloat (s : List Char) : List Char × List Char :=
  let (acc0, s1) := match s with
    | '+' :: r => (['+'], r)
    | '-' :: r => (['-'], r)
    | _ => ([], s)
  let zs := s1.takeWhile (· == '0')
  let s2 := s1.drop zs.length
  let fm := !zs.isEmpty
  let acc1 := if fm then '0' :: acc0 else acc0
  let (acc, rest) := accFloatMain s2 acc1 fm false false false
  (acc.reverse, rest)

/-- `istream >> double` raw result: (failbit, bits stored in the variable
(0 when the sentry fails), unread rest). -/
def istreamReadDoubleRaw (s : List Char) : Bool × UInt64 × List Char :=
  let s0 := s.dropWhile isSpaceC
  if s0.isEmpty then (true, 0, [])
  else
    let (x, rest) := accFloat s0
    let (bits, used, _) := strtodBits x
    if used == 0 || used != x.length then (true, 0, rest)
    else if bits.toNat == infBits then (true, UInt64.ofNat dblMaxBits, rest)
    else if bits.toNat == infBits + signBit then (true, UInt64.ofNat (dblMaxBits + signBit), rest)
    else (false, bits, rest)

def istreamReadDouble (s : List Char) : Option (Float × List Char) :=
  match istreamReadDoubleRaw s with
  | (true, _, _) => none
  | (false, b, rest) => some (Float.ofBits b, rest)

/-- Common part of `_M_extract_int` (base 10, "C" locale): after whitespace.
Returns (negative, digits, rest). -/
def accInt (s : List Char) : Bool × List Char × List Char :=
  let (neg, s1) := match s with
    | '-' :: r => (true, r)
    | '+' :: r => (false, r)
    | _ => (false, s)
  let ds := s1.takeWhile isDigit
  (neg, ds, s1.drop ds.length)

/-- `istream >> long` raw: (failbit, stored value, rest). -/
def istreamReadLongRaw (s : List Char) : Bool × Int × List Char :=
  let s0 := s.dropWhile isSpaceC
  if s0.isEmpty then (true, 0, [])
  else
    let (neg, ds, rest) := accInt s0
    if ds.isEmpty then (true, 0, rest)
    else
      let mag : Int := (digitsToNat 10 ds : Nat)
      if neg then
        if mag > -longMin then (true, longMin, rest) else (false, -mag, rest)
      else
        if mag > longMax then (true, longMax, rest) else (false, mag, rest)

def istreamReadLong (s : List Char) : Option (Int × List Char) :=
  match istreamReadLongRaw s with
  | (true, _, _) => none
  | (false, v, rest) => some (v, rest)

/-- `istream >> UNSIGNED` of width `2^k = modulus`: (failbit, stored value, rest). -/
def istreamReadUnsignedRaw (modulus : Nat) (s : List Char) : Bool × Nat × List Char :=
  let s0 := s.dropWhile isSpaceC
  if s0.isEmpty then (true, 0, [])
  else
    let (neg, ds, rest) := accInt s0
    if ds.isEmpty then (true, 0, rest)
    else
      let mag := digitsToNat 10 ds
      if mag ≥ modulus then (true, modulus - 1, rest)
      else if neg then (false, (modulus - mag) % modulus, rest)
      else (false, mag, rest)

def istreamReadSizeTRaw (s : List Char) : Bool × Nat × List Char :=
  istreamReadUnsignedRaw pow2_64 s
def istreamReadUIntRaw (s : List Char) : Bool × Nat × List Char :=
  istreamReadUnsignedRaw 4294967296 s

def istreamReadSizeT (s : List Char) : Option (Nat × List Char) :=
  match istreamReadSizeTRaw s with
  | (true, _, _) => none
  | (false, v, rest) => some (v, rest)

def istreamReadUInt (s : List Char) : Option (Nat × List Char) :=
  match istreamReadUIntRaw s with
  | (true, _, _) => none
  | (false, v, rest) => some (v, rest)

end Pseudo.FloatFmt
