import PseudoModel.Ast
import PseudoModel.FloatFmt
namespace Pseudo

structure PState where
  toks : List Tok
  warns : List Tok := []      -- comparison-result-ignored warnings (op tokens), newest first

abbrev P := ExceptT Diag (StateM PState)

def eofTok : Tok := { k := .EXPRESSION_END, line := 0, col := 0 }

def P.cur : P Tok := do
  let s ← get
  return s.toks.headD eofTok

/-- `Parser::advance()`: never moves past the last token. -/
def P.adv : P Unit := modify fun s =>
  match s.toks with
  | _ :: t :: rest => { s with toks := t :: rest }
  | _ => s

/-- `compareNextType(n, k)` -/
def P.peekIs (n : Nat) (k : TK) : P Bool := do
  let s ← get
  return match s.toks[n]? with | some t => t.k == k | none => false

def P.fail {α} (t : Tok) (m : Msg := .other) : P α :=
  throw { kind := .syntax, line := t.line, col := t.col, msg := m }

def P.failPed {α} (t : Tok) (m : Msg) : P α :=
  throw { kind := .pedantic, line := t.line, col := t.col, msg := m }

/-- expect kind `k` at the current token and consume it -/
def P.expect (k : TK) : P Tok := do
  let t ← P.cur
  if t.k == k then P.adv; return t else P.fail t

def P.skipLineEnds : Nat → P Unit
  | 0 => pure ()
  | n + 1 => do
    let t ← P.cur
    if t.k == .LINE_END then P.adv; P.skipLineEnds n else pure ()

def P.skipNL : P Unit := do
  let s ← get
  P.skipLineEnds s.toks.length

/-- split a date token text `d/m/y` -/
def splitDate (s : Str) : Nat × Nat × Nat :=
  let d := s.takeWhile (· != '/')
  let r1 := (s.dropWhile (· != '/')).drop 1
  let m := r1.takeWhile (· != '/')
  let y := (r1.dropWhile (· != '/')).drop 1
  (digitsVal d, digitsVal m, digitsVal y)

/-- the decimal literal `ip.fp` as a rational `n / 10^k` -/
def realLitRat (s : Str) : Nat × Nat :=
  let ip := s.takeWhile (· != '.')
  let fp := (s.dropWhile (· != '.')).drop 1
  (digitsVal (ip ++ fp), fp.length)

/-- is the real literal representable without `ERANGE` (what `std::stod` accepts) -/
def realLitInRange (s : Str) : Bool := !(FloatFmt.strtod s).2.2

def levelOp (k : Nat) (t : TK) : Option (Tok → Expr → Expr → Expr) :=
  match k, t with
  | 0, .EQUALS => some fun o l r => .cmp o .eq l r
  | 0, .NOT_EQUALS => some fun o l r => .cmp o .ne l r
  | 1, .AND => some fun o l r => .logic o .and l r
  | 1, .OR => some fun o l r => .logic o .or l r
  | 2, .EQUALS => some fun o l r => .cmp o .eq l r
  | 2, .NOT_EQUALS => some fun o l r => .cmp o .ne l r
  | 2, .GREATER => some fun o l r => .cmp o .gt l r
  | 2, .LESSER => some fun o l r => .cmp o .lt l r
  | 2, .GREATER_EQUAL => some fun o l r => .cmp o .ge l r
  | 2, .LESSER_EQUAL => some fun o l r => .cmp o .le l r
  | 3, .AMPERSAND => some fun o l r => .concat o l r
  | 4, .PLUS => some fun o l r => .arith o .add l r
  | 4, .MINUS => some fun o l r => .arith o .sub l r
  | 5, .STAR => some fun o l r => .arith o .mul l r
  | 5, .SLASH => some fun o l r => .arith o .div l r
  | 5, .DIV => some fun o l r => .arith o .idiv l r
  | 5, .MOD => some fun o l r => .arith o .mod l r
  | _, _ => none

def primTyOf (s : Str) : Option PrimTy :=
  if s == "INTEGER".toList then some .int
  else if s == "REAL".toList then some .real
  else if s == "BOOLEAN".toList then some .bool
  else if s == "CHAR".toList then some .chr
  else if s == "STRING".toList then some .str
  else none

def isBlockEnd (k : TK) : Bool :=
  k == .EXPRESSION_END || k == .ENDIF || k == .OTHERWISE || k == .ENDCASE || k == .ELSE
  || k == .ENDWHILE || k == .UNTIL || k == .NEXT || k == .ENDPROCEDURE || k == .ENDFUNCTION

/-- CASE-block look-ahead: is there a COLON before the next LINE_END, starting one token ahead -/
def caseLookahead : List Tok → Bool
  | [] => false
  | t :: rest => if t.k == .COLON then true else if t.k == .LINE_END then false else caseLookahead rest

inductive BlockKind | main | case | other
deriving DecidableEq

/-- literal parsers shared by atoms and CONSTANT -/
def parseLiteral? (t : Tok) : Option (Except Diag Expr) :=
  match t.k with
  | .INTEGER =>
    let v := digitsVal t.val
    some (if (v : Int) < two63 then .ok (.intLit t v) else .error { kind := .syntax, line := t.line, col := t.col, msg := .overflow })
  | .REAL =>
    some (if realLitInRange t.val then .ok (.realLit t t.val) else .error { kind := .syntax, line := t.line, col := t.col, msg := .overflow })
  | .TRUE => some (.ok (.boolLit t true))
  | .FALSE => some (.ok (.boolLit t false))
  | .CHAR => some (.ok (.charLit t (t.val.headD (Char.ofNat 0))))
  | .STRING => some (.ok (.strLit t t.val))
  | _ => none

structure PCfg where
  pedantic : Bool := false

/-- parameter list bookkeeping of parseProcedure / parseFunction:
    names in order, types assigned to groups, pass modes assigned in runs. -/
structure ParamAcc where
  names : List Str := []          -- reversed
  types : List Tok := []          -- reversed
  modes : List Bool := []         -- reversed
  byRef : Bool := false
  typeCount : Nat := 1
  passCount : Nat := 0

mutual

  def parseLevel (cfg : PCfg) : Nat → Nat → P Expr
    | 0, _ => do P.fail (← P.cur) .budget
    | f + 1, k => do
      if k ≥ 6 then parseFactor cfg f
      else
        let t ← P.cur
        if k == 2 && t.k == .NOT then
          P.adv
          let e ← parseLevel cfg f 2
          return .not t e
        else
          let lhs ← parseLevel cfg f (k + 1)
          loopLevel cfg f k lhs

  def loopLevel (cfg : PCfg) : Nat → Nat → Expr → P Expr
    | 0, _, _ => do P.fail (← P.cur) .budget
    | f + 1, k, lhs => do
      let t ← P.cur
      match levelOp k t.k with
      | none => return lhs
      | some mk =>
        P.adv
        let rhs ← parseLevel cfg f (k + 1)
        loopLevel cfg f k (mk t lhs rhs)

  def parseFactor (cfg : PCfg) : Nat → P Expr
    | 0 => do P.fail (← P.cur) .budget
    | f + 1 => do
      let t ← P.cur
      if t.k == .MINUS then
        P.adv
        let a ← parseAtom cfg f
        return .neg t a
      else parseAtom cfg f

  def parseArgs (cfg : PCfg) : Nat → List Expr → P (List Expr)
    | 0, _ => do P.fail (← P.cur) .budget
    | f + 1, acc => do
      let e ← parseLevel cfg f 0
      let t ← P.cur
      if t.k == .COMMA then
        P.adv
        parseArgs cfg f (e :: acc)
      else return (e :: acc).reverse

  /-- `( args )` after the LPAREN has been consumed -/
  def parseCallArgs (cfg : PCfg) : Nat → P (List Expr)
    | 0 => do P.fail (← P.cur) .budget
    | f + 1 => do
      let t ← P.cur
      if t.k == .RPAREN then P.adv; return []
      else
        let args ← parseArgs cfg f []
        let _ ← P.expect .RPAREN
        return args

  def parseAtom (cfg : PCfg) : Nat → P Expr
    | 0 => do P.fail (← P.cur) .budget
    | f + 1 => do
      let t ← P.cur
      match parseLiteral? t with
      | some r =>
        match r with
        | .ok e => P.adv; return e
        | .error d => throw d
      | none =>
      match t.k with
      | .DATE =>
        P.adv
        let (d, m, y) := splitDate t.val
        return .dateLit t d m y
      | .IDENTIFIER =>
        if ← P.peekIs 1 .LPAREN then
          P.adv; P.adv
          let args ← parseCallArgs cfg f
          return .call t args
        else
          let r ← parseRef cfg f
          let t2 ← P.cur
          if t2.k == .ASSIGNMENT then
            P.adv
            let t3 ← P.cur
            if t3.k == .CARET then
              P.adv
              let t4 ← P.cur
              if t4.k != .IDENTIFIER then P.fail t4
              else
                let v ← parseRef cfg f
                return .ptrAssign t3 r v
            else
              let e ← parseLevel cfg f 0
              return .assign t2 r e
          else return .access t r
      | .LPAREN =>
        P.adv
        let e ← parseLevel cfg f 0
        let _ ← P.expect .RPAREN
        return e
      | .DATA_TYPE =>
        if cfg.pedantic then P.failPed t .pedCast
        else
          match primTyOf t.val with
          | none => P.fail t      -- DATE(...) is not a cast (model of the repaired code)
          | some ty =>
            P.adv
            let _ ← P.expect .LPAREN
            let e ← parseLevel cfg f 0
            let _ ← P.expect .RPAREN
            return .cast t ty e
      | .MOD | .DIV =>
        if ← P.peekIs 1 .LPAREN then
          P.adv; P.adv
          let a ← parseLevel cfg f 0
          let _ ← P.expect .COMMA
          let b ← parseLevel cfg f 0
          let _ ← P.expect .RPAREN
          return .arith t (if t.k == .MOD then .mod else .idiv) a b
        else P.fail t
      | _ => P.fail t

  def parseIndices (cfg : PCfg) : Nat → List Expr → P (List Expr)
    | 0, _ => do P.fail (← P.cur) .budget
    | f + 1, acc => do
      let e ← parseLevel cfg f 4
      let t ← P.cur
      if t.k == .COMMA then
        P.adv
        parseIndices cfg f (e :: acc)
      else return (e :: acc).reverse

  /-- `parseIdentifierExpression`: the current token is the identifier -/
  def parseRef (cfg : PCfg) : Nat → P Ref
    | 0 => do P.fail (← P.cur) .budget
    | f + 1 => do
      let t ← P.cur
      P.adv
      refLoop cfg f (.var t)

  def refLoop (cfg : PCfg) : Nat → Ref → P Ref
    | 0, _ => do P.fail (← P.cur) .budget
    | f + 1, r => do
      let t ← P.cur
      match t.k with
      | .PERIOD =>
        P.adv
        let m ← P.cur
        -- the member must be an identifier (model of the repaired code)
        if m.k != .IDENTIFIER then P.fail m
        else
          P.adv
          refLoop cfg f (.field t r m)
      | .CARET =>
        P.adv
        refLoop cfg f (.deref t r)
      | .LSQRBRACKET =>
        P.adv
        let idx ← parseIndices cfg f []
        let _ ← P.expect .RSQRBRACKET
        refLoop cfg f (.index t r idx)
      | _ => return r

end

def parseEval (cfg : PCfg) (f : Nat) : P Expr := parseLevel cfg f 0
def parseArithE (cfg : PCfg) (f : Nat) : P Expr := parseLevel cfg f 4
def parseStrE (cfg : PCfg) (f : Nat) : P Expr := parseLevel cfg f 3

/-- identifier list of DECLARE -/
def parseIdentList : Nat → List Tok → P (List Tok)
  | 0, _ => do P.fail (← P.cur) .budget
  | f + 1, acc => do
    let t ← P.cur
    if t.k != .IDENTIFIER then P.fail t
    else
      P.adv
      let t2 ← P.cur
      if t2.k == .COMMA then P.adv; parseIdentList f (t :: acc)
      else return (t :: acc).reverse

def parseBounds (cfg : PCfg) : Nat → List (Expr × Expr) → P (List (Expr × Expr))
  | 0, _ => do P.fail (← P.cur) .budget
  | f + 1, acc => do
    let lo ← parseArithE cfg f
    let _ ← P.expect .COLON
    let hi ← parseArithE cfg f
    let t ← P.cur
    if t.k == .COMMA then P.adv; parseBounds cfg f ((lo, hi) :: acc)
    else return ((lo, hi) :: acc).reverse

def isTypeTok (t : Tok) : Bool := t.k == .DATA_TYPE || t.k == .IDENTIFIER

/-- `parseDeclareExpression` (the current token is DECLARE) -/
def parseDeclare (cfg : PCfg) (f : Nat) : P Stmt := do
  let op ← P.cur
  P.adv
  let ids ← parseIdentList f []
  let _ ← P.expect .COLON
  let t ← P.cur
  if t.k == .ARRAY then
    P.adv
    let _ ← P.expect .LSQRBRACKET
    let bs ← parseBounds cfg f []
    let _ ← P.expect .RSQRBRACKET
    let _ ← P.expect .OF
    let ty ← P.cur
    if !isTypeTok ty then P.fail ty
    else
      P.adv
      return .declareArr op ids ty bs
  else if !isTypeTok t then P.fail t
  else
    P.adv
    return .declare op ids t

def parseConst : P Stmt := do
  let op ← P.cur
  P.adv
  let id ← P.expect .IDENTIFIER
  let t ← P.cur
  if t.k != .EQUALS && t.k != .ASSIGNMENT then P.fail t
  else
    P.adv
    let mt ← P.cur
    let negative := mt.k == .MINUS
    if negative then P.adv
    let lt ← P.cur
    match parseLiteral? lt with
    | none => P.fail lt
    | some (.error d) => throw d
    | some (.ok e) =>
      P.adv
      return .const op id (if negative then .neg mt e else e)

def parseEnumVals : Nat → List Str → P (List Str)
  | 0, _ => do P.fail (← P.cur) .budget
  | f + 1, acc => do
    let t ← P.cur
    if t.k != .IDENTIFIER then P.fail t
    else
      P.adv
      let t2 ← P.cur
      if t2.k == .COMMA then P.adv; parseEnumVals f (t.val :: acc)
      else if t2.k == .RPAREN then P.adv; return (t.val :: acc).reverse
      else P.fail t2

/-- body of a composite TYPE: DECLAREs each ended by a line break; blank lines are
    skipped (model of the repaired code) -/
def parseCompositeBody (cfg : PCfg) : Nat → List Stmt → P (List Stmt)
  | 0, _ => do P.fail (← P.cur) .budget
  | f + 1, acc => do
    P.skipNL
    let t ← P.cur
    if t.k == .DECLARE then
      let d ← parseDeclare cfg f
      let _ ← P.expect .LINE_END
      parseCompositeBody cfg f (d :: acc)
    else return acc.reverse

def parseType (cfg : PCfg) (f : Nat) : P Stmt := do
  let tk ← P.cur
  P.adv
  P.skipNL
  let id ← P.cur
  if id.k != .IDENTIFIER then P.fail id
  else
    P.adv
    let t ← P.cur
    if t.k != .EQUALS then
      if t.k != .LINE_END then P.fail t
      else
        P.adv
        let body ← parseCompositeBody cfg f []
        let _ ← P.expect .ENDTYPE
        return .typeRec tk id body
    else
      P.adv
      let t2 ← P.cur
      if t2.k == .CARET then
        P.adv
        let pt ← P.cur
        if !isTypeTok pt then P.fail pt
        else P.adv; return .typePtr tk id pt
      else if t2.k == .LPAREN then
        P.adv
        let vals ← parseEnumVals f []
        return .typeEnum tk id vals
      else P.fail t2

/-- parameter list of PROCEDURE / FUNCTION after the LPAREN, up to and including RPAREN.
    Mirrors the counters of the C++ (`typeCount`, `passTypeCount`, sticky `byRef`). -/
def parseParams : Nat → ParamAcc → P ParamAcc
  | 0, _ => do P.fail (← P.cur) .budget
  | f + 1, a => do
    let t ← P.cur
    if t.k == .RPAREN then
      if a.typeCount != 1 then P.fail t
      else
        P.adv
        return { a with modes := List.replicate a.passCount a.byRef ++ a.modes }
    else
      if a.names.length > 0 then
        if t.k != .COMMA then P.fail t else P.adv
      let t1 ← P.cur
      let a1 ←
        if t1.k == .BYREF || t1.k == .BYVAL then do
          let curK := if a.byRef then TK.BYREF else TK.BYVAL
          P.adv
          if curK != t1.k then
            pure { a with modes := List.replicate a.passCount a.byRef ++ a.modes, byRef := !a.byRef, passCount := 1 }
          else pure { a with passCount := a.passCount + 1 }
        else pure { a with passCount := a.passCount + 1 }
      let nm ← P.cur
      if nm.k != .IDENTIFIER then P.fail nm
      else
        P.adv
        let t2 ← P.cur
        if t2.k == .COLON then
          P.adv
          let ty ← P.cur
          if !isTypeTok ty then P.fail ty
          else
            P.adv
            parseParams f { a1 with names := nm.val :: a1.names,
                                     types := List.replicate a1.typeCount ty ++ a1.types, typeCount := 1 }
        else if t2.k == .COMMA then
          -- note: the COMMA is not consumed here; the next iteration consumes it
          parseParams f { a1 with names := nm.val :: a1.names, typeCount := a1.typeCount + 1 }
        else P.fail t2

def mkParams (a : ParamAcc) : List Param :=
  let names := a.names.reverse
  let types := a.types.reverse
  let modes := a.modes.reverse
  (List.range names.length).map fun i =>
    { name := names.getD i [], ty := types.getD i default, byRef := modes.getD i false }

def fileModeOf (k : TK) : Option FileMode :=
  match k with
  | .READ => some .read | .WRITE => some .write | .APPEND => some .append | .RANDOM => some .random
  | _ => none

mutual

  def parseBlock (cfg : PCfg) : Nat → BlockKind → List Stmt → P (List Stmt)
    | 0, _, _ => do P.fail (← P.cur) .budget
    | f + 1, bk, acc => do
      P.skipNL
      let t ← P.cur
      if isBlockEnd t.k then return acc.reverse
      else
        let s ← get
        if bk == .case && t.k != .DECLARE && caseLookahead (s.toks.drop 1) then return acc.reverse
        else
          let node ←
            if t.k == .PROCEDURE then
              if bk != .main then P.fail t else parseProcedure cfg f
            else if t.k == .FUNCTION then
              if bk != .main then P.fail t else parseFunction cfg f
            else do
              let n ← parseStmt cfg f
              match n with
              | .expr (.cmp o _ (.access _ _) _) => modify fun s => { s with warns := o :: s.warns }
              | _ => pure ()
              pure n
          let t2 ← P.cur
          if t2.k != .LINE_END && t2.k != .EXPRESSION_END then P.fail t2
          else parseBlock cfg f bk (node :: acc)

  def parseProcedure (cfg : PCfg) : Nat → P Stmt
    | 0 => do P.fail (← P.cur) .budget
    | f + 1 => do
      let pt ← P.cur
      P.adv
      let nm ← P.expect .IDENTIFIER
      let t ← P.cur
      let ps ← if t.k == .LPAREN then do P.adv; let a ← parseParams f {}; pure (mkParams a) else pure []
      let body ← parseBlock cfg f .other []
      let _ ← P.expect .ENDPROCEDURE
      return .procDef pt nm.val ps body

  def parseFunction (cfg : PCfg) : Nat → P Stmt
    | 0 => do P.fail (← P.cur) .budget
    | f + 1 => do
      let pt ← P.cur
      P.adv
      let nm ← P.expect .IDENTIFIER
      let t ← P.cur
      let ps ← if t.k == .LPAREN then do P.adv; let a ← parseParams f {}; pure (mkParams a) else pure []
      P.skipNL
      let _ ← P.expect .RETURNS
      let rt ← P.cur
      if !isTypeTok rt then P.fail rt
      else
        P.adv
        let body ← parseBlock cfg f .other []
        let _ ← P.expect .ENDFUNCTION
        return .funDef pt nm.val ps rt body

  /-- ELSE IF / ELSE chain after the first branch; current token is ELSE or something else -/
  def parseElse (cfg : PCfg) : Nat → List (Expr × List Stmt) → P (List (Expr × List Stmt) × Option (List Stmt))
    | 0, _ => do P.fail (← P.cur) .budget
    | f + 1, acc => do
      let t ← P.cur
      if t.k != .ELSE then return (acc.reverse, none)
      else
        P.adv
        let t2 ← P.cur
        if t2.k == .IF then
          if cfg.pedantic then P.failPed t2 .pedElseIf
          else
            P.adv
            let c ← parseEval cfg f
            P.skipNL
            let _ ← P.expect .THEN
            let b ← parseBlock cfg f .other []
            parseElse cfg f ((c, b) :: acc)
        else
          let b ← parseBlock cfg f .other []
          return (acc.reverse, some b)

  def parseClauses (cfg : PCfg) : Nat → List Clause → P (List Clause)
    | 0, _ => do P.fail (← P.cur) .budget
    | f + 1, acc => do
      let t ← P.cur
      if t.k == .ENDCASE then return acc.reverse
      else if t.k == .OTHERWISE then
        P.adv
        let _ ← P.expect .COLON
        let b ← parseBlock cfg f .case []
        let t2 ← P.cur
        if t2.k != .ENDCASE then P.fail t2
        else return (Clause.otherwise b :: acc).reverse
      else
        let e ← parseEval cfg f
        let t2 ← P.cur
        let hi ← if t2.k == .TO then do P.adv; let h ← parseEval cfg f; pure (some h) else pure none
        let _ ← P.expect .COLON
        let b ← parseBlock cfg f .case []
        match hi with
        | none => parseClauses cfg f (Clause.eq e b :: acc)
        | some h => parseClauses cfg f (Clause.range e h b :: acc)

  /-- `parseExpression` -/
  def parseStmt (cfg : PCfg) : Nat → P Stmt
    | 0 => do P.fail (← P.cur) .budget
    | f + 1 => do
      let t ← P.cur
      match t.k with
      | .DECLARE => parseDeclare cfg f
      | .CONSTANT => parseConst
      | .TYPE => parseType cfg f
      | .IF =>
        P.adv
        let c ← parseEval cfg f
        P.skipNL
        let _ ← P.expect .THEN
        let b ← parseBlock cfg f .other []
        let (brs, els) ← parseElse cfg f [(c, b)]
        let _ ← P.expect .ENDIF
        return .ifs t brs els
      | .CASE =>
        P.adv
        let _ ← P.expect .OF
        let sel ← P.expect .IDENTIFIER
        P.skipNL
        let cl ← parseClauses cfg f []
        P.adv
        return .case t sel cl
      | .WHILE =>
        P.adv
        let c ← parseEval cfg f
        P.skipNL
        let t2 ← P.cur
        if t2.k == .DO then P.adv
        let b ← parseBlock cfg f .other []
        let _ ← P.expect .ENDWHILE
        return .while t c b
      | .REPEAT =>
        P.adv
        let b ← parseBlock cfg f .other []
        let _ ← P.expect .UNTIL
        let c ← parseEval cfg f
        return .repeat t b c
      | .FOR =>
        P.adv
        let it ← P.expect .IDENTIFIER
        let _ ← P.expect .ASSIGNMENT
        let start ← parseArithE cfg f
        let _ ← P.expect .TO
        let stop ← parseArithE cfg f
        let t2 ← P.cur
        let step ← if t2.k == .STEP then do P.adv; let s ← parseArithE cfg f; pure (some s) else pure none
        let b ← parseBlock cfg f .other []
        let _ ← P.expect .NEXT
        let t3 ← P.cur
        if t3.k == .IDENTIFIER then
          if t3.val != it.val then P.fail t3 else P.adv
        return .for t it start stop step b
      | .CALL =>
        P.adv
        let nm ← P.expect .IDENTIFIER
        let t2 ← P.cur
        let args ← if t2.k == .LPAREN then do P.adv; parseCallArgs cfg f else pure []
        return .call t nm.val args
      | .OUTPUT =>
        P.adv
        let es ← parseArgs cfg f []
        return .output t es
      | .READ | .INPUT =>
        P.adv
        let t2 ← P.cur
        if t2.k != .IDENTIFIER then P.fail t2
        else
          let r ← parseRef cfg f
          return .input t r
      | .OPENFILE =>
        P.adv
        let fn ← parseStrE cfg f
        let _ ← P.expect .FOR
        let mt ← P.cur
        match fileModeOf mt.k with
        | none => P.fail mt
        | some m => P.adv; return .openFile t fn m
      | .READFILE =>
        P.adv
        let fn ← parseStrE cfg f
        let _ ← P.expect .COMMA
        let id ← P.expect .IDENTIFIER
        return .readFile t fn id
      | .WRITEFILE =>
        P.adv
        let fn ← parseStrE cfg f
        let _ ← P.expect .COMMA
        let e ← parseEval cfg f
        return .writeFile t fn e
      | .CLOSEFILE =>
        P.adv
        let fn ← parseStrE cfg f
        return .closeFile t fn
      | .SEEK =>
        P.adv
        let fn ← parseStrE cfg f
        let _ ← P.expect .COMMA
        let a ← parseEval cfg f
        return .seek t fn a
      | .GETRECORD =>
        P.adv
        let fn ← parseStrE cfg f
        let _ ← P.expect .COMMA
        let id ← P.expect .IDENTIFIER
        return .getRecord t fn id
      | .PUTRECORD =>
        P.adv
        let fn ← parseStrE cfg f
        let _ ← P.expect .COMMA
        let id ← P.expect .IDENTIFIER
        return .putRecord t fn id
      | .RETURN =>
        P.adv
        let e ← parseEval cfg f
        return .ret t e
      | .BREAK => P.adv; return .brk t
      | .CONTINUE => P.adv; return .cont t
      | _ =>
        let e ← parseEval cfg f
        return .expr e

end

def parseFuel (toks : List Tok) : Nat := 12 * toks.length + 64

/-- `Parser::parse()`: a MAIN block followed by EXPRESSION_END. Returns the block and the
    warnings (operator tokens, in source order) printed while parsing. -/
def parse (cfg : PCfg) (toks : List Tok) : Except (Diag × List Tok) (Block × List Tok) :=
  let m : P Block := do
    let b ← parseBlock cfg (parseFuel toks) .main []
    let t ← P.cur
    if t.k != .EXPRESSION_END then P.fail t else return b
  -- warnings printed before a syntax error are still printed: the state survives the error
  match (m.run).run { toks := toks } with
  | (.ok b, s) => .ok (b, s.warns.reverse)
  | (.error d, s) => .error (d, s.warns.reverse)

end Pseudo
