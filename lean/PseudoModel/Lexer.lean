import PseudoModel.Token
namespace Pseudo

/-- Lexer cursor: mirrors `idx / currentChar / line / column` of the C++ `Lexer`.
    `cs` are the characters from `idx` on (head = currentChar); when `cs = []` (idx ≥ size)
    `last` is the stale `currentChar`. -/
structure Cur where
  cs : List Char
  line : Nat
  col : Nat
  last : Char
deriving Repr

def Cur.cur (c : Cur) : Char := match c.cs with | [] => c.last | x :: _ => x
def Cur.atEnd (c : Cur) : Bool := c.cs.isEmpty

/-- `Lexer::advance()`. -/
def Cur.adv (c : Cur) : Cur :=
  let ch := c.cur
  let l := if ch == '\n' then c.line + 1 else c.line
  let k := if ch == '\n' then 0 else c.col
  match c.cs with
  | [] => { c with line := l, col := k }
  | _ :: [] => { cs := [], line := l, col := k, last := ch }
  | _ :: d :: rest => { cs := d :: rest, line := l, col := k + 1, last := d }

/-- `setExpr` (after the `\r` removal): position of the first character. -/
def Cur.init (s : List Char) : Cur :=
  match s with
  | [] => { cs := [], line := 1, col := 0, last := Char.ofNat 0 }
  | c :: _ => { cs := s, line := 1, col := 1, last := c }

/-- `getNextChar n` -/
def Cur.peek (c : Cur) (n : Nat) : Char := (c.cs[n]?).getD (Char.ofNat 0)

def lexErr (line col : Nat) : Diag := { kind := .syntax, line := line, col := col }

/-- advance while `p` holds for the current character (and not at end). -/
def advWhile (p : Char → Bool) : Nat → Cur → Cur
  | 0, c => c
  | n + 1, c => if !c.atEnd && p c.cur then advWhile p n c.adv else c

def advN : Nat → Cur → Cur
  | 0, c => c
  | n + 1, c => advN n c.adv

/-- `escSeqFmt` -/
def escSeq (c : Char) : Option Char :=
  if c == 'n' then some '\n' else if c == 't' then some '\t' else if c == '\'' then some '\''
  else if c == '"' then some '"' else if c == '\\' then some '\\' else none

def ioKeyword (k : TK) : Bool :=
  k == .INPUT || k == .OUTPUT || k == .OPENFILE || k == .READFILE || k == .WRITEFILE || k == .CLOSEFILE

structure LexCfg where
  pedantic : Bool := false

/-- `makeWord`: returns the token (or a pedantic error) and the cursor after the word. -/
def makeWord (cfg : LexCfg) (c : Cur) : Except Diag (Tok × Cur) :=
  let c' := advWhile (fun ch => isAlnum ch || ch == '_') (c.cs.length) c
  let w := c.cs.take (c.cs.length - c'.cs.length)
  match lookupKeyword w with
  | some k =>
    let t : Tok := { k := k, line := c'.line, col := c.col, val := if k == .DATA_TYPE then w else [] }
    if cfg.pedantic && k == .BREAK then .error { kind := .pedantic, line := t.line, col := t.col, msg := .pedBreak }
    else if cfg.pedantic && k == .CONTINUE then .error { kind := .pedantic, line := t.line, col := t.col, msg := .pedContinue }
    else .ok (t, c')
  | none => .ok ({ k := .IDENTIFIER, line := c'.line, col := c.col, val := w }, c')

/-- number scanning loop of `makeNumber`: digits with at most one '.'. -/
def scanNumber : Nat → Cur → Bool → Cur × Bool
  | 0, c, d => (c, d)
  | n + 1, c, d =>
    if c.atEnd then (c, d)
    else if c.cur == '.' && !d then scanNumber n c.adv true
    else if isDigit c.cur then scanNumber n c.adv d
    else (c, d)

/-- number of digits starting at offset `i` of the look-ahead. -/
def countDigitsFrom (c : Cur) (i : Nat) : Nat := ((c.cs.drop i).takeWhile isDigit).length

/-- `makeNumber`, with the date look-ahead `d+/d+/d+`.
    (model of the repaired code: the month part must have at least one digit, so that
    `1//2` is the integer 1 followed by a comment.) -/
def makeNumber (c : Cur) : Tok × Cur :=
  let (c1, dec) := scanNumber (c.cs.length) c false
  let txt := c.cs.take (c.cs.length - c1.cs.length)
  let numTok : Tok := { k := if dec then .REAL else .INTEGER, line := c1.line, col := c.col, val := txt }
  if c1.atEnd || c1.cur != '/' || dec then (numTok, c1)
  else
    let m := countDigitsFrom c1 1
    if m == 0 then (numTok, c1)
    else if c1.peek (1 + m) != '/' then (numTok, c1)
    else if !isDigit (c1.peek (2 + m)) then (numTok, c1)
    else
      let c2 := advN (2 + m) c1
      let c3 := advWhile isDigit c2.cs.length c2
      let txt2 := c.cs.take (c.cs.length - c3.cs.length)
      ({ k := .DATE, line := c3.line, col := c.col, val := txt2 }, c3)

/-- `makeChar` -/
def makeChar (c : Cur) : Except Diag (Tok × Cur) :=
  if c.cs.length ≤ 2 then .error (lexErr c.line c.col)
  else
    let startCol := c.col
    let c1 := c.adv
    let r : Except Diag (Char × Cur) :=
      if c1.cur == '\\' then
        let c2 := c1.adv
        match escSeq c2.cur with
        | some ch => .ok (ch, c2)
        | none => .error (lexErr c2.line c2.col)
      else if c1.cur == '\'' then .error (lexErr c1.line c1.col)
      else .ok (c1.cur, c1)
    match r with
    | .error e => .error e
    | .ok (ch, c2) =>
      if c2.cs.length ≤ 1 || c2.peek 1 != '\'' then .error (lexErr c2.line c2.col)
      else
        let c3 := c2.adv.adv
        .ok ({ k := .CHAR, line := c3.line, col := startCol, val := [ch] }, c3)

/-- body loop of `makeString` -/
def scanString : Nat → Cur → List Char → Except Diag (Cur × List Char)
  | 0, c, acc => .ok (c, acc)
  | n + 1, c, acc =>
    if c.atEnd || c.cur == '"' then .ok (c, acc)
    else if c.cur == '\\' then
      let c1 := c.adv
      match escSeq c1.cur with
      | some ch => scanString n c1.adv (ch :: acc)
      | none => .error (lexErr c1.line c1.col)
    else scanString n c.adv (c.cur :: acc)

def makeString (c : Cur) : Except Diag (Tok × Cur) :=
  let startCol := c.col
  let c1 := c.adv
  match scanString (c1.cs.length + 1) c1 [] with
  | .error e => .error e
  | .ok (c2, acc) =>
    if c2.atEnd || c2.cur != '"' then .error (lexErr c2.line c2.col)
    else
      let c3 := c2.adv
      .ok ({ k := .STRING, line := c3.line, col := startCol, val := acc.reverse }, c3)

def mkTok (k : TK) (c : Cur) : Tok := { k := k, line := c.line, col := c.col }

/-- The main loop of `makeTokens`. `prev` is the character before the current one
    (`none` at index 0); `acc` the tokens so far, newest first. -/
def lexLoop (cfg : LexCfg) : Nat → Cur → Option Char → List Tok → Except Diag (List Tok)
  | 0, c, _, acc => .ok (mkTok .EXPRESSION_END c :: acc)
  | n + 1, c, prev, acc =>
    match c.cs with
    | [] => .ok (mkTok .EXPRESSION_END c :: acc)
    | ch :: _ =>
      let one (k : TK) := lexLoop cfg n c.adv (some ch) (mkTok k c :: acc)
      if ch == '+' then one .PLUS
      else if ch == '-' then one .MINUS
      else if ch == '*' then one .STAR
      else if ch == '/' then
        let c1 := c.adv
        if c1.atEnd || c1.cur != '/' then lexLoop cfg n c1 (some ch) (mkTok .SLASH c1 :: acc)
        else
          -- comment: up to, not including, the line break (model of the repaired code)
          let c2 := advWhile (fun x => x != '\n') c1.cs.length c1
          lexLoop cfg n c2 (some '/') acc
      else if ch == '(' then
        let bad := match prev, acc with
          | some p, t :: _ => p != ' ' && p != '\t' && ioKeyword t.k
          | _, _ => false
        if bad then .error (lexErr c.line c.col) else one .LPAREN
      else if ch == ')' then one .RPAREN
      else if ch == '[' then one .LSQRBRACKET
      else if ch == ']' then one .RSQRBRACKET
      else if ch == '=' then
        let c1 := c.adv
        if c1.atEnd || c1.cur != '=' then
          lexLoop cfg n c1 (some ch) ({ k := .EQUALS, line := c1.line, col := c1.col - 1 } :: acc)
        else .error (lexErr c1.line (c1.col - 1))
      else if ch == ':' then one .COLON
      else if ch == ',' then one .COMMA
      else if ch == '&' then one .AMPERSAND
      else if ch == '^' then one .CARET
      else if ch == '.' then one .PERIOD
      else if ch == '\'' then
        match makeChar c with
        | .error e => .error e
        | .ok (t, c1) => lexLoop cfg n c1 (some '\'') (t :: acc)
      else if ch == '"' then
        match makeString c with
        | .error e => .error e
        | .ok (t, c1) => lexLoop cfg n c1 (some '"') (t :: acc)
      else if ch == '>' then
        let c1 := c.adv
        if c1.atEnd || c1.cur != '=' then lexLoop cfg n c1 (some ch) (mkTok .GREATER c1 :: acc)
        else lexLoop cfg n c1.adv (some '=') (mkTok .GREATER_EQUAL c1 :: acc)
      else if ch == '<' then
        let c1 := c.adv
        if c1.atEnd || (c1.cur != '=' && c1.cur != '>' && c1.cur != '-') then
          lexLoop cfg n c1 (some ch) (mkTok .LESSER c1 :: acc)
        else if c1.cur == '=' then lexLoop cfg n c1.adv (some '=') (mkTok .LESSER_EQUAL c1 :: acc)
        else if c1.cur == '>' then lexLoop cfg n c1.adv (some '>') (mkTok .NOT_EQUALS c1 :: acc)
        else lexLoop cfg n c1.adv (some '-') (mkTok .ASSIGNMENT c1 :: acc)
      else if isAlpha ch then
        match makeWord cfg c with
        | .error e => .error e
        | .ok (t, c1) => lexLoop cfg n c1 (some 'a') (t :: acc)
      else if isDigit ch then
        let (t, c1) := makeNumber c
        lexLoop cfg n c1 (some '0') (t :: acc)
      else if ch == '\n' then one .LINE_END
      else if ch != ' ' && ch != '\t' then .error (lexErr c.line c.col)
      else lexLoop cfg n c.adv (some ch) acc

/-- `setExpr` + `makeTokens` on one source text. -/
def lex (cfg : LexCfg) (src : List Char) : Except Diag (List Tok) :=
  let s := src.filter (· != '\r')
  (lexLoop cfg (s.length + 1) (Cur.init s) none []).map List.reverse

end Pseudo
