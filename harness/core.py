#!/usr/bin/env python3
"""Core of the correspondence harness: cases, running the real interpreter and the Lean model
driver on them, canonicalisation and comparison."""
import os, sys, re, json, subprocess, tempfile, shutil, hashlib, resource, time, signal
from concurrent.futures import ThreadPoolExecutor
from dataclasses import dataclass, field

VERIF = os.path.dirname(os.path.dirname(os.path.abspath(__file__)))
LEAN_DIR = os.path.join(VERIF, "lean")
DRV = os.path.join(LEAN_DIR, ".lake", "build", "bin", "drv")
JOBS = int(os.environ.get("VERIF_JOBS", "16"))
MARK = b"\x1e"

DEFAULT_BUDGET = dict(steps=5000, depth=200, cells=20000, nest=300, fuel=100000)

@dataclass
class Case:
    id: str
    prog: bytes = b""
    stdin: bytes = b""
    mode: str = "file"          # file | repl
    ped: object = False         # False | "-p" | "--pedantic"
    files: dict = field(default_factory=dict)   # name -> ("f", bytes) | ("d",) | ("x",)
    budget: dict = field(default_factory=dict)
    meta: dict = field(default_factory=dict)    # generator bookkeeping (features, expectations)

    def key(self):
        h = hashlib.sha256()
        h.update(self.mode.encode()); h.update(str(bool(self.ped)).encode()); h.update(self.prog); h.update(b"\0"); h.update(self.stdin)
        for n in sorted(self.files):
            h.update(n.encode("latin1")); h.update(repr(self.files[n]).encode())
        return h.hexdigest()[:16]

    def to_json(self):
        return dict(id=self.id, prog=self.prog.decode("latin1"), stdin=self.stdin.decode("latin1"), mode=self.mode,
                    ped=self.ped, files={n: [v[0]] + ([v[1].decode("latin1")] if len(v) > 1 else []) for n, v in self.files.items()},
                    budget=self.budget, meta=self.meta)

    @staticmethod
    def from_json(j):
        files = {n: (v[0], v[1].encode("latin1")) if len(v) > 1 else (v[0],) for n, v in j.get("files", {}).items()}
        return Case(id=j["id"], prog=j["prog"].encode("latin1"), stdin=j.get("stdin", "").encode("latin1"), mode=j.get("mode", "file"),
                    ped=j.get("ped", False), files=files, budget=j.get("budget", {}), meta=j.get("meta", {}))

@dataclass
class Diag:
    kind: str            # syntax | runtime | pedantic
    line: int
    col: int
    msg: str = "other"
    trace: list = field(default_factory=list)   # [(name, line, col)]
    text: str = ""

    def canon(self, with_msg=False):
        t = (self.kind, self.line, self.col, tuple(self.trace)) if self.kind != "runtime" else (self.kind, tuple(self.trace))
        return t + ((self.msg,) if with_msg else ())

@dataclass
class Result:
    out: bytes = b""
    exit: int = 0
    diags: list = field(default_factory=list)
    err_other: list = field(default_factory=list)
    files: dict = field(default_factory=dict)
    inconclusive: bool = False
    crash: object = None        # None | description
    raw_err: bytes = b""
    sanitizer: object = None
    steps: int = -1
    budget_hit: bool = False

# ---------------------------------------------------------------- message classes
MSG_PATTERNS = [
    ("budget", r"VERIF budget exhausted"),
    ("indexOOB", r"Index out of bounds"),
    ("divZero", r"Division by 0|Modulus by 0"),
    ("constAssign", r"Assignment to constant"),
    ("deletedObject", r"deleted object"),
    ("uninitPointer", r"uninitalized pointer"),
    ("invalidDate", r"Invalid Date!"),
    ("notOpen", r"is not open"),
    ("alreadyOpen", r"is already open"),
    ("openFailed", r"Failed to open file|Failed to write"),
    ("notDefined", r"is not defined"),
    ("redeclared", r"Redeclaration of|Redefinition of"),
    ("condType", r"Invalid condition for"),
    ("invalidArgs", r"Invalid args"),
    ("missingReturn", r"Missing RETURN"),
    ("noMember", r"has no member"),
    ("pedBreak", r"Use of BREAK"), ("pedContinue", r"Use of CONTINUE"), ("pedElseIf", r"Use of ELSE IF"),
    ("pedCast", r"Use of type casting"), ("pedAssign", r"Assigning to undeclared"), ("pedInput", r"Reading input into undefined"),
]
MSG_RE = [(n, re.compile(p)) for n, p in MSG_PATTERNS]

def classify(text):
    for n, r in MSG_RE:
        if r.search(text):
            return n
    return "other"

RE_SYN = re.compile(r"^(Syntax Error|Error\(pedantic\)|Error) on line (\d+), column (\d+) of (.*?)(:)?$")
RE_RT = re.compile(r"^Runtime Error in file (.*?)(:)?$")
RE_FRAME = re.compile(r"^(.*), line (-?\d+), column (-?\d+)$")

def parse_stderr(text):
    """stderr text of one run / one REPL entry -> ([Diag], [other lines])"""
    lines = text.split("\n")
    diags, other = [], []
    i = 0
    while i < len(lines):
        ln = lines[i]
        m = RE_SYN.match(ln)
        if m:
            kind = {"Syntax Error": "syntax", "Error(pedantic)": "pedantic", "Error": "error"}[m.group(1)]
            body = []
            i += 1
            while i < len(lines) and not RE_SYN.match(lines[i]) and not RE_RT.match(lines[i]):
                body.append(lines[i]); i += 1
            txt = "\n".join(body)
            diags.append(Diag(kind, int(m.group(2)), int(m.group(3)), classify(txt), [], txt.strip()))
            continue
        m = RE_RT.match(ln)
        if m:
            body = []
            i += 1
            while i < len(lines) and lines[i] != "Traceback:":
                body.append(lines[i]); i += 1
            i += 1
            trace = []
            while i < len(lines):
                fm = RE_FRAME.match(lines[i])
                if fm:
                    trace.append((fm.group(1), int(fm.group(2)), int(fm.group(3)))); i += 1
                elif lines[i] != "" and not RE_SYN.match(lines[i]) and not RE_RT.match(lines[i]) and i + 0 < len(lines) and lines[i].strip() != "" and "," not in lines[i] and len(trace) > 0:
                    # frame without a position (no call in progress in that context)
                    trace.append((lines[i], 0, 0)); i += 1
                else:
                    break
            txt = "\n".join(body)
            l, c = (trace[0][1], trace[0][2]) if trace else (0, 0)
            diags.append(Diag("runtime", l, c, classify(txt), trace, txt.strip()))
            continue
        if ln.strip() != "":
            other.append(ln)
        i += 1
    return diags, other

SAN_RE = re.compile(rb"(ERROR: AddressSanitizer|ERROR: LeakSanitizer|runtime error:|AddressSanitizer:DEADLYSIGNAL|SUMMARY: \w*Sanitizer)")

# ---------------------------------------------------------------- running the real interpreter
_scratch_root = None
def scratch_root():
    global _scratch_root
    if _scratch_root is None:
        base = os.environ.get("VERIF_SCRATCH", "/tmp")
        _scratch_root = tempfile.mkdtemp(prefix="pseudo-verif-", dir=base)
    return _scratch_root

def cleanup_scratch():
    global _scratch_root
    if _scratch_root and os.path.isdir(_scratch_root):
        shutil.rmtree(_scratch_root, ignore_errors=True)
    _scratch_root = None

BANNER_RE = re.compile(rb"^PseudoEngine2 v[^\n]* REPL\nEnter '\?' for help, 'EXIT' to quit\n")

def budget_env(case):
    b = dict(DEFAULT_BUDGET); b.update(case.budget)
    return "steps=%d,depth=%d,cells=%d,nest=%d" % (b["steps"], b["depth"], b["cells"], b["nest"])

def run_real(exe, case, timeout=20, keep_dir=False):
    d = tempfile.mkdtemp(prefix="c-", dir=scratch_root())
    try:
        for name, v in case.files.items():
            p = os.path.join(d, name)
            if name.startswith("/"):
                continue
            os.makedirs(os.path.dirname(p), exist_ok=True)
            if v[0] == "d":
                os.makedirs(p, exist_ok=True)
            elif v[0] == "f":
                with open(p, "wb") as f: f.write(v[1])
        args = [exe]
        if case.ped:
            args.append(case.ped if isinstance(case.ped, str) else "-p")
        if case.mode == "file":
            with open(os.path.join(d, "prog.pseudo"), "wb") as f: f.write(case.prog)
            args.append("prog.pseudo")
        env = dict(os.environ)
        env["PSEUDO_VERIF_BUDGET"] = budget_env(case)
        env["ASAN_OPTIONS"] = "detect_leaks=0:abort_on_error=0:exitcode=77:allocator_may_return_null=1"
        env["UBSAN_OPTIONS"] = "halt_on_error=1:exitcode=78:print_stacktrace=0"
        res = Result()
        def limits():
            if "/san-" not in exe:
                try: resource.setrlimit(resource.RLIMIT_AS, (3 << 30, 3 << 30))
                except Exception: pass
        try:
            p = subprocess.run(args, input=case.stdin, cwd=d, env=env, capture_output=True, timeout=timeout, preexec_fn=limits)
            rc, out, err = p.returncode, p.stdout, p.stderr
        except subprocess.TimeoutExpired as e:
            res.crash = "timeout"; res.inconclusive = True
            rc, out, err = -999, e.stdout or b"", e.stderr or b""
        res.exit = rc
        res.raw_err = err
        if rc < 0 and rc != -999:
            res.crash = "signal %d" % (-rc)
        elif rc not in (0, 1, -999):
            res.crash = "exit %d" % rc
        if SAN_RE.search(err):
            res.sanitizer = SAN_RE.search(err).group(0).decode()
            res.crash = res.crash or "sanitizer"
        if b"std::bad_alloc" in err and b"terminate called" in err:
            # memory exhaustion beyond the stated bounds: inconclusive, not a crash
            res.crash = None; res.inconclusive = True
        elif b"terminate called" in err:
            res.crash = res.crash or "terminate"
        if case.mode == "repl":
            out = normalise_repl(exe, out, case.stdin)
            chunks = err.split(MARK)
            for ch in chunks:
                ds, other = parse_stderr(ch.decode("latin1"))
                res.diags.extend(ds); res.err_other.extend(other)
        else:
            ds, other = parse_stderr(err.decode("latin1"))
            res.diags, res.err_other = ds, other
        res.out = out
        if any(dg.msg == "budget" for dg in res.diags):
            res.inconclusive = True; res.budget_hit = True
        files = {}
        for root, dirs, fs in os.walk(d):
            for x in dirs:
                rel = os.path.relpath(os.path.join(root, x), d)
                files[rel] = ("d",)
            for x in fs:
                rel = os.path.relpath(os.path.join(root, x), d)
                if rel == "prog.pseudo": continue
                with open(os.path.join(root, x), "rb") as f:
                    files[rel] = ("f", f.read())
        res.files = files
        return res
    finally:
        if not keep_dir:
            shutil.rmtree(d, ignore_errors=True)

_PROMPTS = {}
_PROBE = b"zq1 <- 1\nzq2 <- 2\nIF TRUE THEN\nzq1 <- 3\nENDIF\n\nzq3 <- 1\n?\nzq4 <- 1\n"
STD_HELP = b"Visit https://github.com/SingularityT3/PseudoEngine2 for syntax, examples and more info\nUse `RUNFILE <filename>` to run programs stored in files\n"

def learn_prompts(exe):
    """(banner, prompt, continuation prompt, text printed for '?') of this binary's REPL, learned from a probe session; None when they cannot be
    told apart (then the historical '> ' / '. ' are assumed). The properties do not fix these texts, so the harness must not."""
    if exe in _PROMPTS: return _PROMPTS[exe]
    res = None
    d = tempfile.mkdtemp(prefix="probe-", dir=scratch_root())
    try:
        p = subprocess.run([exe], input=_PROBE, capture_output=True, cwd=d, timeout=20)
        segs = p.stdout.split(MARK)
        if len(segs) >= 6 and segs[1] and segs[3] == segs[1] and segs[5] == segs[1] and segs[0].endswith(segs[1]) and segs[2].startswith(segs[1]) and segs[4].startswith(segs[1]):
            P = segs[1]; rest = segs[2][len(P):]
            if rest and len(rest) % 3 == 0 and rest == rest[:len(rest) // 3] * 3:
                res = (segs[0][:-len(P)], P, rest[:len(rest) // 3], segs[4][len(P):])
    except Exception:
        res = None
    finally:
        shutil.rmtree(d, ignore_errors=True)
    _PROMPTS[exe] = res
    return res

def normalise_repl(exe, out, stdin):
    """REPL stdout with the banner removed and this binary's prompts replaced by the standard '> ' / '. '"""
    pr = learn_prompts(exe)
    if pr is None or (pr[1], pr[2], pr[3]) == (b"> ", b". ", STD_HELP):
        # the banner is whatever precedes the first prompt
        if pr is not None and out.startswith(pr[0]): return out[len(pr[0]):]
        k = out.find(b"> ")
        return out[k:] if k >= 0 else BANNER_RE.sub(b"", out, count=1)
    banner, P, C, H = pr
    if out.startswith(banner): out = out[len(banner):]
    from prof_expr import continuation_counts, entry_heads
    ks = continuation_counts(stdin)
    heads = entry_heads(stdin)
    segs = out.split(MARK)
    for j, sg in enumerate(segs):
        head = b""
        if sg.startswith(P) and j < len(heads) and heads[j] == b"?" and sg[len(P):] == H:
            segs[j] = b"> " + STD_HELP
            continue
        if sg.startswith(P):
            head += b"> "; sg = sg[len(P):]
            # (end of input inside a block: one more continuation prompt is printed before the end is noticed)
            for _ in range((ks[j] if j < len(ks) else 0) + (1 if j >= len(ks) - 1 else 0)):
                if sg.startswith(C): head += b". "; sg = sg[len(C):]
        segs[j] = head + sg
    return MARK.join(segs)

def run_real_many(exe, cases, timeout=20):
    with ThreadPoolExecutor(max_workers=JOBS) as ex:
        return list(ex.map(lambda c: run_real(exe, c, timeout), cases))

# ---------------------------------------------------------------- running the model driver
def _hex(b): return b.hex()

def case_lines(c):
    b = dict(DEFAULT_BUDGET); b.update(c.budget)
    out = ["CASE %s %s %d" % (c.id, c.mode, 1 if c.ped else 0)]
    out.append("P " + _hex(c.prog))
    out.append("I " + _hex(c.stdin))
    for n, v in c.files.items():
        out.append("F %s %s %s" % (_hex(n.encode("latin1")), v[0], _hex(v[1]) if len(v) > 1 else ""))
    out.append("B %d %d %d" % (b["steps"], b["depth"], b["fuel"]))
    out.append("END")
    return "\n".join(x.rstrip() for x in out) + "\n"

def _big_stack():
    try:
        resource.setrlimit(resource.RLIMIT_STACK, (resource.RLIM_INFINITY, resource.RLIM_INFINITY))
    except Exception:
        try: resource.setrlimit(resource.RLIMIT_STACK, (1 << 32, 1 << 32))
        except Exception: pass

def _run_model_chunk(cases):
    text = "".join(case_lines(c) for c in cases)
    try:
        p = subprocess.run([DRV], input=text.encode(), capture_output=True, preexec_fn=_big_stack, timeout=180 + len(cases))
        pout, perr, prc = p.stdout, p.stderr, p.returncode
    except subprocess.TimeoutExpired as e:
        pout, perr, prc = e.stdout or b"", b"model driver timed out", -999
    class _P: pass
    p = _P(); p.stdout, p.stderr, p.returncode = pout, perr, prc
    outs = {}
    for ln in p.stdout.decode().split("\n"):
        if not ln.strip(): continue
        j = json.loads(ln)
        outs[j["id"]] = j
    res = []
    for c in cases:
        j = outs.get(c.id)
        r = Result()
        if j is None:
            r.crash = "driver died (rc=%s): %s" % (p.returncode, p.stderr.decode()[-300:]); r.inconclusive = True
            res.append(r); continue
        r.out = bytes.fromhex(j["out"]); r.exit = j["exit"]
        for d in j["diags"]:
            tr = [(bytes.fromhex(f["name"]).decode("latin1"), f["line"], f["col"]) for f in d["trace"]]
            r.diags.append(Diag(d["kind"], d["line"], d["col"], d["msg"], tr))
        r.err_other = [bytes.fromhex(x).decode("latin1") for x in j["err"]]
        r.files = {}
        for f in j["fs"]:
            n = bytes.fromhex(f["name"]).decode("latin1")
            r.files[n] = ("f", bytes.fromhex(f["content"])) if f["kind"] == "f" else (f["kind"],)
        r.inconclusive = j["inconclusive"]; r.crash = j["crash"]; r.steps = j.get("steps", -1)
        res.append(r)
    return res

def run_model_many(cases):
    if not cases: return []
    n = max(1, min(JOBS, (len(cases) + 49) // 50))
    size = (len(cases) + n - 1) // n
    chunks = [cases[i:i + size] for i in range(0, len(cases), size)]
    with ThreadPoolExecutor(max_workers=JOBS) as ex:
        parts = list(ex.map(_run_model_chunk, chunks))
    return [r for p in parts for r in p]

# ---------------------------------------------------------------- comparison
WARN_RE = re.compile(rb"Warning on line (\d+) column (\d+):[^\n]*\n")
def canon_out(b):
    # the sign of a NaN is not observable in the model (Float.toBits canonicalises NaNs) and no property speaks about it
    b = b.replace(b"-nan", b"nan")
    return WARN_RE.sub(lambda m: b"\x1fW" + m.group(1) + b":" + m.group(2) + b"\n", b)

def user_files(files):
    return {n: v for n, v in files.items() if not n.startswith("/")}

def compare(real, model, what=("out", "exit", "diag", "files"), with_msg=False):
    """list of (aspect, real, model) differences; [] = agree. Inconclusive results never agree or disagree."""
    diffs = []
    if "out" in what and canon_out(real.out) != canon_out(model.out):
        diffs.append(("out", real.out, model.out))
    if "exit" in what:
        if real.exit != model.exit:
            diffs.append(("exit", real.exit, model.exit))
    if "diag" in what:
        rd = [d.canon(with_msg) for d in real.diags]
        md = [d.canon(with_msg) for d in model.diags]
        if rd != md:
            diffs.append(("diag", rd, md))
    if "diagkind" in what:
        rd = [d.kind for d in real.diags]; md = [d.kind for d in model.diags]
        if rd != md: diffs.append(("diagkind", rd, md))
    if "files" in what:
        rf, mf = user_files(real.files), user_files(model.files)
        if rf != mf:
            diffs.append(("files", rf, mf))
    return diffs

def is_abnormal(real):
    return real.crash is not None and real.crash != "timeout"
