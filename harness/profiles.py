#!/usr/bin/env python3
"""Per-property case producers, oracles and comparison settings.

PROFILES[pid] = dict(
   cases(tier, seed) -> iterator of (group name, [Case]),
   compare = aspects compared between implementation and model,
   oracle(case, real, model) -> [messages]   (model-free judgement on the real interpreter),
   nontrivial(case, real, model) -> bool, rule = text, builds = ["normal", "san"], ...)
"""
import random, itertools, os, glob, re
from core import Case
from gen import G, render, strlit, charlit

REPO = os.environ.get("VERIF_REPO", "/repo")

def rng_for(seed, pid, i=0):
    return random.Random("%s/%s/%d" % (pid, seed, i))

def sizes(tier, quick, thorough):
    return quick if tier == "quick" else thorough

def chunks(xs, n):
    for i in range(0, len(xs), n):
        yield xs[i:i + n]

def repl_case(cid, entries, ped=False, files=None, meta=None, budget=None):
    """a REPL session: one entry per element; multi-line entries are closed by an empty line"""
    text = b""
    for e in entries:
        if isinstance(e, str): e = e.encode("latin1")
        text += e + b"\n"
        if b"\n" in e or is_block_start(e):
            text += b"\n"
    return Case(id=cid, mode="repl", stdin=text, ped=ped, files=files or {}, meta=meta or {}, budget=budget or {})

BLOCK_KW = [b"IF", b"CASE", b"WHILE", b"REPEAT", b"FOR", b"PROCEDURE", b"FUNCTION", b"TYPE"]
def is_block_start(e):
    for k in BLOCK_KW:
        if e.startswith(k):
            rest = e[len(k):len(k) + 1]
            if rest == b"" or not (rest.isalnum() or rest == b"_"):
                if k == b"TYPE" and b"=" in e: return False
                return True
    return False

def corpus_programs():
    out = []
    for p in sorted(glob.glob(os.path.join(REPO, "tests", "*.pseudo")) + glob.glob(os.path.join(REPO, "examples", "*.pseudo"))):
        try: out.append((os.path.basename(p), open(p, "rb").read()))
        except OSError: pass
    return out

def gen_program(seed, pid, i, **opts):
    r = rng_for(seed, pid, i)
    for attempt in range(5):
        g = G(r, **opts)
        try:
            lines = g.program()
            return g, lines
        except (RecursionError, KeyError, IndexError, TypeError, ValueError):
            continue
    g = G(r, **opts); g.emit("OUTPUT", "1")
    return g, g.lines

def generic_cases(pid, n, seed, stdin=b"12\nabc\nTRUE\n3.5\nx\n", **opts):
    cs = []
    for i in range(n):
        g, lines = gen_program(seed, pid, i, **opts)
        cs.append(Case(id="%s-g%d" % (pid, i), prog=render(lines), stdin=stdin, meta=dict(features=sorted(g.features))))
    return cs

def ran_something(c, r, m):
    return len(r.out) > 0 or bool(r.diags)

PROFILES = {}

def generic_profile(pid, rule, nq=400, nt=6000, **opts):
    def cases(tier, seed):
        n = sizes(tier, nq, nt)
        for k, ch in enumerate(chunks(generic_cases(pid, n, seed, **opts), 500)):
            yield ("generator", ch)
    return dict(cases=cases, nontrivial=ran_something, rule=rule)

import prof_expr, prof_flow, prof_data, prof_files, prof_lang
for mod in (prof_expr, prof_flow, prof_data, prof_files, prof_lang):
    PROFILES.update(mod.build(globals()))
