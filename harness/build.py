#!/usr/bin/env python3
"""Build the interpreter from /repo's current working tree (hooks on).

The build is keyed by a hash of every file under /repo/src plus CMakeLists.txt and
the compiler flags; an existing build with the same key is reused, any edit to the
sources produces a new key and therefore a rebuild from the working tree.
"""
import hashlib, os, subprocess, sys, shutil, time, fcntl, re
from concurrent.futures import ThreadPoolExecutor

VERIF = os.path.dirname(os.path.dirname(os.path.abspath(__file__)))
REPO = os.environ.get("VERIF_REPO", "/repo")
CACHE = os.path.join(VERIF, ".cache", "builds")
GUARD = "PSEUDOENGINE2_VERIF"

FLAGS = {
    "normal": ["-O1", "-g0"],
    "san": ["-O1", "-g", "-fsanitize=address,undefined", "-fno-sanitize-recover=all",
            "-fno-sanitize=signed-integer-overflow,float-cast-overflow", "-fno-omit-frame-pointer"],
    "nohook": ["-O1", "-g0"],
}

def sources():
    out = []
    for root, _, files in os.walk(os.path.join(REPO, "src")):
        for f in sorted(files):
            out.append(os.path.join(root, f))
    return sorted(out)

def cmake_sources():
    txt = open(os.path.join(REPO, "CMakeLists.txt")).read()
    srcs = re.findall(r"^\s*(src/\S+\.cpp)\s*$", txt, re.M)
    return srcs

def version():
    txt = open(os.path.join(REPO, "CMakeLists.txt")).read()
    m = re.search(r"project\(\s*\S+\s+VERSION\s+(\d+)\.(\d+)\.(\d+)", txt)
    return m.groups() if m else ("0", "0", "0")

def tree_key(kind):
    h = hashlib.sha256()
    h.update(kind.encode()); h.update(" ".join(FLAGS[kind]).encode())
    for p in sources() + [os.path.join(REPO, "CMakeLists.txt")]:
        h.update(p.encode()); h.update(b"\0")
        with open(p, "rb") as f: h.update(f.read())
        h.update(b"\0")
    return h.hexdigest()[:20]

def build(kind="normal", verbose=False):
    """returns path of the binary"""
    key = tree_key(kind)
    d = os.path.join(CACHE, f"{kind}-{key}")
    exe = os.path.join(d, "PseudoEngine2")
    os.makedirs(CACHE, exist_ok=True)
    lock = open(os.path.join(CACHE, f".lock-{kind}"), "w")
    fcntl.flock(lock, fcntl.LOCK_EX)
    try:
        if os.path.exists(exe) and os.path.exists(os.path.join(d, ".ok")):
            os.utime(d)
            return exe
        t0 = time.time()
        shutil.rmtree(d, ignore_errors=True)
        os.makedirs(os.path.join(d, "obj"))
        maj, mi, pa = version()
        with open(os.path.join(d, "PsConfig.h"), "w") as f:
            f.write(f"#pragma once\n#define PseudoEngine2_VERSION_MAJOR {maj}\n#define PseudoEngine2_VERSION_MINOR {mi}\n#define PseudoEngine2_VERSION_PATCH {pa}\n")
        srcs = cmake_sources()
        base = ["g++", "-std=c++20", "-w", f"-I{REPO}/src", f"-I{d}"] + FLAGS[kind]
        if kind != "nohook":
            base.append(f"-D{GUARD}")
        objs = []
        def cc(src):
            o = os.path.join(d, "obj", src.replace("/", "_") + ".o")
            r = subprocess.run(base + ["-c", os.path.join(REPO, src), "-o", o], capture_output=True, text=True)
            return src, o, r
        with ThreadPoolExecutor(max_workers=int(os.environ.get("VERIF_JOBS", "16"))) as ex:
            res = list(ex.map(cc, srcs))
        errs = [(s, r.stderr) for s, o, r in res if r.returncode != 0]
        if errs:
            msg = "\n".join(f"--- {s}\n{e}" for s, e in errs[:5])
            raise RuntimeError("interpreter build failed:\n" + msg)
        objs = [o for _, o, _ in res]
        r = subprocess.run(base + objs + ["-o", exe], capture_output=True, text=True)
        if r.returncode != 0:
            raise RuntimeError("interpreter link failed:\n" + r.stderr)
        shutil.rmtree(os.path.join(d, "obj"), ignore_errors=True)
        open(os.path.join(d, ".ok"), "w").write(str(time.time() - t0))
        if verbose:
            print(f"[build] {kind} built in {time.time()-t0:.1f}s -> {exe}", file=sys.stderr)
        prune(kind, keep=d)
        return exe
    finally:
        fcntl.flock(lock, fcntl.LOCK_UN)
        lock.close()

def prune(kind, keep, n=3):
    ds = [os.path.join(CACHE, x) for x in os.listdir(CACHE) if x.startswith(kind + "-")]
    ds.sort(key=lambda p: os.path.getmtime(p), reverse=True)
    now = time.time()
    for p in ds[n:]:
        # never remove a build that was used in the last half hour: a check running on another tree may still be using it
        if p != keep and now - os.path.getmtime(p) > 1800:
            shutil.rmtree(p, ignore_errors=True)

if __name__ == "__main__":
    kinds = sys.argv[1:] or ["normal"]
    for k in kinds:
        print(build(k, verbose=True))
