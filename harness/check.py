#!/usr/bin/env python3
"""Entry point of every registered check:  python3 harness/check.py <Cxx> [--tier quick|thorough] [--replay file]

1. Lean side: `lake build` (model, proofs, driver), hygiene scan, axiom audit of Properties.<id>.
2. Tie to the source: rebuild the interpreter from /repo's working tree (hooks on; sanitizer build when
   the property needs it), regenerate the tables from the C++ and compare them with the model's.
3. Correspondence: the property's cases (corpus first, then enumerators, then the seeded generator) run
   on the real interpreter and on the model driver; canonicalised observables are compared and the
   property's model-free oracle is applied to the real interpreter's behaviour.
4. Verdict, replay file, evidence.
"""
import sys, os, json, time, argparse, hashlib, re, subprocess, traceback, random
sys.path.insert(0, os.path.dirname(os.path.abspath(__file__)))
import core, build, leancheck, findings, shrink
from core import Case, compare

VERIF = core.VERIF

def load_profile(pid):
    import profiles
    return profiles.PROFILES[pid]

def write_replay(pid, kind, payload):
    d = os.path.join(VERIF, "replays")
    os.makedirs(d, exist_ok=True)
    h = hashlib.sha256(json.dumps(payload, sort_keys=True, default=str).encode()).hexdigest()[:12]
    p = os.path.join(d, "%s-%s%s.json" % (pid, "unproved-" if kind == "unproved" else "", h))
    with open(p, "w") as f:
        json.dump(payload, f, indent=1, default=lambda o: o.decode("latin1") if isinstance(o, bytes) else str(o))
    return p

def describe(case, real, model, diffs, oracle_msgs):
    return dict(case=case.to_json(),
                real=dict(out=real.out.decode("latin1"), exit=real.exit, crash=real.crash, sanitizer=real.sanitizer,
                          diags=[d.__dict__ for d in real.diags], stderr=real.raw_err.decode("latin1")[-4000:],
                          files={k: (v[0], v[1].decode("latin1") if len(v) > 1 else "") for k, v in real.files.items()}),
                model=None if model is None else dict(out=model.out.decode("latin1"), exit=model.exit, crash=model.crash,
                          diags=[d.__dict__ for d in model.diags],
                          files={k: (v[0], v[1].decode("latin1") if len(v) > 1 else "") for k, v in model.files.items()}),
                differences=[(a, repr(x)[:2000], repr(y)[:2000]) for a, x, y in diffs],
                oracle=oracle_msgs)

class Runner:
    def __init__(self, pid, tier, seed):
        self.pid, self.tier, self.seed = pid, tier, seed
        self.profile = load_profile(pid)
        self.exes = {}
        self.stats = dict(evaluations=0, nontrivial=set(), inconclusive=0, with_diag=0, sanitizer_runs=0,
                          disagreements=0, oracle_failures=0, by_group={}, diag_kinds={}, msg_kinds={})
        self.samples = []
        self.violations = []       # (kind, replay path, text)
        self.known_hits = []

    def exe(self, kind):
        if kind not in self.exes:
            self.exes[kind] = build.build(kind)
        return self.exes[kind]

    # -------------------------------------------------------------- one batch of cases
    def run_batch(self, cases, group):
        prof = self.profile
        builds = prof.get("builds", ["normal"])
        if self.tier == "quick": builds = prof.get("builds_quick", builds)
        what = prof.get("compare", ("out", "exit", "diag", "files"))
        models = core.run_model_many(cases) if prof.get("use_model", True) else [None] * len(cases)
        reals = {b: core.run_real_many(self.exe(b), cases, timeout=prof.get("timeout", 20)) for b in builds}
        g = self.stats["by_group"].setdefault(group, dict(cases=0, nontrivial=0, inconclusive=0, disagreements=0))
        for i, c in enumerate(cases):
            m = models[i]
            nunits = len(c.meta.get("units", [1]))
            self.stats["evaluations"] += nunits; g["cases"] += nunits
            for b in builds:
                r = reals[b][i]
                if b == "san": self.stats["sanitizer_runs"] += 1
                for d in r.diags:
                    self.stats["diag_kinds"][d.kind] = self.stats["diag_kinds"].get(d.kind, 0) + 1
                    self.stats["msg_kinds"][d.msg] = self.stats["msg_kinds"].get(d.msg, 0) + 1
                if r.diags: self.stats["with_diag"] += 1
                self.judge(c, b, r, m, what, g)
            if len(self.samples) < 6 and (i % max(1, len(cases) // 3) == 0):
                self.samples.append(dict(group=group, mode=c.mode, pedantic=bool(c.ped),
                                         program=c.prog.decode("latin1")[:600], stdin=c.stdin.decode("latin1")[:300],
                                         real_stdout=reals[builds[0]][i].out.decode("latin1")[:300],
                                         real_exit=reals[builds[0]][i].exit))

    def judge(self, c, b, r, m, what, g):
        prof = self.profile
        inconclusive = r.inconclusive or (m is not None and m.inconclusive)
        # abnormal termination of the real interpreter is a violation of every property that watches it
        oracle_msgs = []
        if prof.get("no_crash", True) and r.crash is not None and r.crash != "timeout":
            oracle_msgs.append("abnormal termination of the interpreter (%s build): %s" % (b, r.crash))
        if r.crash == "timeout":
            inconclusive = True
        if inconclusive and not oracle_msgs:
            # the real interpreter ran out of its step budget although the model finishes the same program well inside it:
            # a divergence (e.g. a loop that no longer terminates), not an inconclusive case
            lim = dict(core.DEFAULT_BUDGET, **c.budget)["steps"]
            # (not for programs whose control flow depends on RAND / the clock: their two runs are not comparable)
            nondet = tuple(c.meta.get("compare", what)) == () or re.search(rb"RAND|TODAY|TIME|HOURS|MINUTES|SECONDS", c.prog or b"") is not None
            steps_hit = any(dg.msg == "budget" and "steps" in (dg.text or "") for dg in r.diags)   # the cell / depth / nesting budgets have no counterpart in the model's step count
            if c.mode == "file" and r.budget_hit and steps_hit and not nondet and m is not None and not m.inconclusive and not m.crash and 0 <= m.steps < lim // 4:
                self.stats["disagreements"] += 1; g["disagreements"] += 1
                self.report(c, b, r, m, [("termination", "real interpreter exhausted the step budget (%d)" % lim, "model finished after %d steps" % m.steps)], [])
                return
            self.stats["inconclusive"] += 1; g["inconclusive"] += 1
            return
        orc = prof.get("oracle")
        if orc and not oracle_msgs:
            try:
                oracle_msgs += orc(c, r, m) or []
            except Exception as e:
                oracle_msgs.append("oracle raised %r" % (e,))
        diffs = []
        if m is not None and not oracle_msgs:
            if m.crash:
                diffs = [("model-crash-point", r.exit, m.crash)]
            else:
                w = c.meta.get("compare", what)
                diffs = compare(r, m, w)
        nt = prof.get("nontrivial")
        try:
            is_nt = nt(c, r, m) if nt else True
        except Exception:
            is_nt = False
        if is_nt:
            units = c.meta.get("units")
            keys = [c.key()] if not units else [hash((c.meta.get("ukey", ""), u)) for u in units]
            for k in keys:
                if k not in self.stats["nontrivial"]:
                    self.stats["nontrivial"].add(k); g["nontrivial"] += 1
        if not oracle_msgs and not diffs:
            return
        if oracle_msgs: self.stats["oracle_failures"] += 1
        if diffs: self.stats["disagreements"] += 1; g["disagreements"] += 1
        self.report(c, b, r, m, diffs, oracle_msgs)

    def report(self, c, b, r, m, diffs, oracle_msgs):
        if len(self.violations) >= 25 or len(self.known_hits) >= 60:
            return
        # minimise
        prof = self.profile
        what = c.meta.get("compare", prof.get("compare", ("out", "exit", "diag", "files")))
        exe = self.exe(b)
        orig_decisive = {a for a, _, _ in diffs if a in prof.get("model_is_oracle", ())}
        def still(cc):
            rr = core.run_real(exe, cc, timeout=prof.get("timeout", 20))
            if oracle_msgs:
                if rr.crash is not None and rr.crash != "timeout" and prof.get("no_crash", True): return True
                orc = prof.get("oracle")
                if orc:
                    mm = core.run_model_many([cc])[0] if prof.get("use_model", True) else None
                    try: return bool(orc(cc, rr, mm))
                    except Exception: return False
                return False
            mm = core.run_model_many([cc])[0]
            if rr.inconclusive or mm.inconclusive: return False
            dd = compare(rr, mm, what)
            # keep the kind of disagreement: a difference in what the property fixes must not shrink into a mere difference of diagnostics
            if orig_decisive: return any(a in orig_decisive for a, _, _ in dd)
            return bool(dd)
        small = c
        if prof.get("shrink", True) and not c.meta.get("noshrink"):
            try: small = shrink.shrink_case(c, still, max_tests=120)
            except Exception: small = c
        r2 = core.run_real(exe, small, timeout=prof.get("timeout", 20))
        m2 = core.run_model_many([small])[0] if prof.get("use_model", True) else None
        if not oracle_msgs and prof.get("no_crash", True) and r2.crash is not None and r2.crash != "timeout":
            oracle_msgs = ["abnormal termination of the interpreter (%s build): %s" % (b, r2.crash)]
        d2 = compare(r2, m2, what) if (m2 is not None and not oracle_msgs and not m2.crash) else diffs
        payload = describe(small, r2, m2, d2, oracle_msgs)
        payload.update(property=self.pid, build=b, seed=self.seed, tier=self.tier, original_id=c.id)
        kf = findings.match(self.pid, small, r2, m2, oracle_msgs, d2)
        if kf:
            self.known_hits.append((kf, small))
            return
        decisive = [a for a, _, _ in (d2 or diffs) if a in prof.get("model_is_oracle", ())]
        if not oracle_msgs and decisive:
            # for this property the proven model is the oracle of these observables: the disagreeing input is a failing input
            oracle_msgs = ["the real interpreter's %s differ(s) from the Lean model's on this input; the model satisfies the property by the theorems of Properties/%s*.lean and these observables are what the property fixes" % ("/".join(decisive), self.pid)]
            payload["oracle"] = oracle_msgs
        if oracle_msgs:
            path = write_replay(self.pid, "violation", payload)
            self.violations.append(("oracle", path, oracle_msgs[0]))
        else:
            # correspondence disagreement: the property is no longer shown to hold; look for a failing input
            payload["broken"] = "correspondence model/implementation on aspect(s) %s" % ",".join(a for a, _, _ in d2 or diffs)
            path = write_replay(self.pid, "unproved", payload)
            self.violations.append(("correspondence", path, payload["broken"]))

def main():
    ap = argparse.ArgumentParser()
    ap.add_argument("pid")
    ap.add_argument("--tier", default=os.environ.get("VERIF_TIER", "quick"))
    ap.add_argument("--replay")
    args = ap.parse_args()
    pid = args.pid
    tier = args.tier if args.tier in ("quick", "thorough") else "quick"
    seed = int(os.environ.get("VERIF_SEED", "1"))
    t0 = time.time()
    if args.replay:
        return replay(pid, args.replay)
    status = 0
    lines = []
    # ---------------------------------------------------------------- 1. Lean side
    if os.environ.get("VERIF_DEV"):
        lean = dict(obligations=1, discharged=1, theorems=[], axioms={}, broken=[], checker_cmd="(dev run: Lean side skipped)", trusted_base=[], log="")
    else:
        lean = leancheck.run(pid, thorough=(tier == "thorough"))
    broken = list(lean["broken"])
    # ---------------------------------------------------------------- 2/3. implementation side
    runner = Runner(pid, tier, seed)
    err = None
    try:
        prof = runner.profile
        for group, cases in prof["cases"](tier, seed):
            tg = time.time()
            runner.run_batch(cases, group)
            if os.environ.get("VERIF_VERBOSE"): print("  [%s] %d cases %.1fs" % (group, len(cases), time.time() - tg), file=sys.stderr)
            if len(runner.violations) >= 8: break
        if broken and not any(k == "oracle" for k, _, _ in runner.violations):
            # a proof obligation is broken: search harder for a failing input
            for group, cases in prof["cases"]("thorough", seed + 7919):
                runner.run_batch(cases, group + "-search")
                if any(k == "oracle" for k, _, _ in runner.violations) or time.time() - t0 > 1500: break
    except Exception as e:
        err = traceback.format_exc()
    finally:
        core.cleanup_scratch()
    # ---------------------------------------------------------------- 4. verdict
    for kf, c in runner.known_hits:
        pass
    printed_known = set()
    for kf, c in runner.known_hits:
        if kf["id"] not in printed_known:
            printed_known.add(kf["id"])
            print("KNOWN-FINDING: property=%s %s" % (pid, kf["what"]))
    oracle_v = [(k, p, t) for k, p, t in runner.violations if k == "oracle"]
    corr_v = [(k, p, t) for k, p, t in runner.violations if k == "correspondence"]
    if err:
        print(err, file=sys.stderr)
        p = write_replay(pid, "unproved", dict(property=pid, broken="the check itself failed to run", error=err))
        print("VIOLATION property=%s replay=%s no-failing-input-found" % (pid, p)); status = 1
    for k, p, t in oracle_v[:5]:
        print("VIOLATION property=%s replay=%s" % (pid, p)); status = 1
    if not oracle_v:
        for k, p, t in corr_v[:5]:
            print("VIOLATION property=%s replay=%s no-failing-input-found" % (pid, p)); status = 1
        if broken and not corr_v:
            p = write_replay(pid, "unproved", dict(property=pid, broken=broken, lean_log=lean.get("log", "")[-6000:]))
            print("VIOLATION property=%s replay=%s no-failing-input-found" % (pid, p)); status = 1
    # ---------------------------------------------------------------- 5. evidence
    st = runner.stats
    prof = runner.profile
    ev = dict(
        property_id=pid, tier=tier, seed=seed, level="proof",
        coverage=dict(
            obligations=lean["obligations"], discharged=lean["discharged"],
            checker_cmd=lean["checker_cmd"],
            trusted_base=lean["trusted_base"] + prof.get("trusted", []),
            theorems=lean["theorems"], axioms=lean["axioms"], tables=lean.get("tables", {}),
            evaluations=st["evaluations"], distinct_nontrivial=len(st["nontrivial"]),
            rule=prof.get("rule", ""), samples=runner.samples[:6],
            traces_validated_against_impl=st["evaluations"] - st["inconclusive"],
            disagreements_checked=st["disagreements"], oracle_failures=st["oracle_failures"],
            inconclusive=st["inconclusive"], cases_with_diagnostic=st["with_diag"],
            sanitizer_runs=st["sanitizer_runs"], groups=st["by_group"],
            diagnostic_kinds=st["diag_kinds"], message_classes=st["msg_kinds"],
            exhaustive=False,
            explanation=prof.get("explanation", "")),
        assumptions=prof.get("assumptions", []),
        wall_s=round(time.time() - t0, 1),
        violations=len(oracle_v) + len(corr_v) + (1 if broken and not corr_v and not oracle_v else 0),
        known_findings=sorted(printed_known))
    evdir = os.path.join(VERIF, "evidence") if not os.environ.get("VERIF_DEV") else os.path.join(os.environ.get("VERIF_SCRATCH", "/tmp"), "verif-dev-evidence")
    os.makedirs(evdir, exist_ok=True)
    with open(os.path.join(evdir, pid + ".json"), "w") as f:
        json.dump(ev, f, indent=1, default=str)
    print("%s tier=%s seed=%d: %d cases, %d non-trivial, %d inconclusive, %d disagreements, %d oracle failures, lean %d/%d, %.0fs" % (
        pid, tier, seed, st["evaluations"], len(st["nontrivial"]), st["inconclusive"], st["disagreements"], st["oracle_failures"],
        lean["discharged"], lean["obligations"], time.time() - t0))
    sys.exit(status)

def replay(pid, path):
    j = json.load(open(path))
    if "case" not in j:
        print(json.dumps(j, indent=1)[:4000]); return
    c = Case.from_json(j["case"])
    b = j.get("build", "normal")
    exe = build.build(b)
    r = core.run_real(exe, c)
    m = core.run_model_many([c])[0]
    print("--- program"); print(c.prog.decode("latin1"))
    print("--- stdin"); print(c.stdin.decode("latin1"))
    print("--- real: exit", r.exit, "crash", r.crash); print(r.out.decode("latin1")); print(r.raw_err.decode("latin1")[-2000:])
    print("--- model: exit", m.exit, "crash", m.crash); print(m.out.decode("latin1")); print([d.__dict__ for d in m.diags])
    print("--- differences", compare(r, m))
    core.cleanup_scratch()

if __name__ == "__main__":
    main()
