#!/usr/bin/env python3
"""C01 robustness, C10 layout, C11 diagnostics, C12 REPL."""
import itertools, random, re
from core import Case, MARK

VOCAB = ["1", "23", "4.5", "'c'", '"s"', "1/2/2003", ")", "(", "+", "-", "*", "/", "DIV", "MOD", "&", "<-", ":", ",", "=", "<>", ">", "<", ">=", "<=",
         "AND", "OR", "NOT", "TRUE", "FALSE", "DECLARE", "CONSTANT", "x", "y", "INTEGER", "STRING", "DATE", "ARRAY", "[", "]", "TYPE", "ENDTYPE", "^", ".",
         "IF", "THEN", "ELSE", "ENDIF", "CASE", "OF", "OTHERWISE", "ENDCASE", "WHILE", "DO", "ENDWHILE", "REPEAT", "UNTIL", "FOR", "TO", "STEP", "NEXT",
         "BREAK", "CONTINUE", "PROCEDURE", "BYREF", "BYVAL", "ENDPROCEDURE", "CALL", "FUNCTION", "ENDFUNCTION", "RETURNS", "RETURN", "OUTPUT", "INPUT",
         "OPENFILE", "READFILE", "WRITEFILE", "CLOSEFILE", "READ", "WRITE", "APPEND", "RANDOM", "SEEK", "GETRECORD", "PUTRECORD",
         "LENGTH", "arr", "rec", "ptr", "Col", "Red", "P", "F", "99999999999999999999", "1.", "0", '""', "//c", "#", "REAL", "BOOLEAN", "CHAR", "PRINT", "EOF", "f.txt"]

def build(P):
    repl_case, sizes, chunks, rng_for = P["repl_case"], P["sizes"], P["chunks"], P["rng_for"]
    G, render, strlit, gen_program, corpus_programs = P["G"], P["render"], P["strlit"], P["gen_program"], P["corpus_programs"]

    SETUP = ["DECLARE x : INTEGER", "y <- \"str\"", "DECLARE arr : ARRAY[1:3] OF INTEGER", "TYPE Col = (Red, Green)", "TYPE Rc\nDECLARE fld : INTEGER\nENDTYPE", "DECLARE rec : Rc",
             "TYPE Pp = ^INTEGER", "DECLARE ptr : Pp", "PROCEDURE P(a : INTEGER)\nOUTPUT a\nENDPROCEDURE", "FUNCTION F(a : INTEGER) RETURNS INTEGER\nRETURN a + 1\nENDFUNCTION"]

    def mutate(r, prog):
        """byte- and token-level mutations and splices"""
        b = bytearray(prog)
        k = r.random()
        if k < 0.35 and b:
            for _ in range(r.randint(1, 3)):
                if not b: break
                i = r.randrange(len(b))
                c = r.random()
                if c < 0.4: b[i] = r.choice(b"()[]<>-=+*/&^.,:'\"\\ \n\t#09azAZ\x00\x80\xff")
                elif c < 0.7: del b[i]
                else: b.insert(i, r.choice(b"()[]<-=\"'\n 0a^."))
            return bytes(b)
        toks = re.findall(rb"\"[^\"\n]*\"|'[^'\n]*'|[A-Za-z_][A-Za-z0-9_]*|\d+(?:[./]\d+)*|<-|<=|>=|<>|\n|\S", prog)
        if not toks: return prog
        for _ in range(r.randint(1, 3)):
            if not toks: break
            i = r.randrange(len(toks))
            c = r.random()
            if c < 0.3: del toks[i]
            elif c < 0.5: toks.insert(i, toks[i])
            elif c < 0.8: toks[i] = r.choice(VOCAB).encode()
            elif i + 1 < len(toks): toks[i], toks[i + 1] = toks[i + 1], toks[i]
            if not toks: break
        out = b""
        for t in toks:
            out += t if t == b"\n" else t + b" "
        return out

    def c01_cases(tier, seed):
        r = rng_for(seed, "C01")
        corpus = [p for _, p in corpus_programs()]
        for i in range(sizes(tier, 40, 300)):
            g, lines = gen_program(seed, "C01", i, max_depth=3, files=False)
            corpus.append(render(lines))
        # (a) mutants and splices, file mode and pedantic
        cases = []
        for i in range(sizes(tier, 2500, 120000)):
            base = r.choice(corpus)
            if len(base) > 2048:
                ls = base.split(b"\n"); s = r.randrange(max(1, len(ls) - 20)); base = b"\n".join(ls[s:s + r.randint(5, 40)]) + b"\n"
            if r.random() < 0.15:
                other = r.choice(corpus).split(b"\n"); ls = base.split(b"\n")
                base = b"\n".join(ls[:r.randrange(len(ls) + 1)] + other[r.randrange(len(other)):][:20]) + b"\n"
            prog = mutate(r, base)[:2048]
            stdin = r.choice([b"", b"5\n", b"abc\n\n\n", b"\xff\x00\n" + b"9" * 40 + b"\n", b"TRUE\n1.5\nx\n", b"no newline at end"])
            nondet = re.search(rb"RAND|TODAY|TIME|HOURS|MINUTES|SECONDS", prog) is not None
            cases.append(Case(id="C01-mut-%d" % i, prog=prog, stdin=stdin, ped=r.choice([False, False, "-p"]), files={"tests/data.txt": ("f", b"l1\nl2\n"), "f.txt": ("f", b"text\n")},
                              meta=dict(compare=()) if nondet else {}))
        for ch in chunks(cases, 500):
            yield ("mutants", ch)
        # (a2) every call form of the C04 call matrix (refused arguments included), normal and sanitizer build
        import prof_flow
        cm = prof_flow.CALL_MATRIX()
        yield ("call-matrix", [Case(id="C01-call-%d" % i, prog=(sp + "\n").encode(), meta=dict(units=["call/%d" % i])) for i, sp in enumerate(cm)])
        # (a3) the cast matrix of C17 (every cast target x values of every type), normal and sanitizer build, REPL and file mode
        import prof_expr
        cmx = prof_expr.CAST_MATRIX()
        yield ("cast-matrix", [repl_case("C01-cast-%d" % k, prof_expr.CAST_SETUP + ch, meta=dict(units=ch)) for k, ch in enumerate(chunks(cmx, 300))]
                              + [Case(id="C01-castf-%d" % i, prog=("\n".join(prof_expr.CAST_SETUP + ["OUTPUT \"before\"", "OUTPUT " + e if "<-" not in e else e, "OUTPUT \"after\""]) + "\n").encode(), meta=dict(units=["castf/%d" % i]))
                                 for i, e in enumerate(cmx) if "<-" not in e and (i % 3 == 0 or tier == "thorough")])
        # (a5) the pointer shapes of C09 (live, unset, dead targets; later calls re-using the stack), normal and sanitizer build
        import prof_data
        yield ("pointer-shapes", [Case(id="C01-ptr-%d" % i, prog=(sp + "\n").encode(), meta=dict(units=["ptr/%d" % i])) for i, sp in enumerate(prof_data.C09_SHAPES_FN())])
        # (a4) every file statement and EOF in every handle state (closed / READ / WRITE / APPEND / RANDOM; file present or absent), file mode
        fsm = []
        states = {"closed": [], "READ": ["OPENFILE \"m.txt\" FOR READ"], "WRITE": ["OPENFILE \"m.txt\" FOR WRITE"], "APPEND": ["OPENFILE \"m.txt\" FOR APPEND"], "RANDOM": ["OPENFILE \"m.txt\" FOR RANDOM"]}
        ops = ["OUTPUT EOF(\"m.txt\")", "READFILE \"m.txt\", line", "WRITEFILE \"m.txt\", \"w\"", "SEEK \"m.txt\", 1", "SEEK \"m.txt\", 9", "GETRECORD \"m.txt\", line", "PUTRECORD \"m.txt\", line", "CLOSEFILE \"m.txt\"",
               "OPENFILE \"m.txt\" FOR READ", "OPENFILE \"m.txt\" FOR WRITE", "OPENFILE \"m.txt\" FOR RANDOM", "OUTPUT EOF(\"other.txt\")", "OUTPUT EOF(5)", "OUTPUT EOF(\"\")"]
        for stn, pre in states.items():
            for op in ops:
                for present in (True, False):
                    prog = "\n".join(["DECLARE line : STRING", "line <- \"v\""] + pre + ["OUTPUT \"before\"", op, "OUTPUT \"after\"", op, "OUTPUT \"twice\""]) + "\n"
                    fsm.append(Case(id="C01-fsm-%s-%d-%d" % (stn, ops.index(op), present), prog=prog.encode(), files=({"m.txt": ("f", b"STRING 1 a\nline2\n")} if present else {}), meta=dict(units=["fsm/%s/%s/%s" % (stn, op, present)])))
        yield ("file-state-matrix", fsm)
        # (b) token sequences up to length 3 over the vocabulary, as REPL entries
        seqs = [[a] for a in VOCAB] + [[a, b] for a in VOCAB for b in VOCAB]
        n3 = sizes(tier, 12000, 400000)
        if n3 >= len(VOCAB) ** 3:
            seqs += [[a, b, c] for a in VOCAB for b in VOCAB for c in VOCAB]
        else:
            seqs += [[r.choice(VOCAB), r.choice(VOCAB), r.choice(VOCAB)] for _ in range(n3)]
        if tier == "quick":
            seqs = seqs[:len(VOCAB)] + r.sample(seqs[len(VOCAB):len(VOCAB) + len(VOCAB) ** 2], 5000) + seqs[len(VOCAB) + len(VOCAB) ** 2:]
        ents = [" ".join(s) for s in seqs]
        k = 0
        for ch in chunks(ents, 250):
            # every entry is followed by an empty line so that block starters end; INPUT entries consume the next line
            body = []
            for e in ch: body += [e, "", ""]
            k += 1
            ped = "-p" if k % 5 == 0 else False
            yield ("token-sequences", [Case(id="C01-seq-%d" % k, mode="repl", ped=ped, stdin=("\n".join(SETUP_LINES + body) + "\n").encode("latin1"),
                                            files={"f.txt": ("f", b"text\n")}, meta=dict(units=ch, noshrink=False))])
        # (b2) every built-in function on boundary arguments of its parameter types (and of wrong types)
        import extract
        try:
            bl = extract.builtins()
        except Exception:
            bl = []
        POOL = {"int": ["0", "1", "- 1", "2", "255", "256", "9223372036854775807", "- 9223372036854775807", "(- 9223372036854775807 - 1)", "2147483648"],
                "real": ["0.0", "1.0", "- 1.0", "0.5", "- 0.0", "1000000000000000000000.0", "0.0000001", "1.0 / 3"],
                "str": ['""', '"a"', '"abc"', '"12"', '" "', '"1e5"', '"-"'], "chr": ["'a'", "' '", "CHR(0)", "CHR(255)", "'9'"],
                "date": ["1/1/2000", "29/2/2024", "31/12/9999"], "bool": ["TRUE", "FALSE"]}
        ents = []
        for name, ps, ret in bl:
            combos = list(itertools.product(*[POOL[t] for _, t in ps])) if ps else [()]
            if len(combos) > 150: combos = r.sample(combos, 150)
            for c in combos:
                ents.append("%s(%s)" % (name, ", ".join(c)))
            # wrong arity / wrong types
            ents.append("%s(%s)" % (name, ", ".join(["1"] * (len(ps) + 1))))
            if ps: ents.append("%s(%s)" % (name, ", ".join(['"x"' if t != "str" else "1" for _, t in ps])))
        k = 0
        for ch in chunks(ents, 300):
            k += 1
            yield ("builtin-boundaries", [repl_case("C01-bi-%d" % k, ch, files={"f.txt": ("f", b"text\n")}, meta=dict(units=ch, compare=("diagkind",)))])
        # (c) stdin shapes
        cases = []
        for i, (prog, stdin) in enumerate(itertools.product(
                [b"INPUT a\nOUTPUT a\n", b"DECLARE n : INTEGER\nINPUT n\nOUTPUT n\n", b"DECLARE c : CHAR\nINPUT c\nOUTPUT ASC(c)\n", b"DECLARE r : REAL\nINPUT r\nOUTPUT r\n", b"DECLARE b : BOOLEAN\nREAD b\nOUTPUT b\n", b"INPUT a\nINPUT b\nINPUT c\nOUTPUT a & b & c\n"],
                [b"", b"\n", b"x", b"x\n", b"\xff\xfe\n", b"9" * 5000 + b"\n", b"1e999\n", b"-0\n", b" \t \n", b"\x00\n", b"12\r\n", b"0x10\n", b"nan\ninf\n"])):
            cases.append(Case(id="C01-stdin-%d" % i, prog=prog, stdin=stdin))
        yield ("stdin", cases)
        # (d) pre-existing files opened FOR READ / RANDOM with arbitrary contents
        valid = [b"INTEGER 5", b"REAL 2.5", b"BOOLEAN TRUE", b"CHAR x", b"STRING 3 abc", b"DATE 1 2 2003", b"ENUM Col 1", b"COMPOSITE Rc INTEGER 4", b"ARRAY 3 INTEGER 1 INTEGER 2 INTEGER 3"]
        targets = [("DECLARE v : INTEGER", "v"), ("DECLARE v : REAL", "v"), ("DECLARE v : BOOLEAN", "v"), ("DECLARE v : CHAR", "v"), ("DECLARE v : STRING", "v"), ("DECLARE v : DATE", "v"),
                   ("TYPE Col = (Red, Green)\nDECLARE v : Col", "v"), ("TYPE Rc\nDECLARE fld : INTEGER\nENDTYPE\nDECLARE v : Rc", "v"), ("DECLARE v : ARRAY[1:3] OF INTEGER", "v")]
        corrupt = [b"STRING 99999999999999999999 x", b"STRING 18446744073709551616 x", b"STRING 18446744073709551615 x", b"STRING 1234567890123456789 x", b"STRING 0000000000000000000000003 abc",
                   b"ARRAY 99999999999999999999 INTEGER 1", b"ENUM Col 99999999999999999999", b"DATE 99999999999999999999 1 2000", b"DATE 1 1 99999999999999999999", b"INTEGER -99999999999999999999", b"REAL 1e99999999999999999999",
                   b"STRING abc", b"STRING 999999999999999 x", b"STRING -1 x", b"STRING 5 ab", b"STRING", b"STRING 3", b"DATE 300 300 99999", b"DATE 31 2 2020", b"DATE 1 1", b"DATE -1 1 2000",
                   b"INTEGER 99999999999999999999", b"INTEGER x", b"INTEGER", b"REAL 1e999", b"REAL x", b"BOOLEAN MAYBE", b"CHAR", b"CHAR ", b"ENUM Col 7", b"ENUM Nope 0", b"ENUM Col -1", b"ENUM Col 2", b"ENUM Col 3", b"ENUM Col 0", b"ENUM Col 18446744073709551615", b"ENUM Col 4294967296", b"ENUM Col 4294967297",
                   b"COMPOSITE Rc", b"COMPOSITE Nope INTEGER 1", b"COMPOSITE Rc STRING 1 a", b"ARRAY 2 INTEGER 1 INTEGER 2", b"ARRAY 3 INTEGER 1", b"ARRAY 18446744073709551615 INTEGER 1", b"ARRAY -1",
                   b"#", b"##\n#", b"\x00\xff\xfe", b" ", b"\n\n\n", b"INTEGER 5\n#cont\n#cont2", b"#lead\nINTEGER 5"]
        cases = []
        j = 0
        for decl, v in targets:
            pool = valid + corrupt + [mutate(r, x) for x in valid for _ in range(sizes(tier, 2, 12))]
            use = "OUTPUT v[1], v[3]" if "ARRAY" in decl else ("OUTPUT v.fld" if "Rc" in decl else ("OUTPUT v\nOUTPUT v + 1\nOUTPUT v = Red" if "Col" in decl else "OUTPUT v"))
            for content in pool:
                j += 1
                prog = "%s\nOPENFILE \"in.dat\" FOR RANDOM\nSEEK \"in.dat\", 1\nGETRECORD \"in.dat\", %s\nOUTPUT \"loaded\"\n%s\nCLOSEFILE \"in.dat\"\n" % (decl, v, use)
                cases.append(Case(id="C01-rf-%d" % j, prog=prog.encode(), files={"in.dat": ("f", content + r.choice([b"", b"\n"]))}, meta=dict(compare=("exit", "diagkind"))))
        for i in range(sizes(tier, 60, 2000)):
            content = bytes(r.randrange(256) for _ in range(r.randint(0, 200)))
            cases.append(Case(id="C01-tf-%d" % i, prog=b"OPENFILE \"t.txt\" FOR READ\nWHILE NOT EOF(\"t.txt\")\nREADFILE \"t.txt\", s\nOUTPUT LENGTH(s)\nENDWHILE\n", files={"t.txt": ("f", content)}))
        for ch in chunks(cases, 500):
            yield ("data-files", ch)
        # (e) first-assignment matrix: a variable declared implicitly by its first assignment (a value of every kind: enum literal / variable of two enum types, record and
        #     pointer variables of two types each, an array element, the primitives) and then assigned a value of every kind, used, and passed on
        pre = ["TYPE Col = (Red, Green)", "TYPE Shp = (Sq, Tri, Dot)", "DECLARE ecol : Col", "DECLARE eshp : Shp", "ecol <- Green", "eshp <- Tri",
               "TYPE RecA\nDECLARE f : INTEGER\nENDTYPE", "TYPE RecB\nDECLARE f : INTEGER\nENDTYPE", "DECLARE ra : RecA", "DECLARE rb : RecB", "TYPE PI = ^INTEGER", "TYPE PS = ^STRING",
               "DECLARE pi : PI", "DECLARE ps : PS", "n0 <- 5", "s0 <- \"s\"", "pi <- ^n0", "ps <- ^s0", "DECLARE arr : ARRAY[1:2] OF Col", "arr[1] <- Red"]
        pre_lines = []
        for e in pre: pre_lines += e.split("\n")
        vals = ["Red", "Sq", "ecol", "eshp", "ecol + 1", "ra", "rb", "pi", "ps", "arr[1]", "5", "2.5", "\"str\"", "'c'", "TRUE", "1/1/2020", "^n0"]
        cases = []
        for i, a in enumerate(vals):
            for j, b in enumerate(vals):
                L = pre_lines + ["x <- %s" % a, "OUTPUT \"first\"", "x <- %s" % b, "OUTPUT \"second\"", "y <- x", "OUTPUT \"copied\"", "x <- %s" % a, "OUTPUT \"third\""]
                cases.append(Case(id="C01-first-%d-%d" % (i, j), prog=("\n".join(L) + "\n").encode(), meta=dict(units=["first/%d/%d" % (i, j)])))
        for ch in chunks(cases, 300):
            yield ("first-assignment", ch)
        # (f) literals at and beyond every numeric limit, in each position of each literal form (date d/m/y components, integer, real mantissa / exponent, record addresses, array bounds, CHR / SEEK arguments), file mode and REPL
        bigs = ["0", "00000000000000000000000001", "255", "256", "32767", "32768", "65535", "65536", "4294967295", "4294967296", "9223372036854775807", "9223372036854775808", "18446744073709551615", "18446744073709551616",
                "99999999999999999999", "123456789012345678901234567890", "9" * 60]
        lits = []
        for b in bigs:
            lits += ["%s/1/2020" % b, "1/%s/2020" % b, "1/1/%s" % b, "%s/%s/%s" % (b, b, b), b, "- " + b, b + ".5", "0." + b, "1e" + b, "1e-" + b, b + "e" + b,
                     "CHR(%s)" % b, "SETDATE(%s, 1, 2020)" % b, "SETDATE(1, 1, %s)" % b, "RAND(%s)" % b, "MID(\"abc\", %s, 1)" % b, "LEFT(\"abc\", %s)" % b]
        cases = []
        for i, l in enumerate(lits):
            cases.append(Case(id="C01-lit-%d" % i, prog=("OUTPUT \"before\"\nx <- %s\nOUTPUT \"after\"\nOUTPUT x\n" % l).encode(), meta=dict(units=["lit/%d" % i])))
        for j, b in enumerate(bigs):
            cases.append(Case(id="C01-litdecl-%d" % j, prog=("DECLARE a : ARRAY[1:%s] OF INTEGER\nOUTPUT \"declared\"\n" % b).encode(), meta=dict(units=["litdecl/%d" % j])))
            cases.append(Case(id="C01-litseek-%d" % j, prog=("OPENFILE \"s.dat\" FOR RANDOM\nSEEK \"s.dat\", %s\nOUTPUT \"sought\"\n" % b).encode(), meta=dict(units=["litseek/%d" % j])))
        yield ("literal-limits", cases)
        yield ("literal-limits-repl", [repl_case("C01-lit-repl-%d" % k, ch, meta=dict(units=ch)) for k, ch in enumerate(chunks(lits, 60))])

    SETUP_LINES = []
    for s in SETUP:
        SETUP_LINES += s.split("\n")
        if "\n" in s: SETUP_LINES.append("")

    C01 = dict(cases=c01_cases, builds=["normal", "san"], compare=("exit", "diagkind"), timeout=60,
               nontrivial=lambda c, r, m: True,
               rule="byte- and token-level mutants and splices (<= 2 KiB) of the repository's tests/examples and generator output, in file mode with and without -p and six stdin shapes; "
                    "token sequences of length 1, 2 (all in thorough, sampled in quick) and 3 (sampled) over a 110-item vocabulary as REPL entries after a setup prelude; arbitrary stdin "
                    "for INPUT into every type; corrupt and mutated record files read with GETRECORD into every type and arbitrary bytes read with READFILE; both the normal and the "
                    "sanitizer build must end with exit 0/1 and no signal / sanitizer report, and agree with the model on exit status and diagnostic kinds; unit = one program / entry",
               assumptions=["signed 64-bit overflow wraps (sanitizer runs exclude signed-integer-overflow and float-cast-overflow)", "bounds: nesting and call depth by the budget hook"],
               trusted=["memory safety of the C++ runtime is exhibited only by the sanitizer runs; the theorem covers the logic"])

    # ------------------------------------------------------------------ C10
    COMMENT_TEXTS = ["", " plain", "123", "\"unterminated", "'", " IF THEN ENDIF", "//", " 1/2/2020", "/", "\t tab", " \\", " ##", "9/9", " OUTPUT \"x\""]

    def layout_variants(r, lines, n):
        """yield (name, bytes, line_map) : line_map[i] = new 1-based line of original line i+1"""
        out = []
        for v in range(n):
            kind = r.choice(["indent", "wide", "tabs", "blank", "comment-lines", "trailing", "crlf", "mix"])
            sep = " "; nl = "\n"
            new = []; lmap = []
            for i, ln in enumerate(lines):
                pre = ""
                if kind in ("blank", "mix") and r.random() < 0.3:
                    for _ in range(r.randint(1, 3)): new.append("" if r.random() < 0.7 else "   ")
                if kind in ("comment-lines", "mix") and r.random() < 0.3:
                    for _ in range(r.randint(1, 2)): new.append(r.choice(["", "  ", "\t"]) + "//" + r.choice(COMMENT_TEXTS))
                if kind in ("indent", "mix"): pre = " " * r.randint(0, 8)
                if kind == "tabs": pre = "\t" * r.randint(0, 3)
                s = sep
                if kind == "wide": s = " " * r.randint(1, 4)
                if kind == "tabs": s = r.choice([" ", "\t", " \t"])
                text = pre + s.join(ln)
                if kind in ("trailing", "mix") and r.random() < 0.5:
                    text += r.choice(["", " ", "\t"]) + "//" + r.choice(COMMENT_TEXTS)
                lmap.append(len(new) + 1)
                new.append(text)
            if kind == "crlf": nl = "\r\n"
            out.append((kind, (nl.join(new) + nl).encode("latin1"), lmap))
        return out

    def c10_cases(tier, seed):
        nprog = sizes(tier, 250, 4000)
        nvar = sizes(tier, 6, 20)
        cases = []
        for i in range(nprog):
            r = rng_for(seed, "C10", i)
            g, lines = gen_program(seed, "C10", i, max_depth=3, err_rate=0.06, fault_prob=0.5)
            if i % 5 == 4 and lines:
                # erroneous variant: break one line
                j = r.randrange(len(lines)); lines = lines[:j] + [lines[j] + [r.choice([")", "THEN", "<-", "ENDIF", "1"])]] + lines[j + 1:]
            base = render(lines)
            cases.append(Case(id="C10-%d-base" % i, prog=base, stdin=b"7\nabc\n", meta=dict(pair=i, role="base")))
            for v, (kind, prog, lmap) in enumerate(layout_variants(r, lines, nvar)):
                cases.append(Case(id="C10-%d-%s%d" % (i, kind, v), prog=prog, stdin=b"7\nabc\n", meta=dict(pair=i, role="variant", kind=kind, lmap=lmap)))
        for ch in chunks(cases, (nvar + 1) * 60):
            yield ("layout-variants", ch)
        # exhaustive single-line trailing comment insertion for small programs
        small = ["x <- 1\nOUTPUT x\nIF x = 1 THEN\nOUTPUT \"one\"\nELSE\nOUTPUT \"other\"\nENDIF\nFOR i <- 1 TO 2\nOUTPUT i\nNEXT i\nOUTPUT 10 / 4\n",
                 "DECLARE a : ARRAY[1:2] OF INTEGER\na[1] <- 5\nTYPE R\nDECLARE f : INTEGER\nENDTYPE\nDECLARE r : R\nr.f <- a[1]\nOUTPUT r.f\nCASE OF x\n1 : OUTPUT 1\nOTHERWISE : OUTPUT 2\nENDCASE\nOUTPUT 1 DIV 0\n",
                 "PROCEDURE P(BYREF q : INTEGER)\nq <- q + 1\nENDPROCEDURE\nz <- 1\nCALL P(z)\nOUTPUT z\nREPEAT\nz <- z + 1\nUNTIL z > 3\nWHILE z > 0 DO\nz <- z - 2\nENDWHILE\nOUTPUT z\n",
                 "OUTPUT 1\nOUTPUT 2 +\nOUTPUT 3\n", "OUTPUT 12\nOUTPUT 3.5\nOUTPUT 1/2/2020\nd <- 7\nOUTPUT d\nOUTPUT 9 +\n"]
        cases = []
        for pi, ptxt in enumerate(small):
            ls = ptxt.split("\n")[:-1]
            cases.append(Case(id="C10-small-%d-base" % pi, prog=ptxt.encode(), meta=dict(pair="s%d" % pi, role="base")))
            for li in range(len(ls)):
                for ct in COMMENT_TEXTS:
                    for gap in ["", " "]:
                        new = list(ls); new[li] = new[li] + gap + "//" + ct
                        cases.append(Case(id="C10-small-%d-%d-%s%s" % (pi, li, ct.encode().hex(), gap.encode().hex()), prog=("\n".join(new) + "\n").encode(), meta=dict(pair="s%d" % pi, role="variant", kind="trailing1", lmap=list(range(1, len(ls) + 1)))))
        for pi in range(len(small)):
            yield ("single-trailing-comment", [c for c in cases if c.meta["pair"] == "s%d" % pi])
        # corpus programs (tests / examples) under CRLF, indentation, blank lines
        cases = []
        for name, p in corpus_programs():
            if name in ("files.pseudo", "random_files.pseudo", "CopyFile.pseudo"): continue
            if re.search(rb"\b(RAND|TODAY|TIME|HOURS|MINUTES|SECONDS)\b", p): continue
            cases.append(Case(id="C10-corpus-%s-base" % name, prog=p, stdin=b"5\n7\n3\n1\n", meta=dict(pair="c" + name, role="base")))
            ls = p.replace(b"\r", b"").split(b"\n")
            cases.append(Case(id="C10-corpus-%s-crlf" % name, prog=b"\r\n".join(ls), stdin=b"5\n7\n3\n1\n", meta=dict(pair="c" + name, role="variant", kind="crlf", lmap=list(range(1, len(ls) + 1)))))
            cases.append(Case(id="C10-corpus-%s-ind" % name, prog=b"\n".join(b"\t  " + l for l in ls), stdin=b"5\n7\n3\n1\n", meta=dict(pair="c" + name, role="variant", kind="indent", lmap=list(range(1, len(ls) + 1)))))
            cases.append(Case(id="C10-corpus-%s-cmt" % name, prog=b"\n".join(l + b" // c 1/2/3 \"" for l in ls), stdin=b"5\n7\n3\n1\n", meta=dict(pair="c" + name, role="variant", kind="trailing", lmap=list(range(1, len(ls) + 1)))))
        yield ("corpus", cases)

    c10_base = {}
    def c10_oracle(c, r, m):
        key = c.meta.get("pair")
        def sig(res):
            return (res.out, res.exit, [d.kind for d in res.diags])
        if c.meta.get("role") == "base":
            c10_base[key] = (sig(r), [(d.kind, d.line, tuple(t[1] for t in d.trace)) for d in r.diags])
            return []
        base = c10_base.get(key)
        if base is None: return []
        msgs = []
        if base[0] != sig(r):
            msgs.append("layout variant (%s) behaves differently: stdout/exit/error kinds %r vs original %r" % (c.meta.get("kind"), (r.out[-120:], r.exit, [d.kind for d in r.diags]), (base[0][0][-120:], base[0][1], base[0][2])))
        else:
            lmap = c.meta.get("lmap")
            for (k, line, tr), d in zip(base[1], r.diags):
                if k == "runtime":
                    exp = [lmap[l - 1] if 1 <= l <= len(lmap) else None for l in tr]
                    got = [t[1] for t in d.trace]
                    if all(e is not None for e in exp) and exp != got:
                        msgs.append("traceback lines %r, expected the original lines %r moved to %r" % (got, list(tr), exp))
                elif 1 <= line <= len(lmap):
                    if d.line != lmap[line - 1]:
                        msgs.append("diagnostic line %d, expected original line %d moved to %d" % (d.line, line, lmap[line - 1]))
        return msgs

    C10 = dict(cases=c10_cases, oracle=c10_oracle, compare=("out", "exit", "diag"), nontrivial=lambda c, r, m: c.meta.get("role") == "variant",
               rule="generator programs (valid and with one injected fault or broken line) each rendered in 6 (quick) / 20 (thorough) layouts: re-indent, wider gaps, tabs, blank lines, "
                    "full-line comments, trailing comments on a random subset of lines with fuzzed comment text (digits, quotes, keywords, date-like text directly after //), CRLF, mixtures; "
                    "exhaustive single-line trailing-comment insertion (14 comment texts x with/without gap) for five small programs; repository tests/examples under CRLF / indentation / "
                    "comments; judged on the real interpreter alone (same stdout, exit, error kinds, diagnostic lines moved exactly) and compared with the model; non-trivial = a variant "
                    "whose bytes differ from the original")

    # ------------------------------------------------------------------ C11
    RT_FAULTS = {"undefined": ["OUTPUT undefined_name_zz"], "type": ["zz_i <- 1", "zz_i <- \"s\""], "oob": ["DECLARE zz_a : ARRAY[1:2] OF INTEGER", "zz_a[3] <- 1"],
                 "divzero": ["OUTPUT 1 DIV 0"], "notopen": ["WRITEFILE \"nofile.txt\", 1"],
                 # errors raised INSIDE a built-in: the innermost frame is the built-in (no source position), then the line that called it, then the call sites
                 "builtin-mid": ["OUTPUT MID(\"abc\", 10, 1)"], "builtin-nested": ["zz_q <- 1 + LENGTH(LEFT(\"abc\", 9))"], "builtin-right": ["OUTPUT RIGHT(\"abc\", - 1)"], "builtin-date": ["zz_d <- SETDATE(31, 2, 2020)"]}
    RT_BUILTIN = {"builtin-mid": "MID", "builtin-nested": "LEFT", "builtin-right": "RIGHT", "builtin-date": "SETDATE"}

    def c11_cases(tier, seed):
        shapes = [("x.\nOUTPUT 1", 1), ("OUTPUT \"a\"\nx <- (1 +\nOUTPUT 2", 2), ("OUTPUT 1\nIF TRUE THEN\nOUTPUT 2", None), ("OUTPUT 1\nOUTPUT \"unterminated", None), ("OUTPUT 1\nx <- 1 == 2", 2),
                  ("OUTPUT 1\nx <- 'ab'", 2), ("OUTPUT 1\n$", 2), ("OUTPUT 1\nOUTPUT(2)", 2), ("OUTPUT 1\nNEXT", 2), ("OUTPUT 1\nFOR i <- 1 TO 2\nNEXT j", 3), ("OUTPUT 1\nx <- 99999999999999999999", 2),
                  ("OUTPUT 1\nPROCEDURE P\nPROCEDURE Q\nENDPROCEDURE\nENDPROCEDURE", 3), ("OUTPUT \"a\\nb\\nc\"\nx <- '\\n'\ny <- )", 3), ("s <- \"\\n\\n\"\nOUTPUT s\nIF THEN", 3), ("OUTPUT 1\nCASE OF 5\nENDCASE", 2), ("OUTPUT 1\nTYPE T = 5", 2), ("OUTPUT 1\nDECLARE : INTEGER", 2),
                  # faults noticed only at the end of their line
                  ("OUTPUT 1\ntotal <- 40 +\nOUTPUT 2", 2), ("OUTPUT 1\nOUTPUT\nOUTPUT 2", 2), ("OUTPUT 1\n\n\nx <-\n\nOUTPUT 2", 4), ("OUTPUT 1\nCALL\nOUTPUT 2", 2), ("OUTPUT 1\nx <- 1 +  // why\nOUTPUT 2", 2),
                  ("OUTPUT 1\nDECLARE x :\nOUTPUT 2", 2), ("OUTPUT 1\nx <- LENGTH(\"a\"\nOUTPUT 2", 2), ("OUTPUT 1\nINPUT\nOUTPUT 2", 2), ("OUTPUT 1\r\nx <- 2 *\r\nOUTPUT 2", 2), ("OUTPUT 1\nx <- 2 *", 2), ("x <- NOT", 1),
                  # a literal that is out of range is a fault of the source text wherever it stands, also in a branch never taken
                  ("OUTPUT 1\nIF FALSE THEN\nx <- 99999999999999999999\nENDIF\nOUTPUT 2", 3), ("OUTPUT 1\nPROCEDURE Never()\nOUTPUT 123456789012345678901234567890\nENDPROCEDURE\nOUTPUT 2", 3)]
        # terminator family: every block construct closed by every OTHER construct's terminator, by nothing (end of input), or by its own terminator misspelt —
        # always a syntax fault; the sentinel OUTPUT / file creation in front must not run
        CONSTRUCTS = [("IF x = 1 THEN\nOUTPUT \"b\"", "ENDIF"), ("IF x = 1 THEN\nOUTPUT \"b\"\nELSE\nOUTPUT \"c\"", "ENDIF"), ("CASE OF x\n1: OUTPUT \"b\"\n2: OUTPUT \"c\"", "ENDCASE"),
                      ("CASE OF x\n1: OUTPUT \"b\"\nOTHERWISE: OUTPUT \"c\"", "ENDCASE"), ("CASE OF x\n1 TO 3: OUTPUT \"b\"\nOTHERWISE: OUTPUT \"c\"\nOUTPUT \"d\"", "ENDCASE"),
                      ("WHILE x < 1 DO\nx <- x + 1", "ENDWHILE"), ("REPEAT\nx <- x + 1", "UNTIL x > 0"), ("FOR i <- 1 TO 2\nOUTPUT i", "NEXT i"),
                      ("PROCEDURE Pq()\nOUTPUT \"b\"", "ENDPROCEDURE"), ("FUNCTION Fq() RETURNS INTEGER\nRETURN 1", "ENDFUNCTION"), ("TYPE Tq\nDECLARE f : INTEGER", "ENDTYPE")]
        TERMS = ["ENDIF", "ENDCASE", "ENDWHILE", "UNTIL x > 0", "NEXT i", "NEXT", "ENDPROCEDURE", "ENDFUNCTION", "ENDTYPE", "ELSE", "OTHERWISE", "", "ENDCAS", "END IF"]
        pre_t = "OUTPUT \"SENTINEL\"\nOPENFILE \"sentinel.txt\" FOR WRITE\nCLOSEFILE \"sentinel.txt\"\nx <- 1"
        for body, own in CONSTRUCTS:
            for t_ in TERMS:
                if t_ == own or (own == "NEXT i" and t_ == "NEXT") or (t_ == "ELSE" and body.startswith("IF") and "ELSE" not in body) or (t_ == "OTHERWISE" and body.startswith("CASE") and "OTHERWISE" not in body): continue
                for after in ("", "\nOUTPUT \"after\""):
                    shapes.append((pre_t + "\n" + body + ("\n" + t_ if t_ else "") + after, None))
        yield ("syntax-shapes", [Case(id="C11-shape-%d" % i, prog=(s + "\n").encode(), meta=dict(kind="syntax", line=ln, nlines=s.count("\n") + 1, shape=True)) for i, (s, ln) in enumerate(shapes)])
        cases = []
        n = sizes(tier, 300, 6000)
        for i in range(n):
            r = rng_for(seed, "C11", i)
            g, lines = gen_program(seed, "C11", i, max_depth=2, err_rate=0.0, fault_prob=0.0, procs=(i % 2 == 0))
            # sentinels: an OUTPUT and a file creation at the very start
            head = [["OUTPUT", '"SENTINEL"'], ["OPENFILE", '"sentinel.txt"', "FOR", "WRITE"], ["CLOSEFILE", '"sentinel.txt"'], ["INPUT", "sentinel_in"]]
            full = head + lines
            # (a) syntax faults: delete / duplicate / replace / transpose one token at a random statement
            for k in range(3):
                li = r.randrange(len(head), len(full))
                ln = list(full[li])
                ti = r.randrange(len(ln))
                how = r.choice(["del", "dup", "rep", "swap"])
                if how == "del": del ln[ti]
                elif how == "dup": ln.insert(ti, ln[ti])
                elif how == "rep": ln[ti] = r.choice(["THEN", ")", "(", "<-", "ENDIF", ",", "UNTIL", ":", "]", "=="])
                elif ti + 1 < len(ln): ln[ti], ln[ti + 1] = ln[ti + 1], ln[ti]
                if not ln: ln = [")"]
                mut = full[:li] + [ln] + full[li + 1:]
                cases.append(Case(id="C11-syn-%d-%d" % (i, k), prog=render(mut), stdin=b"in1\nin2\n", meta=dict(kind="syntax", line=li + 1, nlines=len(mut))))
        for ch in chunks(cases, 500):
            yield ("syntax-faults", ch)
        # (b) runtime faults at every depth 0..4, with the expected line chain computed from the layout
        cases = []
        n = sizes(tier, 40, 600)
        for i in range(n):
            r = rng_for(seed, "C11b", i)
            for fk, flines in RT_FAULTS.items():
                for depth in range(0, 5):
                    L = ["FUNCTION Idf(v : INTEGER) RETURNS INTEGER", "RETURN v", "ENDFUNCTION"] if i % 2 == 1 else []
                    argform = (lambda: r.choice(["(Idf(Idf(1)))", "(Idf(2) + Idf(3))", "(1)"])) if i % 2 == 1 else (lambda: "")
                    # padding statements
                    def pad():
                        for _ in range(r.randint(0, 3)): L.append(r.choice(["OUTPUT \"pad\"", "pv <- 1", "", "// note", "IF TRUE THEN", ]) )
                        # close any IF opened by the padding
                    names = ["Lvl%d" % d for d in range(1, depth + 1)]
                    call_lines = {}
                    # procedures from the deepest to the shallowest
                    fault_line = None
                    body_of = {}
                    for d in range(depth, 0, -1):
                        L.append("PROCEDURE %s%s" % (names[d - 1], "(pv : INTEGER)" if i % 2 == 1 else ""))
                        for _ in range(r.randint(0, 2)): L.append(r.choice(["OUTPUT \"in %s\"" % names[d - 1], "OUTPUT \"a\\nb\\tc\"", "ch <- '\\n'", "OUTPUT \"q\\\"q\""]))
                        if d == depth:
                            for fl in flines[:-1]: L.append(fl)
                            L.append(flines[-1]); fault_line = len(L)
                        else:
                            L.append("CALL %s%s" % (names[d], argform())); call_lines[d] = len(L)
                        L.append("OUTPUT \"not reached\"")
                        L.append("ENDPROCEDURE")
                        for _ in range(r.randint(0, 2)): L.append(r.choice(["", "// c"]))
                    for _ in range(r.randint(0, 3)): L.append(r.choice(["OUTPUT \"main\"", "OUTPUT \"x\\ny\\n\"", "OUTPUT '\\n'"]))
                    if depth == 0:
                        for fl in flines[:-1]: L.append(fl)
                        L.append(flines[-1]); fault_line = len(L)
                        chain = [("Program", fault_line)]
                    else:
                        L.append("CALL %s%s" % (names[0], argform())); call_lines[0] = len(L)
                        chain = [(names[depth - 1], fault_line)]
                        for d in range(depth - 1, 0, -1): chain.append((names[d - 1], call_lines[d]))
                        chain.append(("Program", call_lines[0]))
                    L.append("OUTPUT \"not reached\"")
                    if fk in RT_BUILTIN: chain = [(RT_BUILTIN[fk], 0)] + chain
                    cases.append(Case(id="C11-rt-%d-%s-%d" % (i, fk, depth), prog=("\n".join(L) + "\n").encode(), meta=dict(kind="runtime", chain=chain)))
        # call sites whose argument binding itself makes calls; an error inside a function called from an index expression (two former defects)
        extra = [('DECLARE A : ARRAY[1:3] OF INTEGER\nFUNCTION F(n : INTEGER) RETURNS INTEGER\n    RETURN n\nENDFUNCTION\nPROCEDURE P(BYREF p : INTEGER)\n    OUTPUT 1 DIV 0\nENDPROCEDURE\nA[1] <- 0\nCALL P(A[F(1)])\n', [("P", 6), ("Program", 9)]), ('TYPE E = (A, B)\nDECLARE A : ARRAY[1:3] OF INTEGER\nFUNCTION F(n : INTEGER) RETURNS INTEGER\n    OUTPUT zzz\n    RETURN n\nENDFUNCTION\nOUTPUT A[F(1)]\nOUTPUT "after"\n', [("F", 4), ("Program", 7)]),
                 ("DECLARE A : ARRAY[1:3] OF INTEGER\nFUNCTION F(n : INTEGER) RETURNS INTEGER\nRETURN n\nENDFUNCTION\nFUNCTION G(BYREF p : INTEGER, BYVAL q : INTEGER) RETURNS INTEGER\nRETURN p DIV q\nENDFUNCTION\nA[2] <- 5\nOUTPUT G(A[F(F(2))], F(0))\nOUTPUT \"not reached\"", [("G", 6), ("Program", 9)]),
                 ("DECLARE A : ARRAY[1:3] OF INTEGER\nFUNCTION F(n : INTEGER) RETURNS INTEGER\nRETURN n\nENDFUNCTION\nPROCEDURE Inner(BYREF p : INTEGER)\nOUTPUT undefined_zz\nENDPROCEDURE\nPROCEDURE Outer(BYREF r : INTEGER)\nCALL Inner(A[F(r)])\nENDPROCEDURE\nA[1] <- 1\nCALL Outer(A[F(1)])\nOUTPUT \"not reached\"", [("Inner", 6), ("Outer", 9), ("Program", 12)])]
        for j, (ptxt, chain) in enumerate(extra):
            cases.append(Case(id="C11-rtx-%d" % j, prog=(ptxt.rstrip("\n") + "\n").encode(), meta=dict(kind="runtime", chain=chain)))
        for ch in chunks(cases, 500):
            yield ("runtime-faults", ch)

    def c11_oracle(c, r, m):
        k = c.meta.get("kind")
        msgs = []
        if k == "syntax":
            # a mutant may still be a valid program: it is a syntax fault iff the real interpreter reports one (cross-checked with the model by the comparison)
            syn = [d for d in r.diags if d.kind == "syntax"]
            if syn:
                if b"SENTINEL" in r.out: msgs.append("a statement ran before the syntax error was reported: stdout %r" % r.out[:60])
                if c.meta.get("shape") and r.out.strip() != b"": msgs.append("a statement ran before the syntax error was reported: stdout %r" % r.out[:60])
                if "sentinel.txt" in r.files: msgs.append("a file was created although the source has a syntax error")
                if len(r.diags) != 1 or r.exit != 1: msgs.append("expected exactly one Syntax Error and exit status 1, got %r exit %d" % ([d.kind for d in r.diags], r.exit))
                d = syn[0]
                if not (1 <= d.line <= c.meta["nlines"] + 2) or d.col < 0: msgs.append("diagnostic position line %d column %d is not in the source" % (d.line, d.col))
                if c.meta.get("shape") and c.meta.get("line") and d.line != c.meta["line"]: msgs.append("fault confined to line %d reported on line %d" % (c.meta["line"], d.line))
            elif c.meta.get("shape"):
                msgs.append("the faulty source was accepted by the parser (stdout %r)" % r.out[:60])
        elif k == "runtime":
            chain = [tuple(x) for x in c.meta["chain"]]
            if not (r.exit == 1 and len(r.diags) == 1 and r.diags[0].kind == "runtime"):
                msgs.append("expected one runtime error, got %r exit %d" % ([d.kind for d in r.diags], r.exit))
            else:
                got = [(t[0], t[1]) for t in r.diags[0].trace]
                if got != chain: msgs.append("traceback %r, expected %r" % (got, chain))
            if b"not reached" in r.out: msgs.append("execution continued after the runtime error")
        return msgs

    C11 = dict(cases=c11_cases, oracle=c11_oracle, nontrivial=lambda c, r, m: bool(r.diags),
               rule="generator programs with sentinels (OUTPUT, file creation, INPUT) at the start and one token deleted / duplicated / replaced / transposed at a random statement: "
                    "if the result is a syntax fault, nothing may have run, exactly one Syntax Error, exit 1, position inside the source (+2 lines); runtime faults of five kinds at call "
                    "depth 0..4 with random padding, expected (frame, line) chain computed by the harness from its own layout; hand-built one-line syntax faults with known line; "
                    "all compared with the model (kind, line, column, trace); non-trivial = distinct case that produced a diagnostic")

    # ------------------------------------------------------------------ C12
    FAILING = {"syntax": ["x <- (", "OUTPUT )", "IF THEN"], "undefined": ["OUTPUT nope_zz", "nope_zz + 1"], "type": ["keep_i <- \"s\"", "keep_s <- 5"], "redecl": ["DECLARE keep_i : INTEGER", "CONSTANT KEEP_C = 2"],
               "const": ["KEEP_C <- 9"], "oob": ["keep_a[9] <- 1", "OUTPUT keep_a[0]"], "file": ["READFILE \"none.txt\", keep_s", "CLOSEFILE \"none.txt\"", "OPENFILE \"keep.txt\" FOR WRITE", "WRITEFILE \"none.txt\", 1", "SEEK \"none.txt\", 1",
                        # an OPENFILE the operating system refuses must leave no handle behind (probed by the CLOSEFILEs of PROBE)
                        "OPENFILE \"nodir_zz/x.txt\" FOR WRITE", "OPENFILE \"nodir_zz/x.dat\" FOR RANDOM", "OPENFILE \"nodir_zz/x.txt\" FOR APPEND", "OPENFILE \"nodir_zz/x.txt\" FOR READ"],
               # records that stop decoding half-way (written when the type had another layout / damaged files): the failing GETRECORD must leave the variable as it was
               "record": ["GETRECORD \"keeprec.dat\", keep_r", "GETRECORD \"keeparr.dat\", keep_a", "GETRECORD \"keeprec.dat\", keep_i", "GETRECORD \"keepnest.dat\", keep_n", "GETRECORD \"keeparr.dat\", keep_r", "SEEK \"keeprec.dat\", 5"],
               # failures INSIDE a routine called from the entry (function in a bare expression, in an assignment, in an OUTPUT; procedure; nested): the session state kept by the
               # interpreter while a call is active (echo mode, call depth, call-site notes) must be back to normal for the next entry
               "in-call": ["KeepShare(4, 0)", "keep_i <- KeepShare(4, 0)", "OUTPUT KeepShare(4, 0)", "CALL KeepFail", "KeepOuter(0)", "keep_a[KeepShare(1, 0)] <- 3", "KeepShare(KeepShare(1, 0), 1)"],
               "newvar": ["fresh_zz <- 1 DIV 0", "READFILE \"none.txt\", fresh_zq", "fresh_zr <- nope_zz"]}
    ESTABLISH = ["DECLARE keep_i : INTEGER", "keep_i <- 41", "DECLARE keep_s : STRING", "keep_s <- \"kept\"", "CONSTANT KEEP_C = 7", "DECLARE keep_a : ARRAY[1:2] OF INTEGER", "keep_a[1] <- 11",
                 "TYPE KeepE = (K1, K2)", "DECLARE keep_e : KeepE", "keep_e <- K2", "PROCEDURE KeepP\nOUTPUT \"proc ok\"\nENDPROCEDURE", "OPENFILE \"keep.txt\" FOR WRITE", "WRITEFILE \"keep.txt\", \"first\"",
                 "FUNCTION KeepShare(a : INTEGER, b : INTEGER) RETURNS INTEGER\nRETURN a DIV b\nENDFUNCTION", "PROCEDURE KeepFail\nOUTPUT 1 DIV 0\nENDPROCEDURE",
                 "FUNCTION KeepOuter(z : INTEGER) RETURNS INTEGER\nRETURN KeepShare(8, z) + 1\nENDFUNCTION",
                 "TYPE KeepR\nDECLARE a : INTEGER\nDECLARE b : STRING\nDECLARE c : ARRAY[1:2] OF INTEGER\nENDTYPE", "DECLARE keep_r : KeepR", "keep_r.a <- 5", "keep_r.b <- \"old\"", "keep_r.c[2] <- 6",
                 "TYPE KeepN\nDECLARE k : INTEGER\nDECLARE inner : KeepR\nENDTYPE", "DECLARE keep_n : KeepN", "keep_n.k <- 8", "keep_n.inner.a <- 9", "keep_a[2] <- 12",
                 "OPENFILE \"keeprec.dat\" FOR RANDOM", "OPENFILE \"keeparr.dat\" FOR RANDOM", "OPENFILE \"keepnest.dat\" FOR RANDOM"]
    KEEPFILES = {"keeprec.dat": ("f", b"COMPOSITE KeepR INTEGER 111 INTEGER 222 ARRAY 2 INTEGER 1 INTEGER 2\n"), "keeparr.dat": ("f", b"ARRAY 2 INTEGER 55 STRING 1 x\n"),
                 "keepnest.dat": ("f", b"COMPOSITE KeepN INTEGER 77 COMPOSITE KeepR INTEGER 99 STRING 3 new ARRAY 2 INTEGER 1 BOOLEAN TRUE\n")}
    PROBE = ["keep_i", "keep_s", "KEEP_C", "keep_a[1]", "keep_e", "CALL KeepP", "KeepShare(9, 3)", "KeepOuter(2)", "keep_i + 1", "\"echo\" & keep_s", "WRITEFILE \"keep.txt\", \"second\"", "fresh_zz", "fresh_zq", "fresh_zr",
             "keep_a[2]", "keep_r.a", "keep_r.b", "keep_r.c[1]", "keep_r.c[2]", "keep_n.k", "keep_n.inner.a", "keep_n.inner.b", "keep_n.inner.c[1]",
             "CLOSEFILE \"nodir_zz/x.txt\"", "CLOSEFILE \"nodir_zz/x.dat\"", "CLOSEFILE \"keeprec.dat\"", "CLOSEFILE \"keeparr.dat\"", "CLOSEFILE \"keepnest.dat\""]

    def split_entries(lines):
        """group rendered lines into REPL entries: block constructs (and everything up to their end) form one entry"""
        ents = []; cur = []; depth = 0
        opens = {"IF", "WHILE", "REPEAT", "FOR", "CASE", "PROCEDURE", "FUNCTION", "TYPE"}
        closes = {"ENDIF", "ENDWHILE", "UNTIL", "NEXT", "ENDCASE", "ENDPROCEDURE", "ENDFUNCTION", "ENDTYPE"}
        for ln in lines:
            first = ln[0] if ln else ""
            if first in opens and not (first == "TYPE" and "=" in ln): depth += 1
            cur.append(" ".join(ln))
            if first in closes: depth -= 1
            if depth == 0:
                ents.append("\n".join(cur)); cur = []
        if cur: ents.append("\n".join(cur))
        return ents

    def c12_cases(tier, seed):
        # (a)+(b) generated programs split into entries, failing entries interleaved; file-mode twin for the failure-free version
        n = sizes(tier, 300, 8000)
        cases = []
        for i in range(n):
            r = rng_for(seed, "C12", i)
            g, lines = gen_program(seed, "C12", i, max_depth=2, err_rate=0.0, fault_prob=0.0, trace=True)
            ents = split_entries(lines)
            prog = render(lines)
            cases.append(Case(id="C12-%d-file" % i, prog=prog, stdin=b"", meta=dict(pair=i, role="file")))
            cases.append(repl_case("C12-%d-repl" % i, ents, meta=dict(pair=i, role="repl", noshrink=True)))
            # with failing entries interleaved at random positions (failing entries are single statements: no effect)
            mixed = []
            for e in ents:
                if r.random() < 0.3:
                    kind = r.choice(["syntax", "undefined", "oob_fresh"])
                    mixed.append(r.choice(["zz_q <- (", "OUTPUT nope_zz", "OUTPUT )", "nope_zz + 1", "CLOSEFILE \"none.txt\"", "SEEK \"none.txt\", 1"]))
                mixed.append(e)
            cases.append(repl_case("C12-%d-mixed" % i, mixed, meta=dict(pair=i, role="mixed", noshrink=True)))
        for ch in chunks(cases, 450):
            yield ("split-programs", ch)
        # single-line entries that END in each kind of token (in the REPL the entry text has no line break after it): same lines as a file
        endings = ["'a'", "'\\\\'", "'\\''", "'\\n'", "'\\t'", "'\\\"'", "' '", "\"\"", "\"a\"", "\"ends \\\\\"", "\"q\\\"\"", "\"t\\t\"", "\"n\\n\"", "7", "- 7", "2.5", "1e3", "12/11/2020", "TRUE", "ev", "ea[2]", "er.f", "ep^", "(1 + 2)", "LENGTH(\"ab\")", "MID(\"abc\", 2, 1)", "Col2"]
        pre = ["ev <- 3", "DECLARE ea : ARRAY[1:3] OF INTEGER", "ea[2] <- 4", "TYPE ER\nDECLARE f : INTEGER\nENDTYPE", "DECLARE er : ER", "er.f <- 6", "TYPE EP = ^INTEGER", "DECLARE ep : EP", "ep <- ^ev", "TYPE ECol = (Col1, Col2)"]
        for k, e in enumerate(endings):
            for fi, form in enumerate(("OUTPUT %s", "OUTPUT \"[\", %s", "zz%d <- %%s" % k, "OUTPUT \"x\" // c %s", "IF TRUE THEN OUTPUT %s", "OUTPUT 1 // %s")):
                lines_e = pre + [form % e, "OUTPUT \"next\"", "zz%d" % k if form.startswith("zz") else "OUTPUT \"end\""]
                pid = "E%d-%d" % (k, fi)
                # single-line IF is not valid: leave whatever both modes do to the model comparison, the pair oracle only fires when the file run succeeds
                fl = [x for x in lines_e if not (form.startswith("zz") and x == "zz%d" % k)]
                cases_e = [Case(id="C12-%s-file" % pid, prog=("\n".join(fl) + "\n").encode(), stdin=b"", meta=dict(pair=pid, role="file")),
                           repl_case("C12-%s-repl" % pid, fl, meta=dict(pair=pid, role="repl", noshrink=True)),
                           repl_case("C12-%s-echo" % pid, lines_e, meta=dict(units=[form % e], noshrink=True))]
                cases.extend(cases_e)
        yield ("entry-endings", cases[-3 * 6 * len(endings):])
        # exhaustive short histories over a small alphabet with probes
        alpha = ["v <- 1", "v <- v + 1", "DECLARE w : STRING", "w <- \"a\"", "w <- v", "v", "w", "OUTPUT v", "CONSTANT C = 3", "C <- 4", "C", "DECLARE v : INTEGER", "nope", "v <- (", "v <- 1 DIV 0", "OUTPUT \"x\", nope"]
        hl = 4 if tier == "thorough" else 3
        hist = list(itertools.product(alpha, repeat=hl)) if tier == "thorough" else [tuple(rng_for(seed, "C12h", k).choice(alpha) for _ in range(rng_for(seed, "C12hl", k).randint(2, 5))) for k in range(1500)]
        cases = [repl_case("C12-h%d" % k, list(h) + ["v", "w", "C"], meta=dict(units=["h%d" % k], noshrink=True)) for k, h in enumerate(hist)]
        for ch in chunks(cases, 500):
            yield ("short-histories", ch)
        # survival and atomicity: establish, fail, probe
        cases = []
        k = 0
        for kind, fl in FAILING.items():
            for f in fl:
                k += 1
                # (the base session first: its output is what the oracle of the failing session compares with)
                cases.append(repl_case("C12-base-%d" % k, ESTABLISH + PROBE + ["CLOSEFILE \"keep.txt\""], files=dict(KEEPFILES), meta=dict(units=["base " + f], role="survive-base", fail=f)))
                cases.append(repl_case("C12-fail-%d" % k, ESTABLISH + [f] + PROBE + ["CLOSEFILE \"keep.txt\""], files=dict(KEEPFILES), meta=dict(units=[f], role="survive", fail=f, noshrink=True)))
        yield ("survival", cases)
        # RUNFILE between entries, '?' and keyword-prefixed identifiers
        prog = b"OUTPUT \"from file\"\nfv <- 5\nOUTPUT fv\n"
        bad = b"OUTPUT \"before\"\nOUTPUT 1 DIV 0\n"
        cases = [repl_case("C12-runfile-1", ["a <- 1", "RUNFILE run.pseudo", "a", "fv", "RUNFILE bad.pseudo", "a", "RUNFILE missing.pseudo", "RUNFILE", "RUNFILE run.pseudo  ", "a + 1"], files={"run.pseudo": ("f", prog), "bad.pseudo": ("f", bad)}, meta=dict(noshrink=True)),
                 repl_case("C12-runfile-first", ["RUNFILE bare.pseudo", "1 + 5", "\"abc\" & \"def\"", "bv", "RUNFILE bare.pseudo", "bv * 2", "2.5 * 3"], files={"bare.pseudo": ("f", b"bv <- 3\nbv + 1\nLENGTH(\"four\")\nOUTPUT \"file ran\"\nbv\n")}, meta=dict(noshrink=True)),
                 repl_case("C12-runfile-later", ["x <- 2", "x", "RUNFILE bare.pseudo", "x + bv", "FUNCTION Tw(n : INTEGER) RETURNS INTEGER\nRETURN n * 2\nENDFUNCTION", "Tw(5)", "RUNFILE calls.pseudo", "Tw(x)"],
                           files={"bare.pseudo": ("f", b"bv <- 3\nbv + 1\nOUTPUT \"file ran\"\nbv\n"), "calls.pseudo": ("f", b"FUNCTION Tr(n : INTEGER) RETURNS INTEGER\nRETURN n * 3\nENDFUNCTION\nTr(4)\nOUTPUT Tr(1)\n")}, meta=dict(noshrink=True)),
                 repl_case("C12-prefix-underscore", ["FOR_total <- 1", "IF_flag <- TRUE", "TYPE_id <- 3", "WHILE_1 <- 4", "REPEAT_ <- 5", "CASE_x <- 6", "PROCEDURE_p <- 7", "FUNCTION_f <- 8", "FOR_total + TYPE_id + WHILE_1 + REPEAT_ + CASE_x + PROCEDURE_p + FUNCTION_f", "IF_flag", "count <- 2", "OUTPUT count + FOR_total", "FOR9 <- 1", "FOR9"], meta=dict(noshrink=True, role="prefix")),
                 repl_case("C12-prefix", ["FORMAT <- 1", "FORMAT", "IFx <- 2", "IFx + FORMAT", "TYPEa <- 3", "TYPEa", "WHILEY <- 4", "CASEY <- 5", "REPEATER <- 6", "PROCEDURES <- 7", "FUNCTIONAL <- 8", "WHILEY + CASEY + REPEATER + PROCEDURES + FUNCTIONAL", "?", "", "FORMAT"], meta=dict(noshrink=True, role="prefix")),
                 repl_case("C12-echo", ["5", "2.5", "10 / 4", "4 / 2", "TRUE", "'c'", "\"s\"", "1/2/2003", "TYPE E = (A, B)", "B", "TYPE P = ^INTEGER", "DECLARE p : P", "p", "x <- 3", "p <- ^x", "p", "TYPE R\nDECLARE f : INTEGER\nENDTYPE", "DECLARE r : R", "r", "x = 3", "LENGTH(\"abc\")", "1e5", "100000.0 * 100000.0 * 100000.0", "0.1 + 0.2"], meta=dict(noshrink=True)),
                 Case(id="C12-eof-in-block", mode="repl", stdin=b"x <- 1\nIF x = 1 THEN\nOUTPUT 1\n", meta=dict(noshrink=True)),
                 Case(id="C12-no-final-newline", mode="repl", stdin=b"x <- 1\nx", meta=dict(noshrink=True)),
                 Case(id="C12-exit", mode="repl", stdin=b"x <- 1\nEXIT\nx\n", meta=dict(noshrink=True))]
        yield ("repl-features", cases)

    c12_memo = {}
    def strip_repl(out, stdin=None):
        """REPL stdout -> program OUTPUT text only: prompts and markers removed (echo lines stay)"""
        from prof_expr import segments
        return b"".join(segments(out, stdin))

    def c12_oracle(c, r, m):
        role = c.meta.get("role")
        msgs = []
        if role == "file":
            c12_memo[("file", c.meta["pair"])] = (r.out, r.exit)
        elif role in ("repl", "mixed"):
            base = c12_memo.get(("file", c.meta["pair"]))
            if base is not None and base[1] == 0:
                got = strip_repl(r.out, c.stdin)
                if role == "mixed":
                    # failing entries print one line break each before their diagnostic
                    got_cmp = got.replace(b"\n", b""); exp_cmp = base[0].replace(b"\n", b"")
                else:
                    got_cmp, exp_cmp = got, base[0]
                # bare expression statements echo in the REPL only: the generator produces none at statement level
                if got_cmp != exp_cmp:
                    msgs.append("REPL session output differs from file mode: %r vs %r" % (got[-200:], base[0][-200:]))
        elif role == "survive-base":
            c12_memo[("base", c.meta["fail"])] = strip_repl(r.out, c.stdin)
        elif role == "survive":
            base = c12_memo.get(("base", c.meta["fail"]))
            got = strip_repl(r.out, c.stdin)
            if base is not None:
                # the failing entry adds exactly one line break (printed before its diagnostic); everything else must be identical
                if got.replace(b"\n", b"") != base.replace(b"\n", b"") or got.count(b"\n") != base.count(b"\n") + 1:
                    msgs.append("after the failing entry %r the session differs from the session without it: %r vs %r" % (c.meta["fail"], got[-200:], base[-200:]))
            if r.exit != 0: msgs.append("the session ended with exit status %d" % r.exit)
        return msgs

    C12 = dict(cases=c12_cases, builds_quick=["normal", "san"], model_is_oracle=("out", "exit", "files", "termination"), oracle=c12_oracle, nontrivial=lambda c, r, m: c.mode == "repl",
               rule="generated programs split into REPL entries (block constructs closed by a blank line) and compared with their file-mode run on the real interpreter, the same with "
                    "failing entries interleaved; random short histories over a 16-statement alphabet with state probes; establish / fail / probe sessions for every error kind "
                    "(syntax, undefined name, type mismatch, redeclaration, constant assignment, index out of bounds, file-state error, failing first assignment) against the session "
                    "without the failing entry; RUNFILE between entries, '?', keyword-prefixed identifiers, echo formats, end of input inside a block; all compared with the model")

    return {"C01": C01, "C10": C10, "C11": C11, "C12": C12}
